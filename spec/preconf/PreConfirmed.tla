---------------------------- MODULE PreConfirmed ----------------------------
(* The pre-confirmed chain of juno (sync/preconfirmed/chain_storage.go, poller.go,
   core/pending/state.go) -- property C20.

   `chain` is the PUBLISHED value of ChainStorage (the atomic pointer): a run of slots, oldest
   first.  A slot is what a pending.PreConfirmed carries that a reader can observe:
       [num, id, txs, cls]   block number, round identifier, transaction ids (in order),
                             keys of NewClasses.
   The slot's state diff is not a free field in the code either: AdaptPreConfirmedBlock /
   AdaptPreConfirmedWithDelta squash the per-transaction diffs in order, so here
   SlotDiff(s) = squash of TxDiff[t] for t in s.txs.

   `views` are the ChainReader values handed to readers ([asked, slots]); `canon` is the
   canonical chain above genesis (one variant index per block; head = Len(canon)).

   One action per case of the code's case analysis (computeUpdate / bootstrapChain / extend /
   replaceSlot / shouldPreserveSlot / AdvanceTo / SnapshotForBlock), plus the poller's tick split
   at the points where it waits for its environment (Height(), the data source).

   `act` / `res` are output-only (the call and what it returned); they are what the replayer
   drives and compares, together with chain, views and Reads. *)
EXTENDS Integers, Sequences, FiniteSets, TLC

CONSTANTS
  MaxHead,      \* canonical head ranges over 0..MaxHead
  MaxSlots,     \* bound on Len(chain)
  MaxTx,        \* bound on the transactions of one slot
  MaxUpd,       \* bound on writer calls (ApplyUpdate / AdvanceTo) in one behaviour
  MaxViews,     \* bound on the views handed out in one behaviour
  MaxEnv,       \* bound on head movements in one behaviour
  Blank,        \* feeder.PreConfirmedBlankIdentifier
  SK,           \* abstract state keys: storage slots, nonces, class hashes of two contracts
  C2All,        \* the keys of contract c2 (never deployed in the canonical chain)
  DeployKey,    \* the key whose write is DeployedContracts[c2]  (element of C2All)
  TxIds,        \* 1..N
  TxDiff,       \* [TxIds -> [SK -> Int]]   (NoW = not written)
  TxDecl,       \* [TxIds -> SUBSET ClassIds]   classes the transaction declares
  ClassIds,
  FullBlocks,   \* set of [id, txs]: full pre_confirmed blocks the source may serve
  Deltas,       \* set of [id, txs]: deltas the source may serve
  ClassSets,    \* sets of class ids a caller may pass as newClasses
  Variants,     \* variant indices of canonical blocks (forks)
  CanonDiff,    \* [1..MaxHead -> [Variants -> [SK -> Int]]]
  Genesis,      \* [SK -> Nat]  canonical state after block 0; Genesis[DeployKey] = 0
  CanonClasses, \* classes declared in the canonical chain (at genesis)
  Rogue         \* TRUE: also calls no well-behaved poller makes (misaligned oldestPreConf ...)

NoW == -1        \* diff: key not written
Err == -2        \* read failed: contract not deployed
NoBase == -3     \* the canonical state below the view does not exist (any more)
Miss == 0        \* transaction / receipt lookup: not found (block numbers are >= 1)

VARIABLES
  chain,    \* published chain: Seq(slot), oldest first
  canon,    \* Seq(Variants): canonical blocks 1..head
  views,    \* Seq([asked, slots]) handed to readers, never changed afterwards
  pOld,     \* oldestPreConf of the poller's current tick (head it read + 1)
  pc, pk,   \* poller control state: where it waits, and its locals
  nupd, nenv,
  act, res

vars == <<chain, canon, views, pOld, pc, pk, nupd, nenv, act, res>>
view == <<chain, canon, views, pOld, pc, pk, nupd, nenv>>

CHead == Len(canon)

NoSlot == [num |-> 0, id |-> Blank, txs |-> <<>>, cls |-> {}]
NoUpd == [kind |-> "none", id |-> Blank, txs |-> <<>>]
NoChangeUpd == [kind |-> "nochange", id |-> Blank, txs |-> <<>>]
FullUpd(b) == [kind |-> "full", id |-> b.id, txs |-> b.txs]
DeltaUpd(d) == [kind |-> "delta", id |-> d.id, txs |-> d.txs]
IdlePk == [h |-> 0, from |-> 0, id |-> "", cnt |-> 0, tip |-> NoSlot, upd |-> NoUpd, unum |-> 0, n |-> 0]

--------------------------------------------------------------------------
(* ChainReader geometry *)
Oldest(c) == c[1].num
Tip(c) == c[Len(c)].num
Contains(c, n) == Len(c) > 0 /\ n >= Oldest(c) /\ n <= Tip(c)
SuffixFrom(c, n) == SubSeq(c, n - Oldest(c) + 1, Len(c))

(* SnapshotForBlock: empty outside the range, else [n, tip] *)
SnapshotOf(c, n) == IF Contains(c, n) THEN SuffixFrom(c, n) ELSE <<>>

MkSlot(num, u, cls) == [num |-> num, id |-> u.id, txs |-> u.txs, cls |-> cls]

(* shouldPreserveSlot *)
ShouldPreserve(ex, inc) ==
  IF inc.id # ex.id /\ inc.id # Blank THEN FALSE
  ELSE IF Len(inc.txs) > Len(ex.txs) THEN FALSE
  ELSE IF Cardinality(inc.cls) > Cardinality(ex.cls) THEN FALSE
  ELSE TRUE

Ok(tag, c, aff) == [st |-> "ok", tag |-> tag, chain |-> c, aff |-> aff]
Noop(tag, c) == [st |-> "noop", tag |-> tag, chain |-> c, aff |-> NoSlot]
Rej(tag, c) == [st |-> "err", tag |-> tag, chain |-> c, aff |-> NoSlot]

(* computeUpdate + bootstrapChain + extend + replaceSlot, case by case *)
ComputeUpdate(c, u, num, baseCnt, oldest, cls) ==
  IF Len(c) = 0 THEN
    IF u.kind # "full" THEN Rej("bootstrap-not-full", c)
    ELSE IF num # oldest THEN Rej("bootstrap-wrong-height", c)
    ELSE Ok("bootstrap", <<MkSlot(num, u, cls)>>, MkSlot(num, u, cls))
  ELSE IF Oldest(c) # oldest THEN Rej("misaligned", c)
  ELSE IF num < Oldest(c) THEN Rej("below-oldest", c)
  ELSE IF num > Tip(c) + 1 THEN Rej("gap", c)
  ELSE IF num = Tip(c) + 1 THEN
    IF u.kind # "full" THEN Rej("append-not-full", c)
    ELSE Ok("extend", Append(c, MkSlot(num, u, cls)), MkSlot(num, u, cls))
  ELSE
    LET i == num - Oldest(c) + 1
        depth == Tip(c) - num
        tgt == c[i]
    IN CASE u.kind = "full" ->
              LET nx == MkSlot(num, u, cls) IN
              IF ShouldPreserve(tgt, nx) THEN Noop("preserved", c)
              ELSE Ok(IF depth = 0 THEN "replace-tip" ELSE "replace-truncate",
                      Append(SubSeq(c, 1, i - 1), nx), nx)
         [] u.kind = "delta" ->
              IF depth # 0 THEN Rej("delta-non-tip", c)
              ELSE IF Len(tgt.txs) # baseCnt THEN Rej("base-tx-count", c)
              ELSE IF tgt.id # u.id THEN Rej("delta-id-mismatch", c)
              ELSE LET nx == [tgt EXCEPT !.txs = @ \o u.txs, !.cls = @ \cup cls] IN
                   Ok("delta", Append(SubSeq(c, 1, i - 1), nx), nx)
         [] u.kind = "nochange" ->
              IF cls = {} THEN Noop("nochange-empty", c)
              ELSE IF depth # 0 THEN Rej("nochange-non-tip", c)
              ELSE IF cls \subseteq tgt.cls THEN Noop("nochange-known", c)
              ELSE LET nx == [tgt EXCEPT !.cls = @ \cup cls] IN
                   Ok("nochange-classes", Append(SubSeq(c, 1, i - 1), nx), nx)

(* AdvanceTo: [changed, chain] *)
AdvanceRes(c, o) ==
  IF Len(c) = 0 THEN [tag |-> "empty", ch |-> FALSE, chain |-> c]
  ELSE IF o = Oldest(c) THEN [tag |-> "aligned", ch |-> FALSE, chain |-> c]
  ELSE IF ~Contains(c, o) THEN [tag |-> "drop-all", ch |-> TRUE, chain |-> <<>>]
  ELSE [tag |-> "rebuild", ch |-> TRUE, chain |-> SuffixFrom(c, o)]

--------------------------------------------------------------------------
(* state diffs and reads *)
(* StateDiff.Merge applied left to right onto d: later writes win *)
MergeDiff(d, inc) == [k \in SK |-> IF inc[k] # NoW THEN inc[k] ELSE d[k]]
RECURSIVE FoldFrom(_, _, _)
FoldFrom(d, ds, i) == IF i > Len(ds) THEN d ELSE FoldFrom(MergeDiff(d, ds[i]), ds, i + 1)
FoldDiffs(d, ds) == FoldFrom(d, ds, 1)

EmptyDiff == [k \in SK |-> NoW]
TxDiffs(txs) == [i \in 1..Len(txs) |-> TxDiff[txs[i]]]
SlotDiff(s) == FoldDiffs(EmptyDiff, TxDiffs(s.txs))
SlotDecl(s) == UNION {TxDecl[s.txs[i]] : i \in 1..Len(s.txs)}

(* canonical state at block n (n <= head) of the canonical chain cn *)
CanonStateC(cn, n) == FoldDiffs(Genesis, [i \in 1..n |-> CanonDiff[i][cn[i]]])
CanonState(n) == CanonStateC(canon, n)

(* what a read of the canonical state returns: reads of an undeployed contract fail *)
ReadState(s, q) == IF q \in C2All /\ s[DeployKey] = 0 THEN Err ELSE s[q]

(* pending.State lookup over the merged diff m, falling through to the base state:
   a written key wins; an unwritten key of a contract deployed in m reads zero; else the base *)
Lookup(m, s, q) ==
  IF m[q] # NoW THEN m[q]
  ELSE IF q \in C2All /\ q # DeployKey /\ m[DeployKey] # NoW THEN 0
  ELSE ReadState(s, q)

SlotIndex(v, n) == n - v.asked + 1          \* position of block n in a non-empty view

(* ChainReader.PreConfirmedStateAt(n).<read q> as the code computes it (cn = canonical chain at
   the time of the read): merge the blocks' diffs oldest first into an empty diff, look up *)
CodeStateAtC(cn, v, n, q) ==
  IF v.asked - 1 > Len(cn) THEN NoBase
  ELSE LET ds == [i \in 1..SlotIndex(v, n) |-> SlotDiff(v.slots[i])] IN
       Lookup(FoldDiffs(EmptyDiff, ds), CanonStateC(cn, v.asked - 1), q)
CodeStateAt(v, n, q) == CodeStateAtC(canon, v, n, q)

(* ChainReader.PreConfirmedStateBeforeIndexAt(n, idx) *)
CodeStateBeforeC(cn, v, n, idx, q) ==
  IF v.asked - 1 > Len(cn) THEN NoBase
  ELSE LET j == SlotIndex(v, n)
           ds == [i \in 1..(j - 1) |-> SlotDiff(v.slots[i])]
           m1 == FoldDiffs(EmptyDiff, ds)
           m2 == FoldDiffs(m1, TxDiffs(SubSeq(v.slots[j].txs, 1, idx)))
       IN Lookup(m2, CanonStateC(cn, v.asked - 1), q)
CodeStateBefore(v, n, idx, q) == CodeStateBeforeC(canon, v, n, idx, q)

(* State.Class(k): the NewClasses of the view's blocks up to n, else the base *)
CodeClassAtC(cn, v, n, k) ==
  IF v.asked - 1 > Len(cn) THEN NoBase
  ELSE IF \E i \in 1..SlotIndex(v, n) : k \in v.slots[i].cls THEN 1
  ELSE IF k \in CanonClasses THEN 1 ELSE 0

(* TransactionByHash / ReceiptByHash: newest-first scan; result = block number or Miss *)
CodeTxLookup(v, t) ==
  LET hits == {i \in 1..Len(v.slots) : \E j \in 1..Len(v.slots[i].txs) : v.slots[i].txs[j] = t} IN
  IF hits = {} THEN Miss ELSE v.slots[CHOOSE i \in hits : \A j \in hits : j <= i].num

(* The property's own definition of the overlay: apply the blocks' diffs one block after the
   other, each block transaction by transaction, as state transformers on the canonical state *)
RECURSIVE ApplyTxsFrom(_, _, _)
ApplyTxsFrom(s, txs, i) ==
  IF i > Len(txs) THEN s
  ELSE ApplyTxsFrom([k \in SK |-> IF TxDiff[txs[i]][k] # NoW THEN TxDiff[txs[i]][k] ELSE s[k]], txs, i + 1)
ApplyTxs(s, txs) == ApplyTxsFrom(s, txs, 1)
RECURSIVE ApplyBlocksFrom(_, _, _)
ApplyBlocksFrom(s, slots, i) ==
  IF i > Len(slots) THEN s ELSE ApplyBlocksFrom(ApplyTxs(s, slots[i].txs), slots, i + 1)
ApplyBlocks(s, slots) == ApplyBlocksFrom(s, slots, 1)

SpecStateAt(v, n, q) ==
  IF v.asked - 1 > CHead THEN NoBase
  ELSE ReadState(ApplyBlocks(CanonState(v.asked - 1), SubSeq(v.slots, 1, SlotIndex(v, n))), q)

SpecStateBefore(v, n, idx, q) ==
  IF v.asked - 1 > CHead THEN NoBase
  ELSE LET j == SlotIndex(v, n)
           s1 == ApplyBlocks(CanonState(v.asked - 1), SubSeq(v.slots, 1, j - 1))
       IN ReadState(ApplyTxs(s1, SubSeq(v.slots[j].txs, 1, idx)), q)

(* everything a reader can ask of a view, as the replayer compares it *)
ViewReadsC(cn, v) ==
  [st |-> [j \in 1..Len(v.slots) |-> [q \in SK |-> CodeStateAtC(cn, v, v.slots[j].num, q)]],
   cl |-> [j \in 1..Len(v.slots) |-> [k \in ClassIds |-> CodeClassAtC(cn, v, v.slots[j].num, k)]],
   bi |-> [j \in 1..Len(v.slots) |->
             [x \in 1..(Len(v.slots[j].txs) + 1) |->
                [q \in SK |-> CodeStateBeforeC(cn, v, v.slots[j].num, x - 1, q)]]],
   tx |-> [t \in TxIds |-> CodeTxLookup(v, t)]]
ReadsC(cn, vs) == [i \in 1..Len(vs) |-> ViewReadsC(cn, vs[i])]
Reads == ReadsC(canon, views)

--------------------------------------------------------------------------
InitWith(p) ==
  /\ chain = <<>> /\ canon = <<>> /\ views = <<>>
  /\ pOld = 1 /\ pc = p /\ pk = IdlePk
  /\ nupd = 0 /\ nenv = 0
  /\ act = [name |-> "Init"] /\ res = [st |-> "ok"]
Init == InitWith("off")          \* ChainStorage driven directly
InitPoller == InitWith("idle")   \* ChainStorage driven by the poller

(* bounds on the length of a behaviour; a negative bound switches the counter off, so that the
   exhaustive configurations cover update sequences of ANY length over the bounded chain *)
Bump(x, max) == IF max < 0 THEN x' = x ELSE x < max /\ x' = x + 1

(* ---- ChainStorage.ApplyUpdate, called directly (storage level) ---- *)
ApplyCall(u, num, baseCnt, oldest, cls, tags) ==
  /\ pc = "off"
  /\ LET r == ComputeUpdate(chain, u, num, baseCnt, oldest, cls) IN
     /\ r.tag \in tags
     /\ Len(r.chain) <= MaxSlots
     /\ \A i \in 1..Len(r.chain) : Len(r.chain[i].txs) <= MaxTx
     /\ chain' = r.chain
     /\ act' = [name |-> "ApplyUpdate", u |-> u, num |-> num, base |-> baseCnt, oldest |-> oldest, cls |-> cls]
     /\ res' = [st |-> r.st, tag |-> r.tag, aff |-> r.aff]
  /\ Bump(nupd, MaxUpd)
  /\ UNCHANGED <<canon, views, pOld, pc, pk, nenv>>

Nums == 1..(MaxHead + MaxSlots + 1)
OldestChoices == IF Rogue THEN 1..(MaxHead + 2) ELSE {pOld}

Bootstrap(b, num, o, cls) == ApplyCall(FullUpd(b), num, 0, o, cls, {"bootstrap"})
Extend(b, num, o, cls) == ApplyCall(FullUpd(b), num, 0, o, cls, {"extend"})
ReplaceSlot(b, num, o, cls) == ApplyCall(FullUpd(b), num, 0, o, cls, {"replace-tip", "replace-truncate"})
PreserveSlot(b, num, o, cls) == ApplyCall(FullUpd(b), num, 0, o, cls, {"preserved"})
Delta(d, num, bc, o, cls) == ApplyCall(DeltaUpd(d), num, bc, o, cls, {"delta"})
NoChange(num, o, cls) == ApplyCall(NoChangeUpd, num, 0, o, cls, {"nochange-classes", "nochange-known", "nochange-empty"})
RejectedTags == {"bootstrap-not-full", "bootstrap-wrong-height", "misaligned", "below-oldest", "gap",
                 "append-not-full", "delta-non-tip", "base-tx-count", "delta-id-mismatch", "nochange-non-tip"}
RejectedFull(b, num, o, cls) == ApplyCall(FullUpd(b), num, 0, o, cls, RejectedTags)
RejectedDelta(d, num, bc, o, cls) == ApplyCall(DeltaUpd(d), num, bc, o, cls, RejectedTags)
RejectedNoChange(num, o, cls) == ApplyCall(NoChangeUpd, num, 0, o, cls, RejectedTags)

(* ---- ChainStorage.AdvanceTo, called directly ---- *)
AdvanceTo(o) ==
  /\ pc = "off"
  /\ (~Rogue) => o = CHead + 1
  /\ LET r == AdvanceRes(chain, o) IN
     /\ chain' = r.chain
     /\ act' = [name |-> "AdvanceTo", o |-> o]
     /\ res' = [st |-> "ok", tag |-> r.tag, ch |-> r.ch]
  /\ pOld' = o
  /\ Bump(nupd, MaxUpd)
  /\ UNCHANGED <<canon, views, pc, pk, nenv>>

(* ---- readers: ChainStorage.SnapshotForBlock(n) ---- *)
Snapshot(n) ==
  /\ Len(views) < MaxViews
  /\ views' = Append(views, [asked |-> n, slots |-> SnapshotOf(chain, n)])
  /\ act' = [name |-> "Snapshot", n |-> n]
  /\ res' = [st |-> "ok", len |-> Len(SnapshotOf(chain, n))]
  /\ UNCHANGED <<chain, canon, pOld, pc, pk, nupd, nenv>>

(* ---- readers: Synchronizer.PreConfirmedChain() (sync/sync.go): the view of the chain above the
   CURRENT head; when the storage has nothing for head+1 the reader gets a one-block view holding
   an empty placeholder block (MakeEmptyPreConfirmedForParent + NewChain) ---- *)
PlaceholderSlot(n) == [num |-> n, id |-> Blank, txs |-> <<>>, cls |-> {}]
ReaderChain ==
  /\ Len(views) < MaxViews
  /\ LET sn == SnapshotOf(chain, CHead + 1)
         sl == IF Len(sn) > 0 THEN sn ELSE <<PlaceholderSlot(CHead + 1)>> IN
     /\ views' = Append(views, [asked |-> CHead + 1, slots |-> sl])
     /\ res' = [st |-> "ok", len |-> Len(sl), fallback |-> (Len(sn) = 0)]
  /\ act' = [name |-> "ReaderChain"]
  /\ UNCHANGED <<chain, canon, pOld, pc, pk, nupd, nenv>>

(* ---- canonical head ---- *)
HeadAdvance(v) ==
  /\ CHead < MaxHead
  /\ canon' = Append(canon, v)
  /\ act' = [name |-> "HeadAdvance", v |-> v] /\ res' = [st |-> "ok"]
  /\ Bump(nenv, MaxEnv)
  /\ UNCHANGED <<chain, views, pOld, pc, pk, nupd>>

HeadRevert ==
  /\ CHead > 0
  /\ canon' = SubSeq(canon, 1, CHead - 1)
  /\ act' = [name |-> "HeadRevert"] /\ res' = [st |-> "ok"]
  /\ Bump(nenv, MaxEnv)
  /\ UNCHANGED <<chain, views, pOld, pc, pk, nupd>>

--------------------------------------------------------------------------
(* ---- the poller (poller.go), split where it waits for its environment ----
   pc = "idle":   blocked in blockchain.Height() at the start of a tick
   pc = "latest": blocked in DataSource.PreConfirmedBlockLatest(pk.id, pk.cnt)
   pc = "bynum":  blocked in DataSource.PreConfirmedBlockByNumber(pk.n, ...) during backfill
   Between two waits it runs alone (single writer); everything else interleaves at the waits. *)

(* fetchDeclaredClasses: declared by the stored tip (delta / no-change only) and by the update *)
Fetched(tip, u) ==
  (IF u.kind \in {"delta", "nochange"} THEN SlotDecl(tip) ELSE {})
    \cup (IF u.kind \in {"full", "delta"} THEN UNION {TxDecl[u.txs[i]] : i \in 1..Len(u.txs)} ELSE {})

PollerApply(c, u, num, baseCnt, cls) == ComputeUpdate(c, u, num, baseCnt, pOld, cls)

FitsBounds(c) == Len(c) <= MaxSlots /\ \A i \in 1..Len(c) : Len(c[i].txs) <= MaxTx

(* Height() returns; AdvanceTo(h+1); atTip?; SnapshotForBlock(h+1) -> hints; call Latest *)
TickStart(attip) ==
  /\ pc = "idle"
  /\ LET o == CHead + 1
         r == AdvanceRes(chain, o)
         sn == SnapshotOf(r.chain, o)
         tip == IF Len(sn) > 0 THEN sn[Len(sn)] ELSE NoSlot
     IN /\ chain' = r.chain
        /\ pOld' = o
        /\ IF attip
           THEN /\ pc' = "latest"
                /\ pk' = [IdlePk EXCEPT !.h = CHead,
                            !.from = IF Len(sn) > 0 THEN tip.num ELSE o,
                            !.id = IF Len(sn) > 0 THEN tip.id ELSE "",
                            !.cnt = Len(tip.txs), !.tip = tip]
           ELSE pc' = "idle" /\ pk' = IdlePk
        /\ act' = [name |-> "TickStart", attip |-> attip]
        /\ res' = [st |-> "ok", tag |-> r.tag, ch |-> r.ch]
  /\ Bump(nupd, MaxUpd)
  /\ UNCHANGED <<canon, views, nenv>>

(* the final apply of the tick: apply(update, updateBlockNum, txCount, oldestPreConf, nil) *)
FinalApply(c, u, unum) ==
  LET r == PollerApply(c, u, unum, pk.cnt, {}) IN
  /\ FitsBounds(r.chain)
  /\ chain' = r.chain
  /\ pc' = "idle" /\ pk' = IdlePk
  /\ res' = [st |-> r.st, tag |-> r.tag, aff |-> r.aff]

(* Latest answers (update, number) or fails *)
LatestResp(u, L, fail) ==
  /\ pc = "latest"
  /\ act' = [name |-> "LatestResp", u |-> u, num |-> L, fail |-> fail]
  /\ IF fail
     THEN /\ pc' = "idle" /\ pk' = IdlePk /\ res' = [st |-> "err", tag |-> "latest-failed", aff |-> NoSlot]
          /\ UNCHANGED chain
     ELSE LET unum == IF u.kind \in {"nochange", "delta"} THEN pk.from ELSE L IN
          IF unum > pk.from
          THEN /\ unum - pOld + 1 <= MaxSlots      \* (bound: the backfilled chain must fit)
               /\ pc' = "bynum"
               /\ pk' = [pk EXCEPT !.upd = u, !.unum = unum, !.n = pk.from]
               /\ res' = [st |-> "ok", tag |-> "backfill", aff |-> NoSlot]
               /\ UNCHANGED chain
          ELSE FinalApply(chain, u, unum)
  /\ UNCHANGED <<canon, views, pOld, nupd, nenv>>

(* ByNumber(pk.n) answers during backfill: apply it with its declared classes, then either ask
   for the next intermediate slot or apply the latest *)
ByNumResp(u, fail) ==
  /\ pc = "bynum"
  /\ act' = [name |-> "ByNumResp", u |-> u, num |-> pk.n, fail |-> fail]
  /\ IF fail
     THEN /\ pc' = "idle" /\ pk' = IdlePk /\ res' = [st |-> "err", tag |-> "bynum-failed", aff |-> NoSlot]
          /\ UNCHANGED chain
     ELSE LET first == pk.n = pk.from
              cls == Fetched(IF first THEN pk.tip ELSE NoSlot, u)
              r == PollerApply(chain, u, pk.n, IF first THEN pk.cnt ELSE 0, cls)
          IN /\ FitsBounds(r.chain)
             /\ IF r.st = "err"
                THEN /\ chain' = r.chain /\ pc' = "idle" /\ pk' = IdlePk
                     /\ res' = [st |-> r.st, tag |-> r.tag, aff |-> r.aff]
                ELSE IF pk.n + 1 < pk.unum
                THEN /\ chain' = r.chain /\ pc' = "bynum" /\ pk' = [pk EXCEPT !.n = @ + 1]
                     /\ res' = [st |-> r.st, tag |-> r.tag, aff |-> r.aff]
                ELSE (* last backfilled slot: the tick goes on to apply the latest without waiting *)
                     LET r2 == PollerApply(r.chain, pk.upd, pk.unum, pk.cnt, {}) IN
                     /\ FitsBounds(r2.chain)
                     /\ chain' = r2.chain /\ pc' = "idle" /\ pk' = IdlePk
                     /\ res' = [st |-> r2.st, tag |-> r2.tag, aff |-> r2.aff, st1 |-> r.st, tag1 |-> r.tag]
  /\ UNCHANGED <<canon, views, pOld, nupd, nenv>>

--------------------------------------------------------------------------
Updates == {NoChangeUpd} \cup {FullUpd(b) : b \in FullBlocks} \cup {DeltaUpd(d) : d \in Deltas}
AllTags == RejectedTags \cup {"bootstrap", "extend", "replace-tip", "replace-truncate", "preserved", "delta",
                               "nochange-classes", "nochange-known", "nochange-empty"}

(* block numbers worth targeting: one below the chain up to two above its tip (any other number is
   rejected for the same reason as one of these, leaving the same state) *)
NumChoices == IF Rogue THEN Nums
              ELSE IF Len(chain) = 0 THEN {pOld, pOld + 1}
              ELSE {n \in Nums : n >= Oldest(chain) - 1 /\ n <= Tip(chain) + 2}
BaseChoices == IF Rogue \/ Len(chain) = 0 THEN 0..MaxTx
               ELSE {Len(chain[Len(chain)].txs), (Len(chain[Len(chain)].txs) + 1) % (MaxTx + 1)}

(* one named top-level disjunct per case of the code (used with -coverage: every case must be
   reached) *)
BootstrapAny == \E b \in FullBlocks, num \in NumChoices, o \in OldestChoices, cls \in ClassSets : Bootstrap(b, num, o, cls)
ExtendAny == \E b \in FullBlocks, num \in NumChoices, o \in OldestChoices, cls \in ClassSets : Extend(b, num, o, cls)
ReplaceSlotAny == \E b \in FullBlocks, num \in NumChoices, o \in OldestChoices, cls \in ClassSets : ReplaceSlot(b, num, o, cls)
PreserveSlotAny == \E b \in FullBlocks, num \in NumChoices, o \in OldestChoices, cls \in ClassSets : PreserveSlot(b, num, o, cls)
RejectedFullAny == \E b \in FullBlocks, num \in NumChoices, o \in OldestChoices, cls \in ClassSets : RejectedFull(b, num, o, cls)
DeltaAny == \E d \in Deltas, num \in NumChoices, bc \in BaseChoices, o \in OldestChoices, cls \in ClassSets : Delta(d, num, bc, o, cls)
RejectedDeltaAny == \E d \in Deltas, num \in NumChoices, bc \in BaseChoices, o \in OldestChoices, cls \in ClassSets : RejectedDelta(d, num, bc, o, cls)
NoChangeAny == \E num \in NumChoices, o \in OldestChoices, cls \in ClassSets : NoChange(num, o, cls)
RejectedNoChangeAny == \E num \in NumChoices, o \in OldestChoices, cls \in ClassSets : RejectedNoChange(num, o, cls)
AdvanceToAny == \E o \in 1..(MaxHead + 2) : AdvanceTo(o)
SnapshotAny == \E n \in 1..(MaxHead + 1) : Snapshot(n)
HeadAdvanceAny == \E v \in Variants : HeadAdvance(v)

(* The same transitions up to stuttering, for fast exhaustive search: a call that the case
   analysis rejects or turns into a no-op leaves every variable of `view` unchanged
   (RejectedPublishesNothing), so only the calls that can publish something are enumerated. *)
OkTags == {"bootstrap", "extend", "replace-tip", "replace-truncate", "delta", "nochange-classes"}
LiveNums(u) ==
  IF Len(chain) = 0 THEN (IF u.kind = "full" THEN {pOld} ELSE {})
  ELSE IF u.kind = "full" THEN Oldest(chain)..(Tip(chain) + 1) ELSE {Tip(chain)}
StorageNext ==
  \/ \E u \in Updates, cls \in ClassSets : \E num \in LiveNums(u) :
        ApplyCall(u, num, IF Len(chain) = 0 THEN 0 ELSE Len(chain[Len(chain)].txs), pOld, cls, OkTags)
  \/ AdvanceTo(CHead + 1)

EnvNext ==
  \/ \E n \in 1..(MaxHead + 1) : Snapshot(n)
  \/ ReaderChain
  \/ \E v \in Variants : HeadAdvance(v)
  \/ HeadRevert

PollerNext ==
  \/ \E attip \in BOOLEAN : TickStart(attip)
  \/ \E u \in Updates, L \in NumChoices, fail \in BOOLEAN : LatestResp(u, L, fail)
  \/ \E u \in Updates, fail \in BOOLEAN : ByNumResp(u, fail)

Next == StorageNext \/ EnvNext
NextNamed ==
  \/ BootstrapAny \/ ExtendAny \/ ReplaceSlotAny \/ PreserveSlotAny \/ RejectedFullAny
  \/ DeltaAny \/ RejectedDeltaAny \/ NoChangeAny \/ RejectedNoChangeAny \/ AdvanceToAny
  \/ SnapshotAny \/ ReaderChain \/ HeadAdvanceAny \/ HeadRevert
NextPoller == PollerNext \/ EnvNext

Spec == Init /\ [][Next]_vars

--------------------------------------------------------------------------
(* Properties *)

IsSlot(s) == s.num >= 1 /\ Len(s.txs) <= MaxTx

Contiguous(slots) == \A i \in 1..(Len(slots) - 1) : slots[i + 1].num = slots[i].num + 1

TypeOK ==
  /\ \A i \in 1..Len(chain) : IsSlot(chain[i])
  /\ Len(chain) <= MaxSlots
  /\ CHead <= MaxHead
  /\ pc \in {"off", "idle", "latest", "bynum"}

(* the published chain is a gap-free run *)
ChainContiguous == Contiguous(chain)

(* every view is gap-free and, when non-empty, starts exactly at the block it was asked for
   (one above the head the reader aligned to) *)
ViewAligned(v) ==
  /\ Contiguous(v.slots)
  /\ Len(v.slots) > 0 => v.slots[1].num = v.asked
ViewsAligned == \A i \in 1..Len(views) : ViewAligned(views[i])

(* a view never changes after it was handed out *)
ViewsImmutable == [][\A i \in 1..Len(views) : views'[i] = views[i]]_vars

(* a view is exactly the part of the chain published at that moment from `asked` up *)
SnapshotIsSuffix ==
  [][act'.name = "Snapshot" =>
       LET v == views'[Len(views')] IN
       /\ \A j \in 1..Len(v.slots) : \E k \in 1..Len(chain) : chain[k] = v.slots[j]
       /\ (Len(v.slots) > 0 => v.slots[Len(v.slots)] = chain[Len(chain)])
       /\ (Len(v.slots) = 0 <=> ~Contains(chain, v.asked))]_vars

(* what the code computes (merge, then look up with fall-through) is the overlay of the view's
   blocks, in order, on the canonical state below the view *)
ViewOverlayCorrect(v) ==
  \A j \in 1..Len(v.slots) : \A q \in SK :
    /\ CodeStateAt(v, v.slots[j].num, q) = SpecStateAt(v, v.slots[j].num, q)
    /\ \A x \in 0..Len(v.slots[j].txs) :
         CodeStateBefore(v, v.slots[j].num, x, q) = SpecStateBefore(v, v.slots[j].num, x, q)
OverlayCorrect == \A i \in 1..Len(views) : ViewOverlayCorrect(views[i])

(* a lookup finds a transaction iff one of the view's blocks holds it, in a block that holds it *)
ViewLookupExact(v) ==
  \A t \in TxIds :
    LET holders == {j \in 1..Len(v.slots) : \E x \in 1..Len(v.slots[j].txs) : v.slots[j].txs[x] = t}
        r == CodeTxLookup(v, t)
    IN IF holders = {} THEN r = Miss
       ELSE \E j \in holders : v.slots[j].num = r
LookupExact == \A i \in 1..Len(views) : ViewLookupExact(views[i])

(* The same three properties for EVERY view a reader could obtain in the current state.  A view is
   a value that later steps cannot touch and the canonical chain moves independently of the
   pre-confirmed chain, so checking this in every reachable (chain, canon) state covers every
   (view, later canonical chain) pair without carrying the views in the state. *)
PotentialView(n) == [asked |-> n, slots |-> SnapshotOf(chain, n)]
EveryPotentialViewOK ==
  /\ \A n \in 1..(MaxHead + MaxSlots + 1) :
       LET v == PotentialView(n) IN ViewAligned(v) /\ ViewOverlayCorrect(v) /\ ViewLookupExact(v)
  /\ LET v == [asked |-> CHead + 1, slots |-> <<PlaceholderSlot(CHead + 1)>>] IN
     ViewAligned(v) /\ ViewOverlayCorrect(v) /\ ViewLookupExact(v)

(* after the poller realigned (every tick starts with AdvanceTo(head+1)) the chain is empty or
   starts at the slot the tick expects; hence no poller apply is ever rejected as misaligned *)
Aligned == (~Rogue /\ (pc \in {"off", "latest", "bynum"})) => (Len(chain) = 0 \/ Oldest(chain) = pOld)
PollerNeverMisaligned == [][res'.st = "err" => res'.tag # "misaligned"]_vars

(* a rejected or no-op call publishes nothing *)
RejectedPublishesNothing ==
  [][(act'.name = "ApplyUpdate" /\ res'.st \in {"err", "noop"}) => chain' = chain]_vars

(* every slot above a replaced non-tip slot is gone, nothing below changes *)
WritesAreLocal ==
  [][(act'.name = "ApplyUpdate" /\ res'.st = "ok") =>
       /\ chain'[Len(chain')] = res'.aff
       /\ \A k \in 1..(Len(chain') - 1) : k <= Len(chain) /\ chain'[k] = chain[k]]_vars

(* AdvanceTo keeps exactly the slots from the new oldest slot up, and nothing at or below the head *)
AdvanceKeepsSuffix ==
  [][act'.name \in {"AdvanceTo", "TickStart"} =>
       /\ \A k \in 1..Len(chain') : chain'[k].num >= pOld'
       /\ \A k \in 1..Len(chain') : \E j \in 1..Len(chain) : chain[j] = chain'[k]
       /\ (Contains(chain, pOld') => (Len(chain') > 0 /\ Oldest(chain') = pOld' /\ Tip(chain') = Tip(chain)))]_vars
=============================================================================

------------------------------- MODULE Feed -------------------------------
(* feed.Feed[T] (feed/feed.go): the broadcast primitive behind new-head, reorg, L1-head and
   pre-confirmed notifications.  Each subscription owns a ONE-slot buffer.  A plain subscription
   skips an event when its slot is full; a keep-last subscription replaces the slot content so the
   latest event is always the one waiting.  Not one of the listed properties on its own, but C06
   (notification order), C16 (pruner triggers) and C17 (L1 head feed) stand on it: "a subscriber
   sees a subsequence of what was sent, in order, and a keep-last subscriber never misses the
   final value".

   One action = one call: Subscribe(keepLast), Send(v), Recv(s) (non-blocking receive),
   Unsubscribe(s).  Values are the integers 1..MaxSends in send order, so "in order" is "<". *)
EXTENDS Integers, Sequences, FiniteSets, TLC

CONSTANTS MaxSubs, MaxSends, MaxSteps

Subs == 1..MaxSubs
None == 0

VARIABLES sub,      \* [Subs -> [st \in {"free","open","closed"}, keep, slot, since]]
          nsent,    \* values 1..nsent have been sent
          got,      \* [Subs -> sequence of received values]
          steps, act, res

vars == <<sub, nsent, got, steps, act, res>>
view == <<sub, nsent, got, steps>>

Init ==
  /\ sub = [s \in Subs |-> [st |-> "free", keep |-> FALSE, slot |-> None, since |-> 0]]
  /\ nsent = 0
  /\ got = [s \in Subs |-> <<>>]
  /\ steps = 0 /\ act = [name |-> "Init"] /\ res = [kind |-> "none"]

Tick == steps < MaxSteps /\ steps' = steps + 1

Subscribe(s, keep) ==
  /\ Tick /\ sub[s].st = "free"
  /\ \A t \in Subs : t < s => sub[t].st # "free"       \* ids are handed out in order
  /\ sub' = [sub EXCEPT ![s] = [st |-> "open", keep |-> keep, slot |-> None, since |-> nsent]]
  /\ act' = [name |-> "Subscribe", s |-> s, keep |-> keep] /\ res' = [kind |-> "ok"]
  /\ UNCHANGED <<nsent, got>>

Send ==
  /\ Tick /\ nsent < MaxSends
  /\ nsent' = nsent + 1
  /\ sub' = [s \in Subs |->
               IF sub[s].st = "open" /\ (sub[s].slot = None \/ sub[s].keep)
               THEN [sub[s] EXCEPT !.slot = nsent + 1] ELSE sub[s]]
  /\ act' = [name |-> "Send", v |-> nsent + 1] /\ res' = [kind |-> "ok"]
  /\ UNCHANGED got

(* non-blocking receive on the subscription's channel *)
Recv(s) ==
  /\ Tick /\ sub[s].st # "free"
  /\ IF sub[s].slot # None
     THEN /\ got' = [got EXCEPT ![s] = Append(@, sub[s].slot)]
          /\ sub' = [sub EXCEPT ![s].slot = None]
          /\ res' = [kind |-> "value", v |-> sub[s].slot]
     ELSE /\ UNCHANGED <<got, sub>>
          /\ res' = [kind |-> IF sub[s].st = "closed" THEN "closed" ELSE "empty"]
  /\ act' = [name |-> "Recv", s |-> s]
  /\ UNCHANGED nsent

(* closes the channel; a buffered value can still be drained (Go channel semantics); idempotent *)
Unsubscribe(s) ==
  /\ Tick /\ sub[s].st # "free"
  /\ sub' = [sub EXCEPT ![s].st = "closed"]
  /\ act' = [name |-> "Unsubscribe", s |-> s] /\ res' = [kind |-> "ok"]
  /\ UNCHANGED <<nsent, got>>

Next ==
  \/ \E s \in Subs, k \in BOOLEAN : Subscribe(s, k)
  \/ Send
  \/ \E s \in Subs : Recv(s) \/ Unsubscribe(s)

Spec == Init /\ [][Next]_vars

--------------------------------------------------------------------------
StrictlyIncreasing(q) == \A i \in 1..(Len(q) - 1) : q[i] < q[i + 1]

(* what a subscriber receives is a subsequence of what was sent after it subscribed, in order,
   without duplicates *)
InOrderNoDup == \A s \in Subs : StrictlyIncreasing(got[s]) /\ \A i \in 1..Len(got[s]) : got[s][i] > sub[s].since /\ got[s][i] <= nsent

(* the slot never holds something older than what was already received *)
SlotFresh == \A s \in Subs : (sub[s].slot # None /\ got[s] # <<>>) => sub[s].slot > got[s][Len(got[s])]

(* keep-last: while open, the waiting value is always the latest one sent since subscription
   (or since the last receive) — the subscriber can never be left with a stale value *)
KeepLastHasLatest ==
  \A s \in Subs : (sub[s].st = "open" /\ sub[s].keep /\ sub[s].slot # None) => sub[s].slot = nsent

(* plain: the waiting value is the FIRST one sent since the slot was last empty: nothing that
   arrives while the slot is full overwrites it *)
PlainNeverOverwrites ==
  [][\A s \in Subs : (sub[s].st = "open" /\ ~sub[s].keep /\ sub[s].slot # None /\ act'.name = "Send")
        => sub'[s].slot = sub[s].slot]_vars

(* an open subscriber with an empty slot never misses the next event *)
NoSpuriousDrop ==
  [][\A s \in Subs : (sub[s].st = "open" /\ sub[s].slot = None /\ act'.name = "Send") => sub'[s].slot = nsent']_vars

(* nothing is delivered to a closed subscription *)
ClosedGetsNothing ==
  [][\A s \in Subs : (sub[s].st = "closed" /\ act'.name = "Send") => sub'[s] = sub[s]]_vars
=============================================================================

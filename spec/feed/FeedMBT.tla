------------------------------- MODULE FeedMBT -------------------------------
EXTENDS Feed, Json
VARIABLE hist
R(S) == {RandomElement(S)}
SimNext ==
  \/ \E s \in R(Subs), k \in R(BOOLEAN) : Subscribe(s, k)
  \/ \E s \in Subs, k \in R(BOOLEAN) : Subscribe(s, k)
  \/ Send \/ Send
  \/ \E s \in R(Subs) : Recv(s)
  \/ \E s \in R(Subs) : Recv(s)
  \/ \E s \in R(Subs) : Unsubscribe(s)
MBTInit == Init /\ hist = <<>>
Step == SimNext /\ hist' = Append(hist, [a |-> act', res |-> res'])
Emit == /\ PrintT(ToJson(hist))
        /\ sub' = [s \in Subs |-> [st |-> "free", keep |-> FALSE, slot |-> None, since |-> 0]]
        /\ nsent' = 0 /\ got' = [s \in Subs |-> <<>>]
        /\ steps' = 0 /\ act' = [name |-> "Init"] /\ res' = [kind |-> "none"] /\ hist' = <<>>
MBTNext == IF steps >= MaxSteps \/ ~ENABLED SimNext THEN Emit ELSE Step
=============================================================================

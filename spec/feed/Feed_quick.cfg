CONSTANTS MaxSubs = 2 MaxSends = 4 MaxSteps = 9
INIT Init
NEXT Next
VIEW view
INVARIANTS InOrderNoDup SlotFresh KeepLastHasLatest
PROPERTIES PlainNeverOverwrites NoSpuriousDrop ClosedGetsNothing
CHECK_DEADLOCK FALSE

CONSTANTS MaxSubs = 4 MaxSends = 12 MaxSteps = 30
INIT MBTInit
NEXT MBTNext
CHECK_DEADLOCK FALSE

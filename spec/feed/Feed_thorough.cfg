CONSTANTS MaxSubs = 3 MaxSends = 5 MaxSteps = 11
INIT Init
NEXT Next
VIEW view
INVARIANTS InOrderNoDup SlotFresh KeepLastHasLatest
PROPERTIES PlainNeverOverwrites NoSpuriousDrop ClosedGetsNothing
CHECK_DEADLOCK FALSE

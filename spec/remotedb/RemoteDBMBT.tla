------------------------------ MODULE RemoteDBMBT ------------------------------
(* Behaviour generation for the replayer (harness/engines/remotedb): RemoteDB plus a history
   variable; at MaxSteps the history is printed as one JSON line and the machine is reset, so one
   long -simulate run yields many behaviours.  Every step carries the call, its result and the
   projection the replayer compares: the store, the number of running server handlers, the number
   of open server-side iterators, every client iterator's cached pair, every cursor's position. *)
EXTENDS MCRemoteDB, Json

VARIABLE hist
mbtvars == <<vars, hist>>

MBTInit == Init /\ hist = <<>>

R(S) == IF S = {} THEN {} ELSE {RandomElement(S)}
P(n) == RandomElement(1..n) = 1       \* with probability 1/n

Handlers == lost + Cardinality({s \in Streams : strm[s].srv \in {"pending", "run"}})
OpenCursors == {<<s, c>> \in Streams \X CurIds : strm[s].cur[c].open}
ClientStreams == cleak + Cardinality({s \in Streams : ~strm[s].cfin})
Proj ==
  [handlers |-> Handlers',
   cstreams |-> ClientStreams',
   iters |-> Cardinality(OpenCursors'),
   cache |-> {[s |-> s, c |-> c, k |-> cit'[s][c].ck, v |-> cit'[s][c].cv] : <<s, c>> \in {x \in Streams \X CurIds : cit'[x[1]][x[2]].made}},
   curs |-> {[s |-> x[1], c |-> x[2], pos |-> strm'[x[1]].cur[x[2]].pos] : x \in OpenCursors'}]

LiveCur(s) == {c \in CurIds : strm[s].cur[c].open}
MadeIt(s) == {c \in CurIds : cit[s][c].made}
OpenIt(s) == {c \in CurIds : cit[s][c].made /\ ~cit[s][c].closed}

(* Simulation picks uniformly among successor STATES; each schema is instantiated with one random
   parameter choice per step, so the choice is (nearly) uniform over schemas.  Schemas that matter
   most (iterator moves on open iterators, writes between them) are listed more than once; calls that
   kill a stream (misuse, ill-formed requests) and the loss of the connection are kept rare / late. *)
SimNext ==
  \/ \E k \in R(K), v \in R(Vals \cup {Absent}) : Write(k, v)
  \/ (P(2) /\ \E k \in R(K), v \in R(Vals) : Write(k, v))
  \/ \E s \in R(Streams) : TxOpen(s)
  \/ \E s \in R(Streams) : TxOpen(s) \/ RawOpen(s)
  \/ \E s \in Streams : Begin(s)
  \/ \E s \in R({x \in Streams : strm[x].kind = "tx" /\ strm[x].cl = "open"}) :
       \/ \E k \in R(K) : TxGet(s, k)
       \/ \E k \in R(K) : TxHas(s, k)
       \/ \E p \in R(Prefixes), ub \in R(BOOLEAN) : TxNewIter(s, p, ub)
       \/ \E p \in R(Prefixes \ {<<>>}) : TxNewIter(s, p, TRUE)
       \/ (steps > 8 /\ TxDiscard(s))
       \/ (P(4) /\ \E w \in R({"TxPut", "TxDelete", "TxDeleteRange", "TxCommit"}), k \in R(K) : WriteAttempt(w, s, k))
  \/ \E s \in R({x \in Streams : OpenIt(x) # {}}) : \E c \in R(OpenIt(s)) :
       \/ ItNext(s, c) \/ ItNext(s, c)
       \/ ItFirst(s, c)
       \/ ItValid(s, c)
       \/ \E t \in R(Targets) : ItSeek(s, c, t)
       \/ \E t \in R(Targets) : ItSeek(s, c, t)
       \/ (steps > 6 /\ ItClose(s, c))
  \* misuse: calls on closed iterators / discarded transactions
  \/ \E s \in R({x \in Streams : MadeIt(x) \ OpenIt(x) # {}}) : \E c \in R(MadeIt(s) \ OpenIt(s)) :
       ItNext(s, c) \/ ItValid(s, c) \/ ItClose(s, c)
  \/ \E s \in R({x \in Streams : strm[x].kind = "tx" /\ strm[x].cl = "closed"}) :
       \/ \E k \in R(K) : TxGet(s, k)
       \/ \E c \in R(MadeIt(s)) : ItNext(s, c)
  \/ (P(2) /\ \E k \in R(K) : DBGet(k))
  \/ (P(2) /\ \E k \in R(K) : DBHas(k))
  \/ (P(3) /\ DBWrite)
  \/ (P(4) /\ \E w \in R({"DBPut", "DBDelete", "DBDeleteRange", "DBUpdate"}), k \in R(K) : WriteAttempt(w, 1, k))
  \/ (P(2) /\ \E s \in R(Streams), p \in R(Prefixes), ub \in R(BOOLEAN) : DBNewIter(s, p, ub))
  \/ \E s \in R({x \in Streams : strm[x].kind = "raw" /\ strm[x].cl = "open"}) :
       \/ RawReq(s, "OPEN", 0, <<>>, 0)
       \/ \E k \in R(K) : RawReq(s, "GET", 0, <<>>, k)
       \/ \E c \in R(LiveCur(s)) :
            \/ RawReq(s, "NEXT", c, <<>>, 0) \/ RawReq(s, "NEXT", c, <<>>, 0)
            \/ RawReq(s, "CURRENT", c, <<>>, 0)
            \/ RawReq(s, "FIRST", c, <<>>, 0)
            \/ \E t \in R(Targets) : RawReq(s, "SEEK", c, t, 0)
            \/ \E t \in R(Targets) : RawReq(s, "SEEK_EXACT", c, t, 0)
            \/ \E t \in R({KeyBytes[k] : k \in K}) : RawReq(s, "SEEK_EXACT", c, t, 0)
            \/ (steps > 6 /\ RawReq(s, "CLOSE", c, <<>>, 0))
       \* ill-formed: unknown cursor, operation outside the enum
       \/ (steps > 10 /\ \E c \in R(RawCursors \ LiveCur(s)), op \in R(RawOps \ {"OPEN", "GET"}) : RawReq(s, op, c, <<>>, 0))
       \/ (steps > 10 /\ \E c \in R(RawCursors) : RawReq(s, "BAD", c, <<>>, 0))
       \/ (steps > 8 /\ (RawCloseSend(s) \/ RawCancel(s)))
  \/ (steps >= MaxSteps - 4 /\ ConnClose)

Step == SimNext /\ hist' = Append(hist, [a |-> act', res |-> res', store |-> store', proj |-> Proj])

Emit ==
  /\ PrintT(ToJson(hist))
  /\ store' = EmptyContent /\ ver' = 0 /\ versions' = <<EmptyContent>>
  /\ strm' = [s \in Streams |-> NoStream] /\ cit' = [s \in Streams |-> NoIts]
  /\ lost' = 0 /\ cleak' = 0 /\ conn' = "up" /\ opens' = 0 /\ steps' = 0
  /\ act' = [name |-> "Init"] /\ res' = [kind |-> "none"] /\ hist' = <<>>

MBTNext == IF steps >= MaxSteps THEN Emit ELSE Step
=============================================================================

\* as coded: DB-level calls leak their streams; the connection loss releases everything
CONSTANTS
  KeyBytes <- KeysSmall
  Prefixes <- PrefixesQuick
  Targets <- TargetsSmall
  Vals <- ValsOne
  Streams = {1}
  MaxCur = 1
  MaxWrites = 1
  MaxOpens = 2
  MaxLost = 2
  MaxSteps = 1000000
  EnableTx = TRUE
  EnableDB = TRUE
  EnableRaw = FALSE
  EnableMisuse = TRUE
  FixFirst = FALSE
  FixBounds = FALSE
  FixSnapshot = FALSE
  FixLeak = FALSE
  FixHas = FALSE
  FixEOF = FALSE
  Mutant = "none"
INIT Init
NEXT Next
VIEW view
INVARIANTS TypeOK CacheCoherent CleanupComplete NothingSurvivesTheConnection
PROPERTIES GetsMatchTruth HasMatchesTruth DBReadsAreCurrent IterMovesMatchTruth ValidMatchesPosition RawMatchesTruth StreamIsolation CursorIsolation PinnedContentIsFixed WritesMoveNothing ErrorsAreErrors TruncationIsDetectable SeekExactIsExact ReadOnly WritesAreRefused
CHECK_DEADLOCK FALSE

\* expected violation of SnapshotContract: the code as it is (FixSnapshot = FALSE)
CONSTANTS
  KeyBytes <- KeysSmall
  Prefixes <- PrefixesSmall
  Targets <- TargetsSmall
  Vals <- ValsOne
  Streams = {1}
  MaxCur = 2
  MaxWrites = 1
  MaxOpens = 1
  MaxLost = 1
  MaxSteps = 1000000
  EnableTx = TRUE
  EnableDB = FALSE
  EnableRaw = FALSE
  EnableMisuse = TRUE
  FixFirst = TRUE
  FixBounds = TRUE
  FixSnapshot = FALSE
  FixLeak = TRUE
  FixHas = TRUE
  FixEOF = TRUE
  Mutant = "none"
INIT Init
NEXT Next
VIEW view
PROPERTIES SnapshotContract
CHECK_DEADLOCK FALSE

\* as coded: raw streams
CONSTANTS
  KeyBytes <- KeysSmall
  Prefixes <- PrefixesSmall
  Targets <- TargetsSmall
  Vals <- ValsSmall
  Streams = {1}
  MaxCur = 2
  MaxWrites = 2
  MaxOpens = 2
  MaxLost = 1
  MaxSteps = 1000000
  EnableTx = FALSE
  EnableDB = FALSE
  EnableRaw = TRUE
  EnableMisuse = TRUE
  FixFirst = FALSE
  FixBounds = FALSE
  FixSnapshot = FALSE
  FixLeak = FALSE
  FixHas = FALSE
  FixEOF = FALSE
  Mutant = "none"
INIT Init
NEXT Next
VIEW view
INVARIANTS TypeOK CacheCoherent CleanupComplete NothingSurvivesTheConnection
PROPERTIES GetsMatchTruth HasMatchesTruth DBReadsAreCurrent IterMovesMatchTruth ValidMatchesPosition RawMatchesTruth StreamIsolation CursorIsolation PinnedContentIsFixed WritesMoveNothing ErrorsAreErrors TruncationIsDetectable SeekExactIsExact ReadOnly WritesAreRefused
CHECK_DEADLOCK FALSE

\* expected violation of ErrorsAreErrors: mutant "close-keeps-cursor"
CONSTANTS
  KeyBytes <- KeysSmall
  Prefixes <- PrefixesSmall
  Targets <- TargetsSmall
  Vals <- ValsOne
  Streams = {1}
  MaxCur = 2
  MaxWrites = 1
  MaxOpens = 1
  MaxLost = 1
  MaxSteps = 1000000
  EnableTx = TRUE
  EnableDB = FALSE
  EnableRaw = TRUE
  EnableMisuse = TRUE
  FixFirst = TRUE
  FixBounds = TRUE
  FixSnapshot = TRUE
  FixLeak = TRUE
  FixHas = TRUE
  FixEOF = TRUE
  Mutant = "close-keeps-cursor"
INIT Init
NEXT Next
VIEW view
PROPERTIES ErrorsAreErrors
CHECK_DEADLOCK FALSE

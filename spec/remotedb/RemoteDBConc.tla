------------------------------ MODULE RemoteDBConc ------------------------------
(* The concurrent level of RemoteDB: db.Iterator promises "a single iterator cannot be used
   concurrently, multiple iterators can", and a transaction's Get may run beside its iterators.
   Here a client call on the shared transaction (slot 1) is NOT atomic: it sends its request
   (CallBegin), the server handles the requests of the stream in order (Serve), and the call takes
   the next reply from the stream (CallEnd) - nothing in the protocol ties a reply to its request,
   the stream's order is all there is.  Each thread t uses the cursor t and Gets.

   As coded (FixMutex = FALSE) two calls can overlap: the one that receives first takes the reply
   to the other's request (an iterator then reports another cursor's key, a Get "key not found").
   On the real stream the overlapping SendMsg / RecvMsg are moreover a misuse of gRPC, which loses
   replies and leaves a caller blocked for ever (harness: TestRemoteSharedTx).  Repaired
   (FixMutex = TRUE): a mutex in the transaction covers each exchange.

   Everything else (opening the transaction, creating the iterators, the writer) happens through
   the atomic actions of RemoteDB while no call is in flight. *)
EXTENDS MCRemoteDB

CONSTANTS Threads,     \* subset of CurIds: thread t owns cursor t
          FixMutex

VARIABLES th,          \* [Threads -> [st, call, want]]
          reqq,        \* requests sent on the shared stream, not yet handled: <<[t, rq]>>
          repq         \* replies produced, not yet received: <<[t (ghost: whose request), reply]>>

concvars == <<th, reqq, repq>>
allvars == <<vars, concvars>>
concview == <<view, th, reqq, repq>>

Sh == 1                \* the shared transaction's slot
IdleT == [st |-> "idle", call |-> [name |-> "-"], want |-> [kind |-> "none"]]
AllIdle == \A t \in Threads : th[t].st = "idle"

ConcInit == Init /\ th = [t \in Threads |-> IdleT] /\ reqq = <<>> /\ repq = <<>>

CallsOf(t) == {[name |-> "TxGet", k |-> k] : k \in K} \cup {[name |-> "ItNext", c |-> t]}
                \cup {[name |-> "ItSeek", c |-> t, t |-> x] : x \in Targets}

CallRq(call) ==
  CASE call.name = "TxGet" -> Rq("GET", 0, <<>>, call.k)
    [] call.name = "ItNext" -> IF FixBounds /\ ~cit[Sh][call.c].posd THEN FirstRq(cit[Sh][call.c], call.c)
                               ELSE Rq("NEXT", call.c, <<>>, 0)
    [] call.name = "ItSeek" -> Rq("SEEK", call.c, IF FixBounds /\ LexLess(call.t, cit[Sh][call.c].lo) THEN cit[Sh][call.c].lo ELSE call.t, 0)

(* what the call has to answer, given the state in which it begins (the cursor is the thread's own,
   the transaction's content is pinned: FixSnapshot) *)
WantOf(call) ==
  IF call.name = "TxGet" THEN TGet(ContentAt(GetVersion(Sh)), call.k)
  ELSE MoveTruth(Sh, call.c, call.name, IF call.name = "ItSeek" THEN call.t ELSE <<>>)

CallBegin(t, call) ==
  /\ Tick /\ th[t].st = "idle" /\ conn = "up"
  /\ strm[Sh].kind = "tx" /\ strm[Sh].cl = "open" /\ strm[Sh].srv = "run"
  /\ call.name # "TxGet" => (cit[Sh][call.c].made /\ ~cit[Sh][call.c].closed)
  /\ FixMutex => AllIdle
  /\ th' = [th EXCEPT ![t] = [st |-> "sent", call |-> call, want |-> WantOf(call)]]
  /\ reqq' = Append(reqq, [t |-> t, rq |-> CallRq(call)])
  /\ cit' = IF call.name = "TxGet" THEN cit
            ELSE [cit EXCEPT ![Sh][call.c].ck = 0, ![Sh][call.c].cv = Absent, ![Sh][call.c].posd = TRUE]
  /\ act' = [name |-> "CallBegin", t |-> t, call |-> call] /\ res' = [kind |-> "none"]
  /\ NoWrite /\ UNCHANGED <<strm, lost, cleak, conn, opens, repq>>

Serve ==
  /\ Tick /\ reqq # <<>>
  /\ LET h == Served(strm[Sh], Head(reqq).rq) IN
     /\ strm' = [strm EXCEPT ![Sh] = h.st]
     /\ repq' = Append(repq, [t |-> Head(reqq).t, reply |-> h.reply])
  /\ reqq' = Tail(reqq)
  /\ act' = [name |-> "Serve"] /\ res' = [kind |-> "none"]
  /\ NoWrite /\ UNCHANGED <<cit, lost, cleak, conn, opens, th>>

CallEnd(t) ==
  /\ Tick /\ th[t].st = "sent" /\ repq # <<>>
  /\ LET r == Head(repq)
         call == th[t].call
         i == IF call.name = "TxGet" THEN NoIt ELSE Cached(cit[Sh][call.c], r.reply) IN
     /\ cit' = IF call.name = "TxGet" THEN cit ELSE [cit EXCEPT ![Sh][call.c] = i]
     /\ res' = IF call.name # "TxGet" THEN ItRes(i)
               ELSE IF r.reply.kind = "err" THEN Err
               ELSE IF r.reply.kind = "pair" /\ r.reply.k = call.k THEN [kind |-> "value", v |-> r.reply.v]
               ELSE [kind |-> "notfound"]               \* the reply does not echo the key asked for
     /\ act' = [name |-> "CallEnd", t |-> t, call |-> call, from |-> r.t]
  /\ repq' = Tail(repq)
  /\ th' = [th EXCEPT ![t] = IdleT]
  /\ NoWrite /\ UNCHANGED <<strm, lost, cleak, conn, opens, reqq>>

ConcNext ==
  \/ (AllIdle /\ reqq = <<>> /\ repq = <<>> /\ Next /\ UNCHANGED concvars)
  \/ \E t \in Threads : \E call \in CallsOf(t) : CallBegin(t, call)
  \/ Serve
  \/ \E t \in Threads : CallEnd(t)

ConcSpec == ConcInit /\ [][ConcNext]_allvars

--------------------------------------------------------------------------
ConcTypeOK ==
  /\ \A t \in Threads : th[t].st \in {"idle", "sent"}
  /\ Len(reqq) + Len(repq) = Cardinality({t \in Threads : th[t].st = "sent"})

(* every call receives the reply to its own request ... *)
ResponsesCorrelated == [][act'.name = "CallEnd" => act'.from = act'.t]_allvars
(* ... and therefore answers what the ordered map says for it *)
ConcReadsMatchTruth == [][act'.name = "CallEnd" => res' = th[act'.t].want]_allvars
(* the mutex: at most one exchange of the transaction is in flight *)
OneExchangeAtATime == Cardinality({t \in Threads : th[t].st = "sent"}) <= 1
(* vacuity guard: two calls do overlap (violation expected as coded) / an exchange does begin *)
NoCallInFlight == AllIdle
=============================================================================

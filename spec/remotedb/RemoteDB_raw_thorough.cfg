\* repaired design, exhaustive: raw streams, three cursors
CONSTANTS
  KeyBytes <- KeysSmall
  Prefixes <- PrefixesSmall
  Targets <- TargetsSmall
  Vals <- ValsSmall
  Streams = {1}
  MaxCur = 3
  MaxWrites = 2
  MaxOpens = 2
  MaxLost = 1
  MaxSteps = 1000000
  EnableTx = FALSE
  EnableDB = FALSE
  EnableRaw = TRUE
  EnableMisuse = TRUE
  FixFirst = TRUE
  FixBounds = TRUE
  FixSnapshot = TRUE
  FixLeak = TRUE
  FixHas = TRUE
  FixEOF = TRUE
  Mutant = "none"
INIT Init
NEXT Next
VIEW view
INVARIANTS TypeOK IterWithinBounds CacheCoherent CleanupComplete NoLeak NothingSurvivesTheConnection
PROPERTIES GetsMatchTruth HasMatchesTruth DBReadsAreCurrent IterMovesMatchTruth ValidMatchesPosition RawMatchesTruth SnapshotContract StreamIsolation CursorIsolation PinnedContentIsFixed WritesMoveNothing ErrorsAreErrors NoSpuriousError TruncationIsDetectable SeekExactIsExact ReadOnly WritesAreRefused HasIsBoolean CleanCloseIsOK
CHECK_DEADLOCK FALSE

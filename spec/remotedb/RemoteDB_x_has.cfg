\* expected violation of HasIsBoolean: the code as it is (FixHas = FALSE)
CONSTANTS
  KeyBytes <- KeysSmall
  Prefixes <- PrefixesSmall
  Targets <- TargetsSmall
  Vals <- ValsOne
  Streams = {1}
  MaxCur = 2
  MaxWrites = 1
  MaxOpens = 1
  MaxLost = 1
  MaxSteps = 1000000
  EnableTx = TRUE
  EnableDB = TRUE
  EnableRaw = FALSE
  EnableMisuse = TRUE
  FixFirst = TRUE
  FixBounds = TRUE
  FixSnapshot = TRUE
  FixLeak = TRUE
  FixHas = FALSE
  FixEOF = TRUE
  Mutant = "none"
INIT Init
NEXT Next
VIEW view
PROPERTIES HasIsBoolean
CHECK_DEADLOCK FALSE

\* behaviour generation (tlc -simulate): full alphabets, three stream slots; the check rewrites the switches
CONSTANTS
  KeyBytes <- KeysFull
  Prefixes <- PrefixesFull
  Targets <- TargetsFull
  Vals <- ValsFull
  Streams = {1, 2, 3}
  MaxCur = 3
  MaxWrites = 1000
  MaxOpens = 1000
  MaxLost = 6
  MaxSteps = 40
  EnableTx = TRUE
  EnableDB = TRUE
  EnableRaw = TRUE
  EnableMisuse = TRUE
  FixFirst = FALSE
  FixBounds = FALSE
  FixSnapshot = FALSE
  FixLeak = FALSE
  FixHas = FALSE
  FixEOF = FALSE
  Mutant = "none"
INIT MBTInit
NEXT MBTNext
CHECK_DEADLOCK FALSE

\* expected violation of NoLeak: the code as it is (FixLeak = FALSE)
CONSTANTS
  KeyBytes <- KeysSmall
  Prefixes <- PrefixesSmall
  Targets <- TargetsSmall
  Vals <- ValsOne
  Streams = {1}
  MaxCur = 1
  MaxWrites = 1
  MaxOpens = 2
  MaxLost = 1
  MaxSteps = 1000000
  EnableTx = TRUE
  EnableDB = TRUE
  EnableRaw = FALSE
  EnableMisuse = TRUE
  FixFirst = TRUE
  FixBounds = TRUE
  FixSnapshot = TRUE
  FixLeak = FALSE
  FixHas = TRUE
  FixEOF = TRUE
  Mutant = "none"
INIT Init
NEXT Next
VIEW view
INVARIANTS NoLeak
CHECK_DEADLOCK FALSE

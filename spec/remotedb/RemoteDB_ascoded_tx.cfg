\* as coded: what holds in spite of the defects; one transaction stream, two cursors
CONSTANTS
  KeyBytes <- KeysSmall
  Prefixes <- PrefixesQuick
  Targets <- TargetsSmall
  Vals <- ValsOne
  Streams = {1}
  MaxCur = 2
  MaxWrites = 1
  MaxOpens = 1
  MaxLost = 1
  MaxSteps = 1000000
  EnableTx = TRUE
  EnableDB = FALSE
  EnableRaw = FALSE
  EnableMisuse = TRUE
  FixFirst = FALSE
  FixBounds = FALSE
  FixSnapshot = FALSE
  FixLeak = FALSE
  FixHas = FALSE
  FixEOF = FALSE
  Mutant = "none"
INIT Init
NEXT Next
VIEW view
INVARIANTS TypeOK CacheCoherent CleanupComplete NothingSurvivesTheConnection
PROPERTIES GetsMatchTruth HasMatchesTruth DBReadsAreCurrent IterMovesMatchTruth ValidMatchesPosition RawMatchesTruth StreamIsolation CursorIsolation PinnedContentIsFixed WritesMoveNothing ErrorsAreErrors TruncationIsDetectable SeekExactIsExact ReadOnly WritesAreRefused
CHECK_DEADLOCK FALSE

\* expected violation of ErrorsAreErrors: mutant "stale-cache"
CONSTANTS
  KeyBytes <- KeysSmall
  Prefixes <- PrefixesSmall
  Targets <- TargetsSmall
  Vals <- ValsOne
  Streams = {1}
  MaxCur = 2
  MaxWrites = 1
  MaxOpens = 1
  MaxLost = 1
  MaxSteps = 1000000
  EnableTx = TRUE
  EnableDB = FALSE
  EnableRaw = FALSE
  EnableMisuse = TRUE
  FixFirst = TRUE
  FixBounds = TRUE
  FixSnapshot = TRUE
  FixLeak = TRUE
  FixHas = TRUE
  FixEOF = TRUE
  Mutant = "stale-cache"
INIT Init
NEXT Next
VIEW view
PROPERTIES ErrorsAreErrors
CHECK_DEADLOCK FALSE

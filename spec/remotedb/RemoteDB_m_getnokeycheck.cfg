\* expected violation of GetsMatchTruth: mutant "get-no-key-check"
CONSTANTS
  KeyBytes <- KeysSmall
  Prefixes <- PrefixesSmall
  Targets <- TargetsSmall
  Vals <- ValsSmall
  Streams = {1}
  MaxCur = 2
  MaxWrites = 1
  MaxOpens = 1
  MaxLost = 1
  MaxSteps = 1000000
  EnableTx = TRUE
  EnableDB = FALSE
  EnableRaw = FALSE
  EnableMisuse = TRUE
  FixFirst = TRUE
  FixBounds = TRUE
  FixSnapshot = TRUE
  FixLeak = TRUE
  FixHas = TRUE
  FixEOF = TRUE
  Mutant = "get-no-key-check"
INIT Init
NEXT Next
VIEW view
PROPERTIES GetsMatchTruth
CHECK_DEADLOCK FALSE

\* as coded: two streams, isolation
CONSTANTS
  KeyBytes <- KeysTiny
  Prefixes <- PrefixesTiny
  Targets <- TargetsTiny
  Vals <- ValsOne
  Streams = {1, 2}
  MaxCur = 1
  MaxWrites = 1
  MaxOpens = 2
  MaxLost = 1
  MaxSteps = 1000000
  EnableTx = TRUE
  EnableDB = FALSE
  EnableRaw = TRUE
  EnableMisuse = TRUE
  FixFirst = FALSE
  FixBounds = FALSE
  FixSnapshot = FALSE
  FixLeak = FALSE
  FixHas = FALSE
  FixEOF = FALSE
  Mutant = "none"
INIT Init
NEXT Next
VIEW view
INVARIANTS TypeOK CacheCoherent CleanupComplete NothingSurvivesTheConnection
PROPERTIES GetsMatchTruth HasMatchesTruth DBReadsAreCurrent IterMovesMatchTruth ValidMatchesPosition RawMatchesTruth StreamIsolation CursorIsolation PinnedContentIsFixed WritesMoveNothing ErrorsAreErrors TruncationIsDetectable SeekExactIsExact ReadOnly WritesAreRefused
CHECK_DEADLOCK FALSE

\* expected violation of ConcReadsMatchTruth: as coded an iterator reports another cursor's key
CONSTANTS
  KeyBytes <- KeysSmall
  Prefixes <- PrefixesQuick
  Targets <- TargetsSmall
  Vals <- ValsOne
  Streams = {1}
  MaxCur = 2
  MaxWrites = 1
  MaxOpens = 1
  MaxLost = 1
  MaxSteps = 1000000
  EnableTx = TRUE
  EnableDB = FALSE
  EnableRaw = FALSE
  EnableMisuse = FALSE
  FixFirst = TRUE
  FixBounds = TRUE
  FixSnapshot = TRUE
  FixLeak = TRUE
  FixHas = TRUE
  FixEOF = TRUE
  Mutant = "none"
  Threads = {1, 2}
  FixMutex = FALSE
INIT ConcInit
NEXT ConcNext
VIEW concview
PROPERTIES ConcReadsMatchTruth
CHECK_DEADLOCK FALSE

\* expected violation of SeekExactIsExact: mutant "seek-exact-loose"
CONSTANTS
  KeyBytes <- KeysSmall
  Prefixes <- PrefixesSmall
  Targets <- TargetsSmall
  Vals <- ValsOne
  Streams = {1}
  MaxCur = 2
  MaxWrites = 1
  MaxOpens = 1
  MaxLost = 1
  MaxSteps = 1000000
  EnableTx = FALSE
  EnableDB = FALSE
  EnableRaw = TRUE
  EnableMisuse = TRUE
  FixFirst = TRUE
  FixBounds = TRUE
  FixSnapshot = TRUE
  FixLeak = TRUE
  FixHas = TRUE
  FixEOF = TRUE
  Mutant = "seek-exact-loose"
INIT Init
NEXT Next
VIEW view
PROPERTIES SeekExactIsExact
CHECK_DEADLOCK FALSE

\* repaired design, exhaustive: one transaction stream of the client library, two cursors, a concurrent writer
CONSTANTS
  KeyBytes <- KeysSmall
  Prefixes <- PrefixesQuick
  Targets <- TargetsSmall
  Vals <- ValsOne
  Streams = {1}
  MaxCur = 2
  MaxWrites = 1
  MaxOpens = 1
  MaxLost = 1
  MaxSteps = 1000000
  EnableTx = TRUE
  EnableDB = FALSE
  EnableRaw = FALSE
  EnableMisuse = TRUE
  FixFirst = TRUE
  FixBounds = TRUE
  FixSnapshot = TRUE
  FixLeak = TRUE
  FixHas = TRUE
  FixEOF = TRUE
  Mutant = "none"
INIT Init
NEXT Next
VIEW view
INVARIANTS TypeOK IterWithinBounds CacheCoherent CleanupComplete NoLeak NothingSurvivesTheConnection
PROPERTIES GetsMatchTruth HasMatchesTruth DBReadsAreCurrent IterMovesMatchTruth ValidMatchesPosition RawMatchesTruth SnapshotContract StreamIsolation CursorIsolation PinnedContentIsFixed WritesMoveNothing ErrorsAreErrors NoSpuriousError TruncationIsDetectable SeekExactIsExact ReadOnly WritesAreRefused HasIsBoolean CleanCloseIsOK
CHECK_DEADLOCK FALSE

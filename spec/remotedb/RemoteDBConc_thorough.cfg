\* repaired: two threads, two writes
CONSTANTS
  KeyBytes <- KeysSmall
  Prefixes <- PrefixesQuick
  Targets <- TargetsSmall
  Vals <- ValsOne
  Streams = {1}
  MaxCur = 2
  MaxWrites = 2
  MaxOpens = 1
  MaxLost = 1
  MaxSteps = 1000000
  EnableTx = TRUE
  EnableDB = FALSE
  EnableRaw = FALSE
  EnableMisuse = FALSE
  FixFirst = TRUE
  FixBounds = TRUE
  FixSnapshot = TRUE
  FixLeak = TRUE
  FixHas = TRUE
  FixEOF = TRUE
  Mutant = "none"
  Threads = {1, 2}
  FixMutex = TRUE
INIT ConcInit
NEXT ConcNext
VIEW concview
INVARIANTS TypeOK ConcTypeOK OneExchangeAtATime IterWithinBounds CleanupComplete NoLeak
PROPERTIES ResponsesCorrelated ConcReadsMatchTruth CursorIsolation PinnedContentIsFixed ReadOnly
CHECK_DEADLOCK FALSE

------------------------------ MODULE RemoteDB ------------------------------
(* juno's remote database: the gRPC key-value service (grpc/handlers.go, grpc/tx.go, protocol
   grpc/kv.proto) and its client db/remote/{db.go,transaction.go,iterator.go}, which implements
   juno's db.KeyValueStore / db.Snapshot / db.IndexedBatch / db.Iterator over the `Tx`
   bidirectional stream.  Growth check G12.

   Server, as coded: Handler.Tx opens h.db.NewIndexedBatch() (NOT a snapshot) and serves requests
   one by one.  GET reads through the batch, i.e. the LIVE store; OPEN creates an iterator on the
   batch, which pins the store content of that moment (Pebble iterators and db/memory's copy
   both do); cursor ids are 1, 2, ... per stream.  SEEK / SEEK_EXACT / NEXT / CURRENT / CLOSE address a
   cursor; FIRST is in the protocol's enum but falls into `default: unknown operation`.  ANY error
   (unknown cursor, unknown operation) ends the stream: the handler returns, tx.cleanup() closes every
   cursor of the stream.  A clean end of the request stream (io.EOF from Recv) is returned as an error too.

   Client, as coded: a `transaction` is one stream; Get = GET exchange (found iff the reply echoes
   the key); NewIterator(prefix, withUpperBound) = OPEN exchange, prefix and bound are DROPPED;
   the iterator caches the last reply (currentK / currentV), Valid() re-asks (CURRENT) when the cache
   is empty; a failed exchange empties the cache (Next / Seek / First then return false); Discard /
   Close = CloseSend, WITHOUT reading the RPC's final status: gRPC then keeps the client side of the
   stream (object + watcher goroutine) until the DB's context ends.  DB.Get / DB.Has /
   DB.NewIterator / DB.Write open a stream of their own and never close it.  All writes are refused
   locally.

   Keys are indices 1..NK into the sorted constant KeyBytes (as in spec/kv/KV.tla); seek targets and
   prefixes are byte strings.  One action = one client API call or one raw request/response exchange
   (the concurrent level, where an exchange is split into send / serve / receive, is RemoteDBConc.tla).
   `act` / `res` are output-only.

   Switches (FALSE = as coded, TRUE = repaired design):
     FixFirst     the server implements FIRST
     FixBounds    the client iterator honours prefix (lower bound) and upper bound
     FixSnapshot  the server serves a stream from ONE point-in-time view taken when its handler begins
     FixLeak      one-shot calls (DB.Get / Has / Write) and DB.NewIterator's Close end their stream,
                  and Discard / Close read the RPC's status (which is what releases the client side)
     FixHas       Has of a missing key is (false, nil), not (false, ErrKeyNotFound)
     FixEOF       a clean end of the request stream ends the RPC with status OK
   Mutant names a deliberately broken mechanism ("none" = the design as is). *)
EXTENDS Integers, Sequences, FiniteSets, TLC

CONSTANTS KeyBytes,     \* sequence of byte strings, sorted, distinct
          Prefixes,     \* byte strings usable as iterator prefixes (<<>> = nil)
          Targets,      \* byte strings usable as seek targets (need not be keys)
          Vals,         \* set of strings
          Streams,      \* stream slots (client handles), e.g. {1, 2}
          MaxCur,       \* cursor ids per stream are 1..MaxCur
          MaxWrites, MaxOpens, MaxLost, MaxSteps,
          EnableTx, EnableDB, EnableRaw, EnableMisuse,
          FixFirst, FixBounds, FixSnapshot, FixLeak, FixHas, FixEOF,
          Mutant

NK == Len(KeyBytes)
K == 1..NK
CurIds == 1..MaxCur
Absent == "-"
ASSUME Absent \notin Vals

VARIABLES store,      \* [K -> Vals \cup {Absent}]  the server's live store
          ver,        \* number of server-side writes so far
          versions,   \* ghost: versions[i+1] = content after i writes
          strm,       \* [Streams -> stream record] server side + the client's handle
          cit,        \* [Streams -> [CurIds -> client iterator record]]
          lost,       \* one-shot streams whose handler still runs although no client handle is left
          cleak,      \* client sides of streams that are not finished although no handle refers to them
          conn,       \* "up" | "down"
          opens, steps, act, res

vars == <<store, ver, versions, strm, cit, lost, cleak, conn, opens, steps, act, res>>
view == <<store, ver, versions, strm, cit, lost, cleak, conn, opens>>

--------------------------------------------------------------------------
(* byte strings *)
Min(a, b) == IF a < b THEN a ELSE b
LexLess(a, b) ==
  \E i \in 1..(Min(Len(a), Len(b)) + 1) :
     /\ \A j \in 1..(i - 1) : a[j] = b[j]
     /\ IF i > Len(a) THEN i <= Len(b) ELSE (i <= Len(b) /\ a[i] < b[i])
LexLeq(a, b) == a = b \/ LexLess(a, b)
ASSUME \A i \in 1..(NK - 1) : LexLess(KeyBytes[i], KeyBytes[i + 1])

RECURSIVE UpperBound(_)      \* dbutils.UpperBound; <<>> = none
UpperBound(p) ==
  IF Len(p) = 0 THEN <<>>
  ELSE IF p[Len(p)] = 255 THEN UpperBound(SubSeq(p, 1, Len(p) - 1))
  ELSE [p EXCEPT ![Len(p)] = @ + 1]

EmptyContent == [k \in K |-> Absent]
Least(S) == IF S = {} THEN NK + 1 ELSE CHOOSE x \in S : \A y \in S : x <= y

--------------------------------------------------------------------------
(* records *)
NoCur == [open |-> FALSE, data |-> EmptyContent, ver |-> 0, pos |-> 0]
NoStream == [cl |-> "none", kind |-> "-", srv |-> "none", status |-> "-", view |-> EmptyContent,
             bver |-> 0, nextId |-> 0, cur |-> [c \in CurIds |-> NoCur],
             gone |-> {},       \* ghost: the cursor ids a CLOSE request has named
             cfin |-> TRUE]     \* the client side of the RPC is finished (status read / context cancelled / never opened)
NoIt == [made |-> FALSE, closed |-> FALSE, ck |-> 0, cv |-> Absent, lo |-> <<>>, ub |-> FALSE, posd |-> FALSE]
NoIts == [c \in CurIds |-> NoIt]
Err == [kind |-> "err"]

Init ==
  /\ store = EmptyContent /\ ver = 0 /\ versions = <<EmptyContent>>
  /\ strm = [s \in Streams |-> NoStream]
  /\ cit = [s \in Streams |-> NoIts]
  /\ lost = 0 /\ cleak = 0 /\ conn = "up" /\ opens = 0 /\ steps = 0
  /\ act = [name |-> "Init"] /\ res = [kind |-> "none"]

Tick == steps < MaxSteps /\ steps' = steps + 1

--------------------------------------------------------------------------
(* THE SERVER: one request handled by the Tx handler of a stream whose record is S.
   Positions of a cursor: 0 = not positioned yet, k \in K = at key k, NK+1 = exhausted / missed. *)
PFirst(d) == Least({k \in K : d[k] # Absent})
PSeek(d, t) == Least({k \in K : d[k] # Absent /\ LexLeq(t, KeyBytes[k])})
PNext(d, p) == IF p = 0 THEN PFirst(d) ELSE IF p > NK THEN NK + 1 ELSE Least({k \in K : d[k] # Absent /\ k > p})
PairAt(d, p, c) == IF p \in K /\ d[p] # Absent THEN [kind |-> "pair", k |-> p, v |-> d[p], id |-> c]
                   ELSE [kind |-> "empty", id |-> c]

CurOpen(S, c) == c \in CurIds /\ S.cur[c].open
ReadBase(S) == IF FixSnapshot THEN S.view ELSE store     \* what GET reads and what a new cursor pins
ReadVer(S) == IF FixSnapshot THEN S.bver ELSE ver
CurData(S, c) == IF Mutant = "live-cursor" THEN store ELSE S.cur[c].data

(* the handler returns: tx.cleanup() closes every cursor *)
EndStream(S, status) ==
  [S EXCEPT !.srv = "done", !.status = status, !.gone = {},
            !.cur = IF Mutant = "no-cleanup" THEN @ ELSE [c \in CurIds |-> NoCur]]

MoveCur(S, c, np) ==
  IF Mutant = "next-moves-all"
  THEN [S EXCEPT !.cur = [x \in CurIds |-> IF S.cur[x].open THEN [S.cur[x] EXCEPT !.pos = np] ELSE S.cur[x]]]
  ELSE [S EXCEPT !.cur[c].pos = np]

Handle(S, rq) ==
  IF S.srv # "run" THEN [reply |-> Err, st |-> S]
  ELSE IF rq.op = "OPEN" THEN
    LET id == S.nextId + 1 IN
    [reply |-> [kind |-> "opened", id |-> id],
     st |-> [S EXCEPT !.nextId = id,
                      !.cur[id] = [open |-> TRUE, data |-> ReadBase(S), ver |-> ReadVer(S), pos |-> 0]]]
  ELSE IF rq.op = "GET" THEN
    LET d == ReadBase(S) IN
    [reply |-> IF d[rq.k] # Absent THEN [kind |-> "pair", k |-> rq.k, v |-> d[rq.k], id |-> 0]
               ELSE [kind |-> "empty", id |-> 0],
     st |-> S]
  ELSE IF ~CurOpen(S, rq.c) THEN
    IF Mutant = "unknown-cursor-empty" THEN [reply |-> [kind |-> "empty", id |-> rq.c], st |-> S]
    ELSE [reply |-> Err, st |-> EndStream(S, "err")]
  ELSE
    LET d == CurData(S, rq.c)
        p == S.cur[rq.c].pos
        Move(np) == [reply |-> PairAt(d, np, rq.c), st |-> MoveCur(S, rq.c, np)] IN
    CASE rq.op = "SEEK" -> Move(PSeek(d, rq.t))
      [] rq.op = "SEEK_EXACT" ->
           LET np == PSeek(d, rq.t) IN
           [reply |-> IF np \in K /\ (KeyBytes[np] = rq.t \/ Mutant = "seek-exact-loose")
                      THEN PairAt(d, np, rq.c) ELSE [kind |-> "empty", id |-> rq.c],
            st |-> MoveCur(S, rq.c, np)]
      [] rq.op = "NEXT" -> Move(PNext(d, p))
      [] rq.op = "CURRENT" -> [reply |-> PairAt(d, p, rq.c), st |-> S]
      [] rq.op = "FIRST" -> IF FixFirst THEN Move(PFirst(d)) ELSE [reply |-> Err, st |-> EndStream(S, "err")]
      [] rq.op = "CLOSE" -> [reply |-> [kind |-> "empty", id |-> rq.c],
                             st |-> IF Mutant = "close-keeps-cursor" THEN [S EXCEPT !.gone = @ \cup {rq.c}]
                                    ELSE [S EXCEPT !.cur[rq.c] = NoCur, !.gone = @ \cup {rq.c}]]
      [] OTHER -> [reply |-> Err, st |-> EndStream(S, "err")]       \* "BAD": an operation outside the enum

Rq(op, c, t, k) == [op |-> op, c |-> c, t |-> t, k |-> k]

(* the client's CloseSend reaches the handler: Recv returns io.EOF, the handler returns *)
ClientEnds(S) == IF S.srv = "run" THEN EndStream(S, IF FixEOF THEN "ok" ELSE "eof-err") ELSE S

--------------------------------------------------------------------------
(* environment: the node keeps writing to the store the server serves *)
Write(k, v) ==
  /\ Tick /\ ver < MaxWrites
  /\ store' = [store EXCEPT ![k] = v]
  /\ ver' = ver + 1
  /\ versions' = Append(versions, store')
  /\ act' = [name |-> "Write", k |-> k, v |-> v] /\ res' = [kind |-> "ok"]
  /\ UNCHANGED <<strm, cit, lost, cleak, conn, opens>>

NoWrite == UNCHANGED <<store, ver, versions>>

Free(s) == strm[s].cl \in {"none", "closed"} /\ strm[s].srv \in {"none", "done"}
(* reusing a slot forgets its old handle: an unfinished client stream stays behind *)
Abandoned(s) == IF strm[s].cfin THEN 0 ELSE 1
NonePending == \A s \in Streams : strm[s].srv # "pending"

OpenSlot(s, kind, nm) ==
  /\ Tick /\ conn = "up" /\ Free(s) /\ NonePending /\ opens < MaxOpens
  /\ strm' = [strm EXCEPT ![s] = [NoStream EXCEPT !.cl = "open", !.kind = kind, !.srv = "pending", !.cfin = FALSE]]
  /\ cit' = [cit EXCEPT ![s] = NoIts]
  /\ opens' = opens + 1
  /\ cleak' = cleak + Abandoned(s)
  /\ act' = [name |-> nm, s |-> s] /\ res' = [kind |-> "ok"]
  /\ NoWrite /\ UNCHANGED <<lost, conn>>

(* the handler goroutine starts: this is where a point-in-time view is (would be) taken *)
Begin(s) ==
  /\ Tick /\ strm[s].srv = "pending"
  /\ strm' = [strm EXCEPT ![s].srv = "run", ![s].view = store, ![s].bver = ver]
  /\ act' = [name |-> "Begin", s |-> s] /\ res' = [kind |-> "ok"]
  /\ NoWrite /\ UNCHANGED <<cit, lost, cleak, conn, opens>>

--------------------------------------------------------------------------
(* THE CLIENT LIBRARY on a transaction stream (db.NewSnapshot / NewIndexedBatch / NewTransaction) *)
TxOpen(s) == EnableTx /\ OpenSlot(s, "tx", "TxOpen")

Usable(s) == strm[s].kind \in {"tx", "dbiter"} /\ strm[s].cl \in {"open", "iter", "lost", "closed"} /\ strm[s].srv # "pending"
(* after Discard every Send fails locally ("SendMsg called after CloseSend"); after the connection
   is gone every exchange fails.  ("lost": the closed iterator of DB.NewIterator still holds the
   stream, a misuse of it still reaches the server.) *)
Reaches(s) == strm[s].cl \in {"open", "iter", "lost"} /\ conn = "up"
(* an error reply is the RPC's status: receiving it finishes the client side *)
Served(S, rq) == LET h == Handle(S, rq) IN
                 IF h.reply.kind = "err" THEN [reply |-> Err, st |-> [h.st EXCEPT !.cfin = TRUE]] ELSE h
(* a Send that is refused locally (after CloseSend, after the connection is gone) finishes it as well *)
Exchange(s, rq) == IF Reaches(s) THEN Served(strm[s], rq) ELSE [reply |-> Err, st |-> [strm[s] EXCEPT !.cfin = TRUE]]

TxGet(s, k) ==
  /\ Tick /\ Usable(s) /\ strm[s].kind = "tx"
  /\ (strm[s].cl = "closed" => EnableMisuse)
  /\ LET h == Exchange(s, Rq("GET", 0, <<>>, k)) IN
     /\ strm' = [strm EXCEPT ![s] = h.st]
     /\ res' = IF h.reply.kind = "err" THEN Err
               ELSE IF h.reply.kind = "pair" THEN [kind |-> "value", v |-> h.reply.v]
               ELSE IF Mutant = "get-no-key-check" THEN [kind |-> "value", v |-> ""]
               ELSE [kind |-> "notfound"]
  /\ act' = [name |-> "TxGet", s |-> s, k |-> k]
  /\ NoWrite /\ UNCHANGED <<cit, lost, cleak, conn, opens>>

HasRes(reply) == IF reply.kind = "err" THEN Err
                 ELSE IF reply.kind = "pair" THEN [kind |-> "has", b |-> TRUE]
                 ELSE IF FixHas THEN [kind |-> "has", b |-> FALSE] ELSE [kind |-> "notfound-err"]

TxHas(s, k) ==
  /\ Tick /\ Usable(s) /\ strm[s].kind = "tx"
  /\ (strm[s].cl = "closed" => EnableMisuse)
  /\ LET h == Exchange(s, Rq("GET", 0, <<>>, k)) IN
     /\ strm' = [strm EXCEPT ![s] = h.st]
     /\ res' = HasRes(h.reply)
  /\ act' = [name |-> "TxHas", s |-> s, k |-> k]
  /\ NoWrite /\ UNCHANGED <<cit, lost, cleak, conn, opens>>

TxNewIter(s, p, ub) ==
  /\ Tick /\ Usable(s) /\ strm[s].kind = "tx" /\ strm[s].nextId < MaxCur
  /\ (strm[s].cl = "closed" => EnableMisuse)
  /\ LET h == Exchange(s, Rq("OPEN", 0, <<>>, 0)) IN
     /\ strm' = [strm EXCEPT ![s] = h.st]
     /\ IF h.reply.kind = "opened"
        THEN /\ cit' = [cit EXCEPT ![s][h.reply.id] = [NoIt EXCEPT !.made = TRUE, !.lo = p, !.ub = ub]]
             /\ res' = [kind |-> "iter", c |-> h.reply.id]
        ELSE cit' = cit /\ res' = Err
  /\ act' = [name |-> "TxNewIter", s |-> s, p |-> p, ub |-> ub]
  /\ NoWrite /\ UNCHANGED <<lost, cleak, conn, opens>>

(* doOpAndUpdate: empty the cache, exchange, fill the cache from the reply *)
Hi(i) == IF i.ub THEN UpperBound(i.lo) ELSE <<>>
Clamp(i) == IF FixBounds /\ i.ck # 0 /\ Hi(i) # <<>> /\ ~LexLess(KeyBytes[i.ck], Hi(i))
            THEN [i EXCEPT !.ck = 0, !.cv = Absent] ELSE i
Cached(i, reply) ==
  IF reply.kind = "pair" THEN Clamp([i EXCEPT !.ck = reply.k, !.cv = reply.v])
  ELSE IF reply.kind = "err" /\ Mutant = "stale-cache" THEN i
  ELSE [i EXCEPT !.ck = 0, !.cv = Absent]
ItRes(i) == IF i.ck # 0 THEN [kind |-> "at", k |-> i.ck, v |-> i.cv] ELSE [kind |-> "invalid"]

ItUsable(s, c) == Usable(s) /\ cit[s][c].made /\ (cit[s][c].closed => EnableMisuse)
                    /\ (strm[s].cl = "closed" => EnableMisuse)

ItDo(s, c, rq, posd, nm) ==
  LET h == Exchange(s, rq)
      i == [Cached(cit[s][c], h.reply) EXCEPT !.posd = posd] IN
  /\ strm' = [strm EXCEPT ![s] = h.st]
  /\ cit' = [cit EXCEPT ![s][c] = i]
  /\ res' = ItRes(i)
  /\ act' = nm
  /\ NoWrite /\ UNCHANGED <<lost, cleak, conn, opens>>

FirstRq(i, c) == IF FixBounds /\ i.lo # <<>> THEN Rq("SEEK", c, i.lo, 0) ELSE Rq("FIRST", c, <<>>, 0)

ItFirst(s, c) ==
  /\ Tick /\ ItUsable(s, c)
  /\ ItDo(s, c, FirstRq(cit[s][c], c), TRUE, [name |-> "ItFirst", s |-> s, c |-> c])

ItSeek(s, c, t) ==
  /\ Tick /\ ItUsable(s, c)
  /\ LET tt == IF FixBounds /\ LexLess(t, cit[s][c].lo) THEN cit[s][c].lo ELSE t IN
     ItDo(s, c, Rq("SEEK", c, tt, 0), TRUE, [name |-> "ItSeek", s |-> s, c |-> c, t |-> t])

ItNext(s, c) ==
  /\ Tick /\ ItUsable(s, c)
  /\ ItDo(s, c, IF FixBounds /\ ~cit[s][c].posd THEN FirstRq(cit[s][c], c) ELSE Rq("NEXT", c, <<>>, 0),
          TRUE, [name |-> "ItNext", s |-> s, c |-> c])

(* Valid(): answers from the cache, asks CURRENT when the cache is empty *)
ItValid(s, c) ==
  /\ Tick /\ ItUsable(s, c)
  /\ IF cit[s][c].ck # 0
     THEN /\ res' = ItRes(cit[s][c]) /\ act' = [name |-> "ItValid", s |-> s, c |-> c]
          /\ NoWrite /\ UNCHANGED <<strm, cit, lost, cleak, conn, opens>>
     ELSE ItDo(s, c, Rq("CURRENT", c, <<>>, 0), cit[s][c].posd, [name |-> "ItValid", s |-> s, c |-> c])

(* Close(): CLOSE exchange, its error is returned.  On a stream of DB.NewIterator the iterator is the
   only handle: repaired, closing it ends the stream; as coded the handler runs on for ever. *)
ItClose(s, c) ==
  /\ Tick /\ ItUsable(s, c)
  /\ LET h == Exchange(s, Rq("CLOSE", c, <<>>, 0))
         own == strm[s].kind = "dbiter" /\ strm[s].cl = "iter" IN
     /\ strm' = [strm EXCEPT ![s] = IF ~own THEN h.st
                                     ELSE IF FixLeak THEN [ClientEnds(h.st) EXCEPT !.cl = "closed", !.cfin = TRUE]
                                     ELSE [h.st EXCEPT !.cl = "lost"]]
     /\ cit' = [cit EXCEPT ![s][c] = [Cached(@, h.reply) EXCEPT !.closed = TRUE]]
     /\ res' = IF h.reply.kind = "err" THEN Err ELSE [kind |-> "ok"]
  /\ act' = [name |-> "ItClose", s |-> s, c |-> c]
  /\ NoWrite /\ UNCHANGED <<lost, cleak, conn, opens>>

(* Discard() / Close() of the transaction: CloseSend *)
TxDiscard(s) ==
  /\ Tick /\ strm[s].kind = "tx" /\ strm[s].cl = "open" /\ strm[s].srv # "pending"
  /\ strm' = [strm EXCEPT ![s] = [(IF conn = "up" THEN ClientEnds(@) ELSE @) EXCEPT !.cl = "closed", !.cfin = (@ \/ FixLeak)]]
  /\ act' = [name |-> "TxDiscard", s |-> s] /\ res' = [kind |-> "ok"]
  /\ NoWrite /\ UNCHANGED <<cit, lost, cleak, conn, opens>>

(* every write through the remote database is refused on the client; nothing reaches the server *)
WriteKinds == {"TxPut", "TxDelete", "TxDeleteRange", "TxCommit", "DBPut", "DBDelete", "DBDeleteRange", "DBUpdate"}
WriteAttempt(w, s, k) ==
  /\ Tick /\ conn = "up"
  /\ (w \in {"TxPut", "TxDelete", "TxDeleteRange", "TxCommit"}) => (strm[s].kind = "tx" /\ strm[s].cl = "open")
  /\ (w = "DBUpdate") => (NonePending /\ (FixLeak \/ cleak < MaxLost))
  /\ store' = IF Mutant = "write-through" /\ w = "TxPut" THEN [store EXCEPT ![k] = Absent] ELSE store
  /\ UNCHANGED <<ver, versions>>
  /\ act' = [name |-> "WriteAttempt", w |-> w, s |-> s, k |-> k]
  /\ res' = [kind |-> IF w \in {"DBPut", "DBDelete", "DBDeleteRange"} THEN "notsupported" ELSE "readonly"]
  \* DB.Update opens a stream and discards it: the handler ends, the client side as with every Discard
  /\ cleak' = IF w = "DBUpdate" /\ ~FixLeak THEN cleak + 1 ELSE cleak
  /\ UNCHANGED <<strm, cit, lost, conn, opens>>

--------------------------------------------------------------------------
(* DB-level calls: each opens a stream of its own (open, begin, one exchange in one call) *)
OneShot(nm, k, r) ==
  /\ Tick /\ EnableDB /\ conn = "up" /\ NonePending
  /\ FixLeak \/ lost < MaxLost
  /\ lost' = IF FixLeak THEN lost ELSE lost + 1
  /\ cleak' = IF FixLeak THEN cleak ELSE cleak + 1
  /\ act' = [name |-> nm, k |-> k] /\ res' = r
  /\ NoWrite /\ UNCHANGED <<strm, cit, conn, opens>>

DBGet(k) == OneShot("DBGet", k, IF store[k] # Absent THEN [kind |-> "value", v |-> store[k]] ELSE [kind |-> "notfound"])
DBHas(k) == OneShot("DBHas", k, IF store[k] # Absent THEN [kind |-> "has", b |-> TRUE]
                                ELSE IF FixHas THEN [kind |-> "has", b |-> FALSE] ELSE [kind |-> "notfound-err"])
(* DB.Write(fn): NewBatch opens a stream; fn's Put is refused; nobody closes the batch *)
DBWrite == OneShot("DBWrite", 0, [kind |-> "readonly"])

DBNewIter(s, p, ub) ==
  /\ Tick /\ EnableDB /\ conn = "up" /\ Free(s) /\ NonePending /\ opens < MaxOpens
  /\ cleak' = cleak + Abandoned(s)
  /\ LET S0 == [NoStream EXCEPT !.cl = "iter", !.kind = "dbiter", !.srv = "run", !.view = store, !.bver = ver, !.cfin = FALSE]
         h == Handle(S0, Rq("OPEN", 0, <<>>, 0)) IN
     /\ strm' = [strm EXCEPT ![s] = h.st]
     /\ cit' = [cit EXCEPT ![s] = [NoIts EXCEPT ![h.reply.id] = [NoIt EXCEPT !.made = TRUE, !.lo = p, !.ub = ub]]]
     /\ res' = [kind |-> "iter", c |-> h.reply.id]
  /\ opens' = opens + 1
  /\ act' = [name |-> "DBNewIter", s |-> s, p |-> p, ub |-> ub]
  /\ NoWrite /\ UNCHANGED <<lost, conn>>

(* the client goes away: DB context cancelled / connection closed.  Every handler's Recv fails, every
   handler returns and cleans up, whatever the client had open. *)
ConnClose ==
  /\ Tick /\ conn = "up" /\ NonePending
  /\ conn' = "down"
  /\ strm' = [s \in Streams |-> [(IF strm[s].srv = "run" THEN EndStream(strm[s], "cancel") ELSE strm[s]) EXCEPT !.cfin = TRUE]]
  /\ lost' = 0 /\ cleak' = 0
  /\ act' = [name |-> "ConnClose"] /\ res' = [kind |-> "ok"]
  /\ NoWrite /\ UNCHANGED <<cit, opens>>

--------------------------------------------------------------------------
(* RAW PROTOCOL: requests sent with the generated client stub, well-formed or not *)
RawOps == {"OPEN", "GET", "SEEK", "SEEK_EXACT", "NEXT", "CURRENT", "FIRST", "CLOSE", "BAD"}
RawCursors == 0..(MaxCur + 1)       \* 0 and MaxCur+1 are never handed out

RawOpen(s) == EnableRaw /\ OpenSlot(s, "raw", "RawOpen")

RawReq(s, op, c, t, k) ==
  /\ Tick /\ conn = "up" /\ strm[s].kind = "raw" /\ strm[s].cl = "open" /\ strm[s].srv # "pending"
  /\ op = "OPEN" => strm[s].nextId < MaxCur
  /\ LET h == Served(strm[s], Rq(op, c, t, k)) IN
     /\ strm' = [strm EXCEPT ![s] = h.st]
     /\ res' = h.reply
  /\ act' = [name |-> "RawReq", s |-> s, op |-> op, c |-> c, t |-> t, k |-> k]
  /\ NoWrite /\ UNCHANGED <<cit, lost, cleak, conn, opens>>

(* CloseSend, then Recv until the status arrives *)
RawCloseSend(s) ==
  /\ Tick /\ conn = "up" /\ strm[s].kind = "raw" /\ strm[s].cl = "open" /\ strm[s].srv # "pending"
  /\ LET S == ClientEnds(strm[s]) IN
     /\ strm' = [strm EXCEPT ![s] = [S EXCEPT !.cl = "closed", !.cfin = TRUE]]
     /\ res' = IF S.status = "ok" THEN [kind |-> "eof"] ELSE Err
  /\ act' = [name |-> "RawCloseSend", s |-> s]
  /\ NoWrite /\ UNCHANGED <<cit, lost, cleak, conn, opens>>

(* the client cancels the stream's context: abrupt end *)
RawCancel(s) ==
  /\ Tick /\ conn = "up" /\ strm[s].kind = "raw" /\ strm[s].cl = "open" /\ strm[s].srv # "pending"
  /\ strm' = [strm EXCEPT ![s] = [(IF @.srv = "run" THEN EndStream(@, "cancel") ELSE @) EXCEPT !.cl = "closed", !.cfin = TRUE]]
  /\ act' = [name |-> "RawCancel", s |-> s] /\ res' = [kind |-> "ok"]
  /\ NoWrite /\ UNCHANGED <<cit, lost, cleak, conn, opens>>

--------------------------------------------------------------------------
Next ==
  \/ \E k \in K, v \in Vals \cup {Absent} : Write(k, v)
  \/ \E s \in Streams : TxOpen(s) \/ RawOpen(s) \/ Begin(s) \/ TxDiscard(s) \/ RawCloseSend(s) \/ RawCancel(s)
  \/ \E s \in Streams, k \in K : TxGet(s, k) \/ TxHas(s, k)
  \/ \E s \in Streams, p \in Prefixes, ub \in BOOLEAN : TxNewIter(s, p, ub) \/ DBNewIter(s, p, ub)
  \/ \E s \in Streams, c \in CurIds : ItFirst(s, c) \/ ItNext(s, c) \/ ItValid(s, c) \/ ItClose(s, c)
  \/ \E s \in Streams, c \in CurIds, t \in Targets : ItSeek(s, c, t)
  \/ \E w \in WriteKinds, s \in Streams, k \in K : WriteAttempt(w, s, k)
  \/ \E k \in K : DBGet(k) \/ DBHas(k)
  \/ DBWrite \/ ConnClose
  \/ \E s \in Streams, op \in RawOps :
       \E c \in (IF op \in {"OPEN", "GET"} THEN {0} ELSE RawCursors),
          t \in (IF op \in {"SEEK", "SEEK_EXACT"} THEN Targets ELSE {<<>>}),     \* only seeks carry a target ...
          k \in (IF op = "GET" THEN K ELSE {0}) :                               \* ... and only GET a key
            RawReq(s, op, c, t, k)

Spec == Init /\ [][Next]_vars

--------------------------------------------------------------------------
(* GROUND TRUTH: the ordered-map reading of a content d restricted to [lo, hi) *)
InB(d, lo, hi, k) == d[k] # Absent /\ LexLeq(lo, KeyBytes[k]) /\ (hi = <<>> \/ LexLess(KeyBytes[k], hi))
TAt(d, k) == IF k \in K THEN [kind |-> "at", k |-> k, v |-> d[k]] ELSE [kind |-> "invalid"]
TFirst(d, lo, hi) == TAt(d, Least({k \in K : InB(d, lo, hi, k)}))
TSeek(d, lo, hi, t) == TAt(d, Least({k \in K : InB(d, lo, hi, k) /\ LexLeq(t, KeyBytes[k])}))
TAfter(d, lo, hi, pk) == TAt(d, Least({k \in K : InB(d, lo, hi, k) /\ k > pk}))
TGet(d, k) == IF d[k] # Absent THEN [kind |-> "value", v |-> d[k]] ELSE [kind |-> "notfound"]

(* which content a read has to reflect: the version pinned for it *)
GetVersion(s) == IF FixSnapshot THEN strm[s].bver ELSE ver
CurVersion(s, c) == strm[s].cur[c].ver
ContentAt(v) == versions[v + 1]

(* the bounds a client iterator was asked for (the contract), and those in force in the design *)
AskedLo(i) == i.lo
AskedHi(i) == IF i.ub THEN UpperBound(i.lo) ELSE <<>>
ForceLo(i) == IF FixBounds THEN i.lo ELSE <<>>
ForceHi(i) == IF FixBounds THEN AskedHi(i) ELSE <<>>

IsItMove == act'.name \in {"ItFirst", "ItSeek", "ItNext"}
(* a cursor the protocol says exists: handed out by an OPEN of this stream and not named by a CLOSE since *)
CurLive(S, c) == c \in 1..S.nextId /\ c \notin S.gone
Healthy(s, c) == Reaches(s) /\ strm[s].srv = "run" /\ CurLive(strm[s], c) /\ ~cit[s][c].closed

--------------------------------------------------------------------------
(* PROPERTIES *)
TypeOK ==
  /\ store \in [K -> Vals \cup {Absent}]
  /\ ver \in 0..MaxWrites /\ Len(versions) = ver + 1 /\ versions[ver + 1] = store
  /\ lost \in 0..MaxLost /\ cleak \in 0..(2 * MaxLost + MaxOpens) /\ conn \in {"up", "down"}
  /\ \A s \in Streams :
       /\ strm[s].cl \in {"none", "open", "iter", "lost", "closed"}
       /\ strm[s].srv \in {"none", "pending", "run", "done"}
       /\ strm[s].nextId \in 0..MaxCur
       /\ \A c \in CurIds : strm[s].cur[c].pos \in 0..(NK + 1) /\ (strm[s].cur[c].open => c <= strm[s].nextId)
       /\ (Mutant = "none" /\ strm[s].srv = "run") => \A c \in CurIds : strm[s].cur[c].open = CurLive(strm[s], c)

(* 1. Every read returns exactly what the ordered map says on the content pinned for it. *)
GetsMatchTruth ==
  [][(act'.name = "TxGet" /\ res'.kind # "err") => res' = TGet(ContentAt(GetVersion(act'.s)), act'.k)]_vars
HasMatchesTruth ==
  [][(act'.name = "TxHas" /\ res'.kind = "has") =>
        res'.b = (ContentAt(GetVersion(act'.s))[act'.k] # Absent)]_vars
DBReadsAreCurrent ==
  [][/\ act'.name = "DBGet" => res' = TGet(store, act'.k)
     /\ (act'.name = "DBHas" /\ res'.kind = "has") => res'.b = (store[act'.k] # Absent)]_vars

(* the iterator contract of db.Iterator / db/pebble on the pinned content, with the bounds in force:
   what the move nm (with seek target t) of client iterator s/c has to answer in the current state *)
MoveTruth(s, c, nm, t) ==
  LET i == cit[s][c]
      d == ContentAt(CurVersion(s, c))  lo == ForceLo(i)  hi == ForceHi(i)
      p == strm[s].cur[c].pos IN
  CASE nm = "ItFirst" -> TFirst(d, lo, hi)
    [] nm = "ItSeek" -> TSeek(d, lo, hi, t)
    [] nm = "ItNext" ->
         IF (FixBounds /\ ~i.posd) \/ p = 0 THEN TFirst(d, lo, hi)
         ELSE IF p > NK THEN [kind |-> "invalid"]          \* once invalid, Next stays invalid
         ELSE TAfter(d, lo, hi, p)
IterMovesMatchTruth ==
  [][(IsItMove /\ Healthy(act'.s, act'.c) /\ (act'.name = "ItFirst" => (FixFirst \/ (FixBounds /\ cit[act'.s][act'.c].lo # <<>>)))) =>
       res' = MoveTruth(act'.s, act'.c, act'.name, IF act'.name = "ItSeek" THEN act'.t ELSE <<>>)]_vars
ValidMatchesPosition ==
  [][(act'.name = "ItValid" /\ Healthy(act'.s, act'.c)) =>
       LET s == act'.s  c == act'.c  i == cit[s][c]  p == strm[s].cur[c].pos
           d == ContentAt(CurVersion(s, c)) IN
       res' = IF p \in K /\ InB(d, ForceLo(i), ForceHi(i), p) THEN TAt(d, p) ELSE [kind |-> "invalid"]]_vars

(* raw cursor operations against the truth on the cursor's pinned content, no bounds *)
RawMatchesTruth ==
  [][(act'.name = "RawReq" /\ res'.kind \in {"pair", "empty"} /\ act'.op \notin {"OPEN", "CLOSE"}) =>
       LET s == act'.s  c == act'.c IN
       IF act'.op = "GET" THEN (res'.kind = "pair") = (ContentAt(GetVersion(s))[act'.k] # Absent)
                               /\ (res'.kind = "pair" => res'.k = act'.k /\ res'.v = ContentAt(GetVersion(s))[act'.k])
       ELSE LET d == ContentAt(CurVersion(s, c))  p == strm[s].cur[c].pos
                want == CASE act'.op = "SEEK" -> TSeek(d, <<>>, <<>>, act'.t)
                          [] act'.op = "SEEK_EXACT" -> LET x == TSeek(d, <<>>, <<>>, act'.t) IN
                                                       IF x.kind = "at" /\ KeyBytes[x.k] = act'.t THEN x ELSE [kind |-> "invalid"]
                          [] act'.op = "NEXT" -> IF p = 0 THEN TFirst(d, <<>>, <<>>) ELSE IF p > NK THEN [kind |-> "invalid"] ELSE TAfter(d, <<>>, <<>>, p)
                          [] act'.op = "FIRST" -> TFirst(d, <<>>, <<>>)
                          [] act'.op = "CURRENT" -> IF p \in K THEN TAt(d, p) ELSE [kind |-> "invalid"] IN
            /\ res'.id = c                                   \* the reply names the cursor it is about
            /\ IF want.kind = "at" THEN res'.kind = "pair" /\ res'.k = want.k /\ res'.v = want.v
               ELSE res'.kind = "empty"]_vars

(* 2. db.Snapshot's contract: all reads of one transaction reflect ONE content, the one at its
      beginning.  Violated as coded (GET is live, a cursor pins the content of its own OPEN). *)
SnapshotContract ==
  [][/\ (act'.name = "TxGet" /\ res'.kind # "err") => res' = TGet(ContentAt(strm[act'.s].bver), act'.k)
     /\ (act'.name = "TxNewIter" /\ res'.kind = "iter") => strm'[act'.s].cur[res'.c].ver = strm[act'.s].bver]_vars

(* 3. Iterator bounds: whatever a client iterator reports lies inside the range it was created for.
      Violated as coded (prefix and bound are dropped). *)
IterWithinBounds ==
  \A s \in Streams, c \in CurIds :
    (cit[s][c].made /\ cit[s][c].ck # 0) =>
       /\ LexLeq(AskedLo(cit[s][c]), KeyBytes[cit[s][c].ck])
       /\ (AskedHi(cit[s][c]) # <<>> => LexLess(KeyBytes[cit[s][c].ck], AskedHi(cit[s][c])))

(* the client's cache is the server's position: a cached key is where the cursor stands, with the
   value of the pinned content *)
CacheCoherent ==
  \A s \in Streams, c \in CurIds :
    (cit[s][c].made /\ cit[s][c].ck # 0) =>
       /\ cit[s][c].cv # Absent
       /\ strm[s].srv = "run" =>      \* (a stream killed through another cursor leaves the cache behind)
            /\ strm[s].cur[c].open /\ strm[s].cur[c].pos = cit[s][c].ck
            /\ cit[s][c].cv = ContentAt(strm[s].cur[c].ver)[cit[s][c].ck]

(* 4. Isolation: an exchange on one stream / cursor changes no other stream and (unless it kills the
      stream) no other cursor; server-side writes change no pinned content and no position. *)
Touches == {"TxGet", "TxHas", "TxNewIter", "ItFirst", "ItSeek", "ItNext", "ItValid", "ItClose", "TxDiscard",
            "RawReq", "RawCloseSend", "RawCancel", "Begin", "TxOpen", "RawOpen", "DBNewIter"}
StreamIsolation ==
  [][act'.name \in Touches => \A s2 \in Streams \ {act'.s} : strm'[s2] = strm[s2] /\ cit'[s2] = cit[s2]]_vars
CursorIsolation ==
  [][(act'.name \in {"ItFirst", "ItSeek", "ItNext", "ItValid", "ItClose", "RawReq"} /\ strm'[act'.s].srv = "run") =>
        \A c2 \in CurIds : (act'.name = "RawReq" /\ act'.op = "OPEN") \/ c2 = act'.c
                            \/ (strm'[act'.s].cur[c2] = strm[act'.s].cur[c2] /\ cit'[act'.s][c2] = cit[act'.s][c2])]_vars
PinnedContentIsFixed ==
  [][\A s \in Streams, c \in CurIds :
        (strm[s].cur[c].open /\ strm'[s].cur[c].open) =>
           /\ strm'[s].cur[c].ver = strm[s].cur[c].ver
           /\ strm'[s].cur[c].data = ContentAt(strm[s].cur[c].ver)]_vars
WritesMoveNothing ==
  [][act'.name = "Write" => strm' = strm /\ cit' = cit]_vars

(* 5. Errors are errors, never data: a request that names a cursor which is not open, any request
      on a stream that has ended, an operation outside the protocol. *)
ErrorsAreErrors ==
  [][/\ (act'.name = "RawReq" /\ (strm[act'.s].srv # "run"
                                   \/ act'.op = "BAD"
                                   \/ (act'.op \notin {"OPEN", "GET"} /\ ~CurLive(strm[act'.s], act'.c)))) => res' = Err
     /\ (act'.name \in {"TxGet", "TxHas", "TxNewIter"} /\ (~Reaches(act'.s) \/ strm[act'.s].srv # "run")) => res' = Err
     /\ ((IsItMove \/ (act'.name = "ItValid" /\ cit[act'.s][act'.c].ck = 0))      \* (Valid may answer from the cache)
           /\ (~Reaches(act'.s) \/ strm[act'.s].srv # "run" \/ ~CurLive(strm[act'.s], act'.c))) => res'.kind = "invalid"
     /\ (act'.name = "ItClose" /\ (~Reaches(act'.s) \/ strm[act'.s].srv # "run" \/ ~CurLive(strm[act'.s], act'.c))) => res' = Err]_vars
(* ... and a well-formed request on a live stream is never refused.  Violated as coded by FIRST. *)
WellFormed(S, a) == S.srv = "run" /\ a.op # "BAD" /\ (a.op \in {"OPEN", "GET"} \/ CurLive(S, a.c))
NoSpuriousError ==
  [][/\ (act'.name = "RawReq" /\ WellFormed(strm[act'.s], act')) => res' # Err /\ strm'[act'.s].srv = "run"
     /\ (IsItMove /\ Healthy(act'.s, act'.c)) => strm'[act'.s].srv = "run"]_vars
(* a scan that ended because the stream died is told apart from one that reached the end: Close fails *)
TruncationIsDetectable ==
  [][(act'.name = "ItClose" /\ ~cit[act'.s][act'.c].closed /\ strm[act'.s].kind = "tx" /\ (strm[act'.s].srv # "run" \/ ~Reaches(act'.s))) => res' = Err]_vars
SeekExactIsExact ==
  [][(act'.name = "RawReq" /\ act'.op = "SEEK_EXACT" /\ res'.kind = "pair") => KeyBytes[res'.k] = act'.t]_vars

(* 6. The remote database is read-only: only the server-side writer changes the store. *)
ReadOnly == [][store' # store => act'.name = "Write"]_vars
WritesAreRefused == [][act'.name = "WriteAttempt" => res'.kind \in {"readonly", "notsupported"}]_vars

(* 7. Resources.  When a handler has returned all its cursors are closed, however the stream ended;
      a handler runs - and the client side of a stream stays unfinished - only while the client
      holds a handle that can end it.  NoLeak is violated as coded: on the server by DB.Get / Has /
      Write / NewIterator (handler + view for ever), on the client by EVERY transaction (Discard / Close
      half-close the stream and never read its status). *)
CleanupComplete ==
  \A s \in Streams : strm[s].srv \in {"none", "done"} => \A c \in CurIds : ~strm[s].cur[c].open
NoLeak ==
  /\ lost = 0 /\ cleak = 0
  /\ \A s \in Streams : strm[s].srv \in {"pending", "run"} => strm[s].cl \in {"open", "iter"}
  /\ \A s \in Streams : ~strm[s].cfin => strm[s].cl \in {"open", "iter"}         \* the client side too
NothingSurvivesTheConnection ==
  conn = "down" => /\ lost = 0 /\ cleak = 0
                   /\ \A s \in Streams : strm[s].srv \in {"none", "done"} /\ strm[s].cfin

(* 8. Small contracts.  Both violated as coded. *)
HasIsBoolean == [][act'.name \in {"TxHas", "DBHas"} => res'.kind \in {"has", "err"}]_vars
CleanCloseIsOK ==
  [][(act'.name = "RawCloseSend" /\ strm[act'.s].srv = "run") => res'.kind = "eof"]_vars

(* vacuity guards: reachable situations the properties above talk about *)
NoCursorSurvivesAWrite == \A s \in Streams, c \in CurIds : strm[s].cur[c].open => strm[s].cur[c].ver = ver
NoDeadStreamInUse == \A s \in Streams : ~(strm[s].cl = "open" /\ strm[s].srv = "done")
=============================================================================

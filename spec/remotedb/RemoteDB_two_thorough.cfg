\* repaired design, exhaustive: two streams, one cursor each, two writes, DB-level calls
CONSTANTS
  KeyBytes <- KeysTiny
  Prefixes <- PrefixesTiny
  Targets <- TargetsTiny
  Vals <- ValsOne
  Streams = {1, 2}
  MaxCur = 1
  MaxWrites = 1
  MaxOpens = 3
  MaxLost = 1
  MaxSteps = 1000000
  EnableTx = TRUE
  EnableDB = TRUE
  EnableRaw = TRUE
  EnableMisuse = TRUE
  FixFirst = TRUE
  FixBounds = TRUE
  FixSnapshot = TRUE
  FixLeak = TRUE
  FixHas = TRUE
  FixEOF = TRUE
  Mutant = "none"
INIT Init
NEXT Next
VIEW view
INVARIANTS TypeOK IterWithinBounds CacheCoherent CleanupComplete NoLeak NothingSurvivesTheConnection
PROPERTIES GetsMatchTruth HasMatchesTruth DBReadsAreCurrent IterMovesMatchTruth ValidMatchesPosition RawMatchesTruth SnapshotContract StreamIsolation CursorIsolation PinnedContentIsFixed WritesMoveNothing ErrorsAreErrors NoSpuriousError TruncationIsDetectable SeekExactIsExact ReadOnly WritesAreRefused HasIsBoolean CleanCloseIsOK
CHECK_DEADLOCK FALSE

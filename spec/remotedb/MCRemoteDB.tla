------------------------------ MODULE MCRemoteDB ------------------------------
(* Model-checking / behaviour-generation instances of RemoteDB: constants a .cfg cannot express. *)
EXTENDS RemoteDB

\* sorted byte-lexicographically; bucket-prefixed keys, a key that is a prefix of another, 0xff tails
KeysTiny == << <<1>>, <<1, 0>> >>
KeysSmall == << <<1>>, <<1, 0>>, <<2>> >>
KeysFull == << <<0>>, <<1>>, <<1, 0>>, <<1, 255>>, <<2>>, <<255, 255>> >>
PrefixesTiny == { <<>>, <<1, 0>> }
PrefixesSmall == { <<>>, <<1>>, <<2>> }
PrefixesQuick == { <<>>, <<1, 0>> }
PrefixesFull == { <<>>, <<0>>, <<1>>, <<1, 0>>, <<1, 255>>, <<2>>, <<3>>, <<255>>, <<255, 255>> }
TargetsTiny == { <<>>, <<1, 0>>, <<2>> }
TargetsSmall == { <<>>, <<1>>, <<1, 0, 0>>, <<3>> }
TargetsFull == { <<>>, <<0>>, <<0, 7>>, <<1>>, <<1, 0>>, <<1, 0, 0>>, <<1, 255>>, <<1, 255, 255>>, <<2>>, <<9>>, <<255>>, <<255, 255>>, <<255, 255, 255>> }
ValsOne == {"a"}
ValsSmall == {"a", "b"}
ValsFull == {"", "a", "b"}
=============================================================================

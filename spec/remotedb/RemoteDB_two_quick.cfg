\* repaired design, exhaustive: two streams (client library and raw), one cursor each: isolation
CONSTANTS
  KeyBytes <- KeysTiny
  Prefixes <- PrefixesTiny
  Targets <- TargetsTiny
  Vals <- ValsOne
  Streams = {1, 2}
  MaxCur = 1
  MaxWrites = 1
  MaxOpens = 2
  MaxLost = 1
  MaxSteps = 1000000
  EnableTx = TRUE
  EnableDB = FALSE
  EnableRaw = TRUE
  EnableMisuse = FALSE
  FixFirst = TRUE
  FixBounds = TRUE
  FixSnapshot = TRUE
  FixLeak = TRUE
  FixHas = TRUE
  FixEOF = TRUE
  Mutant = "none"
INIT Init
NEXT Next
VIEW view
INVARIANTS TypeOK IterWithinBounds CacheCoherent CleanupComplete NoLeak NothingSurvivesTheConnection
PROPERTIES GetsMatchTruth HasMatchesTruth DBReadsAreCurrent IterMovesMatchTruth ValidMatchesPosition RawMatchesTruth SnapshotContract StreamIsolation CursorIsolation PinnedContentIsFixed WritesMoveNothing ErrorsAreErrors NoSpuriousError TruncationIsDetectable SeekExactIsExact ReadOnly WritesAreRefused HasIsBoolean CleanCloseIsOK
CHECK_DEADLOCK FALSE

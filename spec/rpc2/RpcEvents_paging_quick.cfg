\* exhaustive, the code as it is: complete paged getEvents queries (every chunk size; ranges given by absent /
\* number / pre_confirmed) + the error codes; canonical chain <= 2 blocks, <= 2 stored pre-confirmed blocks with every
\* number of received transactions, 8 filters
CONSTANTS
  MaxLen = 2
  MaxReverts = 0
  MaxPc = 2
  Txs <- MCTxs
  Ev <- MCEv
  FilterMenu <- MCFiltersQuick
  ChunkMenu = {1, 2, 100}
  FromKinds = {"none", "num", "pre_confirmed"}
  ToKinds = {"none", "num", "pre_confirmed"}
  WithEvents = TRUE
  WithTokens = FALSE
  WithReads = FALSE
  WithStale = FALSE
  L1Menu = {}
  FixL1EventsClamp = FALSE
INIT Init
NEXT Next
VIEW view
INVARIANTS TypeOK PcContiguous ViewResolution
PROPERTIES EventsAnswerFromChain BadTokenRejected EventsTagged PagesWellFormed ReadsArePure
CHECK_DEADLOCK FALSE

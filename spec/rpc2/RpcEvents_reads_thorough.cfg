\* as reads_quick with canonical chain <= 3 blocks, 2 reverts
CONSTANTS
  MaxLen = 3
  MaxReverts = 2
  MaxPc = 2
  Txs <- MCTxs
  Ev <- MCEv
  FilterMenu <- MCFiltersQuick
  ChunkMenu = {1, 2, 100}
  FromKinds = {"none", "num", "pre_confirmed"}
  ToKinds = {"none", "num", "pre_confirmed"}
  WithEvents = FALSE
  WithTokens = FALSE
  WithReads = TRUE
  WithStale = TRUE
  L1Menu = {0, 2}
  FixL1EventsClamp = FALSE
INIT Init
NEXT Next
VIEW view
INVARIANTS TypeOK PcContiguous ViewResolution
PROPERTIES NoLaxWhenOnChain ReadsAnswerFromChain PreConfirmedFinality ReadsArePure
CHECK_DEADLOCK FALSE

\* expected VIOLATION (vacuity guard): a >= 3-page query with a page mixing canonical and pre-confirmed events is reachable
CONSTANTS
  MaxLen = 2
  MaxReverts = 0
  MaxPc = 2
  Txs <- MCTxs
  Ev <- MCEv
  FilterMenu <- MCFiltersQuick
  ChunkMenu = {1, 2, 100}
  FromKinds = {"none", "num", "pre_confirmed"}
  ToKinds = {"none", "num", "pre_confirmed"}
  WithEvents = TRUE
  WithTokens = FALSE
  WithReads = FALSE
  WithStale = FALSE
  L1Menu = {}
  FixL1EventsClamp = FALSE
INIT Init
NEXT Next
INVARIANTS WitnessNoPagingAcrossHead
CHECK_DEADLOCK FALSE

\* expected VIOLATION (vacuity guard): a receipt found in a view block below the tip is reachable
CONSTANTS
  MaxLen = 2
  MaxReverts = 0
  MaxPc = 2
  Txs <- MCTxs
  Ev <- MCEv
  FilterMenu <- MCFiltersQuick
  ChunkMenu = {1, 2, 100}
  FromKinds = {"none", "num", "pre_confirmed"}
  ToKinds = {"none", "num", "pre_confirmed"}
  WithEvents = FALSE
  WithTokens = FALSE
  WithReads = TRUE
  WithStale = FALSE
  L1Menu = {}
  FixL1EventsClamp = FALSE
INIT Init
NEXT Next
INVARIANTS WitnessNoReceiptBelowTip
CHECK_DEADLOCK FALSE

\* as paging_quick with canonical chain <= 3 blocks, all 55 filters, chunk 1/2/3/100
CONSTANTS
  MaxLen = 3
  MaxReverts = 0
  MaxPc = 2
  Txs <- MCTxs
  Ev <- MCEv
  FilterMenu <- MCFiltersAll
  ChunkMenu = {1, 2, 3, 100}
  FromKinds = {"none", "num", "pre_confirmed"}
  ToKinds = {"none", "num", "pre_confirmed"}
  WithEvents = TRUE
  WithTokens = FALSE
  WithReads = FALSE
  WithStale = FALSE
  L1Menu = {}
  FixL1EventsClamp = FALSE
INIT Init
NEXT Next
VIEW view
INVARIANTS TypeOK PcContiguous ViewResolution
PROPERTIES EventsAnswerFromChain EventsTagged PagesWellFormed ReadsArePure
CHECK_DEADLOCK FALSE

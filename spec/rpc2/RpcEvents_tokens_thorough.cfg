\* as tokens_quick with 8 filters, chain <= 3
CONSTANTS
  MaxLen = 3
  MaxReverts = 0
  MaxPc = 2
  Txs <- MCTxs
  Ev <- MCEv
  FilterMenu <- MCFiltersQuick
  ChunkMenu = {1, 2, 3}
  FromKinds = {"none", "num", "pre_confirmed"}
  ToKinds = {"none", "num", "pre_confirmed"}
  WithEvents = FALSE
  WithTokens = TRUE
  WithReads = FALSE
  WithStale = FALSE
  L1Menu = {}
  FixL1EventsClamp = FALSE
INIT Init
NEXT Next
VIEW view
INVARIANTS TypeOK PcContiguous ViewResolution
PROPERTIES ForeignTokenSound ReadsArePure
CHECK_DEADLOCK FALSE

\* exhaustive, the code as it is: getEvents ranges given by EVERY identifier kind (absent, number, hash incl. a block that is
\* not in the chain and an unknown hash, latest, l1_accepted with the L1 head none / below / above the height, pre_confirmed), with
\* reverts and a pre-confirmed storage the poller has not yet re-aligned (stale)
CONSTANTS
  MaxLen = 2
  MaxReverts = 0
  MaxPc = 1
  Txs <- MCTxs
  Ev <- MCEv
  FilterMenu <- MCFiltersTwo
  ChunkMenu = {2}
  FromKinds = {"none", "num", "hash", "latest", "l1_accepted", "pre_confirmed"}
  ToKinds = {"none", "num", "hash", "latest", "l1_accepted", "pre_confirmed"}
  WithEvents = TRUE
  WithTokens = FALSE
  WithReads = FALSE
  WithStale = TRUE
  L1Menu = {0, 2}
  FixL1EventsClamp = FALSE
INIT Init
NEXT Next
VIEW view
INVARIANTS TypeOK PcContiguous ViewResolution
PROPERTIES EventsAnswerFromChain BadTokenRejected EventsTagged PagesWellFormed ReadsArePure
CHECK_DEADLOCK FALSE

------------------------------- MODULE RpcEventsMBT -------------------------------
(* Behaviour generation for the replayer (harness/engines/rpc2): RpcEvents plus a history.
   Every step records the action (for Store / PcFull / PcDelta: path, transactions, their events
   and the state diff, which the replayer concretises), what the model of the code answers for
   v0.9 / v0.10 (`res`) and v0.8 (`res8`), what the property demands (`want`, `want8`) and the
   chain / L1 head / pre-confirmed storage after the step.  At MaxSteps the history is printed as
   one JSON line and the machine is reset, so one -simulate run yields many behaviours. *)
EXTENDS MCRpcEvents, Json

CONSTANT MaxSteps
VARIABLES hist, steps, seen
mbtvars == <<vars, hist, steps, seen>>

MBTInit == Init /\ hist = <<>> /\ steps = 0 /\ seen = {}

(* one random parameter choice per schema and step: uniform over schemas, not over instances *)
R(S) == IF S = {} THEN {} ELSE {RandomElement(S)}

AllKinds == {"none", "num", "hash", "latest", "l1_accepted", "pre_confirmed"}
(* hashes worth asking for: blocks of the chain, blocks a revert dropped, a hash nobody has *)
IdsM(kd) ==
  CASE kd = "none" -> {NoId}
    [] kd = "num" -> {NumId(n) : n \in 0..(Height + Len(pcs) + 2)}
    [] kd = "hash" -> {HashId(h) : h \in seen \cup {UnknownHash}}
    [] OTHER -> {TagId(kd)}
(* from / to kinds weighted towards the ranges that reach the pre-confirmed blocks *)
FromK == {"none", "none", "num", "num", "hash", "latest", "l1_accepted", "pre_confirmed"}
ToK == {"none", "num", "hash", "latest", "l1_accepted", "pre_confirmed", "pre_confirmed", "pre_confirmed"}
FromKSeq == <<"none", "none", "num", "num", "hash", "latest", "l1_accepted", "pre_confirmed">>
ToKSeq == <<"none", "num", "hash", "latest", "l1_accepted", "pre_confirmed", "pre_confirmed", "pre_confirmed">>
Chunks == {1, 1, 2, 3, 5, 100}
ChunkSeq == <<1, 1, 2, 3, 5, 100>>

EventsR ==
  \E f \in R(MCFiltersAll), ci \in R(1..Len(ChunkSeq)), fi \in R(1..Len(FromKSeq)), ti \in R(1..Len(ToKSeq)) :
    \E from \in R(IdsM(FromKSeq[fi])), to \in R(IdsM(ToKSeq[ti])) : GetEventsAll(f, from, to, ChunkSeq[ci])
(* everything, page by page, the sharpest probe of the paging *)
EventsFullR ==
  \E f \in R({F({}, <<>>), F({1}, <<>>), F({2}, <<>>), F({}, <<{1, 2}>>)}), c \in R({1, 2, 3}) :
    GetEventsAll(f, NoId, TagId("pre_confirmed"), c)
(* ranges that start INSIDE the view (by the pre_confirmed tag = its tip, or by the number of one of its
   blocks) and end at its tip, asked with broad filters while the view holds events *)
ViewNums == IF chain = <<>> THEN {} ELSE {Height + i : i \in 1..Len(IView)}
EventsViewR ==
  /\ chain # <<>> /\ \E i \in 1..Len(IView) : VEvents(IView[i]) # <<>>
  /\ \E f \in R({F({}, <<>>), F({1}, <<>>), F({2}, <<>>), F({}, <<{1, 2}>>), F({1, 2}, <<{}>>)}), c \in R({1, 2, 100}) :
       \E from \in R({TagId("pre_confirmed"), TagId("pre_confirmed"), TagId("latest")} \cup {NumId(n) : n \in ViewNums}) :
         GetEventsAll(f, from, TagId("pre_confirmed"), c)
EventsErrR ==
  \/ \E f \in R(MCFiltersAll), c \in R({0, MaxChunk, BigChunk}) : GetEventsAll(f, NoId, NoId, c)
  \/ \E f \in R(MCFiltersAll), hg \in R({1, 2}) : GetEventsAll([f EXCEPT !.huge = hg], NoId, NoId, 2)
  \/ \E f \in R(MCFiltersAll), g \in R(0..3), tk \in R({"none", "pre_confirmed"}) :
       GetEventsPage(f, NoId, TagId(tk), 2, [b |-> -7, p |-> g])
  \/ \E f \in R(MCFiltersAll), k \in R({"hash", "l1_accepted"}) :
       \E id \in R(IdsM(k)), side \in R({0, 1}) :
         GetEventsAll(f, IF side = 0 THEN id ELSE NoId, IF side = 1 THEN id ELSE NoId, 2)
EventsTokR ==
  \E f \in R(MCFiltersAll), c \in R({1, 2, 3}), b \in R(0..(Height + Len(pcs) + 1)), p \in R(0..3),
     tk \in R({"none", "pre_confirmed"}) :
    GetEventsPage(f, NoId, TagId(tk), c, [b |-> b, p |-> p])

(* transactions worth asking for: those of blocks ever stored or pre-confirmed, plus a hash nobody has *)
SeenTx == UNION {Range(TxsOf(p)) : p \in seen} \cup {BogusTx}
PcTx == UNION {Range(SlotTxs(pcs[i])) : i \in 1..Len(pcs)}
MIds == {TagId("pre_confirmed"), TagId("pre_confirmed"), TagId("latest"), NumId(Height + 1)}
MIdSeq == <<TagId("pre_confirmed"), TagId("pre_confirmed"), TagId("pre_confirmed"), TagId("latest"), NumId(Height + 1)>>
IdR(m) == \E i \in R(1..Len(MIdSeq)) : IdRead(m, MIdSeq[i])

MethodsR ==
  \/ IdR("getBlockWithTxHashes") \/ IdR("getBlockWithTxs") \/ IdR("getBlockWithReceipts")
  \/ IdR("getBlockTransactionCount") \/ IdR("getStateUpdate")
  \/ \E id \in R({TagId("pre_confirmed"), TagId("latest")}), i \in R(IdxArgs) :
       Read([name |-> "getTransactionByBlockIdAndIndex", id |-> id, i |-> i])
  \/ \E i \in R(1..Len(MIdSeq)), c \in R(CArgs), s \in R(Slots) : StateRead("getStorageAt", MIdSeq[i], c, s)
  \/ \E i \in R(1..Len(MIdSeq)), c \in R(CArgs) : StateRead("getNonce", MIdSeq[i], c, 1)
  \/ \E i \in R(1..Len(MIdSeq)), c \in R(CArgs) : StateRead("getClassHashAt", MIdSeq[i], c, 1)
  \/ \E i \in R(1..Len(MIdSeq)), c \in R(CArgs) : StateRead("getClassAt", MIdSeq[i], c, 1)
  \/ \E i \in R(1..Len(MIdSeq)), k \in R(KArgs) : StateRead("getClass", MIdSeq[i], k, 1)
  \/ \E t \in R(SeenTx) : TxRead("getTransactionByHash", t)
  \/ \E t \in R(SeenTx) : TxRead("getTransactionReceipt", t)
  \/ \E t \in R(SeenTx) : TxRead("getTransactionStatus", t)
  \/ \E t \in R(PcTx) : TxRead("getTransactionByHash", t)
  \/ \E t \in R(PcTx) : TxRead("getTransactionReceipt", t)
  \/ \E t \in R(PcTx) : TxRead("getTransactionStatus", t)

(* the poller's calls, with parameters that are enabled: slot index up to one past the tip, round,
   number of transactions received so far (biased to "complete" so that the next block can open) *)
Cnt(n, r) == LET full == Len(Txs(n, r)) IN {0, 1, full, full} \cap (0..full)
PcFullR ==
  \E i \in R(1..Min(MaxPc, Len(pcs) + 1)), r \in R(Variants) :
    \E k \in R(Cnt(Height + i, r)) : PcFull(i, r, k)
PcGrowR ==      \* complete the tip and open the next block: the way a view gets deep
  /\ pcs # <<>> /\ Len(pcs) < MaxPc
  /\ LET s == pcs[Len(pcs)] IN
       IF s.k < Len(TxsOf(s.p)) THEN PcDelta(Len(TxsOf(s.p)))
       ELSE \E r \in R(Variants) : \E k \in R(Cnt(SlotNum(s) + 1, r)) : PcFull(Len(pcs) + 1, r, k)
PcDeltaR ==
  /\ pcs # <<>>
  /\ \E k2 \in R((pcs[Len(pcs)].k + 1)..Len(TxsOf(pcs[Len(pcs)].p))) : PcDelta(k2)

Mutators ==
  \/ \E v \in R(Variants) : Store(v)
  \/ Revert
  \/ \E n \in R(L1Menu) : SetL1Head(n)
  \/ PcAdvance \/ PcAdvance
  \/ PcFullR \/ PcFullR \/ PcGrowR \/ PcGrowR \/ PcGrowR \/ PcDeltaR

AllNext ==
  \/ Mutators
  \/ EventsR \/ EventsR \/ EventsR \/ EventsR \/ EventsFullR \/ EventsFullR \/ EventsErrR \/ EventsTokR
  \/ EventsViewR \/ EventsViewR
  \/ MethodsR

(* guidance: build a chain first, then get pre-confirmed blocks, then mostly read *)
SimNext ==
  IF steps < 2 /\ RandomElement(1..5) # 1 THEN \E v \in R(Variants) : Store(v)
  ELSE IF steps \in 2..5 /\ pcs = <<>> /\ chain # <<>> /\ RandomElement(1..3) # 1 THEN PcFullR
  ELSE AllNext

PcsProj == [i \in 1..Len(pcs) |-> [num |-> SlotNum(pcs[i]), path |-> pcs[i].p, k |-> pcs[i].k, txs |-> SlotTxs(pcs[i])]]

Step ==
  /\ SimNext
  /\ steps' = steps + 1
  /\ seen' = IF act'.name = "Store" THEN seen \cup {chain'} ELSE seen
  /\ hist' = Append(hist, [a |-> act', res |-> res', want |-> want', res8 |-> res8', want8 |-> want8',
                           chain |-> chain', l1 |-> l1', pcs |-> PcsProj',
                           lax |-> (act'.name = "getStorageAt" /\ LaxRead(act'))])

Emit ==
  /\ PrintT(ToJson(hist))
  /\ chain' = <<>> /\ l1' = -1 /\ pcs' = <<>> /\ reverts' = 0
  /\ act' = [name |-> "Init"] /\ res' = NoRes /\ want' = NoRes /\ res8' = NoRes /\ want8' = NoRes
  /\ hist' = <<>> /\ steps' = 0 /\ seen' = {}

MBTNext == IF steps >= MaxSteps THEN Emit ELSE Step
=============================================================================

\* expected VIOLATION (vacuity guard): a state read through a view built on a replaced block is reachable
CONSTANTS
  MaxLen = 2
  MaxReverts = 1
  MaxPc = 2
  Txs <- MCTxs
  Ev <- MCEv
  FilterMenu <- MCFiltersQuick
  ChunkMenu = {1, 2, 100}
  FromKinds = {"none", "num", "pre_confirmed"}
  ToKinds = {"none", "num", "pre_confirmed"}
  WithEvents = FALSE
  WithTokens = FALSE
  WithReads = TRUE
  WithStale = TRUE
  L1Menu = {}
  FixL1EventsClamp = FALSE
INIT Init
NEXT Next
INVARIANTS WitnessNoStaleOverlayRead
CHECK_DEADLOCK FALSE

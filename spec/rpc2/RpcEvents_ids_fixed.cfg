\* the repaired design (l1_accepted clamped to the height in getEvents too): no exception needed
CONSTANTS
  MaxLen = 2
  MaxReverts = 0
  MaxPc = 1
  Txs <- MCTxs
  Ev <- MCEv
  FilterMenu <- MCFiltersTwo
  ChunkMenu = {2}
  FromKinds = {"none", "num", "hash", "latest", "l1_accepted", "pre_confirmed"}
  ToKinds = {"none", "num", "hash", "latest", "l1_accepted", "pre_confirmed"}
  WithEvents = TRUE
  WithTokens = FALSE
  WithReads = FALSE
  WithStale = TRUE
  L1Menu = {0, 2}
  FixL1EventsClamp = TRUE
INIT Init
NEXT Next
VIEW view
INVARIANTS TypeOK PcContiguous ViewResolution
PROPERTIES EventsAnswerFromChainStrict EventsTagged PagesWellFormed
CHECK_DEADLOCK FALSE

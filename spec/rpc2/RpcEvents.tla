------------------------------- MODULE RpcEvents -------------------------------
(* Specification growth G03: the RPC read model extended to what C08 / C09 state as NOT covered:

     (a) starknet_getEvents through the real RPC stack (rpc/v8|v9|v10/events.go on top of
         blockchain/event_filter.go + event_matcher.go): block-id resolution of from_block /
         to_block (absent, number, hash, latest, l1_accepted, pre_confirmed / v0.8 pending),
         address and per-position key filters, chunk_size, continuation tokens, error codes;
     (b) the pre_confirmed block id of the read methods when the node DOES hold pre-confirmed
         data: sync.Synchronizer.PreConfirmedChain() = the head-aligned snapshot of
         sync/preconfirmed.ChainStorage, or an empty block on top of the head when the storage
         has nothing for head+1 (the documented fallback).

   As in RpcRead.tla (C08) two layers live here.
   (1) DECLARATIVE (operators D..): the node holds `chain` (a path = the variants chosen at heights 0..n,
       which determines content, ancestry and hence the hash), an L1 head and the pre-confirmed
       storage `pcs`.  The VIEW a reader may see is the run of stored pre-confirmed blocks that
       starts exactly one above the head; pre_confirmed denotes its tip.  getEvents answers the
       naive scan of (canonical blocks ∪ view blocks) in [lo, hi], cut into pages of chunk_size.
   (2) IMPLEMENTATION (operators I..): what the handlers compute, step by step as the code does it
       (raw from/to numbers with the pre_confirmed sentinel, canonicalEvents / preConfirmedEvents
       with the (block, processed events) token, SnapshotForBlock + fallback, pending.State lookups
       over the merged state diff).
   TLC checks (2) = (1); the replayer (harness/engines/rpc2) checks the real stack against both.

   What the code shows of a pre-confirmed block (learnt by replaying, and what the v0.9 / v0.10
   PRE_CONFIRMED_* schemas say): block_number, NO block_hash, NO parent_hash, NO status field (the
   receipts inside carry finality PRE_CONFIRMED), state update without block_hash / new_root
   (v0.9: old_root 0x0, v0.10: no old_root); v0.8's `pending` is always an empty block on the head
   (parent_hash = head, no number) and v0.8 never looks into the pre-confirmed storage.

   One deviation of the code from the C08 reading of l1_accepted ("min(L1 head, height)") is a
   switch (FALSE = the code as it is, TRUE = repaired):
     FixL1EventsClamp   getEvents takes the raw L1 head number for from_block / to_block =
                        l1_accepted (EventFilter.SetRangeEndBlockToL1Head) while every other method
                        clamps it to the chain height (Handler.l1AcceptedBlockNumber). *)
EXTENDS Integers, Sequences, FiniteSets, TLC

CONSTANTS MaxLen,        \* bound on the canonical chain (numbers 0..MaxLen-1)
          MaxReverts,
          MaxPc,         \* bound on the number of stored pre-confirmed blocks
          Txs(_, _),     \* Txs(n, v): transaction ids of the block at height n, variant v
          Ev(_),         \* Ev(t): the events of transaction t, a sequence of [a |-> address, k |-> <<keys>>]
          FilterMenu,    \* filters a getEvents may use: [addrs |-> set, keys |-> sequence of sets, huge |-> 0]
                         \* huge = 1: one position with MaxEventFilterKeys - 1 keys no event has (1024 in total: at the limit),
                         \* huge = 2: one key more (TOO_MANY_KEYS_IN_FILTER)
          ChunkMenu,     \* chunk sizes of complete paged queries
          FromKinds, ToKinds,   \* identifier kinds tried for from_block / to_block
          WithEvents,    \* complete paged queries (GetEventsAll)
          WithTokens,    \* single pages with an arbitrary (block, processed) token (GetEventsPage)
          WithReads,     \* the read methods with pre_confirmed / latest ids and the by-hash lookups
          WithStale,     \* allow Store / Revert while pre-confirmed blocks are stored (poller not yet ticked)
          L1Menu,        \* numbers SetL1Head may record ({} = the node never learns an L1 head)
          FixL1EventsClamp

Variants == {0, 1}
Contracts == {1, 2}
Slots == {1, 2}
Classes == {1, 2}
NoClass == 0
BogusClass == 9
BogusContract == 9
BogusTx == 999

Min(a, b) == IF a < b THEN a ELSE b
Max(a, b) == IF a > b THEN a ELSE b
Front(s) == SubSeq(s, 1, Len(s) - 1)
Last(s) == s[Len(s)]
IsPrefix(p, s) == Len(p) <= Len(s) /\ \A i \in 1..Len(p) : p[i] = s[i]
Prefix(s, n) == SubSeq(s, 1, n)
Range(s) == {s[i] : i \in 1..Len(s)}

MaxPath == MaxLen + MaxPc
Paths == UNION {[1..n -> Variants] : n \in 1..MaxPath}
CanonPaths == UNION {[1..n -> Variants] : n \in 1..MaxLen}
NoPath == <<>>
UnknownHash == <<2>>     \* a hash no block ever had
NoHashP == <<9>>         \* "the field is absent" (block_hash / parent_hash of a pre-confirmed block)

TxsOf(p) == Txs(Len(p) - 1, Last(p))
AllTx == UNION {Range(Txs(n, v)) : n \in 0..(MaxPath - 1), v \in Variants}

TxType(t) == CASE t % 10 = 1 -> "INVOKE" [] t % 10 \in {2, 7} -> "L1_HANDLER" [] t % 10 = 3 -> "INVOKE"
               [] t % 10 = 4 -> "DEPLOY_ACCOUNT" [] t % 10 = 5 -> "DECLARE" [] OTHER -> "DEPLOY"
Exec(t) == IF t % 10 = 3 THEN "REVERTED" ELSE "SUCCEEDED"

--------------------------------------------------------------------------
(* abstract state and state diffs: copied from RpcRead.tla *)
EmptyState == [class |-> [c \in Contracts |-> NoClass],
               stor |-> [c \in Contracts |-> [s \in Slots |-> 0]],
               nonce |-> [c \in Contracts |-> 0],
               declared |-> {}]
EmptyDiff == [declared0 |-> {}, declared1 |-> {}, deployed |-> {}, replaced |-> {}, storage |-> {}, nonces |-> {}]

DiffOn(st, n, v) ==
  LET decl0 == IF n = 0 THEN {1} ELSE {}
      decl1 == IF 2 \notin st.declared /\ ((n = 1 /\ v = 0) \/ n = 2) THEN {2} ELSE {}
      dep == (IF n = 0 THEN {<<1, 1>>} ELSE {})
             \cup (IF st.class[2] = NoClass /\ ((n = 1 /\ v = 1) \/ n = 2) THEN {<<2, 1>>} ELSE {})
      repl == IF n = 3 /\ v = 0 /\ st.class[1] = 1 /\ 2 \in (st.declared \cup decl1) THEN {<<1, 2>>} ELSE {}
      live(c) == st.class[c] # NoClass \/ \E d \in dep : d[1] = c
      stor == (IF live(1) THEN {<<1, 1, 1 + 2 * n + v>>} ELSE {})
              \cup (IF live(1) /\ n = 1 THEN {<<1, 2, 7 + v>>} ELSE {})
              \cup (IF live(1) /\ n = 2 /\ v = 0 /\ st.stor[1][2] # 0 THEN {<<1, 2, 0>>} ELSE {})
              \cup (IF live(2) /\ n >= 2 THEN {<<2, 1, 20 + 2 * n + v>>} ELSE {})
      nonces == (IF live(1) /\ (v = 0 \/ n % 2 = 1) THEN {<<1, n + 1>>} ELSE {})
                \cup (IF live(2) /\ n = 3 THEN {<<2, 1>>} ELSE {})
  IN [declared0 |-> decl0, declared1 |-> decl1, deployed |-> dep, replaced |-> repl,
      storage |-> stor, nonces |-> nonces]

(* Applying a block's diff to the state below it (canonical chain; the overlay of pre-confirmed
   blocks is defined separately below, DOver..).  A deployment makes a fresh contract. *)
ApplyDiff(st, d) ==
  LET dep(c) == \E x \in d.deployed : x[1] = c IN
  [class |-> [c \in Contracts |->
                IF \E x \in d.replaced : x[1] = c THEN (CHOOSE x \in d.replaced : x[1] = c)[2]
                ELSE IF dep(c) THEN (CHOOSE x \in d.deployed : x[1] = c)[2]
                ELSE st.class[c]],
   stor |-> [c \in Contracts |-> [s \in Slots |->
                IF \E x \in d.storage : x[1] = c /\ x[2] = s
                THEN (CHOOSE x \in d.storage : x[1] = c /\ x[2] = s)[3]
                ELSE IF dep(c) THEN 0 ELSE st.stor[c][s]]],
   nonce |-> [c \in Contracts |->
                IF \E x \in d.nonces : x[1] = c THEN (CHOOSE x \in d.nonces : x[1] = c)[2]
                ELSE IF dep(c) THEN 0 ELSE st.nonce[c]],
   declared |-> st.declared \cup d.declared0 \cup d.declared1]

RECURSIVE StateOf(_)
StateOf(p) == IF p = <<>> THEN EmptyState
              ELSE ApplyDiff(StateOf(Front(p)), DiffOn(StateOf(Front(p)), Len(p) - 1, Last(p)))
StateTab == [p \in Paths \cup {<<>>} |-> StateOf(p)]
DiffTab == [p \in Paths |-> DiffOn(StateTab[Front(p)], Len(p) - 1, Last(p))]

--------------------------------------------------------------------------
(* events *)
RECURSIVE FlatFrom(_, _)
FlatFrom(txs, i) ==
  IF i > Len(txs) THEN <<>>
  ELSE [j \in 1..Len(Ev(txs[i])) |-> [t |-> txs[i], ti |-> i - 1, ei |-> j - 1, e |-> Ev(txs[i])[j]]]
       \o FlatFrom(txs, i + 1)
Flat(txs) == FlatFrom(txs, 1)      \* the events of a block in order, with transaction and event index
(* FlatTab[p][k+1]: the events of the first k transactions of block p *)
FlatTab == [p \in Paths |-> [k1 \in 1..(Len(TxsOf(p)) + 1) |-> Flat(SubSeq(TxsOf(p), 1, k1 - 1))]]

(* EventMatcher.MatchesEventKeys + the address test (an event with fewer keys than the filter has
   positions never matches, even if the extra positions are empty) *)
MatchEvent(f, e) ==
  /\ f.addrs = {} \/ e.a \in f.addrs
  /\ Len(e.k) >= Len(f.keys)
  /\ \A p \in 1..Len(f.keys) : f.keys[p] = {} \/ e.k[p] \in f.keys[p]

(* the bloom test on a block (exact set of atoms: no hash collisions in the model) *)
Candidate(f, evs) ==
  /\ f.addrs = {} \/ \E i \in 1..Len(evs) : evs[i].e.a \in f.addrs
  /\ \A p \in 1..Len(f.keys) :
       f.keys[p] = {} \/ \E i \in 1..Len(evs) : Len(evs[i].e.k) >= p /\ evs[i].e.k[p] \in f.keys[p]

--------------------------------------------------------------------------
VARIABLES chain,      \* the path of the head block (<<>> = empty chain)
          l1,         \* recorded L1 head number, -1 = none
          pcs,        \* sync/preconfirmed.ChainStorage: sequence of slots [p |-> path, k |-> #txs received],
                      \* oldest first; the slot is the in-progress version of the block with path p
          reverts,
          act, res, want,     \* v0.9 / v0.10
          res8, want8         \* v0.8 (pending instead of pre_confirmed, no l1_accepted tag)

vars == <<chain, l1, pcs, reverts, act, res, want, res8, want8>>
view == <<chain, l1, pcs, reverts>>
dbvars == <<chain, l1, pcs, reverts>>

Nums == 0..(MaxPath + 1)
NoRes == [kind |-> "none"]
Err(e) == [kind |-> "err", e |-> e]
Height == Len(chain) - 1

SlotNum(s) == Len(s.p) - 1
SlotTxs(s) == SubSeq(TxsOf(s.p), 1, s.k)
SlotDiff(s) == IF s.k = 0 THEN EmptyDiff ELSE DiffTab[s.p]    \* the first transaction carries the block's diff
SlotEvents(s) == FlatTab[s.p][s.k + 1]
PcBase == SlotNum(pcs[1])
PcTip == SlotNum(pcs[Len(pcs)])

Init ==
  /\ chain = <<>> /\ l1 = -1 /\ pcs = <<>> /\ reverts = 0
  /\ act = [name |-> "Init"] /\ res = NoRes /\ want = NoRes /\ res8 = NoRes /\ want8 = NoRes

Quiet == res' = NoRes /\ want' = NoRes /\ res8' = NoRes /\ want8' = NoRes

--------------------------------------------------------------------------
(* mutators of the canonical chain *)
Store(v) ==
  /\ Len(chain) < MaxLen
  /\ WithStale \/ pcs = <<>>
  /\ chain' = Append(chain, v)
  /\ act' = [name |-> "Store", v |-> v, path |-> chain', txs |-> TxsOf(chain'), diff |-> DiffTab[chain'],
             evs |-> [i \in 1..Len(TxsOf(chain')) |-> Ev(TxsOf(chain')[i])]]
  /\ UNCHANGED <<l1, pcs, reverts>> /\ Quiet

Revert ==
  /\ chain # <<>> /\ reverts < MaxReverts
  /\ WithStale \/ pcs = <<>>
  /\ chain' = Front(chain)
  /\ reverts' = reverts + 1
  /\ act' = [name |-> "Revert"]
  /\ UNCHANGED <<l1, pcs>> /\ Quiet

SetL1Head(n) ==
  /\ n \in L1Menu /\ n # l1
  /\ l1' = n
  /\ act' = [name |-> "SetL1Head", n |-> n, path |-> IF n < Len(chain) THEN Prefix(chain, n + 1) ELSE UnknownHash]
  /\ UNCHANGED <<chain, pcs, reverts>> /\ Quiet

--------------------------------------------------------------------------
(* the writer of the pre-confirmed storage = the poller (sync/preconfirmed/poller.go), which first
   aligns the storage with the head (AdvanceTo(height+1)) and then applies updates with
   oldestPreConf = height+1.  Only the calls a well-behaved poller makes are modelled (C20 covers the
   storage against arbitrary updates). *)
Aligned == IF pcs = <<>> THEN TRUE ELSE PcBase = Height + 1

PcAdvance ==       \* ChainStorage.AdvanceTo(height + 1)
  /\ chain # <<>> /\ pcs # <<>> /\ PcBase # Height + 1
  /\ pcs' = IF Height + 1 >= PcBase /\ Height + 1 <= PcTip
            THEN SubSeq(pcs, Height + 1 - PcBase + 1, Len(pcs)) ELSE <<>>
  /\ act' = [name |-> "PcAdvance"]
  /\ UNCHANGED <<chain, l1, reverts>> /\ Quiet

SlotAct(name, s, i) ==
  [name |-> name, num |-> SlotNum(s), path |-> s.p, k |-> s.k, idx |-> i, txs |-> SlotTxs(s), diff |-> SlotDiff(s),
   evs |-> [j \in 1..s.k |-> Ev(TxsOf(s.p)[j])]]

(* ApplyUpdate(PreConfirmedBlock) at slot index i (1..Len+1) with round r and k transactions:
   bootstrap / extend / replace (which truncates the slots above); shouldPreserveSlot keeps the old
   slot when the round is the same and nothing was added *)
PcFull(i, r, k) ==
  /\ chain # <<>> /\ Aligned
  /\ i \in 1..(Len(pcs) + 1) /\ i <= MaxPc
  /\ LET below == IF i = 1 THEN chain ELSE pcs[i - 1].p
         s == [p |-> Append(below, r), k |-> k]
     IN /\ Len(s.p) <= MaxPath
        /\ k \in 0..Len(TxsOf(s.p))
        /\ ~(i <= Len(pcs) /\ pcs[i].p = s.p /\ k <= pcs[i].k)    \* preserved: no change (not generated)
        /\ i > 1 => pcs[i - 1].k = Len(TxsOf(pcs[i - 1].p))        \* the sequencer opens block n+1 when block n is complete
        /\ pcs' = Append(SubSeq(pcs, 1, i - 1), s)
        /\ act' = SlotAct("PcFull", s, i)
  /\ UNCHANGED <<chain, l1, reverts>> /\ Quiet

(* ApplyUpdate(PreConfirmedDeltaUpdate): transactions k+1..k2 appended to the tip, same round *)
PcDelta(k2) ==
  /\ chain # <<>> /\ Aligned /\ pcs # <<>>
  /\ LET s == pcs[Len(pcs)] IN
       /\ k2 > s.k /\ k2 <= Len(TxsOf(s.p))
       /\ pcs' = [pcs EXCEPT ![Len(pcs)] = [p |-> s.p, k |-> k2]]
       /\ act' = [name |-> "PcDelta", num |-> SlotNum(s), path |-> s.p, base |-> s.k, k |-> k2,
                  txs |-> SubSeq(TxsOf(s.p), s.k + 1, k2),
                  diff |-> IF s.k = 0 THEN DiffTab[s.p] ELSE EmptyDiff,
                  evs |-> [j \in 1..(k2 - s.k) |-> Ev(TxsOf(s.p)[s.k + j])]]
  /\ UNCHANGED <<chain, l1, reverts>> /\ Quiet

--------------------------------------------------------------------------
(* ---- what a reader sees of the pre-confirmed storage ---- *)
Fallback == [p |-> <<>>, k |-> 0]        \* sync.MakeEmptyPreConfirmedForParent: an empty block on the head
IsFallback(s) == s.p = <<>>
VTxs(s) == IF IsFallback(s) THEN <<>> ELSE SlotTxs(s)
VDiff(s) == IF IsFallback(s) THEN EmptyDiff ELSE SlotDiff(s)
VEvents(s) == IF IsFallback(s) THEN <<>> ELSE SlotEvents(s)

(* DECLARATIVE: the stored pre-confirmed blocks above the head, provided the run starts exactly at
   head+1; otherwise (nothing stored for head+1) the documented fallback.  Defined for a non-empty chain. *)
DView ==
  LET above == SelectSeq(pcs, LAMBDA s : SlotNum(s) > Height) IN
  IF above # <<>> /\ SlotNum(above[1]) = Height + 1 THEN above ELSE <<Fallback>>

(* IMPLEMENTATION: Synchronizer.PreConfirmedChain = ChainStorage.SnapshotForBlock(height+1)
   (contains(height+1) ? the newest tip-(height+1)+1 entries : empty) else the fallback *)
IView ==
  IF pcs # <<>> /\ Height + 1 >= PcBase /\ Height + 1 <= PcTip
  THEN LET want_ == PcTip - (Height + 1) + 1 IN SubSeq(pcs, Len(pcs) - want_ + 1, Len(pcs))
  ELSE <<Fallback>>

(* v0.8 never consults the storage: `pending` is always the empty block on the head *)
ViewOf(vc, impl) == IF vc = "v8" THEN <<Fallback>> ELSE IF impl THEN IView ELSE DView

--------------------------------------------------------------------------
(* block identifiers *)
NumId(n) == [k |-> "num", n |-> n, h |-> NoPath]
HashId(h) == [k |-> "hash", n |-> -1, h |-> h]
TagId(t) == [k |-> t, n |-> -1, h |-> NoPath]
NoId == TagId("none")

(* hashes worth asking for: every block of the chain, a block that is NOT in the chain although its
   parent is (the other variant of the head: what a revert leaves behind), a hash nobody has *)
Sibling == IF chain = <<>> THEN UnknownHash ELSE Append(Front(chain), 1 - Last(chain))
HashArgs == {Prefix(chain, n) : n \in 1..Len(chain)} \cup {Sibling, UnknownHash}
IdsOfKind(kd) ==
  CASE kd = "none" -> {NoId}
    [] kd = "num" -> {NumId(n) : n \in 0..(Height + Len(pcs) + 2)}   \* up to past every tip
    [] kd = "hash" -> {HashId(h) : h \in HashArgs}
    [] OTHER -> {TagId(kd)}
HashNum(h) == IF h \in Paths /\ IsPrefix(h, chain) THEN Len(h) - 1 ELSE -1
Status(n, l) == IF l # -1 /\ l >= n THEN "ACCEPTED_ON_L1" ELSE "ACCEPTED_ON_L2"

--------------------------------------------------------------------------
(* ======================= starknet_getEvents ======================= *)
NoTok == [b |-> -1, p |-> 0]
Sent == 1000                   \* blockchain.PreConfirmedFilterSentinel (math.MaxUint64)
MaxChunk == 10240              \* rpccore.MaxEventChunkSize
BigChunk == MaxChunk + 1

Item(b, h, x) == [b |-> b, h |-> h, t |-> x.t, ti |-> x.ti, ei |-> x.ei]

(* the filter the request really carries *)
Eff(f) == IF f.huge = 1 THEN [f EXCEPT !.keys = <<{99}>>] ELSE f
BadTok(tok) == tok.b = -7      \* a string that is not "<block>-<processed>"

(* ---- declarative ---- *)
(* the block with number b of (canonical chain ∪ view) *)
ExtEvents(vw, b) == IF b <= Height THEN FlatTab[Prefix(chain, b + 1)][Len(TxsOf(Prefix(chain, b + 1))) + 1]
                    ELSE VEvents(vw[b - Height])
ExtHash(b) == IF b <= Height THEN Prefix(chain, b + 1) ELSE NoHashP

RECURSIVE NaiveScan(_, _, _, _)
NaiveScan(f, vw, lo, hi) ==
  IF lo > hi THEN <<>>
  ELSE LET evs == ExtEvents(vw, lo)
           hit == SelectSeq(evs, LAMBDA x : MatchEvent(f, x.e)) IN
       [j \in 1..Len(hit) |-> Item(lo, ExtHash(lo), hit[j])] \o NaiveScan(f, vw, lo + 1, hi)

(* from_block: the first block of the range; -2 = BLOCK_NOT_FOUND.  A number is taken as it is
   (numbers above the head denote pre-confirmed blocks; above the tip: an empty range). *)
DFrom(id, vw) ==
  CASE id.k = "none" -> 0
    [] id.k = "num" -> id.n
    [] id.k = "hash" -> IF HashNum(id.h) = -1 THEN -2 ELSE HashNum(id.h)
    [] id.k = "latest" -> Height
    [] id.k = "l1_accepted" -> IF l1 = -1 THEN -2 ELSE Min(l1, Height)
    [] OTHER -> Height + Len(vw)          \* pre_confirmed: the tip of the view
(* to_block: the last block of the range.  Only the pre_confirmed tag reaches above the head: a
   NUMBER above the head means "up to the head" (the code clamps it; numbers are not identifiers of
   pre-confirmed blocks on this side). *)
DTo(id, vw) ==
  CASE id.k = "none" -> Height
    [] id.k = "num" -> Min(id.n, Height)
    [] id.k = "hash" -> IF HashNum(id.h) = -1 THEN -2 ELSE HashNum(id.h)
    [] id.k = "latest" -> Height
    [] id.k = "l1_accepted" -> IF l1 = -1 THEN -2 ELSE Min(l1, Height)
    [] OTHER -> Height + Len(vw)

RECURSIVE Chop(_, _)
Chop(s, c) == IF Len(s) <= c THEN << [evs |-> s, more |-> FALSE] >>
              ELSE << [evs |-> SubSeq(s, 1, c), more |-> TRUE] >> \o Chop(SubSeq(s, c + 1, Len(s)), c)

(* a.f filter, a.from / a.to ids, a.chunk; vc = "v8" | "v9" *)
DEvents(a, vc) ==
  LET vw == ViewOf(vc, FALSE)
      lo == DFrom(a.from, vw)
      hi == DTo(a.to, vw) IN
  IF a.chunk = 0 THEN Err("InvalidParams")
  ELSE IF a.chunk > MaxChunk THEN Err("PageSizeTooBig")
  ELSE IF a.f.huge = 2 THEN Err("TooManyKeys")
  ELSE IF "tok" \in DOMAIN a /\ BadTok(a.tok) THEN Err("InvalidToken")
  ELSE IF lo = -2 \/ hi = -2 THEN Err("BlockNotFound")
  ELSE [kind |-> "pages", pages |-> Chop(NaiveScan(Eff(a.f), vw, lo, Min(hi, Height + Len(vw))), a.chunk)]

(* ---- implementation ---- *)
(* setEventFilterRange: raw numbers, -2 = error *)
IL1 == IF FixL1EventsClamp THEN Min(l1, Height) ELSE l1
IRawFrom(id, vc) ==
  CASE id.k = "none" -> 0
    [] id.k = "num" -> id.n
    [] id.k = "hash" -> IF HashNum(id.h) = -1 THEN -2 ELSE HashNum(id.h)
    [] id.k = "latest" -> Height
    [] id.k = "l1_accepted" -> IF l1 = -1 THEN -2 ELSE IL1
    [] OTHER -> IF vc = "v8" THEN Height + 1 ELSE Sent
IRawTo(id, vc) ==
  CASE id.k = "none" -> Height
    [] id.k = "num" -> Min(id.n, Height)
    [] id.k = "hash" -> IF HashNum(id.h) = -1 THEN -2 ELSE HashNum(id.h)
    [] id.k = "latest" -> Height
    [] id.k = "l1_accepted" -> IF l1 = -1 THEN -2 ELSE IL1
    [] OTHER -> IF vc = "v8" THEN Height + 1 ELSE Sent

(* EventMatcher.AppendBlockEvents*: i events of the block processed so far *)
RECURSIVE ProcBlock(_, _, _, _, _, _, _, _)
ProcBlock(f, b, h, evs, i, skipped, acc, chunk) ==
  IF i = Len(evs) THEN [acc |-> acc, full |-> FALSE, processed |-> i]
  ELSE IF i < skipped THEN ProcBlock(f, b, h, evs, i + 1, skipped, acc, chunk)
  ELSE IF ~MatchEvent(f, evs[i + 1].e) THEN ProcBlock(f, b, h, evs, i + 1, skipped, acc, chunk)
  ELSE IF Len(acc) < chunk THEN ProcBlock(f, b, h, evs, i + 1, skipped, Append(acc, Item(b, h, evs[i + 1])), chunk)
  ELSE [acc |-> acc, full |-> TRUE, processed |-> i]

CanonEvents(b) == FlatTab[Prefix(chain, b + 1)][Len(TxsOf(Prefix(chain, b + 1))) + 1]

(* EventFilter.canonicalEvents over the candidate blocks of [b, hi], hi <= height; the skip count
   of the token is consumed by the first CANDIDATE block *)
RECURSIVE ICanon(_, _, _, _, _, _)
ICanon(f, b, hi, skipped, acc, chunk) ==
  IF b > hi THEN [acc |-> acc, tok |-> NoTok]
  ELSE IF ~Candidate(f, CanonEvents(b)) THEN ICanon(f, b + 1, hi, skipped, acc, chunk)
  ELSE LET r == ProcBlock(f, b, Prefix(chain, b + 1), CanonEvents(b), 0, skipped, acc, chunk) IN
       IF r.full THEN [acc |-> r.acc, tok |-> [b |-> b, p |-> r.processed]]
       ELSE ICanon(f, b + 1, hi, 0, r.acc, chunk)

(* EventFilter.preConfirmedEvents over the view entries i.. (numbers height+i) *)
RECURSIVE IPcLoop(_, _, _, _, _, _, _, _)
IPcLoop(f, vw, i, fb, to, skipped, acc, chunk) ==
  IF i > Len(vw) THEN [acc |-> acc, tok |-> NoTok]
  ELSE LET n == Height + i IN
    IF n < fb THEN IPcLoop(f, vw, i + 1, fb, to, skipped, acc, chunk)
    ELSE IF n > to THEN [acc |-> acc, tok |-> NoTok]
    ELSE IF ~Candidate(f, VEvents(vw[i])) THEN IPcLoop(f, vw, i + 1, fb, to, 0, acc, chunk)
    ELSE LET r == ProcBlock(f, n, NoHashP, VEvents(vw[i]), 0, skipped, acc, chunk) IN
         IF r.full THEN [acc |-> r.acc, tok |-> [b |-> n, p |-> r.processed]]
         ELSE IPcLoop(f, vw, i + 1, fb, to, 0, r.acc, chunk)

(* EventFilter.Events: one page *)
IPage(f, from, to, chunk, tok, vc) ==
  LET vw == IF to <= Height \/ vc = "v8" THEN <<>> ELSE IView     \* headAndPreConfirmed
      start == IF tok = NoTok THEN from ELSE tok.b
      skipped == IF tok = NoTok THEN 0 ELSE tok.p IN
  IF to <= Height THEN ICanon(f, start, to, skipped, <<>>, chunk)
  ELSE LET c == IF start <= Height THEN ICanon(f, start, Height, skipped, <<>>, chunk)
                ELSE [acc |-> <<>>, tok |-> NoTok] IN
       IF c.tok # NoTok THEN c
       ELSE IF vw = <<>> THEN [acc |-> c.acc, tok |-> NoTok]
       ELSE IPcLoop(f, vw, 1, IF start = Sent THEN Height + Len(vw) ELSE start, to,
                    IF start <= Height THEN 0 ELSE skipped, c.acc, chunk)

(* a complete paged query: follow the tokens; `fuel` bounds a token that does not advance *)
RECURSIVE IFollow(_, _, _, _, _, _, _)
IFollow(f, from, to, chunk, tok, vc, fuel) ==
  LET pg == IPage(f, from, to, chunk, tok, vc) IN
  IF pg.tok = NoTok THEN << [evs |-> pg.acc, tok |-> NoTok] >>
  ELSE IF fuel = 0 THEN << [evs |-> pg.acc, tok |-> pg.tok], [evs |-> <<>>, tok |-> [b |-> -9, p |-> 0]] >>
  ELSE << [evs |-> pg.acc, tok |-> pg.tok] >> \o IFollow(f, from, to, chunk, pg.tok, vc, fuel - 1)

IEventsHead(a, vc) ==      \* the checks of Handler.Events before the filter runs, in the code's order
  LET from == IRawFrom(a.from, vc)
      to == IRawTo(a.to, vc) IN
  IF a.chunk = 0 THEN Err("InvalidParams")          \* validate:"min=1"
  ELSE IF a.chunk > MaxChunk THEN Err("PageSizeTooBig")
  ELSE IF a.f.huge = 2 THEN Err("TooManyKeys")
  ELSE IF "tok" \in DOMAIN a /\ BadTok(a.tok) THEN Err("InvalidToken")    \* ContinuationToken.FromString fails
  ELSE IF from = -2 \/ to = -2 THEN Err("BlockNotFound")
  ELSE NoRes

IEvents(a, vc) ==
  IF IEventsHead(a, vc) # NoRes THEN IEventsHead(a, vc)
  ELSE [kind |-> "pages",
        pages |-> IFollow(Eff(a.f), IRawFrom(a.from, vc), IRawTo(a.to, vc), a.chunk, NoTok, vc, 40)]

IEventsPage(a, vc) ==      \* one page with the caller's token
  IF IEventsHead(a, vc) # NoRes THEN IEventsHead(a, vc)
  ELSE LET pg == IPage(Eff(a.f), IRawFrom(a.from, vc), IRawTo(a.to, vc), a.chunk, a.tok, vc) IN
       [kind |-> "page", evs |-> pg.acc, tok |-> pg.tok]

(* pages of the two layers agree: same events page by page, a token exactly when more follow *)
PagesAgree(i, d) ==
  \/ i.kind = "err" /\ i = d
  \/ /\ i.kind = "pages" /\ d.kind = "pages" /\ Len(i.pages) = Len(d.pages)
     /\ \A j \in 1..Len(i.pages) : /\ i.pages[j].evs = d.pages[j].evs
                                   /\ (i.pages[j].tok # NoTok) = d.pages[j].more

--------------------------------------------------------------------------
(* ======================= read methods ======================= *)
(* Resolve(id) for the block methods: a canonical number, or "the tip of the view" *)
DResolve(id) ==
  CASE id.k = "num" -> IF id.n <= Height THEN id.n ELSE -1          \* numbers are canonical only
    [] id.k = "hash" -> HashNum(id.h)
    [] id.k = "latest" -> Height
    [] id.k = "l1_accepted" -> IF l1 = -1 \/ chain = <<>> THEN -1 ELSE Min(l1, Height)
    [] OTHER -> -1

BlockView(p, st) ==
  [kind |-> "block", n |-> Len(p) - 1, hash |-> p, parent |-> Front(p), status |-> st,
   txs |-> TxsOf(p), execs |-> [i \in 1..Len(TxsOf(p)) |-> Exec(TxsOf(p)[i])]]
(* the pre-confirmed tip as v0.9 / v0.10 show it: number, no hash, no parent hash, and - as the
   PRE_CONFIRMED_BLOCK_* schemas have it - no status field (the receipts inside carry finality
   PRE_CONFIRMED, which the replayer checks) *)
PcBlockView(n, s) ==
  [kind |-> "block", n |-> n, hash |-> NoHashP, parent |-> NoHashP, status |-> "ABSENT",
   txs |-> VTxs(s), execs |-> [i \in 1..Len(VTxs(s)) |-> Exec(VTxs(s)[i])]]
(* v0.8 pending: an empty block on the head: no number, no hash, parent = head *)
PendingBlockView == [kind |-> "block", n |-> -1, hash |-> NoHashP, parent |-> chain, status |-> "ABSENT",
                     txs |-> <<>>, execs |-> <<>>]

TxView(t) == [kind |-> "tx", t |-> t, type |-> TxType(t)]
ReceiptView(t, n, p, fin) == [kind |-> "receipt", t |-> t, type |-> TxType(t), n |-> n, hash |-> p,
                              fin |-> fin, exec |-> Exec(t)]

PosIn(txs, t) == IF \E i \in 1..Len(txs) : txs[i] = t THEN CHOOSE i \in 1..Len(txs) : txs[i] = t ELSE 0

(* where transaction t is: [w |-> "canon", n, i] | [w |-> "pc", n, i] | [w |-> "no"] *)
DTxPos(t, vw) ==
  IF \E j \in 1..Len(vw) : PosIn(VTxs(vw[j]), t) # 0
  THEN LET j == CHOOSE j \in 1..Len(vw) : PosIn(VTxs(vw[j]), t) # 0 IN
       [w |-> "pc", n |-> Height + j, i |-> PosIn(VTxs(vw[j]), t) - 1]
  ELSE IF \E n \in 0..Height : PosIn(TxsOf(Prefix(chain, n + 1)), t) # 0
  THEN LET n == CHOOSE n \in 0..Height : PosIn(TxsOf(Prefix(chain, n + 1)), t) # 0 IN
       [w |-> "canon", n |-> n, i |-> PosIn(TxsOf(Prefix(chain, n + 1)), t) - 1]
  ELSE [w |-> "no", n |-> -1, i |-> -1]

(* State reads through the view ("a true overlay", C20): the NEWEST view block that says something
   about the item wins, a deployment makes a fresh contract (nonce 0, storage 0), what no view block
   mentions is read from the canonical head state.  A value written by a view block is visible even
   if no block of (base + view) deploys the contract: that can only happen while the storage is
   stale (built on a block the head has since replaced), and the overlay has no opinion on it. *)
Has1(S, c) == \E x \in S : x[1] = c
Get1(S, c) == (CHOOSE x \in S : x[1] = c)[2]
RECURSIVE DOverClass(_, _, _)
DOverClass(vw, j, c) ==       \* class hash of c, NoClass if no contract
  IF j = 0 THEN (IF c \in Contracts THEN StateTab[chain].class[c] ELSE NoClass)
  ELSE LET d == VDiff(vw[j]) IN
       IF Has1(d.replaced, c) THEN Get1(d.replaced, c)
       ELSE IF Has1(d.deployed, c) THEN Get1(d.deployed, c)
       ELSE DOverClass(vw, j - 1, c)
RECURSIVE DOverNonce(_, _, _)
DOverNonce(vw, j, c) ==       \* -1 = contract not found
  IF j = 0 THEN (IF c \in Contracts /\ StateTab[chain].class[c] # NoClass THEN StateTab[chain].nonce[c] ELSE -1)
  ELSE LET d == VDiff(vw[j]) IN
       IF Has1(d.nonces, c) THEN Get1(d.nonces, c)
       ELSE IF Has1(d.deployed, c) THEN 0
       ELSE DOverNonce(vw, j - 1, c)
RECURSIVE DOverStor(_, _, _, _)
DOverStor(vw, j, c, sl) ==
  IF j = 0 THEN (IF c \in Contracts /\ StateTab[chain].class[c] # NoClass THEN StateTab[chain].stor[c][sl] ELSE -1)
  ELSE LET d == VDiff(vw[j]) IN
       IF \E x \in d.storage : x[1] = c /\ x[2] = sl THEN (CHOOSE x \in d.storage : x[1] = c /\ x[2] = sl)[3]
       ELSE IF Has1(d.deployed, c) THEN 0
       ELSE DOverStor(vw, j - 1, c, sl)
DOverDeclared(vw) == StateTab[chain].declared
                     \cup UNION {VDiff(vw[j]).declared0 \cup VDiff(vw[j]).declared1 : j \in 1..Len(vw)}
DOverAnswer(name, vw, c, sl) ==
  CASE name = "getClass" -> IF c \in DOverDeclared(vw) THEN [kind |-> "class", c |-> c] ELSE Err("ClassHashNotFound")
    [] name = "getClassHashAt" ->
         IF DOverClass(vw, Len(vw), c) = NoClass THEN Err("ContractNotFound")
         ELSE [kind |-> "classhash", c |-> DOverClass(vw, Len(vw), c)]
    [] name = "getClassAt" ->
         IF DOverClass(vw, Len(vw), c) = NoClass \/ DOverClass(vw, Len(vw), c) \notin DOverDeclared(vw)
         THEN Err("ContractNotFound") ELSE [kind |-> "class", c |-> DOverClass(vw, Len(vw), c)]
    [] name = "getNonce" ->
         IF DOverNonce(vw, Len(vw), c) = -1 THEN Err("ContractNotFound") ELSE [kind |-> "felt", v |-> DOverNonce(vw, Len(vw), c)]
    [] OTHER ->
         IF DOverStor(vw, Len(vw), c, sl) = -1 THEN Err("ContractNotFound") ELSE [kind |-> "felt", v |-> DOverStor(vw, Len(vw), c, sl)]

StateAnswer(name, st, c, s) ==
  CASE name = "getClass" -> IF c \in st.declared THEN [kind |-> "class", c |-> c] ELSE Err("ClassHashNotFound")
    [] OTHER ->
         IF c \notin Contracts \/ st.class[c] = NoClass THEN Err("ContractNotFound")
         ELSE CASE name = "getStorageAt" -> [kind |-> "felt", v |-> st.stor[c][s]]
                [] name = "getNonce" -> [kind |-> "felt", v |-> st.nonce[c]]
                [] name = "getClassHashAt" -> [kind |-> "classhash", c |-> st.class[c]]
                [] OTHER -> IF st.class[c] \in st.declared THEN [kind |-> "class", c |-> st.class[c]]
                            ELSE Err("ContractNotFound")

BlockMethods == {"getBlockWithTxHashes", "getBlockWithTxs", "getBlockWithReceipts"}
StateMethods == {"getStorageAt", "getNonce", "getClassHashAt", "getClassAt", "getClass"}

(* what the property demands; vw = the view of this version class *)
DWantV(a, vw, vc) ==
  LET pcid == "id" \in DOMAIN a /\ a.id.k = "pre_confirmed"
      tip == vw[Len(vw)]
      tipn == Height + Len(vw) IN
  CASE a.name \in BlockMethods ->
         IF chain = <<>> THEN Err("BlockNotFound")
         ELSE IF pcid THEN (IF vc = "v8" THEN PendingBlockView ELSE PcBlockView(tipn, tip))
         ELSE LET n == DResolve(a.id) IN
              IF n = -1 THEN Err("BlockNotFound") ELSE BlockView(Prefix(chain, n + 1), Status(n, l1))
    [] a.name = "getBlockTransactionCount" ->
         IF chain = <<>> THEN Err("BlockNotFound")
         ELSE IF pcid THEN [kind |-> "num", n |-> Len(VTxs(tip))]
         ELSE LET n == DResolve(a.id) IN
              IF n = -1 THEN Err("BlockNotFound") ELSE [kind |-> "num", n |-> Len(TxsOf(Prefix(chain, n + 1)))]
    [] a.name = "getTransactionByBlockIdAndIndex" ->
         IF chain = <<>> THEN Err("BlockNotFound")
         ELSE LET txs == IF pcid THEN VTxs(tip)
                         ELSE IF DResolve(a.id) = -1 THEN <<>> ELSE TxsOf(Prefix(chain, DResolve(a.id) + 1)) IN
              IF ~pcid /\ DResolve(a.id) = -1 THEN Err("BlockNotFound")
              ELSE IF a.i >= Len(txs) THEN Err("InvalidTxnIndex") ELSE TxView(txs[a.i + 1])
    [] a.name = "getStateUpdate" ->
         IF chain = <<>> THEN Err("BlockNotFound")
         ELSE IF pcid THEN [kind |-> "update", hash |-> NoHashP, old |-> IF vc = "v8" THEN chain ELSE NoHashP,
                            new |-> NoHashP, diff |-> VDiff(tip)]
         ELSE LET n == DResolve(a.id) IN
              IF n = -1 THEN Err("BlockNotFound")
              ELSE [kind |-> "update", hash |-> Prefix(chain, n + 1), old |-> Prefix(chain, n),
                    new |-> Prefix(chain, n + 1), diff |-> DiffTab[Prefix(chain, n + 1)]]
    [] a.name \in StateMethods ->
         IF chain = <<>> THEN Err("BlockNotFound")
         ELSE IF pcid THEN (IF vc = "v8" THEN StateAnswer(a.name, StateTab[chain], a.c, a.s)
                            ELSE DOverAnswer(a.name, vw, a.c, a.s))
         ELSE LET n == DResolve(a.id) IN
              IF n = -1 THEN Err("BlockNotFound") ELSE StateAnswer(a.name, StateTab[Prefix(chain, n + 1)], a.c, a.s)
    [] a.name = "getTransactionByHash" ->
         IF DTxPos(a.t, vw).w = "no" THEN Err("TxnHashNotFound") ELSE TxView(a.t)
    [] a.name = "getTransactionReceipt" ->
         LET pos == DTxPos(a.t, vw) IN
         CASE pos.w = "no" -> Err("TxnHashNotFound")
           [] pos.w = "pc" -> ReceiptView(a.t, pos.n, NoHashP, "PRE_CONFIRMED")
           [] OTHER -> ReceiptView(a.t, pos.n, Prefix(chain, pos.n + 1), Status(pos.n, l1))
    [] a.name = "getTransactionStatus" ->
         LET pos == DTxPos(a.t, vw) IN
         CASE pos.w = "no" -> Err("TxnHashNotFound")
           [] pos.w = "pc" -> [kind |-> "status", fin |-> "PRE_CONFIRMED", exec |-> Exec(a.t)]
           [] OTHER -> [kind |-> "status", fin |-> Status(pos.n, l1), exec |-> Exec(a.t)]

(* v0.8 looks transactions up in the canonical chain only (its pending block is always empty) *)
DWant(a, vc) ==
  IF a.name = "getEvents" THEN DEvents(a, vc)
  ELSE IF chain = <<>> THEN DWantV(a, <<Fallback>>, vc)
  ELSE DWantV(a, ViewOf(vc, FALSE), vc)

(* ---- implementation of the read methods ---- *)
(* the merged state diff of the view up to its tip (core.StateDiff.Merge, oldest first), as maps *)
RECURSIVE Merged(_, _)
Merged(vw, j) ==
  IF j = 0 THEN EmptyDiff
  ELSE LET m == Merged(vw, j - 1)
           d == VDiff(vw[j])
           over(old, new, arity) == {x \in old : ~\E y \in new : \A q \in 1..arity : y[q] = x[q]} \cup new IN
       [declared0 |-> m.declared0 \cup d.declared0, declared1 |-> m.declared1 \cup d.declared1,
        deployed |-> over(m.deployed, d.deployed, 1), replaced |-> over(m.replaced, d.replaced, 1),
        storage |-> over(m.storage, d.storage, 2), nonces |-> over(m.nonces, d.nonces, 1)]

(* core/pending.State over base = StateAtBlockNumber(height) *)
IPendingAnswer(name, md, base, c, s) ==
  LET dep == \E x \in md.deployed : x[1] = c
      cls == IF \E x \in md.replaced : x[1] = c THEN (CHOOSE x \in md.replaced : x[1] = c)[2]
             ELSE IF dep THEN (CHOOSE x \in md.deployed : x[1] = c)[2]
             ELSE IF c \in Contracts THEN base.class[c] ELSE NoClass
      known(k) == k \in base.declared \cup md.declared0 \cup md.declared1   \* newClasses of the entries + base
  IN
  CASE name = "getClass" -> IF known(c) THEN [kind |-> "class", c |-> c] ELSE Err("ClassHashNotFound")
    [] name = "getClassHashAt" -> IF cls = NoClass THEN Err("ContractNotFound") ELSE [kind |-> "classhash", c |-> cls]
    [] name = "getClassAt" -> IF cls = NoClass \/ ~known(cls) THEN Err("ContractNotFound") ELSE [kind |-> "class", c |-> cls]
    [] name = "getNonce" ->
         IF \E x \in md.nonces : x[1] = c THEN [kind |-> "felt", v |-> (CHOOSE x \in md.nonces : x[1] = c)[2]]
         ELSE IF dep THEN [kind |-> "felt", v |-> 0]
         ELSE IF c \notin Contracts \/ base.class[c] = NoClass THEN Err("ContractNotFound")
         ELSE [kind |-> "felt", v |-> base.nonce[c]]
    [] OTHER ->
         IF \E x \in md.storage : x[1] = c /\ x[2] = s
         THEN [kind |-> "felt", v |-> (CHOOSE x \in md.storage : x[1] = c /\ x[2] = s)[3]]
         ELSE IF dep THEN [kind |-> "felt", v |-> 0]
         ELSE IF c \notin Contracts \/ base.class[c] = NoClass THEN Err("ContractNotFound")
         ELSE [kind |-> "felt", v |-> base.stor[c][s]]

(* ChainReader.TransactionByHash / ReceiptByHash: newest entry first *)
RECURSIVE IPcFind(_, _, _)
IPcFind(vw, j, t) ==
  IF j = 0 THEN [w |-> "no", n |-> -1, i |-> -1]
  ELSE IF PosIn(VTxs(vw[j]), t) # 0 THEN [w |-> "pc", n |-> Height + j, i |-> PosIn(VTxs(vw[j]), t) - 1]
  ELSE IPcFind(vw, j - 1, t)
ICanonFind(t) ==
  IF \E n \in 0..Height : PosIn(TxsOf(Prefix(chain, n + 1)), t) # 0
  THEN LET n == CHOOSE n \in 0..Height : PosIn(TxsOf(Prefix(chain, n + 1)), t) # 0 IN
       [w |-> "canon", n |-> n, i |-> PosIn(TxsOf(Prefix(chain, n + 1)), t) - 1]
  ELSE [w |-> "no", n |-> -1, i |-> -1]
ITxPos(t, vc) ==
  IF vc = "v8" \/ chain = <<>> THEN ICanonFind(t)
  ELSE IF IPcFind(IView, Len(IView), t).w = "pc" THEN IPcFind(IView, Len(IView), t) ELSE ICanonFind(t)

IResV(a, vc) ==
  LET pcid == "id" \in DOMAIN a /\ a.id.k = "pre_confirmed"
      vw == IF vc = "v8" THEN <<Fallback>> ELSE IView
      tip == vw[Len(vw)]
      tipn == Height + Len(vw) IN
  IF pcid /\ a.name \notin {"getTransactionByHash", "getTransactionReceipt", "getTransactionStatus"}
  THEN IF chain = <<>> THEN Err("BlockNotFound")    \* Height() fails with ErrKeyNotFound
       ELSE CASE a.name \in BlockMethods -> IF vc = "v8" THEN PendingBlockView ELSE PcBlockView(tipn, tip)
              [] a.name = "getBlockTransactionCount" -> [kind |-> "num", n |-> Len(VTxs(tip))]
              [] a.name = "getTransactionByBlockIdAndIndex" ->
                   IF a.i >= Len(VTxs(tip)) THEN Err("InvalidTxnIndex") ELSE TxView(VTxs(tip)[a.i + 1])
              [] a.name = "getStateUpdate" ->
                   [kind |-> "update", hash |-> NoHashP, old |-> IF vc = "v8" THEN chain ELSE NoHashP,
                    new |-> NoHashP, diff |-> VDiff(tip)]
              [] OTHER -> IF vc = "v8" THEN StateAnswer(a.name, StateTab[chain], a.c, a.s)   \* HeadState
                          ELSE IPendingAnswer(a.name, Merged(vw, Len(vw)), StateTab[chain], a.c, a.s)
  ELSE CASE a.name = "getTransactionByHash" ->
              IF ITxPos(a.t, vc).w = "no" THEN Err("TxnHashNotFound") ELSE TxView(a.t)
         [] a.name = "getTransactionReceipt" ->
              LET pos == ITxPos(a.t, vc) IN
              CASE pos.w = "no" -> Err("TxnHashNotFound")
                [] pos.w = "pc" -> ReceiptView(a.t, pos.n, NoHashP, "PRE_CONFIRMED")
                [] OTHER -> ReceiptView(a.t, pos.n, Prefix(chain, pos.n + 1), Status(pos.n, l1))
         [] a.name = "getTransactionStatus" ->
              LET pos == ITxPos(a.t, vc) IN
              CASE pos.w = "no" -> Err("TxnHashNotFound")
                [] pos.w = "pc" -> [kind |-> "status", fin |-> "PRE_CONFIRMED", exec |-> Exec(a.t)]
                [] OTHER -> [kind |-> "status", fin |-> Status(pos.n, l1), exec |-> Exec(a.t)]
         [] OTHER -> DWantV(a, <<Fallback>>, vc)    \* canonical ids: C08's territory, not re-modelled here

IRes(a, vc) ==
  IF a.name = "getEvents" THEN (IF "tok" \in DOMAIN a THEN IEventsPage(a, vc) ELSE IEvents(a, vc))
  ELSE IResV(a, vc)

--------------------------------------------------------------------------
(* one action per request; nothing the node holds changes *)
Read(a) ==
  /\ act' = a
  /\ res' = IRes(a, "v9") /\ res8' = IRes(a, "v8")
  /\ want' = (IF a.name = "getEvents" /\ "tok" \in DOMAIN a /\ ~BadTok(a.tok) THEN NoRes ELSE DWant(a, "v9"))
  /\ want8' = (IF a.name = "getEvents" /\ "tok" \in DOMAIN a /\ ~BadTok(a.tok) THEN NoRes ELSE DWant(a, "v8"))
  /\ UNCHANGED dbvars

EvArg(f, from, to, chunk) == [name |-> "getEvents", f |-> f, from |-> from, to |-> to, chunk |-> chunk]
GetEventsAll(f, from, to, chunk) == chain # <<>> /\ Read(EvArg(f, from, to, chunk))
GetEventsPage(f, from, to, chunk, tok) ==
  chain # <<>> /\ Read([name |-> "getEvents", f |-> f, from |-> from, to |-> to, chunk |-> chunk, tok |-> tok])

IdRead(name, id) == Read([name |-> name, id |-> id])
TxRead(name, t) == Read([name |-> name, t |-> t])
StateRead(name, id, c, s) == Read([name |-> name, id |-> id, c |-> c, s |-> s])

ReadIds == {TagId("pre_confirmed"), TagId("latest")} \cup {NumId(n) : n \in {Height, Height + 1} \cap Nat}
IdxArgs == 0..3
CArgs == Contracts \cup {BogusContract}
KArgs == Classes \cup {BogusClass}
TokArgs == {[b |-> b, p |-> p] : b \in 0..MaxPath, p \in 0..3}

EventReads ==
  \E f \in FilterMenu, c \in ChunkMenu, fk \in FromKinds, tk \in ToKinds :
    \E from \in IdsOfKind(fk), to \in IdsOfKind(tk) : GetEventsAll(f, from, to, c)
ErrorReads ==     \* each limit from both sides, and strings that are not tokens
  \/ \E f \in FilterMenu, c \in {0, MaxChunk, BigChunk} : GetEventsAll(f, NoId, NoId, c)
  \/ \E f \in FilterMenu, hg \in {1, 2} : GetEventsAll([f EXCEPT !.huge = hg], NoId, NoId, 2)
  \/ \E f \in FilterMenu, g \in 0..3 : GetEventsPage(f, NoId, NoId, 2, [b |-> -7, p |-> g])
TokenReads ==
  \E f \in FilterMenu, c \in ChunkMenu, tok \in TokArgs, tk \in {"none", "pre_confirmed"} :
    GetEventsPage(f, NoId, TagId(tk), c, tok)
MethodReads ==
  \/ \E id \in ReadIds :
       \/ \E m \in BlockMethods \cup {"getBlockTransactionCount", "getStateUpdate"} : IdRead(m, id)
       \/ \E cc \in CArgs, s \in Slots : StateRead("getStorageAt", id, cc, s)
       \/ \E cc \in CArgs, m \in {"getNonce", "getClassHashAt", "getClassAt"} : StateRead(m, id, cc, 1)
       \/ \E k \in KArgs : StateRead("getClass", id, k, 1)
  \/ \E id \in {TagId("pre_confirmed"), TagId("latest")}, i \in IdxArgs :
       Read([name |-> "getTransactionByBlockIdAndIndex", id |-> id, i |-> i])
  \/ \E t \in AllTx \cup {BogusTx}, m \in {"getTransactionByHash", "getTransactionReceipt", "getTransactionStatus"} :
       TxRead(m, t)

Next ==
  \/ \E v \in Variants : Store(v)
  \/ Revert
  \/ \E n \in L1Menu : SetL1Head(n)
  \/ PcAdvance
  \/ \E i \in 1..MaxPc, r \in Variants, k \in 0..4 : PcFull(i, r, k)
  \/ \E k \in 1..4 : PcDelta(k)
  \/ WithEvents /\ (EventReads \/ ErrorReads)
  \/ WithTokens /\ TokenReads
  \/ WithReads /\ MethodReads

Spec == Init /\ [][Next]_vars

--------------------------------------------------------------------------
(* ---- properties ---- *)
TypeOK ==
  /\ chain \in CanonPaths \cup {<<>>}
  /\ l1 \in -1..MaxLen
  /\ Len(pcs) <= MaxPc
  /\ \A i \in 1..Len(pcs) : pcs[i].p \in Paths /\ pcs[i].k \in 0..Len(TxsOf(pcs[i].p))
  /\ reverts \in 0..MaxReverts

(* C20 for the stored chain: contiguous, each slot built on the one below *)
PcContiguous ==
  \A i \in 2..Len(pcs) : Front(pcs[i].p) = pcs[i - 1].p

(* the reader's view: gap-free, starts exactly one above the head, tip = the storage's tip or the
   fallback; both layers agree *)
ViewResolution ==
  chain # <<>> =>
    /\ IView = DView
    /\ \A i \in 1..Len(IView) : IsFallback(IView[i]) \/ SlotNum(IView[i]) = Height + i
    /\ (IsFallback(IView[1]) <=> ~(\E s \in Range(pcs) : SlotNum(s) = Height + 1))
    /\ ~IsFallback(IView[1]) => IView[Len(IView)] = pcs[Len(pcs)]

IsRead(a) == a.name \notin {"Init", "Store", "Revert", "SetL1Head", "PcAdvance", "PcFull", "PcDelta"}
IsEventsAll(a) == a.name = "getEvents" /\ "tok" \notin DOMAIN a
IsEventsPage(a) == a.name = "getEvents" /\ "tok" \in DOMAIN a /\ ~BadTok(a.tok)
IsBadToken(a) == a.name = "getEvents" /\ "tok" \in DOMAIN a /\ BadTok(a.tok)

(* the known deviation: l1_accepted above the height in a getEvents range *)
KnownDeviation(a) ==
  /\ ~FixL1EventsClamp /\ a.name = "getEvents" /\ l1 > Height
  /\ a.from.k = "l1_accepted" \/ a.to.k = "l1_accepted"

(* THE property for getEvents: the pages, concatenated, are the naive scan of the canonical blocks
   and the requested pre-confirmed blocks in chain order, for every chunk size; an error exactly
   when specified *)
EventsAnswerFromChain ==
  [][IsEventsAll(act') /\ ~KnownDeviation(act') => PagesAgree(res', want') /\ PagesAgree(res8', want8')]_vars
BadTokenRejected == [][IsBadToken(act') => res' = want' /\ res8' = want8' /\ res' = Err("InvalidToken")]_vars
EventsAnswerFromChainStrict ==
  [][IsEventsAll(act') => PagesAgree(res', want') /\ PagesAgree(res8', want8')]_vars

(* every returned event carries the block, hash, transaction and positions of where it is *)
Tagged(r, vw) ==
  r.kind = "pages" =>
    \A j \in 1..Len(r.pages) : \A x \in Range(r.pages[j].evs) :
      /\ x.b >= 0 /\ x.b <= Height + Len(vw)
      /\ x.h = ExtHash(x.b)
      /\ \E y \in Range(ExtEvents(vw, x.b)) : y.t = x.t /\ y.ti = x.ti /\ y.ei = x.ei
      /\ Len(r.pages[j].evs) <= act'.chunk
EventsTagged ==
  [][IsEventsAll(act') => Tagged(res', IView) /\ Tagged(res8', <<Fallback>>)]_vars

(* a page is never empty while a token says more follows, and never longer than chunk_size *)
PagesWellFormed ==
  [][(IsEventsAll(act') /\ res'.kind = "pages") =>
       \A j \in 1..Len(res'.pages) :
         /\ res'.pages[j].tok # NoTok => Len(res'.pages[j].evs) = act'.chunk
         /\ res'.pages[j].tok.b # -9]_vars

(* a token minted for ANOTHER filter over the same range: the page is still a subsequence of the
   naive scan of this filter (nothing outside the filter or the range, nothing reordered) *)
RECURSIVE SubSeqFrom(_, _, _, _)
SubSeqFrom(s, i, t, j) ==
  IF i > Len(s) THEN TRUE
  ELSE IF j > Len(t) THEN FALSE
  ELSE IF s[i] = t[j] THEN SubSeqFrom(s, i + 1, t, j + 1) ELSE SubSeqFrom(s, i, t, j + 1)
IsSubSeq(s, t) == SubSeqFrom(s, 1, t, 1)
ForeignTokenSound ==
  [][(IsEventsPage(act') /\ res'.kind = "page") =>
       LET vw == IView
           all == NaiveScan(Eff(act'.f), vw, 0, DTo(act'.to, vw)) IN
       Len(res'.evs) <= Len(all) /\ IsSubSeq(res'.evs, all)]_vars

(* A storage value written by a view block for a contract that neither the canonical state nor the
   view deploys: only possible while the storage is stale (the view was built on a block the head
   has replaced).  The overlay shows the value (v0.10 answers it), v0.9 checks the class hash first
   and answers CONTRACT_NOT_FOUND; the property has no opinion on inconsistent data. *)
LaxRead(a) ==
  /\ a.name = "getStorageAt" /\ a.id.k = "pre_confirmed" /\ chain # <<>>
  /\ DOverClass(DView, Len(DView), a.c) = NoClass
  /\ DOverStor(DView, Len(DView), a.c, a.s) # -1

(* THE property for the read methods with pre-confirmed data *)
ReadsAnswerFromChain ==
  [][(IsRead(act') /\ act'.name # "getEvents") => res' = want' /\ res8' = want8']_vars
(* a view whose blocks were built on the current head is always consistent *)
ViewOnChain == \A i \in 1..Len(DView) : IsFallback(DView[i]) \/ IsPrefix(chain, DView[i].p)
NoLaxWhenOnChain ==
  [][(IsRead(act') /\ act'.name = "getStorageAt" /\ chain # <<>> /\ ViewOnChain) => ~LaxRead(act')]_vars

(* finality of what is found in the view is PRE_CONFIRMED, never anything else, and nothing
   canonical is ever PRE_CONFIRMED *)
PreConfirmedFinality ==
  [][/\ (res'.kind = "receipt" => (res'.fin = "PRE_CONFIRMED") = (res'.n > Height) /\ (res'.hash = NoHashP) = (res'.n > Height))
     /\ (res'.kind = "block" => (res'.status = "ABSENT") = (res'.hash = NoHashP))
     /\ (res8'.kind \in {"receipt", "status"} => res8'.fin # "PRE_CONFIRMED")]_vars

ReadsArePure == [][IsRead(act') => UNCHANGED dbvars]_vars

(* ---- witnesses: invariants that must be VIOLATED (run without VIEW): the antecedents of the
   properties above are reachable in the exhaustive configurations ---- *)
(* a complete query of >= 3 pages one of which mixes canonical and pre-confirmed events *)
WitnessNoPagingAcrossHead ==
  ~(/\ IsEventsAll(act) /\ res.kind = "pages" /\ Len(res.pages) >= 3
    /\ \E j \in 1..Len(res.pages) : (\E x \in Range(res.pages[j].evs) : x.h = NoHashP)
                                     /\ (\E y \in Range(res.pages[j].evs) : y.h # NoHashP))
(* a receipt found in a view block that is NOT the tip *)
WitnessNoReceiptBelowTip ==
  ~(/\ act.name = "getTransactionReceipt" /\ res.kind = "receipt" /\ res.fin = "PRE_CONFIRMED"
    /\ chain # <<>> /\ Len(IView) = 2 /\ res.n = Height + 1)
(* a state read answered from a view of two blocks built on another block than the head *)
WitnessNoStaleOverlayRead ==
  ~(/\ act.name = "getStorageAt" /\ act.id.k = "pre_confirmed" /\ res.kind = "felt" /\ res8 # res
    /\ chain # <<>> /\ ~IsFallback(IView[1]) /\ ~ViewOnChain)
=============================================================================

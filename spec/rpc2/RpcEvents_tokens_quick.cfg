\* exhaustive: single pages with ANY (block, processed) token - i.e. tokens minted for other filters / chunk sizes - stay sound
CONSTANTS
  MaxLen = 2
  MaxReverts = 0
  MaxPc = 2
  Txs <- MCTxs
  Ev <- MCEv
  FilterMenu <- MCFiltersTwo
  ChunkMenu = {1, 2}
  FromKinds = {"none", "num", "pre_confirmed"}
  ToKinds = {"none", "num", "pre_confirmed"}
  WithEvents = FALSE
  WithTokens = TRUE
  WithReads = FALSE
  WithStale = FALSE
  L1Menu = {}
  FixL1EventsClamp = FALSE
INIT Init
NEXT Next
VIEW view
INVARIANTS TypeOK PcContiguous ViewResolution
PROPERTIES ForeignTokenSound ReadsArePure
CHECK_DEADLOCK FALSE

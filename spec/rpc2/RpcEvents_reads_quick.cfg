\* exhaustive: the read methods with pre_confirmed / latest / number ids and the by-hash lookups while the node holds
\* pre-confirmed blocks (aligned or stale), L1 head none / 0
CONSTANTS
  MaxLen = 2
  MaxReverts = 0
  MaxPc = 2
  Txs <- MCTxs
  Ev <- MCEv
  FilterMenu <- MCFiltersQuick
  ChunkMenu = {1, 2, 100}
  FromKinds = {"none", "num", "pre_confirmed"}
  ToKinds = {"none", "num", "pre_confirmed"}
  WithEvents = FALSE
  WithTokens = FALSE
  WithReads = TRUE
  WithStale = TRUE
  L1Menu = {0}
  FixL1EventsClamp = FALSE
INIT Init
NEXT Next
VIEW view
INVARIANTS TypeOK PcContiguous ViewResolution
PROPERTIES NoLaxWhenOnChain ReadsAnswerFromChain PreConfirmedFinality ReadsArePure
CHECK_DEADLOCK FALSE

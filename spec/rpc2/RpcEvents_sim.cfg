\* behaviour generation (tlc -simulate): canonical chain <= 3 blocks, <= 2 reverts, <= 2 stored pre-confirmed
\* blocks (aligned or stale), L1 head anywhere, the code as it is
CONSTANTS
  MaxLen = 3
  MaxReverts = 2
  MaxPc = 2
  MaxSteps = 40
  Txs <- MCTxs
  Ev <- MCEv
  FilterMenu <- MCFiltersAll
  ChunkMenu = {1, 2, 3, 100}
  FromKinds = {"none"}
  ToKinds = {"none"}
  WithEvents = TRUE
  WithTokens = TRUE
  WithReads = TRUE
  WithStale = TRUE
  L1Menu = {0, 1, 2, 3, 4}
  FixL1EventsClamp = FALSE
INIT MBTInit
NEXT MBTNext
CHECK_DEADLOCK FALSE

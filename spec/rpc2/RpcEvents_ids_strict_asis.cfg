\* expected VIOLATION: the code as it is against the property WITHOUT the l1_accepted exception (vacuity guard of the switch)
CONSTANTS
  MaxLen = 2
  MaxReverts = 0
  MaxPc = 1
  Txs <- MCTxs
  Ev <- MCEv
  FilterMenu <- MCFiltersTwo
  ChunkMenu = {2}
  FromKinds = {"none", "num", "hash", "latest", "l1_accepted", "pre_confirmed"}
  ToKinds = {"none", "num", "hash", "latest", "l1_accepted", "pre_confirmed"}
  WithEvents = TRUE
  WithTokens = FALSE
  WithReads = FALSE
  WithStale = TRUE
  L1Menu = {0, 2}
  FixL1EventsClamp = FALSE
INIT Init
NEXT Next
VIEW view
INVARIANTS TypeOK PcContiguous ViewResolution
PROPERTIES EventsAnswerFromChainStrict
CHECK_DEADLOCK FALSE

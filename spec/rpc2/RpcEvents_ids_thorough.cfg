\* as ids_quick with canonical chain <= 3 blocks, 1 revert, L1 head 0 / 1 / 3
CONSTANTS
  MaxLen = 3
  MaxReverts = 1
  MaxPc = 1
  Txs <- MCTxs
  Ev <- MCEv
  FilterMenu <- MCFiltersTwo
  ChunkMenu = {2}
  FromKinds = {"none", "num", "hash", "latest", "l1_accepted", "pre_confirmed"}
  ToKinds = {"none", "num", "hash", "latest", "l1_accepted", "pre_confirmed"}
  WithEvents = TRUE
  WithTokens = FALSE
  WithReads = FALSE
  WithStale = TRUE
  L1Menu = {0, 1, 3}
  FixL1EventsClamp = FALSE
INIT Init
NEXT Next
VIEW view
INVARIANTS TypeOK PcContiguous ViewResolution
PROPERTIES EventsAnswerFromChain BadTokenRejected EventsTagged PagesWellFormed ReadsArePure
CHECK_DEADLOCK FALSE

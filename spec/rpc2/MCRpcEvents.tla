------------------------------- MODULE MCRpcEvents -------------------------------
(* Model-checking instance of RpcEvents: the transaction table (as MCRpcRead!MCTxs, extended to the
   heights pre-confirmed blocks reach), the events of every transaction, and the filter menus.

   Transaction ids are 10*height + kind digit:
     1 INVOKE v3   2 L1_HANDLER   3 INVOKE v1 with a REVERTED receipt   4 DEPLOY_ACCOUNT
     5 DECLARE     6 DEPLOY (legacy)   7 a second L1_HANDLER
   Events: two emitters (1, 2; which of them a transaction uses flips with the height, so the same
   filter selects different positions in consecutive blocks), keys 1 and 2 on positions 0 and 1, key
   lists of length 0, 1, 2, equal events twice in one transaction, transactions without events. *)
EXTENDS RpcEvents

MCTxs(n, v) ==
  IF v = 0 THEN <<10 * n + 1, 10 * n + 2, 10 * n + 3>>
  ELSE CASE n = 0 -> <<7, 6, 5>>
         [] n = 1 -> <<12, 14, 15>>
         [] n = 2 -> <<26>>       \* (not the empty block of C08: a block without transactions has no state diff)
         [] OTHER -> <<10 * n + 6, 10 * n + 7, 10 * n + 4, 10 * n + 5>>

E(a, k) == [a |-> a, k |-> k]
MCEv(t) ==
  LET n == t \div 10
      d == t % 10
      A(x) == ((x + n) % 2) + 1 IN
  CASE d = 1 -> << E(A(0), <<1>>), E(A(1), <<1, 2>>) >>
    [] d = 2 -> << E(A(0), <<2, 1>>) >>
    [] d = 3 -> << E(A(1), <<>>) >>
    [] d = 4 -> << E(A(0), <<1, 1>>), E(A(0), <<1>>), E(A(1), <<2>>) >>
    [] d = 5 -> << E(A(1), <<2, 2>>) >>
    [] d = 7 -> << E(A(0), <<2>>), E(A(0), <<2>>) >>
    [] OTHER -> <<>>

F(addrs, keys) == [addrs |-> addrs, keys |-> keys, huge |-> 0]
KeyMenu == { <<>>, <<{1}>>, <<{2}>>, <<{1, 2}>>, <<{}, {1}>>, <<{}, {2}>>, <<{1}, {2}>>, <<{2}, {}>>, <<{}>>,
             <<{}, {}>>, <<{1, 2}, {1, 2}>> }
(* 9 = an address that never emits *)
MCFiltersAll == {F(a, k) : a \in {{}, {1}, {2}, {1, 2}, {9}}, k \in KeyMenu}
MCFiltersQuick == { F({}, <<>>), F({1}, <<>>), F({2}, <<{1}>>), F({}, <<{2}>>), F({}, <<{}, {1}>>),
                    F({1, 2}, <<{1, 2}>>), F({}, <<{2}, {}>>), F({9}, <<>>) }
MCFiltersTwo == { F({}, <<>>), F({1}, <<{1}>>) }
=============================================================================

\* an honest stream (height 1 or 2) beside a stream that violates the grammar, repaired model
CONSTANTS Streams <- MCStreams Choices <- ChQ1 BadBatches <- MCBad InitHeight = 1 MaxHeight = 2
  InputCap = 2 OutCap = 1 MaxDup = 2 MaxExtra = 1 MaxGot = 2
  FixNilState = TRUE FixBlock = TRUE FixReFin = TRUE SeqWindow = 8 Mut = "none"
INIT Init
NEXT Next
INVARIANTS TypeOK DeliveredIsMeant BadStreamNeverDelivers DeliveredEqualsSent AtMostOneProposalPerStream
  NoDeliveryForPastHeight RunsAtOwnHeight RegisteredStarted FutureWaits DemuxNeverStops BufferBounded
CHECK_DEADLOCK FALSE

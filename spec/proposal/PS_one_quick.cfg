\* repaired; one stream, 13 scripts of every class, duplicates, three heights
CONSTANTS Streams = {1} Choices <- ChOneQ BadBatches <- MCBad InitHeight = 1 MaxHeight = 3
  InputCap = 2 OutCap = 1 MaxDup = 2 MaxExtra = 2 MaxGot = 2
  FixNilState = TRUE FixBlock = TRUE FixReFin = TRUE SeqWindow = 8 BufBound = 8 Mut = "none"
INIT Init
NEXT Next
INVARIANTS TypeOK DeliveredIsMeant BadStreamNeverDelivers DeliveredEqualsSent NoDeliveryForPastHeight RunsAtOwnHeight RegisteredStarted FutureWaits AtMostOneProposalPerStream DemuxNeverStops BufferBounded
CHECK_DEADLOCK FALSE

\* as coded: a second number-0 message on a stream whose first one failed panics the demux
CONSTANTS Streams <- MCStreams Choices <- ChXNil BadBatches <- MCBad InitHeight = 1 MaxHeight = 2
  InputCap = 2 OutCap = 1 MaxDup = 2 MaxExtra = 1 MaxGot = 2
  FixNilState = FALSE FixBlock = FALSE FixReFin = FALSE SeqWindow = 0 BufBound = 99 Mut = "none"
INIT Init
NEXT Next
INVARIANTS DemuxNeverStops
CHECK_DEADLOCK FALSE

\* behaviour generation; the check rewrites the defect switches (from known_findings.json) and OutCap
CONSTANTS Streams <- MCStreams3 Choices <- ChSim BadBatches <- MCBad InitHeight = 1 MaxHeight = 3
  InputCap = 6 OutCap = 16 MaxDup = 3 MaxExtra = 6 MaxGot = 16
  FixNilState = FALSE FixBlock = FALSE FixReFin = FALSE SeqWindow = 0 BufBound = 0 Mut = "none"
  MaxSteps = 45
INIT MBTInit
NEXT MBTNext
CHECK_DEADLOCK FALSE

------------------------- MODULE MCProposalStream -------------------------
(* The script catalogue and the stream -> choices maps a .cfg cannot express. *)
EXTENDS ProposalStream

I(h, r, vr, p) == [k |-> "Init", h |-> h, r |-> r, vr |-> vr, p |-> p]
BadInit == [k |-> "BadInit"]                       \* an Init without a proposer: the adapter refuses it
Info(i) == [k |-> "Info", i |-> i]
Tx(b) == [k |-> "Txs", b |-> b]
C(i, t) == [k |-> "Commit", i |-> i, t |-> t]
PF(h, i, t, p) == [k |-> "PFin", v |-> Val(h, i, t, p)]
Junk == [k |-> "Junk"]
F == FinPart
M(n, pt) == [seq |-> n, part |-> pt]
Sq(parts) == [j \in 1..Len(parts) |-> M(j - 1, parts[j])]

(* what proposer_dispatcher.go emits *)
Honest(h, r, vr, p, i, t) ==
  Sq(<<I(h, r, vr, p), Info(i)>> \o [k \in 1..Len(t) |-> Tx(t[k])] \o <<C(i, t), PF(h, i, t, p), F>>)
(* the empty form *)
Empty(h, r, vr, p) == Sq(<<I(h, r, vr, p), C(0, <<>>), PF(h, 0, <<>>, p), F>>)

H1a == Honest(1, 0, 0 - 1, 1, 1, <<1>>)
H1b == Honest(1, 1, 0, 2, 2, <<1, 2>>)
H1e == Honest(1, 0, 0 - 1, 1, 1, <<>>)
H2a == Honest(2, 0, 0 - 1, 2, 1, <<2>>)
H2b == Honest(2, 1, 0, 1, 2, <<>>)
H3a == Honest(3, 0, 0 - 1, 1, 1, <<1>>)
E1  == Empty(1, 0, 0 - 1, 2)
E2  == Empty(2, 2, 1, 1)

(* malformed / adversarial scripts *)
NoInit      == Sq(<<Info(1), Tx(1), C(1, <<1>>), PF(1, 1, <<1>>, 1), F>>)
Hijack      == <<M(0, Info(1))>> \o H1a                   \* a bogus number 0 under an honest stream's id
HijackBad   == <<M(0, BadInit)>> \o H1a
TwoInits    == Sq(<<I(1, 0, 0 - 1, 1), I(1, 0, 0 - 1, 1), Info(1), C(1, <<>>), PF(1, 1, <<>>, 1), F>>)
InfoAfterTx == Sq(<<I(1, 0, 0 - 1, 1), Info(1), Tx(1), Info(1), C(1, <<1>>), PF(1, 1, <<1>>, 1), F>>)
BadCommit   == Sq(<<I(1, 0, 0 - 1, 1), Info(1), Tx(1), C(1, <<2>>), PF(1, 1, <<1>>, 1), F>>)
BadCommitI  == Sq(<<I(1, 0, 0 - 1, 1), Info(1), Tx(1), C(2, <<1>>), PF(1, 1, <<1>>, 1), F>>)
BadFin      == Sq(<<I(1, 0, 0 - 1, 1), Info(1), Tx(1), C(1, <<1>>), PF(1, 1, <<2>>, 1), F>>)
BadFinH     == Sq(<<I(1, 0, 0 - 1, 1), Info(1), Tx(1), C(1, <<1>>), PF(2, 1, <<1>>, 1), F>>)
ReFin       == H1a \o <<M(Len(H1a), F)>>                  \* a second stream Fin
AfterFin    == H1a \o <<M(Len(H1a), Tx(1))>>              \* content after the Fin
Gap         == <<H1a[1], H1a[2], H1a[4], H1a[5], H1a[6]>> \* number 2 never arrives
EarlyFin    == Sq(<<I(1, 0, 0 - 1, 1), Info(1), F>>)
FinFirst    == Sq(<<F, I(1, 0, 0 - 1, 1)>>)
JunkMid     == Sq(<<I(1, 0, 0 - 1, 1), Info(1), Junk, C(1, <<>>), PF(1, 1, <<>>, 1), F>>)
JunkFirst   == <<M(0, Junk)>> \o H1a                      \* unparsable number 0, then the honest stream
HijackJunk  == <<M(0, Info(1)), M(0, Junk)>> \o H1a       \* a refused number 0, an unparsable one, the honest stream
BadExec     == Sq(<<I(1, 0, 0 - 1, 1), Info(1), Tx(3), C(1, <<3>>), PF(1, 1, <<3>>, 1), F>>)
Equivoc     == H1a \o <<M(2, Tx(2))>>                     \* two different parts under number 2
EquivocGood == H1a \o <<M(2, Tx(2)), M(3, C(1, <<2>>)), M(4, PF(1, 1, <<2>>, 1))>>   \* two full readings
EmptyBad    == Sq(<<I(1, 0, 0 - 1, 1), C(1, <<>>), PF(1, 1, <<>>, 1), F>>)
EmptyThenTx == Sq(<<I(1, 0, 0 - 1, 1), C(0, <<>>), Tx(1), PF(1, 0, <<>>, 1), F>>)
Flood       == <<M(1, Tx(1)), M(2, Tx(1)), M(3, Tx(1)), M(4, Tx(2))>>       \* never a number 0
FarSeq      == <<M(0, I(1, 0, 0 - 1, 1)), M(1, Info(1)), M(5, Tx(1)), M(6, Tx(1)), M(7, Tx(2)), M(9, Tx(2))>>
DeadFlood   == Sq(<<I(1, 0, 0 - 1, 1), F, Tx(1), Tx(1), Tx(2), Tx(2)>>)      \* the loop dies on number 1
PastFlood   == Sq(<<I(0, 0, 0 - 1, 1), Info(1), Tx(1), Tx(1), Tx(2)>>)       \* a height already left
FutFlood    == Sq(<<I(3, 0, 0 - 1, 1), Info(1), Tx(1), Tx(1), Tx(2)>>)       \* far future height

HonestSet == {H1a, H1b, H1e, H2a, H2b, E1, E2}
GrammarSet == {NoInit, TwoInits, InfoAfterTx, BadCommit, BadCommitI, BadFin, BadFinH, Gap, EarlyFin, FinFirst,
               JunkMid, BadExec, EmptyBad, EmptyThenTx}
TrickSet == {Hijack, HijackBad, JunkFirst, HijackJunk, ReFin, AfterFin, Equivoc, EquivocGood}
FloodSet == {Flood, FarSeq, DeadFlood, PastFlood, FutFlood}

MCStreams == {1, 2}
Two(A, B) == [s \in MCStreams |-> IF s = 1 THEN A ELSE B]
(* an honest stream (height 1 or 2) beside ... *)
ChGram1 == Two({H1e, H2b}, {NoInit, TwoInits, BadCommit, BadFin, EarlyFin})
ChGram2 == Two({H1e, H2b}, {InfoAfterTx, BadCommitI, BadFinH, Gap, FinFirst})
ChGram3 == Two({H1e, H2b}, {JunkMid, BadExec, EmptyBad, EmptyThenTx})
ChTrick1 == Two({H1e, H2b}, {Hijack, HijackBad, JunkFirst, HijackJunk})
ChTrick2 == Two({H1e}, {ReFin, AfterFin, Equivoc})
ChTrick3 == Two({H2b}, {ReFin, Equivoc})
ChFlood  == Two({H1e, H2b}, FloodSet)
ChHon    == Two({H1b, E1}, {H1e, H2b, E2})
(* quick tier *)
ChQ1 == Two({H2b}, {NoInit, BadFin, EarlyFin, EmptyBad})
ChQ2 == Two({H1e}, {Hijack, Flood, PastFlood})
ChOut0 == Two({H1e, H2b}, {E1, ReFin})
(* liveness *)
ShortHijack == <<M(0, Info(1))>> \o E1                  \* (short scripts: liveness checking is expensive)
ShortReFin  == E1 \o <<M(Len(E1), F)>>
ChL1 == Two({H1e}, {NoInit, BadFin})
ChL2 == Two({H1e}, {ShortHijack})
ChL3 == Two({H1e}, {ShortReFin})
ChL4 == Two({H1e}, {Flood, DeadFlood})
ChL5 == Two({H2b}, {PastFlood, FutFlood})
ChLq == Two({H1e}, {Flood, EarlyFin})
ChOne == [s \in {1} |-> HonestSet \cup GrammarSet \cup TrickSet \cup FloodSet]
ChOneQ == [s \in {1} |-> {H1a, H2b, E1, NoInit, BadCommit, BadFin, Gap, ReFin, Hijack, Equivoc, Flood, FarSeq, PastFlood}]
(* expected violations *)
ChXNil   == Two({H1e}, {Hijack})
ChXBlock == Two({H1e}, {Flood})
ChXFut   == Two({H2b}, {FutFlood})
ChXReFin == Two({H1e}, {ReFin})
ChXReFin1 == [s \in {1} |-> {ReFin}]
ChXBuf   == Two({H1e}, {FarSeq})
ChXPast  == Two({H1e}, {PastFlood})
ChXCommit == Two({H1e}, {BadCommit})
ChXFin   == Two({H1e}, {BadFin})
ChXHon   == Two({H1e}, {H2b})
ChXOne   == [s \in {1} |-> {H1e}]
MCBad == {3}
(* behaviour generation: three streams with pairwise different ids (honest ids are (height, round)) *)
MCStreams3 == {1, 2, 3}
ChSim == [s \in MCStreams3 |->
            IF s = 1 THEN {H1a, H1e, H2a, H3a}
            ELSE IF s = 2 THEN {H1b, H2b, E1, E2, H1b, H2b}
            ELSE GrammarSet \cup TrickSet \cup FloodSet]
=============================================================================

\* mutant: a commit does not stop the streams of the old height
CONSTANTS Streams <- MCStreams Choices <- ChXHon BadBatches <- MCBad InitHeight = 1 MaxHeight = 2
  InputCap = 2 OutCap = 1 MaxDup = 1 MaxExtra = 0 MaxGot = 2
  FixNilState = TRUE FixBlock = TRUE FixReFin = TRUE SeqWindow = 8 BufBound = 8 Mut = "keeponcommit"
INIT Init
NEXT Next
INVARIANTS RunsAtOwnHeight
CHECK_DEADLOCK FALSE

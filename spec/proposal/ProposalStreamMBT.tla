------------------------- MODULE ProposalStreamMBT -------------------------
(* Behaviour generation for the lockstep replay of ProposalStream.tla on the real demux
   (validator.NewProposalStreamDemux(...).Loop on a real pubsub topic inside a testing/synctest
   bubble).

   ONE harness thread acts: Recv(s, j) publishes the j-th message of stream s on the topic,
   CommitH stores the decided block and sends the height to the commit notifier, Drain reads the
   outputs channel until nothing more comes.  After each act the real goroutines run until all of
   them are durably blocked (synctest.Wait); here the internal actions have priority ("Busy") and
   are confluent, so the state at rest is a function of the acts.  While the demux goroutine is
   blocked in enqueueMessage what is published queues up in front of it (mq, FIFO: pubsub
   subscription -> TopicSubscription -> messages channel) and is handled when it gets free; when
   it has crashed nothing is handled any more.  A commit while the demux is blocked is only
   generated when the block is for ever (otherwise the select between the message and the commit
   channel would be a coin flip in the real code).

   OutCap is 0 (every hand-over waits for the driver: a commit cancels all of them) or larger
   than anything a behaviour produces (no hand-over ever waits): in between, which of two loops
   gets the last slot is a scheduler's choice.

   Recorded per act: the act and the projection of the state BEFORE it (= after the previous act
   came to rest); a final "End" entry carries the last projection. *)
EXTENDS MCProposalStream, Json

CONSTANTS MaxSteps
VARIABLES hist, steps, mq, draining, mode

R(S) == {RandomElement(S)}
RS(S) == IF S = {} THEN {} ELSE {RandomElement(S)}
allvars == <<vars, hist, steps, mq, draining, mode>>

InternalEnabled ==
  \/ \E s \in Streams : st[s].run = "running" /\ st[s].inq # <<>>
  \/ \E s \in Streams : st[s].run = "sending" /\ Len(out) < OutCap
  \/ dmx = "blocked" /\ Len(st[blk.s].inq) < InputCap
  \/ dmx = "ok" /\ mq # <<>>

(* the demux goroutine takes the next queued message *)
Dequeue ==
  /\ dmx = "ok" /\ mq # <<>>
  /\ LET s == Head(mq)[1]
         j == Head(mq)[2] IN
     IF Msg(s, j).seq = 0 THEN First(s, Msg(s, j)) ELSE Later(s, Msg(s, j))
  /\ mq' = Tail(mq)
  /\ UNCHANGED <<script, sent, extra, cur, out, got>>

Internal ==
  \/ \E s \in Streams : (StreamStep(s) \/ SendDone(s)) /\ UNCHANGED mq
  \/ Unblock /\ UNCHANGED mq
  \/ Dequeue

CanTake == out # <<>> \/ (OutCap = 0 /\ \E s \in Streams : st[s].run = "sending")
Take == (DriverTake \/ \E s \in Streams : DriverTakeFrom(s)) /\ UNCHANGED mq

View(s) == [ex |-> st[s].ex, started |-> st[s].started, sm |-> st[s].sm, next |-> st[s].next,
            buf |-> {e.seq : e \in st[s].buf}, inq |-> Len(st[s].inq), reg |-> st[s].reg,
            h |-> IF st[s].sm \in {"AwaitInfo", "RecvTxs", "AwaitFin", "Fin"} THEN st[s].hdr.h ELSE 0]
Proj == [cur |-> cur, dmx |-> dmx,
         loops |-> Cardinality({s \in Streams : st[s].run \in {"running", "sending"}}),
         streams |-> [s \in Streams |-> View(s)],
         got |-> got]

Lbl(name, s, j) == [name |-> name, s |-> s, j |-> j]
Log(name, s, j) == hist' = Append(hist, [a |-> Lbl(name, s, j), pre |-> Proj])

(* the lowest message of s not delivered yet (in-order delivery), or any *)
Pending(s) == {j \in DOMAIN script[s] : sent[s][j] = 0}
LowestPending(s) == IF Pending(s) = {} THEN {} ELSE {CHOOSE j \in Pending(s) : \A k \in Pending(s) : j <= k}
HighestPending(s) == IF Pending(s) = {} THEN {} ELSE {CHOOSE j \in Pending(s) : \A k \in Pending(s) : j >= k}
(* the delivery discipline of a behaviour: "fwd" mostly in script order, "rev" mostly in reverse order
   (everything is buffered out of order, equal numbers meet in the buffer), "mix" both *)
Ordered(s) == CASE mode = "rev" -> HighestPending(s)
                [] mode = "mix" -> LowestPending(s) \cup HighestPending(s)
                [] OTHER -> LowestPending(s)

RecvAct(s, j) ==
  /\ j \in DOMAIN script[s] /\ sent[s][j] < MaxDup /\ (sent[s][j] = 0 \/ extra < MaxExtra)
  /\ Len(mq) < 8
  /\ IF dmx = "ok"
     THEN DemuxRecv(s, j) /\ UNCHANGED mq
     ELSE /\ sent' = [sent EXCEPT ![s][j] = @ + 1]
          /\ extra' = IF sent[s][j] = 0 THEN extra ELSE extra + 1
          /\ mq' = IF dmx = "blocked" THEN Append(mq, <<s, j>>) ELSE mq
          /\ UNCHANGED <<script, cur, st, out, got, dmx, blk>>
  /\ Log("Recv", s, j) /\ UNCHANGED <<draining, mode>>

BlockedForEver == dmx = "blocked" /\ st[blk.s].run \notin {"running", "sending"}

CommitAct ==
  /\ cur < MaxHeight
  /\ dmx = "ok" /\ Commit
  /\ Log("Commit", 0, 0) /\ UNCHANGED <<mq, draining, mode>>

DrainAct ==
  /\ draining' = TRUE
  /\ Log("Drain", 0, 0) /\ UNCHANGED <<vars, mq, mode>>

Harness ==
  \/ \E s \in R(Streams) : \E j \in RS(Ordered(s)) : RecvAct(s, j)
  \/ \E s \in R(Streams) : \E j \in RS(Ordered(s)) : RecvAct(s, j)
  \/ \E s \in R(Streams) : \E j \in RS(Ordered(s)) : RecvAct(s, j)
  \/ \E s \in R(Streams) : \E j \in R(DOMAIN script[s]) : RecvAct(s, j)
  \/ \E s \in R(Streams) : \E j \in R(DOMAIN script[s]) : RecvAct(s, j)
  \/ \E s \in R(Streams) : \E j \in R(DOMAIN script[s]) : RecvAct(s, j)
  \/ \E s \in R(Streams) : \E j \in RS(Ordered(s)) : RecvAct(s, j)
  \/ \E s \in R(Streams) : \E j \in RS(Ordered(s)) : RecvAct(s, j)
  \/ \E s \in R(Streams) : \E j \in R(DOMAIN script[s]) : RecvAct(s, j)
  \/ CommitAct
  \/ DrainAct          \* always enabled (the random draws above may all miss)

Pick(n) == [s \in Streams |-> RandomElement(Choices[s])]

MBTInit ==
  /\ script = Pick(0)
  /\ sent = [s \in Streams |-> [j \in DOMAIN script[s] |-> 0]]
  /\ extra = 0 /\ cur = InitHeight
  /\ st = [s \in Streams |-> Fresh] /\ out = <<>> /\ got = [s \in Streams |-> <<>>]
  /\ dmx = "ok" /\ blk = [s |-> CHOOSE s \in Streams : TRUE, m |-> NoMsg]
  /\ hist = <<>> /\ steps = 0 /\ mq = <<>> /\ draining = FALSE /\ mode = "fwd"

Emit ==
  /\ PrintT(ToJson([scripts |-> script, honest |-> [s \in Streams |-> HonestOf[script[s]]],
                    good |-> [s \in Streams |-> GoodOf[script[s]]],
                    steps |-> Append(hist, [a |-> Lbl("End", 0, 0), pre |-> Proj])]))
  /\ script' = Pick(steps)
  /\ sent' = [s \in Streams |-> [j \in DOMAIN script'[s] |-> 0]]
  /\ extra' = 0 /\ cur' = InitHeight
  /\ st' = [s \in Streams |-> Fresh] /\ out' = <<>> /\ got' = [s \in Streams |-> <<>>]
  /\ dmx' = "ok" /\ blk' = [s |-> CHOOSE s \in Streams : TRUE, m |-> NoMsg]
  /\ hist' = <<>> /\ steps' = 0 /\ mq' = <<>> /\ draining' = FALSE /\ mode' = RandomElement({"fwd", "rev", "mix", "fwd2"})

MBTNext ==
  IF InternalEnabled THEN Internal /\ UNCHANGED <<hist, steps, draining, mode>>
  ELSE IF draining THEN (IF CanTake THEN Take /\ UNCHANGED <<hist, steps, draining, mode>>
                         ELSE draining' = FALSE /\ UNCHANGED <<vars, hist, steps, mq, mode>>)
  ELSE IF steps >= MaxSteps \/ ~ENABLED Harness THEN Emit
  ELSE Harness /\ steps' = steps + (IF dmx = "ok" THEN 1 ELSE 6)   \* a stopped demux: a few more acts, then the next behaviour
=============================================================================

\* as coded: a stream nobody reads blocks the demux for ever
CONSTANTS Streams <- MCStreams Choices <- ChXBlock BadBatches <- MCBad InitHeight = 1 MaxHeight = 2
  InputCap = 2 OutCap = 1 MaxDup = 1 MaxExtra = 0 MaxGot = 2
  FixNilState = TRUE FixBlock = FALSE FixReFin = FALSE SeqWindow = 0 BufBound = 99 Mut = "none"
INIT Init
NEXT Next
INVARIANTS DemuxNeverStops
CHECK_DEADLOCK FALSE

#!/usr/bin/env python3
"""Writes the TLC configurations of spec/proposal (run once after editing; the .cfg files are checked in)."""
SAFE = ("TypeOK DeliveredIsMeant BadStreamNeverDelivers DeliveredEqualsSent NoDeliveryForPastHeight "
        "RunsAtOwnHeight RegisteredStarted FutureWaits")
REPAIRED_ONLY = "AtMostOneProposalPerStream DemuxNeverStops BufferBounded"
FIX = dict(FixNilState="TRUE", FixBlock="TRUE", FixReFin="TRUE", SeqWindow=8, BufBound=8)
ASCODED = dict(FixNilState="FALSE", FixBlock="FALSE", FixReFin="FALSE", SeqWindow=0, BufBound=99)


def cfg(name, head, ch, streams="MCStreams", inv=SAFE, props="", spec=None, mut="none", maxh=2, inputcap=2, outcap=1,
        maxdup=2, extra=1, sw=FIX, maxgot=2):
    c = dict(sw)
    lines = ["\\* " + head,
             "CONSTANTS Streams %s %s Choices <- %s BadBatches <- MCBad InitHeight = 1 MaxHeight = %d" % (
                 "=" if streams.startswith("{") else "<-", streams, ch, maxh),
             "  InputCap = %d OutCap = %d MaxDup = %d MaxExtra = %d MaxGot = %d" % (inputcap, outcap, maxdup, extra, maxgot),
             "  FixNilState = %s FixBlock = %s FixReFin = %s SeqWindow = %s BufBound = %s Mut = \"%s\"" % (
                 c["FixNilState"], c["FixBlock"], c["FixReFin"], c["SeqWindow"], c["BufBound"], mut)]
    if spec:
        lines.append("SPECIFICATION " + spec)
    else:
        lines += ["INIT Init", "NEXT Next"]
    if inv:
        lines.append("INVARIANTS " + inv)
    if props:
        lines.append("PROPERTIES " + props)
    lines.append("CHECK_DEADLOCK FALSE")
    open("PS_%s.cfg" % name, "w").write("\n".join(lines) + "\n")


ALL = SAFE + " " + REPAIRED_ONLY
# ---- repaired design: every property
cfg("one_quick", "repaired; one stream, 13 scripts of every class, duplicates, three heights", "ChOneQ", streams="{1}", inv=ALL, maxh=3, extra=2)
cfg("q1", "repaired; an honest future-height stream beside a stream that violates the grammar", "ChQ1", inv=ALL, extra=0, maxdup=1)
cfg("q2", "repaired; an honest stream beside a hijacked number 0 / floods", "ChQ2", inv=ALL, extra=0, maxdup=1)
cfg("one", "repaired; one stream, the whole catalogue, duplicates, three heights", "ChOne", streams="{1}", inv=ALL, maxh=3, extra=2)
for n in ("Gram1", "Gram2", "Gram3", "Trick1", "Trick2", "Trick3", "Flood", "Hon"):
    cfg(n.lower(), "repaired; two streams: " + n, "Ch" + n, inv=ALL, extra=0, maxdup=1)
cfg("out0", "repaired; an unbuffered outputs channel: every hand-over waits for the driver, a commit cancels it", "ChOut0", inv=ALL, outcap=0, extra=0, maxdup=1)
cfg("ascoded_out0", "as coded; an unbuffered outputs channel", "ChOut0", outcap=0, extra=0, maxdup=1, sw=ASCODED)
# ---- liveness (repaired): an honest stream is delivered whatever the other stream does
for n, what in ((1, "grammar violations"), (2, "a hijacked number 0"), (3, "a second Fin"), (4, "floods"), (5, "floods of a past and a future height")):
    cfg("live%d" % n, "repaired; liveness under fairness beside " + what, "ChL%d" % n, inv="", props="HonestDelivered", spec="FairSpec", inputcap=4, extra=0, maxdup=1)
cfg("live_q", "repaired; liveness under fairness, quick tier", "ChLq", inv="", props="HonestDelivered", spec="FairSpec", inputcap=4, extra=0, maxdup=1)
# ---- the code as it is: what holds in spite of the defects
cfg("ascoded_one", "as coded; one stream, the whole catalogue", "ChOne", streams="{1}", maxh=3, extra=1, sw=ASCODED)
cfg("ascoded_q", "as coded; an honest stream beside a hijacked number 0 / floods", "ChQ2", extra=0, maxdup=1, sw=ASCODED)
cfg("ascoded_trick", "as coded; two streams: tricks", "ChTrick1", extra=0, maxdup=1, sw=ASCODED)
cfg("ascoded_flood", "as coded; two streams: floods", "ChFlood", extra=1, sw=ASCODED)
# ---- expected violations: the defects
X = dict(extra=0, maxdup=1)
cfg("x_nilstate", "as coded: a second number-0 message on a stream whose first one failed panics the demux", "ChXNil", inv="DemuxNeverStops", sw=dict(ASCODED), extra=1)
cfg("x_block", "as coded: a stream nobody reads blocks the demux for ever", "ChXBlock", inv="DemuxNeverStops", sw=dict(ASCODED, FixNilState="TRUE"), **X)
cfg("x_block_live", "as coded: ... and the honest stream beside it is never delivered", "ChXBlock", inv="", props="HonestDelivered", spec="FairSpec", sw=dict(ASCODED, FixNilState="TRUE"), **X)
cfg("x_block_future", "as coded: parts of a future height fill the input and the commit that would start the stream is never handled", "ChXFut", inv="DemuxNeverStops", sw=dict(ASCODED, FixNilState="TRUE"), maxh=3, **X)
cfg("x_refin", "as coded: a second stream Fin hands the Proposal out twice", "ChXReFin1", streams="{1}", inv="AtMostOneProposalPerStream", sw=dict(ASCODED, FixNilState="TRUE", FixBlock="TRUE"), **X)
cfg("x_buffer", "as coded: the out-of-order buffer has no bound", "ChXBuf", inv="BufferBounded", sw=dict(ASCODED, FixNilState="TRUE", FixBlock="TRUE", BufBound=3), **X)
cfg("x_leak", "design: a stream of a height already left is kept for ever", "ChXPast", inv="NoLeak", **X)
cfg("x_leak_unstarted", "design: a stream that never gets its number 0 is kept for ever", "ChXBlock", inv="NoLeakStrict", **X)
cfg("x_dropfull", "design limit of the repair: a full input drops parts of an honest future-height stream", "ChXHon", inv="", props="HonestDelivered", spec="FairSpec", inputcap=2, **X)
cfg("x_window", "design limit of the repair: a window below the stream length loses an honest stream", "ChXHon", inv="", props="HonestDelivered", spec="FairSpec", inputcap=4, sw=dict(FIX, SeqWindow=2), **X)
# ---- expected violations: mutants (a mechanism switched off)
cfg("x_nocommitcheck", "mutant: the commitment is not compared", "ChXCommit", inv="BadStreamNeverDelivers", mut="nocommitcheck", **X)
cfg("x_nofincheck", "mutant: the proposal fin is not compared", "ChXFin", inv="BadStreamNeverDelivers", mut="nofincheck", **X)
cfg("x_noorder", "mutant: parts are processed in arrival order", "ChXHon", inv="", props="HonestDelivered", spec="FairSpec", mut="noorder", inputcap=4, **X)
cfg("x_restart", "mutant: a second number-0 message restarts the stream", "ChXOne", streams="{1}", inv="AtMostOneProposalPerStream", mut="restart", extra=5, maxdup=2, inputcap=4, maxh=1)
cfg("x_keeponcommit", "mutant: a commit does not stop the streams of the old height", "ChXHon", inv="RunsAtOwnHeight", mut="keeponcommit", **X)
cfg("x_startearly", "mutant: a stream of a future height runs at once", "ChXHon", inv="FutureWaits", mut="startearly", **X)

\* as coded: the out-of-order buffer has no bound
CONSTANTS Streams <- MCStreams Choices <- ChXBuf BadBatches <- MCBad InitHeight = 1 MaxHeight = 2
  InputCap = 2 OutCap = 1 MaxDup = 1 MaxExtra = 0 MaxGot = 2
  FixNilState = TRUE FixBlock = TRUE FixReFin = FALSE SeqWindow = 0 BufBound = 3 Mut = "none"
INIT Init
NEXT Next
INVARIANTS BufferBounded
CHECK_DEADLOCK FALSE

\* design: a stream of a height already left is kept for ever
CONSTANTS Streams <- MCStreams Choices <- ChXPast BadBatches <- MCBad InitHeight = 1 MaxHeight = 2
  InputCap = 2 OutCap = 1 MaxDup = 1 MaxExtra = 0 MaxGot = 2
  FixNilState = TRUE FixBlock = TRUE FixReFin = TRUE SeqWindow = 8 BufBound = 8 Mut = "none"
INIT Init
NEXT Next
INVARIANTS NoLeak
CHECK_DEADLOCK FALSE

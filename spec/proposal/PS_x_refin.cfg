\* as coded: a second stream Fin hands the Proposal out twice
CONSTANTS Streams = {1} Choices <- ChXReFin1 BadBatches <- MCBad InitHeight = 1 MaxHeight = 2
  InputCap = 2 OutCap = 1 MaxDup = 1 MaxExtra = 0 MaxGot = 2
  FixNilState = TRUE FixBlock = TRUE FixReFin = FALSE SeqWindow = 0 BufBound = 99 Mut = "none"
INIT Init
NEXT Next
INVARIANTS AtMostOneProposalPerStream
CHECK_DEADLOCK FALSE

\* as coded: parts of a future height fill the input and the commit that would start the stream is never handled
CONSTANTS Streams <- MCStreams Choices <- ChXFut BadBatches <- MCBad InitHeight = 1 MaxHeight = 3
  InputCap = 2 OutCap = 1 MaxDup = 1 MaxExtra = 0 MaxGot = 2
  FixNilState = TRUE FixBlock = FALSE FixReFin = FALSE SeqWindow = 0 BufBound = 99 Mut = "none"
INIT Init
NEXT Next
INVARIANTS DemuxNeverStops
CHECK_DEADLOCK FALSE

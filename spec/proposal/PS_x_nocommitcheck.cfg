\* mutant: the commitment is not compared
CONSTANTS Streams <- MCStreams Choices <- ChXCommit BadBatches <- MCBad InitHeight = 1 MaxHeight = 2
  InputCap = 2 OutCap = 1 MaxDup = 1 MaxExtra = 0 MaxGot = 2
  FixNilState = TRUE FixBlock = TRUE FixReFin = TRUE SeqWindow = 8 BufBound = 8 Mut = "nocommitcheck"
INIT Init
NEXT Next
INVARIANTS BadStreamNeverDelivers
CHECK_DEADLOCK FALSE

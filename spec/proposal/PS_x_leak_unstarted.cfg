\* design: a stream that never gets its number 0 is kept for ever
CONSTANTS Streams <- MCStreams Choices <- ChXBlock BadBatches <- MCBad InitHeight = 1 MaxHeight = 2
  InputCap = 2 OutCap = 1 MaxDup = 1 MaxExtra = 0 MaxGot = 2
  FixNilState = TRUE FixBlock = TRUE FixReFin = TRUE SeqWindow = 8 BufBound = 8 Mut = "none"
INIT Init
NEXT Next
INVARIANTS NoLeakStrict
CHECK_DEADLOCK FALSE

\* mutant: a second number-0 message restarts the stream
CONSTANTS Streams = {1} Choices <- ChXOne BadBatches <- MCBad InitHeight = 1 MaxHeight = 1
  InputCap = 4 OutCap = 1 MaxDup = 2 MaxExtra = 5 MaxGot = 2
  FixNilState = TRUE FixBlock = TRUE FixReFin = TRUE SeqWindow = 8 BufBound = 8 Mut = "restart"
INIT Init
NEXT Next
INVARIANTS AtMostOneProposalPerStream
CHECK_DEADLOCK FALSE

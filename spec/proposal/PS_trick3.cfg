\* repaired; two streams: Trick3
CONSTANTS Streams <- MCStreams Choices <- ChTrick3 BadBatches <- MCBad InitHeight = 1 MaxHeight = 2
  InputCap = 2 OutCap = 1 MaxDup = 1 MaxExtra = 0 MaxGot = 2
  FixNilState = TRUE FixBlock = TRUE FixReFin = TRUE SeqWindow = 8 BufBound = 8 Mut = "none"
INIT Init
NEXT Next
INVARIANTS TypeOK DeliveredIsMeant BadStreamNeverDelivers DeliveredEqualsSent NoDeliveryForPastHeight RunsAtOwnHeight RegisteredStarted FutureWaits AtMostOneProposalPerStream DemuxNeverStops BufferBounded
CHECK_DEADLOCK FALSE

\* as coded; one stream, the whole catalogue
CONSTANTS Streams = {1} Choices <- ChOne BadBatches <- MCBad InitHeight = 1 MaxHeight = 3
  InputCap = 2 OutCap = 1 MaxDup = 2 MaxExtra = 1 MaxGot = 2
  FixNilState = FALSE FixBlock = FALSE FixReFin = FALSE SeqWindow = 0 BufBound = 99 Mut = "none"
INIT Init
NEXT Next
INVARIANTS TypeOK DeliveredIsMeant BadStreamNeverDelivers DeliveredEqualsSent NoDeliveryForPastHeight RunsAtOwnHeight RegisteredStarted FutureWaits
CHECK_DEADLOCK FALSE

\* as coded; an unbuffered outputs channel
CONSTANTS Streams <- MCStreams Choices <- ChOut0 BadBatches <- MCBad InitHeight = 1 MaxHeight = 2
  InputCap = 2 OutCap = 0 MaxDup = 1 MaxExtra = 0 MaxGot = 2
  FixNilState = FALSE FixBlock = FALSE FixReFin = FALSE SeqWindow = 0 BufBound = 99 Mut = "none"
INIT Init
NEXT Next
INVARIANTS TypeOK DeliveredIsMeant BadStreamNeverDelivers DeliveredEqualsSent NoDeliveryForPastHeight RunsAtOwnHeight RegisteredStarted FutureWaits
CHECK_DEADLOCK FALSE

\* repaired; liveness under fairness beside floods of a past and a future height
CONSTANTS Streams <- MCStreams Choices <- ChL5 BadBatches <- MCBad InitHeight = 1 MaxHeight = 2
  InputCap = 4 OutCap = 1 MaxDup = 1 MaxExtra = 0 MaxGot = 2
  FixNilState = TRUE FixBlock = TRUE FixReFin = TRUE SeqWindow = 8 BufBound = 8 Mut = "none"
SPECIFICATION FairSpec
PROPERTIES HonestDelivered
CHECK_DEADLOCK FALSE

\* one stream, every script of the catalogue, repaired model: every property
CONSTANTS Streams = {1} Choices <- ChOne BadBatches <- MCBad InitHeight = 1 MaxHeight = 3
  InputCap = 2 OutCap = 1 MaxDup = 2 MaxExtra = 2 MaxGot = 2
  FixNilState = TRUE FixBlock = TRUE FixReFin = TRUE SeqWindow = 8 Mut = "none"
INIT Init
NEXT Next
INVARIANTS TypeOK DeliveredIsMeant BadStreamNeverDelivers DeliveredEqualsSent AtMostOneProposalPerStream
  NoDeliveryForPastHeight RunsAtOwnHeight RegisteredStarted FutureWaits DemuxNeverStops BufferBounded
CHECK_DEADLOCK FALSE

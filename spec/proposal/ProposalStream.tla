--------------------------- MODULE ProposalStream ---------------------------
(* Consensus proposal streaming, receiving side, as it is coded in juno:

     consensus/p2p/validator/proposal_stream_demux.go   the demultiplexer (ONE goroutine: message | commit)
     consensus/p2p/validator/proposal_stream.go         one stream object + its loop goroutine
     consensus/p2p/validator/state_machine.go           Initial -> AwaitInfo -> RecvTxs -> AwaitFin -> Fin
     consensus/p2p/validator/transition.go              the transitions: re-execute and compare
     consensus/p2p/proposer/proposer_dispatcher.go      the sending side (the honest scripts)

   WIRE.  A proposal travels as a STREAM: messages (stream id, sequence number, part) where a part
   is ProposalInit | BlockInfo | TransactionBatch | ProposalCommitment | ProposalFin (content) or
   the stream-level Fin.  The honest dispatcher emits  Init, Info, Txs*, Commit, PFin, Fin  with
   sequence numbers 0..n.  Another implementation may use the EMPTY form  Init, Commit, PFin, Fin.
   The pubsub layer may reorder and duplicate, and anybody can publish anything: a script here is
   an arbitrary finite list of messages (several different parts for one sequence number, gaps,
   parts after Fin, unparsable content ...).  script[s] is everything that will ever be published
   under stream id s; DemuxRecv(s, j) delivers its j-th message (up to MaxDup times, any order).

   RECEIVER, one action per step another goroutine can observe:
     DemuxRecv    the demux goroutine handles ONE pubsub message completely: sequence number 0 =
                  onFirstMessage (stream.start runs the Init transition IN the demux goroutine,
                  registers the stream under its height, starts its loop when that is the current
                  height); otherwise enqueueMessage = a BLOCKING send into the stream's input
                  channel (capacity InputCap)
     Unblock      that send completes
     StreamStep   a running stream's loop takes one message from its input channel and runs
                  processMessages to its end (buffer when out of order, else drive the state machine
                  through every contiguous buffered part; on the stream Fin hand the Proposal to the
                  outputs channel, capacity OutCap)
     SendDone     a loop blocked in that hand-over completes it
     DriverTake   the Tendermint driver reads one Proposal
     Commit       the demux goroutine handles a commit notification: cancel and join the loops of
                  the current height, delete the streams REGISTERED under it, height + 1, start the
                  loops of the streams registered under the new height

   EXECUTOR.  Re-execution is deterministic per content: the value of a block is the term
   Val(height, info, transaction batches [, proposer for the empty form]); a batch in BadBatches
   makes RunTxns fail.  A Commit part claims (info, batches); a PFin part claims a value.

   DEFECT SWITCHES (FALSE / 0 = the code as it is, TRUE = repaired):
     FixNilState  processProposalPart assigns the state machine BEFORE it looks at the error, so a
                  failed transition leaves the stream with a nil state machine; a stream that failed
                  in start() is not marked started, and the next message with sequence number 0 for
                  its id calls OnEvent on nil: the demux goroutine panics and proposals are never
                  received again.
     FixBlock     enqueueMessage blocks for ever when nobody reads the stream's input: a stream that
                  never got its sequence number 0, a stream of a past or a future height, a stream
                  whose loop has returned after an error.  The demux goroutine then handles neither
                  messages nor commits (so a future height is never reached).  Repaired = a full
                  input drops the message.
     FixReFin     after the stream Fin the loop goes on: a second Fin under the next sequence number
                  hands the same Proposal out again.  Repaired = a stream that has handed its Proposal
                  over discards whatever comes later (the loop keeps emptying the input, so that late
                  duplicates do not fill it).
     SeqWindow    0 = any sequence number is buffered, also one already processed (the out-of-order
                  map is unbounded and keeps stale duplicates); w > 0 = only next < n < next + w is
                  buffered.
   Mut names a mutant (a mechanism switched off) for the expected-violation runs. *)
EXTENDS Integers, Sequences, FiniteSets, TLC

CONSTANTS
  Streams,        \* stream ids
  Choices,        \* [Streams -> set of scripts]: Init picks one script per stream
  BadBatches,     \* batches the executor refuses
  InitHeight, MaxHeight,
  InputCap,       \* ProposalSingleStreamInput
  OutCap,         \* ProposalOutputs (0 = unbuffered)
  MaxDup,         \* deliveries per message
  MaxExtra,       \* deliveries beyond the first, all messages together
  MaxGot,         \* the driver's inbox keeps this many entries per stream (bounds the state)
  FixNilState, FixBlock, FixReFin, SeqWindow,
  BufBound,       \* the bound BufferBounded states
  Mut

VARIABLES
  script,   \* [Streams -> script]            constant after Init
  sent,     \* [Streams -> [index -> 0..MaxDup]]  deliveries so far
  extra,    \* deliveries beyond the first so far
  cur,      \* the demux's current height
  st,       \* [Streams -> stream record]
  out,      \* the outputs channel: sequence of [s, prop, at]
  got,      \* [Streams -> sequence of proposals the driver has read]
  dmx,      \* "ok" | "blocked" | "crashed"
  blk       \* what the demux is blocked on: [s, m]

vars == <<script, sent, extra, cur, st, out, got, dmx, blk>>

-----------------------------------------------------------------------------
(* values *)
NoVal  == [h |-> 0, i |-> 0, t |-> <<>>, e |-> 0]
Val(h, i, t, p) == [h |-> h, i |-> i, t |-> t, e |-> IF i = 0 THEN p ELSE 0]
NoHdr  == [h |-> 0, r |-> 0, p |-> 0, vr |-> 0]
NoProp == [h |-> 0, r |-> 0, p |-> 0, vr |-> 0, v |-> NoVal]
PropOf(hdr, v) == [h |-> hdr.h, r |-> hdr.r, p |-> hdr.p, vr |-> hdr.vr, v |-> v]
FinPart == [k |-> "Fin"]
NoMsg == [seq |-> 0, part |-> FinPart]

Fresh == [ex |-> FALSE, started |-> FALSE, sm |-> "Initial", hdr |-> NoHdr, info |-> 0, txs |-> <<>>,
          prop |-> NoProp, next |-> 0, buf |-> {}, inq |-> <<>>, run |-> "no", reg |-> 0, dn |-> FALSE]

-----------------------------------------------------------------------------
(* THE REFERENCE: what a stream means.  Read the parts in sequence-number order from 0, choosing
   one part per number, up to the first stream Fin; the reading yields a Proposal iff it is
   Init, Info, Txs*, Commit, PFin (or Init, Commit, PFin) with an accepted execution, a Commit that
   claims exactly the streamed content and a PFin that claims exactly its value. *)
PartsAt(sc, k) == {sc[j].part : j \in {j \in DOMAIN sc : sc[j].seq = k}}
Q0 == [ph |-> "start", hdr |-> NoHdr, i |-> 0, t |-> <<>>]
RefStep(q, pt) ==
  CASE q.ph = "start" /\ pt.k = "Init" ->
         {[ph |-> "init", hdr |-> [h |-> pt.h, r |-> pt.r, p |-> pt.p, vr |-> pt.vr], i |-> 0, t |-> <<>>]}
    [] q.ph = "init" /\ pt.k = "Info" -> {[q EXCEPT !.ph = "txs", !.i = pt.i]}
    [] q.ph = "init" /\ pt.k = "Commit" -> IF pt.i = 0 /\ pt.t = <<>> THEN {[q EXCEPT !.ph = "cmt"]} ELSE {}
    [] q.ph = "txs" /\ pt.k = "Txs" -> IF pt.b \in BadBatches THEN {} ELSE {[q EXCEPT !.t = Append(@, pt.b)]}
    [] q.ph = "txs" /\ pt.k = "Commit" -> IF pt.i = q.i /\ pt.t = q.t THEN {[q EXCEPT !.ph = "cmt"]} ELSE {}
    [] q.ph = "cmt" /\ pt.k = "PFin" -> IF pt.v = Val(q.hdr.h, q.i, q.t, q.hdr.p) THEN {[q EXCEPT !.ph = "pfin"]} ELSE {}
    [] OTHER -> {}
RECURSIVE RefRun(_, _, _)
RefRun(sc, k, Q) ==
  LET here == PartsAt(sc, k)
      fins == IF FinPart \in here THEN {PropOf(q.hdr, Val(q.hdr.h, q.i, q.t, q.hdr.p)) : q \in {q \in Q : q.ph = "pfin"}} ELSE {}
      nxt  == UNION {RefStep(q, pt) : q \in Q, pt \in here \ {FinPart}}
  IN fins \cup (IF nxt = {} THEN {} ELSE RefRun(sc, k + 1, nxt))
Good(sc) == RefRun(sc, 0, {Q0})

(* the honest dispatcher's output: sequence numbers 0..n once each in order, and it means something *)
IsHonest(sc) == /\ \A j \in DOMAIN sc : sc[j].seq = j - 1
                /\ Good(sc) # {}
                /\ sc[Len(sc)].part = FinPart /\ \A j \in 1..(Len(sc) - 1) : sc[j].part # FinPart
                /\ Len(sc) >= 2 /\ sc[2].part.k = "Info"
HeightOf(sc) == IF sc[1].part.k = "Init" THEN sc[1].part.h ELSE 0      \* of an honest script

AllScripts == UNION {Choices[s] : s \in Streams}
GoodOf == [sc \in AllScripts |-> Good(sc)]
HonestOf == [sc \in AllScripts |-> IsHonest(sc)]

-----------------------------------------------------------------------------
Init ==
  /\ script \in {f \in [Streams -> AllScripts] : \A s \in Streams : f[s] \in Choices[s]}
  /\ sent = [s \in Streams |-> [j \in DOMAIN script[s] |-> 0]]
  /\ extra = 0
  /\ cur = InitHeight
  /\ st = [s \in Streams |-> Fresh]
  /\ out = <<>>
  /\ got = [s \in Streams |-> <<>>]
  /\ dmx = "ok"
  /\ blk = [s |-> CHOOSE s \in Streams : TRUE, m |-> NoMsg]

-----------------------------------------------------------------------------
(* state_machine.go + transition.go: one part through OnEvent.  ok = no error.  On an error the
   stream's state machine variable has already been overwritten with the nil the transition
   returned ("Nil"), unless the content did not even unmarshal ("Junk": state untouched). *)
Broken(x) == [ok |-> FALSE, x |-> [x EXCEPT !.sm = IF FixNilState THEN @ ELSE "Nil"]]
OnEvent(x, pt, h) ==
  IF pt.k = "Junk" THEN [ok |-> FALSE, x |-> x]
  ELSE CASE x.sm = "Initial" /\ pt.k = "Init" ->        \* OnProposalInit
              [ok |-> TRUE, x |-> [x EXCEPT !.sm = "AwaitInfo", !.hdr = [h |-> pt.h, r |-> pt.r, p |-> pt.p, vr |-> pt.vr]]]
         [] x.sm = "AwaitInfo" /\ pt.k = "Info" ->      \* OnBlockInfo
              [ok |-> TRUE, x |-> [x EXCEPT !.sm = "RecvTxs", !.info = pt.i, !.txs = <<>>]]
         [] x.sm = "AwaitInfo" /\ pt.k = "Commit" ->    \* OnEmptyBlockCommitment
              IF (pt.i = 0 /\ pt.t = <<>>) \/ Mut = "nocommitcheck"
              THEN [ok |-> TRUE, x |-> [x EXCEPT !.sm = "AwaitFin", !.prop = PropOf(x.hdr, Val(h, 0, <<>>, x.hdr.p))]]
              ELSE Broken(x)
         [] x.sm = "RecvTxs" /\ pt.k = "Txs" ->         \* OnTransactions
              IF pt.b \in BadBatches THEN Broken(x)
              ELSE [ok |-> TRUE, x |-> [x EXCEPT !.txs = Append(@, pt.b)]]
         [] x.sm = "RecvTxs" /\ pt.k = "Commit" ->      \* OnProposalCommitment
              IF (pt.i = x.info /\ pt.t = x.txs) \/ Mut = "nocommitcheck"
              THEN [ok |-> TRUE, x |-> [x EXCEPT !.sm = "AwaitFin", !.prop = PropOf(x.hdr, Val(h, x.info, x.txs, x.hdr.p))]]
              ELSE Broken(x)
         [] x.sm = "AwaitFin" /\ pt.k = "PFin" ->       \* OnProposalFin
              IF pt.v = x.prop.v \/ Mut = "nofincheck"
              THEN [ok |-> TRUE, x |-> [x EXCEPT !.sm = "Fin"]]
              ELSE Broken(x)
         [] OTHER -> Broken(x)                          \* errInvalidMessage / an adapter error

-----------------------------------------------------------------------------
(* proposal_stream.go processMessages: the part under the expected number, then every buffered
   successor.  Result: the stream record, whether the loop returned with an error, and the
   Proposal to hand out (NoProp = none). *)
BufAt(x, k) == {e \in x.buf : e.seq = k}
RECURSIVE Drive(_, _, _)
Drive(x, m, h) ==
  IF m.part.k = "Fin"
  THEN IF x.sm = "Fin" THEN [x |-> [x EXCEPT !.dn = FixReFin], err |-> FALSE, give |-> x.prop]
       ELSE [x |-> x, err |-> TRUE, give |-> NoProp]                  \* "stream does not end with proposal fin"
  ELSE LET r == OnEvent(x, m.part, h) IN
       IF ~r.ok THEN [x |-> r.x, err |-> TRUE, give |-> NoProp]
       ELSE IF BufAt(r.x, r.x.next) = {} THEN [x |-> r.x, err |-> FALSE, give |-> NoProp]
       ELSE LET nm == CHOOSE e \in BufAt(r.x, r.x.next) : TRUE IN
            Drive([r.x EXCEPT !.buf = @ \ {nm}, !.next = @ + 1], nm, h)

Process(x, m, h) ==
  IF FixReFin /\ x.dn THEN [x |-> x, err |-> FALSE, give |-> NoProp]      \* handed over: nothing counts any more
  ELSE IF m.seq # x.next /\ Mut # "noorder"
  THEN IF SeqWindow > 0 /\ (m.seq >= x.next + SeqWindow \/ m.seq < x.next)
       THEN [x |-> x, err |-> FALSE, give |-> NoProp]
       ELSE [x |-> [x EXCEPT !.buf = {e \in @ : e.seq # m.seq} \cup {m}], err |-> FALSE, give |-> NoProp]
  ELSE Drive([x EXCEPT !.next = @ + 1], m, h)

-----------------------------------------------------------------------------
(* the demux goroutine *)
Msg(s, j) == script[s][j]

(* onFirstMessage *)
First(s, m) ==
  LET x == [st[s] EXCEPT !.ex = TRUE] IN
  IF x.started /\ Mut # "restart"
  THEN st' = [st EXCEPT ![s] = x] /\ UNCHANGED <<dmx, blk>>
  ELSE IF m.part.k = "Fin"                                        \* "first message has empty content"
  THEN st' = [st EXCEPT ![s] = x] /\ UNCHANGED <<dmx, blk>>
  ELSE IF x.sm = "Nil" /\ m.part.k # "Junk"                       \* OnEvent on a nil state machine (content that does
                                                                  \* not unmarshal is refused before)
  THEN st' = [st EXCEPT ![s] = x] /\ dmx' = "crashed" /\ UNCHANGED blk
  ELSE LET r == OnEvent(IF Mut = "restart" THEN [x EXCEPT !.sm = "Initial", !.dn = FALSE] ELSE x, m.part, cur) IN
       IF ~r.ok \/ r.x.sm # "AwaitInfo"
       THEN st' = [st EXCEPT ![s] = r.x] /\ UNCHANGED <<dmx, blk>>
       ELSE LET h == r.x.hdr.h
                y == [r.x EXCEPT !.started = TRUE, !.next = 1] IN
            /\ st' = [st EXCEPT ![s] =
                        IF h < cur THEN y                          \* outdated: kept, never registered, never run
                        ELSE [y EXCEPT !.reg = h,
                                       !.run = IF h = cur \/ Mut = "startearly" THEN "running" ELSE @]]
            /\ UNCHANGED <<dmx, blk>>

(* onSubsequentMessage *)
Later(s, m) ==
  LET x == [st[s] EXCEPT !.ex = TRUE] IN
  IF Len(x.inq) < InputCap
  THEN st' = [st EXCEPT ![s] = [x EXCEPT !.inq = Append(@, m)]] /\ UNCHANGED <<dmx, blk>>
  ELSE IF FixBlock
  THEN st' = [st EXCEPT ![s] = x] /\ UNCHANGED <<dmx, blk>>
  ELSE st' = [st EXCEPT ![s] = x] /\ dmx' = "blocked" /\ blk' = [s |-> s, m |-> m]

DemuxRecv(s, j) ==
  /\ dmx = "ok"
  /\ j \in DOMAIN script[s] /\ sent[s][j] < MaxDup /\ (sent[s][j] = 0 \/ extra < MaxExtra)
  /\ sent' = [sent EXCEPT ![s][j] = @ + 1]
  /\ extra' = IF sent[s][j] = 0 THEN extra ELSE extra + 1
  /\ IF Msg(s, j).seq = 0 THEN First(s, Msg(s, j)) ELSE Later(s, Msg(s, j))
  /\ UNCHANGED <<script, cur, out, got>>

Unblock ==
  /\ dmx = "blocked"
  /\ Len(st[blk.s].inq) < InputCap
  /\ st' = [st EXCEPT ![blk.s].inq = Append(@, blk.m)]
  /\ dmx' = "ok"
  /\ UNCHANGED <<script, sent, extra, cur, out, got, blk>>

(* stop(); createCtxPool(); processCommit(height) for the expected height *)
Commit ==
  /\ dmx = "ok" /\ cur < MaxHeight
  /\ cur' = cur + 1
  /\ st' = [s \in Streams |->
              IF st[s].reg = cur /\ Mut # "keeponcommit" THEN Fresh
              ELSE IF st[s].reg = cur + 1 THEN [st[s] EXCEPT !.run = "running"]
              ELSE st[s]]
  /\ UNCHANGED <<script, sent, extra, out, got, dmx, blk>>

-----------------------------------------------------------------------------
(* a stream's loop goroutine *)
Entry(s, p) == [s |-> s, prop |-> p, at |-> cur]

StreamStep(s) ==
  /\ st[s].run = "running" /\ st[s].inq # <<>>
  /\ LET x == [st[s] EXCEPT !.inq = Tail(@)]
         r == Process(x, Head(st[s].inq), cur) IN
     IF r.err THEN st' = [st EXCEPT ![s] = [r.x EXCEPT !.run = "dead"]] /\ UNCHANGED out
     ELSE IF r.give = NoProp THEN st' = [st EXCEPT ![s] = r.x] /\ UNCHANGED out
     ELSE IF Len(out) < OutCap
     THEN /\ out' = Append(out, Entry(s, r.give))
          /\ st' = [st EXCEPT ![s] = [r.x EXCEPT !.run = "running"]]
     ELSE st' = [st EXCEPT ![s] = [r.x EXCEPT !.run = "sending"]] /\ UNCHANGED out
  /\ UNCHANGED <<script, sent, extra, cur, got, dmx, blk>>

SendDone(s) ==
  /\ st[s].run = "sending" /\ Len(out) < OutCap
  /\ out' = Append(out, Entry(s, st[s].prop))
  /\ st' = [st EXCEPT ![s].run = "running"]
  /\ UNCHANGED <<script, sent, extra, cur, got, dmx, blk>>

Keep(q, p) == IF Len(q) < MaxGot THEN Append(q, p) ELSE q

DriverTake ==
  /\ out # <<>>
  /\ got' = [got EXCEPT ![Head(out).s] = Keep(@, Head(out).prop)]
  /\ out' = Tail(out)
  /\ UNCHANGED <<script, sent, extra, cur, st, dmx, blk>>

(* an unbuffered outputs channel: the read meets a blocked sender *)
DriverTakeFrom(s) ==
  /\ OutCap = 0 /\ st[s].run = "sending"
  /\ got' = [got EXCEPT ![s] = Keep(@, st[s].prop)]
  /\ st' = [st EXCEPT ![s].run = "running"]
  /\ UNCHANGED <<script, sent, extra, cur, out, dmx, blk>>

Next ==
  \/ \E s \in Streams : \E j \in DOMAIN script[s] : DemuxRecv(s, j)
  \/ Unblock
  \/ Commit
  \/ \E s \in Streams : StreamStep(s) \/ SendDone(s) \/ DriverTakeFrom(s)
  \/ DriverTake

Spec == Init /\ [][Next]_vars

(* fairness for the liveness properties: the network delivers every message at least once (a first
   delivery lowers the number of undelivered messages, so weak fairness of "some first delivery" is
   enough and keeps the number of fairness conjuncts small), every goroutine runs, the driver
   reads; commits are the environment's and are not forced *)
Fair ==
  /\ WF_vars(\E s \in Streams : \E j \in DOMAIN script[s] : sent[s][j] = 0 /\ DemuxRecv(s, j))
  /\ WF_vars(Unblock) /\ WF_vars(DriverTake)
  /\ \A s \in Streams : WF_vars(StreamStep(s)) /\ WF_vars(SendDone(s)) /\ WF_vars(DriverTakeFrom(s))
FairSpec == Spec /\ Fair

-----------------------------------------------------------------------------
(* PROPERTIES *)
Runs == {"no", "running", "dead", "sending"}
TypeOK ==
  /\ cur \in InitHeight..MaxHeight
  /\ dmx \in {"ok", "blocked", "crashed"}
  /\ \A s \in Streams : /\ st[s].run \in Runs /\ Len(st[s].inq) <= InputCap
                        /\ st[s].sm \in {"Initial", "AwaitInfo", "RecvTxs", "AwaitFin", "Fin", "Nil"}
  /\ Len(out) <= OutCap

Handed(s) == got[s] \o [i \in 1..Len(SelectSeq(out, LAMBDA e : e.s = s)) |-> SelectSeq(out, LAMBDA e : e.s = s)[i].prop]
                    \o (IF st[s].run = "sending" THEN <<st[s].prop>> ELSE <<>>)

(* a Proposal handed to the driver is one the stream MEANS: exactly the one the honest sender
   sent (value, round, valid round, proposer, height), none for a stream that violates the
   grammar, whatever arrives in whatever order with whatever else *)
DeliveredIsMeant == \A s \in Streams : \A i \in 1..Len(Handed(s)) : Handed(s)[i] \in GoodOf[script[s]]
BadStreamNeverDelivers == \A s \in Streams : GoodOf[script[s]] = {} => Handed(s) = <<>>
DeliveredEqualsSent == \A s \in Streams : HonestOf[script[s]] =>
                          \A i \in 1..Len(Handed(s)) : {Handed(s)[i]} = GoodOf[script[s]]

(* at most one Proposal per stream *)
AtMostOneProposalPerStream == \A s \in Streams : Len(Handed(s)) <= 1

(* a Proposal enters the outputs while the demux is at the Proposal's own height; a loop only runs
   at its stream's height (so the re-execution sits on the right parent) *)
NoDeliveryForPastHeight == \A i \in 1..Len(out) : out[i].prop.h = out[i].at
RunsAtOwnHeight == \A s \in Streams : st[s].run \in {"running", "sending"} => st[s].hdr.h = cur /\ st[s].reg = cur

(* a registered stream is one that started; deletion at a commit removes every trace *)
RegisteredStarted == \A s \in Streams : st[s].reg # 0 => st[s].started /\ st[s].reg = st[s].hdr.h /\ st[s].reg >= cur
FutureWaits == \A s \in Streams : st[s].reg > cur => st[s].run = "no"

(* nothing anybody publishes stops the demux goroutine *)
DemuxNeverStops == dmx # "crashed" /\ (dmx = "blocked" => st[blk.s].run \in {"running", "sending"})

(* memory: buffered out-of-order parts per stream; stream objects that no commit will ever remove *)
BufferBounded == \A s \in Streams : Cardinality(st[s].buf) <= BufBound
NoLeak == \A s \in Streams : st[s].ex => (st[s].reg >= cur \/ ~st[s].started)
NoLeakStrict == \A s \in Streams : st[s].ex => st[s].reg >= cur

(* liveness: if the node stays at a height, every honest stream of that height whose parts the
   network delivers reaches the driver -- whatever other streams do *)
HonestDelivered ==
  \A s \in Streams : (HonestOf[script[s]] /\ <>[](cur = HeightOf(script[s]))) => <>(got[s] # <<>>)
(* future heights are kept and delivered when the height is reached: implied by HonestDelivered
   for scripts above InitHeight *)

(* streams are independent: what a stream hands out depends on its own script only -- that is
   DeliveredIsMeant (safety) and HonestDelivered (progress) quantified over the other scripts *)
=============================================================================

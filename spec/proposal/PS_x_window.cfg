\* design limit of the repair: a window below the stream length loses an honest stream
CONSTANTS Streams <- MCStreams Choices <- ChXHon BadBatches <- MCBad InitHeight = 1 MaxHeight = 2
  InputCap = 4 OutCap = 1 MaxDup = 1 MaxExtra = 0 MaxGot = 2
  FixNilState = TRUE FixBlock = TRUE FixReFin = TRUE SeqWindow = 2 BufBound = 8 Mut = "none"
SPECIFICATION FairSpec
PROPERTIES HonestDelivered
CHECK_DEADLOCK FALSE

\* mutant: a stream of a future height runs at once
CONSTANTS Streams <- MCStreams Choices <- ChXHon BadBatches <- MCBad InitHeight = 1 MaxHeight = 2
  InputCap = 2 OutCap = 1 MaxDup = 1 MaxExtra = 0 MaxGot = 2
  FixNilState = TRUE FixBlock = TRUE FixReFin = TRUE SeqWindow = 8 BufBound = 8 Mut = "startearly"
INIT Init
NEXT Next
INVARIANTS FutureWaits
CHECK_DEADLOCK FALSE

------------------------------ MODULE Semaphore ------------------------------
(* G06 — migration/semaphore/resource_semaphore.go: resource semaphore of the migration pipelines
   (ingestors Get a write batch, the committer Puts the permit back after the commit).

   PROMISE (doc comment, quoted):
     "ResourceSemaphore manages concurrent access to resources by limiting the number of active
      operations using a semaphore."
   Get(ctx) = sem.Acquire(ctx, 1) then fn(); golang.org/x/sync/semaphore documents Acquire as
     "blocking until resources are available or ctx is done. On success, returns nil. On failure,
      returns ctx.Err() and leaves the semaphore unchanged."
   GetBlocking = Get(context.Background()) with the error dropped; Put = sem.Release(1).
   From the repository's test: the resource constructor fn never runs more than `concurrency`
   times without a Put in between; a Get with a cancelled context fails with context.Canceled.

   MODEL.  cur = permits held.  Per call of Get: Start ; TryAcquire (context already done ->
   fail, permit free -> take it, else wait) ; Grant (a waiter receives a freed permit; which one
   is left open) ; AfterGrant (x/sync re-checks the context after a grant and gives the permit
   back when it is done) ; CancelWait ; FnCall (the constructor runs, on the caller's goroutine,
   only while holding a permit) ; Return.  Put is anonymous (any goroutine may return a permit). *)
EXTENDS Integers, FiniteSets, TLC

CONSTANTS Size,      \* concurrency
          NCalls,    \* calls of Get (each id used once)
          MaxPuts    \* bound on Put calls (guard, not constraint)

Calls == 1..NCalls

VARIABLES cur, call, nfn, nput, nputok, putres
vars == <<cur, call, nfn, nput, nputok, putres>>

Idle == [pc |-> "idle", ctxc |-> FALSE, res |-> "none"]
Init == cur = 0 /\ call = [c \in Calls |-> Idle] /\ nfn = 0 /\ nput = 0 /\ nputok = 0 /\ putres = "none"

Set(c, f, v) == [call EXCEPT ![c] = [@ EXCEPT ![f] = v]]
At(S) == {c \in Calls : call[c].pc \in S}
Fail(c) == [call EXCEPT ![c] = [@ EXCEPT !.pc = "ret", !.res = "ctx"]]

Start(c) ==
  /\ call[c].pc = "idle" /\ \A d \in Calls : d < c => call[d].pc # "idle"
  /\ call' = Set(c, "pc", "acq") /\ UNCHANGED <<cur, nfn, nput, nputok, putres>>

TryAcquire(c) ==
  /\ call[c].pc = "acq"
  /\ IF call[c].ctxc THEN call' = Fail(c) /\ cur' = cur
     ELSE IF cur < Size /\ At({"wait"}) = {} THEN call' = Set(c, "pc", "fn") /\ cur' = cur + 1
     ELSE call' = Set(c, "pc", "wait") /\ cur' = cur
  /\ UNCHANGED <<nfn, nput, nputok, putres>>

Grant(c) ==
  /\ call[c].pc = "wait" /\ cur < Size
  /\ cur' = cur + 1 /\ call' = Set(c, "pc", "granted") /\ UNCHANGED <<nfn, nput, nputok, putres>>

AfterGrant(c) ==
  /\ call[c].pc = "granted"
  /\ IF call[c].ctxc THEN call' = Fail(c) /\ cur' = cur - 1
     ELSE call' = Set(c, "pc", "fn") /\ cur' = cur
  /\ UNCHANGED <<nfn, nput, nputok, putres>>

CancelWait(c) ==
  /\ call[c].pc = "wait" /\ call[c].ctxc
  /\ call' = Fail(c) /\ UNCHANGED <<cur, nfn, nput, nputok, putres>>

FnCall(c) ==
  /\ call[c].pc = "fn"
  /\ nfn' = nfn + 1 /\ call' = [call EXCEPT ![c] = [@ EXCEPT !.pc = "ret", !.res = "ok"]]
  /\ UNCHANGED <<cur, nput, nputok, putres>>

Return(c) == call[c].pc = "ret" /\ call' = Set(c, "pc", "done") /\ UNCHANGED <<cur, nfn, nput, nputok, putres>>

Cancel(c) == ~call[c].ctxc /\ call[c].pc # "done" /\ call' = Set(c, "ctxc", TRUE) /\ UNCHANGED <<cur, nfn, nput, nputok, putres>>

(* contract of the environment: a permit is put back only for a resource that was obtained
   (nputok < nfn).  A Put beyond that is a programming error outside the contract (x/sync panics
   with "semaphore: released more than held" AFTER having decremented its counter) — not modelled. *)
Put ==
  /\ nput < MaxPuts /\ nput' = nput + 1
  /\ nputok < nfn /\ cur' = cur - 1 /\ putres' = "ok" /\ nputok' = nputok + 1
  /\ UNCHANGED <<call, nfn>>

Internal(c) == TryAcquire(c) \/ Grant(c) \/ AfterGrant(c) \/ CancelWait(c) \/ FnCall(c) \/ Return(c)

Next == (\E c \in Calls : Start(c) \/ Internal(c) \/ Cancel(c)) \/ Put
Spec == Init /\ [][Next]_vars
FairSpec == Spec /\ \A c \in Calls : WF_vars(Internal(c))

--------------------------------------------------------------------------
Holding == At({"fn", "granted"})      \* took a permit, constructor not yet run
TypeOK == cur \in 0..Size /\ nfn \in 0..NCalls /\ nput \in 0..MaxPuts

(* "limiting the number of active operations": resources alive (constructed, permit not yet put
   back) never exceed the concurrency; permits are conserved *)
PermitsConserved == cur = Cardinality(Holding) + nfn - nputok
ResourcesBounded == cur <= Size
(* the constructor runs exactly once per successful Get and never for a failed one *)
FnOncePerSuccess == nfn = Cardinality({c \in Calls : call[c].res = "ok"})
FailedGetHoldsNothing == [][\A c \in Calls : (call[c].res # "ctx" /\ call'[c].res = "ctx") => cur' <= cur]_vars
(* a Get whose context is already done fails without touching the semaphore *)
CancelledGetFails == [][\A c \in Calls : (call[c].pc = "acq" /\ call[c].ctxc /\ call'[c].pc # "acq") => (call'[c].res = "ctx" /\ cur' = cur)]_vars
(* no barging past a free permit: a call only waits when there is no free permit or someone is already waiting *)
WaitOnlyWhenExhausted == [][\A c \in Calls : (call[c].pc = "acq" /\ call'[c].pc = "wait") => (cur = Size \/ At({"wait"}) # {})]_vars

(* LIVENESS: a freed permit does not stay unused while a Get waits; a cancelled waiter fails *)
NoIdlePermitWhileWaiting == <>[](cur < Size => At({"wait", "granted"}) = {})
CancelledWaiterFails == \A c \in Calls : (call[c].pc = "wait" /\ call[c].ctxc) ~> (call[c].pc # "wait")
=============================================================================

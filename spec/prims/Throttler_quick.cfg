\* exhaustive safety + deadlock: budget 2, queue 1, 4 calls with cancellation, error and panic outcomes
CONSTANTS N = 2 Q = 1 NCalls = 3 WithObs = FALSE
INIT Init
NEXT Next
INVARIANTS TypeOK AtMostNRunning SemIsHolders CntIsCounted AcceptedBound QueueBound RunsExactlyOnce Conservation
PROPERTIES RejectOnlyWhenFull AdmitWhenRoom CancelledNeverEnters
CHECK_DEADLOCK TRUE

CONSTANTS N = 1 Q = 1 NCalls = 3
SPECIFICATION FairSpec
INVARIANTS TypeOK
PROPERTIES EveryCallReturns
CHECK_DEADLOCK TRUE

CONSTANTS N = 1 Q = 1 NCalls = 3 WithObs = FALSE
SPECIFICATION FairSpec
INVARIANTS TypeOK
PROPERTIES EveryCallReturns
CHECK_DEADLOCK TRUE

\* exponential backoff 4,8,16,20(cap),20: two callers share the ladder, two calls each
CONSTANTS MaxRetries = 4 MinWait = 4 MaxWait = 20 Exp = TRUE Ladder <- MCLadder NCallers = 2 MaxGets = 2
INIT Init
NEXT Next
INVARIANTS TypeOK AttemptsBounded FailsOnlyAfterAllAttempts SucceedsOnFirst200 WaitIsFunctionOfAttempt WaitCapped
PROPERTIES NoAttemptAfterDone RetriesEverything CancelStopsRetries LadderMoves
CHECK_DEADLOCK FALSE

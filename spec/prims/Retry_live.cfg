CONSTANTS MaxRetries = 3 MinWait = 4 MaxWait = 20 Exp = TRUE Ladder <- MCLadder NCallers = 2 MaxGets = 1
SPECIFICATION FairSpec
INVARIANTS TypeOK
PROPERTIES GetReturns
CHECK_DEADLOCK FALSE

CONSTANTS Cap = 4 NSubs = 2 MaxSends = 7 NProd = 1
INIT Init
NEXT Next
VIEW view
INVARIANTS TypeOK StreamInOrder LagTruthful NoSpuriousLag CursorBehindTail WaitersAtTail
PROPERTIES LagIsOldest SubscribeAtTail ExitedIsFinal
CHECK_DEADLOCK FALSE

------------------------------ MODULE StagesMBT ------------------------------
(* Behaviour generation for the sequential replay of Stages.tla on the real utils/pipeline
   (FIFO = TRUE).  The harness owns the feeders (goroutines sending on the input channels), the
   consumers, the context and the call of Bridge; it acts only when every goroutine is blocked.
   Every behaviour ends with a SHUTDOWN the harness performs in this order: cancel the context,
   withdraw feeders that are still blocked, close every input, (the FanIn consumer reads until its
   channel is closed).  The last entry carries `leak`: the goroutines of the package that the
   specification says are still alive then — none with StageFix = TRUE.
   Not generated: cancelling while a Bridge select would find the context done AND its other case
   ready (Go then picks at random; both branches are in Stages.tla). *)
EXTENDS Stages, Json

CONSTANT MaxSteps
VARIABLES hist, steps, act, mode
R(S) == {RandomElement(S)}

Quiescent == ~ENABLED Internal

FeedPc(p) == ps[p].pc
Proj == [feed |-> [i \in Ins |-> [pc |-> ps[Feed(i)].pc, n |-> ps[Feed(i)].n, closed |-> closed[In(i)]]],
         consA |-> IF PartA THEN ps[ConsA].pc ELSE "-", gotA |-> consA,
         cfeed |-> IF NCh > 0 THEN [pc |-> ps[CFeed].pc, n |-> ps[CFeed].n, closed |-> closed[Cc]] ELSE [pc |-> "-", n |-> 0, closed |-> FALSE],
         ifeed |-> [j \in Chs |-> [pc |-> ps[IFeed(j)].pc, n |-> ps[IFeed(j)].n, closed |-> closed[Ic(j)]]],
         bridge |-> IF NCh > 0 THEN (IF ps[Brg].pc \in {"off", "ret"} THEN ps[Brg].pc ELSE "running") ELSE "-",
         consB |-> IF NCh > 0 THEN ps[ConsB].pc ELSE "-", gotB |-> consB,
         leak |-> {p \in JunoProcs : ~Ended(p)}]

(* the harness withdraws a feeder that is blocked in its send *)
Abort(p, c) ==
  /\ ps[p].pc = "psend"
  /\ ps' = [ps EXCEPT ![p] = [@ EXCEPT !.pc = "idle", !.val = NoVal]]
  /\ sq' = [sq EXCEPT ![c] = Drop(@, {p})] /\ rq' = rq /\ Same

BridgeQuietFor(c) == sq[c] = <<>> /\ ~closed[c]
CancelOK ==
  IF NCh = 0 THEN TRUE ELSE
  ps[Brg].pc \in {"off", "ret"}
  \/ (BridgeQuietFor(Cc) /\ (IF ps[Brg].cur = 0 THEN TRUE ELSE BridgeQuietFor(Ic(ps[Brg].cur))))

A(name, i) == act' = [name |-> name, i |-> i]
Harness ==
  \/ \E k \in 1..3, i \in Ins : FeedNext(i) /\ A("FeedNext", i)
  \/ \E i \in Ins : steps > 4 /\ CloseIn(i) /\ A("CloseIn", i)
  \/ \E k \in 1..3 : PartA /\ ConsRecv(ConsA, Fo) /\ A("ConsRecvA", 0)
  \/ steps > 5 /\ CancelOK /\ Cancel /\ A("Cancel", 0)
  \/ NCh > 0 /\ (~cancelled \/ BridgeQuietFor(Cc)) /\ BridgeCall /\ A("BridgeCall", 0)
  \/ NCh > 0 /\ CSendNext /\ A("CSendNext", 0)
  \/ NCh > 0 /\ steps > 6 /\ CloseCc /\ A("CloseCc", 0)
  \/ \E k \in 1..3, j \in Chs : IFeedNext(j) /\ A("IFeedNext", j)
  \/ \E j \in Chs : steps > 4 /\ CloseIc(j) /\ A("CloseIc", j)
  \/ \E k \in 1..3 : NCh > 0 /\ ConsRecv(ConsB, Bo) /\ A("ConsRecvB", 0)

(* the deterministic shutdown, one step at a time, lowest index first *)
Shutdown ==
  IF ~cancelled /\ CancelOK THEN Cancel /\ A("Cancel", 0)
  ELSE IF \E i \in Ins : ps[Feed(i)].pc = "psend"
       THEN LET i == CHOOSE i \in Ins : ps[Feed(i)].pc = "psend" IN Abort(Feed(i), In(i)) /\ A("AbortFeed", i)
  ELSE IF \E i \in Ins : ~closed[In(i)]
       THEN LET i == CHOOSE i \in Ins : ~closed[In(i)] IN CloseIn(i) /\ A("CloseIn", i)
  ELSE IF PartA /\ ps[ConsA].pc = "idle" THEN ConsRecv(ConsA, Fo) /\ A("ConsRecvA", 0)
  ELSE IF NCh > 0 /\ ps[CFeed].pc = "psend" THEN Abort(CFeed, Cc) /\ A("AbortCFeed", 0)
  ELSE IF NCh > 0 /\ ~closed[Cc] THEN CloseCc /\ A("CloseCc", 0)
  ELSE IF \E j \in Chs : ps[IFeed(j)].pc = "psend"
       THEN LET j == CHOOSE j \in Chs : ps[IFeed(j)].pc = "psend" IN Abort(IFeed(j), Ic(j)) /\ A("AbortIFeed", j)
  ELSE IF \E j \in Chs : ~closed[Ic(j)]
       THEN LET j == CHOOSE j \in Chs : ~closed[Ic(j)] IN CloseIc(j) /\ A("CloseIc", j)
  ELSE IF ~cancelled THEN Cancel /\ A("Cancel", 0)
  ELSE FALSE

MBTInit == Init /\ hist = <<>> /\ steps = 0 /\ act = [name |-> "Init"] /\ mode = "run"

Emit ==
  /\ PrintT(ToJson(Append(hist, [a |-> [name |-> "End", i |-> 0], pre |-> Proj])))
  /\ ps' = [p \in Procs |-> IF p[1] \in {"stage", "fwd"} THEN P0("loop") ELSE IF p = Brg THEN P0("off") ELSE P0("idle")]
  /\ sq' = [c \in Chans |-> <<>>] /\ rq' = [c \in Chans |-> <<>>]
  /\ closed' = [c \in Chans |-> FALSE] /\ cancelled' = FALSE /\ consA' = <<>> /\ consB' = <<>>
  /\ hist' = <<>> /\ steps' = 0 /\ act' = [name |-> "Init"] /\ mode' = "run"

MBTNext ==
  IF ~Quiescent THEN Internal /\ UNCHANGED <<hist, steps, act, mode>>
  ELSE IF mode = "run" /\ steps < MaxSteps /\ ENABLED Harness
       THEN Harness /\ steps' = steps + 1 /\ hist' = Append(hist, [a |-> act', pre |-> Proj]) /\ mode' = mode
  ELSE IF ENABLED Shutdown
       THEN Shutdown /\ steps' = steps + 1 /\ hist' = Append(hist, [a |-> act', pre |-> Proj]) /\ mode' = "shutdown"
  ELSE Emit
=============================================================================

\* degenerate shapes: no queue (WithMaxQueueLen(0)), budget 1
CONSTANTS N = 1 Q = 0 NCalls = 4 WithObs = FALSE
INIT Init
NEXT Next
INVARIANTS TypeOK AtMostNRunning SemIsHolders CntIsCounted AcceptedBound QueueBound RunsExactlyOnce Conservation
PROPERTIES RejectOnlyWhenFull AdmitWhenRoom CancelledNeverEnters
CHECK_DEADLOCK TRUE

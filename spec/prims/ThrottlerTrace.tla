---------------------------- MODULE ThrottlerTrace ----------------------------
(* Trace validation for the concurrent rounds of Throttler.tla.  Logged events (one global order):
     DoS c            before th.Do (ids are handed out in the order of these events)
     DoerS c / DoerE c o   inside the doer, at entry / just before it returns or panics
     DoE c res        after Do returned (res: nil | err | panic | busy | ctx)
     CancelS c / CancelE c   around the cancel function of call c's context
     QLenS / QLenE ql        around QueueLen();   RunS / RunE n   around JobsRunning()
   Silent steps placed by TLC: CheckCtx, Incr, Acquire, CancelWait, Release, Decr, the effect of a
   cancel, the two reads of QueueLen, the read of JobsRunning. *)
EXTENDS Throttler, Sequences, Json

VARIABLES l, pCancel, pQ, pRun, rreg
tvars == <<vars, l, pCancel, pQ, pRun, rreg>>
Trace == ndJsonDeserialize("trace.ndjson")

TraceInit == Init /\ l = 1 /\ pCancel = [c \in Calls |-> "none"] /\ pQ = "none" /\ pRun = "none" /\ rreg = 0
IsEvent(e) == l <= Len(Trace) /\ Trace[l].ev = e /\ l' = l + 1
Aux == <<pCancel, pQ, pRun, rreg>>

TReset ==
  /\ IsEvent("Reset")
  /\ cnt' = 0 /\ sem' = 0 /\ call' = [c \in Calls |-> Idle] /\ obs' = [pc |-> "idle", c |-> 0, ql |-> 0]
  /\ pCancel' = [c \in Calls |-> "none"] /\ pQ' = "none" /\ pRun' = "none" /\ rreg' = 0

TDoS   == IsEvent("DoS") /\ Start(Trace[l].c) /\ UNCHANGED Aux
TDoerS == IsEvent("DoerS") /\ DoerStart(Trace[l].c) /\ UNCHANGED Aux
TDoerE == IsEvent("DoerE") /\ DoerEnd(Trace[l].c, Trace[l].o) /\ UNCHANGED Aux
TDoE   == IsEvent("DoE") /\ call[Trace[l].c].res = Trace[l].res /\ Return(Trace[l].c) /\ UNCHANGED Aux

TCancelS ==
  /\ IsEvent("CancelS") /\ pCancel[Trace[l].c] = "none"
  /\ pCancel' = [pCancel EXCEPT ![Trace[l].c] = "started"] /\ UNCHANGED <<vars, pQ, pRun, rreg>>
LinCancel(c) ==
  /\ pCancel[c] = "started" /\ pCancel' = [pCancel EXCEPT ![c] = "applied"]
  /\ IF ~call[c].ctxc /\ call[c].pc # "done" THEN Cancel(c) ELSE UNCHANGED vars
  /\ UNCHANGED <<l, pQ, pRun, rreg>>
TCancelE ==
  /\ IsEvent("CancelE") /\ pCancel[Trace[l].c] = "applied"
  /\ pCancel' = [pCancel EXCEPT ![Trace[l].c] = "none"] /\ UNCHANGED <<vars, pQ, pRun, rreg>>

TQLenS == IsEvent("QLenS") /\ pQ = "none" /\ obs.pc = "idle" /\ pQ' = "started" /\ UNCHANGED <<vars, pCancel, pRun, rreg>>
LinQ1  == pQ = "started" /\ ObsReadCnt /\ pQ' = "cnt" /\ UNCHANGED <<l, pCancel, pRun, rreg>>
LinQ2  == pQ = "cnt" /\ ObsReadSem /\ pQ' = "applied" /\ UNCHANGED <<l, pCancel, pRun, rreg>>
(* the difference of the two reads; a tree that clamps a negative difference to 0 is accepted as well *)
TQLenE == IsEvent("QLenE") /\ pQ = "applied" /\ (obs.ql = Trace[l].ql \/ (obs.ql < 0 /\ Trace[l].ql = 0)) /\ pQ' = "none" /\ UNCHANGED <<vars, pCancel, pRun, rreg>>

TRunS  == IsEvent("RunS") /\ pRun = "none" /\ pRun' = "started" /\ UNCHANGED <<vars, pCancel, pQ, rreg>>
LinRun == pRun = "started" /\ pRun' = "applied" /\ rreg' = sem /\ UNCHANGED <<vars, l, pCancel, pQ>>
TRunE  == IsEvent("RunE") /\ pRun = "applied" /\ rreg = Trace[l].n /\ pRun' = "none" /\ UNCHANGED <<vars, pCancel, pQ, rreg>>

Silent(c) == (CheckCtx(c) \/ Incr(c) \/ Acquire(c) \/ CancelWait(c) \/ Release(c) \/ Decr(c)) /\ UNCHANGED <<l, pCancel, pQ, pRun, rreg>>

TraceNext ==
  \/ TReset \/ TDoS \/ TDoerS \/ TDoerE \/ TDoE \/ TCancelS \/ TCancelE \/ TQLenS \/ TQLenE \/ TRunS \/ TRunE
  \/ LinQ1 \/ LinQ2 \/ LinRun
  \/ \E c \in Calls : Silent(c) \/ LinCancel(c)

ASSUME TLCSet(1, 0)
HighWater == IF l > TLCGet(1) THEN TLCSet(1, l) ELSE TRUE
TraceConstraint == HighWater
TraceAccepted == IF TLCGet(1) = Len(Trace) + 1 THEN TRUE
                 ELSE PrintT(<<"HIGHWATER", TLCGet(1)>>) /\ FALSE
=============================================================================

CONSTANTS NIn = 2 NVals = 4 NCh = 2 FIFO = TRUE StageFix = TRUE PartA = TRUE MaxSteps = 45
INIT MBTInit
NEXT MBTNext
CHECK_DEADLOCK FALSE

---------------------------- MODULE SemaphoreMBT ----------------------------
(* Behaviour generation for the sequential replay of Semaphore.tla (pattern of ThrottlerMBT): the
   harness starts Get / GetBlocking calls on goroutines of its own, cancels contexts and Puts
   permits back, each at a quiescent point; recorded are the action (with the result of a Put)
   and the projection BEFORE it.  Freed permits are granted to the longest waiting call here (what
   x/sync does); the replayer tolerates another grant order among indistinguishable waiters. *)
EXTENDS Semaphore, Sequences, Json

CONSTANT MaxSteps
VARIABLES hist, steps, act, blk
R(S) == {RandomElement(S)}

Waiters == At({"wait"})
FirstWaiter == IF Waiters = {} THEN 0 ELSE CHOOSE c \in Waiters : \A d \in Waiters : c <= d
Enabled(c) ==
  \/ call[c].pc \in {"acq", "granted", "fn", "ret"}
  \/ call[c].pc = "wait" /\ (call[c].ctxc \/ (cur < Size /\ c = FirstWaiter))
Quiescent == \A c \in Calls : ~Enabled(c)
InternalStep == \E c \in Calls :
   \/ TryAcquire(c) \/ AfterGrant(c) \/ CancelWait(c) \/ FnCall(c) \/ Return(c)
   \/ (c = FirstWaiter /\ Grant(c))

StName(c) == CASE call[c].pc = "idle" -> "idle"
               [] call[c].pc = "wait" -> "waiting"
               [] call[c].pc = "done" -> call[c].res
               [] OTHER -> "busy?"
Proj == [st |-> [c \in Calls |-> StName(c)], nfn |-> nfn]

NextId == IF \E c \in Calls : call[c].pc = "idle" THEN CHOOSE c \in Calls : call[c].pc = "idle" /\ \A d \in Calls : d < c => call[d].pc # "idle" ELSE 0

Harness ==
  \/ \E i \in 1..2, b \in BOOLEAN :
        /\ NextId # 0 /\ (b => ~call[NextId].ctxc) /\ Start(NextId)
        /\ blk' = (IF b THEN blk \cup {NextId} ELSE blk)
        /\ act' = [name |-> "Start", c |-> NextId, blocking |-> b, res |-> "-"]
  \/ NextId # 0 /\ Cancel(NextId) /\ blk' = blk /\ act' = [name |-> "Cancel", c |-> NextId, blocking |-> FALSE, res |-> "-"]
  \/ \E c \in Calls : call[c].pc = "wait" /\ c \notin blk /\ Cancel(c) /\ blk' = blk
        /\ act' = [name |-> "Cancel", c |-> c, blocking |-> FALSE, res |-> "-"]
  \/ \E i \in 1..3 : Put /\ blk' = blk /\ act' = [name |-> "Put", c |-> 0, blocking |-> FALSE, res |-> putres']

MBTInit == Init /\ hist = <<>> /\ steps = 0 /\ act = [name |-> "Init"] /\ blk = {}

Emit ==
  /\ PrintT(ToJson(Append(hist, [a |-> [name |-> "End", c |-> 0, blocking |-> FALSE, res |-> "-"], pre |-> Proj])))
  /\ cur' = 0 /\ call' = [c \in Calls |-> Idle] /\ nfn' = 0 /\ nput' = 0 /\ nputok' = 0 /\ putres' = "none"
  /\ hist' = <<>> /\ steps' = 0 /\ act' = [name |-> "Init"] /\ blk' = {}

MBTNext ==
  IF ~Quiescent THEN InternalStep /\ UNCHANGED <<hist, steps, act, blk>>
  ELSE IF steps >= MaxSteps \/ ~ENABLED Harness THEN Emit
  ELSE Harness /\ steps' = steps + 1 /\ hist' = Append(hist, [a |-> act', pre |-> Proj])
=============================================================================

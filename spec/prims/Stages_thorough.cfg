\* part A, repaired Stage: 2 inputs x 2 values
CONSTANTS NIn = 2 NVals = 2 NCh = 0 FIFO = FALSE StageFix = TRUE PartA = TRUE
INIT Init
NEXT Next
INVARIANTS TypeOK OrderPerInput NoGapUnlessCancelled FanInClosedLast NobodyParkedOnClosed CompleteWithoutCancel
CHECK_DEADLOCK TRUE

CONSTANTS Size = 2 NCalls = 4 MaxPuts = 4
INIT Init
NEXT Next
INVARIANTS TypeOK PermitsConserved ResourcesBounded FnOncePerSuccess
PROPERTIES FailedGetHoldsNothing CancelledGetFails WaitOnlyWhenExhausted
CHECK_DEADLOCK FALSE

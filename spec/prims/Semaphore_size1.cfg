CONSTANTS Size = 1 NCalls = 4 MaxPuts = 5
INIT Init
NEXT Next
INVARIANTS TypeOK PermitsConserved ResourcesBounded FnOncePerSuccess
PROPERTIES FailedGetHoldsNothing CancelledGetFails WaitOnlyWhenExhausted
CHECK_DEADLOCK FALSE

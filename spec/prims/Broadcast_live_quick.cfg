\* liveness under fairness, small (quick tier)
CONSTANTS Cap = 2 NSubs = 1 MaxSends = 4 NProd = 1
SPECIFICATION FairSpec
INVARIANTS TypeOK
PROPERTIES UnsubscribeExits CloseExits CatchesUp SendClosedIffDone
CHECK_DEADLOCK FALSE

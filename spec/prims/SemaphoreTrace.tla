---------------------------- MODULE SemaphoreTrace ----------------------------
(* Trace validation for the concurrent rounds of Semaphore.tla.  Events (one global order):
     GetS c | Fn (inside the resource constructor; anonymous) | GetE c res (ok | ctx) |
     PutS / PutE | CancelS c / CancelE c
   Silent: TryAcquire, Grant, AfterGrant, CancelWait, the effect of Put and of a cancel. *)
EXTENDS Semaphore, Sequences, Json

VARIABLES l, pCancel, pPut
tvars == <<vars, l, pCancel, pPut>>
Trace == ndJsonDeserialize("trace.ndjson")
NT == 8   \* harness threads that Put

TraceInit == Init /\ l = 1 /\ pCancel = [c \in Calls |-> "none"] /\ pPut = [t \in 1..NT |-> "none"]
IsEvent(e) == l <= Len(Trace) /\ Trace[l].ev = e /\ l' = l + 1

TReset ==
  /\ IsEvent("Reset")
  /\ cur' = 0 /\ call' = [c \in Calls |-> Idle] /\ nfn' = 0 /\ nput' = 0 /\ nputok' = 0 /\ putres' = "none"
  /\ pCancel' = [c \in Calls |-> "none"] /\ pPut' = [t \in 1..NT |-> "none"]

TGetS == IsEvent("GetS") /\ Start(Trace[l].c) /\ UNCHANGED <<pCancel, pPut>>
TFn   == IsEvent("Fn") /\ (\E c \in Calls : FnCall(c)) /\ UNCHANGED <<pCancel, pPut>>
TGetE == IsEvent("GetE") /\ call[Trace[l].c].res = Trace[l].res /\ Return(Trace[l].c) /\ UNCHANGED <<pCancel, pPut>>

TPutS == IsEvent("PutS") /\ pPut[Trace[l].t] = "none" /\ pPut' = [pPut EXCEPT ![Trace[l].t] = "started"] /\ UNCHANGED <<vars, pCancel>>
LinPut(t) == pPut[t] = "started" /\ Put /\ putres' = "ok" /\ pPut' = [pPut EXCEPT ![t] = "applied"] /\ UNCHANGED <<l, pCancel>>
TPutE == IsEvent("PutE") /\ pPut[Trace[l].t] = "applied" /\ pPut' = [pPut EXCEPT ![Trace[l].t] = "none"] /\ UNCHANGED <<vars, pCancel>>

TCancelS == IsEvent("CancelS") /\ pCancel[Trace[l].c] = "none" /\ pCancel' = [pCancel EXCEPT ![Trace[l].c] = "started"] /\ UNCHANGED <<vars, pPut>>
LinCancel(c) ==
  /\ pCancel[c] = "started" /\ pCancel' = [pCancel EXCEPT ![c] = "applied"]
  /\ IF ~call[c].ctxc /\ call[c].pc # "done" THEN Cancel(c) ELSE UNCHANGED vars
  /\ UNCHANGED <<l, pPut>>
TCancelE == IsEvent("CancelE") /\ pCancel[Trace[l].c] = "applied" /\ pCancel' = [pCancel EXCEPT ![Trace[l].c] = "none"] /\ UNCHANGED <<vars, pPut>>

Silent(c) == (TryAcquire(c) \/ Grant(c) \/ AfterGrant(c) \/ CancelWait(c)) /\ UNCHANGED <<l, pCancel, pPut>>

TraceNext ==
  \/ TReset \/ TGetS \/ TFn \/ TGetE \/ TPutS \/ TPutE \/ TCancelS \/ TCancelE
  \/ \E c \in Calls : Silent(c) \/ LinCancel(c)
  \/ \E t \in 1..NT : LinPut(t)

ASSUME TLCSet(1, 0)
HighWater == IF l > TLCGet(1) THEN TLCSet(1, l) ELSE TRUE
TraceConstraint == HighWater
TraceAccepted == IF TLCGet(1) = Len(Trace) + 1 THEN TRUE
                 ELSE PrintT(<<"HIGHWATER", TLCGet(1)>>) /\ FALSE
=============================================================================

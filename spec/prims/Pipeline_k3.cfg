\* 3 stages x 1 worker, 3 items, any serving order of parked goroutines
CONSTANTS NItems = 3 K = 3 W = 1 FIFO = FALSE MaxFails = 2
INIT Init
NEXT Next
INVARIANTS TypeOK RunAtMostOnce StagesInOrder ConsumedOnce DoneAtMostOnce NoRunAfterDone DoneAfterInputClosed CloseAfterWorkers NobodyParkedOnClosed RunErrorCancels CancelledSourceNotParked IsDoneMeansExhausted EndNothingDropped EndAllDone EndErrIffFailure EndIsDone Completeness
CHECK_DEADLOCK TRUE

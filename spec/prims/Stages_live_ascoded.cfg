\* liveness, Stage as coded (expected violation): 1 input x 2 values
CONSTANTS NIn = 1 NVals = 2 NCh = 0 FIFO = FALSE StageFix = FALSE PartA = TRUE
SPECIFICATION FairSpec
INVARIANTS TypeOK
PROPERTIES EverythingEnds
CHECK_DEADLOCK FALSE

-------------------------------- MODULE Retry --------------------------------
(* G06 — clients/feeder/feeder.go, Client.get: the retry / backoff / timeout loop behind every
   feeder-gateway read (sync, pre-confirmed polling, class and trace fetches).

   PROMISE (comments and options, quoted):
     get: "performs a "GET" http request with the given URL and returns the response body"
     NewClient defaults: "maxRetries: 10, // ~20s with default backoff and maxWait";
        backoff ExponentialBackoff (wait * 2), NopBackoff (0); minWait 500ms; maxWait 2s
     timeouts.go: "adaptive timeout management for HTTP requests ... automatically scaling
        timeouts up or down depending on success/failure rates"
   From the code and the repository's tests (TestHttpError, TestBackoffFailure,
   TestClientRetryBehavior): a call makes at most maxRetries+1 attempts and exactly that many when
   every attempt fails; it stops at the first 200; EVERY other status (also 400, 404) and every
   transport error (timeout, dropped connection) is retried; the last error is returned; before
   attempt k the loop waits w(k): w(1) = 0 and
        w(k+1) = minWait                       if w(k) < minWait
               = min(backoff(w(k)), maxWait)   otherwise        — per call, never carried over;
   while waiting a cancelled context ends the call at once with ctx.Err(); the per-attempt HTTP
   timeout is ladder[idx]; idx is shared by all calls of the client, moves up (capped) after
   every failure except 429 and 400, and down (floored) after every success.

   MODEL.  Waits and timeouts are in abstract ticks.  One call at a time per caller, NCallers callers share idx.  Actions: StartGet ; TimerFires (the wait elapsed)
   | CtxAbort (select on ctx.Done) ; Respond(o) with the server's / transport's outcome
   o \in {"200","429","400","5xx","drop","timeout","cancelled"} ; Cancel.  "timeout" means the
   per-attempt timeout ladder[idx] expired.  A context that is already done when the loop
   selects with w = 0 races with the expired timer (either branch), as in Go.                *)
EXTENDS Integers, Sequences, FiniteSets, TLC

CONSTANTS MaxRetries, MinWait, MaxWait,
          Exp,        \* TRUE: ExponentialBackoff, FALSE: NopBackoff
          Ladder,     \* sequence of per-attempt timeouts (ticks), ascending
          NCallers, MaxGets

Callers == 1..NCallers
Outcomes == {"200", "429", "400", "5xx", "drop", "timeout", "cancelled"}
Min2(a, b) == IF a < b THEN a ELSE b
Max2(a, b) == IF a > b THEN a ELSE b
Backoff(w) == IF Exp THEN 2 * w ELSE 0
NextWait(w) == IF w < MinWait THEN MinWait ELSE Min2(Backoff(w), MaxWait)
RECURSIVE WaitBefore(_)
WaitBefore(k) == IF k <= 1 THEN 0 ELSE NextWait(WaitBefore(k - 1))   \* wait before attempt k

VARIABLES idx,     \* Timeouts.curTimeout (0-based), shared
          g        \* [Callers -> [pc, attempt, wait, ctxc, res, last, gets]]
vars == <<idx, g>>

Idle == [pc |-> "idle", attempt |-> 0, wait |-> 0, ctxc |-> FALSE, res |-> "none", last |-> "none", gets |-> 0]
Init == idx = 0 /\ g = [c \in Callers |-> Idle]

(* a new call of get(): fresh wait, fresh attempt counter; pre = the context is already done *)
StartGet(c, pre) ==
  /\ g[c].pc \in {"idle", "done"} /\ g[c].gets < MaxGets
  /\ g' = [g EXCEPT ![c] = [Idle EXCEPT !.pc = "select", !.gets = g[c].gets + 1, !.ctxc = pre]]
  /\ UNCHANGED idx

(* time.After(wait) fires; the request of attempt+1 goes out *)
TimerFires(c) ==
  /\ g[c].pc = "select" /\ (g[c].ctxc => g[c].wait = 0)
  /\ g' = [g EXCEPT ![c] = [@ EXCEPT !.pc = "req", !.attempt = @ + 1]]
  /\ UNCHANGED idx

CtxAbort(c) ==
  /\ g[c].pc = "select" /\ g[c].ctxc
  /\ g' = [g EXCEPT ![c] = [@ EXCEPT !.pc = "done", !.res = "ctx"]]
  /\ UNCHANGED idx

Respond(c, o) ==
  /\ g[c].pc = "req"
  /\ (o = "cancelled") = g[c].ctxc       \* a cancelled context fails the attempt; nothing else does so
  /\ IF o = "200"
     THEN /\ idx' = Max2(idx - 1, 0)
          /\ g' = [g EXCEPT ![c] = [@ EXCEPT !.pc = "done", !.res = "ok", !.last = o]]
     ELSE /\ idx' = IF o \in {"429", "400"} THEN idx ELSE Min2(idx + 1, Len(Ladder) - 1)
          /\ g' = [g EXCEPT ![c] = [@ EXCEPT !.wait = NextWait(@), !.last = o,
                                     !.pc = IF g[c].attempt = MaxRetries + 1 THEN "done" ELSE "select",
                                     !.res = IF g[c].attempt = MaxRetries + 1 THEN "err" ELSE "none"]]

Cancel(c) ==
  /\ g[c].pc \in {"select", "req"} /\ ~g[c].ctxc
  /\ g' = [g EXCEPT ![c].ctxc = TRUE] /\ UNCHANGED idx

Next == \E c \in Callers : StartGet(c, TRUE) \/ StartGet(c, FALSE) \/ TimerFires(c) \/ CtxAbort(c) \/ Cancel(c) \/ \E o \in Outcomes : Respond(c, o)
Spec == Init /\ [][Next]_vars
FairSpec == Spec /\ \A c \in Callers : WF_vars(TimerFires(c) \/ CtxAbort(c)) /\ WF_vars(\E o \in Outcomes : Respond(c, o))

--------------------------------------------------------------------------
TypeOK == idx \in 0..(Len(Ladder) - 1) /\ \A c \in Callers : g[c].attempt \in 0..(MaxRetries + 1)

(* number of attempts *)
AttemptsBounded == \A c \in Callers : g[c].attempt <= MaxRetries + 1
FailsOnlyAfterAllAttempts == \A c \in Callers : g[c].res = "err" => (g[c].attempt = MaxRetries + 1 /\ g[c].last # "200")
SucceedsOnFirst200 == \A c \in Callers : (g[c].res = "ok") = (g[c].pc = "done" /\ g[c].last = "200")
NoAttemptAfterDone == [][\A c \in Callers : g[c].pc = "done" /\ g'[c].pc = "done" => g'[c].attempt = g[c].attempt]_vars

(* backoff growth and cap, reset per call: the wait in force is a function of the attempt number *)
WaitIsFunctionOfAttempt ==
  \A c \in Callers : g[c].pc \in {"select", "req"} =>
     g[c].wait = WaitBefore(IF g[c].pc = "select" THEN g[c].attempt + 1 ELSE g[c].attempt)
WaitCapped == \A c \in Callers : g[c].wait <= Max2(MinWait, MaxWait)

(* every non-200 outcome is retried while attempts remain *)
RetriesEverything == [][\A c \in Callers : (g[c].pc = "req" /\ g'[c].pc # "req" /\ g'[c].last # "200" /\ g[c].attempt <= MaxRetries) => g'[c].pc = "select"]_vars

(* stops on context cancel: once the context is done and a positive wait is pending no further
   request is made *)
CancelStopsRetries == [][\A c \in Callers : (g[c].pc = "select" /\ g[c].ctxc /\ g[c].wait > 0) => g'[c].pc # "req"]_vars

(* the adaptive timeout ladder: up after a failure that is not 429/400 (capped), down after 200 *)
LadderMoves ==
  [][\A c \in Callers : (g[c].pc = "req" /\ g'[c].pc # "req") =>
        idx' = CASE g'[c].last = "200" -> Max2(idx - 1, 0)
                 [] g'[c].last \in {"429", "400"} -> idx
                 [] OTHER -> Min2(idx + 1, Len(Ladder) - 1)]_vars

(* LIVENESS: every call of get returns *)
GetReturns == \A c \in Callers : (g[c].pc = "select") ~> (g[c].pc = "done")
=============================================================================

\* 2 stages x 2 workers, 2 items, any serving order of parked goroutines
CONSTANTS NItems = 2 K = 2 W = 2 FIFO = FALSE MaxFails = 2
INIT Init
NEXT Next
INVARIANTS TypeOK RunAtMostOnce StagesInOrder ConsumedOnce DoneAtMostOnce NoRunAfterDone DoneAfterInputClosed CloseAfterWorkers NobodyParkedOnClosed RunErrorCancels CancelledSourceNotParked IsDoneMeansExhausted EndNothingDropped EndAllDone EndErrIffFailure EndIsDone Completeness
CHECK_DEADLOCK TRUE

-------------------------------- MODULE Stages --------------------------------
(* G06 — utils/pipeline/pipeline.go: the channel combinators Stage, FanIn and Bridge (p2p sync's
   ProcessBlock is  Bridge(ctx, outputs, process(FanIn(ctx, Stage(ctx, ch, f) x 5)))).
   The package has no doc comments.  What its code and test promise:
     Stage(ctx, in, f)   a goroutine sends f(v) on the returned channel for every v received from
                         `in`, in order; closes the channel when `in` is closed or, checked before
                         every send, ctx is done; a nil `in` yields a closed channel;
     FanIn(ctx, chs...)  one goroutine per input forwards its values (per-input order kept) until
                         that input is closed or ctx is done ("select { case <-ctx.Done(): return;
                         case out <- i: }"); out is closed after all forwarders returned; nil inputs
                         are ignored;
     Bridge(ctx, out, chanCh)  called synchronously: forwards to out all values of the channels
                         received from chanCh, one channel after the other, in order; returns when
                         chanCh is closed or ctx is done; never closes out;
   test "sort numbers in pipeline": Stage(FanIn(...)) then Bridge deliver 0..9 in order.
   The promise checked here: every value is forwarded at most once, in order (per input for FanIn,
   per channel and channel order for Bridge), completely when nothing is cancelled; closing
   cascades; after cancellation every goroutine of the package ends as soon as its producer stops
   (closes its channel) — nothing stays blocked for ever.

   MODEL.  Go channel semantics exactly as in Pipeline.tla: parked senders / receivers per
   channel (sq / rq), the second to arrive completes the rendezvous, close wakes receivers, a
   parked select is resolved by the first event, an arriving select with two ready cases takes
   either.  FIFO as in Pipeline.tla.
   Part A (NIn inputs):  feeder i --in[i]--> Stage i --so[i]--> forwarder i --fo--> consumer
   Part B:  chanCh feeder, inner-channel feeders --> Bridge --bo--> consumer.
   Feeders and consumers are the environment (the harness).

   StageFix = FALSE is the code as it is: Stage's send "out <- f(v)" is NOT in a select with
   ctx.Done().  When the downstream forwarder has returned because of the cancellation, a Stage
   that already holds a value blocks on that send for ever (goroutine and value leak; found by
   TLC as a violated StagesEndAfterCancel / a deadlock, reproduced on the real code).
   StageFix = TRUE: the send is "select { case <-ctx.Done(): return; case out <- f(v): }".   *)
EXTENDS Integers, Sequences, FiniteSets, TLC

CONSTANTS NIn, NVals,     \* part A: inputs, values per input
          NCh,            \* part B: inner channels (NVals values each); 0 switches part B off
          FIFO, StageFix,
          PartA           \* BOOLEAN: part A present

Ins == IF PartA THEN 1..NIn ELSE {}
Chs == 1..NCh
(* process ids *)
Feed(i)  == <<"feed", i>>
Stg(i)   == <<"stage", i>>
Fwd(i)   == <<"fwd", i>>
ConsA    == <<"cons", 0>>
CFeed    == <<"cfeed", 0>>
IFeed(j) == <<"ifeed", j>>
Brg      == <<"bridge", 0>>
ConsB    == <<"consb", 0>>
ProcsA == {Feed(i) : i \in Ins} \cup {Stg(i) : i \in Ins} \cup {Fwd(i) : i \in Ins} \cup (IF PartA THEN {ConsA} ELSE {})
ProcsB == IF NCh > 0 THEN {CFeed, Brg, ConsB} \cup {IFeed(j) : j \in Chs} ELSE {}
Procs == ProcsA \cup ProcsB
(* channel ids *)
In(i) == <<"in", i>>
So(i) == <<"so", i>>
Fo    == <<"fo", 0>>
Cc    == <<"cc", 0>>
Ic(j) == <<"ic", j>>
Bo    == <<"bo", 0>>
Chans == {In(i) : i \in Ins} \cup {So(i) : i \in Ins} \cup (IF PartA THEN {Fo} ELSE {})
         \cup (IF NCh > 0 THEN {Cc, Bo} \cup {Ic(j) : j \in Chs} ELSE {})

VARIABLES ps,          \* [Procs -> [pc, val, n, cur]]
          sq, rq, closed, cancelled,
          consA, consB  \* what the two consumers received
vars == <<ps, sq, rq, closed, cancelled, consA, consB>>

NoVal == <<0, 0>>
P0(pc) == [pc |-> pc, val |-> NoVal, n |-> 0, cur |-> 0, sel |-> FALSE, ph |-> "-"]

Init ==
  /\ ps = [p \in Procs |-> IF p[1] \in {"stage", "fwd"} THEN P0("loop")
                           ELSE IF p = Brg THEN P0("off") ELSE P0("idle")]
  /\ sq = [c \in Chans |-> <<>>] /\ rq = [c \in Chans |-> <<>>]
  /\ closed = [c \in Chans |-> FALSE] /\ cancelled = FALSE /\ consA = <<>> /\ consB = <<>>

(* ---- channel mechanics (as Pipeline.tla; "sel" marks a goroutine parked in a select with ctx.Done) *)
Pick(q) == IF FIFO THEN {1} ELSE 1..Len(q)
Remove(q, i) == SubSeq(q, 1, i - 1) \o SubSeq(q, i + 1, Len(q))
Got(f, r, v)  == [f EXCEPT ![r] = [@ EXCEPT !.pc = "has", !.val = v, !.sel = FALSE]]
SawClosed(f, r) == [f EXCEPT ![r] = [@ EXCEPT !.pc = "sawclosed", !.sel = FALSE]]
Sent(f, s)    == [f EXCEPT ![s] = [@ EXCEPT !.pc = "sent", !.val = NoVal, !.sel = FALSE]]

ArriveSend(f, s, c, v, sel) ==
  IF rq[c] # <<>>
  THEN \E i \in Pick(rq[c]) :
         /\ ps' = Sent(Got(f, rq[c][i], v), s)
         /\ rq' = [rq EXCEPT ![c] = Remove(@, i)] /\ sq' = sq
  ELSE /\ ps' = [f EXCEPT ![s] = [@ EXCEPT !.pc = "psend", !.val = v, !.sel = sel]]
       /\ sq' = [sq EXCEPT ![c] = Append(@, s)] /\ rq' = rq
ArriveRecv(f, r, c, sel) ==
  IF sq[c] # <<>>
  THEN \E i \in Pick(sq[c]) :
         LET s == sq[c][i] IN
         /\ ps' = Sent(Got(f, r, f[s].val), s)
         /\ sq' = [sq EXCEPT ![c] = Remove(@, i)] /\ rq' = rq
  ELSE IF closed[c] THEN ps' = SawClosed(f, r) /\ UNCHANGED <<sq, rq>>
  ELSE /\ ps' = [f EXCEPT ![r] = [@ EXCEPT !.pc = "precv", !.sel = sel]]
       /\ rq' = [rq EXCEPT ![c] = Append(@, r)] /\ sq' = sq
(* a select on {ctx.Done, op}: ctx already done -> that branch may be taken; op ready -> op *)
SelSend(f, s, c, v) ==
  \/ cancelled /\ ps' = [f EXCEPT ![s] = [@ EXCEPT !.pc = "ctxdone", !.val = NoVal]] /\ UNCHANGED <<sq, rq>>
  \/ (~cancelled \/ rq[c] # <<>>) /\ ArriveSend(f, s, c, v, TRUE)
SelRecv(f, r, c) ==
  \/ cancelled /\ ps' = [f EXCEPT ![r] = [@ EXCEPT !.pc = "ctxdone"]] /\ UNCHANGED <<sq, rq>>
  \/ (~cancelled \/ sq[c] # <<>> \/ closed[c]) /\ ArriveRecv(f, r, c, TRUE)

CloseCh(f, c) ==
  /\ closed' = [closed EXCEPT ![c] = TRUE]
  /\ ps' = [p \in Procs |-> IF \E i \in 1..Len(rq[c]) : rq[c][i] = p THEN SawClosed(f, p)[p] ELSE f[p]]
  /\ rq' = [rq EXCEPT ![c] = <<>>] /\ sq' = sq

Drop(q, S) == SelectSeq(q, LAMBDA p : p \notin S)
Cancel ==
  /\ ~cancelled /\ cancelled' = TRUE
  /\ LET S == {p \in Procs : ps[p].pc \in {"psend", "precv"} /\ ps[p].sel} IN
     /\ ps' = [p \in Procs |-> IF p \in S THEN [ps[p] EXCEPT !.pc = "ctxdone", !.val = NoVal, !.sel = FALSE] ELSE ps[p]]
     /\ sq' = [c \in Chans |-> Drop(sq[c], S)] /\ rq' = [c \in Chans |-> Drop(rq[c], S)]
  /\ UNCHANGED <<closed, consA, consB>>

Same == UNCHANGED <<closed, cancelled, consA, consB>>

(* ---- part A: feeders (environment) ---------------------------------------------------------- *)
FeedNext(i) ==
  /\ ps[Feed(i)].pc = "idle" /\ ps[Feed(i)].n < NVals /\ ~closed[In(i)]
  /\ ArriveSend([ps EXCEPT ![Feed(i)] = [@ EXCEPT !.n = @ + 1]], Feed(i), In(i), <<i, ps[Feed(i)].n + 1>>, FALSE) /\ Same
FeedSent(i) == ps[Feed(i)].pc = "sent" /\ ps' = [ps EXCEPT ![Feed(i)] = [@ EXCEPT !.pc = "idle"]] /\ UNCHANGED <<sq, rq>> /\ Same
CloseIn(i) ==
  /\ ps[Feed(i)].pc = "idle" /\ ~closed[In(i)] /\ CloseCh(ps, In(i)) /\ UNCHANGED <<cancelled, consA, consB>>

(* ---- Stage i -------------------------------------------------------------------------------- *)
StageLoop(i) == ps[Stg(i)].pc = "loop" /\ ArriveRecv(ps, Stg(i), In(i), FALSE) /\ Same
(* "select { case <-ctx.Done(): return; default: ..." *)
StageCheck(i) ==
  /\ ps[Stg(i)].pc = "has"
  /\ ps' = [ps EXCEPT ![Stg(i)] = [@ EXCEPT !.pc = IF cancelled THEN "closing" ELSE "sending"]]
  /\ UNCHANGED <<sq, rq>> /\ Same
(* "out <- f(v)" — as coded a plain send; repaired: in a select with ctx.Done() *)
StageSend(i) ==
  /\ ps[Stg(i)].pc = "sending"
  /\ IF StageFix THEN SelSend(ps, Stg(i), So(i), ps[Stg(i)].val)
                 ELSE ArriveSend(ps, Stg(i), So(i), ps[Stg(i)].val, FALSE)
  /\ Same
StageNext(i) ==
  /\ ps[Stg(i)].pc \in {"sent", "sawclosed", "ctxdone"}
  /\ ps' = [ps EXCEPT ![Stg(i)] = [@ EXCEPT !.pc = IF ps[Stg(i)].pc = "sent" THEN "loop" ELSE "closing"]]
  /\ UNCHANGED <<sq, rq>> /\ Same
StageClose(i) ==
  /\ ps[Stg(i)].pc = "closing"
  /\ CloseCh([ps EXCEPT ![Stg(i)] = [@ EXCEPT !.pc = "exit", !.val = NoVal]], So(i)) /\ UNCHANGED <<cancelled, consA, consB>>

(* ---- FanIn forwarder i and the closer --------------------------------------------------------- *)
FwdLoop(i) == ps[Fwd(i)].pc = "loop" /\ ArriveRecv(ps, Fwd(i), So(i), FALSE) /\ Same
FwdSelect(i) == ps[Fwd(i)].pc = "has" /\ SelSend(ps, Fwd(i), Fo, ps[Fwd(i)].val) /\ Same
FwdNext(i) ==
  /\ ps[Fwd(i)].pc \in {"sent", "sawclosed", "ctxdone"}
  /\ ps' = [ps EXCEPT ![Fwd(i)] = [@ EXCEPT !.pc = IF ps[Fwd(i)].pc = "sent" THEN "loop" ELSE "exit", !.val = NoVal]]
  /\ UNCHANGED <<sq, rq>> /\ Same
FanInClose ==
  /\ PartA /\ ~closed[Fo] /\ \A i \in Ins : ps[Fwd(i)].pc = "exit"
  /\ CloseCh(ps, Fo) /\ UNCHANGED <<cancelled, consA, consB>>

(* ---- consumers (environment) ---------------------------------------------------------------- *)
ConsRecv(c, ch) == ps[c].pc = "idle" /\ ArriveRecv(ps, c, ch, FALSE) /\ Same
ConsTake(c) ==
  /\ ps[c].pc = "has"
  /\ ps' = [ps EXCEPT ![c] = [@ EXCEPT !.pc = "idle", !.val = NoVal]]
  /\ IF c = ConsA THEN consA' = Append(consA, ps[c].val) /\ consB' = consB
                  ELSE consB' = Append(consB, ps[c].val) /\ consA' = consA
  /\ UNCHANGED <<sq, rq, closed, cancelled>>

(* ---- part B: Bridge ----------------------------------------------------------------------------- *)
CSendNext ==   \* the harness offers the next inner channel on chanCh
  /\ ps[CFeed].pc = "idle" /\ ps[CFeed].n < NCh /\ ~closed[Cc]
  /\ ArriveSend([ps EXCEPT ![CFeed] = [@ EXCEPT !.n = @ + 1]], CFeed, Cc, <<ps[CFeed].n + 1, 0>>, FALSE) /\ Same
CSent == ps[CFeed].pc = "sent" /\ ps' = [ps EXCEPT ![CFeed] = [@ EXCEPT !.pc = "idle"]] /\ UNCHANGED <<sq, rq>> /\ Same
CloseCc == ps[CFeed].pc = "idle" /\ ~closed[Cc] /\ CloseCh(ps, Cc) /\ UNCHANGED <<cancelled, consA, consB>>
IFeedNext(j) ==
  /\ ps[IFeed(j)].pc = "idle" /\ ps[IFeed(j)].n < NVals /\ ~closed[Ic(j)]
  /\ ArriveSend([ps EXCEPT ![IFeed(j)] = [@ EXCEPT !.n = @ + 1]], IFeed(j), Ic(j), <<j, ps[IFeed(j)].n + 1>>, FALSE) /\ Same
IFeedSent(j) == ps[IFeed(j)].pc = "sent" /\ ps' = [ps EXCEPT ![IFeed(j)] = [@ EXCEPT !.pc = "idle"]] /\ UNCHANGED <<sq, rq>> /\ Same
CloseIc(j) == ps[IFeed(j)].pc = "idle" /\ ~closed[Ic(j)] /\ CloseCh(ps, Ic(j)) /\ UNCHANGED <<cancelled, consA, consB>>

BridgeCall == ps[Brg].pc = "off" /\ ps' = [ps EXCEPT ![Brg] = [@ EXCEPT !.pc = "outer"]] /\ UNCHANGED <<sq, rq>> /\ Same
(* outer select: ctx.Done | <-chanCh *)
BridgeOuter == ps[Brg].pc = "outer" /\ SelRecv([ps EXCEPT ![Brg] = [@ EXCEPT !.cur = 0, !.ph = "outer"]], Brg, Cc) /\ Same
(* inner select: ctx.Done | <-ch *)
BridgeInner == ps[Brg].pc = "inner" /\ SelRecv([ps EXCEPT ![Brg] = [@ EXCEPT !.ph = "inner"]], Brg, Ic(ps[Brg].cur)) /\ Same
(* innermost select: ctx.Done | out <- val  (ctx.Done: the value is dropped, the inner loop goes on) *)
BridgeFwd == ps[Brg].pc = "fwd" /\ SelSend([ps EXCEPT ![Brg] = [@ EXCEPT !.ph = "fwd"]], Brg, Bo, ps[Brg].val) /\ Same
BridgeNext ==
  /\ ps[Brg].pc \in {"has", "sawclosed", "ctxdone", "sent"}
  /\ LET b == ps[Brg] IN
     ps' = [ps EXCEPT ![Brg] =
       CASE b.ph = "outer" /\ b.pc = "has" -> [b EXCEPT !.pc = "inner", !.cur = b.val[1], !.val = NoVal]
         [] b.ph = "outer"                 -> [b EXCEPT !.pc = "ret", !.val = NoVal]
         [] b.ph = "inner" /\ b.pc = "has" -> [b EXCEPT !.pc = "fwd"]
         [] b.ph = "inner"                 -> [b EXCEPT !.pc = "outer", !.val = NoVal]
         [] OTHER                          -> [b EXCEPT !.pc = "inner", !.val = NoVal]]
  /\ UNCHANGED <<sq, rq>> /\ Same

(* ---------------------------------------------------------------------------------------------- *)
InternalA ==
  \/ \E i \in Ins : FeedSent(i) \/ StageLoop(i) \/ StageCheck(i) \/ StageSend(i) \/ StageNext(i) \/ StageClose(i)
                      \/ FwdLoop(i) \/ FwdSelect(i) \/ FwdNext(i)
  \/ FanInClose \/ (PartA /\ ConsTake(ConsA))
InternalB ==
  NCh > 0 /\ (CSent \/ (\E j \in Chs : IFeedSent(j)) \/ BridgeOuter \/ BridgeInner \/ BridgeFwd \/ BridgeNext \/ ConsTake(ConsB))
Internal == InternalA \/ InternalB
EnvA == \E i \in Ins : FeedNext(i) \/ CloseIn(i)
EnvB == NCh > 0 /\ (CSendNext \/ CloseCc \/ BridgeCall \/ \E j \in Chs : IFeedNext(j) \/ CloseIc(j))
Env == EnvA \/ EnvB \/ Cancel \/ (PartA /\ ConsRecv(ConsA, Fo)) \/ (NCh > 0 /\ ConsRecv(ConsB, Bo))

JunoProcs == {Stg(i) : i \in Ins} \cup {Fwd(i) : i \in Ins} \cup (IF NCh > 0 THEN {Brg} ELSE {})
Ended(p) == ps[p].pc \in {"exit", "ret", "off"}
AllEnded == (\A p \in JunoProcs : Ended(p)) /\ (PartA => closed[Fo])
Finished == AllEnded /\ UNCHANGED vars

Next == Internal \/ Env \/ Finished
Spec == Init /\ [][Next]_vars
(* goroutines run; producers eventually stop: they deliver what they have to a reader, then close;
   the consumers keep reading until cancelled *)
FairSpec == Spec /\ WF_vars(Internal) /\ WF_vars(EnvA) /\ WF_vars(EnvB)
                 /\ WF_vars(~cancelled /\ PartA /\ ConsRecv(ConsA, Fo)) /\ WF_vars(~cancelled /\ NCh > 0 /\ ConsRecv(ConsB, Bo))

--------------------------------------------------------------------------
(* PROPERTIES *)
Of(q, i) == SelectSeq(q, LAMBDA v : v[1] = i)
Increasing(q) == \A a \in 1..(Len(q) - 1) : q[a][2] < q[a + 1][2]
Contiguous(q) == \A a \in 1..Len(q) : q[a][2] = a

TypeOK == \A c \in Chans : Len(sq[c]) <= 3 /\ Len(rq[c]) <= 3

(* FanIn(Stage...): per input the consumer sees the values in order, each at most once; nothing is
   skipped unless the run was cancelled *)
OrderPerInput == \A i \in Ins : Increasing(Of(consA, i))
NoGapUnlessCancelled == ~cancelled => \A i \in Ins : Contiguous(Of(consA, i))
(* out is closed only after every forwarder returned, a Stage's channel only by the Stage; nobody is
   parked on a closed channel *)
FanInClosedLast == (PartA /\ closed[Fo]) => \A i \in Ins : ps[Fwd(i)].pc = "exit"
NobodyParkedOnClosed == \A c \in Chans : closed[c] => (sq[c] = <<>> /\ rq[c] = <<>>)
(* complete when nothing was cancelled: all inputs closed and the output closed => everything arrived *)
SeenA == IF PartA /\ ps[ConsA].pc = "has" THEN Append(consA, ps[ConsA].val) ELSE consA
CompleteWithoutCancel ==
  (PartA /\ ~cancelled /\ closed[Fo]) => \A i \in Ins : Len(Of(SeenA, i)) = ps[Feed(i)].n

(* Bridge: channel after channel, values in order, nothing skipped unless cancelled *)
BridgeOrder ==
  /\ \A a \in 1..(Len(consB) - 1) : consB[a][1] < consB[a + 1][1] \/ (consB[a][1] = consB[a + 1][1] /\ consB[a][2] < consB[a + 1][2])
  /\ ~cancelled => \A j \in Chs : Contiguous(Of(consB, j))
BridgeNeverCloses == NCh > 0 => ~closed[Bo]

(* LIVENESS (FairSpec): once the producers have stopped, every goroutine of the package ends — also
   after a cancellation.  With StageFix = FALSE this is VIOLATED (a Stage blocked on its send). *)
EverythingEnds == <>[]AllEnded
=============================================================================

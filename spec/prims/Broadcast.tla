------------------------------ MODULE Broadcast ------------------------------
(* G06 — utils/broadcast/broadcast.go: fan-out ring buffer with overwrite-on-full semantics.

   PROMISE (package comment, quoted):
     "Package broadcast implements a fan-out event stream with overwrite-on-full semantics.
      Multiple producers can call Send concurrently and multiple consumers can Subscribe.
      Every consumer receives every message in order unless it has fallen behind far enough
      that its next sequence has been overwritten; in that case the consumer receives a
      lag notification (LaggedError) indicating where to resume."
     "The ring is bounded and overwriting; backpressure to producers does not apply"
   LaggedError: "MissedSeq: the requested sequence that was lost.  NextSeq: the oldest sequence
      still available (resume point)."
   Send: "Returns ErrClosed if the Broadcast context is already canceled. ... No backpressure:
      Send does not wait for readers".
   Subscribe: "creates a new subscription that starts from the current tail (i.e., it will
      receive the next message published). ... To stop receiving, call Unsubscribe; the out
      channel is closed on termination."
   Subscription lifecycle: "Call Unsubscribe to stop; it requests the goroutine to exit promptly
      and wakes it if blocked, then the goroutine closes out upon return.  If Broadcast.Close is
      called, subscriptions will only exit once they can observe the closed context in their run
      loop, after draining the channel."
   Close: "cancels the Broadcast context (preventing further successful Send calls).  It then
      broadcasts on the cond of the slot at index (tail & mask) to wake any waiters on that slot.
      Subscribers only waits for tail thus only broadcasting to tail slot should wake all waiting
      goroutines."
   New: "The actual capacity is rounded up to the next power of two."

   MODEL.  Message q (q = 0, 1, ...) is the q-th successful Send; slot q % Cap then holds
   seq = q + 1 (0 = never written).  One action per step another goroutine can observe:
     Send (atomic: b.mu + slot lock), Subscribe (one atomic load of tail),
     the delivery goroutine  RunTop  (lock slot(next), compare seq, check done channels, then
       enter cond.Wait / take the message / notice the overwrite),  RunLag  (the UNLOCKED read of
       tail that computes the resume point),  RunDeliver / RunAbort  (select on out and done),
     Unsubscribe = Unsub1 (close done) ; Unsub2 (load nextSeq) ; Unsub3 (lock that slot, Broadcast),
     Close = Close1 (close done, b.mu held) ; Close2 (Broadcast on slot(tail), release b.mu),
     consumer RecvItem / RecvClosed on the out channel (capacity 1).
   cond.Wait has no memory: a Broadcast wakes exactly the goroutines that are waiting on that
   slot at that instant (WakeSlot) — a lost wake-up would show up as a liveness violation.      *)
EXTENDS Integers, Sequences, FiniteSets, TLC

CONSTANTS Cap,        \* actual ring capacity (a power of two)
          NSubs,      \* subscription slots, each used at most once
          MaxSends,   \* bound on successful Sends (in the guard of Send, not a CONSTRAINT)
          NProd       \* producer threads (only their result registers differ)

Subs  == 1..NSubs
Prods == (NSubs + 1)..(NSubs + NProd)
Thr   == 1..(NSubs + NProd)          \* consumer thread of subscription s is thread s
Idx(q) == q % Cap

NoItem    == [k |-> "none"]
Ev(q)     == [k |-> "ev", q |-> q]
Lag(m, n) == [k |-> "lag", m |-> m, n |-> n]
NoRet     == [k |-> "none"]

VARIABLES tail,      \* number of messages published = next sequence to assign
          slotSeq,   \* [0..Cap-1 -> Nat]  slot.seq (slot.data is message slotSeq-1)
          bdone,     \* Broadcast.done closed
          cpc,       \* Close progress: "idle" | "c2" (b.mu held, done closed) | "fin"
          sub,       \* [Subs -> subscription record]
          exp,       \* ghost: [Subs -> sequence the CONSUMER expects next]
          ret        \* [Thr -> result of that thread's last call]

vars == <<tail, slotSeq, bdone, cpc, sub, exp, ret>>
view == <<tail, slotSeq, bdone, cpc, sub, exp>>

Free == [st |-> "free", pc |-> "top", next |-> 0, hand |-> NoItem, out |-> <<>>,
         done |-> FALSE, upc |-> "idle", uidx |-> 0]

Init ==
  /\ tail = 0 /\ slotSeq = [i \in 0..(Cap - 1) |-> 0] /\ bdone = FALSE /\ cpc = "idle"
  /\ sub = [s \in Subs |-> Free] /\ exp = [s \in Subs |-> 0]
  /\ ret = [t \in Thr |-> NoRet]

(* sync.Cond.Broadcast on slot i: every delivery goroutine parked in cond.Wait on that slot
   re-acquires the lock and re-evaluates its loop condition (pc back to "top") *)
WakeSlot(f, i) ==
  [s \in Subs |-> IF f[s].st = "live" /\ f[s].pc = "wait" /\ Idx(f[s].next) = i
                  THEN [f[s] EXCEPT !.pc = "top"] ELSE f[s]]

--------------------------------------------------------------------------
(* Broadcast.Send — b.mu is held by Close between Close1 and Close2 *)
Send(p) ==
  /\ cpc # "c2"
  /\ IF bdone
     THEN /\ ret' = [ret EXCEPT ![p] = [k |-> "closed"]]
          /\ UNCHANGED <<tail, slotSeq, sub>>
     ELSE /\ tail < MaxSends
          /\ slotSeq' = [slotSeq EXCEPT ![Idx(tail)] = tail + 1]
          /\ tail' = tail + 1
          /\ sub' = WakeSlot(sub, Idx(tail))
          /\ ret' = [ret EXCEPT ![p] = [k |-> "ok", q |-> tail]]
  /\ UNCHANGED <<bdone, cpc, exp>>

Subscribe(s) ==
  /\ sub[s].st = "free"
  /\ sub' = [sub EXCEPT ![s] = [Free EXCEPT !.st = "live", !.next = tail]]
  /\ exp' = [exp EXCEPT ![s] = tail]
  /\ UNCHANGED <<tail, slotSeq, bdone, cpc, ret>>

(* out is closed by the deferred close(sub.out): the value in hand is dropped *)
Exited(r) == [r EXCEPT !.st = "exited", !.hand = NoItem, !.pc = "top"]

RunTop(s) ==
  /\ sub[s].st = "live" /\ sub[s].pc = "top"
  /\ LET r == sub[s]  q == r.next  sq == slotSeq[Idx(q)] IN
     sub' = [sub EXCEPT ![s] =
               IF sq <= q
               THEN IF r.done \/ bdone THEN Exited(r) ELSE [r EXCEPT !.pc = "wait"]
               ELSE IF sq = q + 1
                    THEN [r EXCEPT !.next = q + 1, !.hand = Ev(q), !.pc = "deliver"]
                    ELSE [r EXCEPT !.pc = "lag"]]
  /\ UNCHANGED <<tail, slotSeq, bdone, cpc, exp, ret>>

(* "newest := tail - 1; oldest := newest - capacity + 1" — tail is read WITHOUT the slot lock *)
RunLag(s) ==
  /\ sub[s].st = "live" /\ sub[s].pc = "lag"
  /\ LET r == sub[s]  oldest == tail - Cap IN
     sub' = [sub EXCEPT ![s] = [r EXCEPT !.hand = Lag(r.next, oldest), !.next = oldest, !.pc = "deliver"]]
  /\ UNCHANGED <<tail, slotSeq, bdone, cpc, exp, ret>>

RunDeliver(s) ==
  /\ sub[s].st = "live" /\ sub[s].pc = "deliver" /\ Len(sub[s].out) < 1
  /\ sub' = [sub EXCEPT ![s] = [@ EXCEPT !.out = Append(@, sub[s].hand), !.hand = NoItem, !.pc = "top"]]
  /\ UNCHANGED <<tail, slotSeq, bdone, cpc, exp, ret>>

RunAbort(s) ==
  /\ sub[s].st = "live" /\ sub[s].pc = "deliver" /\ sub[s].done
  /\ sub' = [sub EXCEPT ![s] = Exited(@)]
  /\ UNCHANGED <<tail, slotSeq, bdone, cpc, exp, ret>>

Run(s) == RunTop(s) \/ RunLag(s) \/ RunDeliver(s) \/ RunAbort(s)

(* Unsubscribe (sync.Once: only the first call acts) *)
Unsub1(s) ==
  /\ sub[s].st # "free" /\ sub[s].upc = "idle"
  /\ sub' = [sub EXCEPT ![s] = [@ EXCEPT !.done = TRUE, !.upc = "u2"]]
  /\ UNCHANGED <<tail, slotSeq, bdone, cpc, exp, ret>>
Unsub2(s) ==
  /\ sub[s].upc = "u2"
  /\ sub' = [sub EXCEPT ![s] = [@ EXCEPT !.uidx = Idx(sub[s].next), !.upc = "u3"]]
  /\ UNCHANGED <<tail, slotSeq, bdone, cpc, exp, ret>>
Unsub3(s) ==
  /\ sub[s].upc = "u3"
  /\ sub' = [WakeSlot(sub, sub[s].uidx) EXCEPT ![s] = [WakeSlot(sub, sub[s].uidx)[s] EXCEPT !.upc = "fin"]]
  /\ UNCHANGED <<tail, slotSeq, bdone, cpc, exp, ret>>
UnsubStep(s) == Unsub2(s) \/ Unsub3(s)

Close1 ==
  /\ cpc = "idle" /\ bdone' = TRUE /\ cpc' = "c2"
  /\ UNCHANGED <<tail, slotSeq, sub, exp, ret>>
Close2 ==
  /\ cpc = "c2" /\ cpc' = "fin"
  /\ sub' = WakeSlot(sub, Idx(tail))
  /\ UNCHANGED <<tail, slotSeq, bdone, exp, ret>>

(* the consumer's receive on sub.Recv() *)
Advance(e, it) == IF it.k = "ev" THEN it.q + 1 ELSE it.n
RecvItem(s) ==
  /\ sub[s].st # "free" /\ sub[s].out # <<>>
  /\ LET it == sub[s].out[1] IN
     /\ ret' = [ret EXCEPT ![s] = it]
     /\ exp' = [exp EXCEPT ![s] = Advance(exp[s], it)]
  /\ sub' = [sub EXCEPT ![s] = [@ EXCEPT !.out = Tail(@)]]
  /\ UNCHANGED <<tail, slotSeq, bdone, cpc>>
RecvClosed(s) ==
  /\ sub[s].st = "exited" /\ sub[s].out = <<>>
  /\ ret' = [ret EXCEPT ![s] = [k |-> "chclosed"]]
  /\ UNCHANGED <<tail, slotSeq, bdone, cpc, sub, exp>>

Next ==
  \/ \E p \in Prods : Send(p)
  \/ \E s \in Subs : Subscribe(s) \/ Run(s) \/ Unsub1(s) \/ UnsubStep(s) \/ RecvItem(s) \/ RecvClosed(s)
  \/ Close1 \/ Close2

Fairness ==
  /\ \A s \in Subs : WF_vars(Run(s)) /\ WF_vars(UnsubStep(s)) /\ WF_vars(RecvItem(s))
  /\ WF_vars(Close2)

Spec     == Init /\ [][Next]_vars
FairSpec == Spec /\ Fairness

--------------------------------------------------------------------------
(* PROPERTIES *)

TypeOK ==
  /\ tail \in 0..MaxSends /\ bdone \in BOOLEAN /\ cpc \in {"idle", "c2", "fin"}
  /\ \A i \in 0..(Cap - 1) : slotSeq[i] \in 0..MaxSends
  /\ \A s \in Subs : /\ sub[s].st \in {"free", "live", "exited"}
                     /\ sub[s].pc \in {"top", "wait", "lag", "deliver"}
                     /\ sub[s].next \in 0..MaxSends /\ Len(sub[s].out) <= 1

(* what is on its way to the consumer of s, oldest first *)
Pending(s) == sub[s].out \o (IF sub[s].st = "live" /\ sub[s].pc = "deliver" THEN <<sub[s].hand>> ELSE <<>>)

(* follow a run of items from cursor e: an event must carry exactly e, a lag must report e as
   missed and resume strictly later; -1 = the stream is broken *)
RECURSIVE Walk(_, _)
Walk(e, items) ==
  IF items = <<>> \/ e = -1 THEN e
  ELSE LET it == items[1] IN
       Walk(IF it.k = "ev" THEN (IF it.q = e THEN e + 1 ELSE -1)
            ELSE (IF it.m = e /\ it.n > e THEN it.n ELSE -1), Tail(items))

(* "Every consumer receives every message in order unless ... overwritten; in that case the
   consumer receives a lag notification indicating where to resume": the consumer's cursor, the
   items in flight and the delivery goroutine's cursor form one unbroken chain — no gap that is
   not announced, no duplicate, no reordering. *)
StreamInOrder ==
  \A s \in Subs :
     /\ sub[s].st = "live"   => Walk(exp[s], Pending(s)) = sub[s].next
     /\ sub[s].st = "exited" => Walk(exp[s], Pending(s)) # -1

(* a lag notification is truthful: the missed message really was overwritten, and the resume
   point is a message that was in the ring when the notification was computed *)
LagTruthful ==
  \A s \in Subs : \A i \in 1..Len(Pending(s)) :
     Pending(s)[i].k = "lag" => /\ Pending(s)[i].n > Pending(s)[i].m
                                /\ Pending(s)[i].m + Cap < tail
                                /\ Pending(s)[i].n + Cap <= tail
LagIsOldest ==
  [][\A s \in Subs : (sub[s].pc = "lag" /\ sub'[s].pc = "deliver") => sub'[s].hand.n = tail - Cap]_vars

(* a subscriber that keeps up (never more than Cap behind) is never told it lagged *)
NoSpuriousLag ==
  \A s \in Subs : (sub[s].st = "live" /\ sub[s].pc = "lag") => tail > sub[s].next + Cap

CursorBehindTail == \A s \in Subs : sub[s].st = "live" => sub[s].next <= tail /\ exp[s] <= sub[s].next

(* the assumption Close's single Broadcast rests on: "Subscribers only waits for tail" *)
WaitersAtTail == \A s \in Subs : (sub[s].st = "live" /\ sub[s].pc = "wait") => sub[s].next = tail

(* a new subscription starts at the current tail *)
SubscribeAtTail == [][\A s \in Subs : (sub[s].st = "free" /\ sub'[s].st = "live") => sub'[s].next = tail /\ exp'[s] = tail]_vars

(* Send never blocks on readers and fails exactly when closed *)
SendClosedIffDone ==
  [][\A p \in Prods : ret'[p] # ret[p] => (ret'[p].k = "closed") = bdone]_vars

(* nothing is put on out after it was closed; a closed subscription stays closed *)
ExitedIsFinal == [][\A s \in Subs : sub[s].st = "exited" => (sub'[s].st = "exited" /\ Len(sub'[s].out) <= Len(sub[s].out))]_vars

(* LIVENESS (FairSpec; the consumer keeps receiving) *)
UnsubscribeExits == \A s \in Subs : sub[s].done ~> (sub[s].st = "exited")
CloseExits       == \A s \in Subs : (bdone /\ sub[s].st = "live") ~> (sub[s].st = "exited")
(* everything published reaches a live consumer (as an event or covered by a lag notice) *)
CatchesUp        == \A s \in Subs : [](sub[s].st = "live" => <>(sub[s].st # "live" \/ exp[s] = tail))
=============================================================================

CONSTANTS MaxRetries = 4 MinWait = 4 MaxWait = 20 Exp = TRUE Ladder <- MCLadder NCallers = 1 MaxGets = 5 MaxSteps = 40
INIT MBTInit
NEXT MBTNext
CHECK_DEADLOCK FALSE

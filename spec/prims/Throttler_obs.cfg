\* expected violations (design-level observations about the code as it is)
CONSTANTS N = 1 Q = 0 NCalls = 3 WithObs = TRUE
INIT Init
NEXT Next
INVARIANTS QueueLenNonNegative
CHECK_DEADLOCK FALSE

------------------------------ MODULE RetryMBT ------------------------------
(* Behaviour generation for the sequential replay of Retry.tla: ONE caller makes up to MaxGets
   calls of Client.get in a row (the wait must restart, the timeout ladder must carry over).  The
   harness owns the clock (testing/synctest) and the transport (an in-memory http.RoundTripper):
     Start            a new call with a live context; attempt 1 goes out at once
     Respond o        the transport answers the pending request (status or connection error)
     Timeout          the harness lets exactly ladder[idx] elapse: not a tick earlier may the
                      client give up on the request
     Elapse           the harness lets exactly `wait` elapse: not a tick earlier may the next
                      request go out
     Cancel           the caller's context is cancelled (while waiting or during a request)
   Recorded: action (with wait / tmo in ticks) and the projection BEFORE it. *)
EXTENDS MCRetry, Json

CONSTANT MaxSteps
VARIABLES hist, steps, act
R(S) == {RandomElement(S)}
C == 1

(* steps the client takes on its own at one instant of the fake clock *)
Auto == \/ (g[C].pc = "select" /\ g[C].wait = 0 /\ ~g[C].ctxc /\ TimerFires(C))
        \/ (g[C].pc = "select" /\ g[C].ctxc /\ CtxAbort(C))
        \/ (g[C].pc = "req" /\ g[C].ctxc /\ Respond(C, "cancelled"))
Quiescent == ~ENABLED Auto

Proj == [pc |-> g[C].pc, attempt |-> g[C].attempt, res |-> g[C].res, idx |-> idx,
         tmo |-> Ladder[idx + 1], gets |-> g[C].gets]

Harness ==
  \/ StartGet(C, FALSE) /\ act' = [name |-> "Start", o |-> "-", ticks |-> 0]
  \/ \E i \in 1..2, o \in R({"200", "429", "400", "5xx", "drop", "5xx", "drop"}) :
        Respond(C, o) /\ act' = [name |-> "Respond", o |-> o, ticks |-> 0]
  \/ Respond(C, "timeout") /\ act' = [name |-> "Timeout", o |-> "timeout", ticks |-> Ladder[idx + 1]]
  \/ \E i \in 1..3 : g[C].wait > 0 /\ TimerFires(C) /\ act' = [name |-> "Elapse", o |-> "-", ticks |-> g[C].wait]
  \/ /\ Cancel(C) /\ act' = [name |-> "Cancel", o |-> "-", ticks |-> 0]
     \* a context cancelled during a request that is followed by a ZERO wait races with the expired
     \* timer (Retry.tla allows both branches; Go picks at random): not replayable, left to TLC
     /\ (g[C].pc = "select" \/ NextWait(g[C].wait) > 0 \/ g[C].attempt = MaxRetries + 1)

MBTInit == Init /\ hist = <<>> /\ steps = 0 /\ act = [name |-> "Init"]

Emit ==
  /\ PrintT(ToJson(Append(hist, [a |-> [name |-> "End", o |-> "-", ticks |-> 0], pre |-> Proj])))
  /\ idx' = 0 /\ g' = [c \in Callers |-> Idle]
  /\ hist' = <<>> /\ steps' = 0 /\ act' = [name |-> "Init"]

MBTNext ==
  IF ~Quiescent THEN Auto /\ UNCHANGED <<hist, steps, act>>
  ELSE IF steps >= MaxSteps \/ ~ENABLED Harness THEN Emit
  ELSE Harness /\ steps' = steps + 1 /\ hist' = Append(hist, [a |-> act', pre |-> Proj])
=============================================================================

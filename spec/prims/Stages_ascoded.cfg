\* part A, Stage as coded (expected: deadlock = a Stage blocked for ever after cancellation): 1 input x 3 values
CONSTANTS NIn = 1 NVals = 3 NCh = 0 FIFO = FALSE StageFix = FALSE PartA = TRUE
INIT Init
NEXT Next
INVARIANTS TypeOK OrderPerInput NoGapUnlessCancelled FanInClosedLast NobodyParkedOnClosed CompleteWithoutCancel
CHECK_DEADLOCK TRUE

CONSTANTS Size = 2 NCalls = 10 MaxPuts = 10
INIT TraceInit
NEXT TraceNext
CONSTRAINT TraceConstraint
POSTCONDITION TraceAccepted
CHECK_DEADLOCK FALSE

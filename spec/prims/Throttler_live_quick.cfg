CONSTANTS N = 1 Q = 1 NCalls = 2 WithObs = FALSE
SPECIFICATION FairSpec
INVARIANTS TypeOK
PROPERTIES EveryCallReturns
CHECK_DEADLOCK TRUE

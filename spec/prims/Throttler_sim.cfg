CONSTANTS N = 2 Q = 2 NCalls = 12 WithObs = FALSE MaxSteps = 30
INIT MBTInit
NEXT MBTNext
CHECK_DEADLOCK FALSE

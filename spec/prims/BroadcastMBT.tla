---------------------------- MODULE BroadcastMBT ----------------------------
(* Behaviour generation for the sequential replay of Broadcast.tla.  The harness (one thread,
   inside a testing/synctest bubble) acts only when every goroutine of the primitive is blocked:
   internal steps of Broadcast.tla have priority and are not recorded; each recorded step is one
   public call with the result it must return at that quiescent point.  At MaxSteps the history
   is printed as one JSON line and the machine is reset (one long -simulate run = many
   behaviours). *)
EXTENDS Broadcast, Json

CONSTANT MaxSteps
VARIABLES hist, steps, act
mbtvars == <<vars, hist, steps, act>>

R(S) == {RandomElement(S)}
P == NSubs + 1

Busy(s) == \/ sub[s].upc \in {"u2", "u3"}
           \/ /\ sub[s].st = "live"
              /\ \/ sub[s].pc \in {"top", "lag"}
                 \/ sub[s].pc = "deliver" /\ (Len(sub[s].out) < 1 \/ sub[s].done)
Quiescent == cpc # "c2" /\ \A s \in Subs : ~Busy(s)
Internal  == Close2 \/ \E s \in Subs : Run(s) \/ UnsubStep(s)

RecvEmpty(s) ==
  /\ sub[s].st = "live" /\ sub[s].out = <<>>
  /\ ret' = [ret EXCEPT ![s] = [k |-> "empty"]]
  /\ UNCHANGED <<tail, slotSeq, bdone, cpc, sub, exp>>
UnsubAgain(s) == sub[s].st # "free" /\ sub[s].upc = "fin" /\ UNCHANGED vars
CloseAgain    == cpc = "fin" /\ UNCHANGED vars

Harness ==
  \/ \E s \in R(Subs) : Subscribe(s) /\ act' = [name |-> "Subscribe", s |-> s, res |-> NoRet]
  \/ \E i \in 1..3 : Send(P) /\ act' = [name |-> "Send", s |-> 0, res |-> ret'[P]]
  \/ \E i \in 1..3, s \in R(Subs) : (RecvItem(s) \/ RecvClosed(s) \/ RecvEmpty(s)) /\ act' = [name |-> "Recv", s |-> s, res |-> ret'[s]]
  \/ \E s \in R(Subs) : (Unsub1(s) \/ UnsubAgain(s)) /\ act' = [name |-> "Unsubscribe", s |-> s, res |-> NoRet]
  \/ (Close1 \/ CloseAgain) /\ steps > MaxSteps \div 2 /\ act' = [name |-> "Close", s |-> 0, res |-> NoRet]

MBTInit == Init /\ hist = <<>> /\ steps = 0 /\ act = [name |-> "Init"]

Emit ==
  /\ PrintT(ToJson(hist))
  /\ tail' = 0 /\ slotSeq' = [i \in 0..(Cap - 1) |-> 0] /\ bdone' = FALSE /\ cpc' = "idle"
  /\ sub' = [s \in Subs |-> Free] /\ exp' = [s \in Subs |-> 0] /\ ret' = [t \in Thr |-> NoRet]
  /\ hist' = <<>> /\ steps' = 0 /\ act' = [name |-> "Init"]

MBTNext ==
  IF ~Quiescent THEN Internal /\ UNCHANGED <<hist, steps, act>>
  ELSE IF steps >= MaxSteps THEN Emit
  ELSE IF ENABLED Harness
       THEN Harness /\ steps' = steps + 1 /\ hist' = Append(hist, act')
       ELSE Emit
=============================================================================

\* degenerate: WithMaxRetries(0) (one attempt), minWait > maxWait
CONSTANTS MaxRetries = 0 MinWait = 8 MaxWait = 4 Exp = TRUE Ladder <- MCLadder NCallers = 2 MaxGets = 3
INIT Init
NEXT Next
INVARIANTS TypeOK AttemptsBounded FailsOnlyAfterAllAttempts SucceedsOnFirst200 WaitIsFunctionOfAttempt WaitCapped
PROPERTIES NoAttemptAfterDone RetriesEverything CancelStopsRetries LadderMoves
CHECK_DEADLOCK FALSE

\* liveness under fairness (no VIEW, no symmetry): lost wake-ups, Close/Unsubscribe termination
CONSTANTS Cap = 2 NSubs = 2 MaxSends = 3 NProd = 1
SPECIFICATION FairSpec
INVARIANTS TypeOK
PROPERTIES UnsubscribeExits CloseExits CatchesUp SendClosedIffDone
CHECK_DEADLOCK FALSE

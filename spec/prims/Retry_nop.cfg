\* NopBackoff (the repository's tests): waits alternate minWait, 0, minWait, ...; no retries at all (MaxRetries = 0) is Retry_zero.cfg
CONSTANTS MaxRetries = 3 MinWait = 4 MaxWait = 20 Exp = FALSE Ladder <- MCLadder NCallers = 2 MaxGets = 2
INIT Init
NEXT Next
INVARIANTS TypeOK AttemptsBounded FailsOnlyAfterAllAttempts SucceedsOnFirst200 WaitIsFunctionOfAttempt WaitCapped
PROPERTIES NoAttemptAfterDone RetriesEverything CancelStopsRetries LadderMoves
CHECK_DEADLOCK FALSE

\* degenerate ring of one slot (New(0) and New(1)): every second message overwrites
CONSTANTS Cap = 1 NSubs = 2 MaxSends = 5 NProd = 1
INIT Init
NEXT Next
VIEW view
INVARIANTS TypeOK StreamInOrder LagTruthful NoSpuriousLag CursorBehindTail WaitersAtTail
PROPERTIES LagIsOldest SubscribeAtTail ExitedIsFinal
CHECK_DEADLOCK FALSE

CONSTANTS Cap = 2 NSubs = 2 MaxSends = 6 NProd = 2
INIT TraceInit
NEXT TraceNext
CONSTRAINT TraceConstraint
POSTCONDITION TraceAccepted
CHECK_DEADLOCK FALSE

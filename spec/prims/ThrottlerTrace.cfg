CONSTANTS N = 2 Q = 1 NCalls = 8 WithObs = TRUE
INIT TraceInit
NEXT TraceNext
CONSTRAINT TraceConstraint
POSTCONDITION TraceAccepted
CHECK_DEADLOCK FALSE

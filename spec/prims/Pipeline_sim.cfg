CONSTANTS NItems = 4 K = 2 W = 2 FIFO = TRUE MaxFails = 2 MaxSteps = 70
INIT MBTInit
NEXT MBTNext
CHECK_DEADLOCK FALSE

\* part B: Bridge over 2 inner channels x 2 values: safety and liveness
CONSTANTS NIn = 0 NVals = 2 NCh = 2 FIFO = FALSE StageFix = TRUE PartA = FALSE
SPECIFICATION FairSpec
INVARIANTS TypeOK NobodyParkedOnClosed BridgeOrder BridgeNeverCloses
PROPERTIES EverythingEnds
CHECK_DEADLOCK FALSE

------------------------------ MODULE Throttler ------------------------------
(* G06 — utils/throttler/throttler.go: bounded concurrency with a bounded queue.

   PROMISE (doc comments, quoted):
     "Throttler limits how many times an action is done concurrently and how many requests for
      these actions can be queued at max."
     "currentRequests counts current active and queued requests";
     "maxRequests is the total of possible requests (active + queued)"
     NewThrottler: "will allow up to `maxConcurrentReqs` concurrent requests for resource `T`"
     WithMaxQueueLen: "sets the maximum length the queue can grow to."
     Do: "lets caller acquire the resource within the context of a callback"; in the body:
         "already cancelled, don't even enter the queue"
     ErrResourceBusy = "resource busy, try again"
     QueueLen: "returns the number of Do calls that is blocked on the resource"
     JobsRunning: "returns the number of Do calls that are running at the moment"
   From the repository's tests: a call beyond budget + queue is rejected with ErrResourceBusy at
   once; a queued call whose context is cancelled returns the context error and leaves the queue;
   the doer of a rejected / cancelled call is never invoked; every accepted call runs exactly once.

   MODEL.  One record per call of Do; one action per step other goroutines can observe:
     Start ; CheckCtx (ctx.Err()) ; Incr (currentRequests.Add(1) and the comparison with
     maxRequests) ; Acquire | CancelWait (the select on the semaphore channel and ctx.Done()) ;
     DoerStart ; DoerEnd(outcome: "nil" | "err" | "panic") ; Release (deferred <-t.sem) ;
     Decr (deferred counter decrement — also on the rejected path) ; Return.
   Cancel(c) is the environment cancelling the context of call c.  An observer thread reads
   QueueLen the way the code does: currentRequests first, len(sem) second.
   A rejected call is counted between its Incr and its Decr; the spec keeps that as it is coded. *)
EXTENDS Integers, FiniteSets, TLC

CONSTANTS N,        \* maxConcurrentReqs
          Q,        \* maxQueueLen
          NCalls,   \* calls of Do (each id used once)
          WithObs   \* BOOLEAN: include the QueueLen observer thread

Calls == 1..NCalls
Max   == N + Q

VARIABLES cnt,      \* currentRequests
          sem,      \* len(t.sem)
          call,     \* [Calls -> [pc, ctxc, ran, res]]
          obs       \* observer of QueueLen: [pc, c, ql]

vars == <<cnt, sem, call, obs>>

Idle == [pc |-> "idle", ctxc |-> FALSE, ran |-> 0, res |-> "none"]

Init ==
  /\ cnt = 0 /\ sem = 0
  /\ call = [c \in Calls |-> Idle]
  /\ obs = [pc |-> "idle", c |-> 0, ql |-> 0]

Set(c, f, v) == [call EXCEPT ![c] = [@ EXCEPT ![f] = v]]
At(S) == {c \in Calls : call[c].pc \in S}

Start(c) ==
  /\ call[c].pc = "idle" /\ \A d \in Calls : d < c => call[d].pc # "idle"
  /\ call' = Set(c, "pc", "chk") /\ UNCHANGED <<cnt, sem, obs>>

CheckCtx(c) ==
  /\ call[c].pc = "chk"
  /\ call' = IF call[c].ctxc THEN [call EXCEPT ![c] = [@ EXCEPT !.pc = "ret", !.res = "ctx"]]
             ELSE Set(c, "pc", "inc")
  /\ UNCHANGED <<cnt, sem, obs>>

Incr(c) ==
  /\ call[c].pc = "inc"
  /\ cnt' = cnt + 1
  /\ call' = IF cnt + 1 > Max THEN [call EXCEPT ![c] = [@ EXCEPT !.pc = "rej", !.res = "busy"]]
             ELSE Set(c, "pc", "sel")
  /\ UNCHANGED <<sem, obs>>

Acquire(c) ==
  /\ call[c].pc = "sel" /\ sem < N
  /\ sem' = sem + 1 /\ call' = Set(c, "pc", "enter") /\ UNCHANGED <<cnt, obs>>

CancelWait(c) ==
  /\ call[c].pc = "sel" /\ call[c].ctxc
  /\ call' = [call EXCEPT ![c] = [@ EXCEPT !.pc = "dec", !.res = "ctx"]] /\ UNCHANGED <<cnt, sem, obs>>

DoerStart(c) ==
  /\ call[c].pc = "enter"
  /\ call' = [call EXCEPT ![c] = [@ EXCEPT !.pc = "doer", !.ran = @ + 1]] /\ UNCHANGED <<cnt, sem, obs>>

DoerEnd(c, o) ==
  /\ call[c].pc = "doer"
  /\ call' = [call EXCEPT ![c] = [@ EXCEPT !.pc = "rel", !.res = o]] /\ UNCHANGED <<cnt, sem, obs>>

Release(c) ==
  /\ call[c].pc = "rel"
  /\ sem' = sem - 1 /\ call' = Set(c, "pc", "dec") /\ UNCHANGED <<cnt, obs>>

Decr(c) ==
  /\ call[c].pc \in {"dec", "rej"}
  /\ cnt' = cnt - 1 /\ call' = Set(c, "pc", "ret") /\ UNCHANGED <<sem, obs>>

Return(c) ==
  /\ call[c].pc = "ret" /\ call' = Set(c, "pc", "done") /\ UNCHANGED <<cnt, sem, obs>>

Cancel(c) ==
  /\ ~call[c].ctxc /\ call[c].pc # "done"
  /\ call' = Set(c, "ctxc", TRUE) /\ UNCHANGED <<cnt, sem, obs>>

(* QueueLen(): int(currentRequests.Load()) - len(t.sem) — two separate reads *)
ObsReadCnt == WithObs /\ obs.pc = "idle" /\ obs' = [pc |-> "cnt", c |-> cnt, ql |-> obs.ql] /\ UNCHANGED <<cnt, sem, call>>
ObsReadSem == obs.pc = "cnt" /\ obs' = [pc |-> "idle", c |-> 0, ql |-> obs.c - sem] /\ UNCHANGED <<cnt, sem, call>>

Internal(c) == CheckCtx(c) \/ Incr(c) \/ Acquire(c) \/ CancelWait(c) \/ DoerStart(c) \/ Release(c) \/ Decr(c) \/ Return(c)

AllDone == \A c \in Calls : call[c].pc = "done"
Finished == AllDone /\ obs.pc = "idle" /\ UNCHANGED vars

Next ==
  \/ \E c \in Calls : Start(c) \/ Internal(c) \/ Cancel(c)
  \/ \E c \in Calls, o \in {"nil", "err", "panic"} : DoerEnd(c, o)
  \/ ObsReadCnt \/ ObsReadSem
  \/ Finished

Spec == Init /\ [][Next]_vars
(* doers finish; every goroutine keeps being scheduled *)
FairSpec == Spec /\ \A c \in Calls : WF_vars(Internal(c)) /\ WF_vars(\E o \in {"nil", "err", "panic"} : DoerEnd(c, o))

--------------------------------------------------------------------------
Holders  == At({"enter", "doer", "rel"})
Accepted == At({"sel", "enter", "doer", "rel", "dec"})
Counted  == Accepted \cup At({"rej"})

TypeOK == cnt \in 0..NCalls /\ sem \in 0..N /\ \A c \in Calls : call[c].ran \in 0..1

(* "limits how many times an action is done concurrently" *)
AtMostNRunning == Cardinality(At({"doer"})) <= N
SemIsHolders   == sem = Cardinality(Holders) /\ sem <= N
(* "currentRequests counts current active and queued requests" — plus, transiently, calls being rejected *)
CntIsCounted   == cnt = Cardinality(Counted)
(* "how many requests ... can be queued at max": accepted calls never exceed budget + queue,
   hence with a full budget at most Q calls wait *)
AcceptedBound  == Cardinality(Accepted) <= Max
QueueBound     == sem = N => Cardinality(At({"sel", "dec"})) <= Q

(* every accepted call runs its doer exactly once; a rejected / cancelled one never *)
RunsExactlyOnce ==
  \A c \in Calls : call[c].pc \in {"ret", "done"} =>
     /\ call[c].res \in {"nil", "err", "panic"} <=> call[c].ran = 1
     /\ call[c].res \in {"busy", "ctx"} <=> call[c].ran = 0

(* rejected only when budget and queue are occupied (by calls that are counted at that moment) *)
RejectOnlyWhenFull == [][\A c \in Calls : (call[c].pc = "inc" /\ call'[c].pc = "rej") => cnt >= Max]_vars
AdmitWhenRoom      == [][\A c \in Calls : (call[c].pc = "inc" /\ call'[c].pc # "inc" /\ cnt < Max) => call'[c].pc = "sel"]_vars
(* a call whose context was cancelled before it began never enters the queue *)
CancelledNeverEnters == [][\A c \in Calls : (call[c].pc = "chk" /\ call[c].ctxc /\ call'[c].pc # "chk") => (call'[c].pc = "ret" /\ cnt' = cnt)]_vars

(* permits and the counter are conserved on every path (normal, error, panic, reject, cancel) *)
Conservation == AllDone => (cnt = 0 /\ sem = 0)

(* DESIGN-LEVEL OBSERVATIONS (expected to be violated by the code as it is; never a verdict
   unless reproduced on the real code):
   StrictAdmission — a call is rejected only if budget + queue are occupied by ACCEPTED calls; the
   code also counts calls that are themselves in the middle of being rejected;
   QueueLenNonNegative — QueueLen() is a number of calls *)
StrictAdmission == [][\A c \in Calls : (call[c].pc = "inc" /\ call'[c].pc = "rej") => Cardinality(Accepted) >= Max]_vars
QueueLenNonNegative == obs.ql >= 0

(* LIVENESS (FairSpec): every call returns — no permit is lost, no waiter forgotten *)
EveryCallReturns == \A c \in Calls : (call[c].pc = "chk") ~> (call[c].pc = "done")
=============================================================================

---------------------------- MODULE ThrottlerMBT ----------------------------
(* Behaviour generation for the sequential replay of Throttler.tla (pattern of BroadcastMBT):
   the harness starts calls of Do on goroutines of its own, cancels contexts and lets gated doers
   finish — each only when every call is blocked (waiting for the semaphore or inside its doer) or
   has returned.  Recorded per step: the action and the quiescent projection BEFORE it
   (state of every call, QueueLen, JobsRunning); the last entry carries the final projection.
   Which of several waiting calls obtains a freed slot is left open by Throttler.tla; the replayer
   renames waiting calls accordingly (they are indistinguishable until then). *)
EXTENDS Throttler, Sequences, Json

CONSTANT MaxSteps
VARIABLES hist, steps, act
R(S) == {RandomElement(S)}

Enabled(c) ==
  \/ call[c].pc \in {"chk", "inc", "enter", "rel", "dec", "rej", "ret"}
  \/ call[c].pc = "sel" /\ (sem < N \/ call[c].ctxc)
Quiescent == \A c \in Calls : ~Enabled(c)
InternalStep == \E c \in Calls : Internal(c)

StName(c) == CASE call[c].pc = "idle" -> "idle"
               [] call[c].pc = "sel"  -> "waiting"
               [] call[c].pc = "doer" -> "running"
               [] call[c].pc = "done" -> call[c].res
               [] OTHER -> "busy?"
Proj == [st |-> [c \in Calls |-> StName(c)], ql |-> Cardinality(At({"sel"})), run |-> sem]

NextId == IF \E c \in Calls : call[c].pc = "idle" THEN CHOOSE c \in Calls : call[c].pc = "idle" /\ \A d \in Calls : d < c => call[d].pc # "idle" ELSE 0

Harness ==
  \/ \E i \in 1..3 : NextId # 0 /\ Start(NextId) /\ act' = [name |-> "Start", c |-> NextId, o |-> "-"]
  \/ NextId # 0 /\ Cancel(NextId) /\ act' = [name |-> "Cancel", c |-> NextId, o |-> "-"]
  \/ \E c \in Calls : call[c].pc \in {"sel", "doer"} /\ Cancel(c) /\ act' = [name |-> "Cancel", c |-> c, o |-> "-"]
  \/ \E i \in 1..2, c \in Calls, o \in R({"nil", "nil", "err", "panic"}) : DoerEnd(c, o) /\ act' = [name |-> "DoerEnd", c |-> c, o |-> o]

MBTInit == Init /\ hist = <<>> /\ steps = 0 /\ act = [name |-> "Init"]

Emit ==
  /\ PrintT(ToJson(Append(hist, [a |-> [name |-> "End", c |-> 0, o |-> "-"], pre |-> Proj])))
  /\ cnt' = 0 /\ sem' = 0 /\ call' = [c \in Calls |-> Idle] /\ obs' = [pc |-> "idle", c |-> 0, ql |-> 0]
  /\ hist' = <<>> /\ steps' = 0 /\ act' = [name |-> "Init"]

MBTNext ==
  IF ~Quiescent THEN InternalStep /\ UNCHANGED <<hist, steps, act>>
  ELSE IF steps >= MaxSteps \/ ~ENABLED Harness THEN Emit
  ELSE Harness /\ steps' = steps + 1 /\ hist' = Append(hist, [a |-> act', pre |-> Proj])
=============================================================================

\* liveness: the run always ends (draining consumer), any serving order
CONSTANTS NItems = 2 K = 2 W = 1 FIFO = FALSE MaxFails = 2
SPECIFICATION FairSpec
INVARIANTS TypeOK
PROPERTIES Terminates
CHECK_DEADLOCK TRUE

---------------------------- MODULE PipelineMBT ----------------------------
(* Behaviour generation for the sequential replay of Pipeline.tla on the real migration/pipeline
   (FIFO = TRUE: parked goroutines are served in arrival order, as the Go runtime does).  The
   harness owns every piece of user code — the iterator, State.Run, State.Done, the consumer and
   the caller's context — and releases one of them at a time, only when every goroutine of the
   pipeline is blocked (Internal steps have priority and are not recorded).  Recorded: the action
   and the projection BEFORE it: where the iterator stands, what every worker is doing with which
   token, what the consumer received, the result of wait().
   Not generated: releasing the iterator while the context is cancelled AND a first-stage worker
   is ready (Go's select then picks at random; both branches are in Pipeline.tla). *)
EXTENDS Pipeline, Json

CONSTANT MaxSteps
VARIABLES hist, steps, act
R(S) == {RandomElement(S)}

Quiescent == ~ENABLED Internal

WProj(p) == [pc |-> ps[p].pc, tok |-> ps[p].tok, acc |-> ps[p].acc, err |-> ps[p].err, stage |-> StageOf(p)]
Proj == [iter |-> IF ps[Src].pc = "iter" THEN next ELSE 0,
         src |-> ps[Src].pc,
         w |-> [p \in Workers |-> WProj(p)],
         cons |-> ps[Cons].pc,
         consumed |-> consumed,
         res |-> result]

Harness ==
  \/ \E i \in 1..3 : ~(cancelled /\ rq[0] # <<>>) /\ Yield /\ act' = [name |-> "Yield", p |-> 0, item |-> next]
  \/ steps > 6 /\ Cancel /\ act' = [name |-> "Cancel", p |-> 0, item |-> 0]
  \/ \E i \in 1..3, p \in Workers : RunEmit(p) /\ act' = [name |-> "RunEmit", p |-> p, item |-> 0]
  \/ \E p \in Workers : RunAbsorb(p) /\ act' = [name |-> "RunAbsorb", p |-> p, item |-> 0]
  \/ \E p \in R(Workers) : steps > 4 /\ RunFail(p) /\ act' = [name |-> "RunFail", p |-> p, item |-> 0]
  \/ \E i \in 1..3, p \in Workers : DoneCall(p, FALSE) /\ act' = [name |-> "DoneOK", p |-> p, item |-> 0]
  \/ \E p \in Workers : DoneCall(p, TRUE) /\ act' = [name |-> "DoneFail", p |-> p, item |-> 0]
  \/ \E i \in 1..2 : ConsRecv /\ act' = [name |-> "ConsRecv", p |-> 0, item |-> 0]
  \/ CallWait /\ act' = [name |-> "CallWait", p |-> 0, item |-> 0]

MBTInit == Init /\ hist = <<>> /\ steps = 0 /\ act = [name |-> "Init"]

Emit ==
  /\ PrintT(ToJson(Append(hist, [a |-> [name |-> "End", p |-> 0, item |-> 0], pre |-> Proj])))
  /\ ps' = [p \in Procs |-> IF p = Src THEN P("iter") ELSE IF p = Cons THEN P("idle") ELSE P("loop")]
  /\ sq' = [c \in 0..K |-> <<>>] /\ rq' = [c \in 0..K |-> <<>>]
  /\ closed' = [c \in 0..K |-> FALSE] /\ cancelled' = FALSE /\ next' = 1 /\ isDone' = FALSE
  /\ returned' = {} /\ stageErr' = [k \in 1..K |-> 0] /\ gErr' = 0 /\ nfail' = 0
  /\ runs' = [k \in 1..K |-> [x \in Items |-> 0]] /\ dones' = [p \in Workers |-> 0]
  /\ lost' = {} /\ failed' = {} /\ consumed' = <<>> /\ result' = [isDone |-> FALSE, err |-> -1]
  /\ hist' = <<>> /\ steps' = 0 /\ act' = [name |-> "Init"]

MBTNext ==
  IF ~Quiescent THEN Internal /\ UNCHANGED <<hist, steps, act>>
  ELSE IF steps >= MaxSteps \/ ~ENABLED Harness THEN Emit
  ELSE Harness /\ steps' = steps + 1 /\ hist' = Append(hist, [a |-> act', pre |-> Proj])
=============================================================================

CONSTANTS N = 1 Q = 0 NCalls = 3
INIT Init
NEXT Next
PROPERTIES StrictAdmission
CHECK_DEADLOCK FALSE

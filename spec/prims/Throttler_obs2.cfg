CONSTANTS N = 1 Q = 0 NCalls = 3 WithObs = FALSE
INIT Init
NEXT Next
PROPERTIES StrictAdmission
CHECK_DEADLOCK FALSE

------------------------------ MODULE Pipeline ------------------------------
(* G06 — migration/pipeline/pipeline.go: the staged worker pipeline every data migration runs on
   (block-transactions, state-diff-length, head-state, history pruner, casm-hash, l1-handler).
   The package has no doc comments; its promise is what its tests and its callers rely on:
     - Source(it) feeds the iterator's items into the first stage until the iterator ends or the
       pipeline's context is cancelled ("select { case <-r.ctx.Done(): return nil; case outputs <-
       input: }"); Result.IsDone is set only when the iterator was exhausted;
     - New(inputs, concurrency, state) runs `concurrency` workers; each calls state.Run(index,
       input, outputs) for every input it receives and, when the input channel is closed,
       state.Done(index, outputs) exactly once; outputs is closed after all workers are done;
     - a Run error is joined into the worker's error and cancels the pipeline ("r.cancel()") —
       the worker keeps draining its inputs (nothing in flight is dropped, nothing blocks);
     - wait() returns after every goroutine returned: Result{IsDone, Err}, Err being the first
       error recorded by the errgroup;
     - callers (migration/*/migrator.go) treat `Err == nil && IsDone` as "every input went through
       every stage" and otherwise return shouldRerun.
   Tests: all outputs arrive (as a multiset), every worker's Done ran, a failing stage makes wait()
   return that error with IsDone = false, cancelling the source context ends the run gracefully.

   MODEL.  Go channel semantics are modelled exactly: an unbuffered channel holds the queue of
   parked senders (sq) and parked receivers (rq); whoever arrives second completes the rendezvous;
   close wakes every parked receiver; a goroutine parked in a select is resolved by the first
   event (a partner arriving or the context being cancelled); a select arriving with two ready
   cases takes either.  FIFO = TRUE serves the queues in order (what the Go runtime does, used for
   behaviour generation); FIFO = FALSE lets any parked goroutine be served (checked exhaustively).
   Processes: 0 = Source, 1..K*W = workers (stage k = 1..K, W each), K*W+1 = the consumer of the
   last stage's outputs followed by wait().  State.Run / State.Done / the iterator are the user's
   code: the environment decides their outcome (emit / absorb / fail, flush / fail).
   A token is the set of source items it carries (a batch); Run may pass the token on (Emit),
   keep it in the worker's accumulator (Absorb; flushed by Done) or fail (token dropped).     *)
EXTENDS Integers, Sequences, FiniteSets, TLC

CONSTANTS NItems, K, W,
          FIFO,        \* BOOLEAN, see above
          MaxFails     \* bound on failing Run/Done calls (guard)

Items == 1..NItems
Src == 0
Workers == 1..(K * W)
Cons == K * W + 1
Procs == 0..Cons
StageOf(p) == ((p - 1) \div W) + 1
InCh(p)  == IF p = Cons THEN K ELSE StageOf(p) - 1    \* channel a worker / the consumer reads
OutCh(p) == IF p = Src THEN 0 ELSE StageOf(p)          \* channel a process writes
WorkersOf(k) == {p \in Workers : StageOf(p) = k}

VARIABLES ps,         \* [Procs -> [pc, tok, acc, err, kind]]
          sq, rq,     \* [0..K -> Seq] parked senders [p, tok] / parked receivers (process ids)
          closed,     \* [0..K -> BOOLEAN]
          cancelled,  \* the pipeline's context (r.ctx) is done
          next,       \* next item the iterator yields
          isDone,     \* r.isDone
          returned,   \* set of errgroup members (0 = source, k = stage k) that returned
          stageErr,   \* [1..K -> worker whose error the stage's inner errgroup recorded, 0 = none]
          gErr,       \* worker whose error r.g recorded first (0 = none)
          nfail,
          (* ghosts *)
          runs,       \* [1..K -> [Items -> Nat]] times an item-carrying token was Run at a stage
          dones,      \* [Workers -> Nat] calls of state.Done
          lost,       \* items taken from the iterator but not passed on (dropped at the cancelled select)
          failed,     \* items whose token a failing Run dropped
          consumed,   \* sequence of tokens the consumer received
          result      \* [isDone, err] once wait() returned (err = -1 before)

vars == <<ps, sq, rq, closed, cancelled, next, isDone, returned, stageErr, gErr, nfail, runs, dones, lost, failed, consumed, result>>

NoTok == {}
P(pc) == [pc |-> pc, tok |-> NoTok, acc |-> {}, err |-> FALSE]

Init ==
  /\ ps = [p \in Procs |-> IF p = Src THEN P("iter") ELSE IF p = Cons THEN P("idle") ELSE P("loop")]
  /\ sq = [c \in 0..K |-> <<>>] /\ rq = [c \in 0..K |-> <<>>]
  /\ closed = [c \in 0..K |-> FALSE] /\ cancelled = FALSE /\ next = 1 /\ isDone = FALSE
  /\ returned = {} /\ stageErr = [k \in 1..K |-> 0] /\ gErr = 0 /\ nfail = 0
  /\ runs = [k \in 1..K |-> [x \in Items |-> 0]] /\ dones = [p \in Workers |-> 0]
  /\ lost = {} /\ failed = {} /\ consumed = <<>> /\ result = [isDone |-> FALSE, err |-> -1]

(* ---- channel mechanics ---------------------------------------------------------------- *)
Pick(q) == IF FIFO THEN {1} ELSE 1..Len(q)
Remove(q, i) == SubSeq(q, 1, i - 1) \o SubSeq(q, i + 1, Len(q))

(* what a receiver does with a token / with "closed" *)
Deliver(f, r, tok) ==
  IF r = Cons THEN [f EXCEPT ![r] = [@ EXCEPT !.pc = "has", !.tok = tok]]
  ELSE [f EXCEPT ![r] = [@ EXCEPT !.pc = "run", !.tok = tok]]
SeeClosed(f, r) ==
  IF r = Cons THEN [f EXCEPT ![r] = [@ EXCEPT !.pc = "sawclosed"]]
  ELSE [f EXCEPT ![r] = [@ EXCEPT !.pc = "done"]]
(* what a sender does once its value was taken *)
Sent(f, s) ==
  IF s = Src THEN [f EXCEPT ![s] = [@ EXCEPT !.pc = "iter", !.tok = NoTok]]
  ELSE IF f[s].pc = "flush" THEN [f EXCEPT ![s] = [@ EXCEPT !.pc = "exiting", !.tok = NoTok]]
  ELSE [f EXCEPT ![s] = [@ EXCEPT !.pc = "loop", !.tok = NoTok]]

(* process s (state table f) arrives at a send of tok on channel c; pc `parkpc` while parked *)
ArriveSend(f, s, c, tok, parkpc) ==
  IF rq[c] # <<>>
  THEN \E i \in Pick(rq[c]) :
         /\ ps' = Sent(Deliver([f EXCEPT ![s] = [@ EXCEPT !.pc = parkpc]], rq[c][i], tok), s)
         /\ rq' = [rq EXCEPT ![c] = Remove(@, i)] /\ sq' = sq
  ELSE /\ ps' = [f EXCEPT ![s] = [@ EXCEPT !.pc = parkpc, !.tok = tok]]
       /\ sq' = [sq EXCEPT ![c] = Append(@, s)] /\ rq' = rq

(* process r arrives at a receive on channel c *)
ArriveRecv(r, c) ==
  IF sq[c] # <<>>
  THEN \E i \in Pick(sq[c]) :
         LET s == sq[c][i] IN
         /\ ps' = Sent(Deliver(ps, r, ps[s].tok), s)
         /\ sq' = [sq EXCEPT ![c] = Remove(@, i)] /\ rq' = rq
  ELSE IF closed[c]
  THEN ps' = SeeClosed(ps, r) /\ UNCHANGED <<sq, rq>>
  ELSE /\ ps' = [ps EXCEPT ![r] = [@ EXCEPT !.pc = "parked"]]
       /\ rq' = [rq EXCEPT ![c] = Append(@, r)] /\ sq' = sq

Ghosts == <<runs, dones, lost, failed, consumed, result>>

(* ---- Source ------------------------------------------------------------------------------ *)
(* the iterator hands over the next item and the source reaches its select *)
Yield ==
  /\ ps[Src].pc = "iter" /\ next <= NItems
  /\ next' = next + 1
  /\ \/ /\ cancelled                          \* case <-r.ctx.Done(): return nil
        /\ ps' = [ps EXCEPT ![Src] = [@ EXCEPT !.pc = "closing"]]
        /\ lost' = lost \cup {next} /\ UNCHANGED <<sq, rq>>
     \/ /\ (~cancelled \/ rq[0] # <<>>)       \* case outputs <- input  (or park on both)
        /\ ArriveSend(ps, Src, 0, {next}, "parked") /\ lost' = lost
  /\ UNCHANGED <<closed, cancelled, isDone, returned, stageErr, gErr, nfail, runs, dones, failed, consumed, result>>

(* the iterator is exhausted: r.isDone = true *)
IterEnd ==
  /\ ps[Src].pc = "iter" /\ next > NItems
  /\ isDone' = TRUE /\ ps' = [ps EXCEPT ![Src] = [@ EXCEPT !.pc = "closing"]]
  /\ UNCHANGED <<sq, rq, closed, cancelled, next, returned, stageErr, gErr, nfail>> /\ UNCHANGED Ghosts

(* defer close(outputs); return nil *)
SrcClose ==
  /\ ps[Src].pc = "closing"
  /\ closed' = [closed EXCEPT ![0] = TRUE]
  /\ ps' = [p \in Procs |-> IF p = Src THEN [ps[p] EXCEPT !.pc = "exit"]
                           ELSE IF \E i \in 1..Len(rq[0]) : rq[0][i] = p THEN SeeClosed(ps, p)[p] ELSE ps[p]]
  /\ rq' = [rq EXCEPT ![0] = <<>>] /\ returned' = returned \cup {0}
  /\ UNCHANGED <<sq, cancelled, next, isDone, stageErr, gErr, nfail>> /\ UNCHANGED Ghosts

(* cancelling the context resolves a source parked in its select *)
CancelEffect(f, q) ==
  IF f[Src].pc = "parked"
  THEN <<[f EXCEPT ![Src] = [@ EXCEPT !.pc = "closing", !.tok = NoTok]], [q EXCEPT ![0] = <<>>], f[Src].tok>>
  ELSE <<f, q, {}>>

Cancel ==   \* the caller's context
  /\ ~cancelled /\ cancelled' = TRUE
  /\ LET ce == CancelEffect(ps, sq) IN ps' = ce[1] /\ sq' = ce[2] /\ lost' = lost \cup ce[3]
  /\ UNCHANGED <<rq, closed, next, isDone, returned, stageErr, gErr, nfail, runs, dones, failed, consumed, result>>

(* ---- Workers ----------------------------------------------------------------------------- *)
Loop(p) ==   \* for input := range inputs
  /\ p \in Workers /\ ps[p].pc = "loop"
  /\ ArriveRecv(p, InCh(p))
  /\ UNCHANGED <<closed, cancelled, next, isDone, returned, stageErr, gErr, nfail>> /\ UNCHANGED Ghosts

CountRun(p) == [runs EXCEPT ![StageOf(p)] = [x \in Items |-> IF x \in ps[p].tok THEN @[x] + 1 ELSE @[x]]]

RunEmit(p) ==   \* state.Run sends one output carrying the input's items and returns nil
  /\ p \in Workers /\ ps[p].pc = "run"
  /\ ArriveSend(ps, p, OutCh(p), ps[p].tok, "send")
  /\ runs' = CountRun(p)
  /\ UNCHANGED <<closed, cancelled, next, isDone, returned, stageErr, gErr, nfail, dones, lost, failed, consumed, result>>

RunAbsorb(p) ==   \* state.Run keeps the input in the worker's batch and returns nil
  /\ p \in Workers /\ ps[p].pc = "run"
  /\ ps' = [ps EXCEPT ![p] = [@ EXCEPT !.pc = "loop", !.acc = @ \cup ps[p].tok, !.tok = NoTok]]
  /\ runs' = CountRun(p)
  /\ UNCHANGED <<sq, rq, closed, cancelled, next, isDone, returned, stageErr, gErr, nfail, dones, lost, failed, consumed, result>>

RunFail(p) ==   \* state.Run returns an error: joined, r.cancel(), keep draining
  /\ p \in Workers /\ ps[p].pc = "run" /\ nfail < MaxFails
  /\ nfail' = nfail + 1 /\ cancelled' = TRUE
  /\ LET ce == CancelEffect([ps EXCEPT ![p] = [@ EXCEPT !.pc = "loop", !.err = TRUE, !.tok = NoTok]], sq) IN
       ps' = ce[1] /\ sq' = ce[2] /\ lost' = lost \cup ce[3]
  /\ runs' = CountRun(p) /\ failed' = failed \cup ps[p].tok
  /\ UNCHANGED <<rq, closed, next, isDone, returned, stageErr, gErr, dones, consumed, result>>

(* state.Done: flush the batch if there is one, then return nil or an error *)
DoneCall(p, fails) ==
  /\ p \in Workers /\ ps[p].pc = "done" /\ (fails => nfail < MaxFails)
  /\ nfail' = IF fails THEN nfail + 1 ELSE nfail
  /\ dones' = [dones EXCEPT ![p] = @ + 1]
  /\ LET f == [ps EXCEPT ![p] = [@ EXCEPT !.err = @ \/ fails]] IN
     IF ps[p].acc # {}
     THEN ArriveSend(f, p, OutCh(p), ps[p].acc, "flush")
     ELSE ps' = [f EXCEPT ![p] = [@ EXCEPT !.pc = "exiting"]] /\ UNCHANGED <<sq, rq>>
  /\ UNCHANGED <<closed, cancelled, next, isDone, returned, stageErr, gErr, runs, lost, failed, consumed, result>>

(* the worker returns errors.Join(allErr, doneErr) to the stage's errgroup *)
WorkerExit(p) ==
  /\ p \in Workers /\ ps[p].pc = "exiting"
  /\ ps' = [ps EXCEPT ![p] = [@ EXCEPT !.pc = "exit", !.acc = {}]]
  /\ stageErr' = IF ps[p].err /\ stageErr[StageOf(p)] = 0 THEN [stageErr EXCEPT ![StageOf(p)] = p] ELSE stageErr
  /\ UNCHANGED <<sq, rq, closed, cancelled, next, isDone, returned, gErr, nfail>> /\ UNCHANGED Ghosts

(* ---- stage goroutine: g.Wait() ; defer close(outputs) ; return err to r.g ------------------ *)
StageClose(k) ==
  /\ k \in 1..K /\ ~closed[k] /\ \A p \in WorkersOf(k) : ps[p].pc = "exit"
  /\ closed' = [closed EXCEPT ![k] = TRUE]
  /\ ps' = [p \in Procs |-> IF \E i \in 1..Len(rq[k]) : rq[k][i] = p THEN SeeClosed(ps, p)[p] ELSE ps[p]]
  /\ rq' = [rq EXCEPT ![k] = <<>>]
  /\ UNCHANGED <<sq, cancelled, next, isDone, returned, stageErr, gErr, nfail>> /\ UNCHANGED Ghosts

StageReturn(k) ==
  /\ k \in 1..K /\ closed[k] /\ k \notin returned
  /\ returned' = returned \cup {k}
  /\ gErr' = IF gErr = 0 THEN stageErr[k] ELSE gErr
  /\ UNCHANGED <<ps, sq, rq, closed, cancelled, next, isDone, stageErr, nfail>> /\ UNCHANGED Ghosts

(* ---- consumer: drains the last stage's outputs, then calls wait() ------------------------- *)
ConsRecv ==
  /\ ps[Cons].pc = "idle" /\ ArriveRecv(Cons, K)
  /\ UNCHANGED <<closed, cancelled, next, isDone, returned, stageErr, gErr, nfail>> /\ UNCHANGED Ghosts
ConsTake ==
  /\ ps[Cons].pc = "has"
  /\ consumed' = Append(consumed, ps[Cons].tok)
  /\ ps' = [ps EXCEPT ![Cons] = [@ EXCEPT !.pc = "idle", !.tok = NoTok]]
  /\ UNCHANGED <<sq, rq, closed, cancelled, next, isDone, returned, stageErr, gErr, nfail, runs, dones, lost, failed, result>>
CallWait ==
  /\ ps[Cons].pc = "sawclosed" /\ ps' = [ps EXCEPT ![Cons] = [@ EXCEPT !.pc = "waiting"]]
  /\ UNCHANGED <<sq, rq, closed, cancelled, next, isDone, returned, stageErr, gErr, nfail>> /\ UNCHANGED Ghosts
WaitReturns ==
  /\ ps[Cons].pc = "waiting" /\ returned = 0..K
  /\ result' = [isDone |-> isDone, err |-> gErr]
  /\ ps' = [ps EXCEPT ![Cons] = [@ EXCEPT !.pc = "finished"]]
  /\ UNCHANGED <<sq, rq, closed, cancelled, next, isDone, returned, stageErr, gErr, nfail, runs, dones, lost, failed, consumed>>

Finished == ps[Cons].pc = "finished" /\ UNCHANGED vars

Internal ==
  \/ IterEnd \/ SrcClose
  \/ \E p \in Workers : Loop(p) \/ WorkerExit(p)
  \/ \E k \in 1..K : StageClose(k) \/ StageReturn(k)
  \/ ConsTake \/ WaitReturns
Env ==
  \/ Yield \/ Cancel
  \/ \E p \in Workers : RunEmit(p) \/ RunAbsorb(p) \/ RunFail(p) \/ DoneCall(p, TRUE) \/ DoneCall(p, FALSE)
  \/ ConsRecv \/ CallWait

Next == Internal \/ Env \/ Finished
Spec == Init /\ [][Next]_vars
(* fairness: goroutines run; user code returns; the consumer drains until closed, then waits *)
FairSpec == Spec /\ WF_vars(Internal) /\ WF_vars(Yield) /\ WF_vars(ConsRecv) /\ WF_vars(CallWait)
                 /\ \A p \in Workers : WF_vars(RunEmit(p) \/ RunAbsorb(p) \/ RunFail(p)) /\ WF_vars(DoneCall(p, TRUE) \/ DoneCall(p, FALSE))

--------------------------------------------------------------------------
(* PROPERTIES *)
RECURSIVE Flat(_)
Flat(q) == IF q = <<>> THEN {} ELSE q[1] \cup Flat(Tail(q))
ItemsConsumed == Flat(consumed)
Passed == (1..(next - 1)) \ lost        \* items handed to the first stage (or still in the source's hand)
Terminated == ps[Cons].pc = "finished"

TypeOK == /\ next \in 1..(NItems + 1) /\ nfail \in 0..MaxFails
          /\ \A c \in 0..K : Len(sq[c]) <= W + 1 /\ Len(rq[c]) <= W + 1

(* every input passes every stage at most once, in stage order *)
RunAtMostOnce == \A k \in 1..K, x \in Items : runs[k][x] <= 1
StagesInOrder == \A k \in 2..K, x \in Items : runs[k][x] = 1 => runs[k - 1][x] = 1
(* tokens reach the consumer at most once *)
ConsumedOnce == \A i, j \in 1..Len(consumed) : i # j => consumed[i] \cap consumed[j] = {}

(* Done exactly once per worker, after its last Run, only after its input was closed *)
DoneAtMostOnce == \A p \in Workers : dones[p] <= 1
NoRunAfterDone == \A p \in Workers : ps[p].pc = "run" => dones[p] = 0
DoneAfterInputClosed == \A p \in Workers : ps[p].pc \in {"done", "flush", "exiting", "exit"} => closed[InCh(p)]

(* outputs are closed only after every worker of the stage returned; nobody is left sending on
   (or parked on) a closed channel — a send on a closed channel would panic *)
CloseAfterWorkers == \A k \in 1..K : closed[k] => \A p \in WorkersOf(k) : ps[p].pc = "exit"
NobodyParkedOnClosed == \A c \in 0..K : closed[c] => (sq[c] = <<>> /\ rq[c] = <<>>)

(* a Run error cancels the pipeline; a cancelled context never leaves the source parked *)
RunErrorCancels == failed # {} => cancelled
CancelledSourceNotParked == cancelled => ps[Src].pc # "parked"
(* IsDone only when the iterator was exhausted without dropping anything *)
IsDoneMeansExhausted == isDone => (next = NItems + 1 /\ lost = {})

(* at the end: nothing in flight was dropped, every worker's Done ran, the error is reported once *)
EndNothingDropped == Terminated => (Passed = ItemsConsumed \cup failed /\ ItemsConsumed \cap failed = {})
EndAllDone        == Terminated => \A p \in Workers : dones[p] = 1 /\ ps[p].pc = "exit"
EndErrIffFailure  == Terminated => ((result.err # 0) = (\E p \in Workers : ps[p].err)) /\ (result.err # 0 => ps[result.err].err)
EndIsDone         == Terminated => result.isDone = isDone
(* what every migrator relies on: Err == nil && IsDone  =>  every input went through every stage *)
Completeness == (Terminated /\ result.isDone /\ result.err = 0) => (ItemsConsumed = Items /\ \A k \in 1..K, x \in Items : runs[k][x] = 1)

(* LIVENESS (FairSpec): with a draining consumer the run always ends and wait() returns — no
   goroutine is left blocked; also found as absence of deadlock *)
Terminates == <>Terminated
=============================================================================

--------------------------- MODULE BroadcastTrace ---------------------------
(* Trace validation for the concurrent rounds of Broadcast.tla (as spec/kv/KVTrace.tla): real
   goroutines call Send / Subscribe / <-Recv() / Unsubscribe / Close; every call is logged at its
   start and at its end in one global order.  The effect of each call (Send, Subscribe, RecvItem /
   RecvClosed, Unsub1..3, Close1..2) and every step of the delivery goroutines (Run) are SILENT
   steps TLC places between the logged events; the trace is accepted iff some placement explains
   every logged result.  payload[q] binds the value a consumer sees to the Send it came from
   (events do not carry their sequence number).

   Events (ndjson, field ev): Reset | SendS t v | SendE t res | SubS s | SubE s | RecvS s |
   RecvE s k v m n | UnsubS s | UnsubE s | CloseS | CloseE                                      *)
EXTENDS Broadcast, Json

VARIABLES l, pSend, pSub, pRecv, pUnsub, pClose, payload
tvars == <<vars, l, pSend, pSub, pRecv, pUnsub, pClose, payload>>

Trace == ndJsonDeserialize("trace.ndjson")

TraceInit ==
  /\ Init /\ l = 1
  /\ pSend = [p \in Prods |-> [st |-> "none", v |-> 0]]
  /\ pSub = [s \in Subs |-> "none"] /\ pRecv = [s \in Subs |-> "none"] /\ pUnsub = [s \in Subs |-> "none"]
  /\ pClose = "none" /\ payload = [q \in 0..(MaxSends - 1) |-> 0]

IsEvent(e) == l <= Len(Trace) /\ Trace[l].ev = e /\ l' = l + 1
Quiet == UNCHANGED vars

TReset ==
  /\ IsEvent("Reset")
  /\ tail' = 0 /\ slotSeq' = [i \in 0..(Cap - 1) |-> 0] /\ bdone' = FALSE /\ cpc' = "idle"
  /\ sub' = [s \in Subs |-> Free] /\ exp' = [s \in Subs |-> 0] /\ ret' = [t \in Thr |-> NoRet]
  /\ pSend' = [p \in Prods |-> [st |-> "none", v |-> 0]]
  /\ pSub' = [s \in Subs |-> "none"] /\ pRecv' = [s \in Subs |-> "none"] /\ pUnsub' = [s \in Subs |-> "none"]
  /\ pClose' = "none" /\ payload' = [q \in 0..(MaxSends - 1) |-> 0]

TSendS ==
  /\ IsEvent("SendS") /\ pSend[Trace[l].t].st = "none"
  /\ pSend' = [pSend EXCEPT ![Trace[l].t] = [st |-> "started", v |-> Trace[l].v]]
  /\ Quiet /\ UNCHANGED <<pSub, pRecv, pUnsub, pClose, payload>>
LinSend(p) ==
  /\ pSend[p].st = "started" /\ Send(p)
  /\ pSend' = [pSend EXCEPT ![p].st = "applied"]
  /\ payload' = IF ret'[p].k = "ok" THEN [payload EXCEPT ![tail] = pSend[p].v] ELSE payload
  /\ UNCHANGED <<l, pSub, pRecv, pUnsub, pClose>>
TSendE ==
  /\ IsEvent("SendE")
  /\ LET p == Trace[l].t IN
     /\ pSend[p].st = "applied" /\ ret[p].k = Trace[l].res
     /\ pSend' = [pSend EXCEPT ![p].st = "none"]
  /\ Quiet /\ UNCHANGED <<pSub, pRecv, pUnsub, pClose, payload>>

TSubS ==
  /\ IsEvent("SubS") /\ pSub[Trace[l].s] = "none" /\ sub[Trace[l].s].st = "free"
  /\ pSub' = [pSub EXCEPT ![Trace[l].s] = "started"]
  /\ Quiet /\ UNCHANGED <<pSend, pRecv, pUnsub, pClose, payload>>
LinSub(s) ==
  /\ pSub[s] = "started" /\ Subscribe(s) /\ pSub' = [pSub EXCEPT ![s] = "applied"]
  /\ UNCHANGED <<l, pSend, pRecv, pUnsub, pClose, payload>>
TSubE ==
  /\ IsEvent("SubE") /\ pSub[Trace[l].s] = "applied"
  /\ pSub' = [pSub EXCEPT ![Trace[l].s] = "done"]
  /\ Quiet /\ UNCHANGED <<pSend, pRecv, pUnsub, pClose, payload>>

TRecvS ==
  /\ IsEvent("RecvS") /\ pRecv[Trace[l].s] = "none" /\ pSub[Trace[l].s] = "done"
  /\ pRecv' = [pRecv EXCEPT ![Trace[l].s] = "started"]
  /\ Quiet /\ UNCHANGED <<pSend, pSub, pUnsub, pClose, payload>>
LinRecv(s) ==
  /\ pRecv[s] = "started" /\ (RecvItem(s) \/ RecvClosed(s))
  /\ pRecv' = [pRecv EXCEPT ![s] = "applied"]
  /\ UNCHANGED <<l, pSend, pSub, pUnsub, pClose, payload>>
TRecvE ==
  /\ IsEvent("RecvE")
  /\ LET e == Trace[l]  s == e.s  r == ret[s] IN
     /\ pRecv[s] = "applied" /\ r.k = e.k
     /\ r.k = "ev" => payload[r.q] = e.v
     /\ r.k = "lag" => (r.m = e.m /\ r.n = e.n)
     /\ pRecv' = [pRecv EXCEPT ![s] = "none"]
  /\ Quiet /\ UNCHANGED <<pSend, pSub, pUnsub, pClose, payload>>

TUnsubS ==
  /\ IsEvent("UnsubS") /\ pUnsub[Trace[l].s] = "none" /\ pSub[Trace[l].s] = "done"
  /\ pUnsub' = [pUnsub EXCEPT ![Trace[l].s] = "started"]
  /\ Quiet /\ UNCHANGED <<pSend, pSub, pRecv, pClose, payload>>
LinUnsub(s) ==
  /\ pUnsub[s] = "started" /\ (Unsub1(s) \/ Unsub2(s) \/ Unsub3(s))
  /\ UNCHANGED <<l, pSend, pSub, pRecv, pUnsub, pClose, payload>>
TUnsubE ==
  /\ IsEvent("UnsubE") /\ pUnsub[Trace[l].s] = "started" /\ sub[Trace[l].s].upc = "fin"
  /\ pUnsub' = [pUnsub EXCEPT ![Trace[l].s] = "done"]
  /\ Quiet /\ UNCHANGED <<pSend, pSub, pRecv, pClose, payload>>

TCloseS ==
  /\ IsEvent("CloseS") /\ pClose = "none" /\ pClose' = "started"
  /\ Quiet /\ UNCHANGED <<pSend, pSub, pRecv, pUnsub, payload>>
LinClose ==
  /\ pClose = "started" /\ (Close1 \/ Close2)
  /\ UNCHANGED <<l, pSend, pSub, pRecv, pUnsub, pClose, payload>>
TCloseE ==
  /\ IsEvent("CloseE") /\ pClose = "started" /\ cpc = "fin" /\ pClose' = "done"
  /\ Quiet /\ UNCHANGED <<pSend, pSub, pRecv, pUnsub, payload>>

Silent(s) == Run(s) /\ UNCHANGED <<l, pSend, pSub, pRecv, pUnsub, pClose, payload>>

TraceNext ==
  \/ TReset \/ TSendS \/ TSendE \/ TSubS \/ TSubE \/ TRecvS \/ TRecvE \/ TUnsubS \/ TUnsubE \/ TCloseS \/ TCloseE
  \/ \E p \in Prods : LinSend(p)
  \/ \E s \in Subs : LinSub(s) \/ LinRecv(s) \/ LinUnsub(s) \/ Silent(s)
  \/ LinClose

ASSUME TLCSet(1, 0)
HighWater == IF l > TLCGet(1) THEN TLCSet(1, l) ELSE TRUE
TraceConstraint == HighWater
TraceAccepted == IF TLCGet(1) = Len(Trace) + 1 THEN TRUE
                 ELSE PrintT(<<"HIGHWATER", TLCGet(1)>>) /\ FALSE
=============================================================================

CONSTANTS Cap = 2 NSubs = 3 MaxSends = 40 NProd = 1 MaxSteps = 40
INIT MBTInit
NEXT MBTNext
CHECK_DEADLOCK FALSE

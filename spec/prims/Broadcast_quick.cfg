\* exhaustive safety: ring of 2, two subscriptions, 5 messages (wraps the ring twice)
CONSTANTS Cap = 2 NSubs = 2 MaxSends = 5 NProd = 1
INIT Init
NEXT Next
VIEW view
INVARIANTS TypeOK StreamInOrder LagTruthful NoSpuriousLag CursorBehindTail WaitersAtTail
PROPERTIES LagIsOldest SubscribeAtTail ExitedIsFinal
CHECK_DEADLOCK FALSE

CONSTANTS Size = 1 NCalls = 3 MaxPuts = 3
SPECIFICATION FairSpec
INVARIANTS TypeOK
PROPERTIES NoIdlePermitWhileWaiting CancelledWaiterFails
CHECK_DEADLOCK FALSE

\* part A, repaired Stage: 1 input x 3 values (quick tier; Stages_thorough.cfg: 2 inputs x 2 values)
CONSTANTS NIn = 1 NVals = 3 NCh = 0 FIFO = FALSE StageFix = TRUE PartA = TRUE
INIT Init
NEXT Next
INVARIANTS TypeOK OrderPerInput NoGapUnlessCancelled FanInClosedLast NobodyParkedOnClosed CompleteWithoutCancel
CHECK_DEADLOCK TRUE

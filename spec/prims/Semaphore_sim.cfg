CONSTANTS Size = 2 NCalls = 12 MaxPuts = 30 MaxSteps = 30
INIT MBTInit
NEXT MBTNext
CHECK_DEADLOCK FALSE

--------------------------- MODULE MempoolSeqTrace ---------------------------
(* Trace validation of the real sequencer's listener (sequencer.listenPool / depletePool) against
   the consumer actions of Mempool.tla.

   The harness runs sequencer.Sequencer.Run over the real pool, chain and builder with a scripted
   builder.Executor; pusher threads call Push.  Events (one log, appended under a mutex):

     PushS p t / PushE p out     as in MempoolTrace
     Exec txs o                  logged on entry of Executor.RunTxns: the batch the listener popped
                                 and the outcome the script is about to return ("ok" | "txerr" | "fatal")
     Reset                       next round

   Silent: the stages of a Push, the writer, and the listener's own steps — CDrain that pops (its
   batch and outcome are remembered and must equal the next Exec event; the listener is one
   goroutine: it pops again only after RunTxns returned), CDrain on an empty pool (it goes to
   sleep on Wait()) and CWake.  The transactions are valid whatever the head state is (L1 handler
   and deploy-account), so the blocks sealed meanwhile do not matter to the model. *)
EXTENDS MCMempool, Json

VARIABLES l, pd
tvars == <<vars, l, pd>>
Trace == ndJsonDeserialize("trace.ndjson")
NoBatch == [set |-> FALSE, txs |-> <<>>, o |-> "none"]

TraceInit == Init /\ l = 1 /\ pd = NoBatch
IsEvent(e) == l <= Len(Trace) /\ Trace[l].ev = e /\ l' = l + 1
E == Trace[l]

TReset ==
  /\ IsEvent("Reset")
  /\ st' = "open" /\ mem' = <<>> /\ wq' = <<>> /\ wcur' = None
  /\ dh' = None /\ dt' = None /\ dl' = 0 /\ dn' = [t \in Txs |-> Absent]
  /\ token' = 0 /\ pu' = [p \in Pushers |-> IdleP] /\ cs' = [c \in Consumers |-> "drain"]
  /\ height' = (IF StartEmpty THEN 0 ELSE 1) /\ hn' = [a \in Accs |-> 0]
  /\ npush' = 0 /\ nblk' = 0 /\ nfail' = 0 /\ ncrash' = 0 /\ nclose' = 0 /\ npop' = 0 /\ nerr' = 0 /\ nfatal' = 0
  /\ acc' = <<>> /\ popd' = <<>> /\ everPopped' = {} /\ want' = <<>> /\ owed' = {} /\ wlog' = <<>> /\ exec' = <<>>
  /\ out' = [p \in Pushers |-> "none"] /\ act' = [name |-> "Init"] /\ res' = [kind |-> "none"]
  /\ pd' = NoBatch

TPushS == IsEvent("PushS") /\ PushStart(E.p, E.t) /\ UNCHANGED pd
TPushE == IsEvent("PushE") /\ pu[E.p].pc = "idle" /\ out[E.p] = E.out /\ UNCHANGED <<vars, pd>>

LinDrain(o) ==
  /\ ~pd.set /\ mem # <<>> /\ CDrain(1, o)
  /\ pd' = [set |-> TRUE, txs |-> res'.txs, o |-> o]
  /\ UNCHANGED l
TExec == IsEvent("Exec") /\ pd.set /\ pd.txs = E.txs /\ pd.o = E.o /\ pd' = NoBatch /\ UNCHANGED vars

Silent ==
  /\ \/ \E p \in Pushers : PushInternal(p)
     \/ ~pd.set /\ mem = <<>> /\ CDrain(1, "ok")
     \/ ~pd.set /\ CWake(1)
  /\ UNCHANGED <<l, pd>>

(* Nothing in these traces observes the database or the write channel, and the writer's steps
   commute with everything that is observed: they are taken as soon as they are enabled (this
   keeps the search small; MempoolTrace.tla, which does observe the database, leaves them free). *)
WriterReady == st \in {"open", "closing"} /\ (wcur # None \/ wq # <<>>)
TraceNext ==
  IF WriterReady THEN (WTake \/ WWrite("ok")) /\ UNCHANGED <<l, pd>>
  ELSE \/ TReset \/ TPushS \/ TPushE \/ TExec \/ Silent
       \/ \E o \in {"ok", "txerr", "fatal"} : LinDrain(o)

ASSUME TLCSet(1, 0)
HighWater == IF l > TLCGet(1) THEN TLCSet(1, l) ELSE TRUE
TraceConstraint == HighWater
TraceAccepted == IF TLCGet(1) = Len(Trace) + 1 THEN TRUE
                 ELSE PrintT(<<"HIGHWATER", TLCGet(1)>>) /\ FALSE
TraceView == <<st, mem, wq, wcur, dh, dt, dl, dn, token, pu, cs, out, acc, popd, l, pd>>
=============================================================================

\* the code as it is: what holds in spite of the two defects
\* measured: 2 520 572 / 11 935 349, depth 39 (distinct / generated states)
CONSTANTS NTx = 3 Kind <- KindS Sender <- SenderS Nonce <- NonceS NAccs = 1 Accs <- MCAccs StartEmpty = FALSE
  Max = 3 NPushers = 1 NConsumers = 1 Batch = 2
  MaxPush = 3 MaxBlocks = 1 MaxFail = 0 MaxCrash = 1 MaxClose = 1 MaxPops = 1 MaxExecErr = 0 MaxFatal = 0
  DedupFix = FALSE OverflowFix = FALSE Mutant = "none"
INIT Init
NEXT Next
VIEW view
INVARIANTS TypeOK ExactlyOnceFIFO NoLostWakeup TokenAfterAppend ExecBatchBound
PROPERTIES RejectHasNoEffect CapacityOnPush StrictCapacityOnPush ReloadIsTheLog
CHECK_DEADLOCK FALSE

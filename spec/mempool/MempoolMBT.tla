---------------------------- MODULE MempoolMBT ----------------------------
(* Behaviour generation for the sequential replay of Mempool.tla on the real mempool.SequencerMempool.

   ONE harness thread makes every call (NPushers = 1, no listener); the writer goroutine of the
   real pool is held at a gate inside the store (its NewBatch call) and released by the harness,
   one write per "Write" step.  Steps between two harness calls that the real code performs on its
   own have priority ("Busy"): the stages of a Push, the writer taking the next transaction from
   the channel, the drain of Close.  Recorded per harness call: the call, and the projection of
   the state BEFORE it (= after the previous call came to rest), which carries the previous call's
   results (out = result of the last Push, res = result of the last Pop / PopBatch / WaitPoll /
   Reopen).  A final "End" entry carries the last projection.

   Write steps: o = "ok" | "fail" (faultkv FailAt on the batch) | "crashafter" (faultkv CrashAfter on
   the batch: the batch is applied and the process is gone). *)
EXTENDS MCMempool, Json

CONSTANTS MaxSteps, LazyWriter
VARIABLES hist, steps, lastres, pendingCrash

R(S) == {RandomElement(S)}

(* the repaired writer looks a transaction up before it opens its batch: one that is already in the
   log is dropped without passing the harness's gate *)
SkipsUngated == DedupFix /\ st \in {"open", "closing"} /\ wcur # None /\ dn[wcur] # Absent

Busy ==
  \/ \E p \in Pushers : pu[p].pc # "idle"
  \/ SkipsUngated
  \/ st \in {"open", "closing"} /\ wcur = None /\ wq # <<>>
  \/ st = "closing"
  \/ pendingCrash

InternalStep ==
  /\ \/ \E p \in Pushers : PushInternal(p)
     \/ WTake
     \/ SkipsUngated /\ WWrite("ok")
     \/ st = "closing" /\ (WWrite("ok") \/ CloseDone)
     \/ pendingCrash /\ Crash
  /\ pendingCrash' = (pendingCrash /\ act'.name # "Crash")
  /\ UNCHANGED <<hist, steps, lastres>>

Proj == [st |-> st, len |-> Len(mem), mem |-> mem, hold |-> wcur, wq |-> wq,
         h |-> dh, t |-> dt, l |-> dl, n |-> dn, walk |-> Walk,
         token |-> token, out |-> out[1], res |-> lastres, height |-> height, hn |-> hn]

Lbl(name, t, n, o) == [name |-> name, t |-> t, n |-> n, o |-> o]

Harness ==
  \/ \E i \in 1..6 : \E t \in R(Txs) : PushStart(1, t) /\ hist' = Append(hist, [a |-> Lbl("Push", t, 0, "-"), pre |-> Proj]) /\ pendingCrash' = FALSE
  \/ \E i \in 1..(IF LazyWriter THEN 1 ELSE 5) :
        WWrite("ok") /\ hist' = Append(hist, [a |-> Lbl("Write", 0, 0, "ok"), pre |-> Proj]) /\ pendingCrash' = FALSE
  \/ WWrite("fail") /\ hist' = Append(hist, [a |-> Lbl("Write", 0, 0, "fail"), pre |-> Proj]) /\ pendingCrash' = FALSE
  \/ ncrash < MaxCrash /\ WWrite("ok") /\ hist' = Append(hist, [a |-> Lbl("Write", 0, 0, "crashafter"), pre |-> Proj]) /\ pendingCrash' = TRUE
  \/ \E i \in 1..2 : Pop /\ hist' = Append(hist, [a |-> Lbl("Pop", 0, 0, "-"), pre |-> Proj]) /\ pendingCrash' = FALSE
  \/ \E i \in 1..2 : \E n \in R((0 - 1)..(Batch + 1)) : PopBatch(n) /\ hist' = Append(hist, [a |-> Lbl("PopBatch", 0, n, "-"), pre |-> Proj]) /\ pendingCrash' = FALSE
  \/ WaitPoll /\ hist' = Append(hist, [a |-> Lbl("WaitPoll", 0, 0, "-"), pre |-> Proj]) /\ pendingCrash' = FALSE
  \/ Close /\ hist' = Append(hist, [a |-> Lbl("Close", 0, 0, "-"), pre |-> Proj]) /\ pendingCrash' = FALSE
  \/ Crash /\ hist' = Append(hist, [a |-> Lbl("Crash", 0, 0, "-"), pre |-> Proj]) /\ pendingCrash' = FALSE
  \/ \E i \in 1..5 : \E b \in R(BOOLEAN) :
        Reopen(b) /\ hist' = Append(hist, [a |-> Lbl("Reopen", 0, 0, IF b THEN "load" ELSE "noload"), pre |-> Proj]) /\ pendingCrash' = FALSE
  \/ \E a \in R(Accs) : StoreBlock(a) /\ hist' = Append(hist, [a |-> Lbl("StoreBlock", a, 0, "-"), pre |-> Proj]) /\ pendingCrash' = FALSE

MBTInit == Init /\ hist = <<>> /\ steps = 0 /\ lastres = [kind |-> "none"] /\ pendingCrash = FALSE

Emit ==
  /\ PrintT(ToJson(Append(hist, [a |-> Lbl("End", 0, 0, "-"), pre |-> Proj])))
  /\ st' = "open" /\ mem' = <<>> /\ wq' = <<>> /\ wcur' = None
  /\ dh' = None /\ dt' = None /\ dl' = 0 /\ dn' = [t \in Txs |-> Absent]
  /\ token' = 0 /\ pu' = [p \in Pushers |-> IdleP] /\ cs' = [c \in Consumers |-> "drain"]
  /\ height' = (IF StartEmpty THEN 0 ELSE 1) /\ hn' = [a \in Accs |-> 0]
  /\ npush' = 0 /\ nblk' = 0 /\ nfail' = 0 /\ ncrash' = 0 /\ nclose' = 0 /\ npop' = 0 /\ nerr' = 0 /\ nfatal' = 0
  /\ acc' = <<>> /\ popd' = <<>> /\ everPopped' = {} /\ want' = <<>> /\ owed' = {} /\ wlog' = <<>> /\ exec' = <<>>
  /\ out' = [p \in Pushers |-> "none"] /\ act' = [name |-> "Init"] /\ res' = [kind |-> "none"]
  /\ hist' = <<>> /\ steps' = 0 /\ lastres' = [kind |-> "none"] /\ pendingCrash' = FALSE

MBTNext ==
  IF Busy THEN InternalStep
  ELSE IF steps >= MaxSteps \/ ~ENABLED Harness THEN Emit
  ELSE Harness /\ steps' = steps + 1 /\ lastres' = res'
=============================================================================

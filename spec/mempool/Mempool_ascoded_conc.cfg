\* the code as it is, two concurrent pushers and a listener
\* measured: 2 013 772 / 10 014 969, depth 36 (distinct / generated states)
CONSTANTS NTx = 2 Kind <- KindS Sender <- SenderS Nonce <- NonceS NAccs = 1 Accs <- MCAccs StartEmpty = FALSE
  Max = 3 NPushers = 2 NConsumers = 1 Batch = 2
  MaxPush = 3 MaxBlocks = 0 MaxFail = 0 MaxCrash = 0 MaxClose = 1 MaxPops = 1 MaxExecErr = 1 MaxFatal = 1
  DedupFix = FALSE OverflowFix = FALSE Mutant = "none"
INIT Init
NEXT Next
VIEW view
INVARIANTS TypeOK ExactlyOnceFIFO NoLostWakeup TokenAfterAppend ExecBatchBound
PROPERTIES RejectHasNoEffect CapacityOnPush ReloadIsTheLog
CHECK_DEADLOCK FALSE

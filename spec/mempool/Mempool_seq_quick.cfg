\* repaired model, one caller at a time: API + durability + crash/close/reopen
\* measured: 370 646 / 1 274 312, depth 39 (distinct / generated states)
CONSTANTS NTx = 3 Kind <- KindS Sender <- SenderS Nonce <- NonceS NAccs = 1 Accs <- MCAccs StartEmpty = FALSE
  Max = 3 NPushers = 1 NConsumers = 0 Batch = 2
  MaxPush = 4 MaxBlocks = 1 MaxFail = 0 MaxCrash = 1 MaxClose = 1 MaxPops = 1 MaxExecErr = 0 MaxFatal = 0
  DedupFix = TRUE OverflowFix = TRUE Mutant = "none"
INIT Init
NEXT Next
VIEW view
INVARIANTS TypeOK ExactlyOnceFIFO DbConsistent DbIsLog DurablePrefix NothingDropped CloseFlushesAll SameOrder NoLostWakeup TokenAfterAppend ExecBatchBound
PROPERTIES RejectHasNoEffect CapacityOnPush StrictCapacityOnPush ReloadIsTheLog
CHECK_DEADLOCK FALSE

\* repaired model, two pushers, two listeners, close and crash
\* measured: 7 259 132 / 29 231 131, depth 38 (distinct / generated states)
CONSTANTS NTx = 2 Kind <- KindS Sender <- SenderS Nonce <- NonceS NAccs = 1 Accs <- MCAccs StartEmpty = FALSE
  Max = 3 NPushers = 2 NConsumers = 2 Batch = 2
  MaxPush = 3 MaxBlocks = 0 MaxFail = 0 MaxCrash = 1 MaxClose = 1 MaxPops = 0 MaxExecErr = 1 MaxFatal = 1
  DedupFix = TRUE OverflowFix = TRUE Mutant = "none"
INIT Init
NEXT Next
VIEW view
INVARIANTS TypeOK ExactlyOnceFIFO DbConsistent DbIsLog DurablePrefix NothingDropped CloseFlushesAll NoLostWakeup TokenAfterAppend ExecBatchBound
PROPERTIES RejectHasNoEffect CapacityOnPush ReloadIsTheLog
CHECK_DEADLOCK FALSE

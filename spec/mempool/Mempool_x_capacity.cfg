\* EXPECTED VIOLATION StrictCapacityOnPush: two concurrent pushers overshoot Max-1
CONSTANTS NTx = 3 Kind <- KindL Sender <- SenderL Nonce <- NonceL NAccs = 1 Accs <- MCAccs StartEmpty = FALSE
  Max = 3 NPushers = 2 NConsumers = 0 Batch = 2
  MaxPush = 3 MaxBlocks = 0 MaxFail = 0 MaxCrash = 0 MaxClose = 0 MaxPops = 0 MaxExecErr = 0 MaxFatal = 0
  DedupFix = TRUE OverflowFix = TRUE Mutant = "none"
INIT Init
NEXT Next
VIEW view
PROPERTIES StrictCapacityOnPush
CHECK_DEADLOCK FALSE

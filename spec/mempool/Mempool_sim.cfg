\* behaviour generation (as coded by default; the check rewrites the switches from known_findings.json)
CONSTANTS NTx = 10 Kind <- KindF Sender <- SenderF Nonce <- NonceF NAccs = 2 Accs <- MCAccs StartEmpty = FALSE
  Max = 4 NPushers = 1 NConsumers = 0 Batch = 2
  MaxPush = 1000 MaxBlocks = 6 MaxFail = 3 MaxCrash = 3 MaxClose = 3 MaxPops = 1000 MaxExecErr = 0 MaxFatal = 0
  DedupFix = FALSE OverflowFix = FALSE Mutant = "none"
  MaxSteps = 40 LazyWriter = FALSE
INIT MBTInit
NEXT MBTNext
CHECK_DEADLOCK FALSE

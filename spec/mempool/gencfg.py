#!/usr/bin/env python3
"""Regenerates the exhaustive / expected-violation configs of Mempool.tla (run in this directory).
The .cfg files are committed; this script only documents how they relate to each other."""
base = dict(NTx=3, Kind="KindS", Sender="SenderS", Nonce="NonceS", NAccs=1, StartEmpty="FALSE", Max=3, NPushers=1,
            NConsumers=0, Batch=2, MaxPush=4, MaxBlocks=1, MaxFail=0, MaxCrash=1, MaxClose=1, MaxPops=2, MaxExecErr=0,
            MaxFatal=0, DedupFix="TRUE", OverflowFix="TRUE", Mutant='"none"')
SAFE = ("TypeOK ExactlyOnceFIFO DbConsistent DbIsLog DurablePrefix NothingDropped CloseFlushesAll SameOrder "
        "NoLostWakeup TokenAfterAppend ExecBatchBound")
ACT = "RejectHasNoEffect CapacityOnPush StrictCapacityOnPush ReloadIsTheLog"


# distinct / generated states measured with TLC 1.8.0 (expected-violation runs stop at the first violation)
MEASURED = {
    "Mempool_seq_quick.cfg": "370 646 / 1 274 312, depth 39", "Mempool_seq_mid.cfg": "1 318 696 / 5 893 932, depth 40",
    "Mempool_seq_fail.cfg": "262 400 / 802 166, depth 38", "Mempool_seq_thorough.cfg": "4 069 866 / 16 724 536, depth 49",
    "Mempool_conc_quick.cfg": "445 230 / 2 177 205, depth 32", "Mempool_conc_thorough.cfg": "7 259 132 / 29 231 131, depth 38",
    "Mempool_live.cfg": "116 880 / 380 748, depth 31", "Mempool_live_ascoded.cfg": "54 218 / 173 644, depth 31",
    "Mempool_ascoded.cfg": "2 520 572 / 11 935 349, depth 39", "Mempool_ascoded_quick.cfg": "641 572 / 2 914 397, depth 37",
    "Mempool_ascoded_overflow.cfg": "165 952 / 620 276, depth 39", "Mempool_ascoded_conc.cfg": "2 013 772 / 10 014 969, depth 36",
}


def cfg(name, header, over, inv=SAFE, props=ACT, spec=None):
    c = dict(base)
    c.update(over)
    lines = ["\\* " + header]
    if name in MEASURED:
        lines.append("\\* measured: " + MEASURED[name] + " (distinct / generated states)")
    lines.append("CONSTANTS NTx = %(NTx)s Kind <- %(Kind)s Sender <- %(Sender)s Nonce <- %(Nonce)s NAccs = %(NAccs)s "
                 "Accs <- MCAccs StartEmpty = %(StartEmpty)s" % c)
    lines.append("  Max = %(Max)s NPushers = %(NPushers)s NConsumers = %(NConsumers)s Batch = %(Batch)s" % c)
    lines.append("  MaxPush = %(MaxPush)s MaxBlocks = %(MaxBlocks)s MaxFail = %(MaxFail)s MaxCrash = %(MaxCrash)s "
                 "MaxClose = %(MaxClose)s MaxPops = %(MaxPops)s MaxExecErr = %(MaxExecErr)s MaxFatal = %(MaxFatal)s" % c)
    lines.append("  DedupFix = %(DedupFix)s OverflowFix = %(OverflowFix)s Mutant = %(Mutant)s" % c)
    lines += ["SPECIFICATION " + spec] if spec else ["INIT Init", "NEXT Next"]
    lines.append("VIEW view")
    if inv:
        lines.append("INVARIANTS " + inv)
    if props:
        lines.append("PROPERTIES " + props)
    lines.append("CHECK_DEADLOCK FALSE")
    open(name, "w").write("\n".join(lines) + "\n")


NOSEQ = SAFE.replace(" SameOrder", "")
CONC_ACT = "RejectHasNoEffect CapacityOnPush ReloadIsTheLog"
# ---- the repaired design (both switches TRUE): every property
cfg("Mempool_seq_quick.cfg", "repaired model, one caller at a time: API + durability + crash/close/reopen", dict(MaxPops=1))
cfg("Mempool_seq_mid.cfg", "repaired model, one caller at a time, two pops", {})
cfg("Mempool_seq_fail.cfg", "repaired model, a failing batch write (hole in the log)", dict(MaxFail=1, MaxCrash=0, MaxPops=1))
cfg("Mempool_seq_thorough.cfg", "repaired model, sequential, larger: empty chain at start, two accounts, a failing write",
    dict(NTx=3, NAccs=1, MaxPush=5, MaxPops=2, MaxFail=0, StartEmpty="TRUE", MaxBlocks=2))
cfg("Mempool_conc_quick.cfg", "repaired model, two concurrent pushers, one listener and a free popper",
    dict(NTx=2, NPushers=2, NConsumers=1, MaxPush=3, MaxCrash=0, MaxClose=0, MaxPops=1, MaxBlocks=0, MaxExecErr=1, MaxFatal=1),
    inv=NOSEQ, props=CONC_ACT)
cfg("Mempool_conc_thorough.cfg", "repaired model, two pushers, two listeners, close and crash",
    dict(NTx=2, NPushers=2, NConsumers=2, MaxPush=3, MaxCrash=1, MaxClose=1, MaxPops=0, MaxBlocks=0, MaxExecErr=1, MaxFatal=1),
    inv=NOSEQ, props=CONC_ACT)
cfg("Mempool_live.cfg", "liveness under fairness (no crash / close / fatal executor error)",
    dict(NTx=2, NPushers=2, NConsumers=1, MaxPush=3, MaxCrash=0, MaxClose=0, MaxPops=0, MaxBlocks=0, MaxExecErr=1),
    inv="TypeOK", props="EventuallyDrained EventuallyPersisted", spec="FairSpec")
# ---- the code as it is (both switches FALSE): what holds in spite of the defects
cfg("Mempool_ascoded.cfg", "the code as it is: what holds in spite of the two defects",
    dict(DedupFix="FALSE", OverflowFix="FALSE", NConsumers=1, MaxPush=3, MaxPops=1),
    inv="TypeOK ExactlyOnceFIFO NoLostWakeup TokenAfterAppend ExecBatchBound", props=ACT)
cfg("Mempool_ascoded_quick.cfg", "the code as it is (quick tier): no crash",
    dict(DedupFix="FALSE", OverflowFix="FALSE", NConsumers=1, MaxPush=3, MaxPops=1, MaxCrash=0),
    inv="TypeOK ExactlyOnceFIFO NoLostWakeup TokenAfterAppend ExecBatchBound", props=ACT)
cfg("Mempool_ascoded_overflow.cfg", "the code as it is where the write channel fills (Drop fires): what still holds",
    dict(DedupFix="FALSE", OverflowFix="FALSE", Max=2, MaxPush=4, MaxPops=3, MaxCrash=0, MaxClose=1, MaxBlocks=0),
    inv="TypeOK ExactlyOnceFIFO NoLostWakeup TokenAfterAppend ExecBatchBound", props=ACT)
cfg("Mempool_ascoded_conc.cfg", "the code as it is, two concurrent pushers and a listener",
    dict(DedupFix="FALSE", OverflowFix="FALSE", NTx=2, NPushers=2, NConsumers=1, MaxPush=3, MaxCrash=0, MaxClose=1, MaxPops=1,
         MaxBlocks=0, MaxExecErr=1, MaxFatal=1),
    inv="TypeOK ExactlyOnceFIFO NoLostWakeup TokenAfterAppend ExecBatchBound", props=CONC_ACT)
cfg("Mempool_live_ascoded.cfg", "liveness, as coded",
    dict(NTx=2, NPushers=2, NConsumers=1, MaxPush=3, MaxCrash=0, MaxClose=0, MaxPops=0, MaxBlocks=0, DedupFix="FALSE",
         OverflowFix="FALSE"), inv="TypeOK", props="EventuallyDrained EventuallyPersisted", spec="FairSpec")
# ---- expected violations: the two defects
cfg("Mempool_x_dedup.cfg", "EXPECTED VIOLATION DbConsistent: as coded a transaction pushed twice corrupts the persistent list",
    dict(DedupFix="FALSE", MaxCrash=0, MaxClose=0, MaxPops=1), inv="DbConsistent", props="")
cfg("Mempool_x_closeflush.cfg", "EXPECTED VIOLATION CloseFlushesAll: as coded, duplicates: a closed pool's list is not what was accepted",
    dict(DedupFix="FALSE", MaxCrash=0, MaxPops=1), inv="CloseFlushesAll", props="")
cfg("Mempool_x_overflow.cfg", "EXPECTED VIOLATION NothingDropped: as coded a full write channel discards a waiting transaction",
    dict(OverflowFix="FALSE", Max=2, MaxPush=4, MaxPops=3, MaxCrash=0, MaxClose=0, MaxBlocks=0), inv="NothingDropped", props="")
# ---- expected violations: stated design
cfg("Mempool_x_revival.cfg", "EXPECTED VIOLATION NoRevival: the persistent list is a log, popped transactions come back after a restart",
    dict(), inv="NoRevival", props="")
cfg("Mempool_x_capacity.cfg", "EXPECTED VIOLATION StrictCapacityOnPush: two concurrent pushers overshoot Max-1",
    dict(NTx=3, Kind="KindL", Sender="SenderL", Nonce="NonceL", NPushers=2, MaxPush=3, MaxCrash=0, MaxClose=0, MaxPops=0, MaxBlocks=0),
    inv="", props="StrictCapacityOnPush")
cfg("Mempool_x_order.cfg", "EXPECTED VIOLATION SameOrder: two concurrent pushers are persisted in the other order than they are popped",
    dict(NTx=2, NPushers=2, MaxPush=2, MaxCrash=0, MaxClose=0, MaxPops=0, MaxBlocks=0, DedupFix="FALSE", OverflowFix="FALSE"),
    inv="SameOrder", props="")
# ---- expected violations: mutants (each remaining property can fail)
for m, prop, kind in [("sigfirst", "NoLostWakeup", "inv"), ("sigfirst2", "TokenAfterAppend", "inv"), ("lifo", "ExactlyOnceFIFO", "inv"), ("latefull", "RejectHasNoEffect", "prop"),
                      ("nodrain", "CloseFlushesAll", "inv"), ("splitlen", "DbConsistent", "inv"), ("loadrev", "ReloadIsTheLog", "prop"),
                      ("nocap", "CapacityOnPush", "prop"), ("bigbatch", "ExecBatchBound", "inv"), ("skipwrite", "DurablePrefix", "inv")]:
    cfg("Mempool_x_%s.cfg" % m, "EXPECTED VIOLATION %s: mutant %s" % (prop, m),
        dict(Mutant='"%s"' % m.rstrip("2"), NConsumers=1 if m in ("sigfirst", "bigbatch") else 0, MaxCrash=1 if m in ("splitlen", "loadrev") else 0,
             Batch=1 if m == "bigbatch" else 2),
        inv=prop if kind == "inv" else "", props=prop if kind == "prop" else "")

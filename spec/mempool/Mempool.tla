------------------------------- MODULE Mempool -------------------------------
(* G09 — juno's sequencer mempool and its consumers, as coded at the pinned commit.

   mempool/mempool.go, mempool/db_utils.go
     SequencerMempool = an in-memory FIFO (memTxnList, a mutex-protected linked list) in front of an
     append-only persistent log of the accepted transactions (a linked list in the database:
     records MempoolHead, MempoolTail, MempoolLength and one MempoolNode{txn, nextHash} per
     transaction hash).  Push validates against the head state, hands the transaction to ONE
     writer goroutine through a buffered channel of capacity maxNumTxns (dbWriteChan), appends it
     to the in-memory list and leaves a token in a one-slot channel (Wait()).  Pop / PopBatch only
     touch the in-memory list: nothing is ever removed from the database ("Remove: not
     implemented").  Close closes the channel and waits until the writer has drained it.
     LoadFromDB walks the persistent list from the head record into the in-memory list.
   sequencer/sequencer.go
     listenPool: depletePool (PopBatch(10) -> builder.RunTxns until ErrTxnPoolEmpty), then block
     on Wait().  A vm.TransactionExecutionError of a batch is swallowed (the batch is gone), any
     other error ends the listener for good.
   rpc/v*/transaction.go: AddTransaction -> mempool.Push when a mempool is configured; a Push error
     becomes an internal error carrying its text.

   GRANULARITY.  One action per step another goroutine can observe:
     Push(p)   = PushStart ; VLen (unlocked read of the list length) ; VState (head state read)
                 ; Enq (non-blocking channel send) [; Drop (the non-blocking RECEIVE the code does
                 when the send failed)] ; MemPush (list mutex) ; Signal (non-blocking token send)
     writer    = WTake (channel receive) ; WWrite (reads tail/len + ONE atomic batch: node, old
                 tail's next pointer, head if empty, tail, length).  The writer is the only writer
                 of these records, so its reads and its batch are one step.
     Pop, PopBatch(n), Len, Wait-poll = one step each (mutex / single read / channel op)
     consumer  = CDrain (PopBatch(Batch) + RunTxns outcome) ; CWake (token receive)
     Close ; CloseDone ; Crash (volatile state lost at any point; the database keeps the batches
     that were written) ; Reopen (New, optionally followed by LoadFromDB); StoreBlock (the chain
     advances: head nonces move).

   DEFECTS AS CODED (boolean switches; FALSE = the code as it is, TRUE = repaired as on branch
   builderG09: Push appends under the list mutex unless the hash is already in the list, THEN hands
   the transaction to the writer; the writer skips a transaction that is already persisted; a
   full write channel is only logged):
     DedupFix    Push does not look for the hash in the pool.  A transaction pushed twice is
                 written twice by writeToDB: the second write RESETS the node's next pointer, and
                 when the node is the current tail the "old tail" update makes it point to
                 itself.  The persistent list then loops (LoadFromDB never returns) or is cut
                 (every transaction after the first occurrence becomes unreachable) and the length
                 record disagrees with the list.
     OverflowFix when the write channel is full Push *receives* from it "to see whether it is
                 closed": a transaction of another caller that was waiting to be persisted is
                 thrown away, and the new one is not persisted either; both Push calls returned
                 nil.
   The rest of the as-coded behaviour is design (stated, with expected-violation configs):
     - the persistent list is a log: popped transactions come back after a restart (NoRevival);
     - the capacity check is an unlocked read: n concurrent pushers overshoot by n-1
       (StrictCapacityOnPush);
     - enqueue-for-persistence and in-memory append are two steps: concurrent pushers can be
       persisted in the other order than they are popped (SameOrder);
     - Push after Close panics (send on closed channel);
     - capacity is maxNumTxns-1 (len+1 >= max) — pinned by the repository's own test.            *)
EXTENDS Integers, Sequences, FiniteSets, TLC

CONSTANTS
  NTx,          \* transaction ids 1..NTx; the id IS the transaction hash
  Kind,         \* [Txs -> {"invoke","declare","deployacc","l1handler","deploy","invoke0"}]
  Sender,       \* [Txs -> Accs \cup {0}]   0 = an address that is not deployed
  Nonce,        \* [Txs -> Nat]
  Accs,         \* deployed accounts (deployed by the first block)
  StartEmpty,   \* TRUE: the chain has no block at the start (HeadState fails)
  Max,          \* maxNumTxns
  NPushers, NConsumers,
  Batch,        \* sequencer.NumTxnsToBatchExecute
  MaxPush, MaxBlocks, MaxFail, MaxCrash, MaxClose, MaxPops, MaxExecErr, MaxFatal,
  DedupFix, OverflowFix,
  Mutant        \* "none"; otherwise a deliberately broken variant (expected-violation configs)

Txs == 1..NTx
None == 0
Absent == 0 - 1
Loop == 0 - 1            \* marker inside a walk of the persistent list
Pushers == 1..NPushers
Consumers == 1..NConsumers

VARIABLES
  st,        \* "open" | "closing" | "closed" | "down" | "hung"
  mem,       \* the in-memory list
  wq,        \* dbWriteChan
  wcur,      \* the transaction the writer goroutine holds (None: waiting on the channel)
  dh, dt, dl, dn,   \* persistent list: head, tail, length records; dn[t] = Absent | None (last) | next hash
  token,     \* txPushed (capacity 1)
  pu,        \* [Pushers -> [pc, t, eff, pushed]]
  cs,        \* [Consumers -> "drain" | "wait" | "dead" | "off"]
  height, hn,       \* chain: number of blocks, head nonce per account
  \* bounds
  npush, nblk, nfail, ncrash, nclose, npop, nerr, nfatal,
  \* ghosts
  acc,       \* transactions appended to the in-memory list of this incarnation, in order
  popd,      \* transactions popped in this incarnation, in order
  everPopped,\* popped in an EARLIER incarnation
  want,      \* transactions handed to the writer (first occurrences), in order
  owed,      \* transactions the pool still owes persistence: handed to the writer, no write failure logged
  wlog,      \* transactions whose batch was applied, in order
  exec,      \* batches handed to the executor: <<txs, outcome>>
  \* outputs
  out, act, res

vars == <<st, mem, wq, wcur, dh, dt, dl, dn, token, pu, cs, height, hn,
          npush, nblk, nfail, ncrash, nclose, npop, nerr, nfatal,
          acc, popd, everPopped, want, owed, wlog, exec, out, act, res>>
view == <<st, mem, wq, wcur, dh, dt, dl, dn, token, pu, cs, height, hn,
          npush, nblk, nfail, ncrash, nclose, npop, nerr, nfatal,
          acc, popd, everPopped, want, owed, wlog, exec>>

Range(s) == {s[i] : i \in DOMAIN s}
Min(a, b) == IF a < b THEN a ELSE b
IsPrefix(a, b) == Len(a) <= Len(b) /\ \A i \in 1..Len(a) : a[i] = b[i]
NoDup(s) == \A i, j \in DOMAIN s : i # j => s[i] # s[j]

IdleP == [pc |-> "idle", t |-> None, eff |-> FALSE, pushed |-> FALSE]

(* ---------------------------------------------------------------- persistent list *)
RECURSIVE WalkFrom(_, _)
WalkFrom(x, k) == IF x = None THEN <<>>
                  ELSE IF k = 0 \/ dn[x] = Absent THEN <<Loop>>
                  ELSE <<x>> \o WalkFrom(dn[x], k - 1)
Walk == WalkFrom(dh, NTx)            \* what LoadFromDB would read; ends in Loop when it never ends
WalkOK == Loop \notin Range(Walk)

(* writeToDB(t): the batch, computed from the records as they are *)
Written(t) ==
  LET n1 == [dn EXCEPT ![t] = None]                             \* WriteTxn(new node, next = nil)
      n2 == IF dt # None THEN [n1 EXCEPT ![dt] = t] ELSE n1     \* old tail (as READ from the db) -> new; same key when dt = t
  IN [h |-> IF dt = None THEN t ELSE dh, t |-> t, l |-> dl + 1, n |-> n2]

(* ---------------------------------------------------------------- validation *)
Validity(t) ==
  IF height = 0 THEN "nohead"
  ELSE CASE Kind[t] = "deploy"    -> "unsupported"
         [] Kind[t] = "invoke0"   -> "unsupported"
         [] Kind[t] = "deployacc" -> IF Nonce[t] # 0 THEN "nonce" ELSE "ok"
         [] Kind[t] = "l1handler" -> "ok"
         [] OTHER -> IF Sender[t] \notin Accs THEN "nostate"
                     ELSE IF hn[Sender[t]] > Nonce[t] THEN "nonce" ELSE "ok"

Init ==
  /\ st = "open" /\ mem = <<>> /\ wq = <<>> /\ wcur = None
  /\ dh = None /\ dt = None /\ dl = 0 /\ dn = [t \in Txs |-> Absent]
  /\ token = 0
  /\ pu = [p \in Pushers |-> IdleP]
  /\ cs = [c \in Consumers |-> "drain"]
  /\ height = (IF StartEmpty THEN 0 ELSE 1) /\ hn = [a \in Accs |-> 0]
  /\ npush = 0 /\ nblk = 0 /\ nfail = 0 /\ ncrash = 0 /\ nclose = 0 /\ npop = 0 /\ nerr = 0 /\ nfatal = 0
  /\ acc = <<>> /\ popd = <<>> /\ everPopped = {} /\ want = <<>> /\ owed = {} /\ wlog = <<>> /\ exec = <<>>
  /\ out = [p \in Pushers |-> "none"] /\ act = [name |-> "Init"] /\ res = [kind |-> "none"]

Bounds == <<npush, nblk, nfail, ncrash, nclose, npop, nerr, nfatal>>
Chain == <<height, hn>>
Db == <<dh, dt, dl, dn>>
Ghosts == <<acc, popd, everPopped, want, owed, wlog, exec>>

Up == st \in {"open", "closing", "closed"}        \* a pool object exists and answers

(* ---------------------------------------------------------------- Push *)
(* the stages of one Push call, in program order *)
Order == IF Mutant = "sigfirst" THEN <<"vlen", "vstate", "enq", "sig", "mem">>
         ELSE IF Mutant = "latefull" THEN <<"vstate", "enq", "vlen", "mem", "sig">>
         ELSE IF DedupFix THEN <<"vlen", "vstate", "mem", "enq", "sig">>      \* repaired: append (with the duplicate check) first
         ELSE <<"vlen", "vstate", "enq", "mem", "sig">>                       \* as coded
Pos(pc) == CHOOSE i \in 1..Len(Order) : Order[i] = pc
Finish(p, r) == pu' = [pu EXCEPT ![p] = IdleP] /\ out' = [out EXCEPT ![p] = r]
(* stage pc of p is done (eff / pushed as given): go on, or return nil after the last stage *)
Advance(p, pc, eff, pushed) ==
  IF Pos(pc) = Len(Order) THEN Finish(p, "ok")
  ELSE pu' = [pu EXCEPT ![p].pc = Order[Pos(pc) + 1], ![p].eff = eff, ![p].pushed = pushed] /\ out' = out

PushStart(p, t) ==
  /\ Up /\ pu[p].pc = "idle" /\ npush < MaxPush
  /\ pu' = [pu EXCEPT ![p] = [pc |-> Order[1], t |-> t, eff |-> FALSE, pushed |-> FALSE]]
  /\ npush' = npush + 1 /\ out' = [out EXCEPT ![p] = "running"]
  /\ act' = [name |-> "PushStart", p |-> p, t |-> t] /\ res' = [kind |-> "none"]
  /\ UNCHANGED <<st, mem, wq, wcur, Db, token, cs, Chain, nblk, nfail, ncrash, nclose, npop, nerr, nfatal, Ghosts>>

VLen(p) ==
  /\ pu[p].pc = "vlen"
  /\ IF Len(mem) + 1 >= Max /\ Mutant # "nocap" THEN Finish(p, "full") ELSE Advance(p, "vlen", pu[p].eff, pu[p].pushed)
  /\ act' = [name |-> "VLen", p |-> p] /\ res' = [kind |-> "none"]
  /\ UNCHANGED <<st, mem, wq, wcur, Db, token, cs, Chain, Bounds, Ghosts>>

VState(p) ==
  /\ pu[p].pc = "vstate"
  /\ LET v == Validity(pu[p].t) IN
       IF v # "ok" THEN Finish(p, v) ELSE Advance(p, "vstate", pu[p].eff, pu[p].pushed)
  /\ act' = [name |-> "VState", p |-> p] /\ res' = [kind |-> "none"]
  /\ UNCHANGED <<st, mem, wq, wcur, Db, token, cs, Chain, Bounds, Ghosts>>

(* select { case dbWriteChan <- txn: default: ... } *)
Enq(p) ==
  /\ pu[p].pc = "enq"
  /\ LET t == pu[p].t IN
     IF st # "open"
     THEN /\ Finish(p, IF pu[p].pushed THEN "panic-after-push" ELSE "panic")     \* send on closed channel
          /\ UNCHANGED <<wq, want, owed>>
     ELSE IF Len(wq) < Max
     THEN /\ wq' = Append(wq, t)
          /\ want' = IF t \in Range(want) THEN want ELSE Append(want, t)
          /\ owed' = owed \cup {t}
          /\ Advance(p, "enq", TRUE, pu[p].pushed)
     ELSE /\ UNCHANGED <<wq, want, owed>>
          /\ IF OverflowFix THEN Advance(p, "enq", TRUE, pu[p].pushed)       \* logged, not persisted
             ELSE pu' = [pu EXCEPT ![p].pc = "drop", ![p].eff = TRUE] /\ out' = out
  /\ act' = [name |-> "Enq", p |-> p] /\ res' = [kind |-> "none"]
  /\ UNCHANGED <<st, mem, wcur, Db, token, cs, Chain, Bounds, acc, popd, everPopped, wlog, exec>>

(* the inner select of the default branch: case _, ok := <-dbWriteChan  (takes a waiting transaction) *)
Drop(p) ==
  /\ pu[p].pc = "drop"
  /\ IF wq # <<>> THEN wq' = Tail(wq) ELSE UNCHANGED wq
  /\ Advance(p, "enq", TRUE, pu[p].pushed)
  /\ act' = [name |-> "Drop", p |-> p] /\ res' = [kind |-> "none"]
  /\ UNCHANGED <<st, mem, wcur, Db, token, cs, Chain, Bounds, acc, popd, everPopped, want, owed, wlog, exec>>

MemPush(p) ==
  /\ pu[p].pc = "mem"
  /\ LET t == pu[p].t IN
     IF DedupFix /\ t \in Range(mem)
     THEN Finish(p, "dup") /\ UNCHANGED <<mem, acc>>
     ELSE /\ mem' = (IF Mutant = "lifo" THEN <<t>> \o mem ELSE Append(mem, t)) /\ acc' = Append(acc, t)
          /\ Advance(p, "mem", TRUE, TRUE)
  /\ act' = [name |-> "MemPush", p |-> p] /\ res' = [kind |-> "none"]
  /\ UNCHANGED <<st, wq, wcur, Db, token, cs, Chain, Bounds, popd, everPopped, want, owed, wlog, exec>>

Signal(p) ==
  /\ pu[p].pc = "sig"
  /\ token' = 1 /\ Advance(p, "sig", TRUE, IF Mutant = "sigfirst" THEN pu[p].pushed ELSE FALSE)
  /\ act' = [name |-> "Signal", p |-> p] /\ res' = [kind |-> "none"]
  /\ UNCHANGED <<st, mem, wq, wcur, Db, cs, Chain, Bounds, Ghosts>>

PushInternal(p) == VLen(p) \/ VState(p) \/ Enq(p) \/ Drop(p) \/ MemPush(p) \/ Signal(p)

(* ---------------------------------------------------------------- the writer goroutine *)
WTake ==
  /\ st \in {"open", "closing"} /\ wcur = None /\ wq # <<>>
  /\ (Mutant = "splitlen" => dl = Len(wlog))
  /\ wcur' = Head(wq) /\ wq' = Tail(wq)
  /\ act' = [name |-> "WTake"] /\ res' = [kind |-> "none"]
  /\ UNCHANGED <<st, mem, Db, token, pu, cs, Chain, Bounds, Ghosts, out>>

(* o = "ok": the batch is written; "fail": Batch.Write returns an error (logged, the transaction is
   skipped: it stays in memory but is not persisted) *)
WWrite(o) ==
  /\ st \in {"open", "closing"} /\ wcur # None
  /\ IF o = "fail"
     THEN /\ nfail < MaxFail /\ nfail' = nfail + 1 /\ UNCHANGED <<Db, wlog>>
          \* the error is logged: the transaction is known not to be persisted (unless another copy is or will be)
          /\ owed' = IF wcur \in Range(wlog) \/ wcur \in Range(wq) THEN owed ELSE owed \ {wcur}
     ELSE /\ nfail' = nfail /\ owed' = owed
          /\ IF (DedupFix /\ dn[wcur] # Absent) \/ (Mutant = "skipwrite" /\ wcur = 2)
             THEN UNCHANGED <<Db, wlog>>                       \* already in the log: skipped
             ELSE LET w == Written(wcur) IN
                  /\ dh' = w.h /\ dt' = w.t /\ dn' = w.n
                  /\ dl' = (IF Mutant = "splitlen" THEN dl ELSE w.l)
                  /\ wlog' = Append(wlog, wcur)
  /\ wcur' = None
  /\ act' = [name |-> "WWrite", o |-> o] /\ res' = [kind |-> "none"]
  /\ UNCHANGED <<st, mem, wq, token, pu, cs, Chain, npush, nblk, ncrash, nclose, npop, nerr, nfatal, acc, popd, everPopped, want, exec, out>>

(* mutant "splitlen" only: the length record is written on its own, after the batch *)
WLen ==
  /\ Mutant = "splitlen" /\ st \in {"open", "closing"} /\ wcur = None /\ dl < Len(wlog)
  /\ dl' = dl + 1
  /\ act' = [name |-> "WLen"] /\ res' = [kind |-> "none"]
  /\ UNCHANGED <<st, mem, wq, wcur, dh, dt, dn, token, pu, cs, Chain, Bounds, Ghosts, out>>

(* ---------------------------------------------------------------- Pop / PopBatch / Len / Wait *)
Take(k) == SubSeq(mem, 1, k)
Rest(k) == SubSeq(mem, k + 1, Len(mem))

Pop ==
  /\ Up /\ npop < MaxPops /\ npop' = npop + 1
  /\ IF mem = <<>> THEN res' = [kind |-> "empty"] /\ UNCHANGED <<mem, popd>>
     ELSE res' = [kind |-> "txs", txs |-> Take(1)] /\ mem' = Rest(1) /\ popd' = popd \o Take(1)
  /\ act' = [name |-> "Pop"]
  /\ UNCHANGED <<st, wq, wcur, Db, token, pu, cs, Chain, npush, nblk, nfail, ncrash, nclose, nerr, nfatal, acc, everPopped, want, owed, wlog, exec, out>>

PopBatch(n) ==
  /\ Up /\ npop < MaxPops /\ npop' = npop + 1
  /\ IF n <= 0 THEN res' = [kind |-> "txs", txs |-> <<>>] /\ UNCHANGED <<mem, popd>>
     ELSE IF mem = <<>> THEN res' = [kind |-> "empty"] /\ UNCHANGED <<mem, popd>>
     ELSE LET k == Min(n, Len(mem)) IN
          res' = [kind |-> "txs", txs |-> Take(k)] /\ mem' = Rest(k) /\ popd' = popd \o Take(k)
  /\ act' = [name |-> "PopBatch", n |-> n]
  /\ UNCHANGED <<st, wq, wcur, Db, token, pu, cs, Chain, npush, nblk, nfail, ncrash, nclose, nerr, nfatal, acc, everPopped, want, owed, wlog, exec, out>>

(* non-blocking receive on Wait() by the caller itself (only when no listener shares the channel) *)
WaitPoll ==
  /\ Up /\ NConsumers = 0 /\ npop < MaxPops /\ npop' = npop + 1
  /\ res' = [kind |-> IF token = 1 THEN "token" ELSE "none"] /\ token' = 0
  /\ act' = [name |-> "WaitPoll"]
  /\ UNCHANGED <<st, mem, wq, wcur, Db, pu, cs, Chain, npush, nblk, nfail, ncrash, nclose, nerr, nfatal, Ghosts, out>>

(* ---------------------------------------------------------------- the sequencer's listener *)
(* o: outcome of builder.RunTxns for the batch: "ok" | "txerr" (vm.TransactionExecutionError,
   swallowed) | "fatal" (any other error: listenPool returns) *)
CDrain(c, o) ==
  /\ Up /\ cs[c] = "drain"
  /\ IF mem = <<>>
     THEN /\ o = "ok" /\ cs' = [cs EXCEPT ![c] = "wait"] /\ UNCHANGED <<mem, popd, exec, nerr, nfatal>>
          /\ res' = [kind |-> "empty"]
     ELSE LET k == Min(IF Mutant = "bigbatch" THEN Batch + 1 ELSE Batch, Len(mem)) IN
          /\ mem' = Rest(k) /\ popd' = popd \o Take(k)
          /\ exec' = Append(exec, <<Take(k), o>>)
          /\ (o = "txerr" => nerr < MaxExecErr) /\ nerr' = (IF o = "txerr" THEN nerr + 1 ELSE nerr)
          /\ (o = "fatal" => nfatal < MaxFatal) /\ nfatal' = (IF o = "fatal" THEN nfatal + 1 ELSE nfatal)
          /\ cs' = [cs EXCEPT ![c] = IF o = "fatal" THEN "dead" ELSE "drain"]
          /\ res' = [kind |-> "txs", txs |-> Take(k)]
  /\ act' = [name |-> "CDrain", c |-> c, o |-> o]
  /\ UNCHANGED <<st, wq, wcur, Db, token, pu, Chain, npush, nblk, nfail, ncrash, nclose, npop, acc, everPopped, want, owed, wlog, out>>

CWake(c) ==
  /\ Up /\ cs[c] = "wait" /\ token = 1
  /\ token' = 0 /\ cs' = [cs EXCEPT ![c] = "drain"]
  /\ act' = [name |-> "CWake", c |-> c] /\ res' = [kind |-> "none"]
  /\ UNCHANGED <<st, mem, wq, wcur, Db, pu, Chain, Bounds, Ghosts, out>>

(* ---------------------------------------------------------------- life cycle *)
Close ==
  /\ st = "open" /\ nclose < MaxClose /\ nclose' = nclose + 1
  /\ st' = "closing"
  /\ act' = [name |-> "Close"] /\ res' = [kind |-> "none"]
  /\ UNCHANGED <<mem, wq, wcur, Db, token, pu, cs, Chain, npush, nblk, nfail, ncrash, npop, nerr, nfatal, Ghosts, out>>

CloseDone ==
  /\ st = "closing" /\ (Mutant = "nodrain" \/ (wq = <<>> /\ wcur = None /\ (Mutant = "splitlen" => dl = Len(wlog))))
  /\ st' = "closed"
  /\ act' = [name |-> "CloseDone"] /\ res' = [kind |-> "none"]
  /\ UNCHANGED <<mem, wq, wcur, Db, token, pu, cs, Chain, Bounds, Ghosts, out>>

Crash ==
  /\ st # "down" /\ ncrash < MaxCrash /\ ncrash' = ncrash + 1
  /\ st' = "down" /\ mem' = <<>> /\ wq' = <<>> /\ wcur' = None /\ token' = 0
  /\ pu' = [p \in Pushers |-> IdleP]
  /\ out' = [p \in Pushers |-> IF pu[p].pc = "idle" THEN out[p] ELSE "crashed"]
  /\ cs' = [c \in Consumers |-> "off"]
  /\ everPopped' = everPopped \cup Range(popd)
  /\ acc' = <<>> /\ popd' = <<>>
  /\ want' = SelectSeq(want, LAMBDA t : t \in Range(wlog))     \* what was still queued dies with the process
  /\ owed' = owed \cap Range(wlog)
  /\ act' = [name |-> "Crash"] /\ res' = [kind |-> "none"]
  /\ UNCHANGED <<Db, Chain, npush, nblk, nfail, nclose, npop, nerr, nfatal, wlog, exec>>

(* New on the surviving database; load = LoadFromDB is called (the repository's tests do, node.go
   does not) *)
Reopen(load) ==
  /\ st \in {"closed", "down"} /\ \A p \in Pushers : pu[p].pc = "idle"
  /\ wq' = <<>> /\ wcur' = None /\ token' = 0
  /\ everPopped' = everPopped \cup Range(popd)
  /\ popd' = <<>>
  /\ cs' = [c \in Consumers |-> "drain"]
  /\ IF ~load THEN st' = "open" /\ mem' = <<>> /\ acc' = <<>> /\ res' = [kind |-> "ok"]
     ELSE IF WalkOK THEN /\ st' = "open" /\ res' = [kind |-> "ok"]
                         /\ mem' = (IF Mutant = "loadrev" THEN [i \in 1..Len(Walk) |-> Walk[Len(Walk) + 1 - i]] ELSE Walk)
                         /\ acc' = mem'
     ELSE st' = "hung" /\ mem' = <<>> /\ acc' = <<>> /\ res' = [kind |-> "hang"]    \* LoadFromDB never returns
  /\ act' = [name |-> "Reopen", load |-> load]
  /\ UNCHANGED <<Db, pu, Chain, Bounds, want, owed, wlog, exec, out>>

(* the chain advances: the first block deploys the accounts, a later one moves one nonce *)
StoreBlock(a) ==
  /\ nblk < MaxBlocks /\ nblk' = nblk + 1
  /\ height' = height + 1
  /\ hn' = IF height = 0 THEN hn ELSE [hn EXCEPT ![a] = @ + 1]
  /\ act' = [name |-> "StoreBlock", a |-> a] /\ res' = [kind |-> "none"]
  /\ UNCHANGED <<st, mem, wq, wcur, Db, token, pu, cs, npush, nfail, ncrash, nclose, npop, nerr, nfatal, Ghosts, out>>

Next ==
  \/ \E p \in Pushers : (\E t \in Txs : PushStart(p, t)) \/ PushInternal(p)
  \/ WTake \/ WWrite("ok") \/ WWrite("fail") \/ WLen
  \/ Pop \/ (\E n \in 0..(Batch + 1) : PopBatch(n)) \/ WaitPoll
  \/ \E c \in Consumers : CWake(c) \/ \E o \in {"ok", "txerr", "fatal"} : CDrain(c, o)
  \/ Close \/ CloseDone \/ Crash \/ Reopen(TRUE) \/ Reopen(FALSE)
  \/ \E a \in Accs : StoreBlock(a)

Spec == Init /\ [][Next]_vars
FairSpec == Spec /\ WF_vars(WTake) /\ WF_vars(WWrite("ok"))
                 /\ (\A p \in Pushers : WF_vars(PushInternal(p)))
                 /\ (\A c \in Consumers : WF_vars(CWake(c)) /\ WF_vars(CDrain(c, "ok")))

(* ================================================================ properties *)
TypeOK ==
  /\ st \in {"open", "closing", "closed", "down", "hung"}
  /\ token \in {0, 1} /\ wcur \in Txs \cup {None}
  /\ Len(wq) <= Max
  /\ dh \in Txs \cup {None} /\ dt \in Txs \cup {None} /\ dl \in 0..MaxPush

(* every accepted transaction is popped exactly once, in FIFO order, by exactly one Pop:
   what was popped followed by what is still queued is exactly what was appended, in order *)
ExactlyOnceFIFO == popd \o mem = acc

(* a Push that returns an error has done nothing *)
RejectHasNoEffect ==
  [][\A p \in Pushers : (pu[p].pc # "idle" /\ pu'[p].pc = "idle" /\ out'[p] \notin {"ok", "crashed", "panic-after-push"})
        => (~pu[p].eff /\ mem' = mem /\ wq' = wq /\ token' = token /\ <<dh, dt, dl, dn>>' = <<dh, dt, dl, dn>>)]_vars

(* capacity.  An append happens only below the limit; sequentially the pool never grows beyond
   Max-1 by a Push (LoadFromDB is not bounded); the unlocked length read lets n concurrent pushers
   overshoot by n-1 *)
CapacityOnPush ==
  [][act'.name = "MemPush" /\ Len(mem') > Len(mem) => Len(mem') <= Max - 2 + NPushers]_vars
StrictCapacityOnPush ==
  [][act'.name = "MemPush" /\ Len(mem') > Len(mem) => Len(mem') <= Max - 1]_vars

(* the persistent list is a well-formed queue: the walk from the head record ends, has the
   recorded length, ends at the tail record, repeats nothing and reaches every node *)
DbConsistent ==
  /\ WalkOK
  /\ Len(Walk) = dl
  /\ (dl = 0) = (dh = None) /\ (dl = 0) = (dt = None)
  /\ (dl > 0 => Walk[Len(Walk)] = dt)
  /\ NoDup(Walk)
  /\ {t \in Txs : dn[t] # Absent} = Range(Walk)

(* the list is exactly the transactions whose batch was applied, in that order *)
DbIsLog == WalkOK /\ Walk = wlog

(* durability.  While no write failed, what is persisted is a prefix of what was handed to the
   writer, in that order.  Always: a transaction handed to the writer is persisted, or still on
   its way, or its write failure was logged — nothing disappears silently; and a graceful Close
   persists everything owed. *)
DurablePrefix == nfail = 0 => (WalkOK /\ IsPrefix(Walk, want))
NothingDropped == LET inflight == (IF wcur = None THEN <<>> ELSE <<wcur>>) \o wq
                  IN \A t \in owed : t \in Range(wlog) \/ t \in Range(inflight)
CloseFlushesAll == st = "closed" => (WalkOK /\ owed \subseteq Range(Walk) /\ (nfail = 0 => Walk = want))

(* after New + LoadFromDB the pool holds exactly the persistent list *)
ReloadIsTheLog ==
  [][(act'.name = "Reopen" /\ act'.load /\ st' = "open") => mem' = Walk]_vars

(* refuted as coded (nothing is ever removed from the database): a transaction popped before a
   restart is handed out again after it *)
NoRevival == \A i \in DOMAIN mem : mem[i] \notin everPopped

(* persisted order = pop order (within the first incarnation); refuted for concurrent pushers *)
SameOrder ==
  (NoDup(acc) /\ ncrash = 0 /\ nclose = 0) => \A i, j \in DOMAIN acc : \A k, l \in DOMAIN want :
                  (i < j /\ want[k] = acc[i] /\ want[l] = acc[j]) => k < l

(* no lost wake-up: while the pool is open, when every live listener sleeps on Wait(), no token is
   pending and no pusher is between its append and its signal, the pool is empty.  (A Push racing
   with Close panics in its channel send; in the repaired order that is after the append — the
   listener of a closing pool is not woken for it.) *)
Live == {c \in Consumers : cs[c] \in {"drain", "wait"}}
NoLostWakeup ==
  (st = "open" /\ Live # {} /\ (\A c \in Live : cs[c] = "wait") /\ token = 0 /\ (\A p \in Pushers : ~pu[p].pushed))
     => mem = <<>>

(* the cause of a lost wake-up, visible from outside: the token is never there before the
   transaction is (while nothing was popped and the token was not taken) *)
TokenAfterAppend == (token = 1 /\ popd = <<>> /\ st = "open") => mem # <<>>

(* the executor sees every popped transaction exactly once, in order (batches of <= Batch) *)
RECURSIVE Flat(_)
Flat(s) == IF s = <<>> THEN <<>> ELSE Head(s)[1] \o Flat(Tail(s))
ExecBatchBound == \A i \in DOMAIN exec : Len(exec[i][1]) \in 1..Batch

(* liveness (FairSpec, no crash / close / fatal error): whatever is accepted is eventually consumed *)
EventuallyDrained == <>[](mem = <<>>)
EventuallyPersisted == <>[](wq = <<>> /\ wcur = None)
=============================================================================

---------------------------- MODULE MempoolTrace ----------------------------
(* Trace validation of the concurrent rounds against Mempool.tla.

   The harness runs real goroutines on one real SequencerMempool: pushers (Push), poppers (Pop /
   PopBatch(n)) and Wait-based consumers (PopBatch until empty, then block on Wait()).  Every call
   logs a start and an end event, appended to ONE log under a mutex (so "a ended before b
   started" in the log is real-time order).  The steps of a call between its two events, the
   writer goroutine's steps and the drain of Close are silent:

     PushS p t        PushStart(p, t)            silent: VLen VState Enq Drop MemPush Signal
     PushE p out      the call is finished and returned `out`
     PopS c op n      a Pop (op = "pop") or PopBatch(n) call starts     silent: the Pop / PopBatch step
     PopE c kind txs  ... and returned that
     WaitS c / WaitE c   a blocking receive on Wait()                    silent: the token receive
     CloseS / CloseE     Close() (after every other thread has stopped)  silent: WTake WWrite CloseDone
     Final mem walk h t l n   what is left in the pool (drained) and the persistent list after Close
     Reset            next round: new pool on a new database

   Acceptance: high-water mark of the consumed line number (TLCSet register 1), depth-first queue. *)
EXTENDS MCMempool, Json

VARIABLES l, pend
tvars == <<vars, l, pend>>
Trace == ndJsonDeserialize("trace.ndjson")
NT == 8          \* popper / consumer thread ids 1..NT

NoPend == [op |-> "none", n |-> 0, st |-> "none", kind |-> "none", txs |-> <<>>]

TraceInit == Init /\ l = 1 /\ pend = [c \in 1..NT |-> NoPend]
IsEvent(e) == l <= Len(Trace) /\ Trace[l].ev = e /\ l' = l + 1
E == Trace[l]

TReset ==
  /\ IsEvent("Reset")
  /\ st' = "open" /\ mem' = <<>> /\ wq' = <<>> /\ wcur' = None
  /\ dh' = None /\ dt' = None /\ dl' = 0 /\ dn' = [t \in Txs |-> Absent]
  /\ token' = 0 /\ pu' = [p \in Pushers |-> IdleP] /\ cs' = [c \in Consumers |-> "drain"]
  /\ height' = (IF StartEmpty THEN 0 ELSE 1) /\ hn' = [a \in Accs |-> 0]
  /\ npush' = 0 /\ nblk' = 0 /\ nfail' = 0 /\ ncrash' = 0 /\ nclose' = 0 /\ npop' = 0 /\ nerr' = 0 /\ nfatal' = 0
  /\ acc' = <<>> /\ popd' = <<>> /\ everPopped' = {} /\ want' = <<>> /\ owed' = {} /\ wlog' = <<>> /\ exec' = <<>>
  /\ out' = [p \in Pushers |-> "none"] /\ act' = [name |-> "Init"] /\ res' = [kind |-> "none"]
  /\ pend' = [c \in 1..NT |-> NoPend]

TPushS == IsEvent("PushS") /\ PushStart(E.p, E.t) /\ UNCHANGED pend
TPushE == /\ IsEvent("PushE") /\ pu[E.p].pc = "idle" /\ out[E.p] = E.out
          /\ UNCHANGED <<vars, pend>>

TPopS == /\ IsEvent("PopS") /\ pend[E.c].st = "none"
         /\ pend' = [pend EXCEPT ![E.c] = [NoPend EXCEPT !.op = E.op, !.n = E.n, !.st = "started"]]
         /\ UNCHANGED vars
LinPop(c) ==
  /\ pend[c].st = "started" /\ pend[c].op \in {"pop", "batch"}
  /\ IF pend[c].op = "pop" THEN Pop ELSE PopBatch(pend[c].n)
  /\ pend' = [pend EXCEPT ![c] = [@ EXCEPT !.st = "done", !.kind = res'.kind,
                                           !.txs = IF res'.kind = "txs" THEN res'.txs ELSE <<>>]]
  /\ UNCHANGED l
TPopE == /\ IsEvent("PopE") /\ pend[E.c].st = "done"
         /\ pend[E.c].kind = E.kind /\ pend[E.c].txs = E.txs
         /\ pend' = [pend EXCEPT ![E.c] = NoPend]
         /\ UNCHANGED vars

TWaitS == /\ IsEvent("WaitS") /\ pend[E.c].st = "none"
          /\ pend' = [pend EXCEPT ![E.c] = [NoPend EXCEPT !.op = "wait", !.st = "started"]]
          /\ UNCHANGED vars
LinWait(c) ==
  /\ pend[c].st = "started" /\ pend[c].op = "wait" /\ token = 1
  /\ WaitPoll
  /\ pend' = [pend EXCEPT ![c] = [@ EXCEPT !.st = "done"]]
  /\ UNCHANGED l
TWaitE == /\ IsEvent("WaitE") /\ pend[E.c].st = "done" /\ pend[E.c].op = "wait"
          /\ pend' = [pend EXCEPT ![E.c] = NoPend]
          /\ UNCHANGED vars
(* a consumer that is told to stop while it sleeps on Wait() received nothing *)
TWaitX == /\ IsEvent("WaitX") /\ pend[E.c].st = "started" /\ pend[E.c].op = "wait"
          /\ pend' = [pend EXCEPT ![E.c] = NoPend]
          /\ UNCHANGED vars

TCloseS == IsEvent("CloseS") /\ Close /\ UNCHANGED pend
TCloseE == IsEvent("CloseE") /\ st = "closed" /\ UNCHANGED <<vars, pend>>

TFinal ==
  /\ IsEvent("Final")
  /\ mem = E.mem /\ Walk = E.walk /\ dh = E.h /\ dt = E.t /\ dl = E.l /\ dn = E.n
  /\ UNCHANGED <<vars, pend>>

Silent ==
  /\ \/ \E p \in Pushers : PushInternal(p)
     \/ WTake \/ WWrite("ok") \/ CloseDone
  /\ UNCHANGED <<l, pend>>

TraceNext ==
  \/ TReset \/ TPushS \/ TPushE \/ TPopS \/ TPopE \/ TWaitS \/ TWaitE \/ TWaitX \/ TCloseS \/ TCloseE \/ TFinal
  \/ Silent
  \/ \E c \in 1..NT : LinPop(c) \/ LinWait(c)

ASSUME TLCSet(1, 0)
HighWater == IF l > TLCGet(1) THEN TLCSet(1, l) ELSE TRUE
TraceConstraint == HighWater
TraceAccepted == IF TLCGet(1) = Len(Trace) + 1 THEN TRUE
                 ELSE PrintT(<<"HIGHWATER", TLCGet(1)>>) /\ FALSE
(* hidden from the fingerprint: bookkeeping that only grows *)
TraceView == <<st, mem, wq, wcur, dh, dt, dl, dn, token, pu, out, l, pend>>
=============================================================================

\* EXPECTED VIOLATION NothingDropped: as coded a full write channel discards a waiting transaction
CONSTANTS NTx = 3 Kind <- KindS Sender <- SenderS Nonce <- NonceS NAccs = 1 Accs <- MCAccs StartEmpty = FALSE
  Max = 2 NPushers = 1 NConsumers = 0 Batch = 2
  MaxPush = 4 MaxBlocks = 0 MaxFail = 0 MaxCrash = 0 MaxClose = 0 MaxPops = 3 MaxExecErr = 0 MaxFatal = 0
  DedupFix = TRUE OverflowFix = FALSE Mutant = "none"
INIT Init
NEXT Next
VIEW view
INVARIANTS NothingDropped
CHECK_DEADLOCK FALSE

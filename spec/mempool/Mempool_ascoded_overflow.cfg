\* the code as it is where the write channel fills (Drop fires): what still holds
\* measured: 165 952 / 620 276, depth 39 (distinct / generated states)
CONSTANTS NTx = 3 Kind <- KindS Sender <- SenderS Nonce <- NonceS NAccs = 1 Accs <- MCAccs StartEmpty = FALSE
  Max = 2 NPushers = 1 NConsumers = 0 Batch = 2
  MaxPush = 4 MaxBlocks = 0 MaxFail = 0 MaxCrash = 0 MaxClose = 1 MaxPops = 3 MaxExecErr = 0 MaxFatal = 0
  DedupFix = FALSE OverflowFix = FALSE Mutant = "none"
INIT Init
NEXT Next
VIEW view
INVARIANTS TypeOK ExactlyOnceFIFO NoLostWakeup TokenAfterAppend ExecBatchBound
PROPERTIES RejectHasNoEffect CapacityOnPush StrictCapacityOnPush ReloadIsTheLog
CHECK_DEADLOCK FALSE

\* liveness, as coded
\* measured: 54 218 / 173 644, depth 31 (distinct / generated states)
CONSTANTS NTx = 2 Kind <- KindS Sender <- SenderS Nonce <- NonceS NAccs = 1 Accs <- MCAccs StartEmpty = FALSE
  Max = 3 NPushers = 2 NConsumers = 1 Batch = 2
  MaxPush = 3 MaxBlocks = 0 MaxFail = 0 MaxCrash = 0 MaxClose = 0 MaxPops = 0 MaxExecErr = 0 MaxFatal = 0
  DedupFix = FALSE OverflowFix = FALSE Mutant = "none"
SPECIFICATION FairSpec
VIEW view
INVARIANTS TypeOK
PROPERTIES EventuallyDrained EventuallyPersisted
CHECK_DEADLOCK FALSE

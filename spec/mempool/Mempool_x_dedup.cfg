\* EXPECTED VIOLATION DbConsistent: as coded a transaction pushed twice corrupts the persistent list
CONSTANTS NTx = 3 Kind <- KindS Sender <- SenderS Nonce <- NonceS NAccs = 1 Accs <- MCAccs StartEmpty = FALSE
  Max = 3 NPushers = 1 NConsumers = 0 Batch = 2
  MaxPush = 4 MaxBlocks = 1 MaxFail = 0 MaxCrash = 0 MaxClose = 0 MaxPops = 1 MaxExecErr = 0 MaxFatal = 0
  DedupFix = FALSE OverflowFix = TRUE Mutant = "none"
INIT Init
NEXT Next
VIEW view
INVARIANTS DbConsistent
CHECK_DEADLOCK FALSE

\* EXPECTED VIOLATION TokenAfterAppend: mutant sigfirst2
CONSTANTS NTx = 3 Kind <- KindS Sender <- SenderS Nonce <- NonceS NAccs = 1 Accs <- MCAccs StartEmpty = FALSE
  Max = 3 NPushers = 1 NConsumers = 0 Batch = 2
  MaxPush = 4 MaxBlocks = 1 MaxFail = 0 MaxCrash = 0 MaxClose = 1 MaxPops = 2 MaxExecErr = 0 MaxFatal = 0
  DedupFix = TRUE OverflowFix = TRUE Mutant = "sigfirst"
INIT Init
NEXT Next
VIEW view
INVARIANTS TokenAfterAppend
CHECK_DEADLOCK FALSE

\* trace validation of the sequencer's listener (the check rewrites the two switches and Max)
CONSTANTS NTx = 48 Kind <- KindV Sender <- SenderV Nonce <- NonceV NAccs = 2 Accs <- MCAccs StartEmpty = FALSE
  Max = 8 NPushers = 2 NConsumers = 1 Batch = 10
  MaxPush = 1000000 MaxBlocks = 0 MaxFail = 0 MaxCrash = 0 MaxClose = 0 MaxPops = 0 MaxExecErr = 1000000 MaxFatal = 1000000
  DedupFix = FALSE OverflowFix = FALSE Mutant = "none"
INIT TraceInit
NEXT TraceNext
VIEW TraceView
CONSTRAINT TraceConstraint
POSTCONDITION TraceAccepted
INVARIANTS TypeOK ExactlyOnceFIFO NoLostWakeup ExecBatchBound
CHECK_DEADLOCK FALSE

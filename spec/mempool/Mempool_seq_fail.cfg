\* repaired model, a failing batch write (hole in the log)
\* measured: 262 400 / 802 166, depth 38 (distinct / generated states)
CONSTANTS NTx = 3 Kind <- KindS Sender <- SenderS Nonce <- NonceS NAccs = 1 Accs <- MCAccs StartEmpty = FALSE
  Max = 3 NPushers = 1 NConsumers = 0 Batch = 2
  MaxPush = 4 MaxBlocks = 1 MaxFail = 1 MaxCrash = 0 MaxClose = 1 MaxPops = 1 MaxExecErr = 0 MaxFatal = 0
  DedupFix = TRUE OverflowFix = TRUE Mutant = "none"
INIT Init
NEXT Next
VIEW view
INVARIANTS TypeOK ExactlyOnceFIFO DbConsistent DbIsLog DurablePrefix NothingDropped CloseFlushesAll SameOrder NoLostWakeup TokenAfterAppend ExecBatchBound
PROPERTIES RejectHasNoEffect CapacityOnPush StrictCapacityOnPush ReloadIsTheLog
CHECK_DEADLOCK FALSE

\* EXPECTED VIOLATION SameOrder: two concurrent pushers are persisted in the other order than they are popped
CONSTANTS NTx = 2 Kind <- KindS Sender <- SenderS Nonce <- NonceS NAccs = 1 Accs <- MCAccs StartEmpty = FALSE
  Max = 3 NPushers = 2 NConsumers = 0 Batch = 2
  MaxPush = 2 MaxBlocks = 0 MaxFail = 0 MaxCrash = 0 MaxClose = 0 MaxPops = 0 MaxExecErr = 0 MaxFatal = 0
  DedupFix = FALSE OverflowFix = FALSE Mutant = "none"
INIT Init
NEXT Next
VIEW view
INVARIANTS SameOrder
CHECK_DEADLOCK FALSE

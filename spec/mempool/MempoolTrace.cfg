\* trace validation of the concurrent rounds (the check rewrites the two switches)
CONSTANTS NTx = 10 Kind <- KindF Sender <- SenderF Nonce <- NonceF NAccs = 2 Accs <- MCAccs StartEmpty = FALSE
  Max = 4 NPushers = 2 NConsumers = 0 Batch = 2
  MaxPush = 1000000 MaxBlocks = 0 MaxFail = 0 MaxCrash = 0 MaxClose = 1000000 MaxPops = 1000000 MaxExecErr = 0 MaxFatal = 0
  DedupFix = FALSE OverflowFix = FALSE Mutant = "none"
INIT TraceInit
NEXT TraceNext
VIEW TraceView
CONSTRAINT TraceConstraint
POSTCONDITION TraceAccepted
INVARIANTS TypeOK ExactlyOnceFIFO
CHECK_DEADLOCK FALSE

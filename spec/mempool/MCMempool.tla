----------------------------- MODULE MCMempool -----------------------------
(* Constant tables a .cfg cannot express: the transactions' kinds, senders and nonces.
   Accounts are 1..NAccs; sender 0 is an address nothing is deployed at. *)
EXTENDS Mempool

CONSTANT NAccs
MCAccs == 1..NAccs

\* small tables (exhaustive configs): two transactions of account 1 with consecutive nonces, one of account 2
KindS   == <<"invoke", "invoke", "l1handler", "declare">>
SenderS == <<1, 1, 0, 2>>
NonceS  == <<0, 1, 0, 0>>

\* three always-valid transactions (capacity races)
KindL   == <<"l1handler", "l1handler", "l1handler">>
SenderL == <<0, 0, 0>>
NonceL  == <<0, 0, 0>>

\* 48 transactions that are valid whatever the head state is (sequencer trace rounds): odd = L1 handler, even = deploy-account
KindV   == [i \in 1..48 |-> IF i % 2 = 1 THEN "l1handler" ELSE "deployacc"]
SenderV == [i \in 1..48 |-> 0]
NonceV  == [i \in 1..48 |-> 0]

\* the full alphabet (behaviour generation): every validation class of mempool.validate
\*   1 invoke a1 n0 | 2 invoke a1 n1 | 3 invoke a2 n0 | 4 declare a2 n2 | 5 deploy-account n0 | 6 l1 handler
\*   7 legacy deploy (unsupported) | 8 invoke v0 (unsupported) | 9 deploy-account n1 (rejected) | 10 invoke from an undeployed address
KindF   == <<"invoke", "invoke", "invoke", "declare", "deployacc", "l1handler", "deploy", "invoke0", "deployacc", "invoke">>
SenderF == <<1, 1, 2, 2, 0, 0, 0, 0, 0, 0>>
NonceF  == <<0, 1, 0, 2, 0, 0, 0, 0, 1, 0>>
=============================================================================

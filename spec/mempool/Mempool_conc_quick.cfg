\* repaired model, two concurrent pushers, one listener and a free popper
\* measured: 445 230 / 2 177 205, depth 32 (distinct / generated states)
CONSTANTS NTx = 2 Kind <- KindS Sender <- SenderS Nonce <- NonceS NAccs = 1 Accs <- MCAccs StartEmpty = FALSE
  Max = 3 NPushers = 2 NConsumers = 1 Batch = 2
  MaxPush = 3 MaxBlocks = 0 MaxFail = 0 MaxCrash = 0 MaxClose = 0 MaxPops = 1 MaxExecErr = 1 MaxFatal = 1
  DedupFix = TRUE OverflowFix = TRUE Mutant = "none"
INIT Init
NEXT Next
VIEW view
INVARIANTS TypeOK ExactlyOnceFIFO DbConsistent DbIsLog DurablePrefix NothingDropped CloseFlushesAll NoLostWakeup TokenAfterAppend ExecBatchBound
PROPERTIES RejectHasNoEffect CapacityOnPush ReloadIsTheLog
CHECK_DEADLOCK FALSE

\* window dimension of C04, the code as it is: W = 3, base 2 (first modelled block completes window 0), heights up to 6 (two boundaries)
CONSTANTS
  W = 3
  Base = 2
  MaxBlocks = 5
  MaxGraceful = 1
  BlockMenu <- BlocksAB
  FilterMenu <- FiltersK
  AnyRange = FALSE
  PurgeAt <- PurgeAlways
  DropReopenedWindow = TRUE
  SnapshotConsumedOnLoad = TRUE
  ClearRevertedColumn = TRUE
INIT WInit
NEXT WNext
VIEW wview
INVARIANTS WTypeOK TwinSane DiskAsTwin RunningAsTwin AnswersAsTwin NextAsTwin CacheFresh PersistedComplete SnapshotCurrent
PROPERTIES WRestartIsNoOp CallsNeverFail
CHECK_DEADLOCK FALSE

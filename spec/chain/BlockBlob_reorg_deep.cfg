\* exhaustive: chains of <= 3 blocks of 0..1 transactions, <= 3 RevertHead (reorgs of depth <= 3: a transaction moves to another height)
CONSTANTS
  MaxBlocks = 3
  MaxSize = 1
  Lens = {1}
  Kinds <- KindsOne
  EvCounts = {2}
  Revs = {FALSE}
  LastItemRunsToEnd = TRUE
  TxSectionEndsAtReceipts = TRUE
  HashIndexExact = TRUE
  RevertDropsIndexes = TRUE
  MaxReverts = 3
  MemoFamilies = {}
  MemoPurged = TRUE
  FieldTable <- MCFieldTable
  VaryShapes = FALSE
  MaxClasses = 0
  CodecSlip = "none"
  SlipCodecs = {}
INIT Init
NEXT NextR
VIEW view
PROPERTIES RestartIsNoOp ReadIsNoOp
INVARIANTS ItemAccessors OutOfRange BlockAccessors ProjectionsAgree Layout Gone IndexesExact
CHECK_DEADLOCK FALSE

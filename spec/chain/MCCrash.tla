------------------------------ MODULE MCCrash ------------------------------
(* Model-checking instance of Crash: nothing a .cfg cannot express is needed for the constants;
   this module adds the vacuity witnesses (states the properties' antecedents must reach) used by
   checks/C05.py with `-coverage`, and the bounded-exploration constraint of the thorough cfg. *)
EXTENDS Crash

EmptyDB == -1   \* a .cfg cannot hold a negative number: InitH <- EmptyDB

\* antecedent witnesses: each must be violated (= reached) in the exhaustive run when listed as an
\* INVARIANT of Crash_witness.cfg; the check runs that cfg with expect_violation.
NeverFailedWrite == res.kind # "failed"
NeverCrashedMidPrune == ~(res.kind = "crashed" /\ act.name = "PruneStep")
NeverCrossedBack == ~(act.name = "Revert" /\ res.kind = "ok" /\ act.n = Boundary - 1 /\ mem.rf.w = 0 /\ disk.win.present)
=============================================================================

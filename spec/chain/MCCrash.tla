------------------------------ MODULE MCCrash ------------------------------
(* Model-checking instance of Crash: nothing a .cfg cannot express is needed for the constants;
   this module adds EmptyDB (a .cfg cannot hold -1) and the vacuity witnesses: checks/C05.py lists
   each as the only INVARIANT of a run that MUST report it violated (= the situation the
   properties talk about is reachable). *)
EXTENDS Crash

EmptyDB == -1   \* a .cfg cannot hold a negative number: InitH <- EmptyDB

NeverFailedWrite == res.kind # "failed"
NeverCrashedMidPrune == ~(res.kind = "crashed" /\ act.name = "PruneStep")
NeverCrossedBack == ~(act.name = "Revert" /\ res.kind = "ok" /\ act.n = Boundary - 1 /\ mem.rf.w = 0)
=============================================================================

------------------------------ MODULE MCCrash ------------------------------
(* Model-checking instance of Crash: nothing a .cfg cannot express is needed for the constants;
   this module adds EmptyDB (a .cfg cannot hold -1) and the vacuity witnesses: checks/C05.py lists
   each as the only INVARIANT of a run that MUST report it violated (= the situation the
   properties talk about is reachable). *)
EXTENDS Crash

EmptyDB == -1   \* a .cfg cannot hold a negative number: InitH <- EmptyDB

\* every action is taken (TLC's -coverage is not usable here: its cost accounting of the recursive
\* filter-initialisation operators exhausts the heap even on the smallest configuration)
NeverStore == act.name # "Store"
NeverRevert == act.name # "Revert"
NeverSetL1 == act.name # "SetL1"
NeverSnapshot == act.name # "Snapshot"
NeverPrune == act.name # "Prune"
NeverPruneStep == act.name # "PruneStep"
NeverRestart == act.name # "Restart"
NeverQuery == act.name # "Query"
NeverInitPut == ~(act.name \in {"Store", "Revert", "Query", "Snapshot"} /\ res.muts >= 2)
NeverInitFailed == ~(res.kind = "failed" /\ res.init)
NeverInitCrashed == ~(res.kind = "crashed" /\ res.init)
NeverInitFailedInQuery == ~(res.kind = "failed" /\ res.init /\ act.name = "Query")
NeverFailedWrite == res.kind # "failed"
NeverCrashedMidPrune == ~(res.kind = "crashed" /\ act.name = "PruneStep")
NeverCrossedBack == ~(act.name = "Revert" /\ res.kind = "ok" /\ act.n = Boundary - 1 /\ mem.rf.w = 0)
=============================================================================

------------------------------- MODULE MCBlockVerify -------------------------------
(* Constants of BlockVerify that a .cfg cannot express: the table Committed[version].

   Field names are "<group>.<field>[.<alteration>]".  The Go replayer
   (harness/engines/blockverify) has one concrete single-field mutator per name; a name without a
   mutator, or a core struct field that is neither mapped to a name nor listed as deliberately
   uncommitted, makes the check exit 2.

   Sources (S) and arbitration (A) per group - a field is listed only when the protocol commits to
   it AND no real fixture block of that version contradicts:
   hdr.*  S: Starknet block hash, v0.13.2: Poseidon("STARKNET_BLOCK_HASH0", number, state_root,
             sequencer, timestamp, concat(tx_count, event_count, state_diff_length, l1_da_mode),
             state_diff_commitment, tx_commitment, event_commitment, receipt_commitment,
             l1_gas_price_wei, l1_gas_price_fri, l1_data_gas_price_wei, l1_data_gas_price_fri,
             protocol_version, 0, parent_hash); v0.13.4+: "STARKNET_BLOCK_HASH1" and the six prices
             (incl. l2_gas_price wei/fri) folded into gas_prices_hash.
          A: fixtures sepolia-integration 35748..38748 (0.13.2), 64164 (0.13.4), 1164618 (0.14.0),
             sepolia 4072139 (0.14.1) verify with non-default values of every listed field.
          Not listed: events bloom, consensus signatures (not part of the hash by definition);
             l2_gas_price for 0.13.2 (the field does not exist in that version).
   tx.*   S: transaction hash definitions per type/version (invoke v0/v1/v3, declare v1/v2/v3,
             deploy_account v1/v3, l1_handler v0); signatures enter the transaction commitment leaf.
          Not listed: every field of the legacy DEPLOY transaction except its hash - juno
             deliberately does not recompute deploy hashes (deprecated before 0.13.2; documented
             in core/transaction.go TransactionHash); DECLARE v0 likewise.
   rc.* msg.*  S: receipt hash = Poseidon(tx_hash, actual_fee, messages_hash, revert_reason_hash,
             l2_gas, l1_gas, l1_data_gas).
          A: l2_gas consumed is NOT listed - juno hashes a constant zero there and the real 0.13.4 /
             0.14.0 / 0.14.1 fixtures carry non-zero l2_gas and verify, so the network does not
             commit to it.  Not listed: fee unit, execution resources (steps, builtins, memory
             holes, DA gas), the receipt's copy of the L1->L2 message (none is in the receipt hash).
   ev.*   S: event commitment leaf = Poseidon(from, tx_hash, |keys|, keys, |data|, data), index order.
   sd.*   S: state diff commitment = Poseidon("STARKNET_STATE_DIFF0", updated contracts (deployed
             + replaced, sorted), declared classes (+ migrated, sorted), deprecated declared,
             1, 0, storage diffs, nonces); its length enters concat counts.
          Not distinguished by the definition (hence not listed): moving an entry between
             deployed and replaced, or between declared and migrated (these moves are the
             OfferInapplicable family of BlockVerify.tla: the state layer's guards must refuse
             them); nil vs empty sections.
   su.*   the state update's own declared block hash / new root must be the block's.

   Presence / value classes (MCClassFields ...).  For the fields below the representation (feeder
   JSON / core structs) tells ABSENT from PRESENT-ZERO from NON-ZERO, and so do the preimages:
   rb.*   S: SNIP-8 / transaction hash v3: h(tip, L1_GAS bound, L2_GAS bound [, L1_DATA bound]); a bound
             is packed as name(60 bits) | max_amount(64) | max_price_per_unit(128) - an all-zero bound is a
             non-zero element; the L1_DATA element belongs to the preimage of every transaction that carries
             the bound (all transactions since 0.13.4), whatever its value.  A v3 transaction without an
             L1_GAS or L2_GAS bound is malformed (ValidClassOf has no "absent" for them).
          A: fixtures: 197 v3 transactions with two bounds, 100 with three (non-zero) bounds verify.
   arrays (paymaster_data, account_deployment_data, calldata, constructor calldata, proof_facts, signature,
          event keys / data, message payload): absent = [], zero = [0]; h([]) # h([0]) everywhere except the
          0.13.2 / 0.13.3 transaction leaf, which hashes an empty signature as [0] (MCProtoSame).
   felts / integers (tip, nonce, max_fee, actual fee, gas consumed, sequencer, timestamp, prices, event and
          message addresses): zero is a value like any other.
   rc.revert  absent = succeeded (0 is hashed), zero = reverted with the empty reason (keccak("") is hashed),
          nonzero = reverted with a reason. *)
EXTENDS BlockVerify

Hdr == {"hdr.number", "hdr.parent_hash", "hdr.state_root", "hdr.sequencer", "hdr.timestamp",
        "hdr.tx_count", "hdr.event_count", "hdr.l1_da_mode", "hdr.protocol_version",
        "hdr.l1_gas_price_wei", "hdr.l1_gas_price_fri",
        "hdr.l1_data_gas_price_wei", "hdr.l1_data_gas_price_fri"}
HdrL2 == {"hdr.l2_gas_price_wei", "hdr.l2_gas_price_fri"}

Su == {"su.block_hash", "su.new_root"}

\* block-level structure of the transaction list and the per-transaction hash / signature
SigKinds == {"invoke0", "invoke1", "invoke3", "declare1", "declare2", "declare3",
             "deployaccount1", "deployaccount3"}
AllKinds == SigKinds \cup {"l1handler", "deploy"}
TxBlock == {"txs.reorder", "txs.drop_last", "txs.duplicate_last"}
           \cup {"tx." \o k \o ".hash" : k \in AllKinds}
           \cup {"tx." \o k \o ".hash_and_receipt" : k \in AllKinds}
           \cup {"tx." \o k \o ".signature.elem" : k \in SigKinds}
           \cup {"tx." \o k \o ".signature.append" : k \in SigKinds}
           \cup {"tx." \o k \o ".signature.drop" : k \in SigKinds}

P(k, S) == {"tx." \o k \o "." \o f : f \in S}
V3Common == {"nonce", "tip", "paymaster_data", "nonce_da_mode", "fee_da_mode", "version",
             "rb.l1_gas.max_amount", "rb.l1_gas.max_price", "rb.l2_gas.max_amount",
             "rb.l2_gas.max_price", "rb.l1_data_gas.max_amount", "rb.l1_data_gas.max_price",
             "rb.l1_data_gas.drop"}
TxInvoke3 == P("invoke3", V3Common \cup {"sender_address", "calldata.elem", "calldata.append",
                                        "account_deployment_data"})
TxL1Handler == P("l1handler", {"contract_address", "entry_point_selector", "calldata.elem",
                               "calldata.append", "nonce", "version"})
TxLevel ==
  P("invoke0", {"contract_address", "entry_point_selector", "calldata.elem", "calldata.append",
                "max_fee", "version"})
  \cup P("invoke1", {"sender_address", "calldata.elem", "calldata.append", "max_fee", "nonce", "version"})
  \cup TxInvoke3
  \cup P("declare1", {"class_hash", "sender_address", "max_fee", "nonce", "version"})
  \cup P("declare2", {"class_hash", "sender_address", "max_fee", "nonce", "compiled_class_hash", "version"})
  \cup P("declare3", V3Common \cup {"class_hash", "sender_address", "compiled_class_hash",
                                    "account_deployment_data"})
  \cup P("deployaccount1", {"contract_address", "class_hash", "salt", "ctor_calldata.elem",
                            "ctor_calldata.append", "max_fee", "nonce", "version"})
  \cup P("deployaccount3", V3Common \cup {"contract_address", "class_hash", "salt",
                                          "ctor_calldata.elem", "ctor_calldata.append"})
  \cup TxL1Handler
TxProofFacts == {"tx.invoke3.proof_facts"}        \* optional field introduced with 0.14.1

Rc == {"rc.fee", "rc.tx_hash", "rc.execution_status.revert", "rc.execution_status.unrevert",
       "rc.revert_reason", "rc.l1_gas_consumed", "rc.l1_data_gas_consumed",
       "msg.from", "msg.to", "msg.payload.elem", "msg.payload.append", "msg.payload.drop",
       "msg.add", "msg.remove", "msg.reorder", "msg.move"}
Ev == {"ev.from", "ev.key.elem", "ev.key.append", "ev.key.drop", "ev.data.elem", "ev.data.append",
       "ev.data.drop", "ev.key_to_data", "ev.add", "ev.remove", "ev.reorder", "ev.move"}

Sd == {"sd.storage.value", "sd.storage.key", "sd.storage.addr", "sd.storage.add", "sd.storage.remove",
       "sd.nonce.value", "sd.nonce.addr", "sd.nonce.add", "sd.nonce.remove",
       "sd.deployed.class_hash", "sd.deployed.addr", "sd.deployed.add", "sd.deployed.remove",
       "sd.declared_v0.alter", "sd.declared_v0.add", "sd.declared_v0.remove",
       "sd.declared_v1.compiled_class_hash", "sd.declared_v1.class_hash", "sd.declared_v1.add",
       "sd.declared_v1.remove",
       "sd.replaced.class_hash", "sd.replaced.add", "sd.replaced.remove"}
SdMigrated == {"sd.migrated.casm_hash", "sd.migrated.add", "sd.migrated.remove"}   \* 0.14.1

Base == Hdr \cup Su \cup TxBlock \cup TxLevel \cup Rc \cup Ev \cup Sd

--------------------------------------------------------------------------------
(* presence / value classes: the committed fields that have the dimension, per transaction kind *)
Cls3 == {"absent", "zero", "nonzero"}
Cls2 == {"zero", "nonzero"}
V3Kinds == {"invoke3", "declare3", "deployaccount3"}
TxCls3 == UNION {P(k, {"rb.l1_gas", "rb.l2_gas", "rb.l1_data_gas", "paymaster_data"}) : k \in V3Kinds}
          \cup P("invoke3", {"account_deployment_data", "calldata", "proof_facts"})
          \cup P("declare3", {"account_deployment_data"})
          \cup P("deployaccount3", {"ctor_calldata"})
          \cup P("invoke0", {"calldata"}) \cup P("invoke1", {"calldata"}) \cup P("deployaccount1", {"ctor_calldata"})
TxCls2 == UNION {P(k, {"tip", "nonce"}) : k \in V3Kinds}
          \cup P("invoke0", {"max_fee"}) \cup P("invoke1", {"max_fee", "nonce"})
          \cup P("declare1", {"max_fee", "nonce"}) \cup P("declare2", {"max_fee", "nonce"})
          \cup P("deployaccount1", {"max_fee", "nonce"}) \cup P("l1handler", {"nonce"})
SigCls == {"tx." \o k \o ".signature" : k \in SigKinds}
BlkCls3 == SigCls \cup {"rc.revert", "ev.keys", "ev.data", "msg.payload"}
HdrCls == {"hdr.sequencer", "hdr.timestamp", "hdr.l1_gas_price_wei", "hdr.l1_gas_price_fri",
           "hdr.l1_data_gas_price_wei", "hdr.l1_data_gas_price_fri"}
RcCls2 == {"rc.fee", "rc.l1_gas_consumed", "rc.l1_data_gas_consumed"}
EvMsgCls2 == {"ev.from", "msg.from", "msg.to"}
BlkCls2 == RcCls2 \cup EvMsgCls2 \cup HdrCls \cup HdrL2

MCTxClassFields == TxCls3 \cup TxCls2
MCClassFields == MCTxClassFields \cup BlkCls3 \cup BlkCls2
MCClassOf == [f \in MCClassFields |-> IF f \in TxCls3 \cup BlkCls3 THEN Cls3 ELSE Cls2]
(* a v3 transaction always has an L1_GAS and an L2_GAS bound *)
MandatoryBounds == UNION {P(k, {"rb.l1_gas", "rb.l2_gas"}) : k \in V3Kinds}
MCValidClassOf == [f \in MCClassFields |-> IF f \in MandatoryBounds THEN Cls2 ELSE MCClassOf[f]]
MCClassIn ==
  [v \in {"0.13.2", "0.13.4", "0.14.0", "0.14.1"} |->
     CASE v = "0.13.2" -> MCClassFields \ (HdrL2 \cup TxProofFacts)
       [] v = "0.13.4" -> MCClassFields \ TxProofFacts
       [] v = "0.14.0" -> MCClassFields \ TxProofFacts
       [] v = "0.14.1" -> MCClassFields]
(* 0.13.2: the transaction leaf hashes an empty signature as [0] *)
MCProtoSame == [v \in {"0.13.2", "0.13.4", "0.14.0", "0.14.1"} |-> IF v = "0.13.2" THEN SigCls ELSE {}]

MCVersions == <<"0.13.2", "0.13.4", "0.14.0", "0.14.1">>
MCCommitted ==
  [v \in {"0.13.2", "0.13.4", "0.14.0", "0.14.1"} |->
     CASE v = "0.13.2" -> Base
       [] v = "0.13.4" -> Base \cup HdrL2
       [] v = "0.14.0" -> Base \cup HdrL2
       [] v = "0.14.1" -> Base \cup HdrL2 \cup SdMigrated \cup TxProofFacts]
MCTxFields == TxLevel \cup TxProofFacts
MCSdFields == Sd \cup SdMigrated
MCSuFields == Su

(* shapes: which tamperings have a target.  "full" populates everything.  "emptydiff" has every
   transaction kind but not one state-diff entry (only the .add alterations apply to its diff).
   "empty" has neither transactions nor diff entries.  "bare" has an invoke v3 and an L1 handler
   transaction without events, messages or reverts, and a diff that only deploys one contract
   (no classes).  "zero" and "void" are the two shapes of the class dimension: the transactions,
   receipts, events and messages of "full" over an empty diff, with EVERY class field present-zero
   ("zero": tip 0, (0,0) bounds, [0] arrays, nonce / fee / prices / timestamp 0, reverted with the
   empty reason ...) resp. absent where a valid block can leave it out and non-zero elsewhere ("void":
   two-bound v3 transactions, empty arrays, no revert).  Their hashes are the REFERENCE's. *)
SdAdds == {"sd.storage.add", "sd.nonce.add", "sd.deployed.add", "sd.declared_v0.add",
           "sd.declared_v1.add", "sd.replaced.add", "sd.migrated.add"}
All == Base \cup HdrL2 \cup SdMigrated \cup TxProofFacts
(* value alterations that have a target in the class shapes: a zero is a value like any other, so every
   field of a block whose fields are all zero can be bumped - and must be: a hash function that stops
   looking at a transaction once some field is zero (an L1 handler with nonce 0 taken for one without
   nonce) accepts them.  Not offered: what needs two DISTINCT events / messages in one receipt or a
   receipt that did not revert ("zero": all alike, all reverted), what needs an element to alter
   ("void": empty arrays, no l1_data_gas bound), and dropping the single 0 of a signature, which the
   0.13.2 transaction leaf does not tell from the empty signature. *)
SigDrops == {"tx." \o k \o ".signature.drop" : k \in SigKinds}
SigElems == {"tx." \o k \o ".signature.elem" : k \in SigKinds}
ClsArrayElems == {"tx.invoke0.calldata.elem", "tx.invoke1.calldata.elem", "tx.invoke3.calldata.elem",
                  "tx.deployaccount1.ctor_calldata.elem", "tx.deployaccount3.ctor_calldata.elem"}
RbDataAlters == UNION {P(k, {"rb.l1_data_gas.max_amount", "rb.l1_data_gas.max_price", "rb.l1_data_gas.drop"}) : k \in V3Kinds}
ClsShapeCommon == Hdr \cup HdrL2 \cup Su \cup SdAdds \cup TxLevel \cup TxProofFacts \cup (TxBlock \ SigDrops)
                  \cup {"rc.fee", "rc.tx_hash", "rc.l1_gas_consumed", "rc.l1_data_gas_consumed",
                        "msg.from", "msg.to", "msg.payload.append", "msg.add", "msg.remove", "msg.move", "ev.add"}
ZeroTargets == ClsShapeCommon
               \cup {"rc.execution_status.unrevert", "rc.revert_reason", "msg.payload.elem", "msg.payload.drop",
                     "ev.from", "ev.key.elem", "ev.key.append", "ev.key.drop", "ev.data.elem", "ev.data.append",
                     "ev.data.drop", "ev.key_to_data", "ev.remove", "ev.move"}
VoidTargets == (ClsShapeCommon \ (ClsArrayElems \cup RbDataAlters \cup SigElems))
               \cup {"rc.execution_status.revert", "msg.reorder", "ev.reorder"}
MCShapes == {"full", "emptydiff", "empty", "bare", "zero", "void"}
MCShapesFour == {"full", "emptydiff", "empty", "bare"}
MCShapesCls == {"full", "zero", "void"}
MCTargets ==
  [s \in MCShapes |->
     CASE s = "zero" -> ZeroTargets
       [] s = "void" -> VoidTargets
       [] s = "full" -> All
       [] s = "emptydiff" -> All \ ((Sd \cup SdMigrated) \ SdAdds)
       [] s = "empty" -> Hdr \cup HdrL2 \cup Su \cup SdAdds
       [] s = "bare" -> Hdr \cup HdrL2 \cup Su \cup SdAdds \cup TxInvoke3 \cup TxL1Handler \cup TxProofFacts
                        \cup {"txs.reorder", "txs.drop_last", "txs.duplicate_last",
                              "tx.invoke3.hash", "tx.invoke3.hash_and_receipt", "tx.l1handler.hash",
                              "tx.l1handler.hash_and_receipt", "tx.invoke3.signature.elem",
                              "tx.invoke3.signature.append", "tx.invoke3.signature.drop",
                              "rc.fee", "rc.tx_hash", "rc.execution_status.revert",
                              "rc.l1_gas_consumed", "rc.l1_data_gas_consumed", "msg.add", "ev.add",
                              "sd.deployed.class_hash", "sd.deployed.addr", "sd.deployed.remove"}]
MCShapesTwo == {"full", "emptydiff"}
MCEmptyDiffShapes == {"emptydiff", "empty", "zero", "void"}
MCClassShapes == {"full"}
MCDeployShapes == {"full", "bare"}      \* "full" deploys two contracts, "bare" one (nonce 0, no storage)

(* which class fields have a carrier in a block of each shape, and the class the builder gives them *)
BareCarried == P("invoke3", {"rb.l1_gas", "rb.l2_gas", "rb.l1_data_gas", "paymaster_data", "account_deployment_data",
                             "calldata", "proof_facts", "tip", "nonce"})
               \cup {"tx.invoke3.signature", "tx.l1handler.nonce"} \cup RcCls2 \cup {"rc.revert"} \cup HdrCls \cup HdrL2
MCCarried == [s \in MCShapes |->
                CASE s = "empty" -> HdrCls \cup HdrL2
                  [] s = "bare" -> BareCarried
                  [] OTHER -> MCClassFields]
MCShapeClass ==
  [s \in MCShapes |-> [f \in MCClassFields |->
     IF f \notin MCCarried[s] THEN "none"
     ELSE CASE s = "zero" -> "zero"
            [] s = "void" -> IF "absent" \in MCValidClassOf[f] THEN "absent" ELSE "nonzero"
            [] OTHER -> IF f = "rc.revert" /\ s # "emptydiff" THEN "absent" ELSE "nonzero"]]
                        \* (the first receipt is a success, in "emptydiff" blocks a revert with a reason)
(* mutants of the hash functions: present-zero hashed like absent *)
MCZeroBoundDropped == UNION {P(k, {"rb.l1_data_gas"}) : k \in V3Kinds}     \* "an all-zero l1_data_gas bound counts as absent"
MCZeroTipSkipped == UNION {P(k, {"tip"}) : k \in V3Kinds}                 \* "tip 0 is not hashed"
MCEmptyReasonAsSuccess == {"rc.revert"}                                   \* "an empty revert reason hashes as 0"
MCNone == {}

(* older formats: used only for the repository's real fixture chains (no synthetic builder).
   post-0.7 Pedersen hash: number, state root, sequencer, timestamp, tx count, tx commitment
   (tx hash + signature), event count, event commitment (from, keys, data), parent hash;
   transaction hashes are recomputed from 0.11.0 on.  Gas prices, protocol version, receipts,
   messages and the state diff are not part of these hashes. *)
LegacyHdr == {"hdr.number", "hdr.parent_hash", "hdr.state_root", "hdr.sequencer", "hdr.timestamp",
              "hdr.tx_count", "hdr.event_count"}
LegacyEv == {"ev.from", "ev.key.elem", "ev.key.append", "ev.data.elem", "ev.data.append",
             "ev.add", "ev.remove", "ev.reorder"}
LegacyTxBlock == {"txs.reorder", "txs.drop_last", "rc.tx_hash"}
                 \cup {"tx." \o k \o ".hash_and_receipt" : k \in AllKinds}
                 \cup {"tx." \o k \o ".hash" : k \in AllKinds}
LegacyCommitted ==
  [c \in {"pre-0.7", "0.7-0.10", "0.11-0.13.1"} |->
     CASE c = "pre-0.7" -> {"hdr.number", "hdr.parent_hash", "hdr.state_root", "hdr.tx_count"}
                           \cup LegacyTxBlock \cup Su
       [] c = "0.7-0.10" -> LegacyHdr \cup LegacyTxBlock \cup LegacyEv \cup Su
       [] c = "0.11-0.13.1" -> LegacyHdr \cup LegacyTxBlock \cup LegacyEv \cup Su \cup TxLevel
                               \cup {"tx." \o k \o ".signature.elem" : k \in {"invoke0", "invoke1", "invoke3"}}]
=============================================================================

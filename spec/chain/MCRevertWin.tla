------------------------------- MODULE MCRevertWin -------------------------------
(* Model-checking instance of RevertWin: the menus and the purge policies a .cfg cannot express. *)
EXTENDS RevertWin

Addrs == {"a1", "a2"}
Keys == {"k1", "k2"}

E(a, ks) == [a |-> a, k |-> ks]
F(as, ks) == [addrs |-> as, keys |-> ks]

\* ---- block menus (a block = sequence of transactions = sequence of sequences of events)
BlkEmpty == <<>>
BlkA == << <<E("a1", <<"k1">>)>> >>                 \* fork A's kind of block: one tx, one event
BlkB == << <<E("a2", <<"k2">>)>> >>                 \* fork B's: another emitter, another key
BlkC == << <<E("a1", <<"k2", "k1">>)>>, <<E("a2", <<>>), E("a2", <<"k1">>)>> >>
BlocksAB == {BlkA, BlkB}
BlocksEAB == {BlkEmpty, BlkA, BlkB}
BlocksAll == {BlkEmpty, BlkA, BlkB, BlkC}

\* ---- filter menus
FAll == F({}, <<>>)
FK1 == F({}, <<{"k1"}>>)
FK2 == F({}, <<{"k2"}>>)
FA1 == F({"a1"}, <<>>)
FA2 == F({"a2"}, <<>>)
FP1 == F({}, <<{}, {"k1"}>>)
FAK == F({"a2"}, <<{"k1", "k2"}>>)
FiltersK == {FK1, FK2}
FiltersSmall == {FAll, FK1, FK2, FA2}
FiltersMany == {FAll, FK1, FK2, FA1, FA2, FP1, FAK}

\* ---- cache purge policies of RevertHead (offset of the reverted block in its window)
PurgeAlways == 0..(W - 1)       \* the code
PurgeLast == {W - 1}            \* the least that is correct: the revert that re-opens a window
PurgeFirst == {0}               \* "the revert steps back across a boundary", read from the wrong side
PurgeNever == {}
PurgeAllButLast == 0..(W - 2)

\* ---- alternative mechanisms (RevertWinMBT.tla runs them next to the configured one; a behaviour
\* "distinguishes" an alternative when some result or the observable disk differs at some step)
AltMechs ==
  {[n |-> "purge-first-of-window-only", m |-> [Mech EXCEPT !.purge = PurgeFirst]],
   [n |-> "purge-never", m |-> [Mech EXCEPT !.purge = PurgeNever]],
   [n |-> "purge-all-but-last-of-window", m |-> [Mech EXCEPT !.purge = PurgeAllButLast]],
   [n |-> "reopened-window-left-on-disk", m |-> [Mech EXCEPT !.drop = FALSE]],
   [n |-> "snapshot-not-consumed", m |-> [Mech EXCEPT !.consume = FALSE]],
   [n |-> "reverted-column-not-cleared", m |-> [Mech EXCEPT !.clear = FALSE]]}
=============================================================================

\* directed behaviours (StateHistoryScripts.tla): generation run. FixH4 is overridden by the checks like in StateHistory_sim.cfg
\* measured: 105 behaviours (21 kinds x 5 tails), 1 183 states, every invariant holds
CONSTANTS
  Users = {"c1", "c2"}
  Sys = {"sys1", "sys2"}
  Slots = {"s1", "s2", "s3"}
  MaxV = 3
  Cairo0 = {"k0", "k0b"}
  Sierra = {"k1", "k2"}
  TxIds = {}
  L1Txs = {}
  MaxBlocks = 6
  MaxOps = 0
  MaxTxs = 0
  Vers = {0, 1}
  FixH4 = FALSE
  SysZeroWrites = FALSE
  SplitReads = FALSE
  AtomicLegacyReads = TRUE
  FilterReorgInBatch = TRUE
  MaxSteps = 16
  SimMaxOps = 5
INIT SInit
NEXT SNext
INVARIANTS TypeOK ScriptOK ReadsAgree HeadAgrees NoOrphanLogs Canon IdxCanon IdxSound
CHECK_DEADLOCK FALSE

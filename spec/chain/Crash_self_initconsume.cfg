\* self-check of the lazy-initialisation dimension: the error of the snapshot delete is IGNORED by the initialiser (FixInitConsume = FALSE); TLC must find MemAgreesWithDisk violated (graceful stop, start, revert whose initialisation delete fails, store, process dies, start: the stale snapshot is resumed)
CONSTANTS
  MaxH = 3
  MaxVer = 2
  MaxOps = 5
  InitH = 2
  Boundary = 99
  Genesis = TRUE
  Lag = 10
  PruneBatch = 1
  EnableFaults = TRUE
  EnablePrune = FALSE
  FixMemAfterCommit = TRUE
  FixSnapshot = TRUE
  FixReorgWindow = TRUE
  FixPruneAtomicFloor = TRUE
  FixCacheOnReorg = TRUE
  FixInitConsume = FALSE
  FixInitRetry = TRUE
INIT Init
NEXT Next
VIEW view
INVARIANTS InitMutsBounded TypeOK Consistent MemAgreesWithDisk NextStoreSucceeds StateReadsCorrect
PROPERTIES FailedInitIsRetried FailedWriteAppliesNothing RestartIsNoOp
CHECK_DEADLOCK FALSE

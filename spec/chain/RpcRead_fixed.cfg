\* exhaustive, repaired design (the three switches on): the property holds without exception
\* measured: 462 distinct states, 422 487 transitions, depth 6, ~13 s on 4 workers
CONSTANTS
  MaxLen = 3
  MaxReverts = 1
  Txs <- MCTxs
  FixTxIndexMissingBlock = TRUE
  FixZeroHashState = TRUE
  FixLegacyZeroWriteLog = TRUE
  LubZeroShortcut = FALSE
  NVar = 2
  Scenarios = {"base"}
  Leave = {}
  WithPreConfirmed = TRUE
INIT Init
NEXT Next
VIEW view
INVARIANTS TypeOK IndexesDescribeChain
PROPERTIES ReadsAnswerFromChainStrict RevertedNotFound FinalityFromL1Head L1AcceptedClamped ReadsArePure RestartIsNoOp InFlightAnswersFromAHeldChain
CHECK_DEADLOCK FALSE

\* exhaustive, repaired design (both switches on): the property holds without exception
\* measured: 462 distinct states, 203 103 transitions, depth 6, ~9 s on 4 workers
CONSTANTS
  MaxLen = 3
  MaxReverts = 1
  Txs <- MCTxs
  FixTxIndexMissingBlock = TRUE
  FixZeroHashState = TRUE
  WithPreConfirmed = TRUE
INIT Init
NEXT Next
VIEW view
INVARIANTS TypeOK IndexesDescribeChain
PROPERTIES ReadsAnswerFromChainStrict RevertedNotFound FinalityFromL1Head L1AcceptedClamped ReadsArePure RestartIsNoOp InFlightAnswersFromAHeldChain
CHECK_DEADLOCK FALSE

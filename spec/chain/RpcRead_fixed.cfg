\* exhaustive, repaired design (both switches on): the property holds without exception
CONSTANTS
  MaxLen = 3
  MaxReverts = 2
  Txs <- MCTxs
  FixTxIndexMissingBlock = TRUE
  FixZeroHashState = TRUE
  WithPreConfirmed = TRUE
INIT Init
NEXT Next
VIEW view
INVARIANTS TypeOK IndexesDescribeChain
PROPERTIES ReadsAnswerFromChainStrict RevertedNotFound FinalityFromL1Head L1AcceptedClamped ReadsArePure
CHECK_DEADLOCK FALSE

------------------------------- MODULE BlockVerifyMBT -------------------------------
(* Behaviour generation for the replayer (harness/engines/blockverify): BlockVerify plus a history
   variable.  Tamperings are not drawn at random: `cursor` walks the constant sequence Tampers of
   ALL (version, committed field) pairs, one per OfferTampered step, and survives the reset at the
   end of a behaviour - so a simulation run of sufficient depth replays every pair (the check
   verifies this), each at a random position of a random chain.  After the pairs the cursor walks
   CTampers: every move of a class field from one presence / value class to another, <<version,
   field, from, to>>, offered on a block of a shape whose builder gives the field the class `from`
   (ClassEveryVersion: at every version in which the field exists and the protocol tells the two
   classes apart; otherwise the versions are dealt round-robin over the moves). *)
EXTENDS MCBlockVerify, Json, SequencesExt

CONSTANTS MaxSteps, ClassEveryVersion,
          MalformedMoves   \* also move fields into classes no valid block has (a v3 transaction without a mandatory
                           \* bound): FALSE until the fix of finding block-verify:crash:invalid-class* is in the tree

VARIABLES hist, cursor, steps
mbtvars == <<vars, hist, cursor, steps>>

Tampers ==
  LET S(i) == SetToSeq({<<MCVersions[i], f>> : f \in MCCommitted[MCVersions[i]]})
  IN S(1) \o S(2) \o S(3) \o S(4)
NT == Len(Tampers)

ClsMoves == {t \in MCClassFields \X Cls3 \X Cls3 :
               /\ t[2] # t[3] /\ t[3] \in MCClassOf[t[1]]
               /\ (MalformedMoves \/ t[3] \in MCValidClassOf[t[1]])
               /\ \E s \in MCShapes : MCShapeClass[s][t[1]] = t[2]}
ToldApart(v, t) == t[1] \in MCClassIn[v] /\ SeenAs(t[2], t[1], MCProtoSame[v]) # SeenAs(t[3], t[1], MCProtoSame[v])
CTampers ==
  IF ClassEveryVersion
  THEN SetToSeq({<<p[1], p[2][1], p[2][2], p[2][3]>> : p \in {q \in VSet \X ClsMoves : ToldApart(q[1], q[2])}})
  ELSE LET ts == SetToSeq(ClsMoves) IN
       [i \in 1..Len(ts) |->
          LET vs == SelectSeq(MCVersions, LAMBDA v : ToldApart(v, ts[i]))
          IN <<vs[(i % Len(vs)) + 1], ts[i][1], ts[i][2], ts[i][3]>>]
NC == Len(CTampers)
(* third segment: the content alterations of the all-zero shape, versions dealt round-robin (a hash function
   that stops looking at a transaction / receipt / event once some field is zero accepts them) *)
ZTampers == LET fs == SetToSeq(ZeroTargets \cap (TxLevel \cup Rc \cup Ev))
            IN [i \in 1..Len(fs) |-> <<MCVersions[(i % Len(MCVersions)) + 1], fs[i]>>]
NZ == Len(ZTampers)

(* the constant tables, once, for the python driver (a JSON object line) *)
ASSUME PrintT(ToJson([committed |-> MCCommitted, legacy |-> LegacyCommitted,
                      txfields |-> MCTxFields, ntampers |-> NT, targets |-> MCTargets,
                      inapkinds |-> InapMoves \cup InapAdds,
                      classtampers |-> CTampers, zerotampers |-> ZTampers, shapeclass |-> MCShapeClass, classin |-> MCClassIn,
                      classof |-> MCClassOf, validclassof |-> MCValidClassOf, protosame |-> MCProtoSame]))

R(S) == {RandomElement(S)}
IsCls == cursor > NT /\ cursor <= NT + NC
IsZ == cursor > NT + NC
CurC == CTampers[cursor - NT]
CurZ == ZTampers[cursor - (NT + NC)]
CurV == IF IsCls THEN CurC[1] ELSE IF IsZ THEN CurZ[1] ELSE Tampers[cursor][1]
CurF == IF IsCls THEN CurC[2] ELSE IF IsZ THEN CurZ[2] ELSE Tampers[cursor][2]
(* versions a valid offer may use now: not below the head's, not above the cursor's (so that the
   cursor's tamper stays offerable) *)
OfferVersions == {MCVersions[i] : i \in HeadVIdx..VIdx(CurV)}
TamperEnabled == CanGrow /\ HeadVIdx <= VIdx(CurV)

MBTInit == Init /\ hist = <<>> /\ steps = 0 /\ cursor \in R(1..(NT + NC + NZ))

Tamper(var) ==
  /\ IF IsCls THEN OfferReclass(CurV, var, CurF, CurC[4]) ELSE OfferTampered(CurV, var, CurF)
  /\ cursor' = (cursor % (NT + NC + NZ)) + 1
(* the shape of the tampered block is drawn among the shapes in which the field has a target, resp.
   in which the builder gives the field the class it is moved from *)
ShapesFor(f) == IF IsCls THEN {s \in MCShapes : MCShapeClass[s][f] = CurC[3]}
                ELSE IF IsZ THEN {"zero"}
                ELSE {s \in MCShapes : f \in MCTargets[s]}

Other ==
  \/ \E v \in R(OfferVersions), var \in R(MCShapes) : Offer(v, var)
  \/ \E v \in R(OfferVersions), var \in R(MCShapes), w \in R(1..11) :
       CASE w = 1 -> OfferWrongParent(v, var)
         [] w = 2 -> OfferWrongNumber(v, var, "skip")
         [] w = 3 -> IF Len(chain) > 0 THEN OfferWrongNumber(v, var, "repeat") ELSE OfferWrongParent(v, var)
         [] w = 4 -> OfferWrongRoot(v, var, "root", "resealed")
         [] w = 5 -> OfferWrongRoot(v, var, "diff", "resealed")
         [] w = 6 -> OfferWrongRoot(v, var, "oldroot", "resealed")
         [] w = 7 -> OfferStaleClassHash(v, "full")
         [] w = 8 -> OfferCommitFails(v, var)
         [] w = 9 -> OfferWrongRoot(v, var, "root", "kept")
         [] w = 10 -> OfferWrongRoot(v, var, "diff", "kept")
         [] w = 11 -> OfferWrongRoot(v, var, "oldroot", "kept")
  (* the empty-diff shapes get their own wrong-root draw: the root check must not depend on the
     diff having entries *)
  \/ \E v \in R(OfferVersions), var \in R(MCEmptyDiffShapes), k \in R({"root", "diff", "oldroot"}) :
       OfferWrongRoot(v, var, k, "resealed")
  \/ (steps > 0 /\ \E g \in R(BOOLEAN) : Restart(g))
  \/ IF pending = {} \/ (Cardinality(pending) < MaxPending /\ RandomElement({TRUE, FALSE}))
     THEN \E v \in R(OfferVersions), var \in R(MCShapes) : VerifyAhead(v, var)
     ELSE \E b \in R(pending) : StorePending(b)

SimNext ==
  \/ \E var \in R(ShapesFor(CurF)) : Tamper(var)
  \/ \E var \in R(ShapesFor(CurF)) : Tamper(var)
  \/ Other /\ UNCHANGED cursor

Step ==
  /\ SimNext
  /\ steps' = steps + 1
  /\ hist' = Append(hist, [a |-> act', res |-> res',
                           chain |-> [i \in 1..Len(chain') |-> chain'[i].cid],
                           height |-> db'.height])

Emit ==
  /\ PrintT(ToJson(hist))
  /\ chain' = <<>> /\ state' = <<>> /\ pending' = {}
  /\ db' = [height |-> -1, byNumber |-> {}, byHash |-> {}]
  /\ act' = [name |-> "Init"] /\ res' = [kind |-> "none"] /\ cur' = [cid |-> Zero]
  /\ hist' = <<>> /\ steps' = 0 /\ UNCHANGED cursor

MBTNext == IF steps >= MaxSteps \/ ~TamperEnabled THEN Emit ELSE Step

--------------------------------------------------------------------------------
(* second generator (BlockVerify_siminap.cfg): inapplicable diffs.  Chains grow with blocks that
   deploy contracts and declare classes (any version order the protocol allows, so that classes
   declared under the old compiled class hash meet blocks that migrate them); at every position
   the kind of inapplicable diff is drawn first, among the kinds that have a target for some
   version and shape now, then the version and shape - kinds that need a long history are not
   drowned by the others.  Blocks verified ahead and restarts are mixed in. *)
InapEnabled ==
  {t \in NextVersions \X MCShapes \X (InapMoves \cup InapAdds) :
     LET c == <<Len(chain), t[2], t[1]>> IN CanGrow /\ HasTarget(t[3], c, Ent(c, state), state)}
InapKindsNow == {t[3] : t \in InapEnabled}
Inap ==
  /\ InapEnabled # {}
  /\ \E k \in R(InapKindsNow) : \E t \in R({u \in InapEnabled : u[3] = k}) : OfferInapplicable(t[1], t[2], t[3])

SimNextInap ==
  \/ Inap
  \/ Inap
  (* toward histories with migrations: a class-declaring block under the old compiled class hash
     while there is none to migrate, then the block that migrates it *)
  \/ IF Unmig(state) # {} THEN Offer(MCVersions[CasmV2From], "full")
     ELSE HeadVIdx < CasmV2From /\ \E i \in R(HeadVIdx..(CasmV2From - 1)) : Offer(MCVersions[i], "full")
  \/ \E v \in R(NextVersions), var \in R(MCShapes) : Offer(v, var)
  \/ (steps > 0 /\ \E g \in R(BOOLEAN) : Restart(g))
  \/ IF pending = {} \/ (Cardinality(pending) < MaxPending /\ RandomElement({TRUE, FALSE}))
     THEN \E v \in R(NextVersions), var \in R(MCShapes) : VerifyAhead(v, var)
     ELSE \E b \in R(pending) : StorePending(b)

StepInap ==
  /\ SimNextInap /\ UNCHANGED cursor
  /\ steps' = steps + 1
  /\ hist' = Append(hist, [a |-> act', res |-> res',
                           chain |-> [i \in 1..Len(chain') |-> chain'[i].cid],
                           height |-> db'.height])

MBTNextInap == IF steps >= MaxSteps \/ ~CanGrow THEN Emit ELSE StepInap
=============================================================================

------------------------------- MODULE BlockVerifyMBT -------------------------------
(* Behaviour generation for the replayer (harness/engines/blockverify): BlockVerify plus a history
   variable.  Tamperings are not drawn at random: `cursor` walks the constant sequence Tampers of
   ALL (version, committed field) pairs, one per OfferTampered step, and survives the reset at the
   end of a behaviour - so a simulation run of sufficient depth replays every pair (the check
   verifies this), each at a random position of a random chain. *)
EXTENDS MCBlockVerify, Json, SequencesExt

CONSTANT MaxSteps

VARIABLES hist, cursor, steps
mbtvars == <<vars, hist, cursor, steps>>

Tampers ==
  LET S(i) == SetToSeq({<<MCVersions[i], f>> : f \in MCCommitted[MCVersions[i]]})
  IN S(1) \o S(2) \o S(3) \o S(4)
NT == Len(Tampers)

(* the constant tables, once, for the python driver (a JSON object line) *)
ASSUME PrintT(ToJson([committed |-> MCCommitted, legacy |-> LegacyCommitted,
                      txfields |-> MCTxFields, ntampers |-> NT, targets |-> MCTargets,
                      inapkinds |-> InapMoves \cup InapAdds]))

R(S) == {RandomElement(S)}
CurV == Tampers[cursor][1]
CurF == Tampers[cursor][2]
(* versions a valid offer may use now: not below the head's, not above the cursor's (so that the
   cursor's tamper stays offerable) *)
OfferVersions == {MCVersions[i] : i \in HeadVIdx..VIdx(CurV)}
TamperEnabled == CanGrow /\ HeadVIdx <= VIdx(CurV)

MBTInit == Init /\ hist = <<>> /\ steps = 0 /\ cursor \in R(1..NT)

Tamper(var) == OfferTampered(CurV, var, CurF) /\ cursor' = (cursor % NT) + 1
(* the shape of the tampered block is drawn among the shapes in which the field has a target *)
ShapesFor(f) == {s \in MCShapes : f \in MCTargets[s]}

Other ==
  \/ \E v \in R(OfferVersions), var \in R(MCShapes) : Offer(v, var)
  \/ \E v \in R(OfferVersions), var \in R(MCShapes), w \in R(1..11) :
       CASE w = 1 -> OfferWrongParent(v, var)
         [] w = 2 -> OfferWrongNumber(v, var, "skip")
         [] w = 3 -> IF Len(chain) > 0 THEN OfferWrongNumber(v, var, "repeat") ELSE OfferWrongParent(v, var)
         [] w = 4 -> OfferWrongRoot(v, var, "root", "resealed")
         [] w = 5 -> OfferWrongRoot(v, var, "diff", "resealed")
         [] w = 6 -> OfferWrongRoot(v, var, "oldroot", "resealed")
         [] w = 7 -> OfferStaleClassHash(v, "full")
         [] w = 8 -> OfferCommitFails(v, var)
         [] w = 9 -> OfferWrongRoot(v, var, "root", "kept")
         [] w = 10 -> OfferWrongRoot(v, var, "diff", "kept")
         [] w = 11 -> OfferWrongRoot(v, var, "oldroot", "kept")
  (* the empty-diff shapes get their own wrong-root draw: the root check must not depend on the
     diff having entries *)
  \/ \E v \in R(OfferVersions), var \in R(MCEmptyDiffShapes), k \in R({"root", "diff", "oldroot"}) :
       OfferWrongRoot(v, var, k, "resealed")
  \/ (steps > 0 /\ \E g \in R(BOOLEAN) : Restart(g))
  \/ IF pending = {} \/ (Cardinality(pending) < MaxPending /\ RandomElement({TRUE, FALSE}))
     THEN \E v \in R(OfferVersions), var \in R(MCShapes) : VerifyAhead(v, var)
     ELSE \E b \in R(pending) : StorePending(b)

SimNext ==
  \/ \E var \in R(ShapesFor(CurF)) : Tamper(var)
  \/ \E var \in R(ShapesFor(CurF)) : Tamper(var)
  \/ Other /\ UNCHANGED cursor

Step ==
  /\ SimNext
  /\ steps' = steps + 1
  /\ hist' = Append(hist, [a |-> act', res |-> res',
                           chain |-> [i \in 1..Len(chain') |-> chain'[i].cid],
                           height |-> db'.height])

Emit ==
  /\ PrintT(ToJson(hist))
  /\ chain' = <<>> /\ state' = <<>> /\ pending' = {}
  /\ db' = [height |-> -1, byNumber |-> {}, byHash |-> {}]
  /\ act' = [name |-> "Init"] /\ res' = [kind |-> "none"] /\ cur' = [cid |-> Zero]
  /\ hist' = <<>> /\ steps' = 0 /\ UNCHANGED cursor

MBTNext == IF steps >= MaxSteps \/ ~TamperEnabled THEN Emit ELSE Step

--------------------------------------------------------------------------------
(* second generator (BlockVerify_siminap.cfg): inapplicable diffs.  Chains grow with blocks that
   deploy contracts and declare classes (any version order the protocol allows, so that classes
   declared under the old compiled class hash meet blocks that migrate them); at every position
   the kind of inapplicable diff is drawn first, among the kinds that have a target for some
   version and shape now, then the version and shape - kinds that need a long history are not
   drowned by the others.  Blocks verified ahead and restarts are mixed in. *)
InapEnabled ==
  {t \in NextVersions \X MCShapes \X (InapMoves \cup InapAdds) :
     LET c == <<Len(chain), t[2], t[1]>> IN CanGrow /\ HasTarget(t[3], c, Ent(c, state), state)}
InapKindsNow == {t[3] : t \in InapEnabled}
Inap ==
  /\ InapEnabled # {}
  /\ \E k \in R(InapKindsNow) : \E t \in R({u \in InapEnabled : u[3] = k}) : OfferInapplicable(t[1], t[2], t[3])

SimNextInap ==
  \/ Inap
  \/ Inap
  (* toward histories with migrations: a class-declaring block under the old compiled class hash
     while there is none to migrate, then the block that migrates it *)
  \/ IF Unmig(state) # {} THEN Offer(MCVersions[CasmV2From], "full")
     ELSE HeadVIdx < CasmV2From /\ \E i \in R(HeadVIdx..(CasmV2From - 1)) : Offer(MCVersions[i], "full")
  \/ \E v \in R(NextVersions), var \in R(MCShapes) : Offer(v, var)
  \/ (steps > 0 /\ \E g \in R(BOOLEAN) : Restart(g))
  \/ IF pending = {} \/ (Cardinality(pending) < MaxPending /\ RandomElement({TRUE, FALSE}))
     THEN \E v \in R(NextVersions), var \in R(MCShapes) : VerifyAhead(v, var)
     ELSE \E b \in R(pending) : StorePending(b)

StepInap ==
  /\ SimNextInap /\ UNCHANGED cursor
  /\ steps' = steps + 1
  /\ hist' = Append(hist, [a |-> act', res |-> res',
                           chain |-> [i \in 1..Len(chain') |-> chain'[i].cid],
                           height |-> db'.height])

MBTNextInap == IF steps >= MaxSteps \/ ~CanGrow THEN Emit ELSE StepInap
=============================================================================

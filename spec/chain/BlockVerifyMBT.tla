------------------------------- MODULE BlockVerifyMBT -------------------------------
(* Behaviour generation for the replayer (harness/engines/blockverify): BlockVerify plus a history
   variable.  Tamperings are not drawn at random: `cursor` walks the constant sequence Tampers of
   ALL (version, committed field) pairs, one per OfferTampered step, and survives the reset at the
   end of a behaviour - so a simulation run of sufficient depth replays every pair (the check
   verifies this), each at a random position of a random chain. *)
EXTENDS MCBlockVerify, Json, SequencesExt

CONSTANT MaxSteps

VARIABLES hist, cursor, steps
mbtvars == <<vars, hist, cursor, steps>>

Tampers ==
  LET S(i) == SetToSeq({<<MCVersions[i], f>> : f \in MCCommitted[MCVersions[i]]})
  IN S(1) \o S(2) \o S(3) \o S(4)
NT == Len(Tampers)

(* the constant tables, once, for the python driver (a JSON object line) *)
ASSUME PrintT(ToJson([committed |-> MCCommitted, legacy |-> LegacyCommitted,
                      txfields |-> MCTxFields, ntampers |-> NT]))

R(S) == {RandomElement(S)}
CurV == Tampers[cursor][1]
CurF == Tampers[cursor][2]
(* versions a valid offer may use now: not below the head's, not above the cursor's (so that the
   cursor's tamper stays offerable) *)
OfferVersions == {MCVersions[i] : i \in HeadVIdx..VIdx(CurV)}
TamperEnabled == CanGrow /\ HeadVIdx <= VIdx(CurV)

MBTInit == Init /\ hist = <<>> /\ steps = 0 /\ cursor \in R(1..NT)

Tamper(var) == OfferTampered(CurV, var, CurF) /\ cursor' = (cursor % NT) + 1

Other ==
  \/ \E v \in R(OfferVersions) : Offer(v, 1)
  \/ \E v \in R(OfferVersions), var \in R(1..Variants), w \in R(1..8) :
       CASE w = 1 -> OfferWrongParent(v, var)
         [] w = 2 -> OfferWrongNumber(v, var, "skip")
         [] w = 3 -> IF Len(chain) > 0 THEN OfferWrongNumber(v, var, "repeat") ELSE OfferWrongParent(v, var)
         [] w = 4 -> OfferWrongRoot(v, var, "root")
         [] w = 5 -> OfferWrongRoot(v, var, "diff")
         [] w = 6 -> OfferWrongRoot(v, var, "oldroot")
         [] w = 7 -> OfferStaleClassHash(v, var)
         [] w = 8 -> OfferCommitFails(v, var)
  \/ IF pending = {} \/ (Cardinality(pending) < MaxPending /\ RandomElement({TRUE, FALSE}))
     THEN \E v \in R(OfferVersions), var \in R(1..Variants) : VerifyAhead(v, var)
     ELSE \E b \in R(pending) : StorePending(b)

SimNext ==
  \/ Tamper(1)
  \/ Tamper(2)
  \/ Other /\ UNCHANGED cursor

Step ==
  /\ SimNext
  /\ steps' = steps + 1
  /\ hist' = Append(hist, [a |-> act', res |-> res',
                           chain |-> [i \in 1..Len(chain') |-> chain'[i].cid],
                           height |-> db'.height])

Emit ==
  /\ PrintT(ToJson(hist))
  /\ chain' = <<>> /\ state' = <<>> /\ pending' = {}
  /\ db' = [height |-> -1, byNumber |-> {}, byHash |-> {}]
  /\ act' = [name |-> "Init"] /\ res' = [kind |-> "none"] /\ cur' = [cid |-> Zero]
  /\ hist' = <<>> /\ steps' = 0 /\ UNCHANGED cursor

MBTNext == IF steps >= MaxSteps \/ ~TamperEnabled THEN Emit ELSE Step
=============================================================================

------------------------------- MODULE Crash -------------------------------
(* C05 — block storage is atomic and crash-consistent at every interruption point.

   Every operation of the node is refined into the sequence of DURABLE MUTATIONS the code issues
   (blockchain/statebackend/{statebackend,deprecated}.go, core/running_event_filter.go,
   pruner/accessors.go), next to the VOLATILE state that is updated around them:

     Store            one batch  (block families + state + rolled-over bloom window + height)
     RevertHead       one batch
     SetL1Head        one put
     Snapshot         one put    (WriteRunningEventFilter: the graceful stop, the process ends)
     Prune(end)       HashKeyedBatch_1 .. HashKeyedBatch_m ; RangeDeleteBatch   (pruner.PruneUpto,
                      started by the pruner service which first raises the in-memory floor)
     Restart          mem := re-initialised from disk as RetentionFloor.Seed does; the running
                      event filter is NOT initialised yet
     lazy init        the first Store / RevertHead / Snapshot / Query after a start runs
                      core|pruner.InitializeRunningEventFilter INSIDE that operation, and the
                      initialisation issues durable mutations of its own, BEFORE the operation's:
                        delete of the snapshot it has just loaded ; direct put of a window that
                        is completed while the filter is filled from the headers
     Query            an event query (read only; it is what fills the bloom-window cache)

   Every durable mutation has an outcome: "ok", "fail" (returns an error, nothing applied, the
   process lives on) or "crash" (applied, then the process is gone: mem is lost, only Restart is
   enabled).  A crash between two operations is Restart without Snapshot.
   The fault plan of an operation is (outcome, at): `outcome` hits the at-th durable mutation the
   operation issues, counting the mutations of the lazy initialisation first.  A fault inside the
   initialisation ends the operation there: "fail" = the initialiser returns the error, the
   operation reports it, the mutations before it stay applied, memory is as before and the NEXT
   operation initialises again (FixInitRetry); "crash" = the first `at` mutations are on disk.

   Blocks are ids <<number, version>>; a number is stored again with a fresh version after a
   revert (a reorg).  Bloom windows: two windows are in scope, window 0 = numbers < Boundary and
   window 1 = numbers >= Boundary.  The code's window size is 8192: the replayer maps the
   specification's block n to the real block n + 8192 - Boundary (a pre-built, pre-pruned base
   chain below it), so that both boundaries coincide; Boundary > MaxH + 1 means "from genesis, no
   boundary in reach".  A filter's "content" is the set of block ids whose bloom bits it holds;
   an event of block id b is found by a query iff b is in the content of the filter the query
   consults for b's window and b's receipts are on disk.

   Confirmed defects are boolean switches (FALSE = the code as it is, TRUE = repaired):
     FixMemAfterCommit    H3: RunningEventFilter.insert/onReorg mutate memory inside the batch
                          closure, BEFORE the batch commits
     FixSnapshot          H2: a graceful-stop snapshot stays on disk and is reused by a later
                          (ungraceful) restart although blocks below its `next` were replaced
                          (TRUE: the initialiser deletes the snapshot when it loads it)
     FixReorgWindow       onReorg across a window boundary deletes the persisted filter of the
                          window it LEAVES (never persisted) instead of the one it re-enters: the
                          stale persisted window makes the next restart start the running filter
                          in the wrong window, and every later Store fails
     FixPruneAtomicFloor  H12: a crash between two hash-keyed prune batches leaves blocks whose
                          lookups/history are gone while commitments still call them retained
                          (TRUE: every flushed batch also carries the range deletes up to the
                          block it reached, i.e. is a complete prune)
     FixCacheOnReorg      H1: the LRU of persisted windows is not invalidated by a reorg
   Mechanisms of the initialisation that can fail (TRUE = the code as it is; FALSE must violate):
     FixInitConsume       the error of the snapshot delete fails the initialisation (FALSE: it is
                          ignored - the node runs on a snapshot that is still on disk)
     FixInitRetry         a failed initialisation is retried by the next operation (FALSE: the
                          error is latched and every later Store fails until restart)
*)
EXTENDS Integers, Sequences, FiniteSets, TLC

CONSTANTS
  MaxH,                \* block numbers 0..MaxH
  MaxVer,              \* versions 1..MaxVer per number
  MaxOps,              \* operations per behaviour
  InitH,               \* height of the initial chain (-1 = empty database)
  Boundary,            \* first number of bloom window 1 (> MaxH + 1: no boundary in reach)
  Genesis,             \* TRUE: number 0 is the genesis block and may be reverted
  Lag,                 \* core.BlockHashLag: headers kept below a prune end
  PruneBatch,          \* blocks per hash-keyed prune batch (1 = targetBatchByteSize 1)
  EnableFaults,        \* FALSE: only outcome "ok" (fault-free operation sequences)
  EnablePrune,
  FixMemAfterCommit, FixSnapshot, FixReorgWindow, FixPruneAtomicFloor, FixCacheOnReorg,
  FixInitConsume, FixInitRetry

VARIABLES
  disk,    \* durable state
  mem,     \* volatile state
  alive,   \* FALSE after a crash until Restart
  pc,      \* the prune in flight
  ver,     \* next version per number
  ops,     \* operations started
  act, res \* outputs: last action and its result (hidden by VIEW)

vars == <<disk, mem, alive, pc, ver, ops, act, res>>
view == <<disk, mem, alive, pc, ver, ops>>

Nums == 0..MaxH
Ids == Nums \X (1..MaxVer)
Min(S) == CHOOSE x \in S : \A y \in S : x <= y
Max(a, b) == IF a >= b THEN a ELSE b
HasNum(S, n) == \E i \in S : i[1] = n
NumsOf(S) == {i[1] : i \in S}

\* result of an action; init = it ended inside the lazy initialisation of the running filter
Res(k, n) == [kind |-> k, muts |-> n, init |-> FALSE]

NoWin == [present |-> FALSE, c |-> {}]
NoSnap == [present |-> FALSE, w |-> 0, next |-> 0, c |-> {}]
ZeroRf == [w |-> 0, next |-> 0, c |-> {}]

Window(n) == IF n < Boundary THEN 0 ELSE 1
(* the lowest block number that exists.  With Genesis, number 0 is the genesis block.  Without,
   number 0 sits on a base chain (real blocks 0 .. 8192 - Boundary - 1): window 0 extends below 0,
   and the cursor of the running filter can be driven below 0 by reverts whose commit fails
   (FixMemAfterCommit = FALSE: every failed RevertHead moves `next` one block down, at most MaxOps
   times) - onReorg does not fail there as it does at the genesis block. *)
Low == IF Genesis THEN 0 ELSE 0 - (MaxOps + 2)
WinFrom(w) == IF w = 0 THEN Low ELSE Boundary
WinTo(w) == IF w = 0 THEN Boundary - 1 ELSE MaxH + 100

Families == {"hdr", "com", "su", "txs", "h2n", "txl", "hist"}

\* ------------------------------------------------------------------ durable state
Oldest(d) == IF d.com = {} THEN 0 ELSE Min(NumsOf(d.com))      \* pruner.OldestRetainedBlock
SeedFloor(d) == IF Oldest(d) >= 1 THEN Oldest(d) - 1 ELSE 0    \* RetentionFloor.Seed
IdAt(d, n) == <<n, d.state[n + 1]>>                            \* the block the state was built from
ChainIds(d) == {IdAt(d, n) : n \in 0..d.height}

AddBlock(d, id) ==
  [d EXCEPT !.height = id[1], !.hdr = @ \cup {id}, !.com = @ \cup {id}, !.su = @ \cup {id},
            !.txs = @ \cup {id}, !.h2n = @ \cup {id}, !.txl = @ \cup {id}, !.hist = @ \cup {id},
            !.state = Append(@, id[2])]

DelBlock(d, id) ==
  [d EXCEPT !.height = id[1] - 1, !.hdr = @ \ {id}, !.com = @ \ {id}, !.su = @ \ {id},
            !.txs = @ \ {id}, !.h2n = @ \ {id}, !.txl = @ \ {id}, !.hist = @ \ {id},
            !.state = SubSeq(@, 1, Len(@) - 1)]

\* ------------------------------------------------------------------ running event filter
(* AggregatedBloomFilter.Insert + the rollover of RunningEventFilter.insert.  ww is the window the
   rollover persists (through the caller's batch, or directly when called from the initialiser). *)
RfInsert(rf, id) ==
  IF ~(WinFrom(rf.w) <= id[1] /\ id[1] <= WinTo(rf.w))
  THEN [ok |-> FALSE, rf |-> rf, ww |-> NoWin]
  ELSE LET c == rf.c \cup {id} IN
       IF id[1] = WinTo(rf.w)
       THEN [ok |-> TRUE, rf |-> [w |-> 1, next |-> id[1] + 1, c |-> {}], ww |-> [present |-> TRUE, c |-> c]]
       ELSE [ok |-> TRUE, rf |-> [w |-> rf.w, next |-> id[1] + 1, c |-> c], ww |-> NoWin]

(* RunningEventFilter.onReorg: cur = next-1; entering the previous window loads its persisted
   filter from the DATABASE (not the batch); `crossed` tells the caller's batch to delete a
   persisted window (which one is the FixReorgWindow switch); memory is mutated as the code does,
   including on the late error path (next is assigned before clear() can fail). *)
RfReorg(d, rf) ==
  IF rf.next = Low THEN [ok |-> FALSE, rf |-> rf, crossed |-> FALSE]   \* (only the genesis block: next - 1 underflows)
  ELSE LET cur == rf.next - 1 IN
       IF rf.w = 1 /\ cur = Boundary - 1
       THEN IF ~d.win.present THEN [ok |-> FALSE, rf |-> rf, crossed |-> FALSE]
            ELSE [ok |-> TRUE, crossed |-> TRUE,
                  rf |-> [w |-> 0, next |-> cur, c |-> {i \in d.win.c : i[1] # cur}]]
       ELSE IF ~(WinFrom(rf.w) <= cur /\ cur <= WinTo(rf.w))
            THEN [ok |-> FALSE, rf |-> [rf EXCEPT !.next = cur], crossed |-> FALSE]
            ELSE [ok |-> TRUE, crossed |-> FALSE,
                  rf |-> [w |-> rf.w, next |-> cur, c |-> {i \in rf.c : i[1] # cur}]]

(* fillRunningEventFilter: insert the header blooms of from..latest; a rollover on the way is
   written DIRECTLY to the database (puts counts these durable mutations). *)
RECURSIVE Fill(_, _, _, _)
Fill(d, rf, n, latest) ==
  IF n > latest THEN [ok |-> TRUE, rf |-> rf, d |-> d, puts |-> 0]
  ELSE IF ~HasNum(d.hdr, n) THEN [ok |-> FALSE, rf |-> rf, d |-> d, puts |-> 0]
  ELSE LET id == CHOOSE i \in d.hdr : i[1] = n
           r == RfInsert(rf, id) IN
       IF ~r.ok THEN [ok |-> FALSE, rf |-> rf, d |-> d, puts |-> 0]
       ELSE LET d2 == IF r.ww.present THEN [d EXCEPT !.win = r.ww] ELSE d
                rest == Fill(d2, r.rf, n + 1, latest) IN
            [rest EXCEPT !.puts = @ + (IF r.ww.present THEN 1 ELSE 0)]

(* pruner.InitializeRunningEventFilter (core.InitializeRunningEventFilter is the same with
   floor = 0). *)
Rebuild(d) ==
  LET latest == d.height
      floor == Oldest(d)
      \* walk back from latest's window to the floor's window looking for a persisted filter;
      \* only window 0 can be persisted in this two-window scope
      found0 == d.win.present /\ Window(floor) = 0
      from == IF found0 THEN Boundary ELSE floor
      w0 == IF found0 THEN 1 ELSE Window(floor) IN
  Fill(d, [w |-> w0, next |-> from, c |-> {}], from, latest)

InitRfRaw(d) ==
  IF d.height = -1 THEN [ok |-> TRUE, rf |-> ZeroRf, d |-> d, puts |-> 0]
  ELSE LET latest == d.height
           s == d.snap IN
       IF s.present /\ s.next = latest + 1
       THEN [ok |-> TRUE, rf |-> [w |-> s.w, next |-> s.next, c |-> s.c], d |-> d, puts |-> 0]
       ELSE IF s.present /\ s.next <= latest /\ latest <= WinTo(s.w)
       THEN LET n0 == Max(s.next, Oldest(d)) IN
            Fill(d, [w |-> s.w, next |-> n0, c |-> s.c], n0, latest)
       ELSE Rebuild(d)

(* FixSnapshot: the initialiser deletes the snapshot as soon as it has read it (one more durable
   mutation, issued BEFORE any put of the fill), so that only the start directly following a
   graceful stop can use it. *)
InitDel(d) == FixSnapshot /\ d.height >= 0 /\ d.snap.present

InitRf(d) ==
  LET r == InitRfRaw(d) IN
  IF InitDel(d)
  THEN [r EXCEPT !.d = [r.d EXCEPT !.snap = NoSnap], !.puts = @ + 1]
  ELSE r

(* number of durable mutations a lazy initialisation issues from (d, m) *)
InitMuts(d, m) == IF m.rfInit THEN 0 ELSE InitRf(d).puts

(* disk after the first j durable mutations of the initialisation: the delete comes first, then the
   puts of the fill (at most one in this two-window scope: InitMutsBounded) *)
InitPrefix(d, m, j) ==
  IF m.rfInit \/ j <= 0 THEN d
  ELSE LET r == InitRf(d) IN
       IF j >= r.puts THEN r.d
       ELSE [d EXCEPT !.snap = NoSnap]

Inited(m, r) == [m EXCEPT !.rfInit = TRUE, !.rfErr = ~r.ok, !.rf = r.rf]

(* ensureInit without a fault: lazy, once.  (Used by the invariants: what the next operation
   would work with.) *)
EnsureInit(d, m) ==
  IF m.rfInit THEN [d |-> d, m |-> m, puts |-> 0]
  ELSE LET r == InitRf(d) IN [d |-> r.d, m |-> Inited(m, r), puts |-> r.puts]

(* ensureInit under the fault plan (outcome, at).  stop = "no": the operation goes on with (d, m)
   after `puts` mutations; "failed" / "crashed": it ended inside the initialisation. *)
EnsureInitF(d, m, outcome, at) ==
  IF m.rfInit THEN [d |-> d, m |-> m, puts |-> 0, stop |-> "no"]
  ELSE LET r == InitRf(d)
           hit == outcome # "ok" /\ 1 <= at /\ at <= r.puts IN
       IF ~hit THEN [d |-> r.d, m |-> Inited(m, r), puts |-> r.puts, stop |-> "no"]
       ELSE IF outcome = "crash"
       THEN [d |-> InitPrefix(d, m, at), m |-> m, puts |-> at, stop |-> "crashed"]
       ELSE IF ~FixInitConsume /\ InitDel(d) /\ at = 1
       THEN \* the delete's error is ignored: the initialisation goes on over the undeleted snapshot
            LET raw == InitRfRaw(d) IN
            [d |-> raw.d, m |-> Inited(m, raw), puts |-> raw.puts + 1, stop |-> "no"]
       ELSE [d |-> InitPrefix(d, m, at - 1),
             m |-> IF FixInitRetry THEN m ELSE [m EXCEPT !.rfInit = TRUE, !.rfErr = TRUE],
             puts |-> at, stop |-> "failed"]

(* a failed initialisation is not latched (ensureInit leaves lazyDone unset): memory is as before
   the attempt, the next operation tries again *)
Settle(m) == IF m.rfErr /\ FixInitRetry THEN [m EXCEPT !.rfInit = FALSE, !.rfErr = FALSE, !.rf = ZeroRf] ELSE m

FreshMem(d) == [rfInit |-> FALSE, rfErr |-> FALSE, rf |-> ZeroRf, cache |-> NoWin, floor |-> SeedFloor(d)]

\* ------------------------------------------------------------------ event queries
(* MatchedBlockIterator over [Oldest, height]: per window the running filter if it is that
   window, else the cache, else the persisted window (fetched into the cache), else an error. *)
QueryOf(d, m) ==
  LET from == Oldest(d)
      to == d.height
      need0 == Window(from) = 0
      need1 == Window(to) = 1
      use0 == IF m.rf.w = 0 THEN [ok |-> TRUE, c |-> m.rf.c, fetch |-> FALSE]
              ELSE IF m.cache.present THEN [ok |-> TRUE, c |-> m.cache.c, fetch |-> FALSE]
              ELSE IF d.win.present THEN [ok |-> TRUE, c |-> d.win.c, fetch |-> TRUE]
              ELSE [ok |-> FALSE, c |-> {}, fetch |-> FALSE]
      use1 == IF m.rf.w = 1 THEN [ok |-> TRUE, c |-> m.rf.c] ELSE [ok |-> FALSE, c |-> {}]
      ok == (need0 => use0.ok) /\ (need1 => use1.ok)
      cands == (IF need0 THEN use0.c ELSE {}) \cup (IF need1 THEN use1.c ELSE {})
      found == {i \in cands : i \in d.txs /\ from <= i[1] /\ i[1] <= to} IN
  [ok |-> ok, found |-> IF ok THEN found ELSE {},
   cache |-> IF ok /\ need0 /\ use0.fetch THEN d.win
             ELSE IF ~ok /\ need0 /\ use0.ok /\ use0.fetch THEN d.win ELSE m.cache]

\* ------------------------------------------------------------------ initial state
InitDisk ==
  LET ids == {<<n, 1>> : n \in 0..InitH} IN
  [height |-> InitH, hdr |-> ids, com |-> ids, su |-> ids, txs |-> ids, h2n |-> ids, txl |-> ids,
   hist |-> ids, state |-> [n \in 1..(InitH + 1) |-> 1],
   win |-> IF InitH >= Boundary - 1 THEN [present |-> TRUE, c |-> {i \in ids : i[1] < Boundary}] ELSE NoWin,
   snap |-> NoSnap, l1 |-> -1]

Idle == [active |-> FALSE, start |-> 0, end |-> 0, cur |-> 0, stage |-> "hash", first |-> FALSE, muts |-> 0]

Init ==
  /\ disk = InitDisk
  /\ mem = FreshMem(InitDisk)
  /\ alive = TRUE
  /\ pc = Idle
  /\ ver = [n \in Nums |-> IF n <= InitH THEN 2 ELSE 1]
  /\ ops = 0
  /\ act = [name |-> "Init", outcome |-> "ok", n |-> 0]
  /\ res = Res("ok", 0)

Outcomes == IF EnableFaults THEN {"ok", "fail", "crash"} ELSE {"ok"}
Ready == alive /\ ~pc.active /\ ops < MaxOps
Dead(d) == [FreshMem(d) EXCEPT !.rfInit = FALSE]

(* the fault plan (outcome, at) is well-formed for an operation whose lazy initialisation issues
   `initMuts` mutations and which issues `own` (0 or 1) mutations itself *)
PlanOK(outcome, at, initMuts, own) ==
  IF outcome = "ok" THEN at = 0 ELSE 1 <= at /\ at <= initMuts + own

(* outcome of the operation's own mutation (the (e.puts + 1)-th) under the plan *)
Own(outcome, at, e) == IF outcome # "ok" /\ at = e.puts + 1 THEN outcome ELSE "ok"

(* the operation ended inside the lazy initialisation; stops: the process ends whatever happens
   (the graceful stop) *)
InitStopped(e, stops) ==
  /\ disk' = e.d
  /\ IF e.stop = "failed" /\ ~stops
     THEN mem' = e.m /\ alive' = TRUE
     ELSE mem' = Dead(e.d) /\ alive' = FALSE
  /\ res' = [kind |-> e.stop, muts |-> e.puts, init |-> TRUE]

(* result of one single-mutation operation whose batch/put turns d into dNew and memory into mNew
   when it commits; mFail is the memory left behind by a failed commit. *)
Commit(outcome, d, dNew, mNew, mFail, puts) ==
  CASE outcome = "ok" -> /\ disk' = dNew /\ mem' = mNew /\ alive' = TRUE
                         /\ res' = Res("ok", puts + 1)
    [] outcome = "fail" -> /\ disk' = d /\ mem' = mFail /\ alive' = TRUE
                           /\ res' = Res("failed", puts + 1)
    [] outcome = "crash" -> /\ disk' = dNew /\ mem' = Dead(dNew) /\ alive' = FALSE
                            /\ res' = Res("crashed", puts + 1)

Invalidate(m) == [m EXCEPT !.rfInit = FALSE, !.rfErr = FALSE, !.rf = ZeroRf]

\* ------------------------------------------------------------------ Store
Store(outcome, at) ==
  /\ Ready
  /\ PlanOK(outcome, at, InitMuts(disk, mem), 1)
  /\ LET e == EnsureInitF(disk, mem, outcome, at)
         d == e.d
         m == e.m
         own == Own(outcome, at, e)
         n == d.height + 1 IN
     /\ n <= MaxH /\ ver[n] <= MaxVer
     /\ act' = [name |-> "Store", outcome |-> outcome, n |-> n]
     /\ ops' = ops + 1 /\ pc' = pc
     /\ IF e.stop # "no" THEN InitStopped(e, FALSE) /\ ver' = ver
        ELSE
        LET id == <<n, ver[n]>>
            r == RfInsert(m.rf, id) IN
        IF m.rfErr \/ ~r.ok
           THEN \* the closure fails (inside the filter update) before anything is committed
                /\ own = "ok"
                /\ disk' = d /\ alive' = TRUE /\ ver' = ver
                /\ mem' = IF FixMemAfterCommit /\ ~m.rfErr THEN Invalidate(m) ELSE Settle(m)
                /\ res' = Res("error", e.puts)
           ELSE LET d1 == AddBlock(d, id)
                    d2 == IF r.ww.present THEN [d1 EXCEPT !.win = r.ww] ELSE d1
                    mNew == [m EXCEPT !.rf = r.rf]
                    mFail == IF FixMemAfterCommit THEN Invalidate(m) ELSE mNew IN
                /\ Commit(own, d, d2, mNew, mFail, e.puts)
                /\ ver' = IF own = "fail" THEN ver ELSE [ver EXCEPT ![n] = @ + 1]

\* ------------------------------------------------------------------ RevertHead
Revert(outcome, at) ==
  /\ Ready
  /\ PlanOK(outcome, at, InitMuts(disk, mem), 1)
  /\ LET e == EnsureInitF(disk, mem, outcome, at)
         d == e.d
         m == e.m
         own == Own(outcome, at, e)
         h == d.height IN
     /\ h >= 0 /\ d.com # {}
     /\ (h > Oldest(d)) \/ (Genesis /\ h = 0 /\ Oldest(d) = 0)   \* at least one retained block stays
     /\ LET id == IdAt(d, h)
            r == RfReorg(d, m.rf) IN
        /\ id \in d.hist /\ id \in d.su /\ id \in d.hdr  \* not explored: reverting a prune-damaged block
        /\ act' = [name |-> "Revert", outcome |-> outcome, n |-> h]
        /\ ops' = ops + 1 /\ pc' = pc /\ ver' = ver
        /\ IF e.stop # "no" THEN InitStopped(e, FALSE)
           ELSE IF m.rfErr \/ ~r.ok
           THEN /\ own = "ok"
                /\ disk' = d /\ alive' = TRUE
                /\ mem' = IF m.rfErr THEN Settle(m)
                          ELSE IF FixMemAfterCommit THEN Invalidate(m) ELSE [m EXCEPT !.rf = r.rf]
                /\ res' = Res("error", e.puts)
           ELSE LET d1 == DelBlock(d, id)
                    d2 == IF r.crossed /\ FixReorgWindow THEN [d1 EXCEPT !.win = NoWin] ELSE d1
                    mNew == [m EXCEPT !.rf = r.rf,
                                      !.cache = IF FixCacheOnReorg THEN NoWin ELSE @]
                    mFail == IF FixMemAfterCommit THEN Invalidate(m) ELSE [m EXCEPT !.rf = r.rf] IN
                Commit(own, d, d2, mNew, mFail, e.puts)

\* ------------------------------------------------------------------ SetL1Head, Snapshot
SetL1(n, outcome) ==
  /\ Ready
  /\ act' = [name |-> "SetL1", outcome |-> outcome, n |-> n]
  /\ ops' = ops + 1 /\ pc' = pc /\ ver' = ver
  /\ Commit(outcome, disk, [disk EXCEPT !.l1 = n], mem, mem, 0)

(* the graceful stop: WriteRunningEventFilter (one put), then the process ends whatever the
   outcome of the put; only Restart is enabled afterwards *)
Snapshot(outcome, at) ==
  /\ Ready
  /\ PlanOK(outcome, at, InitMuts(disk, mem), 1)
  /\ LET e == EnsureInitF(disk, mem, outcome, at)
         d == e.d
         m == e.m
         own == Own(outcome, at, e)
         dNew == [d EXCEPT !.snap = [present |-> TRUE, w |-> m.rf.w, next |-> m.rf.next, c |-> m.rf.c]] IN
     /\ act' = [name |-> "Snapshot", outcome |-> outcome, n |-> 0]
     /\ ops' = ops + 1 /\ pc' = pc /\ ver' = ver
     /\ IF e.stop # "no" THEN InitStopped(e, TRUE)
        ELSE /\ alive' = FALSE
             /\ IF m.rfErr
                THEN /\ own = "ok" /\ disk' = d /\ mem' = Dead(d)
                     /\ res' = Res("error", e.puts)
                ELSE /\ disk' = IF own = "fail" THEN d ELSE dNew
                     /\ mem' = Dead(disk')
                     /\ res' = Res(IF own = "fail" THEN "failed" ELSE IF own = "crash" THEN "crashed" ELSE "ok",
                                   e.puts + 1)

\* ------------------------------------------------------------------ Restart, Query
Restart ==
  /\ ~alive \/ Ready
  /\ act' = [name |-> "Restart", outcome |-> "ok", n |-> 0]
  /\ ops' = IF alive THEN ops + 1 ELSE ops
  /\ alive' = TRUE /\ pc' = Idle /\ ver' = ver /\ disk' = disk
  /\ mem' = FreshMem(disk)
  /\ res' = Res("ok", 0)

(* an event query issues no durable mutation of its own: only those of the lazy initialisation can
   be hit *)
Query(outcome, at) ==
  /\ Ready /\ disk.height >= 0 /\ disk.com # {}
  /\ PlanOK(outcome, at, InitMuts(disk, mem), 0)
  /\ LET e == EnsureInitF(disk, mem, outcome, at)
         q == QueryOf(e.d, e.m) IN
     /\ act' = [name |-> "Query", outcome |-> outcome, n |-> 0]
     /\ ops' = ops + 1 /\ pc' = pc /\ ver' = ver
     /\ IF e.stop # "no" THEN InitStopped(e, FALSE)
        ELSE /\ alive' = TRUE
             /\ disk' = e.d
             /\ mem' = IF e.m.rfErr THEN Settle(e.m) ELSE [e.m EXCEPT !.cache = q.cache]
             /\ res' = Res(IF e.m.rfErr \/ ~q.ok THEN "error" ELSE "ok", e.puts)

\* ------------------------------------------------------------------ Prune
(* The pruner service (onNewL1Head with Retained = 0 and an L1 head event for block `end`):
   guard end < height; raise the shared floor to end-1; PruneUpto(end). *)
PruneStart(end) ==
  /\ Ready /\ EnablePrune
  /\ end >= 1 /\ end < disk.height
  /\ act' = [name |-> "Prune", outcome |-> "ok", n |-> end]
  /\ ops' = ops + 1 /\ ver' = ver /\ alive' = TRUE /\ disk' = disk
  /\ mem' = [mem EXCEPT !.floor = Max(@, end - 1)]
  /\ LET start == Oldest(disk) IN
     IF disk.com = {} \/ start >= end
     THEN /\ pc' = Idle /\ res' = Res("noop", 0)
     ELSE IF start > 0 /\ ~HasNum(disk.hdr, start - 1)
     THEN /\ pc' = Idle /\ res' = Res("error", 0)
     ELSE /\ pc' = [active |-> TRUE, start |-> start, end |-> end, cur |-> start, stage |-> "hash",
                    first |-> TRUE, muts |-> 0]
          /\ res' = Res("started", 0)

PruneStep(outcome) ==
  /\ alive /\ pc.active
  /\ act' = [name |-> "PruneStep", outcome |-> outcome, n |-> pc.cur]
  /\ ops' = ops /\ ver' = ver
  /\ LET d == disk
         remaining == pc.end - pc.cur
         rot == remaining >= PruneBatch
         nblk == IF rot THEN PruneBatch ELSE remaining
         blocks == pc.cur..(pc.cur + nblk - 1)
         readable == \A b \in blocks : HasNum(d.su, b) /\ HasNum(d.txs, b)
         dHash == [d EXCEPT
                     !.h2n = {i \in @ : ~(\/ (i[1] \in blocks /\ i[1] # pc.end - 1)
                                          \/ (pc.first /\ pc.start > 0 /\ i[1] = pc.start - 1))},
                     !.txl = {i \in @ : i[1] \notin blocks},
                     !.hist = {i \in @ : i[1] \notin blocks},
                     \* FixPruneAtomicFloor: every flushed batch is a complete prune up to cur+nblk
                     !.com = IF FixPruneAtomicFloor THEN {i \in @ : i[1] >= pc.cur + nblk} ELSE @,
                     !.su = IF FixPruneAtomicFloor THEN {i \in @ : i[1] >= pc.cur + nblk} ELSE @,
                     !.txs = IF FixPruneAtomicFloor THEN {i \in @ : i[1] >= pc.cur + nblk} ELSE @,
                     !.hdr = IF FixPruneAtomicFloor THEN {i \in @ : i[1] >= pc.cur + nblk - Lag} ELSE @,
                     !.win = IF FixPruneAtomicFloor /\ pc.cur + nblk >= Boundary THEN NoWin ELSE @]
         dRange == [d EXCEPT
                     !.hdr = {i \in @ : i[1] >= pc.cur - Lag},
                     !.com = {i \in @ : i[1] >= pc.cur},
                     !.su = {i \in @ : i[1] >= pc.cur},
                     !.txs = {i \in @ : i[1] >= pc.cur},
                     !.win = IF pc.cur >= Boundary THEN NoWin ELSE @]
         dNew == IF pc.stage = "hash" THEN dHash ELSE dRange
         done == pc.stage = "range"
         pcNext == IF done THEN Idle
                   ELSE [pc EXCEPT !.cur = @ + nblk, !.stage = IF rot THEN "hash" ELSE "range",
                                   !.first = FALSE, !.muts = @ + 1] IN
     IF pc.stage = "hash" /\ ~readable
     THEN /\ outcome = "ok" /\ disk' = d /\ mem' = mem /\ alive' = TRUE /\ pc' = Idle
          /\ res' = Res("error", pc.muts)
     ELSE CASE outcome = "ok" ->
                 /\ disk' = dNew /\ mem' = mem /\ alive' = TRUE /\ pc' = pcNext
                 /\ res' = Res(IF done THEN "ok" ELSE "step", pc.muts + 1)
            [] outcome = "fail" ->
                 /\ disk' = d /\ mem' = mem /\ alive' = TRUE /\ pc' = Idle
                 /\ res' = Res("failed", pc.muts + 1)
            [] outcome = "crash" ->
                 /\ disk' = dNew /\ mem' = Dead(dNew) /\ alive' = FALSE /\ pc' = Idle
                 /\ res' = Res("crashed", pc.muts + 1)

Ats == 0..3    \* fault positions: at most two mutations of the initialisation + the operation's own

Next ==
  \/ \E o \in Outcomes, at \in Ats : Store(o, at)
  \/ \E o \in Outcomes, at \in Ats : Revert(o, at)
  \/ \E o \in Outcomes, n \in Nums : SetL1(n, o)
  \/ \E o \in Outcomes, at \in Ats : Snapshot(o, at)
  \/ \E end \in Nums : PruneStart(end)
  \/ \E o \in Outcomes : PruneStep(o)
  \/ Restart
  \/ \E o \in Outcomes, at \in Ats : Query(o, at)

Spec == Init /\ [][Next]_vars

\* ------------------------------------------------------------------ properties
TypeOK ==
  /\ disk.height \in -1..MaxH
  /\ \A f \in {disk.hdr, disk.com, disk.su, disk.txs, disk.h2n, disk.txl, disk.hist} : f \subseteq Ids
  /\ alive \in BOOLEAN /\ ops \in 0..MaxOps

(* Consistent(db): height defined => every family describes exactly the blocks oldest..height of
   ONE chain (the one the state was built from) and nothing above; below the oldest retained block
   only the documented carve-outs / not-yet-range-deleted number-keyed rows of that same chain. *)
ConsistentDisk(d) ==
  /\ Len(d.state) = d.height + 1
  /\ d.height = -1 => \A f \in {d.hdr, d.com, d.su, d.txs, d.h2n, d.txl, d.hist} : f = {}
  /\ d.height >= 0 =>
       LET o == Oldest(d) IN
       /\ d.com # {}
       /\ \A f \in {d.hdr, d.com, d.su, d.txs, d.h2n, d.txl, d.hist} : f \subseteq ChainIds(d)
       /\ \A n \in o..d.height :
            \A f \in {d.hdr, d.com, d.su, d.txs, d.h2n, d.txl, d.hist} : IdAt(d, n) \in f
       /\ \A i \in d.txl \cup d.hist : i[1] >= o
       /\ \A i \in d.h2n : i[1] >= o - 1
  /\ d.win.present => d.height >= 0

Consistent == ~pc.active => ConsistentDisk(disk)

(* In-memory state agrees with disk at every quiescent point — in particular after a failed
   write: the running filter is positioned at height+1 and no stored event is missed. *)
MemAgreesWithDisk ==
  (alive /\ ~pc.active) =>
    LET e == EnsureInit(disk, mem)
        q == QueryOf(e.d, e.m) IN
    /\ ~e.m.rfErr
    /\ e.m.rf.next = e.d.height + 1
    /\ (e.d.height >= 0 /\ e.d.com # {}) =>
         /\ q.ok
         /\ \A n \in Oldest(e.d)..e.d.height : IdAt(e.d, n) \in e.d.txs => IdAt(e.d, n) \in q.found

NextStoreSucceeds ==
  (alive /\ ~pc.active /\ disk.height < MaxH /\ Len(disk.state) = disk.height + 1) =>
    LET e == EnsureInit(disk, mem) IN
    /\ ~e.m.rfErr
    /\ RfInsert(e.m.rf, <<e.d.height + 1, 1>>).ok

(* Historical state served by number (n >= the in-memory floor) is reconstructed from history
   rows of the blocks above n: they must all be there — also while a prune is running. *)
StateReadsCorrect ==
  alive => \A n \in 0..disk.height :
             (n >= mem.floor /\ Len(disk.state) = disk.height + 1) =>
               \A k \in (n + 1)..disk.height : IdAt(disk, k) \in disk.hist

(* a failed write applies nothing: the mutations the operation issued BEFORE the failed one (those of
   the lazy initialisation of the running filter) stay applied, the failed one and everything the
   operation would have issued after it do not *)
FailedWriteAppliesNothing ==
  [][res'.kind = "failed" =>
       disk' = IF act'.name \in {"Store", "Revert", "Snapshot", "Query"}
               THEN InitPrefix(disk, mem, res'.muts - 1) ELSE disk]_vars

(* a failed initialisation leaves memory as it was: it is tried again by the next operation *)
FailedInitIsRetried ==
  [][(res'.kind = "failed" /\ res'.init /\ alive') => (mem' = mem /\ ~mem'.rfInit)]_vars

(* the initialisation issues at most two durable mutations in this two-window scope (InitPrefix) *)
InitMutsBounded == (alive /\ ~pc.active) => InitMuts(disk, mem) <= 2

(* a restart (new objects on the same store) changes nothing durable; what it re-derives in memory
   is judged by MemAgreesWithDisk / NextStoreSucceeds / StateReadsCorrect right after it *)
RestartIsNoOp == [][act'.name = "Restart" => disk' = disk]_vars
=============================================================================

\* exhaustive, the presence / value class dimension: chain length <= 2, shapes full (every class field non-zero), zero (every class
\* field present-zero / [0] / (0,0)), void (absent where a valid block may leave it out); every field moved to every other class
CONSTANTS
  Versions <- MCVersions
  Committed <- MCCommitted
  TxFields <- MCTxFields
  SdFields <- MCSdFields
  SuFields <- MCSuFields
  MaxLen = 2
  Shapes <- MCShapesCls
  Targets <- MCTargets
  EmptyDiffShapes <- MCEmptyDiffShapes
  ClassShapes <- MCClassShapes
  DeployShapes <- MCDeployShapes
  CasmV2From = 4
  ClassFields <- MCClassFields
  TxClassFields <- MCTxClassFields
  ClassOf <- MCClassOf
  ValidClassOf <- MCValidClassOf
  ClassIn <- MCClassIn
  ShapeClass <- MCShapeClass
  ProtoSame <- MCProtoSame
  MalformedRefused = TRUE
  ZeroAsAbsent <- MCNone
  MaxPending = 0
  SuccessionChecked = TRUE
  RootChecked = TRUE
  RootCheckedOnEmptyDiff = TRUE
  TxHashesChecked = TRUE
  WriteBeforeChecks = FALSE
  DeployGuard = TRUE
  ExistGuard = TRUE
  MigrateGuard = TRUE
  RedeclareGuard = TRUE
INIT Init
NEXT Next
VIEW view
INVARIANTS TypeOK StoredChainValid StateIsChain DbConsistent
PROPERTIES AcceptedOnlyIfValid RejectedUnchanged TamperRejected ValidAccepted PendingStoredIffContinues RestartIsNoOp InapplicableLooksValid
CHECK_DEADLOCK FALSE

\* EXPECTED VIOLATION (EventsCovered): the range delete of persisted event-filter windows also takes the window whose LAST block is the oldest retained one (the bound read as inclusive); Prune_quick_r0 otherwise
CONSTANTS
  MaxH = 13
  InitH = 10
  MaxL1 = 15
  Retained = 0
  Lag = 10
  PruneBatch = 1
  L2PerPrune = 1
  MinAge = FALSE
  MaxSteps = 4
  EnableRevert = TRUE
  EnableInterrupts = TRUE
  FixPruneAtomicFloor = TRUE
  FixSampleOnReorg = TRUE
  W = 4
  Base = 0
  WinBound = "inclusive"
INIT Init
NEXT Next
VIEW view
INVARIANTS TypeOK NoUnderflow FloorBound AgeBound RetainedIntact StateReadsCorrect BelowFloorClean EventsCovered FilterFollowsChain
PROPERTIES Resumable FloorMonotone RestartIsNoOp InitFilterOnlyAdds
CHECK_DEADLOCK FALSE

------------------------------- MODULE EventsMBT -------------------------------
(* Behaviour generation for the replayer (harness/engines/events): Events plus a history variable.
   At MaxSteps the history is printed as one JSON line and the machine is reset to the base image,
   so one long -simulate run yields many behaviours.  Used with the real window size
   (W = 8192, Base = 8188 or 16380), which the sparse representation makes free. *)
EXTENDS MCEvents

CONSTANT MaxSteps

VARIABLE hist
mbtvars == <<vars, hist>>

MBTInit == Init /\ hist = <<>>

steps == Len(hist)
R(S) == {RandomElement(S)}

(* a random block: 0..2 transactions of 0..2 events over 2 addresses x key lists of length 0..2 *)
StoreR ==
  \E n \in R(0..2), m1 \in R(0..2), m2 \in R(0..2),
     e1 \in R(EvMenu), e2 \in R(EvMenu), e3 \in R(EvMenu), e4 \in R(EvMenu) :
       Store(SubSeq(<<SubSeq(<<e1, e2>>, 1, m1), SubSeq(<<e3, e4>>, 1, m2)>>, 1, n))

(* a block with exactly one one-key event: makes single-atom staleness likely to be visible *)
StoreOne == \E a \in R(Addrs), k \in R(Keys) : Store(<< <<E(a, <<k>>)>> >>)

Lo == IF Base >= 2 THEN Base - 2 ELSE 0
(* an unconstrained filter makes every block a candidate: with a scan limit the pages would crawl
   through the whole base image, so such queries start just below the modelled blocks *)
Froms(f, l) == IF IsMatchAll(f) /\ l > 0 THEN Lo..(Height + 1) ELSE {0} \cup (Lo..(Height + 1))
QueryFull ==
  \E f \in R(FiltersAll), c \in R(Chunks), l \in R(Limits) :
     Query(f, IF IsMatchAll(f) /\ l > 0 THEN Lo ELSE 0, Height, c, l)
QueryAny ==
  \E f \in R(FiltersAll), c \in R(Chunks), l \in R(Limits) :
     \E from \in R(Froms(f, l)), to \in R(Lo..(Height + 2)) : Query(f, from, to, c, l)
QueryAtom ==   \* a single-atom filter over everything: the sharpest probe for a stale column
  \E f \in R({F({a}, <<>>) : a \in Addrs} \cup {F({}, <<{k}>>) : k \in Keys}
             \cup {F({}, <<{}, {k}>>) : k \in Keys}), l \in R(Limits) : Query(f, 0, Height + 1, 100, l)

(* Simulation picks uniformly among successor states; the schema weights below steer behaviours
   to the interesting region (grow across the window boundary first, then reorgs / restarts with
   queries in between, single-atom probes at the end). *)
SimNext ==
  IF steps >= MaxSteps - 2 THEN QueryAtom
  ELSE IF steps < 6
  THEN \/ StoreR \/ StoreOne \/ StoreOne \/ StoreOne
       \/ QueryFull
       \/ \E g \in R(BOOLEAN) : Restart(g)
  ELSE \/ StoreR \/ StoreOne
       \/ QueryFull \/ QueryAny \/ QueryAtom
       \/ Revert \/ Revert
       \/ \E g \in R(BOOLEAN) : Restart(g)

Step ==
  /\ SimNext
  /\ hist' = Append(hist, [a |-> act', res |-> res', st |-> ProjOf(chain', persisted', snapshot')])

Emit ==
  /\ PrintT(ToJson(hist))
  /\ chain' = <<>>
  /\ persisted' = [w \in BaseWindows |-> {}]
  /\ snapshot' = NoSnap
  /\ running' = Lazy
  /\ cache' = EmptyF
  /\ gstops' = 0
  /\ cause' = "none"
  /\ act' = [name |-> "Init"]
  /\ res' = [kind |-> "ok"]
  /\ hist' = <<>>

MBTNext == IF steps >= MaxSteps THEN Emit ELSE Step
=============================================================================

\* paging, exhaustive: every filter of the menu x every range x chunk sizes x scan limits on every
\* chain of <= 3 blocks over {empty, one event, 4 events in 3 txs}, across the window boundary
\* (W = 2), with restarts; repaired design
\* measured: 173 distinct states / 210 843 transitions (each a complete paged query), depth 5
CONSTANTS
  W = 2
  Base = 1
  MaxBlocks = 3
  MaxGraceful = 0
  BlockMenu <- BlocksPaging
  FilterMenu <- FiltersPaging
  Chunks = {1, 2, 100}
  Limits = {0, 1, 2}
  RangeSlack = 1
  InvalidateCacheOnReorg = TRUE
  SnapshotConsumedOnLoad = TRUE
  DropReopenedWindow = TRUE
INIT Init
NEXT Next
VIEW view
INVARIANTS TypeOK NoFalseNegative RunningInSync PersistedComplete
PROPERTIES QueryExact IndexNeverBlocksChain
CHECK_DEADLOCK FALSE

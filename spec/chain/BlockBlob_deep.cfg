\* exhaustive: 3 blocks of 0..2 transactions
CONSTANTS
  MaxBlocks = 3
  MaxSize = 2
  Lens = {1, 2}
  Kinds <- KindsOne
  EvCounts = {2}
  Revs = {FALSE}
  LastItemRunsToEnd = TRUE
  TxSectionEndsAtReceipts = TRUE
  HashIndexExact = TRUE
INIT Init
NEXT NextR
VIEW view
PROPERTIES RestartIsNoOp
INVARIANTS ItemAccessors OutOfRange BlockAccessors ProjectionsAgree Layout
CHECK_DEADLOCK FALSE

\* behaviour generation (tlc -simulate), second generator: inapplicable diffs at every position of chains that deploy, declare and migrate
CONSTANTS
  Versions <- MCVersions
  Committed <- MCCommitted
  TxFields <- MCTxFields
  SdFields <- MCSdFields
  SuFields <- MCSuFields
  MaxLen = 4
  Shapes <- MCShapes
  Targets <- MCTargets
  EmptyDiffShapes <- MCEmptyDiffShapes
  ClassShapes <- MCClassShapes
  DeployShapes <- MCDeployShapes
  CasmV2From = 4
  ClassFields <- MCClassFields
  TxClassFields <- MCTxClassFields
  ClassOf <- MCClassOf
  ValidClassOf <- MCValidClassOf
  ClassIn <- MCClassIn
  ShapeClass <- MCShapeClass
  ProtoSame <- MCProtoSame
  MalformedRefused = TRUE
  ZeroAsAbsent <- MCNone
  MaxPending = 2
  MalformedMoves = FALSE
  ClassEveryVersion = FALSE
  MaxSteps = 16
  SuccessionChecked = TRUE
  RootChecked = TRUE
  RootCheckedOnEmptyDiff = TRUE
  TxHashesChecked = TRUE
  WriteBeforeChecks = FALSE
  DeployGuard = TRUE
  ExistGuard = TRUE
  MigrateGuard = TRUE
  RedeclareGuard = TRUE
INIT MBTInit
NEXT MBTNextInap
CHECK_DEADLOCK FALSE

\* behaviour generation (tlc -simulate), guided towards revert-after-K ; non-touching replacement (ForkBias): full alphabet. FixH4 is overridden by the checks (FALSE = the code as it is, TRUE once the repair is merged)
CONSTANTS
  Users = {"c1", "c2"}
  Sys = {"sys1", "sys2"}
  Slots = {"s1", "s2", "s3"}
  MaxV = 3
  Cairo0 = {"k0"}
  Sierra = {"k1", "k2"}
  TxIds = {"t1", "t2", "t3", "t4", "l1a", "l1b"}
  L1Txs = {"l1a", "l1b"}
  MaxBlocks = 6
  MaxOps = 0
  MaxTxs = 3
  Vers = {0, 1}
  FixH4 = FALSE
  SysZeroWrites = FALSE
  SplitReads = FALSE
  AtomicLegacyReads = TRUE
  FilterReorgInBatch = TRUE
  MaxSteps = 16
  SimMaxOps = 4
  ForkBias <- ForkOn
INIT MBTInit
NEXT MBTNext
INVARIANTS TypeOK ReadsAgree HeadAgrees NoOrphanLogs Canon IdxCanon IdxSound FilterCoversChain
CHECK_DEADLOCK FALSE

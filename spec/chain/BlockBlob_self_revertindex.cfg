\* self-test: RevertHead leaving the tx-hash / L1-message index entries of the reverted block must violate an invariant
CONSTANTS
  MaxBlocks = 2
  MaxSize = 2
  Lens = {1}
  Kinds <- KindsOne
  EvCounts = {2}
  Revs = {FALSE}
  LastItemRunsToEnd = TRUE
  TxSectionEndsAtReceipts = TRUE
  HashIndexExact = TRUE
  RevertDropsIndexes = FALSE
  MaxReverts = 1
  MemoFamilies = {}
  MemoPurged = TRUE
  FieldTable <- MCFieldTable
  VaryShapes = FALSE
  MaxClasses = 0
  CodecSlip = "none"
  SlipCodecs = {}
INIT Init
NEXT NextR
VIEW view
PROPERTIES RestartIsNoOp ReadIsNoOp
INVARIANTS ItemAccessors OutOfRange BlockAccessors ProjectionsAgree Layout Gone IndexesExact
CHECK_DEADLOCK FALSE

\* self-test (mutant "an all-zero l1_data_gas bound is hashed like an absent one"), soundness side: a two-bound transaction given an (0,0) entry is accepted - TLC must report TamperRejected
CONSTANTS
  Versions <- MCVersions
  Committed <- MCCommitted
  TxFields <- MCTxFields
  SdFields <- MCSdFields
  SuFields <- MCSuFields
  MaxLen = 2
  Shapes <- MCShapesCls
  Targets <- MCTargets
  EmptyDiffShapes <- MCEmptyDiffShapes
  ClassShapes <- MCClassShapes
  DeployShapes <- MCDeployShapes
  CasmV2From = 4
  ClassFields <- MCClassFields
  TxClassFields <- MCTxClassFields
  ClassOf <- MCClassOf
  ValidClassOf <- MCValidClassOf
  ClassIn <- MCClassIn
  ShapeClass <- MCShapeClass
  ProtoSame <- MCProtoSame
  MalformedRefused = TRUE
  ZeroAsAbsent <- MCZeroBoundDropped
  MaxPending = 0
  SuccessionChecked = TRUE
  RootChecked = TRUE
  RootCheckedOnEmptyDiff = TRUE
  TxHashesChecked = TRUE
  WriteBeforeChecks = FALSE
  DeployGuard = TRUE
  ExistGuard = TRUE
  MigrateGuard = TRUE
  RedeclareGuard = TRUE
INIT Init
NEXT Next
VIEW view
INVARIANTS TypeOK
PROPERTIES TamperRejected
CHECK_DEADLOCK FALSE

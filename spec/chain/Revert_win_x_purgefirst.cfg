\* expected violation: cache purged only when the FIRST block of a window is reverted (wrong side of the boundary)
CONSTANTS
  W = 3
  Base = 2
  MaxBlocks = 5
  MaxGraceful = 1
  BlockMenu <- BlocksAB
  FilterMenu <- FiltersK
  AnyRange = FALSE
  PurgeAt <- PurgeFirst
  DropReopenedWindow = TRUE
  SnapshotConsumedOnLoad = TRUE
  ClearRevertedColumn = TRUE
INIT WInit
NEXT WNext
VIEW wview
INVARIANTS AnswersAsTwin
PROPERTIES WRestartIsNoOp
CHECK_DEADLOCK FALSE

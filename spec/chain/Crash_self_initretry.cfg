\* self-check of the lazy-initialisation dimension: a failed initialisation is LATCHED (FixInitRetry = FALSE); TLC must find a violation (graceful stop, start, store whose initialisation delete fails: every later Store fails)
CONSTANTS
  MaxH = 3
  MaxVer = 2
  MaxOps = 5
  InitH = 2
  Boundary = 99
  Genesis = TRUE
  Lag = 10
  PruneBatch = 1
  EnableFaults = TRUE
  EnablePrune = FALSE
  FixMemAfterCommit = TRUE
  FixSnapshot = TRUE
  FixReorgWindow = TRUE
  FixPruneAtomicFloor = TRUE
  FixCacheOnReorg = TRUE
  FixInitConsume = TRUE
  FixInitRetry = FALSE
INIT Init
NEXT Next
VIEW view
INVARIANTS InitMutsBounded TypeOK Consistent MemAgreesWithDisk NextStoreSucceeds StateReadsCorrect
PROPERTIES FailedInitIsRetried FailedWriteAppliesNothing RestartIsNoOp
CHECK_DEADLOCK FALSE

\* behaviour generation (tlc -simulate): the cursor walks every (version, committed field) pair
CONSTANTS
  Versions <- MCVersions
  Committed <- MCCommitted
  TxFields <- MCTxFields
  SdFields <- MCSdFields
  SuFields <- MCSuFields
  MaxLen = 3
  Shapes <- MCShapes
  Targets <- MCTargets
  EmptyDiffShapes <- MCEmptyDiffShapes
  ClassShapes <- MCClassShapes
  MaxPending = 2
  MaxSteps = 14
  SuccessionChecked = TRUE
  RootChecked = TRUE
  RootCheckedOnEmptyDiff = TRUE
  TxHashesChecked = TRUE
  WriteBeforeChecks = FALSE
INIT MBTInit
NEXT MBTNext
CHECK_DEADLOCK FALSE

\* behaviour generation (tlc -simulate): the cursor walks every (version, committed field) pair
CONSTANTS
  Versions <- MCVersions
  Committed <- MCCommitted
  TxFields <- MCTxFields
  SdFields <- MCSdFields
  SuFields <- MCSuFields
  MaxLen = 3
  Variants = 2
  MaxPending = 2
  MaxSteps = 14
  SuccessionChecked = TRUE
  RootChecked = TRUE
  TxHashesChecked = TRUE
  WriteBeforeChecks = FALSE
INIT MBTInit
NEXT MBTNext
CHECK_DEADLOCK FALSE

------------------------------- MODULE RevertWinMBT -------------------------------
(* Behaviour generation for the window replay of C04 (harness/engines/statehist/window_test.go):
   RevertWin plus a history variable, used with the REAL geometry (W = 8192, a base image that ends
   a few blocks below a window boundary), which the sparse representation makes free.  At MaxSteps
   the history is printed as one JSON line and the machine is reset to the base image.

   Each step records the call, its result, the projection of the disk the replay can observe
   (height, persisted windows with their bits, snapshot) and a `tag` - the abstract situation the
   step ended in (head position relative to the window, filter initialised?, cache warm?, snapshot?)
   and `kills`: next to the configured mechanism the module runs every alternative mechanism of
   MCRevertWin!AltMechs (other purge offsets, re-opened window left on disk, snapshot not consumed,
   reverted column not cleared) on its own ghost node through the same calls; an alternative is
   "killed" at the first step at which its result or its observable disk differs.
   checks/C04.py selects, from many generated behaviours, a small set that covers the
   (situation, action, situation) triples and kills every alternative several times in different
   situations - i.e. behaviours on which the code's mechanism can be told from its neighbours. *)
EXTENDS MCRevertWin, Json

CONSTANT MaxSteps

VARIABLES hist,
          alts    \* ghost: the alternative mechanisms not yet distinguished, each with its own node
mbtvars == <<wvars, hist, alts>>
steps == Len(hist)

AllAlts == {[n |-> a.n, m |-> a.m, N |-> InitNode] : a \in AltMechs}
MBTInit == WInit /\ hist = <<>> /\ alts = AllAlts

(* the call `a` made on node N under mechanism m: new node and result, shaped like `res` *)
ApplyM(m, N, a) ==
  IF a.name = "Store" THEN LET x == StoreM(m, N, a.blk) IN [N |-> x.N, res |-> [kind |-> OkOf(x.ok)]]
  ELSE IF a.name = "Revert" THEN LET x == RevertM(m, N) IN [N |-> x.N, res |-> [kind |-> OkOf(x.ok)]]
  ELSE IF a.name = "Restart" THEN [N |-> RestartM(m, N, a.graceful), res |-> [kind |-> "ok"]]
  ELSE IF a.name = "Query" THEN LET x == QueryM(m, N, a.f, a.from, a.to) IN [N |-> x.N, res |-> [kind |-> OkOf(x.ok), ev |-> x.ev]]
  ELSE LET x == SweepM(m, N, FilterMenu) IN [N |-> x.N, res |-> [kind |-> "ok", evs |-> x.evs]]

ProjOf(N) == [height |-> HeightOf(N.chain),
              pers |-> {[w |-> w, bits |-> N.pers[w]] : w \in DOMAIN N.pers},
              snapok |-> N.snap.ok, snapnext |-> N.snap.next]

R(S) == {RandomElement(S)}

StoreR == \E blk \in R(BlockMenu) : Store(blk)
QueryOne == \E f \in R(FilterMenu) : Query(f, 0, Height)
QueryAny == \E f \in R(FilterMenu), from \in R({0, Height} \cup {b \in (Base - 1)..Height : b % W = 0}) :
              \E to \in R({t \in (Base - 1)..(Height + 1) : t >= from}) : Query(f, from, to)
RestartR == \E g \in R(BOOLEAN) : Restart(g)

(* Simulation picks uniformly among successor states, so the schema is drawn first.  While the head
   is the last block of a window and nothing is cached, a query is favoured: that is the only
   moment at which the window just completed can enter the cache before a revert re-opens it. *)
SimNext ==
  \E r \in R(1..12) :
    IF steps >= MaxSteps - 1 THEN Sweep
    ELSE IF Len(chain) = 0 /\ r <= 10 THEN StoreR
    ELSE IF Height % W = W - 1 /\ cache = EmptyF /\ r <= 4 THEN QueryOne
    ELSE IF r <= 3 /\ Len(chain) < MaxBlocks THEN StoreR
    ELSE IF r <= 6 /\ Len(chain) > 0 THEN Revert
    ELSE IF r <= 8 THEN QueryOne
    ELSE IF r = 9 THEN QueryAny
    ELSE IF r = 10 THEN Sweep
    ELSE IF act.name # "Restart" THEN RestartR
    ELSE QueryOne

Pos(h) == IF h % W = W - 1 THEN "end" ELSE IF h % W = 0 THEN "start" ELSE IF h % W = W - 2 THEN "before-end" ELSE "inside"

Proj == ProjOf([chain |-> chain', pers |-> pers', snap |-> snap'])
Tag == [pos |-> Pos(HeightOf(chain')), hot |-> run'.ok, warm |-> cache' # EmptyF, snap |-> snap'.ok]

Step ==
  /\ SimNext
  /\ LET outs == {[n |-> a.n, m |-> a.m, x |-> ApplyM(a.m, a.N, act')] : a \in alts}
         killed == {o \in outs : o.x.res # res' \/ ProjOf(o.x.N) # Proj} IN
     /\ alts' = {[n |-> o.n, m |-> o.m, N |-> o.x.N] : o \in outs \ killed}
     /\ hist' = Append(hist, [a |-> act', res |-> res', st |-> Proj, tag |-> Tag, kills |-> {o.n : o \in killed}])

Emit ==
  /\ PrintT(ToJson(hist))
  /\ chain' = InitNode.chain /\ pers' = InitNode.pers /\ snap' = InitNode.snap
  /\ run' = InitNode.run /\ cache' = InitNode.cache
  /\ gstops' = 0 /\ act' = [name |-> "Init"] /\ res' = [kind |-> "ok"]
  /\ hist' = <<>> /\ alts' = AllAlts

MBTNext == IF steps >= MaxSteps THEN Emit ELSE Step
=============================================================================

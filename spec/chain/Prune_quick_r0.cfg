\* repaired model: chain 0..10 (+3), Retained 0, one batch per block, min-age off, 4 operations, cancel/crash after any batch, event-filter windows of 4 blocks; exhaustive: 261 021 distinct states (896 239 generated), 13-23 s on 4 workers
CONSTANTS
  MaxH = 13
  InitH = 10
  MaxL1 = 15
  Retained = 0
  Lag = 10
  PruneBatch = 1
  L2PerPrune = 1
  MinAge = FALSE
  MaxSteps = 4
  EnableRevert = TRUE
  EnableInterrupts = TRUE
  FixPruneAtomicFloor = TRUE
  FixSampleOnReorg = TRUE
  W = 4
  Base = 0
  WinBound = "exact"
INIT Init
NEXT Next
VIEW view
INVARIANTS TypeOK NoUnderflow FloorBound AgeBound RetainedIntact StateReadsCorrect BelowFloorClean EventsCovered FilterFollowsChain
PROPERTIES Resumable FloorMonotone RestartIsNoOp InitFilterOnlyAdds
CHECK_DEADLOCK FALSE

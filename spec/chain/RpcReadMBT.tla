------------------------------- MODULE RpcReadMBT -------------------------------
(* Behaviour generation for the replayer (harness/engines/rpcread): RpcRead plus a history
   variable.  Every step records the action (for Store: the block's path, transactions and state
   diff, which the replayer concretises), what the model of the code answers (`res`), what the
   property demands (`want`) and the chain / L1 head after the step.  At MaxSteps the history is
   printed as one JSON line and the machine is reset, so one -simulate run yields many behaviours. *)
EXTENDS MCRpcRead, Json

CONSTANT MaxSteps
VARIABLES hist, steps
mbtvars == <<vars, hist, steps>>

MBTInit == Init /\ hist = <<>> /\ steps = 0

(* one random parameter choice per schema and step: uniform over schemas, not over instances *)
R(S) == {RandomElement(S)}

IdsOfKind(k) ==
  CASE k \in {1, 2} -> {NumId(n) : n \in Nums}
    [] k \in {3, 4} -> {HashId(h) : h \in seen \cup {UnknownHash}}
    [] k = 5 -> {HashId(ZeroHash), HashId(UnknownHash)}
    [] k = 6 -> {TagId("latest")}
    [] k \in {7, 8} -> {TagId("l1_accepted")}
    [] OTHER -> {TagId(t) : t \in Tags}

(* transactions worth asking for: those of blocks ever stored, plus a hash nobody has *)
SeenTx == UNION {{TxsOf(p)[i] : i \in 1..Len(TxsOf(p))} : p \in seen} \cup {BogusTx}

(* hashes of transactions the node once stored and no longer holds (dropped by a revert and not
   re-included by the fork): asked for on purpose, most interestingly once the fork block occupies
   their old (number, index) slot.  BogusTx keeps the set non-empty. *)
DroppedTx == {t \in SeenTx : DTxPos(t) = NoIdx}

AllNext ==
  \/ \E v \in Variants : Store(v)
  \/ Revert
  \/ \E n \in R(Nums) : SetL1Head(n)
  \/ \E n \in R(Nums) : SetL1Head(n)
  \/ BlockNumber \/ BlockHashAndNumber
  \/ \E k \in R(1..9) : \E id \in R(IdsOfKind(k)) : GetBlockWithTxHashes(id)
  \/ \E k \in R(1..9) : \E id \in R(IdsOfKind(k)) : GetBlockWithTxs(id)
  \/ \E k \in R(1..9) : \E id \in R(IdsOfKind(k)) : GetBlockWithReceipts(id)
  \/ \E k \in R(1..9) : \E id \in R(IdsOfKind(k)) : GetBlockTransactionCount(id)
  \/ \E k \in R(1..9) : \E id \in R(IdsOfKind(k)) : GetStateUpdate(id)
  \/ \E k \in R(1..9) : \E id \in R(IdsOfKind(k)), i \in R(IdxArgs) : GetTransactionByBlockIdAndIndex(id, i)
  \/ \E k \in R(1..9) : \E id \in R(IdsOfKind(k)), c \in R(CArgs), s \in R(Slots) : GetStorageAt(id, c, s)
  \/ \E k \in R(1..9) : \E id \in R(IdsOfKind(k)), c \in R(CArgs) : GetNonce(id, c)
  \/ \E k \in R(1..9) : \E id \in R(IdsOfKind(k)), c \in R(CArgs) : GetClassHashAt(id, c)
  \/ \E k \in R(1..9) : \E id \in R(IdsOfKind(k)), c \in R(CArgs) : GetClassAt(id, c)
  \/ \E k \in R(1..9) : \E id \in R(IdsOfKind(k)), c \in R(KArgs) : GetClass(id, c)
  \/ \E t \in R(SeenTx) : GetTransactionByHash(t)
  \/ \E t \in R(SeenTx) : GetTransactionReceipt(t)
  \/ \E t \in R(SeenTx) : GetTransactionStatus(t)
  \/ \E t \in R(DroppedTx) : GetTransactionByHash(t)
  \/ \E t \in R(DroppedTx) : GetTransactionReceipt(t)
  \/ \E t \in R(DroppedTx) : GetTransactionStatus(t)

(* guidance: most behaviours start by building a chain (reads on the empty chain stay possible) *)
SimNext == IF steps < 3 /\ RandomElement(1..4) # 1 THEN \E v \in R(Variants) : Store(v) ELSE AllNext

Step ==
  /\ SimNext
  /\ steps' = steps + 1
  /\ hist' = Append(hist, [a |-> act', res |-> res', want |-> want', chain |-> chain', l1 |-> l1'])

Emit ==
  /\ PrintT(ToJson(hist))
  /\ chain' = <<>> /\ height' = -1
  /\ byNum' = [n \in Nums |-> NoPath]
  /\ numByHash' = [h \in HashIds |-> -1]
  /\ txIdx' = [t \in AllTx \cup {BogusTx} |-> NoIdx]
  /\ l1' = -1 /\ seen' = {} /\ reverts' = 0
  /\ act' = [name |-> "Init"] /\ res' = NoRes /\ want' = NoRes
  /\ hist' = <<>> /\ steps' = 0

MBTNext == IF steps >= MaxSteps THEN Emit ELSE Step
=============================================================================

------------------------------- MODULE RpcReadMBT -------------------------------
(* Behaviour generation for the replayer (harness/engines/rpcread): RpcRead plus a history
   variable.  Every step records the action (for Store: the block's path, transactions and state
   diff, which the replayer concretises), what the model of the code answers (`res`), what the
   property demands (`want`) and the chain / L1 head after the step.  At MaxSteps the history is
   printed as one JSON line and the machine is reset, so one -simulate run yields many behaviours. *)
EXTENDS MCRpcRead, Json

CONSTANT MaxSteps
VARIABLES hist, steps
mbtvars == <<vars, hist, steps>>

MBTInit == Init /\ hist = <<>> /\ steps = 0

(* one random parameter choice per schema and step: uniform over schemas, not over instances *)
R(S) == {RandomElement(S)}

IdsOfKind(k) ==
  CASE k \in {1, 2} -> {NumId(n) : n \in Nums}
    [] k \in {3, 4} -> {HashId(h) : h \in seen \cup {UnknownHash}}
    [] k = 5 -> {HashId(ZeroHash), HashId(UnknownHash)}
    [] k = 6 -> {TagId("latest")}
    [] k \in {7, 8} -> {TagId("l1_accepted")}
    [] OTHER -> {TagId(t) : t \in Tags}

(* transactions worth asking for: those of blocks ever stored, plus a hash nobody has *)
SeenTx == UNION {{TxsOf(p)[i] : i \in 1..Len(TxsOf(p))} : p \in seen} \cup {BogusTx}

(* hashes of transactions the node once stored and no longer holds (dropped by a revert and not
   re-included by the fork): asked for on purpose, most interestingly once the fork block occupies
   their old (number, index) slot.  BogusTx keeps the set non-empty. *)
DroppedTx == {t \in SeenTx : DTxPos(t) = NoIdx}

(* one random read request (method and parameters) for the in-flight schema *)
ReadMethods == {"blockNumber", "blockHashAndNumber", "getBlockWithTxHashes", "getBlockWithTxs", "getBlockWithReceipts",
                "getBlockTransactionCount", "getStateUpdate", "getTransactionByHash", "getTransactionReceipt",
                "getTransactionStatus", "getTransactionByBlockIdAndIndex", "getStorageAt", "getNonce",
                "getClassHashAt", "getClassAt", "getClass"}
FlaggedMethods == {"getBlockWithTxs", "getBlockWithReceipts", "getTransactionByHash",
                   "getTransactionByBlockIdAndIndex", "getStorageAt"}
(* f: response flags of the request in flight ("none" = parameter omitted; well-formed flags only) *)
MkRead(m, id, t, i, c, k, s, f) ==
  CASE m \in {"blockNumber", "blockHashAndNumber"} -> NoArg(m)
    [] m \in FlaggedMethods /\ f # "none" ->
         CASE m = "getTransactionByHash" -> [name |-> m, t |-> t, fl |-> f]
           [] m = "getTransactionByBlockIdAndIndex" -> [name |-> m, id |-> id, i |-> i, fl |-> f]
           [] m = "getStorageAt" -> [name |-> m, id |-> id, c |-> c, s |-> s, fl |-> f]
           [] OTHER -> [name |-> m, id |-> id, fl |-> f]
    [] m \in {"getTransactionByHash", "getTransactionReceipt", "getTransactionStatus"} -> [name |-> m, t |-> t]
    [] m = "getTransactionByBlockIdAndIndex" -> [name |-> m, id |-> id, i |-> i]
    [] m = "getStorageAt" -> [name |-> m, id |-> id, c |-> c, s |-> s]
    [] m \in {"getNonce", "getClassHashAt", "getClassAt"} -> [name |-> m, id |-> id, c |-> c]
    [] m = "getClass" -> [name |-> m, id |-> id, c |-> k]
    [] OTHER -> IdArg(m, id)
(* in-flight reads ask for what the reorg touches: the head by every kind of identifier *)
HeadIds == {TagId("latest"), TagId("l1_accepted")}
           \cup (IF chain = <<>> THEN {} ELSE {HashId(chain), NumId(Len(chain) - 1), NumId(Len(chain))})
HeadTx == (IF chain = <<>> THEN {} ELSE {TxsOf(chain)[i] : i \in 1..Len(TxsOf(chain))}) \cup DroppedTx
EnabledMutSeqs == {ms \in MutSeqs : StatesAlong([c |-> chain, l |-> l1], ms) # <<>>
                                     /\ reverts + Cardinality({i \in 1..Len(ms) : ms[i].name = "Revert"}) <= MaxReverts}
ShapeOf(ms) == [i \in 1..Len(ms) |-> ms[i].name]
InFlight ==
  LET en == EnabledMutSeqs IN
  /\ en # {}
  /\ \E sh \in R({ShapeOf(ms) : ms \in en}) : \E ms \in R({x \in en : ShapeOf(x) = sh}) :
       \E m \in R(ReadMethods), id \in R(HeadIds), t \in R(HeadTx), i \in R(0..3), c \in R(Contracts),
          k \in R(Classes), s \in R(Slots), f \in R({"none", "empty", "own"}) :
         ReadDuring(MkRead(m, id, t, i, c, k, s, f), ms)

(* the head is reorganised away AND BACK while the request is in flight (the replayer lets the
   request go while the fork block is stored): whatever the request computed from the fork must not
   stick once the original chain is back *)
ThereAndBack ==
  /\ chain # <<>> /\ reverts + 2 <= MaxReverts
  /\ LET v == Last(chain) IN
     \E m \in R(ReadMethods), id \in R(HeadIds), t \in R(HeadTx), i \in R(0..3), c \in R(Contracts),
        k \in R(Classes), s \in R(Slots), f \in R({"none", "empty", "own"}) :
       ReadDuring(MkRead(m, id, t, i, c, k, s, f), <<RevertMut, StoreMut(1 - v), RevertMut, StoreMut(v)>>)

(* identifiers that denote a block of the chain held now, by every kind *)
HeldIds == {NumId(n) : n \in 0..(Len(chain) - 1)} \cup {HashId(Prefix(chain, n)) : n \in 1..Len(chain)}
           \cup {TagId("latest")} \cup (IF l1 # -1 THEN {TagId("l1_accepted")} ELSE {})
(* guidance for last_update_block: ask, with the flag, for a slot of a deployed contract at a block the
   chain holds - most interesting where the answer is neither the block asked for nor "never" *)
LubTargets ==
  {x \in HeldIds \X Contracts \X Slots :
     LET n == DResolve(x[1])
         st == StateTab[Prefix(chain, n + 1)]
     IN /\ st.class[x[2]] # NoClass
        /\ \/ DLubIn(chain, n, x[2], x[3]) < n                                   \* last written below the block asked for
           \/ st.stor[x[2]][x[3]] = 0 /\ DLubIn(chain, n, x[2], x[3]) > 0         \* zero now, but written
           \/ st.stor[x[2]][x[3]] = 0 /\ WroteSlot(<<chain[1]>>, x[2], x[3])}     \* (a zero write in block 0)
LubProbe ==
  /\ chain # <<>>
  /\ \/ \E id \in R(HeldIds), c \in R(Contracts), s \in R(Slots) : GetStorageAtF(id, c, s, "own")
     \/ /\ LubTargets # {}
        /\ \E x \in R(LubTargets) : GetStorageAtF(x[1], x[2], x[3], "own")
(* ... and for proof facts: a transaction object of a block the chain holds *)
HeldTx == UNION {{TxsOf(Prefix(chain, n))[i] : i \in 1..Len(TxsOf(Prefix(chain, n)))} : n \in 1..Len(chain)}
PfProbe ==
  /\ HeldTx # {}
  /\ \/ \E t \in R(HeldTx) : GetTransactionByHashF(t, "own")
     \/ \E id \in R(HeldIds), i \in R(0..3) : GetTransactionByBlockIdAndIndexF(id, i, "own")
     \/ \E id \in R(HeldIds) : GetBlockWithTxsF(id, "own") \/ GetBlockWithReceiptsF(id, "own")

(* the response_flags of one request of a method that has the parameter: omitted in 2 of 5 (v0.8 / v0.9
   are asked without it in any case), the empty list, the method's flag, something ill-formed *)
FlagOf == <<"none", "none", "empty", "own", "bad">>
RFlag(n) == {FlagOf[RandomElement(1..n)]}   \* (parameterised: TLC evaluates a constant definition only once)

AllNext ==
  \/ \E v \in VariantsAt(scn, Len(chain)) : Store(v)
  \/ Revert
  \/ \E n \in R(Nums) : SetL1Head(n)
  \/ \E n \in R(Nums) : SetL1Head(n)
  \/ \E g \in R(BOOLEAN) : Restart(g)
  \/ InFlight
  \/ ThereAndBack
  \/ BlockNumber \/ BlockHashAndNumber
  \/ \E k \in R(1..9) : \E id \in R(IdsOfKind(k)) : GetBlockWithTxHashes(id)
  \/ \E k \in R(1..9), f \in RFlag(5) : \E id \in R(IdsOfKind(k)) : GetBlockWithTxsF(id, f)
  \/ \E k \in R(1..9), f \in RFlag(5) : \E id \in R(IdsOfKind(k)) : GetBlockWithReceiptsF(id, f)
  \/ \E k \in R(1..9) : \E id \in R(IdsOfKind(k)) : GetBlockTransactionCount(id)
  \/ \E k \in R(1..9) : \E id \in R(IdsOfKind(k)) : GetStateUpdate(id)
  \/ \E k \in R(1..9), f \in RFlag(5) : \E id \in R(IdsOfKind(k)), i \in R(IdxArgs) :
       GetTransactionByBlockIdAndIndexF(id, i, f)
  \/ \E k \in R(1..9), f \in RFlag(5) : \E id \in R(IdsOfKind(k)), c \in R(CArgs), s \in R(Slots) :
       GetStorageAtF(id, c, s, f)
  \/ \E k \in R(1..9) : \E id \in R(IdsOfKind(k)), c \in R(CArgs) : GetNonce(id, c)
  \/ \E k \in R(1..9) : \E id \in R(IdsOfKind(k)), c \in R(CArgs) : GetClassHashAt(id, c)
  \/ \E k \in R(1..9) : \E id \in R(IdsOfKind(k)), c \in R(CArgs) : GetClassAt(id, c)
  \/ \E k \in R(1..9) : \E id \in R(IdsOfKind(k)), c \in R(KArgs) : GetClass(id, c)
  \/ \E t \in R(SeenTx), f \in RFlag(5) : GetTransactionByHashF(t, f)
  \/ \E t \in R(SeenTx) : GetTransactionReceipt(t)
  \/ \E t \in R(SeenTx) : GetTransactionStatus(t)
  \/ \E t \in R(DroppedTx), f \in RFlag(5) : GetTransactionByHashF(t, f)
  \/ \E t \in R(DroppedTx) : GetTransactionReceipt(t)
  \/ \E t \in R(DroppedTx) : GetTransactionStatus(t)

(* ---- the section scenarios (scn # "base"): what a reverted block leaves behind ---- *)
(* a read that can observe the scenario's section, at a block the chain holds, by number, hash or latest *)
MethodsFor(sc) ==
  CASE sc \in {"stor", "clear", "zz"} -> {"getStorageAt"}
    [] sc = "nonce" -> {"getNonce"}
    [] sc = "repl" -> {"getClassHashAt", "getClassAt"}
    [] sc = "deploy" -> {"getClassHashAt", "getClassAt", "getNonce", "getStorageAt"}
    [] sc = "depacc" -> {"getNonce", "getClassHashAt"}
    [] sc \in {"decl0", "decl1"} -> {"getClass", "getClassAt"}
    [] OTHER -> {"getStateUpdate"}
HistProbe ==
  /\ chain # <<>>
  /\ \E m \in R(MethodsFor(scn) \cup {"getStateUpdate"}), id \in R(HeldIds \ {TagId("l1_accepted")}),
        c \in R(Contracts), s \in R(Slots), k \in R(Classes), f \in R({"none", "own"}) :
       CASE m = "getStorageAt" -> GetStorageAtF(id, c, s, f)
         [] m = "getNonce" -> GetNonce(id, c)
         [] m = "getClassHashAt" -> GetClassHashAt(id, c)
         [] m = "getClassAt" -> GetClassAt(id, c)
         [] m = "getClass" -> GetClass(id, k)
         [] OTHER -> GetStateUpdate(id)
(* scenario behaviours: setup, the block with the section, then forks (Revert, another variant) under
   reads of the section's observers; now and then anything else *)
ScnNext ==
  IF steps < 2 /\ Len(chain) = steps THEN Store(0)
  ELSE \E d \in R(1..12) :
         IF d <= 2 /\ Len(chain) < MaxLen THEN \E v \in R(VariantsAt(scn, Len(chain))) : Store(v)
         ELSE IF d <= 4 /\ Len(chain) > 1 /\ reverts < MaxReverts THEN Revert
         ELSE IF d = 5 THEN AllNext
         ELSE IF chain # <<>> THEN HistProbe
         ELSE Store(0)

(* guidance: most behaviours start by building a chain (reads on the empty chain stay possible) *)
SimNext == IF scn # "base" THEN ScnNext
           ELSE IF steps < 3 /\ RandomElement(1..4) # 1 THEN \E v \in R(VariantsAt(scn, Len(chain))) : Store(v)
           ELSE \E d \in R(1..12) :
                IF d = 1 /\ chain # <<>> THEN LubProbe
                ELSE IF d = 2 /\ HeldTx # {} THEN PfProbe
                ELSE AllNext

Step ==
  /\ SimNext
  /\ steps' = steps + 1
  \* want0 / res0: what the same request WITHOUT response_flags must be / is (by the model of the code)
  \* answered: v0.8 / v0.9 are sent that one (a read leaves the database as it is: IRes needs no primes)
  /\ hist' = Append(hist, [a |-> act', res |-> res', want |-> want', chain |-> chain', l1 |-> l1', scn |-> scn',
                            want0 |-> IF IsRead(act') /\ "fl" \in DOMAIN act'
                                      THEN DWantIn(chain', l1', Unflag(act')) ELSE NoRes,
                            res0 |-> IF IsRead(act') /\ "fl" \in DOMAIN act'
                                     THEN IRes(Unflag(act')) ELSE NoRes])

(* the alphabet of the next behaviour: the base alphabet in half of them, else one of the section scenarios *)
ScnPick(n) == IF Scenarios = {"base"} \/ ("base" \in Scenarios /\ RandomElement(1..n) = 1) THEN {"base"}
              ELSE {RandomElement(Scenarios \ {"base"})}
Reset(sc) ==
  /\ chain' = <<>> /\ height' = -1 /\ scn' = sc
  /\ byNum' = [n \in Nums |-> NoPath]
  /\ numByHash' = [h \in HashIds |-> -1]
  /\ txIdx' = [t \in AllTx \cup {BogusTx} |-> NoIdx]
  /\ nh' = EmptyH /\ lh' = EmptyH
  /\ l1' = -1 /\ seen' = {} /\ reverts' = 0
  /\ act' = [name |-> "Init"] /\ res' = NoRes /\ want' = NoRes /\ resL' = NoRes
  /\ hist' = <<>> /\ steps' = 0
Emit ==
  /\ PrintT(ToJson(hist))
  /\ \E sc \in ScnPick(2) : Reset(sc)

MBTNext == IF steps >= MaxSteps THEN Emit ELSE Step

(* ---- directed scripts: the WALK.  One deterministic behaviour per scenario: the setup block, then a
   depth-first walk over EVERY chain of the scenario's alphabet (Store = go down, Revert = come back), in
   the variant order 0, 1, 2 - so that the block with section S for target 1 is reverted and replaced by
   "S for target 2" and then by the empty block, each followed by S / S for target 2 / nothing at the next
   height, and the same one height up.  After every mutator ProbesPerOp reads of the section's observers
   (the replayer adds its own sweep of every height by number and hash after every mutator). *)
CONSTANT ProbesPerOp
RECURSIVE WalkFrom(_)
Cat3(f(_)) == f(0) \o (IF NVar > 1 THEN f(1) ELSE <<>>) \o (IF NVar > 2 THEN f(2) ELSE <<>>)
WalkFrom(len) ==
  IF len >= MaxLen THEN <<>>
  ELSE LET sub(v) == <<[op |-> "S", v |-> v]>> \o WalkFrom(len + 1) \o <<[op |-> "R", v |-> -1]>>
       IN Cat3(sub)
Walk == <<[op |-> "S", v |-> 0]>> \o WalkFrom(1)
ScnOrder == <<"stor", "clear", "zz", "nonce", "repl", "deploy", "depacc", "decl0", "decl1", "mig">>
ScnSeq == SelectSeq(ScnOrder, LAMBDA x : x \in Scenarios)
ScnAfter(sc) == LET i == CHOOSE i \in 1..Len(ScnSeq) : ScnSeq[i] = sc IN ScnSeq[(i % Len(ScnSeq)) + 1]
WalkInit == MBTInit /\ scn = ScnSeq[1]
WalkStep ==
  LET pc == (steps \div (ProbesPerOp + 1)) + 1
      o == Walk[pc]
  IN /\ IF steps % (ProbesPerOp + 1) = 0
        THEN (IF o.op = "S" THEN Store(o.v) ELSE Revert)
        ELSE HistProbe
     /\ steps' = steps + 1
     /\ hist' = Append(hist, [a |-> act', res |-> res', want |-> want', chain |-> chain', l1 |-> l1', scn |-> scn',
                               want0 |-> IF IsRead(act') /\ "fl" \in DOMAIN act'
                                         THEN DWantIn(chain', l1', Unflag(act')) ELSE NoRes,
                               res0 |-> IF IsRead(act') /\ "fl" \in DOMAIN act'
                                        THEN IRes(Unflag(act')) ELSE NoRes])
WalkEmit == PrintT(ToJson(hist)) /\ Reset(ScnAfter(scn))
WalkNext == IF steps >= Len(Walk) * (ProbesPerOp + 1) THEN WalkEmit ELSE WalkStep
=============================================================================

\* repaired model: chain 0..11 (+2), Retained 1, two-block batches, coalescing 2, min-age on, 5 operations, cancel/crash after any batch; exhaustive: 288 256 distinct states (1 287 184 generated), 12-30 s
CONSTANTS
  MaxH = 13
  InitH = 11
  MaxL1 = 15
  Retained = 1
  Lag = 10
  PruneBatch = 2
  L2PerPrune = 2
  MinAge = TRUE
  MaxSteps = 5
  EnableRevert = TRUE
  EnableInterrupts = TRUE
  FixPruneAtomicFloor = TRUE
  FixSampleOnReorg = TRUE
  W = 4
  Base = 0
  WinBound = "exact"
INIT Init
NEXT Next
VIEW view
INVARIANTS TypeOK NoUnderflow FloorBound AgeBound RetainedIntact StateReadsCorrect BelowFloorClean EventsCovered FilterFollowsChain
PROPERTIES Resumable FloorMonotone RestartIsNoOp InitFilterOnlyAdds
CHECK_DEADLOCK FALSE

------------------------------- MODULE MCBlockBlob -------------------------------
(* model-checking instances of BlockBlob *)
EXTENDS BlockBlob
KindsOne == {"l1handler"}
KindsTwo == {"invoke3", "l1handler"}
KindsAll == {"invoke0", "invoke1", "invoke3", "declare1", "declare2", "declare3",
             "deployaccount1", "deployaccount3", "l1handler", "deploy"}
=============================================================================

------------------------------- MODULE MCBlockBlob -------------------------------
(* model-checking instances of BlockBlob *)
EXTENDS BlockBlob
KindsOne == {"l1handler"}
KindsTwo == {"invoke3", "l1handler"}
KindsTypes == {"invoke3", "declare3", "deployaccount3", "l1handler", "deploy"}      \* one kind per Go transaction type
KindsAll == {"invoke0", "invoke1", "invoke3", "declare1", "declare2", "declare3",
             "deployaccount1", "deployaccount3", "l1handler", "deploy"}

(* ---------------------------------------------------------------------------------------------
   THE PER-FIELD NORMAL FORMS (FieldTable <- MCFieldTable).

   One row per slice / map / byte-string / pointer field of every stored Go type, named by its Go
   path (root type, then the field path: ".F" a struct field - embedded structs are transparent -,
   "[]" an element of a slice, "{}" a value of a map; pointers are transparent). `kind` is the Go
   kind, `codec` the code that writes and reads the field, `norm` the contract:

     exact      the stored shape comes back (nil stays nil, empty stays empty, a nil pointer stays nil,
                a pointer to the zero value stays a pointer to the zero value)
     empty=nil  nil and empty are ONE value, normal form nil
     nil=empty  nil and empty are ONE value, normal form empty
     key        an identity field (the record's own hash, used as a database key): never absent

   How each codec family was derived from the code (confirmed afterwards on the unchanged tree by the
   engine, which enumerates the fields by reflection and reports rows it does not find / fields the
   table does not list):

   "cbor"  encoder/encoder.go: fxamacker/cbor v2 with cbor.CanonicalEncOptions() (NilContainers is the
           default NilContainerAsNull) and struct fields WITHOUT tag options (core/block.go,
           transaction.go, receipt.go, state_update.go, class.go carry at most a rename,
           `cbor:"gasprice"`, never toarray / omitempty - except the one below). Encoder: a nil slice /
           map / byte string / pointer is written as null (f6) (encode.go: the IsNil() branches of
           encodeByteString / encodeArray / encodeMap, nil pointers before any MarshalCBOR is consulted
           - so also for *felt.Felt and *TransactionVersion with their own MarshalCBOR), an empty one
           as 80 / a0 / 40. Decoder: null leaves the zero value of the fresh destination (nil); 80
           makes reflect.MakeSlice(t, 0, 0) (decode.go parseArrayToSlice: `v.IsNil() || ... ||
           count == 0`), a0 reflect.MakeMapWithSize (parseMapToMap: `if v.IsNil()`), 40 make([]byte, 0)
           (fillByteString); a pointer to the zero value is written as the zero value and comes back
           as a new pointer. => exact.
   "cbor-omitempty"  core/transaction.go:302 `ProofFacts []felt.Felt `cbor:",omitempty"``: nil AND
           empty are both omitted, the decoder leaves the fresh destination nil. => empty=nil. Nothing
           can tell them apart after a round trip and nothing needs to: invokeTransactionHash uses
           len(ProofFacts) > 0, vm/transaction.go and rpc/v10 adapt_transaction.go test `!= nil` to
           decide presence, and rpc/v10 transaction.go:42 turns nil into [] when proof facts are asked
           for - an internal normal form with no RPC-visible consequence.
   "feltslice"  core/felt/slice.go, the hand-written codec of felt.Slice (SierraClass.Program,
           CasmClass.Bytecode): MarshalCBOR writes f6 for nil and an array header otherwise (80 for
           empty); UnmarshalCBOR makes `make([]F, size)` for an array header (non-nil for size 0) and
           falls back to the generic decoder for f6 (nil). => exact.
   "blob"  core/block_transaction.go + core/indexed: the block-level lists themselves are never
           encoded - only their elements and offsets (BlockTransactionsIndexes has
           `keyasint,omitempty`, indexed.Write starts from make([]int, 0)), and LazySlice.All returns
           make([]T, len(indexes)). => nil=empty (an empty block's Transactions / Receipts come back
           as empty non-nil lists whatever was handed to Store). Callers: sn2core / p2p2core always
           build the lists with make(); every RPC adapter builds its own array from them.
   "key"   WriteTransactionsAndReceipts keys the hash index by tx.Hash() and
           extractAllTransactionHashes rejects a zero hash ("missing TransactionHash");
           WriteBlockHeader keys the number index by header.Hash.
   "binary"  core/class.go ClassCasmHashMetadata.MarshalBinary / UnmarshalBinary: presence flags -
           casmHashV1 nil <-> flag 0 (a pointer to a zero hash is written with flag 1 and 32 zero bytes),
           migratedAt 0 <-> flag 0. => exact. (Private fields: the engine drives the constructors and
           looks at the pointer by reflection; IsDeclaredWithV2() is `casmHashV1 == nil`.)

   `proj` = "events": the field is also decoded by the events projection (core/partial_cbor.go
   receiptEventsProjection), a separate struct with its own decoder.
   --------------------------------------------------------------------------------------------- *)
Rows(root, kind, codec, norm, proj, fields) ==
  {[root |-> root, field |-> f, kind |-> kind, codec |-> codec, norm |-> norm, proj |-> proj] : f \in fields}
Exact(root, kind, fields) == Rows(root, kind, "cbor", "exact", "", fields)
ResourceBoundsRows(root) == Exact(root, "map", {".ResourceBounds"}) \cup Exact(root, "ptr", {".ResourceBounds{}.MaxPricePerUnit"})

MCFieldTable ==
  (* core.Block: the lists a block is stored / returned with *)
  Rows("*core.Block", "slice", "blob", "nil=empty", "", {".Transactions", ".Receipts"})
  (* core.Header (core/block.go) *)
  \cup Rows("*core.Header", "ptr", "cbor", "key", "", {".Hash"})
  \cup Exact("*core.Header", "ptr", {".ParentHash", ".GlobalStateRoot", ".SequencerAddress", ".EventsBloom", ".L1GasPriceETH",
                                     ".L1GasPriceSTRK", ".L1DataGasPrice", ".L1DataGasPrice.PriceInWei", ".L1DataGasPrice.PriceInFri",
                                     ".L2GasPrice", ".L2GasPrice.PriceInWei", ".L2GasPrice.PriceInFri", ".Signatures[][]"})
  \cup Exact("*core.Header", "slice", {".Signatures", ".Signatures[]"})
  (* core.BlockCommitments *)
  \cup Exact("*core.BlockCommitments", "ptr", {".TransactionCommitment", ".EventCommitment", ".ReceiptCommitment", ".StateDiffCommitment"})
  (* core.ClassCasmHashMetadata (core/class.go, binary codec) *)
  \cup Rows("core.ClassCasmHashMetadata", "ptr", "binary", "exact", "", {".casmHashV1"})
  (* core.L1Head *)
  \cup Exact("*core.L1Head", "ptr", {".BlockHash", ".StateRoot"})
  (* the five transaction types (core/transaction.go) *)
  \cup Rows("*core.InvokeTransaction", "ptr", "cbor", "key", "", {".TransactionHash"})
  \cup Exact("*core.InvokeTransaction", "ptr", {".MaxFee", ".ContractAddress", ".Version", ".EntryPointSelector", ".Nonce", ".SenderAddress"})
  \cup Exact("*core.InvokeTransaction", "slice", {".CallData", ".TransactionSignature", ".PaymasterData", ".AccountDeploymentData"})
  \cup Rows("*core.InvokeTransaction", "slice", "cbor-omitempty", "empty=nil", "", {".ProofFacts"})
  \cup ResourceBoundsRows("*core.InvokeTransaction")
  \cup Rows("*core.DeclareTransaction", "ptr", "cbor", "key", "", {".TransactionHash"})
  \cup Exact("*core.DeclareTransaction", "ptr", {".ClassHash", ".SenderAddress", ".MaxFee", ".Nonce", ".Version", ".CompiledClassHash"})
  \cup Exact("*core.DeclareTransaction", "slice", {".TransactionSignature", ".PaymasterData", ".AccountDeploymentData"})
  \cup ResourceBoundsRows("*core.DeclareTransaction")
  \cup Rows("*core.DeployAccountTransaction", "ptr", "cbor", "key", "", {".TransactionHash"})
  \cup Exact("*core.DeployAccountTransaction", "ptr", {".ContractAddressSalt", ".ContractAddress", ".ClassHash", ".Version", ".MaxFee", ".Nonce"})
  \cup Exact("*core.DeployAccountTransaction", "slice", {".ConstructorCallData", ".TransactionSignature", ".PaymasterData"})
  \cup ResourceBoundsRows("*core.DeployAccountTransaction")
  \cup Rows("*core.DeployTransaction", "ptr", "cbor", "key", "", {".TransactionHash"})
  \cup Exact("*core.DeployTransaction", "ptr", {".ContractAddressSalt", ".ContractAddress", ".ClassHash", ".Version"})
  \cup Exact("*core.DeployTransaction", "slice", {".ConstructorCallData"})
  \cup Rows("*core.L1HandlerTransaction", "ptr", "cbor", "key", "", {".TransactionHash"})
  \cup Exact("*core.L1HandlerTransaction", "ptr", {".ContractAddress", ".EntryPointSelector", ".Nonce", ".Version"})
  \cup Exact("*core.L1HandlerTransaction", "slice", {".CallData"})
  (* core.TransactionReceipt (core/receipt.go, core/transaction.go) *)
  \cup Rows("*core.TransactionReceipt", "ptr", "cbor", "exact", "events", {".TransactionHash", ".Events[]", ".Events[].From"})
  \cup Rows("*core.TransactionReceipt", "slice", "cbor", "exact", "events", {".Events", ".Events[].Keys", ".Events[].Data"})
  \cup Exact("*core.TransactionReceipt", "ptr", {".Fee", ".ExecutionResources", ".ExecutionResources.DataAvailability",
                                                 ".ExecutionResources.TotalGasConsumed", ".L1ToL2Message", ".L1ToL2Message.Nonce",
                                                 ".L1ToL2Message.Selector", ".L1ToL2Message.To", ".L2ToL1Message[]", ".L2ToL1Message[].From"})
  \cup Exact("*core.TransactionReceipt", "slice", {".L1ToL2Message.Payload", ".L2ToL1Message", ".L2ToL1Message[].Payload"})
  (* core.StateUpdate / core.StateDiff (core/state_update.go) *)
  \cup Exact("*core.StateUpdate", "ptr", {".BlockHash", ".NewRoot", ".OldRoot", ".StateDiff", ".StateDiff.StorageDiffs{}{}",
                                          ".StateDiff.Nonces{}", ".StateDiff.DeployedContracts{}", ".StateDiff.DeclaredV0Classes[]",
                                          ".StateDiff.DeclaredV1Classes{}", ".StateDiff.ReplacedClasses{}"})
  \cup Exact("*core.StateUpdate", "map", {".StateDiff.StorageDiffs", ".StateDiff.StorageDiffs{}", ".StateDiff.Nonces",
                                          ".StateDiff.DeployedContracts", ".StateDiff.DeclaredV1Classes", ".StateDiff.ReplacedClasses",
                                          ".StateDiff.MigratedClasses"})
  \cup Exact("*core.StateUpdate", "slice", {".StateDiff.DeclaredV0Classes"})
  (* core.SierraClass with its compiled class (core/class.go) *)
  \cup Exact("*core.SierraClass", "ptr", {".AbiHash", ".ProgramHash", ".Compiled", ".Compiled.Prime",
                                          ".EntryPoints.Constructor[].Selector", ".EntryPoints.External[].Selector", ".EntryPoints.L1Handler[].Selector",
                                          ".Compiled.Constructor[].Selector", ".Compiled.External[].Selector", ".Compiled.L1Handler[].Selector"})
  \cup Rows("*core.SierraClass", "slice", "feltslice", "exact", "", {".Program", ".Compiled.Bytecode"})
  \cup Exact("*core.SierraClass", "slice", {".EntryPoints.Constructor", ".EntryPoints.External", ".EntryPoints.L1Handler",
                                            ".Compiled.Constructor", ".Compiled.External", ".Compiled.L1Handler",
                                            ".Compiled.Constructor[].Builtins", ".Compiled.External[].Builtins", ".Compiled.L1Handler[].Builtins",
                                            ".Compiled.BytecodeSegmentLengths.Children", ".Compiled.BytecodeSegmentLengths.Children[].Children"})
  \cup Exact("*core.SierraClass", "bytes", {".Compiled.PythonicHints", ".Compiled.Hints"})
  (* core.DeprecatedCairoClass *)
  \cup Exact("*core.DeprecatedCairoClass", "bytes", {".Abi"})
  \cup Exact("*core.DeprecatedCairoClass", "slice", {".Externals", ".L1Handlers", ".Constructors"})
  \cup Exact("*core.DeprecatedCairoClass", "ptr", {".Externals[].Selector", ".Externals[].Offset", ".L1Handlers[].Selector", ".L1Handlers[].Offset",
                                                   ".Constructors[].Selector", ".Constructors[].Offset"})

AllCodecs == {"cbor", "cbor-omitempty", "feltslice", "blob", "binary"}
=============================================================================

--------------------------- MODULE MCStateHistory ---------------------------
(* Model-checking instance of StateHistory: nothing a .cfg cannot express is needed for the
   constants (sets of strings); this module only fixes the names used by the configurations.
   (The expected-violation configurations StateHistory_x_keep_<encoding>_<kind>.cfg substitute
   Keep_<encoding>_<kind> of StateHistory.tla for the mechanism switch RevertKeeps.) *)
EXTENDS StateHistory
=============================================================================

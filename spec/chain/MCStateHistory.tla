--------------------------- MODULE MCStateHistory ---------------------------
(* Model-checking instance of StateHistory: nothing a .cfg cannot express is needed for the
   constants (sets of strings); this module only fixes the names used by the configurations. *)
EXTENDS StateHistory
=============================================================================

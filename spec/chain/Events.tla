------------------------------- MODULE Events -------------------------------
(* The event index of juno and the event query built on it.  Property C09.

   Code modelled (as it is, defects included - see the switches):
     core/running_event_filter.go        RunningEventFilter.insert / onReorg / Write,
                                         InitializeRunningEventFilter (snapshot as is / same-window
                                         fill / rebuild), pruner/running_event_filter.go (same
                                         algorithm with floor = 0)
     core/aggregated_bloom_filter.go     one column of bloom bits per block, windows of W blocks
     blockchain/aggregated_bloom_filter_cache.go   MatchedBlockIterator: per window the candidate
                                         source is the running window, else the LRU cache, else the
                                         persisted window (which is then cached)
     blockchain/event_filter.go          EventFilter.Events: candidate walk, scan limit,
                                         chunk size, continuation token (block, processed events)
     blockchain/event_matcher.go         exact matching on candidate blocks

   Abstraction: a block's bloom filter is the EXACT set of its atoms (address atoms and
   (position, key) atoms), so the model has no hash-collision false positives; stale bits (the
   false positives and false negatives the code really produces) are modelled exactly.  A window
   filter is the sparse set of <<block number, atom>> pairs that are set in it, which makes the
   real window size (W = 8192) as cheap as W = 4.  Block numbers are absolute: blocks 0..Base-1 are
   pre-existing EMPTY blocks (the base image of the replay harness), the modelled blocks follow.

   One action = one public call of blockchain.Blockchain (Store, RevertHead, a complete paged event
   query, a process restart with or without the graceful-stop snapshot).  The running filter is
   initialised lazily by the first call that touches it (ensureInit); that matters because the
   initialisation has disk effects (a same-window fill that reaches the end of the window persists
   it; the repaired code deletes the snapshot it has read), so it is modelled where it happens.

   `act` / `res` are output-only variables (the call and what it returned); `cause` is a ghost
   used only to name the cause of a false negative.

   Defect switches (FALSE = juno before the fix, TRUE = repaired; all three fixes are in /repo):
     InvalidateCacheOnReorg   d89ef18  H1   stale LRU entry after a reorg across a window boundary
     SnapshotConsumedOnLoad   46dad12  H2   stale shutdown snapshot resumed after reorg + crash
     DropReopenedWindow       7dda82e  H19  persisted filter of a re-opened window left on disk:
                                            after a crash the rebuild anchors on it, the running
                                            window starts above the head, Store is refused and
                                            queries are answered from the stale window
   checks/C09.py decides the switch values per run by replaying the minimal counterexample of each
   faithful switch on the real code. *)
EXTENDS Integers, Sequences, FiniteSets, TLC

CONSTANTS W,            \* blocks per aggregated filter window (real: core.NumBlocksPerFilter = 8192)
          Base,         \* number of pre-existing empty blocks 0..Base-1 (never reverted)
          MaxBlocks,    \* bound on the number of modelled blocks above Base
          MaxGraceful,  \* bound on the number of graceful stops (snapshot writes)
          BlockMenu,    \* set of block contents a Store may choose (sequence of txs of events)
          FilterMenu,   \* set of filters a Query may choose
          Chunks,       \* set of chunk sizes (>= 1)
          Limits,       \* set of scan limits (0 = unlimited)
          RangeSlack,   \* queries use from/to in (Base - RangeSlack)..(Height + RangeSlack) and from = 0;
                        \* negative: only the full range
          \* ---- defect switches: FALSE = the code before the fix, TRUE = the repaired design
          InvalidateCacheOnReorg,  \* H1: RevertHead drops the cached persisted windows
          SnapshotConsumedOnLoad,  \* H2: the shutdown snapshot is deleted as soon as an initialisation
                                   \*     has read it (only the start right after the graceful stop uses it)
          DropReopenedWindow       \* H19: onReorg deletes the persisted filter of the window it
                                   \*      re-opens (the code deletes the key of the window it leaves)

VARIABLES chain,      \* disk: sequence of modelled blocks; block number Base+i-1 is chain[i]
          persisted,  \* disk: window index -> set of <<block, atom>> (AggregatedBloomFilters bucket)
          snapshot,   \* disk: [ok, from, next, bits, pre]  (RunningEventFilter key; pre = ghost: chain then)
          running,    \* memory: [from, next, bits]
          cache,      \* memory: window index -> bits (LRU of persisted windows, 16 entries: never evicts here)
          gstops,     \* number of graceful stops so far
          cause,      \* ghost: the first event that poisoned the index: "none" | "snapshot" (a stale
                      \*        snapshot was resumed) | "persisted" (a rebuild anchored on a persisted window
                      \*        that a reorg had re-opened and left on disk)
          act, res

vars == <<chain, persisted, snapshot, running, cache, gstops, cause, act, res>>
view == <<chain, persisted, snapshot, running, cache, gstops, cause>>

--------------------------------------------------------------------------
(* generic helpers *)
Max(S) == CHOOSE x \in S : \A y \in S : y <= x
EmptyF == [x \in {} |-> {}]
Put(f, k, v) == [x \in (DOMAIN f) \cup {k} |-> IF x = k THEN v ELSE f[x]]
Del(f, k) == [x \in (DOMAIN f) \ {k} |-> f[x]]
IsPrefix(s, t) == Len(s) <= Len(t) /\ \A i \in 1..Len(s) : s[i] = t[i]
Range(s) == {s[i] : i \in 1..Len(s)}
RECURSIVE Concat(_)
Concat(ss) == IF Len(ss) = 0 THEN <<>> ELSE ss[1] \o Concat(Tail(ss))

(* blocks, events, atoms *)
AddrAtom(a) == <<"a", 0, a>>
KeyAtom(p, k) == <<"k", p, k>>          \* p = 0-based position, as in the bloom key (key || varint(p))

RECURSIVE FlatFrom(_, _)
FlatFrom(blk, t) ==
  IF t > Len(blk) THEN <<>>
  ELSE [i \in 1..Len(blk[t]) |-> [t |-> t - 1, i |-> i - 1, e |-> blk[t][i]]] \o FlatFrom(blk, t + 1)
Flat(blk) == FlatFrom(blk, 1)           \* events of a block in order, with tx index and event index

EventAtoms(e) == {AddrAtom(e.a)} \cup {KeyAtom(p - 1, e.k[p]) : p \in 1..Len(e.k)}
Atoms(blk) == UNION {EventAtoms(x.e) : x \in Range(Flat(blk))}   \* core.EventsBloom

HeightOf(ch) == Base + Len(ch) - 1      \* -1 on an empty database
Height == HeightOf(chain)
BlockAt(b) == IF b < Base THEN <<>> ELSE chain[b - Base + 1]

Col(bits, b) == {x[2] : x \in {y \in bits : y[1] = b}}
ClearCol(bits, b) == {y \in bits : y[1] # b}

(* EventMatcher.MatchesEventKeys + address test *)
MatchEvent(f, e) ==
  /\ f.addrs = {} \/ e.a \in f.addrs
  /\ Len(e.k) >= Len(f.keys)
  /\ \A p \in 1..Len(f.keys) : f.keys[p] = {} \/ e.k[p] \in f.keys[p]

(* EventMatcher.getCandidateBlocksForFilterInto on one column *)
MayMatch(f, col) ==
  /\ f.addrs = {} \/ \E a \in f.addrs : AddrAtom(a) \in col
  /\ \A p \in 1..Len(f.keys) : f.keys[p] = {} \/ \E k \in f.keys[p] : KeyAtom(p - 1, k) \in col

--------------------------------------------------------------------------
(* RunningEventFilter.insert for an in-range block n; r = [from, next, bits], p = persisted *)
InsertBits(r, p, n, atoms) ==
  LET bits2 == r.bits \cup {<<n, a>> : a \in atoms} IN
  IF n = r.from + W - 1
  THEN [r |-> [from |-> n + 1, next |-> n + 1, bits |-> {}], p |-> Put(p, r.from \div W, bits2)]
  ELSE [r |-> [from |-> r.from, next |-> n + 1, bits |-> bits2], p |-> p]

(* fillRunningEventFilter(from n .. Height): Insert writes a completed window straight to the DB *)
RECURSIVE FillFrom(_, _, _)
FillFrom(r, p, n) ==
  IF n > Height THEN [r |-> r, p |-> p]
  ELSE LET x == InsertBits(r, p, n, Atoms(BlockAt(n))) IN FillFrom(x.r, x.p, n + 1)

(* rebuildRunningEventFilter: walk back to the most recent persisted window at or below the
   head's window, continue right after it (or from 0).  The empty base blocks are skipped in
   closed form: they only persist empty windows. *)
Rebuild(p) ==
  LET wl == Height \div W
      cand == {w \in DOMAIN p : w <= wl}
      cf == IF cand = {} THEN 0 ELSE (Max(cand) + 1) * W IN
  IF cf >= Base
  THEN FillFrom([from |-> cf, next |-> cf, bits |-> {}], p, cf)
  ELSE LET full == {w \in (cf \div W)..(Base \div W) : (w + 1) * W <= Base}
           p2 == [w \in (DOMAIN p) \cup full |-> IF w \in full THEN {} ELSE p[w]] IN
       FillFrom([from |-> (Base \div W) * W, next |-> Base, bits |-> {}], p2, Base)

(* the rebuild anchors on a persisted window that the chain no longer fills (left on disk by a
   revert across its end): the running window then starts above the head *)
AnchorIncomplete(p) ==
  LET cand == {w \in DOMAIN p : w <= Height \div W} IN
  cand # {} /\ (Max(cand) + 1) * W - 1 > Height

SnapStale(s) == ~(IsPrefix(s.pre, chain) /\ s.next = Base + Len(s.pre))
Strip(s) == [from |-> s.from, next |-> s.next, bits |-> s.bits]

(* core.InitializeRunningEventFilter; result [r, p, how] *)
InitFromDisk(p, s) ==
  IF Height = -1 THEN [r |-> [from |-> 0, next |-> 0, bits |-> {}], p |-> p, how |-> "empty"]
  ELSE IF s.ok /\ s.next = Height + 1
       THEN [r |-> Strip(s), p |-> p, how |-> "snapshot"]
  ELSE IF s.ok /\ s.next <= Height /\ Height <= s.from + W - 1
       THEN LET x == FillFrom(Strip(s), p, s.next) IN [r |-> x.r, p |-> x.p, how |-> "fill"]
  ELSE LET x == Rebuild(p) IN [r |-> x.r, p |-> x.p, how |-> "rebuild"]

NoSnap == [ok |-> FALSE, from |-> 0, next |-> 0, bits |-> {}, pre |-> <<>>]
Lazy == [ok |-> FALSE, from |-> 0, next |-> 0, bits |-> {}]     \* a new process: not initialised yet

(* the base image: Base empty blocks stored by a previous process, no snapshot; the process under
   test is a new Blockchain on it *)
BaseWindows == {w \in 0..(Base \div W) : (w + 1) * W <= Base}

Init ==
  /\ chain = <<>>
  /\ persisted = [w \in BaseWindows |-> {}]
  /\ snapshot = NoSnap
  /\ running = Lazy
  /\ cache = EmptyF
  /\ gstops = 0
  /\ cause = "none"
  /\ act = [name |-> "Init"]
  /\ res = [kind |-> "ok"]

(* RunningEventFilter.ensureInit: the first call that touches the filter initialises it from the
   disk, and a same-window fill that reaches the end of the window WRITES that window to the disk
   at that moment.  Cur is the (deterministic) outcome; an action that touches the filter adopts
   Cur.r / Cur.p / CurCause. *)
Cur ==
  IF running.ok THEN [r |-> [from |-> running.from, next |-> running.next, bits |-> running.bits],
                      p |-> persisted, how |-> "running", s |-> snapshot]
  ELSE LET x == InitFromDisk(persisted, snapshot) IN
       [r |-> x.r, p |-> x.p, how |-> x.how,
        s |-> IF SnapshotConsumedOnLoad /\ snapshot.ok /\ Height # -1 THEN NoSnap ELSE snapshot]
Hot(r) == [ok |-> TRUE, from |-> r.from, next |-> r.next, bits |-> r.bits]
CurCause ==
  IF cause # "none" \/ running.ok THEN cause
  ELSE IF Cur.how \in {"snapshot", "fill"} /\ SnapStale(snapshot) THEN "snapshot"
  ELSE IF Cur.how = "rebuild" /\ AnchorIncomplete(persisted) THEN "persisted"
  ELSE "none"

--------------------------------------------------------------------------
(* Blockchain.Store: the bloom insert is the last step inside the store batch; when the block is
   outside the running window the whole store fails (the initialisation stays) *)
Store(blk) ==
  LET n == Height + 1
      cur == Cur
      r == cur.r IN
  /\ Len(chain) < MaxBlocks
  /\ act' = [name |-> "Store", blk |-> blk]
  /\ cause' = CurCause
  /\ snapshot' = cur.s
  /\ IF n < r.from \/ n > r.from + W - 1
     THEN /\ res' = [kind |-> "err"]
          /\ running' = Hot(r)
          /\ persisted' = cur.p
          /\ UNCHANGED <<chain, cache, gstops>>
     ELSE LET x == InsertBits(r, cur.p, n, Atoms(blk)) IN
          /\ chain' = Append(chain, blk)
          /\ running' = Hot(x.r)
          /\ persisted' = x.p
          /\ res' = [kind |-> "ok"]
          /\ UNCHANGED <<cache, gstops>>

(* Blockchain.RevertHead: RunningEventFilter.onReorg works from its own `next`, not from the head *)
Revert ==
  LET cur0 == Cur
      r == cur0.r
      p == cur0.p
      cur == r.next - 1 IN
  /\ Len(chain) > 0
  /\ act' = [name |-> "Revert"]
  /\ cause' = CurCause
  /\ snapshot' = cur0.s
  /\ IF r.from >= 1 /\ cur = r.from - 1
     THEN LET wp == cur \div W IN
          IF wp \notin DOMAIN p
          THEN /\ res' = [kind |-> "err"]
               /\ running' = Hot(r)
               /\ persisted' = p
               /\ UNCHANGED <<chain, cache, gstops>>
          ELSE /\ running' = Hot([from |-> wp * W, next |-> cur, bits |-> ClearCol(p[wp], cur)])
               /\ persisted' = IF DropReopenedWindow THEN Del(p, wp) ELSE Del(p, r.from \div W)
               /\ cache' = IF InvalidateCacheOnReorg THEN EmptyF ELSE cache
               /\ chain' = SubSeq(chain, 1, Len(chain) - 1)
               /\ res' = [kind |-> "ok"]
               /\ UNCHANGED gstops
     ELSE IF cur < r.from \/ cur > r.from + W - 1
     THEN /\ res' = [kind |-> "err"]
          /\ running' = Hot(r)
          /\ persisted' = p
          /\ UNCHANGED <<chain, cache, gstops>>
     ELSE /\ running' = Hot([r EXCEPT !.next = cur, !.bits = ClearCol(@, cur)])
          /\ persisted' = p
          /\ cache' = IF InvalidateCacheOnReorg THEN EmptyF ELSE cache
          /\ chain' = SubSeq(chain, 1, Len(chain) - 1)
          /\ res' = [kind |-> "ok"]
          /\ UNCHANGED gstops

(* process restart: graceful = Blockchain.WriteRunningEventFilter() first (which initialises, then
   writes the snapshot); then a new Blockchain on the same store: empty cache, lazy filter *)
Restart(g) ==
  /\ g => gstops < MaxGraceful
  /\ IF g
     THEN /\ LET cur == Cur IN
             /\ snapshot' = [ok |-> TRUE, from |-> cur.r.from, next |-> cur.r.next, bits |-> cur.r.bits,
                             pre |-> chain]
             /\ persisted' = cur.p
          /\ cause' = CurCause
     ELSE UNCHANGED <<snapshot, persisted, cause>>
  /\ running' = Lazy
  /\ cache' = EmptyF
  /\ gstops' = IF g THEN gstops + 1 ELSE gstops
  /\ act' = [name |-> "Restart", graceful |-> g]
  /\ res' = [kind |-> "ok"]
  /\ UNCHANGED chain

--------------------------------------------------------------------------
(* The event query.  During one query neither the disk nor the running filter changes and a cache
   entry, once added, equals the persisted window it was read from, so the candidate source of a
   window is fixed for the whole query; the query's effects are the lazy initialisation (if it
   loads any window) and the set of windows it caches. *)
Missing == {<<-1, <<"missing", 0, "">>>>}

(* q bundles what is fixed during a query: [f, to, chunk, limit, uc (consult the cache?), cur (= Cur)] *)
SrcOf(cur, w, useCache) ==
  IF w * W = cur.r.from THEN cur.r.bits
  ELSE IF useCache /\ w \in DOMAIN cache THEN cache[w]
  ELSE IF w \in DOMAIN cur.p THEN cur.p[w]
  ELSE Missing

NoTok == [b |-> -1, p |-> 0]

(* AppendBlockEventsFromTransactionEvents on block b: i = events processed so far *)
RECURSIVE ProcBlock(_, _, _, _, _, _)
ProcBlock(q, b, evs, i, skipped, acc) ==
  IF i = Len(evs) THEN [acc |-> acc, full |-> FALSE, processed |-> i]
  ELSE IF i < skipped THEN ProcBlock(q, b, evs, i + 1, skipped, acc)
  ELSE IF ~MatchEvent(q.f, evs[i + 1].e) THEN ProcBlock(q, b, evs, i + 1, skipped, acc)
  ELSE IF Len(acc) < q.chunk
       THEN ProcBlock(q, b, evs, i + 1, skipped, Append(acc, [b |-> b, t |-> evs[i + 1].t, i |-> evs[i + 1].i]))
  ELSE [acc |-> acc, full |-> TRUE, processed |-> i]

(* a filter without any constraint: every block of a window is a candidate *)
IsMatchAll(f) == f.addrs = {} /\ \A p \in 1..Len(f.keys) : f.keys[p] = {}
Min(S) == CHOOSE x \in S : \A y \in S : x <= y

(* EventFilter.canonicalEvents + MatchedBlockIterator: one page over [b, hi], window by window,
   jumping from candidate to candidate; loaded = windows whose filter was loaded.  (With an
   unconstrained filter and no scan limit the empty base blocks are skipped: visiting them has no
   effect.) *)
RECURSIVE Walk(_, _, _, _, _, _, _)
Walk(q, b, hi, skipped, acc, scanned, loaded) ==
  IF b > hi THEN [err |-> FALSE, ev |-> acc, tok |-> NoTok, loaded |-> loaded]
  ELSE LET w == b \div W
           src == SrcOf(q.cur, w, q.uc)
           wend == IF hi < w * W + W - 1 THEN hi ELSE w * W + W - 1 IN
       IF src = Missing THEN [err |-> TRUE, ev |-> <<>>, tok |-> NoTok, loaded |-> loaded]
       ELSE LET all == IsMatchAll(q.f)
                lo == IF all /\ q.limit = 0 /\ b < Base
                      THEN (IF Base <= wend THEN Base ELSE wend + 1) ELSE b
                cands == IF all THEN {}
                         ELSE {c \in {x[1] : x \in src} : c >= b /\ c <= wend /\ MayMatch(q.f, Col(src, c))} IN
            IF (all /\ lo > wend) \/ (~all /\ cands = {})
            THEN Walk(q, wend + 1, hi, skipped, acc, scanned, loaded \cup {w})
            ELSE LET c == IF all THEN lo ELSE Min(cands) IN
                 IF q.limit > 0 /\ scanned + 1 > q.limit
                 THEN [err |-> FALSE, ev |-> acc, tok |-> [b |-> c, p |-> 0], loaded |-> loaded \cup {w}]
                 ELSE LET pb == ProcBlock(q, c, Flat(BlockAt(c)), 0, skipped, acc) IN
                      IF pb.full
                      THEN [err |-> FALSE, ev |-> pb.acc, tok |-> [b |-> c, p |-> pb.processed],
                            loaded |-> loaded \cup {w}]
                      ELSE Walk(q, c + 1, hi, 0, pb.acc, scanned + 1, loaded \cup {w})

(* EventFilter.Events with a nil pre-confirmed reader *)
Page(q, start, skipped) ==
  LET hi == IF q.to <= Height THEN q.to ELSE Height IN
  IF start > hi THEN [err |-> FALSE, ev |-> <<>>, tok |-> NoTok, loaded |-> {}]
  ELSE Walk(q, start, hi, skipped, <<>>, 0, {})

(* follow the continuation tokens to exhaustion (fuel guards the recursion) *)
RECURSIVE Pages(_, _, _, _)
Pages(q, start, skipped, fuel) ==
  LET pg == Page(q, start, skipped) IN
  IF pg.err THEN [err |-> TRUE, pages |-> <<>>, toks |-> <<>>, loaded |-> pg.loaded]
  ELSE IF pg.tok = NoTok \/ fuel = 0
       THEN [err |-> fuel = 0 /\ pg.tok # NoTok, pages |-> <<pg.ev>>, toks |-> <<pg.tok>>, loaded |-> pg.loaded]
  ELSE LET rest == Pages(q, pg.tok.b, pg.tok.p, fuel - 1) IN
       [err |-> rest.err, pages |-> <<pg.ev>> \o rest.pages, toks |-> <<pg.tok>> \o rest.toks,
        loaded |-> pg.loaded \cup rest.loaded]

(* the specification of the answer: a scan of every block in the range *)
RECURSIVE NaiveScan(_, _, _)
NaiveScan(f, from, to) ==
  IF from > to \/ from > Height THEN <<>>
  ELSE IF from < Base THEN NaiveScan(f, Base, to)     \* the base blocks are empty
  ELSE LET evs == Flat(BlockAt(from))
           hit == SelectSeq(evs, LAMBDA x : MatchEvent(f, x.e)) IN
       [j \in 1..Len(hit) |-> [b |-> from, t |-> hit[j].t, i |-> hit[j].i]] \o NaiveScan(f, from + 1, to)

Fuel == 4 * (MaxBlocks + 2) + 8

Query(f, from, to, chunk, limit) ==
  LET cur == Cur
      cc == CurCause
      qq == [f |-> f, to |-> to, chunk |-> chunk, limit |-> limit, uc |-> TRUE, cur |-> cur]
      q == Pages(qq, from, 0, Fuel)
      naive == NaiveScan(f, from, to)
      exact == ~q.err /\ Concat(q.pages) = naive
      qnc == Pages([qq EXCEPT !.uc = FALSE], from, 0, Fuel)
      touched == from <= to /\ from <= Height      \* the iterator loads a window: the filter is initialised
      why == IF exact THEN "none"
             ELSE IF ~qnc.err /\ Concat(qnc.pages) = naive THEN "cache"
             ELSE IF cc # "none" THEN cc ELSE "unexplained" IN
  /\ act' = [name |-> "Query", f |-> f, from |-> from, to |-> to, chunk |-> chunk, limit |-> limit]
  /\ res' = [kind |-> IF q.err THEN "err" ELSE "pages", pages |-> q.pages, toks |-> q.toks,
             naive |-> naive, exact |-> exact, why |-> why]
  /\ cache' = [w \in (DOMAIN cache) \cup {v \in q.loaded : v * W # cur.r.from} |->
                 IF w \in DOMAIN cache THEN cache[w] ELSE cur.p[w]]
  /\ IF touched
     THEN running' = Hot(cur.r) /\ persisted' = cur.p /\ cause' = cc /\ snapshot' = cur.s
     ELSE UNCHANGED <<running, persisted, cause, snapshot>>
  /\ UNCHANGED <<chain, gstops>>

(* RangeSlack < 0: only the full range 0..Height *)
QueryFroms == IF RangeSlack < 0 THEN {0}
              ELSE {0} \cup {x \in (Base - RangeSlack)..(Height + RangeSlack) : x >= 0}
QueryTos == IF RangeSlack < 0 THEN {Height}
            ELSE {x \in (Base - RangeSlack)..(Height + RangeSlack) : x >= 0}

Next ==
  \/ \E blk \in BlockMenu : Store(blk)
  \/ Revert
  \/ \E g \in BOOLEAN : Restart(g)
  \/ \E f \in FilterMenu, from \in QueryFroms, to \in QueryTos, c \in Chunks, l \in Limits :
        Query(f, from, to, c, l)

Spec == Init /\ [][Next]_vars

--------------------------------------------------------------------------
(* PROPERTIES *)

(* C09, observable form: the concatenation of the pages of every query is the naive scan of the
   chain, for every filter, range, chunk size and scan limit. *)
QueryExact == [][act'.name = "Query" => res'.exact]_vars

(* C09, index form: every block's atoms are set in the column the query path would consult for it
   (so every block with a matching event is a candidate for every filter). *)
NoFalseNegative ==
  LET cur == Cur IN
  \A b \in 0..Height :
     LET src == SrcOf(cur, b \div W, TRUE) IN src # Missing /\ Atoms(BlockAt(b)) \subseteq Col(src, b)

(* a false negative that disappears when the cache is bypassed is caused by the cache alone *)
OnlyCacheToBlame == [][act'.name = "Query" => res'.why \in {"none", "cache"}]_vars
OnlySnapshotToBlame == [][act'.name = "Query" => res'.why \in {"none", "snapshot"}]_vars
OnlyPersistedToBlame == [][act'.name = "Query" => res'.why \in {"none", "persisted"}]_vars
NothingUnexplained == [][act'.name = "Query" => res'.why # "unexplained"]_vars

(* the index never makes the node refuse a block or a revert *)
IndexNeverBlocksChain == [][act'.name \in {"Store", "Revert"} => res'.kind = "ok"]_vars

(* the running window always contains the next block, and `next` tracks the head *)
RunningInSync == LET r == Cur.r IN r.next = Height + 1 /\ r.from <= r.next /\ r.next <= r.from + W - 1

(* a persisted window is complete: no persisted filter for a window the chain has not filled *)
PersistedComplete == LET cur == Cur IN \A w \in DOMAIN cur.p : (w + 1) * W - 1 <= Height

TypeOK ==
  /\ Len(chain) <= MaxBlocks
  /\ Cur.r.from % W = 0
  /\ gstops \in 0..MaxGraceful
  /\ cause \in {"none", "snapshot", "persisted"}
=============================================================================

------------------------------- MODULE Events -------------------------------
(* The event index of juno and the event query built on it.  Property C09.

   Code modelled (as it is, defects included - see the switches):
     core/running_event_filter.go        RunningEventFilter.insert / onReorg / Write,
                                         InitializeRunningEventFilter (snapshot as is / same-window
                                         fill / rebuild), pruner/running_event_filter.go (same
                                         algorithm with floor = 0)
     core/aggregated_bloom_filter.go     one column of bloom bits per block, windows of W blocks
     blockchain/aggregated_bloom_filter_cache.go   MatchedBlockIterator: per window the candidate
                                         source is the running window, else the LRU cache, else the
                                         persisted window (which is then cached)
     blockchain/event_filter.go          EventFilter.Events: candidate walk, scan limit,
                                         chunk size, continuation token (block, processed events)
     blockchain/event_matcher.go         exact matching on candidate blocks

   Abstraction: a block's bloom filter is the EXACT set of its atoms (address atoms and
   (position, key) atoms), so the model has no hash-collision false positives; stale bits (the
   false positives and false negatives the code really produces) are modelled exactly.  A window
   filter is the sparse set of <<block number, atom>> pairs that are set in it, which makes the
   real window size (W = 8192) as cheap as W = 4.  Block numbers are absolute: blocks 0..Base-1 are
   pre-existing EMPTY blocks (the base image of the replay harness), the modelled blocks follow.

   One action = one public call of blockchain.Blockchain (Store, RevertHead, a complete paged event
   query, a process restart with or without the graceful-stop snapshot).  Lazy initialisation of
   the running filter is a function of the on-disk state, which only changes through calls that
   initialise first, so it is modelled eagerly at Restart.

   `act` / `res` are output-only variables (the call and what it returned); `tainted` is a ghost
   used only to name the cause of a false negative. *)
EXTENDS Integers, Sequences, FiniteSets, TLC

CONSTANTS W,            \* blocks per aggregated filter window (real: core.NumBlocksPerFilter = 8192)
          Base,         \* number of pre-existing empty blocks 0..Base-1 (never reverted)
          MaxBlocks,    \* bound on the number of modelled blocks above Base
          MaxGraceful,  \* bound on the number of graceful stops (snapshot writes)
          BlockMenu,    \* set of block contents a Store may choose (sequence of txs of events)
          FilterMenu,   \* set of filters a Query may choose
          Chunks,       \* set of chunk sizes (>= 1)
          Limits,       \* set of scan limits (0 = unlimited)
          RangeSlack,   \* queries use from/to in (Base - RangeSlack)..(Height + RangeSlack) and from = 0;
                        \* negative: only the full range
          \* ---- defect switches: FALSE = the code as it is, TRUE = the repaired design
          InvalidateCacheOnReorg,  \* H1: RevertHead drops the cached persisted windows
          SnapshotValidated,       \* H2: a snapshot is only reused if the chain below its `next` is
                                   \*     still the chain it was taken from
          DropReopenedWindow       \* H19: onReorg deletes the persisted filter of the window it
                                   \*      re-opens (the code deletes the key of the window it leaves)

VARIABLES chain,      \* disk: sequence of modelled blocks; block number Base+i-1 is chain[i]
          persisted,  \* disk: window index -> set of <<block, atom>> (AggregatedBloomFilters bucket)
          snapshot,   \* disk: [ok, from, next, bits, pre]  (RunningEventFilter key; pre = ghost: chain then)
          running,    \* memory: [from, next, bits]
          cache,      \* memory: window index -> bits (LRU of persisted windows, 16 entries: never evicts here)
          gstops,     \* number of graceful stops so far
          tainted,    \* ghost: a stale snapshot has been resumed at some point
          act, res

vars == <<chain, persisted, snapshot, running, cache, gstops, tainted, act, res>>
view == <<chain, persisted, snapshot, running, cache, gstops, tainted>>

--------------------------------------------------------------------------
(* generic helpers *)
Max(S) == CHOOSE x \in S : \A y \in S : y <= x
EmptyF == [x \in {} |-> {}]
Put(f, k, v) == [x \in (DOMAIN f) \cup {k} |-> IF x = k THEN v ELSE f[x]]
Del(f, k) == [x \in (DOMAIN f) \ {k} |-> f[x]]
IsPrefix(s, t) == Len(s) <= Len(t) /\ \A i \in 1..Len(s) : s[i] = t[i]
Range(s) == {s[i] : i \in 1..Len(s)}
RECURSIVE Concat(_)
Concat(ss) == IF Len(ss) = 0 THEN <<>> ELSE ss[1] \o Concat(Tail(ss))

(* blocks, events, atoms *)
AddrAtom(a) == <<"a", 0, a>>
KeyAtom(p, k) == <<"k", p, k>>          \* p = 0-based position, as in the bloom key (key || varint(p))

RECURSIVE FlatFrom(_, _)
FlatFrom(blk, t) ==
  IF t > Len(blk) THEN <<>>
  ELSE [i \in 1..Len(blk[t]) |-> [t |-> t - 1, i |-> i - 1, e |-> blk[t][i]]] \o FlatFrom(blk, t + 1)
Flat(blk) == FlatFrom(blk, 1)           \* events of a block in order, with tx index and event index

EventAtoms(e) == {AddrAtom(e.a)} \cup {KeyAtom(p - 1, e.k[p]) : p \in 1..Len(e.k)}
Atoms(blk) == UNION {EventAtoms(x.e) : x \in Range(Flat(blk))}   \* core.EventsBloom

HeightOf(ch) == Base + Len(ch) - 1      \* -1 on an empty database
Height == HeightOf(chain)
BlockAt(b) == IF b < Base THEN <<>> ELSE chain[b - Base + 1]

Col(bits, b) == {x[2] : x \in {y \in bits : y[1] = b}}
ClearCol(bits, b) == {y \in bits : y[1] # b}

(* EventMatcher.MatchesEventKeys + address test *)
MatchEvent(f, e) ==
  /\ f.addrs = {} \/ e.a \in f.addrs
  /\ Len(e.k) >= Len(f.keys)
  /\ \A p \in 1..Len(f.keys) : f.keys[p] = {} \/ e.k[p] \in f.keys[p]

(* EventMatcher.getCandidateBlocksForFilterInto on one column *)
MayMatch(f, col) ==
  /\ f.addrs = {} \/ \E a \in f.addrs : AddrAtom(a) \in col
  /\ \A p \in 1..Len(f.keys) : f.keys[p] = {} \/ \E k \in f.keys[p] : KeyAtom(p - 1, k) \in col

--------------------------------------------------------------------------
(* RunningEventFilter.insert for an in-range block n; r = [from, next, bits], p = persisted *)
InsertBits(r, p, n, atoms) ==
  LET bits2 == r.bits \cup {<<n, a>> : a \in atoms} IN
  IF n = r.from + W - 1
  THEN [r |-> [from |-> n + 1, next |-> n + 1, bits |-> {}], p |-> Put(p, r.from \div W, bits2)]
  ELSE [r |-> [from |-> r.from, next |-> n + 1, bits |-> bits2], p |-> p]

(* fillRunningEventFilter(from n .. Height): Insert writes a completed window straight to the DB *)
RECURSIVE FillFrom(_, _, _)
FillFrom(r, p, n) ==
  IF n > Height THEN [r |-> r, p |-> p]
  ELSE LET x == InsertBits(r, p, n, Atoms(BlockAt(n))) IN FillFrom(x.r, x.p, n + 1)

(* rebuildRunningEventFilter: walk back to the most recent persisted window at or below the
   head's window, continue right after it (or from 0).  The empty base blocks are skipped in
   closed form: they only persist empty windows. *)
Rebuild(p) ==
  LET wl == Height \div W
      cand == {w \in DOMAIN p : w <= wl}
      cf == IF cand = {} THEN 0 ELSE (Max(cand) + 1) * W IN
  IF cf >= Base
  THEN FillFrom([from |-> cf, next |-> cf, bits |-> {}], p, cf)
  ELSE LET full == {w \in (cf \div W)..(Base \div W) : (w + 1) * W <= Base}
           p2 == [w \in (DOMAIN p) \cup full |-> IF w \in full THEN {} ELSE p[w]] IN
       FillFrom([from |-> (Base \div W) * W, next |-> Base, bits |-> {}], p2, Base)

SnapUsable(s) == SnapshotValidated => IsPrefix(s.pre, chain) /\ s.next = Base + Len(s.pre)
SnapStale(s) == ~(IsPrefix(s.pre, chain) /\ s.next = Base + Len(s.pre))
Strip(s) == [from |-> s.from, next |-> s.next, bits |-> s.bits]

(* core.InitializeRunningEventFilter; result [r, p, how] *)
InitFromDisk(p, s) ==
  IF Height = -1 THEN [r |-> [from |-> 0, next |-> 0, bits |-> {}], p |-> p, how |-> "empty"]
  ELSE IF s.ok /\ SnapUsable(s) /\ s.next = Height + 1
       THEN [r |-> Strip(s), p |-> p, how |-> "snapshot"]
  ELSE IF s.ok /\ SnapUsable(s) /\ s.next <= Height /\ Height <= s.from + W - 1
       THEN LET x == FillFrom(Strip(s), p, s.next) IN [r |-> x.r, p |-> x.p, how |-> "fill"]
  ELSE LET x == Rebuild(p) IN [r |-> x.r, p |-> x.p, how |-> "rebuild"]

NoSnap == [ok |-> FALSE, from |-> 0, next |-> 0, bits |-> {}, pre |-> <<>>]

(* the base image: Base empty blocks stored by a previous process, no snapshot; the process under
   test starts on it (rebuild) *)
BaseWindows == {w \in 0..(Base \div W) : (w + 1) * W <= Base}

Init ==
  /\ chain = <<>>
  /\ persisted = [w \in BaseWindows |-> {}]
  /\ snapshot = NoSnap
  /\ running = [from |-> (Base \div W) * W, next |-> Base, bits |-> {}]
  /\ cache = EmptyF
  /\ gstops = 0
  /\ tainted = FALSE
  /\ act = [name |-> "Init"]
  /\ res = [kind |-> "ok"]

--------------------------------------------------------------------------
(* Blockchain.Store: the bloom insert is the last step inside the store batch; when the block is
   outside the running window the whole store fails and nothing changes *)
Store(blk) ==
  LET n == Height + 1
      r == running IN
  /\ Len(chain) < MaxBlocks
  /\ act' = [name |-> "Store", blk |-> blk]
  /\ IF n < r.from \/ n > r.from + W - 1
     THEN /\ res' = [kind |-> "err"]
          /\ UNCHANGED <<chain, persisted, snapshot, running, cache, gstops, tainted>>
     ELSE LET x == InsertBits(r, persisted, n, Atoms(blk)) IN
          /\ chain' = Append(chain, blk)
          /\ running' = x.r
          /\ persisted' = x.p
          /\ res' = [kind |-> "ok"]
          /\ UNCHANGED <<snapshot, cache, gstops, tainted>>

(* Blockchain.RevertHead: RunningEventFilter.onReorg works from its own `next`, not from the head *)
Revert ==
  LET r == running
      cur == r.next - 1 IN
  /\ Len(chain) > 0
  /\ act' = [name |-> "Revert"]
  /\ IF r.from >= 1 /\ cur = r.from - 1
     THEN LET wp == cur \div W IN
          IF wp \notin DOMAIN persisted
          THEN /\ res' = [kind |-> "err"]
               /\ UNCHANGED <<chain, persisted, snapshot, running, cache, gstops, tainted>>
          ELSE /\ running' = [from |-> wp * W, next |-> cur, bits |-> ClearCol(persisted[wp], cur)]
               /\ persisted' = IF DropReopenedWindow THEN Del(persisted, wp)
                               ELSE Del(persisted, r.from \div W)
               /\ cache' = IF InvalidateCacheOnReorg THEN EmptyF ELSE cache
               /\ chain' = SubSeq(chain, 1, Len(chain) - 1)
               /\ res' = [kind |-> "ok"]
               /\ UNCHANGED <<snapshot, gstops, tainted>>
     ELSE IF cur < r.from \/ cur > r.from + W - 1
     THEN /\ res' = [kind |-> "err"]
          /\ UNCHANGED <<chain, persisted, snapshot, running, cache, gstops, tainted>>
     ELSE /\ running' = [r EXCEPT !.next = cur, !.bits = ClearCol(@, cur)]
          /\ cache' = IF InvalidateCacheOnReorg THEN EmptyF ELSE cache
          /\ chain' = SubSeq(chain, 1, Len(chain) - 1)
          /\ res' = [kind |-> "ok"]
          /\ UNCHANGED <<persisted, snapshot, gstops, tainted>>

(* process restart: graceful = Blockchain.WriteRunningEventFilter() first; then a new Blockchain on
   the same store (empty cache, running filter initialised from disk) *)
Restart(g) ==
  /\ g => gstops < MaxGraceful
  /\ LET s2 == IF g THEN [ok |-> TRUE, from |-> running.from, next |-> running.next,
                          bits |-> running.bits, pre |-> chain]
               ELSE snapshot
         x == InitFromDisk(persisted, s2) IN
     /\ snapshot' = s2
     /\ running' = x.r
     /\ persisted' = x.p
     /\ tainted' = (tainted \/ (x.how \in {"snapshot", "fill"} /\ SnapStale(s2)))
     /\ act' = [name |-> "Restart", graceful |-> g]
     /\ res' = [kind |-> "ok", how |-> x.how]
  /\ cache' = EmptyF
  /\ gstops' = IF g THEN gstops + 1 ELSE gstops
  /\ UNCHANGED chain

--------------------------------------------------------------------------
(* The event query.  During one query neither the disk nor the running filter changes and a cache
   entry, once added, equals the persisted window it was read from, so the candidate source of a
   window is fixed for the whole query; the query's only effect is the set of windows it caches. *)
Missing == {<<-1, <<"missing", 0, "">>>>}

SrcOf(w, useCache) ==
  IF w * W = running.from THEN running.bits
  ELSE IF useCache /\ w \in DOMAIN cache THEN cache[w]
  ELSE IF w \in DOMAIN persisted THEN persisted[w]
  ELSE Missing

NoTok == [b |-> -1, p |-> 0]

(* AppendBlockEventsFromTransactionEvents on block b: i = events processed so far *)
RECURSIVE ProcBlock(_, _, _, _, _, _, _)
ProcBlock(f, b, evs, i, skipped, acc, chunk) ==
  IF i = Len(evs) THEN [acc |-> acc, full |-> FALSE, processed |-> i]
  ELSE IF i < skipped THEN ProcBlock(f, b, evs, i + 1, skipped, acc, chunk)
  ELSE IF ~MatchEvent(f, evs[i + 1].e) THEN ProcBlock(f, b, evs, i + 1, skipped, acc, chunk)
  ELSE IF Len(acc) < chunk
       THEN ProcBlock(f, b, evs, i + 1, skipped,
                      Append(acc, [b |-> b, t |-> evs[i + 1].t, i |-> evs[i + 1].i]), chunk)
  ELSE [acc |-> acc, full |-> TRUE, processed |-> i]

(* a filter without any constraint: every block of a window is a candidate *)
IsMatchAll(f) == f.addrs = {} /\ \A p \in 1..Len(f.keys) : f.keys[p] = {}
Min(S) == CHOOSE x \in S : \A y \in S : x <= y

(* EventFilter.canonicalEvents + MatchedBlockIterator: one page over [b, hi], window by window,
   jumping from candidate to candidate; loaded = windows whose filter was loaded.  (With an
   unconstrained filter and no scan limit the empty base blocks are skipped: visiting them has no
   effect.) *)
RECURSIVE Walk(_, _, _, _, _, _, _, _, _, _)
Walk(f, b, hi, skipped, acc, scanned, loaded, chunk, limit, uc) ==
  IF b > hi THEN [err |-> FALSE, ev |-> acc, tok |-> NoTok, loaded |-> loaded]
  ELSE LET w == b \div W
           src == SrcOf(w, uc)
           wend == IF hi < w * W + W - 1 THEN hi ELSE w * W + W - 1 IN
       IF src = Missing THEN [err |-> TRUE, ev |-> <<>>, tok |-> NoTok, loaded |-> loaded]
       ELSE LET lo == IF IsMatchAll(f) /\ limit = 0 /\ b < Base
                      THEN (IF Base <= wend THEN Base ELSE wend + 1) ELSE b
                all == IsMatchAll(f)
                cands == IF all THEN {}
                         ELSE {c \in {x[1] : x \in src} : c >= b /\ c <= wend /\ MayMatch(f, Col(src, c))} IN
            IF (all /\ lo > wend) \/ (~all /\ cands = {})
            THEN Walk(f, wend + 1, hi, skipped, acc, scanned, loaded \cup {w}, chunk, limit, uc)
            ELSE LET c == IF all THEN lo ELSE Min(cands) IN
                 IF limit > 0 /\ scanned + 1 > limit
                 THEN [err |-> FALSE, ev |-> acc, tok |-> [b |-> c, p |-> 0], loaded |-> loaded \cup {w}]
                 ELSE LET pb == ProcBlock(f, c, Flat(BlockAt(c)), 0, skipped, acc, chunk) IN
                      IF pb.full
                      THEN [err |-> FALSE, ev |-> pb.acc, tok |-> [b |-> c, p |-> pb.processed],
                            loaded |-> loaded \cup {w}]
                      ELSE Walk(f, c + 1, hi, 0, pb.acc, scanned + 1, loaded \cup {w}, chunk, limit, uc)

(* EventFilter.Events with a nil pre-confirmed reader *)
Page(f, start, to, skipped, chunk, limit, uc) ==
  LET hi == IF to <= Height THEN to ELSE Height IN
  IF start > hi THEN [err |-> FALSE, ev |-> <<>>, tok |-> NoTok, loaded |-> {}]
  ELSE Walk(f, start, hi, skipped, <<>>, 0, {}, chunk, limit, uc)

(* follow the continuation tokens to exhaustion (fuel guards the recursion) *)
RECURSIVE Pages(_, _, _, _, _, _, _, _)
Pages(f, start, to, skipped, chunk, limit, uc, fuel) ==
  LET pg == Page(f, start, to, skipped, chunk, limit, uc) IN
  IF pg.err THEN [err |-> TRUE, pages |-> <<>>, toks |-> <<>>, loaded |-> pg.loaded]
  ELSE IF pg.tok = NoTok \/ fuel = 0
       THEN [err |-> fuel = 0 /\ pg.tok # NoTok, pages |-> <<pg.ev>>, toks |-> <<pg.tok>>, loaded |-> pg.loaded]
  ELSE LET rest == Pages(f, pg.tok.b, to, pg.tok.p, chunk, limit, uc, fuel - 1) IN
       [err |-> rest.err, pages |-> <<pg.ev>> \o rest.pages, toks |-> <<pg.tok>> \o rest.toks,
        loaded |-> pg.loaded \cup rest.loaded]

(* the specification of the answer: a scan of every block in the range *)
RECURSIVE NaiveScan(_, _, _)
NaiveScan(f, from, to) ==
  IF from > to \/ from > Height THEN <<>>
  ELSE IF from < Base THEN NaiveScan(f, Base, to)     \* the base blocks are empty
  ELSE LET evs == Flat(BlockAt(from))
           hit == SelectSeq(evs, LAMBDA x : MatchEvent(f, x.e)) IN
       [j \in 1..Len(hit) |-> [b |-> from, t |-> hit[j].t, i |-> hit[j].i]] \o NaiveScan(f, from + 1, to)

Fuel == 4 * (MaxBlocks + 2) + 8

Query(f, from, to, chunk, limit) ==
  LET q == Pages(f, from, to, 0, chunk, limit, TRUE, Fuel)
      naive == NaiveScan(f, from, to)
      exact == ~q.err /\ Concat(q.pages) = naive
      qnc == Pages(f, from, to, 0, chunk, limit, FALSE, Fuel)
      why == IF exact THEN "none"
             ELSE IF ~qnc.err /\ Concat(qnc.pages) = naive THEN "cache"
             ELSE IF tainted THEN "snapshot" ELSE "unexplained" IN
  /\ act' = [name |-> "Query", f |-> f, from |-> from, to |-> to, chunk |-> chunk, limit |-> limit]
  /\ res' = [kind |-> IF q.err THEN "err" ELSE "pages", pages |-> q.pages, toks |-> q.toks,
             naive |-> naive, exact |-> exact, why |-> why]
  /\ cache' = [w \in (DOMAIN cache) \cup {v \in q.loaded : v * W # running.from} |->
                 IF w \in DOMAIN cache THEN cache[w] ELSE persisted[w]]
  /\ UNCHANGED <<chain, persisted, snapshot, running, gstops, tainted>>

(* RangeSlack < 0: only the full range 0..Height *)
QueryFroms == IF RangeSlack < 0 THEN {0}
              ELSE {0} \cup {x \in (Base - RangeSlack)..(Height + RangeSlack) : x >= 0}
QueryTos == IF RangeSlack < 0 THEN {Height}
            ELSE {x \in (Base - RangeSlack)..(Height + RangeSlack) : x >= 0}

Next ==
  \/ \E blk \in BlockMenu : Store(blk)
  \/ Revert
  \/ \E g \in BOOLEAN : Restart(g)
  \/ \E f \in FilterMenu, from \in QueryFroms, to \in QueryTos, c \in Chunks, l \in Limits :
        Query(f, from, to, c, l)

Spec == Init /\ [][Next]_vars

--------------------------------------------------------------------------
(* PROPERTIES *)

(* C09, observable form: the concatenation of the pages of every query is the naive scan of the
   chain, for every filter, range, chunk size and scan limit. *)
QueryExact == [][act'.name = "Query" => res'.exact]_vars

(* C09, index form: every block's atoms are set in the column the query path would consult for it
   (so every block with a matching event is a candidate for every filter). *)
NoFalseNegative ==
  \A b \in 0..Height :
     LET src == SrcOf(b \div W, TRUE) IN src # Missing /\ Atoms(BlockAt(b)) \subseteq Col(src, b)

(* a false negative that disappears when the cache is bypassed is caused by the cache alone *)
OnlyCacheToBlame == [][act'.name = "Query" => res'.why \in {"none", "cache"}]_vars
OnlySnapshotToBlame == [][act'.name = "Query" => res'.why \in {"none", "snapshot"}]_vars

(* the index never makes the node refuse a block or a revert *)
IndexNeverBlocksChain == [][act'.name \in {"Store", "Revert"} => res'.kind = "ok"]_vars

(* the running window always contains the next block, and `next` tracks the head *)
RunningInSync == running.next = Height + 1 /\ running.from <= running.next /\ running.next <= running.from + W - 1

(* a persisted window is complete: no persisted filter for a window the chain has not filled *)
PersistedComplete == \A w \in DOMAIN persisted : (w + 1) * W - 1 <= Height

TypeOK ==
  /\ Len(chain) <= MaxBlocks
  /\ running.from % W = 0
  /\ gstops \in 0..MaxGraceful
  /\ tainted \in BOOLEAN
=============================================================================

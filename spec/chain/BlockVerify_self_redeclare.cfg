\* self-test of the properties: with RedeclareGuard = FALSE - the code as it is: a Sierra class that is already declared may be declared again (finding block-verify:accepted-inapplicable:redeclare*) TLC must report a violation
CONSTANTS
  Versions <- MCVersions
  Committed <- MCCommitted
  TxFields <- MCTxFields
  SdFields <- MCSdFields
  SuFields <- MCSuFields
  MaxLen = 2
  Shapes <- MCShapesFour
  Targets <- MCTargets
  EmptyDiffShapes <- MCEmptyDiffShapes
  ClassShapes <- MCClassShapes
  DeployShapes <- MCDeployShapes
  CasmV2From = 4
  ClassFields <- MCClassFields
  TxClassFields <- MCTxClassFields
  ClassOf <- MCClassOf
  ValidClassOf <- MCValidClassOf
  ClassIn <- MCClassIn
  ShapeClass <- MCShapeClass
  ProtoSame <- MCProtoSame
  MalformedRefused = TRUE
  ZeroAsAbsent <- MCNone
  MaxPending = 2
  SuccessionChecked = TRUE
  RootChecked = TRUE
  RootCheckedOnEmptyDiff = TRUE
  TxHashesChecked = TRUE
  WriteBeforeChecks = FALSE
  DeployGuard = TRUE
  ExistGuard = TRUE
  MigrateGuard = TRUE
  RedeclareGuard = FALSE
INIT Init
NEXT Next
VIEW view
INVARIANTS TypeOK StoredChainValid StateIsChain DbConsistent
PROPERTIES AcceptedOnlyIfValid RejectedUnchanged TamperRejected ValidAccepted PendingStoredIffContinues RestartIsNoOp InapplicableLooksValid
CHECK_DEADLOCK FALSE

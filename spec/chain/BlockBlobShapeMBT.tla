------------------------------- MODULE BlockBlobShapeMBT -------------------------------
(* Export of the representation contract for the replayer (harness/engines/accessors, TestShapeSweep):
   for every field of the table and every shape class a stored value may have, the wire form the
   specification's encoder writes and the shape the specification's accessors return - computed with
   the SAME operators the invariants ShapePreserved / CodecAgreesWithTable use (WireOf, Decoded; on
   the code as it is, CodecSlip = "none"). The engine stores exactly the objects a VaryShapes Store
   chooses (one field of one object at a time over all its shape classes, all-empty, all-nil). *)
EXTENDS MCBlockBlob, Json

VARIABLES done

Case(r, s) == [stored |-> s, wire |-> WireOf(r, s), returned |-> Decoded(r, WireOf(r, s))]
Export(r) == [path |-> r.root \o r.field, kind |-> r.kind, codec |-> r.codec, norm |-> r.norm,
              cases |-> IF r.norm = "key" THEN {} ELSE {Case(r, s) : s \in ShapesOf(r.kind)}]

ShapeInit == /\ Init /\ done = FALSE
ShapeNext == /\ ~done
             /\ PrintT(ToJson({Export(r) : r \in FieldTable}))
             /\ done' = TRUE
             /\ UNCHANGED vars
=============================================================================

\* repaired model: chain 0..12 (+1), Retained 3, one batch per prune, min-age on, 8 operations, event-filter windows of 4 blocks; exhaustive: 447 870 distinct states (3 786 907 generated), 35 s on 4 busy workers
CONSTANTS
  MaxH = 13
  InitH = 12
  MaxL1 = 15
  Retained = 3
  Lag = 10
  PruneBatch = 99
  L2PerPrune = 1
  MinAge = TRUE
  MaxSteps = 8
  EnableRevert = TRUE
  EnableInterrupts = TRUE
  FixPruneAtomicFloor = TRUE
  FixSampleOnReorg = TRUE
  W = 4
  Base = 0
  WinBound = "exact"
INIT Init
NEXT Next
VIEW view
INVARIANTS TypeOK NoUnderflow FloorBound AgeBound RetainedIntact StateReadsCorrect BelowFloorClean EventsCovered FilterFollowsChain
PROPERTIES Resumable FloorMonotone RestartIsNoOp InitFilterOnlyAdds
CHECK_DEADLOCK FALSE

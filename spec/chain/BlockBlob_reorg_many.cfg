\* exhaustive: chains of <= 2 blocks of 0..2 transactions, <= 3 RevertHead (repeated reorgs: a transaction reverted twice, re-included in between)
CONSTANTS
  MaxBlocks = 2
  MaxSize = 2
  Lens = {1}
  Kinds <- KindsOne
  EvCounts = {2}
  Revs = {FALSE}
  LastItemRunsToEnd = TRUE
  TxSectionEndsAtReceipts = TRUE
  HashIndexExact = TRUE
  RevertDropsIndexes = TRUE
  MaxReverts = 3
  MemoFamilies = {}
  MemoPurged = TRUE
  FieldTable <- MCFieldTable
  VaryShapes = FALSE
  MaxClasses = 0
  CodecSlip = "none"
  SlipCodecs = {}
INIT Init
NEXT NextR
VIEW view
PROPERTIES RestartIsNoOp ReadIsNoOp
INVARIANTS ItemAccessors OutOfRange BlockAccessors ProjectionsAgree Layout Gone IndexesExact
CHECK_DEADLOCK FALSE

------------------------------- MODULE RpcRead -------------------------------
(* Property C08: the JSON-RPC read methods of juno (rpc/v8, rpc/v9, rpc/v10 mounted on
   jsonrpc.Server) answer from the chain the node actually holds.

   Two layers live in this module.

   (1) The DECLARATIVE layer is what the property says.  The node holds `chain`, a sequence of
       blocks; a block is identified by its *path* (the sequence of the variants chosen at heights
       0..n, which determines content and ancestry, hence the hash).  `D*` operators define, from
       `chain` and `l1` only, what every read method must answer for every block identifier.

   (2) The IMPLEMENTATION layer mirrors the buckets the handlers really consult
       (core/accessors.go, blockchain/statebackend/block_ops.go):
         height      ChainHeight key                          (-1 = key absent)
         byNum[n]    header / transactions+receipts / state update / commitments of number n
         numByHash   BlockHeaderNumbersByHash
         txIdx       TransactionBlockNumbersAndIndicesByHash
         l1          L1Height bucket (core.L1Head), -1 = absent
       Store writes them as writeBlockContent does, Revert deletes them as deleteBlockContent does,
       and one action per read method computes its answer the way the handler does
       (rpc/v10/helpers.go blockByID / blockHeaderByID / stateByBlockID, transaction.go ...).

   TLC checks that (2) always answers what (1) demands (ReadsAnswerFromChain and friends).
   The replayer (harness/engines/rpcread) steps TLC-generated behaviours through the real stack
   and compares every JSON-RPC response with `res` (what the model of the code answers) and with
   `want` (what the property demands).

   Three places where the code does not do what the property says are switches
   (FALSE = the code as it is, TRUE = repaired):
     FixTxIndexMissingBlock  getTransactionByBlockIdAndIndex never checks that a block NUMBER
                             exists: an absent number yields INVALID_TXN_INDEX, not BLOCK_NOT_FOUND.
     FixZeroHashState        block_hash 0x0 is resolved by StateAtBlockHash to a pseudo state
                             ("before genesis") instead of BLOCK_NOT_FOUND, so the five state
                             methods answer from something that is not a block of the chain.
     FixLegacyZeroWriteLog   (v0.10 last_update_block) the legacy state backend logs a storage write
                             only when trie.Put reports a change; a state-diff entry writing zero to a
                             slot that is zero (never written, or cleared before) leaves no log, so the
                             last-update block it reports is the one of an EARLIER write (or 0), while
                             the new-state backend, which logs every diff entry, reports this block.

   RESPONSE FLAGS (v0.10 only).  Five read methods take the optional parameter `response_flags`, a
   list of strings: starknet_getStorageAt knows INCLUDE_LAST_UPDATE_BLOCK (the result becomes
   {value, last_update_block}: the number of the last block at or before the requested one whose
   state diff has an entry for that slot - whatever value it wrote, zero and unchanged values
   included - and 0 if there is none), getBlockWithTxs / getBlockWithReceipts /
   getTransactionByHash / getTransactionByBlockIdAndIndex know INCLUDE_PROOF_FACTS (INVOKE
   transactions gain `proof_facts`: the stored payload, [] if the transaction carries none; without
   the flag the field is never there).  The request dimension is the field `fl` of a read action:
     absent / "none"  parameter omitted       "empty"  the empty list (= omitted)
     "own"   the method's flag (once or repeated)
     "bad"   anything else: an unknown flag, the OTHER method family's flag, a list mixing a known
             and an unknown flag, a non-list, a non-string element  =>  INVALID_PARAMS whatever the
             block identifier (parameters are decoded before the handler runs).
   The implementation layer keeps the storage-history KEYS the two state backends write
   (nh.stor: core/state writeHistory, every diff entry; lh.stor: core/deprecatedstate, changed leaves
   only) and answers last_update_block the way lastUpdatedBlockNumber does: the greatest logged
   block number <= the reader's block (unbounded for the head reader behind `latest`).
   Expected-violation switch (never TRUE for the code as it is or as repaired):
     LubZeroShortcut         the handler skips the history lookup when the value is zero ("an unset
                             slot has no update to report"): a slot that was set and later cleared
                             then reports 0 instead of the clearing block.

   STATE HISTORY (what a reverted block leaves behind, seen through reads by number / hash).  The state
   methods do not read "the state of block n" from one place: `latest` reads the head (contract record /
   tries), every other identifier reads the HISTORY buckets, which both state backends keep per diff
   SECTION and which no commitment protects:
     new state (core/state): (key, n) -> value AFTER block n for every storage / nonce / replaced-class /
        deployed-class entry of the diff (writeHistory), read as "greatest entry <= n"; deleteHistory
        removes (key, n) section by section on Revert; the contract record carries the deployment height,
        the class record its declaration height;
     legacy (core/deprecatedstate): (key, n) -> value BEFORE block n, written when the trie reports a
        change (storage) or always (nonce, class), read as "smallest entry > n, else the head value";
        performStateDeletions removes them on Revert; deployment height and class records likewise.
   The implementation layer keeps both (`nh`, `lh`: history entries, deployment heights, declaration
   heights) and answers the five state methods from them per backend (`res`: new state, `resL`: legacy).
   SCENARIOS.  Besides the "base" alphabet (blocks that mix sections) the diff alphabet has one scenario per
   state-diff section IN ISOLATION (`scn`, fixed per behaviour): after a setup block, variant 0 of every
   height applies section S to target 1 only, variant 1 to target 2 only ("S for another contract"),
   variant 2 is a block with an empty state diff - so that every fork shape "block N with S for X
   reverted; replacement N without S / with S for another contract / with S at N+1" is a chain:
     stor (overwrite)  clear (non-zero -> 0)  zz (zero onto a never-written slot)  nonce  repl (replace_class)
     deploy  depacc (deploy + nonce, the deploy_account shape)  decl0 (Cairo-0)  decl1 (Sierra)
     mig (migrated compiled class; observable through getStateUpdate only)
   RESIDUE SWITCHES (expected-violation only; `Leave` = {} is the code as it is AND as repaired): a Revert
   that leaves the entries of ONE section behind -
     n:stor   new state: the storage-history entries          n:stor0  ... only those whose value is zero
     n:nonce  new state: nonce entries of diff.Nonces (those of deployed contracts are still deleted)
     n:repl   new state: class-hash entries of diff.ReplacedClasses (the seeded change C08-7)
     n:decl / l:decl  the class record (declaration height) of a class the block declared
     l:stor   legacy: the storage log entries (shows in last_update_block only: legacy entries carry the
              value before the block, which the replacement chain shares)
     l:relog  legacy: the reverse diff is applied WITH logging, so (key, n) -> the reverted value appears
              for storage, nonce and class alike (shows below n)
   each must be refuted by TLC through a read by number or hash on the replacement chain
   (RpcRead_x_*.cfg); the counterexamples are replayed as directed scripts by checks/C08.py.
   Not residue switches, because no C08 read method can observe them: the class-hash / nonce entry of a
   DEPLOY (a later deploy writes its own, younger entry; before it the deployment height hides the
   contract), the legacy deployment height of a purged contract, the casm metadata of a migration. *)
EXTENDS Integers, Sequences, FiniteSets, TLC

CONSTANTS MaxLen,        \* maximal number of blocks in the chain (numbers 0..MaxLen-1)
          MaxReverts,    \* bound on RevertHead calls in a behaviour
          Txs(_, _),     \* Txs(n, v): sequence of transaction ids of the block at height n, variant v
          FixTxIndexMissingBlock,
          FixZeroHashState,
          FixLegacyZeroWriteLog,
          LubZeroShortcut,
          WithPreConfirmed,  \* also exercise the pre_confirmed tag (no pre-confirmed data: not found)
          NVar,          \* block variants per height: 2 (the base alphabet) or 3 (the section scenarios)
          Scenarios,     \* the diff alphabets a behaviour may pick (subset of AllScenarios)
          Leave          \* residue switches: what a Revert leaves behind ({} = the code)

AllScenarios == {"base", "stor", "clear", "zz", "nonce", "repl", "deploy", "depacc", "decl0", "decl1", "mig"}
LeaveKinds == {"n:stor", "n:stor0", "n:nonce", "n:repl", "n:decl", "l:decl", "l:stor", "l:relog"}
ASSUME Scenarios \subseteq AllScenarios /\ Scenarios # {} /\ Leave \subseteq LeaveKinds /\ NVar \in {2, 3}

Variants == 0..(NVar - 1)
Contracts == {1, 2}      \* c1, c2
Slots == {1, 2}
Classes == {1, 2}        \* k1 = Cairo-0 class, k2 = Sierra class
NoClass == 0
BogusClass == 9
BogusContract == 9
BogusTx == 99

Min(a, b) == IF a < b THEN a ELSE b
Front(s) == SubSeq(s, 1, Len(s) - 1)
Last(s) == s[Len(s)]
IsPrefix(p, s) == Len(p) <= Len(s) /\ \A i \in 1..Len(p) : p[i] = s[i]
Prefix(s, n) == SubSeq(s, 1, n)

Paths == UNION {[1..n -> Variants] : n \in 1..MaxLen}
NoPath == <<>>
UnknownHash == <<2>>     \* a hash no block ever had
ZeroHash == <<3>>        \* the felt 0x0 used as a block hash
HashIds == Paths \cup {UnknownHash, ZeroHash}

AllTx == UNION {{Txs(n, v)[i] : i \in 1..Len(Txs(n, v))} : n \in 0..(MaxLen - 1), v \in Variants}

(* transaction attributes are a function of the id's last digit (see MCRpcRead!MCTxs) *)
TxType(t) == CASE t % 10 \in {1, 3, 8} -> "INVOKE" [] t % 10 \in {2, 7} -> "L1_HANDLER"
               [] t % 10 = 4 -> "DEPLOY_ACCOUNT" [] t % 10 = 5 -> "DECLARE" [] OTHER -> "DEPLOY"
TxReverted(t) == t % 10 = 3
Exec(t) == IF TxReverted(t) THEN "REVERTED" ELSE "SUCCEEDED"
(* proof facts: the INVOKE v3 transactions (digit 1) of the even heights carry a non-empty payload,
   those of the odd heights and every other transaction carry none *)
HasFacts(t) == t % 10 = 1 /\ (t \div 10) % 2 = 0
(* what a v0.10 transaction object shows in `proof_facts`: "absent" (no such field), "empty" ([]),
   "facts" (the stored payload).  AdaptTransaction (rpc/v10/transaction.go): only INVOKE objects
   ever have the field, and only when INCLUDE_PROOF_FACTS was asked for *)
PF(t, on) == IF ~on \/ TxType(t) # "INVOKE" THEN "absent" ELSE IF HasFacts(t) THEN "facts" ELSE "empty"

(* response flags of a read action (field `fl`; actions without the field omit the parameter) *)
FlagVals == {"none", "empty", "own", "bad"}
Fl(a) == IF "fl" \in DOMAIN a THEN a.fl ELSE "none"
FlagOn(a) == Fl(a) = "own"
Unflag(a) == IF "fl" \in DOMAIN a THEN [a EXCEPT !.fl = "none"] ELSE a
MaxOf(S) == CHOOSE x \in S : \A y \in S : y <= x

--------------------------------------------------------------------------
(* Abstract state and state diffs.  The diff of the block at height n, variant v depends on the
   state it is applied to (a contract is deployed / a class declared at most once per chain, writes
   go to deployed contracts only), so it is a function of the PATH. *)
EmptyState == [class |-> [c \in Contracts |-> NoClass],
               stor |-> [c \in Contracts |-> [s \in Slots |-> 0]],
               nonce |-> [c \in Contracts |-> 0],
               declared |-> {},
               migrated |-> {}]     \* Sierra classes whose compiled class hash was migrated

NoDiff == [declared0 |-> {}, declared1 |-> {}, deployed |-> {}, replaced |-> {}, migrated |-> {},
           storage |-> {}, nonces |-> {}]

(* the "base" alphabet: blocks that mix sections (variants 0 and 1 only) *)
BaseDiff(st, n, v) ==
  LET decl0 == IF n = 0 THEN {1} ELSE {}
      decl1 == IF 2 \notin st.declared /\ ((n = 1 /\ v = 0) \/ n = 2) THEN {2} ELSE {}
      dep == (IF n = 0 THEN {<<1, 1>>} ELSE {})
             \cup (IF st.class[2] = NoClass /\ ((n = 1 /\ v = 1) \/ n = 2) THEN {<<2, 1>>} ELSE {})
      repl == IF n = 3 /\ v = 0 /\ st.class[1] = 1 /\ 2 \in (st.declared \cup decl1) THEN {<<1, 2>>} ELSE {}
      live(c) == ~(n = 3 /\ v = 1)      \* the block at height 3, variant 1 has an EMPTY state diff
                 /\ (st.class[c] # NoClass \/ \E d \in dep : d[1] = c)
      (* the storage entries cover the alphabet of StateHistory.tla (C03): first write, overwrite,
         CLEARING write (c1.s2 at height 2 variant 0), RE-WRITE of the value the slot already holds
         (c1.s2 at height 2 variant 1), zero written to a NEVER-written slot (c2.s2 at height 2
         variant 0), zero written to a slot that is zero again (c1.s2 at height 3 variant 0 after
         <<..,0>>; after <<..,1>> the same entry is the first clearing); c1.s1 is written by every
         non-empty diff, c2.s1 from height 2 on, so every slot has a different last-write block *)
      stor == (IF live(1) THEN {<<1, 1, 1 + 2 * n + v>>} ELSE {})
              \cup (IF live(1) /\ n = 1 THEN {<<1, 2, 7 + v>>} ELSE {})
              \cup (IF live(1) /\ n = 2 /\ v = 0 /\ st.stor[1][2] # 0 THEN {<<1, 2, 0>>} ELSE {})
              \cup (IF live(1) /\ n = 2 /\ v = 1 /\ st.stor[1][2] # 0 THEN {<<1, 2, st.stor[1][2]>>} ELSE {})
              \cup (IF live(1) /\ n = 3 /\ v = 0 THEN {<<1, 2, 0>>} ELSE {})
              \cup (IF live(2) /\ n >= 2 THEN {<<2, 1, 20 + 2 * n + v>>} ELSE {})
              \cup (IF live(2) /\ n = 2 /\ v = 0 THEN {<<2, 2, 0>>} ELSE {})
      nonces == (IF live(1) /\ (v = 0 \/ n % 2 = 1) THEN {<<1, n + 1>>} ELSE {})
                \cup (IF live(2) /\ n = 3 THEN {<<2, 1>>} ELSE {})
  IN IF v > 1 THEN NoDiff
     ELSE [declared0 |-> decl0, declared1 |-> decl1, deployed |-> dep, replaced |-> repl, migrated |-> {},
           storage |-> stor, nonces |-> nonces]

(* the section scenarios.  Height 0 is the setup block: both classes declared and both contracts
   deployed with k1 (slot 1 set, slot 2 never written, nonce 1), minus what the scenario itself is about
   (deploy / depacc: no contract yet; decl0: k1 undeclared, the contracts instantiate k2; decl1: k2
   undeclared).  Sec(sc, st, x, n): section sc applied at height n to target x ALONE (a contract; for
   decl0 / decl1 / mig the class, target 1 only), the empty diff where it does not apply. *)
Setup(sc) ==
  LET two == sc \notin {"deploy", "depacc"}
      k == IF sc = "decl0" THEN 2 ELSE 1
  IN [declared0 |-> IF sc = "decl0" THEN {} ELSE {1},
      declared1 |-> IF sc = "decl1" THEN {} ELSE {2},
      deployed |-> IF two THEN {<<1, k>>, <<2, k>>} ELSE {},
      replaced |-> {}, migrated |-> {},
      storage |-> IF two THEN {<<1, 1, 5>>, <<2, 1, 6>>} ELSE {},
      nonces |-> IF two THEN {<<1, 1>>, <<2, 1>>} ELSE {}]

Sec(sc, st, x, n) ==
  LET live == st.class[x] # NoClass IN
  IF sc = "stor" /\ live THEN [NoDiff EXCEPT !.storage = {<<x, 1, 10 + n>>}]
  ELSE IF sc = "clear" /\ live THEN [NoDiff EXCEPT !.storage = {<<x, 1, IF st.stor[x][1] # 0 THEN 0 ELSE 10 + n>>}]
  ELSE IF sc = "zz" /\ live THEN [NoDiff EXCEPT !.storage = {<<x, 2, 0>>}]
  ELSE IF sc = "nonce" /\ live THEN [NoDiff EXCEPT !.nonces = {<<x, st.nonce[x] + 1>>}]
  ELSE IF sc = "repl" /\ live THEN [NoDiff EXCEPT !.replaced = {<<x, IF st.class[x] = 1 THEN 2 ELSE 1>>}]
  ELSE IF sc = "deploy" /\ ~live THEN [NoDiff EXCEPT !.deployed = {<<x, 1>>}]
  ELSE IF sc = "depacc" /\ ~live THEN [NoDiff EXCEPT !.deployed = {<<x, 1>>}, !.nonces = {<<x, 1>>}]
  ELSE IF sc = "decl0" /\ x = 1 /\ 1 \notin st.declared THEN [NoDiff EXCEPT !.declared0 = {1}]
  ELSE IF sc = "decl1" /\ x = 1 /\ 2 \notin st.declared THEN [NoDiff EXCEPT !.declared1 = {2}]
  ELSE IF sc = "mig" /\ x = 1 /\ 2 \in (st.declared \ st.migrated) THEN [NoDiff EXCEPT !.migrated = {2}]
  ELSE NoDiff

DiffOn(sc, st, n, v) ==
  IF sc = "base" THEN BaseDiff(st, n, v)
  ELSE IF n = 0 THEN Setup(sc)
  ELSE IF v = 2 THEN NoDiff
  ELSE Sec(sc, st, v + 1, n)

(* variants that exist at height n: the base alphabet has two; a scenario has one setup block *)
VariantsAt(sc, n) == IF sc = "base" THEN {0, 1} \cap Variants ELSE IF n = 0 THEN {0} ELSE Variants

ApplyDiff(st, d) ==
  [class |-> [c \in Contracts |->
                IF \E x \in d.replaced : x[1] = c THEN (CHOOSE x \in d.replaced : x[1] = c)[2]
                ELSE IF \E x \in d.deployed : x[1] = c THEN (CHOOSE x \in d.deployed : x[1] = c)[2]
                ELSE st.class[c]],
   stor |-> [c \in Contracts |-> [s \in Slots |->
                IF \E x \in d.storage : x[1] = c /\ x[2] = s
                THEN (CHOOSE x \in d.storage : x[1] = c /\ x[2] = s)[3] ELSE st.stor[c][s]]],
   nonce |-> [c \in Contracts |->
                IF \E x \in d.nonces : x[1] = c THEN (CHOOSE x \in d.nonces : x[1] = c)[2] ELSE st.nonce[c]],
   declared |-> st.declared \cup d.declared0 \cup d.declared1,
   migrated |-> st.migrated \cup d.migrated]

RECURSIVE StateOf(_, _)
StateOf(sc, p) == IF p = <<>> THEN EmptyState
                  ELSE ApplyDiff(StateOf(sc, Front(p)), DiffOn(sc, StateOf(sc, Front(p)), Len(p) - 1, Last(p)))
(* constant-level tables per scenario: TLC evaluates them once *)
StateTabs == [sc \in Scenarios |-> [p \in Paths \cup {<<>>} |-> StateOf(sc, p)]]
DiffTabs == [sc \in Scenarios |-> [p \in Paths |-> DiffOn(sc, StateTabs[sc][Front(p)], Len(p) - 1, Last(p))]]
TxsOf(p) == Txs(Len(p) - 1, Last(p))

(* ---- history buckets of the two state backends (see STATE HISTORY above) ---- *)
SlotKeys == Contracts \X Slots
StorOf(d, c, s) == {x \in d.storage : x[1] = c /\ x[2] = s}      \* at most one entry each
NonceOf(d, c) == {x \in d.nonces : x[1] = c}
ReplOf(d, c) == {x \in d.replaced : x[1] = c}
DeplOf(d, c) == {x \in d.deployed : x[1] = c}
Pick(X) == CHOOSE x \in X : TRUE
Put(E, n, v) == {e \in E : e[1] # n} \cup {<<n, v>>}     \* the key is (prefix, n): a Put overwrites
Del(E, n) == {e \in E : e[1] # n}
EmptyH == [stor |-> [k \in SlotKeys |-> {}], nonce |-> [c \in Contracts |-> {}], cls |-> [c \in Contracts |-> {}],
           dep |-> [c \in Contracts |-> -1], cat |-> [k \in Classes |-> -1]]

(* the legacy backend logs a storage write only when trie.Put reports a change: ContractUpdater.UpdateStorage
   calls the history callback only when Put returned an old value, which it does not for zero written to an
   absent leaf *)
LegacyLogsD(d, before, c, s) ==
  \E x \in StorOf(d, c, s) : FixLegacyZeroWriteLog \/ ~(x[3] = 0 /\ before.stor[c][s] = 0)

(* Store of the block with diff d at height n; `before` is the state it is applied to *)
StoreNH(h, d, n) ==
  [stor |-> [k \in SlotKeys |-> IF StorOf(d, k[1], k[2]) # {} THEN Put(h.stor[k], n, Pick(StorOf(d, k[1], k[2]))[3])
                                ELSE h.stor[k]],
   nonce |-> [c \in Contracts |-> IF NonceOf(d, c) # {} THEN Put(h.nonce[c], n, Pick(NonceOf(d, c))[2]) ELSE h.nonce[c]],
   cls |-> [c \in Contracts |-> IF ReplOf(d, c) # {} THEN Put(h.cls[c], n, Pick(ReplOf(d, c))[2])
                                ELSE IF DeplOf(d, c) # {} THEN Put(h.cls[c], n, Pick(DeplOf(d, c))[2]) ELSE h.cls[c]],
   dep |-> [c \in Contracts |-> IF DeplOf(d, c) # {} THEN n ELSE h.dep[c]],
   cat |-> [k \in Classes |-> IF k \in (d.declared0 \cup d.declared1) /\ h.cat[k] = -1 THEN n ELSE h.cat[k]]]
StoreLH(h, d, n, before) ==
  [stor |-> [k \in SlotKeys |-> IF LegacyLogsD(d, before, k[1], k[2]) THEN Put(h.stor[k], n, before.stor[k[1]][k[2]])
                                ELSE h.stor[k]],
   nonce |-> [c \in Contracts |-> IF NonceOf(d, c) # {} THEN Put(h.nonce[c], n, before.nonce[c]) ELSE h.nonce[c]],
   cls |-> [c \in Contracts |-> IF ReplOf(d, c) # {} THEN Put(h.cls[c], n, before.class[c]) ELSE h.cls[c]],
   dep |-> [c \in Contracts |-> IF DeplOf(d, c) # {} THEN n ELSE h.dep[c]],
   cat |-> [k \in Classes |-> IF k \in (d.declared0 \cup d.declared1) /\ h.cat[k] = -1 THEN n ELSE h.cat[k]]]

(* Revert of that block (state.deleteHistory + flush / deprecatedstate.performStateDeletions +
   removeDeclaredClasses + purgeContract), section by section; `Leave` lets one of them stay *)
KeepStorN(v) == "n:stor" \in Leave \/ ("n:stor0" \in Leave /\ v = 0)
RevertNH(h, d, n) ==
  [stor |-> [k \in SlotKeys |-> IF StorOf(d, k[1], k[2]) # {} /\ ~KeepStorN(Pick(StorOf(d, k[1], k[2]))[3])
                                THEN Del(h.stor[k], n) ELSE h.stor[k]],
   nonce |-> [c \in Contracts |-> IF (NonceOf(d, c) # {} /\ "n:nonce" \notin Leave) \/ DeplOf(d, c) # {}
                                  THEN Del(h.nonce[c], n) ELSE h.nonce[c]],
   cls |-> [c \in Contracts |-> IF (ReplOf(d, c) # {} /\ "n:repl" \notin Leave) \/ DeplOf(d, c) # {}
                                THEN Del(h.cls[c], n) ELSE h.cls[c]],
   dep |-> [c \in Contracts |-> IF DeplOf(d, c) # {} THEN -1 ELSE h.dep[c]],
   cat |-> [k \in Classes |-> IF k \in (d.declared0 \cup d.declared1) /\ h.cat[k] = n /\ "n:decl" \notin Leave
                              THEN -1 ELSE h.cat[k]]]
(* `gone` is the state of the reverted block, `back` the state restored *)
RevertLH(h, d, n, gone, back) ==
  LET relog == "l:relog" \in Leave IN
  [stor |-> [k \in SlotKeys |->
               IF StorOf(d, k[1], k[2]) = {} THEN h.stor[k]
               ELSE IF relog /\ gone.stor[k[1]][k[2]] # back.stor[k[1]][k[2]] THEN Put(h.stor[k], n, gone.stor[k[1]][k[2]])
               ELSE IF "l:stor" \in Leave THEN h.stor[k] ELSE Del(h.stor[k], n)],
   nonce |-> [c \in Contracts |-> IF NonceOf(d, c) = {} THEN h.nonce[c]
                                  ELSE IF relog THEN Put(h.nonce[c], n, gone.nonce[c]) ELSE Del(h.nonce[c], n)],
   cls |-> [c \in Contracts |-> IF ReplOf(d, c) = {} THEN h.cls[c]
                                ELSE IF relog THEN Put(h.cls[c], n, gone.class[c]) ELSE Del(h.cls[c], n)],
   dep |-> [c \in Contracts |-> IF DeplOf(d, c) # {} THEN -1 ELSE h.dep[c]],
   cat |-> [k \in Classes |-> IF k \in (d.declared0 \cup d.declared1) /\ h.cat[k] = n /\ "l:decl" \notin Leave
                              THEN -1 ELSE h.cat[k]]]

(* what the buckets hold when the node holds the chain of path p and no Revert left anything behind:
   exactly what storing that chain block by block writes (IndexesDescribeChain) *)
RECURSIVE NHOf(_, _), LHOf(_, _)
NHOf(sc, p) == IF p = <<>> THEN EmptyH ELSE StoreNH(NHOf(sc, Front(p)), DiffTabs[sc][p], Len(p) - 1)
LHOf(sc, p) == IF p = <<>> THEN EmptyH
               ELSE StoreLH(LHOf(sc, Front(p)), DiffTabs[sc][p], Len(p) - 1, StateTabs[sc][Front(p)])
NHTabs == [sc \in Scenarios |-> [p \in Paths \cup {<<>>} |-> NHOf(sc, p)]]
LHTabs == [sc \in Scenarios |-> [p \in Paths \cup {<<>>} |-> LHOf(sc, p)]]

(* readers: new state = the value of the greatest entry <= n (0 if none); legacy = the value of the
   smallest entry > n, else the head value *)
NewAt(E, n) == LET B == {e \in E : e[1] <= n} IN
  IF B = {} THEN 0 ELSE (CHOOSE e \in B : \A f \in B : f[1] <= e[1])[2]
LegAt(E, n, headv) == LET A == {e \in E : e[1] > n} IN
  IF A = {} THEN headv ELSE (CHOOSE e \in A : \A f \in A : e[1] <= f[1])[2]

--------------------------------------------------------------------------
VARIABLES chain,      \* ghost: the path of the head block (<<>> = empty chain)
          scn,        \* the diff alphabet of this behaviour (never changes)
          height, byNum, numByHash, txIdx,   \* what the database holds
          nh, lh,     \* history buckets, deployment and declaration heights: new-state / legacy backend
          l1,         \* recorded L1 head number, -1 = none
          seen,       \* every path ever stored (so that reverted hashes can be asked for)
          reverts,
          act, res, want,
          resL        \* the legacy backend's answer (differs from res in the state methods only)

vars == <<chain, scn, height, byNum, numByHash, txIdx, nh, lh, l1, seen, reverts, act, res, want, resL>>
view == <<chain, scn, height, byNum, numByHash, txIdx, nh, lh, l1, seen, reverts>>
dbvars == <<chain, scn, height, byNum, numByHash, txIdx, nh, lh, l1, seen, reverts>>

(* the tables of this behaviour's alphabet *)
StateTab == StateTabs[scn]
DiffTab == DiffTabs[scn]

(* storage history: the block of path p has a state-diff entry for slot s of contract c *)
WroteSlot(p, c, s) == StorOf(DiffTab[p], c, s) # {}
(* DECLARATIVE: the last block <= n of chain c whose state diff writes slot s of contract ct; 0 if none *)
DLubIn(c, n, ct, s) ==
  LET W == {m \in 0..n : WroteSlot(Prefix(c, m + 1), ct, s)} IN IF W = {} THEN 0 ELSE MaxOf(W)

HugeNum == MaxLen + 1    \* stands for 2^64-1 (block_number) / a far-ahead L1 head
Nums == 0..HugeNum       \* MaxLen and HugeNum are numbers no block ever has
NoIdx == [n |-> -1, i |-> -1]
NoRes == [kind |-> "none"]
Err(e) == [kind |-> "err", e |-> e]

Init ==
  /\ chain = <<>>
  /\ scn \in Scenarios
  /\ height = -1
  /\ byNum = [n \in Nums |-> NoPath]
  /\ numByHash = [h \in HashIds |-> -1]
  /\ txIdx = [t \in AllTx \cup {BogusTx} |-> NoIdx]
  /\ nh = EmptyH /\ lh = EmptyH
  /\ l1 = -1
  /\ seen = {}
  /\ reverts = 0
  /\ act = [name |-> "Init"] /\ res = NoRes /\ want = NoRes /\ resL = NoRes

--------------------------------------------------------------------------
(* mutators: blockchain.Store (via SanityCheckNewHeight), blockchain.RevertHead, SetL1Head *)
Store(v) ==
  /\ Len(chain) < MaxLen
  /\ v \in VariantsAt(scn, Len(chain))
  /\ LET p == Append(chain, v)
         n == Len(chain)
     IN /\ chain' = p
        /\ height' = n
        /\ byNum' = [byNum EXCEPT ![n] = p]
        /\ numByHash' = [numByHash EXCEPT ![p] = n]
        /\ txIdx' = [t \in DOMAIN txIdx |->
                       IF \E i \in 1..Len(TxsOf(p)) : TxsOf(p)[i] = t
                       THEN [n |-> n, i |-> (CHOOSE i \in 1..Len(TxsOf(p)) : TxsOf(p)[i] = t) - 1]
                       ELSE txIdx[t]]
        \* writeHistory (core/state) logs every diff entry; the legacy state logs reported changes
        /\ nh' = StoreNH(nh, DiffTab[p], n)
        /\ lh' = StoreLH(lh, DiffTab[p], n, StateTab[chain])
        /\ seen' = seen \cup {p}
        /\ act' = [name |-> "Store", v |-> v, path |-> p, parent |-> chain, txs |-> TxsOf(p),
                   diff |-> DiffTab[p]]
  /\ UNCHANGED <<l1, reverts, scn>>
  /\ res' = NoRes /\ want' = NoRes /\ resL' = NoRes

Revert ==
  /\ height >= 0 /\ reverts < MaxReverts
  /\ LET p == byNum[height]
     IN /\ byNum' = [byNum EXCEPT ![height] = NoPath]
        /\ numByHash' = [numByHash EXCEPT ![p] = -1]
        /\ txIdx' = [t \in DOMAIN txIdx |->
                       IF \E i \in 1..Len(TxsOf(p)) : TxsOf(p)[i] = t THEN NoIdx ELSE txIdx[t]]
        \* deleteHistory / performStateDeletions: the key (.., height) of every entry of the diff
        /\ nh' = RevertNH(nh, DiffTab[p], height)
        /\ lh' = RevertLH(lh, DiffTab[p], height, StateTab[p], StateTab[Front(p)])
  /\ height' = height - 1
  /\ chain' = Front(chain)
  /\ reverts' = reverts + 1
  /\ act' = [name |-> "Revert"]
  /\ UNCHANGED <<l1, seen, scn>>
  /\ res' = NoRes /\ want' = NoRes /\ resL' = NoRes

SetL1Head(n) ==
  /\ n \in Nums /\ n # l1
  /\ l1' = n
  /\ act' = [name |-> "SetL1Head", n |-> n, path |-> IF n < Len(chain) THEN Prefix(chain, n + 1) ELSE UnknownHash]
  /\ UNCHANGED <<chain, scn, height, byNum, numByHash, txIdx, nh, lh, seen, reverts>>
  /\ res' = NoRes /\ want' = NoRes /\ resL' = NoRes

--------------------------------------------------------------------------
(* block identifiers *)
NumId(n) == [k |-> "num", n |-> n, h |-> NoPath]
HashId(h) == [k |-> "hash", n |-> -1, h |-> h]
TagId(t) == [k |-> t, n |-> -1, h |-> NoPath]
Tags == {"latest", "l1_accepted"} \cup (IF WithPreConfirmed THEN {"pre_confirmed"} ELSE {})
(* hashes worth asking for: everything ever stored (current or reverted) plus the two bogus ones *)
BlockIds == {NumId(n) : n \in Nums} \cup {HashId(h) : h \in seen \cup {UnknownHash, ZeroHash}}
            \cup {TagId(t) : t \in Tags}

Status(n, l) == IF l # -1 /\ l >= n THEN "ACCEPTED_ON_L1" ELSE "ACCEPTED_ON_L2"

--------------------------------------------------------------------------
(* ---- declarative layer ---- *)
(* Resolve(id): the number of the block of chain c the identifier denotes, -1 if none *)
DResolveIn(c, l, id) ==
  CASE id.k = "num" -> IF id.n < Len(c) THEN id.n ELSE -1
    [] id.k = "hash" -> IF id.h \in Paths /\ IsPrefix(id.h, c) THEN Len(id.h) - 1 ELSE -1
    [] id.k = "latest" -> Len(c) - 1
    [] id.k = "l1_accepted" -> IF l = -1 \/ c = <<>> THEN -1 ELSE Min(l, Len(c) - 1)
    [] OTHER -> -1       \* pre_confirmed: this node holds no pre-confirmed block

(* pfs: what `proof_facts` shows in each transaction object of the block (on = INCLUDE_PROOF_FACTS given) *)
BlockView(p, st, on) ==
  [kind |-> "block", n |-> Len(p) - 1, hash |-> p, parent |-> Front(p), status |-> st,
   txs |-> TxsOf(p), execs |-> [i \in 1..Len(TxsOf(p)) |-> Exec(TxsOf(p)[i])],
   pfs |-> [i \in 1..Len(TxsOf(p)) |-> PF(TxsOf(p)[i], on)]]

DBlockIn(c, l, id, on) == LET n == DResolveIn(c, l, id) IN
  IF n = -1 THEN Err("BlockNotFound") ELSE BlockView(Prefix(c, n + 1), Status(n, l), on)

DTxPosIn(c, t) ==   \* (n, i) of t in c, NoIdx if not there
  IF \E n \in 0..(Len(c) - 1) : \E i \in 1..Len(TxsOf(Prefix(c, n + 1))) : TxsOf(Prefix(c, n + 1))[i] = t
  THEN LET n == CHOOSE n \in 0..(Len(c) - 1) : \E i \in 1..Len(TxsOf(Prefix(c, n + 1))) : TxsOf(Prefix(c, n + 1))[i] = t
           q == TxsOf(Prefix(c, n + 1))
       IN [n |-> n, i |-> (CHOOSE i \in 1..Len(q) : q[i] = t) - 1]
  ELSE NoIdx

TxView(t, on) == [kind |-> "tx", t |-> t, type |-> TxType(t), pf |-> PF(t, on)]
(* starknet_getStorageAt with INCLUDE_LAST_UPDATE_BLOCK: lub is what the new-state backend, lubL what
   the legacy backend must report (the property demands the same number of both) *)
StorView(v, lub, lubL, on) == IF on THEN [kind |-> "feltlub", v |-> v, lub |-> lub, lubL |-> lubL]
                              ELSE [kind |-> "felt", v |-> v]
ReceiptView(t, n, p, l) == [kind |-> "receipt", t |-> t, type |-> TxType(t), n |-> n, hash |-> p,
                            fin |-> Status(n, l), exec |-> Exec(t)]

DWantIn(c, l, a) ==
  IF Fl(a) = "bad" THEN Err("InvalidParams") ELSE
  CASE a.name = "blockNumber" -> IF c = <<>> THEN Err("NoBlocks") ELSE [kind |-> "num", n |-> Len(c) - 1]
    [] a.name = "blockHashAndNumber" ->
         IF c = <<>> THEN Err("NoBlocks") ELSE [kind |-> "hashnum", n |-> Len(c) - 1, hash |-> c]
    [] a.name \in {"getBlockWithTxHashes", "getBlockWithTxs", "getBlockWithReceipts"} -> DBlockIn(c, l, a.id, FlagOn(a))
    [] a.name = "getBlockTransactionCount" ->
         LET n == DResolveIn(c, l, a.id) IN IF n = -1 THEN Err("BlockNotFound")
                                    ELSE [kind |-> "num", n |-> Len(TxsOf(Prefix(c, n + 1)))]
    [] a.name = "getTransactionByHash" ->
         IF DTxPosIn(c, a.t) = NoIdx THEN Err("TxnHashNotFound") ELSE TxView(a.t, FlagOn(a))
    [] a.name = "getTransactionReceipt" ->
         LET pos == DTxPosIn(c, a.t) IN IF pos = NoIdx THEN Err("TxnHashNotFound")
                                   ELSE ReceiptView(a.t, pos.n, Prefix(c, pos.n + 1), l)
    [] a.name = "getTransactionStatus" ->
         LET pos == DTxPosIn(c, a.t) IN IF pos = NoIdx THEN Err("TxnHashNotFound")
                                   ELSE [kind |-> "status", fin |-> Status(pos.n, l), exec |-> Exec(a.t)]
    [] a.name = "getTransactionByBlockIdAndIndex" ->
         LET n == DResolveIn(c, l, a.id) IN
         IF n = -1 THEN Err("BlockNotFound")
         ELSE IF a.i >= Len(TxsOf(Prefix(c, n + 1))) THEN Err("InvalidTxnIndex")
         ELSE TxView(TxsOf(Prefix(c, n + 1))[a.i + 1], FlagOn(a))
    [] a.name = "getStateUpdate" ->
         LET n == DResolveIn(c, l, a.id) IN
         IF n = -1 THEN Err("BlockNotFound")
         ELSE [kind |-> "update", hash |-> Prefix(c, n + 1), old |-> Prefix(c, n),
               new |-> Prefix(c, n + 1), diff |-> DiffTab[Prefix(c, n + 1)]]
    [] a.name \in {"getStorageAt", "getNonce", "getClassHashAt", "getClassAt", "getClass"} ->
         LET n == DResolveIn(c, l, a.id) IN
         IF n = -1 THEN Err("BlockNotFound")
         ELSE LET st == StateTab[Prefix(c, n + 1)] IN
           CASE a.name = "getClass" ->
                  IF a.c \in st.declared THEN [kind |-> "class", c |-> a.c] ELSE Err("ClassHashNotFound")
             [] OTHER ->
                  IF a.c \notin Contracts \/ st.class[a.c] = NoClass THEN Err("ContractNotFound")
                  ELSE CASE a.name = "getStorageAt" ->
                              StorView(st.stor[a.c][a.s], DLubIn(c, n, a.c, a.s), DLubIn(c, n, a.c, a.s), FlagOn(a))
                         [] a.name = "getNonce" -> [kind |-> "felt", v |-> st.nonce[a.c]]
                         [] a.name = "getClassHashAt" -> [kind |-> "classhash", c |-> st.class[a.c]]
                         [] OTHER -> [kind |-> "class", c |-> st.class[a.c]]

(* ... in the chain and with the L1 head the node holds now *)
DResolve(id) == DResolveIn(chain, l1, id)
DTxPos(t) == DTxPosIn(chain, t)
DWant(a) == DWantIn(chain, l1, a)

--------------------------------------------------------------------------
(* ---- implementation layer ---- *)
(* l1AcceptedBlockNumber (helpers.go): L1Head() or Height() failing with ErrKeyNotFound is
   BLOCK_NOT_FOUND, otherwise min(l1Head.BlockNumber, height) *)
L1AcceptedNum == IF l1 = -1 \/ height = -1 THEN -1 ELSE Min(l1, height)

(* blockHeaderByID / blockByID / BlockTransactionCount / stateUpdateByID: number of the block
   the handler ends up reading, -1 = db.ErrKeyNotFound somewhere on the way *)
IResolve(id) ==
  CASE id.k = "num" -> IF byNum[id.n] # NoPath THEN id.n ELSE -1
    [] id.k = "hash" -> IF numByHash[id.h] # -1 /\ byNum[numByHash[id.h]] # NoPath THEN numByHash[id.h] ELSE -1
    [] id.k = "latest" -> IF height # -1 /\ byNum[height] # NoPath THEN height ELSE -1
    [] id.k = "l1_accepted" -> IF L1AcceptedNum # -1 /\ byNum[L1AcceptedNum] # NoPath THEN L1AcceptedNum ELSE -1
    [] OTHER -> -1

IBlock(id, on) == LET n == IResolve(id) IN
  IF n = -1 THEN Err("BlockNotFound") ELSE BlockView(byNum[n], Status(n, l1), on)

(* ContractStorageLastUpdatedBlock of the reader stateByBlockID hands out: lastUpdatedBlockNumber
   seeks (slot, upTo) in the history bucket and steps back: the greatest logged number <= upTo, 0 if
   none.  upTo is the reader's block; the head reader behind `latest` passes 2^64-1. *)
ILub(E, upTo) == LET B == {e[1] : e \in {e \in E : e[1] <= upTo}} IN IF B = {} THEN 0 ELSE MaxOf(B)

(* the state reader stateByBlockID hands out; "zero" = the pseudo state of block_hash 0x0 *)
IStateOf(id) ==
  IF id.k = "hash" /\ id.h = ZeroHash /\ ~FixZeroHashState THEN "zero"
  ELSE IF IResolve(id) = -1 THEN "none" ELSE "block"

ITxByIndex(id, i, on) ==
  LET n == CASE id.k = "num" -> id.n     \* no existence check for a number (unless repaired)
             [] id.k = "hash" -> numByHash[id.h]
             [] id.k = "latest" -> height
             [] id.k = "l1_accepted" -> L1AcceptedNum
             [] OTHER -> -1
  IN IF n = -1 THEN Err("BlockNotFound")
     ELSE IF byNum[n] = NoPath THEN (IF FixTxIndexMissingBlock THEN Err("BlockNotFound") ELSE Err("InvalidTxnIndex"))
     ELSE IF i >= Len(TxsOf(byNum[n])) THEN Err("InvalidTxnIndex")
     ELSE TxView(TxsOf(byNum[n])[i + 1], on)

(* the five state methods on a reader that exists (IStateOf = "block"), backend be ("n" new state, "l"
   legacy).  `latest` gets the HEAD reader: the values the tries / contract records hold (commitment-checked
   by every Store and Revert, so they are those of the head block), existence from the contract / class
   record.  Every other identifier gets the history reader of its block number:
     new state  checkDeployed (deployment height <= n), then the greatest history entry <= n
     legacy     the smallest log entry > n (its old value), else the head value; storage skips the
                deployment probe for a non-zero value
   and for both the class record's declaration height <= n. *)
IStateAns(be, a) ==
  LET h == IF be = "n" THEN nh ELSE lh
      hs == StateTab[byNum[height]]
      head == a.id.k = "latest"
      n == IResolve(a.id)
      dep(c) == c \in Contracts /\ h.dep[c] # -1 /\ (head \/ h.dep[c] <= n)
      decl(k) == k \in Classes /\ h.cat[k] # -1 /\ (head \/ h.cat[k] <= n)
      at(E, hv) == IF head THEN hv ELSE IF be = "n" THEN NewAt(E, n) ELSE LegAt(E, n, hv)
      cls(c) == at(h.cls[c], hs.class[c])
      sto(c, s) == at(h.stor[<<c, s>>], hs.stor[c][s])
      lub(c, s, v) == IF LubZeroShortcut /\ v = 0 THEN 0     \* the history lookup skipped for zero values
                      ELSE ILub(h.stor[<<c, s>>], IF head THEN HugeNum ELSE n)
      storAns(c, s) == StorView(sto(c, s), lub(c, s, sto(c, s)), lub(c, s, sto(c, s)), FlagOn(a))
  IN IF a.name = "getClass" THEN (IF decl(a.c) THEN [kind |-> "class", c |-> a.c] ELSE Err("ClassHashNotFound"))
     ELSE IF a.c \notin Contracts THEN Err("ContractNotFound")
     ELSE IF a.name = "getStorageAt" /\ be = "l" /\ ~head /\ sto(a.c, a.s) # 0 THEN storAns(a.c, a.s)
     ELSE IF ~dep(a.c) THEN Err("ContractNotFound")
     ELSE IF a.name = "getStorageAt" THEN storAns(a.c, a.s)
     ELSE IF a.name = "getNonce" THEN [kind |-> "felt", v |-> at(h.nonce[a.c], hs.nonce[a.c])]
     ELSE IF a.name = "getClassHashAt" THEN [kind |-> "classhash", c |-> cls(a.c)]
     ELSE IF decl(cls(a.c)) THEN [kind |-> "class", c |-> cls(a.c)] ELSE Err("ClassHashNotFound")

IRes(a) ==
  IF Fl(a) = "bad" THEN Err("InvalidParams") ELSE   \* the server decodes the parameters before the handler runs
  CASE a.name = "blockNumber" -> IF height = -1 THEN Err("NoBlocks") ELSE [kind |-> "num", n |-> height]
    [] a.name = "blockHashAndNumber" ->
         IF height = -1 \/ byNum[height] = NoPath THEN Err("NoBlocks")
         ELSE [kind |-> "hashnum", n |-> height, hash |-> byNum[height]]
    [] a.name \in {"getBlockWithTxHashes", "getBlockWithTxs", "getBlockWithReceipts"} -> IBlock(a.id, FlagOn(a))
    [] a.name = "getBlockTransactionCount" ->
         LET n == IResolve(a.id) IN IF n = -1 THEN Err("BlockNotFound")
                                    ELSE [kind |-> "num", n |-> Len(TxsOf(byNum[n]))]
    [] a.name = "getTransactionByHash" ->
         LET pos == txIdx[a.t] IN
         IF pos = NoIdx \/ byNum[pos.n] = NoPath THEN Err("TxnHashNotFound")
         ELSE TxView(TxsOf(byNum[pos.n])[pos.i + 1], FlagOn(a))
    [] a.name = "getTransactionReceipt" ->
         LET pos == txIdx[a.t] IN
         IF pos = NoIdx \/ byNum[pos.n] = NoPath THEN Err("TxnHashNotFound")
         ELSE ReceiptView(TxsOf(byNum[pos.n])[pos.i + 1], pos.n, byNum[pos.n], l1)
    [] a.name = "getTransactionStatus" ->
         LET pos == txIdx[a.t] IN
         IF pos = NoIdx \/ byNum[pos.n] = NoPath THEN Err("TxnHashNotFound")
         ELSE [kind |-> "status", fin |-> Status(pos.n, l1), exec |-> Exec(TxsOf(byNum[pos.n])[pos.i + 1])]
    [] a.name = "getTransactionByBlockIdAndIndex" -> ITxByIndex(a.id, a.i, FlagOn(a))
    [] a.name = "getStateUpdate" ->
         LET n == IResolve(a.id) IN
         IF n = -1 THEN Err("BlockNotFound")
         ELSE [kind |-> "update", hash |-> byNum[n], old |-> Front(byNum[n]), new |-> byNum[n],
               diff |-> DiffTab[byNum[n]]]
    [] a.name \in {"getStorageAt", "getNonce", "getClassHashAt", "getClassAt", "getClass"} ->
         CASE IStateOf(a.id) = "none" -> Err("BlockNotFound")
           [] IStateOf(a.id) = "zero" -> [kind |-> "pseudo"]   \* backend/version dependent answer
           [] OTHER -> LET rn == IStateAns("n", a)
                           rl == IStateAns("l", a)
                       IN IF rn.kind = "feltlub" /\ rl.kind = "feltlub" THEN [rn EXCEPT !.lubL = rl.lubL] ELSE rn

(* what the LEGACY backend answers (the state methods aside, the same) *)
IResL(a) ==
  IF Fl(a) # "bad" /\ a.name \in {"getStorageAt", "getNonce", "getClassHashAt", "getClassAt", "getClass"}
     /\ IStateOf(a.id) = "block"
  THEN LET rn == IStateAns("n", a)
           rl == IStateAns("l", a)
       IN IF rn.kind = "feltlub" /\ rl.kind = "feltlub" THEN [rl EXCEPT !.lub = rn.lub] ELSE rl
  ELSE IRes(a)

(* Restart: new Blockchain / rpc.Handler / jsonrpc.Server objects on the same store (graceful =
   the running event filter is written first).  Nothing the node holds may change. *)
Restart(graceful) ==
  /\ act' = [name |-> "Restart", graceful |-> graceful]
  /\ res' = NoRes /\ want' = NoRes /\ resL' = NoRes
  /\ UNCHANGED dbvars

(* A read whose request is IN FLIGHT while the sync loop applies a short sequence of mutators
   (a reorg of the head, an append, an L1 head update).  The handlers take no snapshot, so the
   property can only demand that the answer is the right one for ONE of the chains the node held
   during the call: allowed[i] is the answer in the i-th of those states (1 = when the call started).
   C08 itself quantifies over stored chains, not over schedules: the replayer REPORTS an in-flight
   answer outside `allowed` as an observation (it is not a verdict); what it judges is that every
   version, asked again once the mutators are done, answers for the last state exactly (nothing a
   torn read computed may stick), and that no request hangs.
   The buckets afterwards are those of the last state (what Store / Revert leave behind, cf.
   IndexesDescribeChain, which TLC keeps checking across this composite step). *)
RevertMut == [name |-> "Revert", v |-> -1, n |-> -1]
StoreMut(v) == [name |-> "Store", v |-> v, n |-> -1]
L1Mut(n) == [name |-> "SetL1Head", v |-> -1, n |-> n]

ApplyMut(st, m) ==
  CASE m.name = "Revert" -> [c |-> Front(st.c), l |-> st.l]
    [] m.name = "Store" -> [c |-> Append(st.c, m.v), l |-> st.l]
    [] OTHER -> [c |-> st.c, l |-> m.n]

MutEnabled(st, m) ==
  CASE m.name = "Revert" -> st.c # <<>>
    [] m.name = "Store" -> Len(st.c) < MaxLen /\ m.v \in VariantsAt(scn, Len(st.c))
    [] OTHER -> m.n \in Nums /\ m.n # st.l

RECURSIVE StatesAlong(_, _)
StatesAlong(st, muts) ==    \* <<st, st after muts[1], ...>>; <<>> if some mutator is not enabled
  IF muts = <<>> THEN <<st>>
  ELSE IF ~MutEnabled(st, muts[1]) THEN <<>>
  ELSE LET rest == StatesAlong(ApplyMut(st, muts[1]), Tail(muts))
       IN IF rest = <<>> THEN <<>> ELSE <<st>> \o rest

ReadDuring(a, muts) ==
  LET sts == StatesAlong([c |-> chain, l |-> l1], muts)
      nrev == Cardinality({i \in 1..Len(muts) : muts[i].name = "Revert"})
  IN /\ muts # <<>> /\ sts # <<>> /\ reverts + nrev <= MaxReverts
     /\ LET fin == sts[Len(sts)]
            allowed == [i \in 1..Len(sts) |-> DWantIn(sts[i].c, sts[i].l, a)]
        IN /\ chain' = fin.c /\ l1' = fin.l
           /\ height' = Len(fin.c) - 1
           /\ byNum' = [n \in Nums |-> IF n < Len(fin.c) THEN Prefix(fin.c, n + 1) ELSE NoPath]
           /\ numByHash' = [h \in HashIds |-> IF h \in Paths /\ IsPrefix(h, fin.c) THEN Len(h) - 1 ELSE -1]
           /\ txIdx' = [t \in DOMAIN txIdx |-> DTxPosIn(fin.c, t)]
           /\ nh' = NHTabs[scn][fin.c] /\ lh' = LHTabs[scn][fin.c] /\ scn' = scn
           /\ seen' = seen \cup {sts[i].c : i \in {j \in 2..Len(sts) : muts[j - 1].name = "Store"}}
           /\ reverts' = reverts + nrev
           /\ act' = [name |-> "ReadDuring", read |-> a,
                      muts |-> [i \in 1..Len(muts) |->
                                  LET after == sts[i + 1] IN
                                  [name |-> muts[i].name, v |-> muts[i].v, n |-> muts[i].n,
                                   path |-> IF muts[i].name = "Store" THEN after.c
                                            ELSE IF muts[i].name = "SetL1Head" /\ muts[i].n < Len(after.c)
                                                 THEN Prefix(after.c, muts[i].n + 1) ELSE UnknownHash,
                                   txs |-> IF muts[i].name = "Store" THEN TxsOf(after.c) ELSE <<>>,
                                   diff |-> IF muts[i].name = "Store" THEN DiffTab[after.c] ELSE NoDiff,
                                   chain |-> after.c, l1 |-> after.l]]]
           /\ res' = [kind |-> "oneof", allowed |-> allowed]
           /\ want' = [kind |-> "oneof", allowed |-> allowed]
           /\ resL' = [kind |-> "oneof", allowed |-> allowed]

(* the reorg shapes a sync loop produces while a request is being served *)
MutSeqs ==
  {<<RevertMut>>} \cup {<<StoreMut(v)>> : v \in Variants} \cup {<<L1Mut(n)>> : n \in Nums}
  \cup {<<RevertMut, StoreMut(v)>> : v \in Variants}
  \cup {<<RevertMut, StoreMut(v), L1Mut(n)>> : v \in Variants, n \in Nums}
  \cup {<<RevertMut, RevertMut, StoreMut(v), StoreMut(w)>> : v \in Variants, w \in Variants}
  \* fork away and (for w = the original variant) back again while the request is in flight
  \cup {<<RevertMut, StoreMut(v), RevertMut, StoreMut(w)>> : v \in Variants, w \in Variants}

(* one action per read method; the database is untouched *)
Read(a) == /\ act' = a /\ res' = IRes(a) /\ resL' = IResL(a) /\ want' = DWant(a) /\ UNCHANGED dbvars

NoArg(name) == [name |-> name]
IdArg(name, id) == [name |-> name, id |-> id]

BlockNumber == Read(NoArg("blockNumber"))
BlockHashAndNumber == Read(NoArg("blockHashAndNumber"))
GetBlockWithTxHashes(id) == Read(IdArg("getBlockWithTxHashes", id))
GetBlockWithTxs(id) == Read(IdArg("getBlockWithTxs", id))
GetBlockWithReceipts(id) == Read(IdArg("getBlockWithReceipts", id))
GetBlockTransactionCount(id) == Read(IdArg("getBlockTransactionCount", id))
GetStateUpdate(id) == Read(IdArg("getStateUpdate", id))
GetTransactionByHash(t) == Read([name |-> "getTransactionByHash", t |-> t])
GetTransactionReceipt(t) == Read([name |-> "getTransactionReceipt", t |-> t])
GetTransactionStatus(t) == Read([name |-> "getTransactionStatus", t |-> t])
GetTransactionByBlockIdAndIndex(id, i) == Read([name |-> "getTransactionByBlockIdAndIndex", id |-> id, i |-> i])
GetStorageAt(id, c, s) == Read([name |-> "getStorageAt", id |-> id, c |-> c, s |-> s])
GetNonce(id, c) == Read([name |-> "getNonce", id |-> id, c |-> c])
GetClassHashAt(id, c) == Read([name |-> "getClassHashAt", id |-> id, c |-> c])
GetClassAt(id, c) == Read([name |-> "getClassAt", id |-> id, c |-> c])
GetClass(id, k) == Read([name |-> "getClass", id |-> id, c |-> k])
(* the v0.10 forms with the optional response_flags parameter (f = "none": the plain request) *)
WithFl(a, f) == IF f = "none" THEN a ELSE [fl |-> f] @@ a
GetBlockWithTxsF(id, f) == Read(WithFl(IdArg("getBlockWithTxs", id), f))
GetBlockWithReceiptsF(id, f) == Read(WithFl(IdArg("getBlockWithReceipts", id), f))
GetTransactionByHashF(t, f) == Read(WithFl([name |-> "getTransactionByHash", t |-> t], f))
GetTransactionByBlockIdAndIndexF(id, i, f) ==
  Read(WithFl([name |-> "getTransactionByBlockIdAndIndex", id |-> id, i |-> i], f))
GetStorageAtF(id, c, s, f) == Read(WithFl([name |-> "getStorageAt", id |-> id, c |-> c, s |-> s], f))
GivenFlags == FlagVals \ {"none"}

TxArgs == AllTx \cup {BogusTx}
HugeIdx == 1000000       \* stands for 2^62
IdxArgs == 0..4 \cup {HugeIdx}
CArgs == Contracts \cup {BogusContract}
KArgs == Classes \cup {BogusClass}

Next ==
  \/ \E v \in Variants : Store(v)
  \/ Revert
  \/ \E n \in Nums : SetL1Head(n)
  \/ \E g \in BOOLEAN : Restart(g)
  \/ \E ms \in MutSeqs : \E a \in {IdArg("getBlockWithTxHashes", TagId("latest"))} :
       ReadDuring(a, ms)
  \/ BlockNumber \/ BlockHashAndNumber
  \/ \E id \in BlockIds :
       \/ GetBlockWithTxHashes(id) \/ GetBlockWithTxs(id) \/ GetBlockWithReceipts(id)
       \/ GetBlockTransactionCount(id) \/ GetStateUpdate(id)
       \/ \E i \in IdxArgs : GetTransactionByBlockIdAndIndex(id, i)
       \/ \E c \in CArgs : \/ GetNonce(id, c) \/ GetClassHashAt(id, c) \/ GetClassAt(id, c)
                           \/ \E s \in Slots : GetStorageAt(id, c, s)
       \/ \E k \in KArgs : GetClass(id, k)
  \/ \E t \in TxArgs : GetTransactionByHash(t) \/ GetTransactionReceipt(t) \/ GetTransactionStatus(t)
  \/ \E f \in GivenFlags :
       \/ \E id \in BlockIds :
            \/ GetBlockWithTxsF(id, f) \/ GetBlockWithReceiptsF(id, f)
            \/ \E i \in {0, 2, HugeIdx} : GetTransactionByBlockIdAndIndexF(id, i, f)
            \/ \E c \in CArgs, s \in Slots : GetStorageAtF(id, c, s, f)
       \/ \E t \in TxArgs : GetTransactionByHashF(t, f)

(* the section scenarios are checked with the mutators and the reads that can observe a state-diff
   section: the state methods (storage with and without INCLUDE_LAST_UPDATE_BLOCK) and getStateUpdate, by
   every number, every hash ever stored (reverted ones included) and `latest` *)
HistIds == {NumId(n) : n \in 0..MaxLen} \cup {HashId(h) : h \in seen} \cup {TagId("latest")}
NextHist ==
  \/ \E v \in Variants : Store(v)
  \/ Revert
  \/ \E id \in HistIds :
       \/ GetStateUpdate(id)
       \/ \E c \in Contracts : \/ GetNonce(id, c) \/ GetClassHashAt(id, c) \/ GetClassAt(id, c)
                               \/ \E s \in Slots : GetStorageAt(id, c, s) \/ GetStorageAtF(id, c, s, "own")
       \/ \E k \in Classes : GetClass(id, k)

Spec == Init /\ [][Next]_vars

--------------------------------------------------------------------------
(* ---- properties ---- *)
TypeOK ==
  /\ chain \in Paths \cup {<<>>}
  /\ height \in -1..(MaxLen - 1)
  /\ l1 \in -1..HugeNum
  /\ seen \subseteq Paths
  /\ reverts \in 0..MaxReverts
  /\ scn \in Scenarios

(* the buckets describe exactly `chain` (what C02/C04 establish for the real store) *)
IndexesDescribeChain ==
  /\ height = Len(chain) - 1
  /\ \A n \in Nums : byNum[n] = IF n < Len(chain) THEN Prefix(chain, n + 1) ELSE NoPath
  /\ \A h \in HashIds : numByHash[h] = IF h \in Paths /\ IsPrefix(h, chain) THEN Len(h) - 1 ELSE -1
  /\ \A t \in DOMAIN txIdx : txIdx[t] = DTxPos(t)
  \* the history buckets hold what storing this chain writes: a Revert leaves nothing behind
  /\ nh = NHTabs[scn][chain] /\ lh = LHTabs[scn][chain]
  /\ chain # <<>> => chain \in seen

IsRead(a) == a.name \notin {"Init", "Store", "Revert", "SetL1Head", "Restart", "ReadDuring"}

(* a read that hits one of the known deviations of the code as it is *)
KnownDeviation(a) ==
  \/ /\ ~FixTxIndexMissingBlock /\ a.name = "getTransactionByBlockIdAndIndex" /\ Fl(a) # "bad"
     /\ a.id.k = "num" /\ a.id.n >= Len(chain)
  \/ /\ ~FixZeroHashState /\ a.name \in {"getStorageAt", "getNonce", "getClassHashAt", "getClassAt", "getClass"}
     /\ a.id.k = "hash" /\ a.id.h = ZeroHash /\ Fl(a) # "bad"

(* the third deviation touches ONE field: the legacy backend's last_update_block after a zero write
   it did not log; value and the new-state backend's number must still be right *)
LegacyLubDeviation(r, w) ==
  /\ ~FixLegacyZeroWriteLog /\ r.kind = "feltlub" /\ w.kind = "feltlub"
  /\ r.lubL # w.lubL /\ [r EXCEPT !.lubL = w.lubL] = w

(* THE property: every answer is the data of Resolve(id) in the CURRENT chain, and an error
   exactly when the item is absent (DWant is an error iff it is) *)
(* the legacy backend's answer: the same demand; its last_update_block is excused as above *)
LegacyOK(rl, w) ==
  \/ rl = w
  \/ /\ ~FixLegacyZeroWriteLog /\ rl.kind = "feltlub" /\ w.kind = "feltlub"
     /\ [rl EXCEPT !.lubL = w.lubL] = w
ReadsAnswerFromChain ==
  [][IsRead(act') /\ ~KnownDeviation(act') =>
       /\ res' = DWant(act') \/ LegacyLubDeviation(res', DWant(act'))
       /\ LegacyOK(resL', DWant(act'))]_vars

(* response flags: a request without flags, with the empty list, and (fields the flag adds aside) with
   the method's flag is answered alike; anything else in response_flags is INVALID_PARAMS *)
StripFlagFields(r) ==
  CASE r.kind = "feltlub" -> [kind |-> "felt", v |-> r.v]
    [] r.kind = "tx" -> [r EXCEPT !.pf = "absent"]
    [] r.kind = "block" -> [r EXCEPT !.pfs = [i \in DOMAIN r.pfs |-> "absent"]]
    [] OTHER -> r
FlagsOnlyAdd ==
  [][IsRead(act') /\ "fl" \in DOMAIN act' =>
       /\ (act'.fl = "bad") = (want' = Err("InvalidParams"))
       /\ act'.fl = "bad" => res' = Err("InvalidParams")
       /\ act'.fl # "bad" => /\ StripFlagFields(want') = DWant(Unflag(act'))
                             /\ StripFlagFields(res') = IRes(Unflag(act'))
       /\ act'.fl \in {"none", "empty"} => want' = DWant(Unflag(act')) /\ res' = IRes(Unflag(act'))]_vars

(* last_update_block never points above the block asked for, nor at a block that did not write the
   slot; a slot the chain never wrote (up to that block) reports 0 *)
LastUpdateWithinChain ==
  [][(IsRead(act') /\ want'.kind = "feltlub") =>
       LET n == DResolve(act'.id) IN
       /\ want'.lub <= n
       /\ want'.lub > 0 => WroteSlot(Prefix(chain, want'.lub + 1), act'.c, act'.s)
       /\ \A m \in (want'.lub + 1)..n : ~WroteSlot(Prefix(chain, m + 1), act'.c, act'.s)]_vars

(* the repaired design has no exception at all *)
ReadsAnswerFromChainStrict == [][IsRead(act') => res' = DWant(act') /\ resL' = DWant(act')]_vars

(* hashes of reverted blocks and of their transactions resolve to not-found *)
RevertedNotFound ==
  [][/\ (IsRead(act') /\ "id" \in DOMAIN act' /\ act'.id.k = "hash" /\ act'.id.h \in seen /\ Fl(act') # "bad"
         /\ ~IsPrefix(act'.id.h, chain)) => res' = Err("BlockNotFound")
     /\ (IsRead(act') /\ "t" \in DOMAIN act' /\ Fl(act') # "bad" /\ DTxPos(act'.t) = NoIdx)
          => res' = Err("TxnHashNotFound")]_vars

(* nothing is ACCEPTED_ON_L1 above the recorded L1 head, and everything at or below it is *)
FinalityFromL1Head ==
  [][/\ (res'.kind = "block" => (res'.status = "ACCEPTED_ON_L1") = (l1 # -1 /\ res'.n <= l1))
     /\ (res'.kind = "receipt" => (res'.fin = "ACCEPTED_ON_L1") = (l1 # -1 /\ res'.n <= l1))
     /\ (res'.kind = "status" => (res'.fin = "ACCEPTED_ON_L1") = (l1 # -1 /\ DTxPos(act'.t).n <= l1))]_vars

(* l1_accepted never denotes a block above the height or above the L1 head *)
L1AcceptedClamped ==
  [][(IsRead(act') /\ "id" \in DOMAIN act' /\ act'.id.k = "l1_accepted" /\ res'.kind = "block")
       => res'.n <= l1 /\ res'.n <= height /\ (res'.n = l1 \/ res'.n = height)]_vars

(* a restart changes nothing the node holds (so every read answers as before it) *)
RestartIsNoOp == [][act'.name = "Restart" => UNCHANGED dbvars]_vars

(* an in-flight read is answered from one of the chains held during the call, the first being the
   chain at call start and the last the chain the node ends up with *)
InFlightAnswersFromAHeldChain ==
  [][act'.name = "ReadDuring" =>
       /\ res'.allowed[1] = DWant(act'.read)
       /\ res'.allowed[Len(res'.allowed)] = DWantIn(chain', l1', act'.read)
       /\ Len(res'.allowed) = Len(act'.muts) + 1]_vars

(* reads never change what the node holds *)
ReadsArePure == [][IsRead(act') => UNCHANGED dbvars]_vars
=============================================================================

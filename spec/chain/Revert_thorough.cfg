\* block level: one contract, one slot, values {0,1}, 3 transactions, <= 4 blocks, <= 2 diff entries, <= 1 tx
\* measured: 618 554 distinct states, 1 855 659 generated, ~2 min on 4 workers
CONSTANTS
  Users = {"c1"}
  Sys = {}
  Slots = {"s1"}
  MaxV = 1
  Cairo0 = {"k0"}
  Sierra = {}
  TxIds = {"t1", "t2", "l1a"}
  L1Txs = {"l1a"}
  MaxBlocks = 4
  MaxOps = 2
  MaxTxs = 1
  Vers = {0}
  FixH4 = TRUE
  SysZeroWrites = FALSE
  SplitReads = FALSE
  AtomicLegacyReads = TRUE
  FilterReorgInBatch = TRUE
INIT RInit
NEXT RNext
VIEW rview
INVARIANTS TypeOK RevertNeverFails ReadsAgree HeadAgrees NoOrphanLogs Canon IdxCanon IdxSound FilterCoversChain
PROPERTIES RRestartIsNoOp
CHECK_DEADLOCK FALSE

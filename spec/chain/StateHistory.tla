--------------------------- MODULE StateHistory ---------------------------
(* Properties C03 (head and historical state reads equal the state as of the requested block) and
   the state half of C04 (reverting the head exactly undoes a block; forks converge).

   One juno node is modelled THREE times side by side, driven by the same chain of state diffs:

     truth   the ground truth: truth[n+1] = fold of the diffs of blocks 0..n (a sequence of full
             states; what every read "at block n" has to return);
     ldb     the LEGACY encoding, core/deprecatedstate + blockchain/statebackend/deprecated.go:
             head values + per-change log of the OLD value under (addr[,slot], n), written only when
             trie.Put reported a change (nonce / class-hash changes are always logged); deployment
             height table; read at n = first log with height > n, else the head value;
     ndb     the NEW encoding, core/state + blockchain/statebackend/statebackend.go: contract
             record (class hash, nonce, DeployedHeight) + log of the NEW value at n for every diff
             entry (and the class hash at deployment); read at n = last log with height <= n,
             else zero;
     cdb     the per-class CASM-hash metadata of blockchain/statebackend/casm_metadata.go (shared
             by both backends: declared-at, migrated-at, "has a V1 hash").

   ApplyBlock / RevertHead transform the three encodings exactly in the order the code does
   (Update, Revert, GetReverseStateDiff, performStateDeletions / deleteHistory, purge of deployed
   and of emptied system contracts, the final root comparison).  All transformations are pure
   operators (UpdL, RevL, UpdN, RevN, UpdC, RevC) so that the C04 property can be stated as
   "the database is a function of the current chain" (Canon).

   A Query(n, kind, addr, slot) action is not needed: reads do not change the state, so the
   invariants ReadsAgree / HeadAgrees quantify over EVERY query in every reachable state.

   Defect switch (DESIGN.md 4.7):
     FixH4 = FALSE  current code: legacy GetReverseStateDiff propagates ErrCheckHeadState, so the
                    revert of a block that wrote zero to a never-written (or currently zero) slot
                    fails ("error getting reverse state diff: check head state") and the head stays;
     FixH4 = TRUE   repaired: fall back to the head value, as deprecatedstate.stateHistory does.
     AtomicLegacyReads = FALSE  current code: deprecatedstate.stateHistory reads the change log and then,
                    in a second read of the LIVE database, the head value; a Store committing in
                    between makes a read "at block m" answer with the new block's value (SplitReadOK);
     AtomicLegacyReads = TRUE   repaired: both reads on one snapshot.
   Alphabet switch:
     SysZeroWrites  allow zero writes into the system contracts 0x1/0x2.  FALSE everywhere a
                    verdict depends on it: the system contracts hold block hashes / counters, never
                    zero.  (With TRUE the two backends disagree on the state root itself: core/state
                    deletes a system contract whose storage became empty during Update, the legacy
                    state only during Revert.)
   Mechanism switch, revert side (what a RevertHead leaves behind in either encoding):
     RevertKeeps    a DEFINITION, not a constant (the modules that extend this one need no new
                    constant): {} = the code as it is - the revert of block n removes, for every key
                    the reverted diff touched, exactly what the Update of block n logged under n
                    (new: the entry of every storage write - zero writes and same-value rewrites
                    included -, nonce, replaced and deployed class hash, the contract record with
                    its DeployedHeight, the class record with its At, the CASM metadata; legacy:
                    the old-value logs at n, the deployment height, the class record).  The
                    expected-violation configurations StateHistory_x_keep_*.cfg override it
                    (RevertKeeps <- Keep...) with one residue kind each, "the revert leaves the
                    entry of kind K behind" (KeepKinds below): every one of them must violate
                    ReadsAgree, i.e. a later historical read on the replacement branch sees the
                    leftover.  Leftovers never change the commitment (they are outside the tries),
                    so the revert itself succeeds - the class of C03-8 / C03-6. *)
EXTENDS Integers, Sequences, FiniteSets, FiniteSetsExt, TLC

CONSTANTS Users,          \* user contract ids (strings)
          Sys,            \* system contract ids (strings), auto-created by their first storage write
          Slots,          \* storage slot ids (strings)
          MaxV,           \* storage values and nonces range over 0..MaxV; 0 = zero / absent
          Cairo0,         \* class ids of Cairo-0 classes (declared "v0", no CASM hash)
          Sierra,         \* class ids of Sierra classes (declared "v1", CASM hash V1 or V2)
          TxIds,          \* transaction ids a block may carry (used by Revert.tla; {} here)
          L1Txs,          \* the L1-handler transactions among TxIds
          MaxBlocks,      \* bound on the chain length
          MaxOps,         \* bound on the number of entries of one state diff (exhaustive configs)
          MaxTxs,         \* bound on the number of transactions of one block
          Vers,           \* protocol versions a block may have: 0 = before 0.14.1, 1 = 0.14.1 (CASM V2)
          FixH4, SysZeroWrites,
          SplitReads,        \* explore the legacy history read as the TWO database reads it is (log seek,
                             \* then head fallback), interleaved with the writer; FALSE: reads are atomic
          AtomicLegacyReads  \* FALSE = the code: the legacy reader works on the live database, a Store may
                             \* commit between its two reads; TRUE = repaired (reads on one snapshot)

AllC == Users \cup Sys
Classes == Cairo0 \cup Sierra
Vals == 0..MaxV
None == "none"            \* no class / not deployed
ZeroCls == "zero"         \* class hash 0x0 of the system contracts
ASSUME None \notin Classes /\ ZeroCls \notin Classes /\ Users \cap Sys = {} /\ Cairo0 \cap Sierra = {}
ASSUME L1Txs \subseteq TxIds /\ Vers \subseteq {0, 1}

(* residue kinds: <encoding>:<what the revert of block n fails to remove>
     n:/l: stor0     history entry at n of a storage write of ZERO (new: the tombstone that hides the
                     older non-zero entry; legacy: the old value of a cleared slot)
           storsame  ... of a write of the value the slot already had
           stor      ... of any other storage write
           nonce     ... of a nonce entry            rep  ... of a replaced class hash
           decl      the class record (DeclaredClassDefinition.At = n) of a class declared at n
     n:dep           the class-hash history entry the new state logs at a deployment
     n:rec           the contract record (class hash, nonce, DeployedHeight) of a contract deployed at n
     l:dh            the legacy ContractDeploymentHeight entry of a contract deployed at n
     c:decl / c:mig  the CASM metadata of a class declared at n / its migrated-at mark *)
KeepKinds == {"n:stor0", "n:storsame", "n:stor", "n:nonce", "n:rep", "n:dep", "n:rec", "n:decl",
              "l:stor0", "l:storsame", "l:stor", "l:nonce", "l:rep", "l:dh", "l:decl",
              "c:decl", "c:mig"}
RevertKeeps == {}
Keeps(k) == k \in RevertKeeps
\* the values the expected-violation configurations substitute: RevertKeeps <- Keep_<encoding>_<kind>
Keep_n_stor0 == {"n:stor0"}    Keep_n_storsame == {"n:storsame"}    Keep_n_stor == {"n:stor"}
Keep_n_nonce == {"n:nonce"}    Keep_n_rep == {"n:rep"}              Keep_n_dep == {"n:dep"}
Keep_n_rec == {"n:rec"}        Keep_n_decl == {"n:decl"}
Keep_l_stor0 == {"l:stor0"}    Keep_l_storsame == {"l:storsame"}    Keep_l_stor == {"l:stor"}
Keep_l_nonce == {"l:nonce"}    Keep_l_rep == {"l:rep"}              Keep_l_dh == {"l:dh"}
Keep_l_decl == {"l:decl"}      Keep_c_decl == {"c:decl"}            Keep_c_mig == {"c:mig"}
ASSUME RevertKeeps \subseteq KeepKinds

VARIABLES chain,    \* sequence of blocks [ops, ver, txs]; block number n is chain[n+1]
          truth,    \* truth[n+1] = state after block n
          roots,    \* roots[n+1] = [l, n]: abstract state commitment each backend stored for block n
          ldb, ndb, cdb,
          failed,   \* "no", or why RevertHead returned an error (absorbing: the node is stuck)
          rd,       \* a legacy storage read in flight between its two database reads (SplitReads)
          rdone,    \* the last completed split read and its answer
          act, res  \* output only: the call and its result

shvars == <<chain, truth, roots, ldb, ndb, cdb, failed, rd, rdone, act, res>>
shview == <<chain, ldb, ndb, cdb, failed, rd, rdone>>

NBlocks == Len(chain)
Last(s) == s[Len(s)]

--------------------------------------------------------------------------
(* state diffs: a set of entries, at most one per key *)
NoA == "-"
ODecl(c)       == [k |-> "decl",  a |-> NoA, s |-> NoA, c |-> c,    v |-> -1]
OMig(c)        == [k |-> "mig",   a |-> NoA, s |-> NoA, c |-> c,    v |-> -1]
ODep(a, c)     == [k |-> "dep",   a |-> a,   s |-> NoA, c |-> c,    v |-> -1]
ORep(a, c)     == [k |-> "rep",   a |-> a,   s |-> NoA, c |-> c,    v |-> -1]
ONonce(a, v)   == [k |-> "nonce", a |-> a,   s |-> NoA, c |-> None, v |-> v]
OStor(a, s, v) == [k |-> "stor",  a |-> a,   s |-> s,   c |-> None, v |-> v]

AllOps ==
  {ODecl(c) : c \in Classes} \cup {OMig(c) : c \in Sierra}
  \cup {ODep(a, c) : a \in Users, c \in Classes} \cup {ORep(a, c) : a \in Users, c \in Classes}
  \cup {ONonce(a, v) : a \in Users, v \in Vals}
  \cup {OStor(a, s, v) : a \in AllC, s \in Slots, v \in Vals}

SameKey(o, p) == o.k = p.k /\ o.a = p.a /\ o.s = p.s /\ (o.k \in {"decl", "mig"} => o.c = p.c)
WellFormed(d) == \A o \in d, p \in d : SameKey(o, p) => o = p

Pick(S) == CHOOSE x \in S : TRUE
DeclSet(d) == {o.c : o \in {x \in d : x.k = "decl"}}
MigSet(d)  == {o.c : o \in {x \in d : x.k = "mig"}}
DepOf(d, a) == LET S == {o \in d : o.k = "dep" /\ o.a = a} IN IF S = {} THEN None ELSE Pick(S).c
RepOf(d, a) == LET S == {o \in d : o.k = "rep" /\ o.a = a} IN IF S = {} THEN None ELSE Pick(S).c
NonceOf(d, a) == LET S == {o \in d : o.k = "nonce" /\ o.a = a} IN IF S = {} THEN -1 ELSE Pick(S).v
StorOf(d, a, s) == LET S == {o \in d : o.k = "stor" /\ o.a = a /\ o.s = s} IN IF S = {} THEN -1 ELSE Pick(S).v
StorTouched(d, a) == \E s \in Slots : StorOf(d, a, s) # -1

--------------------------------------------------------------------------
(* ground truth *)
ZeroStor == [s \in Slots |-> 0]
NoCon == [dep |-> FALSE, cls |-> None, nonce |-> 0, stor |-> ZeroStor]
EmptyT == [con |-> [a \in AllC |-> NoCon], cl |-> [c \in Classes |-> "none"]]
\* class status: "none", "c0" (Cairo-0), "v1" (Sierra, V1 CASM hash), "v2" (declared with V2), "mig"

CurT == IF NBlocks = 0 THEN EmptyT ELSE truth[NBlocks]
HeadVer == IF NBlocks = 0 THEN 0 ELSE chain[NBlocks].ver

(* which diffs a block may carry on top of state T (ver = 1: protocol >= 0.14.1) *)
Valid(T, ver, d) ==
  /\ WellFormed(d)
  /\ \A o \in d :
       LET declared(c) == T.cl[c] # "none" \/ c \in DeclSet(d)
           live(a) == T.con[a].dep \/ DepOf(d, a) # None IN
       CASE o.k = "decl"  -> T.cl[o.c] = "none"
         [] o.k = "mig"   -> T.cl[o.c] = "v1" /\ ver = 1
         [] o.k = "dep"   -> ~T.con[o.a].dep /\ declared(o.c)
         [] o.k = "rep"   -> T.con[o.a].dep /\ declared(o.c)
         [] o.k = "nonce" -> live(o.a)
         [] o.k = "stor"  -> IF o.a \in Sys THEN (o.v # 0 \/ SysZeroWrites) ELSE live(o.a)

ApplyT(T, ver, d) ==
  [con |-> [a \in AllC |->
      LET c == T.con[a]
          created == DepOf(d, a) # None \/ (a \in Sys /\ StorTouched(d, a)) IN
      [dep |-> c.dep \/ created,
       cls |-> IF DepOf(d, a) # None THEN DepOf(d, a)
               ELSE IF RepOf(d, a) # None THEN RepOf(d, a)
               ELSE IF a \in Sys /\ ~c.dep /\ created THEN ZeroCls ELSE c.cls,
       nonce |-> IF NonceOf(d, a) # -1 THEN NonceOf(d, a) ELSE c.nonce,
       stor |-> [s \in Slots |-> IF StorOf(d, a, s) # -1 THEN StorOf(d, a, s) ELSE c.stor[s]]]],
   cl |-> [c \in Classes |->
      IF c \in DeclSet(d) THEN (IF c \in Cairo0 THEN "c0" ELSE IF ver = 1 THEN "v2" ELSE "v1")
      ELSE IF c \in MigSet(d) THEN "mig" ELSE T.cl[c]]]

--------------------------------------------------------------------------
(* the class trie leaf both backends keep for a Sierra class: "none", "v1" or "v2" (part of the
   state commitment; updated by Update / removeDeclaredClasses / revertMigratedCasmClasses) *)
NoCt == [c \in Sierra |-> "none"]
UpdCt(ct, ver, d) ==
  [c \in Sierra |-> IF c \in MigSet(d) THEN "v2"
                    ELSE IF c \in DeclSet(d) THEN (IF ver = 1 THEN "v2" ELSE "v1") ELSE ct[c]]
\* Revert: classes whose At = n are removed from the trie; migrated classes get their V1 leaf back
RevCt(ct, cat, n, d) ==
  [c \in Sierra |-> IF c \in MigSet(d) THEN "v1"
                    ELSE IF c \in DeclSet(d) /\ cat[c] = n THEN "none" ELSE ct[c]]

--------------------------------------------------------------------------
(* CASM metadata (casm_metadata.go, core/class.go ClassCasmHashMetadata) *)
NoMeta == [decl |-> -1, mig |-> 0, v1 |-> FALSE]
InitC == [c \in Sierra |-> NoMeta]
UpdC(C, n, ver, d) ==
  [c \in Sierra |->
     IF c \in DeclSet(d) THEN [decl |-> n, mig |-> 0, v1 |-> (ver = 0)]
     ELSE IF c \in MigSet(d) /\ ver = 1 THEN [C[c] EXCEPT !.mig = n] ELSE C[c]]
RevC(C, d) ==
  [c \in Sierra |-> IF c \in DeclSet(d) THEN (IF Keeps("c:decl") THEN C[c] ELSE NoMeta)
                    ELSE IF c \in MigSet(d) THEN (IF Keeps("c:mig") THEN C[c] ELSE [C[c] EXCEPT !.mig = 0])
                    ELSE C[c]]
NF == -1                  \* "not found" for integer-valued reads
NFS == "notfound"         \* "not found" for string-valued reads
CasmHead(C, c) == IF C[c] = NoMeta THEN NFS ELSE IF ~C[c].v1 \/ C[c].mig > 0 THEN "v2" ELSE "v1"
CasmAt(C, c, m) ==
  IF C[c] = NoMeta \/ C[c].decl > m THEN NFS
  ELSE IF ~C[c].v1 \/ (C[c].mig > 0 /\ C[c].mig <= m) THEN "v2" ELSE "v1"

--------------------------------------------------------------------------
(* LEGACY encoding *)
InitL == [dep   |-> [a \in AllC |-> -1],            \* ContractDeploymentHeight
          cls   |-> [a \in AllC |-> None],          \* ContractClassHash (key exists <=> deployed)
          nonce |-> [a \in AllC |-> 0],
          stor  |-> [a \in AllC |-> ZeroStor],
          logS  |-> {},                             \* [a, s, n, old]
          logN  |-> {},                             \* [a, n, old]
          logC  |-> {},                             \* [a, n, old]
          cat   |-> [c \in Classes |-> -1],         \* DeclaredClassDefinition.At
          ct    |-> NoCt]

LDeployed(L, a) == L.cls[a] # None

UpdL(L, n, ver, d) ==
  LET sysNew(a) == a \in Sys /\ StorTouched(d, a) /\ ~LDeployed(L, a)
      cls1 == [a \in AllC |-> IF DepOf(d, a) # None THEN DepOf(d, a) ELSE L.cls[a]]       \* putNewContract
      non1 == [a \in AllC |-> IF DepOf(d, a) # None THEN 0 ELSE L.nonce[a]]
      dep1 == [a \in AllC |-> IF DepOf(d, a) # None \/ sysNew(a) THEN n ELSE L.dep[a]]
      cls2 == [a \in AllC |-> IF RepOf(d, a) # None THEN RepOf(d, a)                       \* replaceContract
                              ELSE IF sysNew(a) THEN ZeroCls ELSE cls1[a]]
  IN [dep   |-> dep1,
      cls   |-> cls2,
      nonce |-> [a \in AllC |-> IF NonceOf(d, a) # -1 THEN NonceOf(d, a) ELSE non1[a]],
      stor  |-> [a \in AllC |-> [s \in Slots |-> IF StorOf(d, a, s) # -1 THEN StorOf(d, a, s) ELSE L.stor[a][s]]],
      \* trie.Put returns the old value unless it is a zero write to an absent key: then no log
      \* (a log is a database key (addr[, slot], n): writing it replaces whatever was stored under it.
      \*  No such entry exists when block n is stored - NoOrphanLogs - unless a revert left one behind.)
      logS  |-> LET logged == {x \in d : x.k = "stor" /\ ~(x.v = 0 /\ L.stor[x.a][x.s] = 0)} IN
                {l \in L.logS : ~(l.n = n /\ \E o \in logged : o.a = l.a /\ o.s = l.s)}
                \cup {[a |-> o.a, s |-> o.s, n |-> n, old |-> L.stor[o.a][o.s]] : o \in logged},
      logN  |-> {l \in L.logN : ~(l.n = n /\ NonceOf(d, l.a) # -1)}
                \cup {[a |-> o.a, n |-> n, old |-> non1[o.a]] : o \in {x \in d : x.k = "nonce"}},
      logC  |-> {l \in L.logC : ~(l.n = n /\ RepOf(d, l.a) # None)}
                \cup {[a |-> o.a, n |-> n, old |-> cls1[o.a]] : o \in {x \in d : x.k = "rep"}},
      cat   |-> [c \in Classes |-> IF c \in DeclSet(d) /\ L.cat[c] = -1 THEN n ELSE L.cat[c]],
      ct    |-> UpdCt(L.ct, ver, d)]

(* deprecatedstate.State.valueAt: the first log with height > m ("== m" entries are skipped);
   {} stands for ErrCheckHeadState *)
FirstAbove(logs, m) ==
  LET above == {l \in logs : l.n > m} IN
  IF above = {} THEN {} ELSE {(CHOOSE l \in above : \A k \in above : l.n <= k.n).old}

LLogS(L, a, s) == {l \in L.logS : l.a = a /\ l.s = s}
LLogN(L, a) == {l \in L.logN : l.a = a}
LLogC(L, a) == {l \in L.logC : l.a = a}
LDeployedAt(L, a, m) == L.dep[a] # -1 /\ L.dep[a] <= m

(* deprecatedstate.stateHistory *)
LReadStor(L, a, s, m) ==
  LET r == FirstAbove(LLogS(L, a, s), m)
      v == IF r = {} THEN L.stor[a][s] ELSE Pick(r) IN
  IF v # 0 THEN v ELSE IF LDeployedAt(L, a, m) THEN 0 ELSE NF
LReadNonce(L, a, m) ==
  IF ~LDeployedAt(L, a, m) THEN NF
  ELSE LET r == FirstAbove(LLogN(L, a), m) IN IF r = {} THEN L.nonce[a] ELSE Pick(r)
LReadCls(L, a, m) ==
  IF ~LDeployedAt(L, a, m) THEN NFS
  ELSE LET r == FirstAbove(LLogC(L, a), m) IN IF r = {} THEN L.cls[a] ELSE Pick(r)
LReadClass(L, c, m) == L.cat[c] # -1 /\ L.cat[c] <= m
(* head reader (deprecatedstate.State); storage of a missing contract reads zero, callers probe
   the class hash (rpc StorageAt) - the composite is what is modelled *)
LHeadCls(L, a) == IF LDeployed(L, a) THEN L.cls[a] ELSE NFS
LHeadNonce(L, a) == IF LDeployed(L, a) THEN L.nonce[a] ELSE NF
LHeadStor(L, a, s) == IF L.stor[a][s] # 0 THEN L.stor[a][s] ELSE IF LDeployed(L, a) THEN 0 ELSE NF

(* abstract state commitment: what the global tries commit to *)
ProjL(L) == [con |-> [a \in AllC |-> IF LDeployed(L, a)
                                    THEN [dep |-> TRUE, cls |-> L.cls[a], nonce |-> L.nonce[a], stor |-> L.stor[a]]
                                    ELSE NoCon],
             ct |-> L.ct]
EmptyRoot == [con |-> [a \in AllC |-> NoCon], ct |-> NoCt]

(* deprecatedstate.State.Revert of head block n with diff d; oldRoot = commitment of block n-1 *)
RevL(L, n, d, oldRoot) ==
  LET setS(o) == FirstAbove(LLogS(L, o.a, o.s), n - 1)
      oldS(a, s) == IF n = 0 THEN 0
                    ELSE LET r == FirstAbove(LLogS(L, a, s), n - 1) IN IF r = {} THEN L.stor[a][s] ELSE Pick(r)
      oldN(a) == IF n = 0 THEN 0 ELSE LET r == FirstAbove(LLogN(L, a), n - 1) IN IF r = {} THEN L.nonce[a] ELSE Pick(r)
      oldC(a) == IF n = 0 THEN ZeroCls ELSE LET r == FirstAbove(LLogC(L, a), n - 1) IN IF r = {} THEN L.cls[a] ELSE Pick(r)
      \* GetReverseStateDiff propagates ErrCheckHeadState (never at genesis)
      h4 == n > 0 /\ \E o \in d : o.k = "stor" /\ setS(o) = {}
      nolog == n > 0 /\ \E o \in d : \/ (o.k = "nonce" /\ FirstAbove(LLogN(L, o.a), n - 1) = {})
                                     \/ (o.k = "rep" /\ FirstAbove(LLogC(L, o.a), n - 1) = {})
      \* performStateDeletions, then updateContracts(reverse diff, no logging)
      cls1 == [a \in AllC |-> IF RepOf(d, a) # None THEN oldC(a) ELSE L.cls[a]]
      non1 == [a \in AllC |-> IF NonceOf(d, a) # -1 THEN oldN(a) ELSE L.nonce[a]]
      stor1 == [a \in AllC |-> [s \in Slots |-> IF StorOf(d, a, s) # -1 THEN oldS(a, s) ELSE L.stor[a][s]]]
      \* purge deployed contracts, then system contracts whose storage root became zero
      purged(a) == DepOf(d, a) # None \/ (a \in Sys /\ cls1[a] # None /\ stor1[a] = ZeroStor)
      L2 == [dep   |-> [a \in AllC |-> IF purged(a) THEN -1 ELSE L.dep[a]],
             cls   |-> [a \in AllC |-> IF purged(a) THEN None ELSE cls1[a]],
             nonce |-> [a \in AllC |-> IF purged(a) THEN 0 ELSE non1[a]],
             stor  |-> stor1,
             logS  |-> {l \in L.logS : ~(l.n = n /\ StorOf(d, l.a, l.s) # -1)},
             logN  |-> {l \in L.logN : ~(l.n = n /\ NonceOf(d, l.a) # -1)},
             logC  |-> {l \in L.logC : ~(l.n = n /\ RepOf(d, l.a) # None)},
             cat   |-> [c \in Classes |-> IF c \in DeclSet(d) /\ L.cat[c] = n THEN -1 ELSE L.cat[c]],
             ct    |-> RevCt(L.ct, L.cat, n, d)]
      \* what a mutated revert leaves behind (RevertKeeps = {}: L2k = L2); none of it is committed to
      keptS(l) == LET v == StorOf(d, l.a, l.s) IN
                  l.n = n /\ v # -1 /\ (IF v = 0 THEN Keeps("l:stor0") ELSE IF v = l.old THEN Keeps("l:storsame") ELSE Keeps("l:stor"))
      L2k == [L2 EXCEPT
                !.logS = @ \cup {l \in L.logS : keptS(l)},
                !.logN = @ \cup {l \in L.logN : l.n = n /\ NonceOf(d, l.a) # -1 /\ Keeps("l:nonce")},
                !.logC = @ \cup {l \in L.logC : l.n = n /\ RepOf(d, l.a) # None /\ Keeps("l:rep")},
                !.dep  = [a \in AllC |-> IF purged(a) /\ Keeps("l:dh") THEN L.dep[a] ELSE @[a]],
                !.cat  = [c \in Classes |-> IF Keeps("l:decl") THEN L.cat[c] ELSE @[c]]]
  IN IF h4 /\ ~FixH4 THEN [err |-> "h4", db |-> L]
     ELSE IF nolog THEN [err |-> "nolog", db |-> L]
     ELSE IF ProjL(L2) # oldRoot THEN [err |-> "root", db |-> L]
     ELSE [err |-> "no", db |-> L2k]

(* would the CURRENT code fail with ErrCheckHeadState here? (independent of FixH4) *)
H4Shape(L, n, d) == n > 0 /\ \E o \in d : o.k = "stor" /\ FirstAbove(LLogS(L, o.a, o.s), n - 1) = {}

--------------------------------------------------------------------------
(* NEW encoding *)
NoRec == [cls |-> None, nonce |-> 0, dh |-> -1]
InitN == [rec  |-> [a \in AllC |-> NoRec],          \* stateContract (ClassHash, Nonce, DeployedHeight)
          stor |-> [a \in AllC |-> ZeroStor],
          logS |-> {},                              \* [a, s, n, new]
          logN |-> {},                              \* [a, n, new]
          logC |-> {},                              \* [a, n, new]
          cat  |-> [c \in Classes |-> -1],
          ct   |-> NoCt]

NExists(N, a) == N.rec[a] # NoRec

(* State.commit: a touched system contract whose storage root is zero is deleted *)
UpdN(N, n, ver, d) ==
  LET base(a) == IF DepOf(d, a) # None THEN [cls |-> DepOf(d, a), nonce |-> 0, dh |-> n]
                 ELSE IF a \in Sys /\ StorTouched(d, a) /\ ~NExists(N, a) THEN [cls |-> ZeroCls, nonce |-> 0, dh |-> n]
                 ELSE N.rec[a]
      rec1 == [a \in AllC |-> [cls |-> IF RepOf(d, a) # None THEN RepOf(d, a) ELSE base(a).cls,
                               nonce |-> IF NonceOf(d, a) # -1 THEN NonceOf(d, a) ELSE base(a).nonce,
                               dh |-> base(a).dh]]
      stor1 == [a \in AllC |-> [s \in Slots |-> IF StorOf(d, a, s) # -1 THEN StorOf(d, a, s) ELSE N.stor[a][s]]]
      dropped(a) == a \in Sys /\ StorTouched(d, a) /\ stor1[a] = ZeroStor
  IN [rec  |-> [a \in AllC |-> IF dropped(a) THEN NoRec ELSE rec1[a]],
      stor |-> stor1,
      \* writeHistory: every diff entry, the class hash also at deployment
      \* (entries are database keys (addr[, slot], n): a write replaces a leftover under the same key)
      logS |-> {l \in N.logS : ~(l.n = n /\ StorOf(d, l.a, l.s) # -1)}
               \cup {[a |-> o.a, s |-> o.s, n |-> n, new |-> o.v] : o \in {x \in d : x.k = "stor"}},
      logN |-> {l \in N.logN : ~(l.n = n /\ NonceOf(d, l.a) # -1)}
               \cup {[a |-> o.a, n |-> n, new |-> o.v] : o \in {x \in d : x.k = "nonce"}},
      logC |-> {l \in N.logC : ~(l.n = n /\ (RepOf(d, l.a) # None \/ DepOf(d, l.a) # None))}
               \cup {[a |-> o.a, n |-> n, new |-> o.c] : o \in {x \in d : x.k \in {"rep", "dep"}}},
      cat  |-> [c \in Classes |-> IF c \in DeclSet(d) /\ N.cat[c] = -1 THEN n ELSE N.cat[c]],
      ct   |-> UpdCt(N.ct, ver, d)]

(* state.StateReader.valueAt: seek (prefix, m); on a miss step back: the last log with height <= m *)
LastAtOrBelow(logs, m, zero) ==
  LET below == {l \in logs : l.n <= m} IN
  IF below = {} THEN zero ELSE (CHOOSE l \in below : \A k \in below : l.n >= k.n).new

NLogS(N, a, s) == {l \in N.logS : l.a = a /\ l.s = s}
NLogN(N, a) == {l \in N.logN : l.a = a}
NLogC(N, a) == {l \in N.logC : l.a = a}
NDeployedAt(N, a, m) == NExists(N, a) /\ N.rec[a].dh <= m

(* state.stateHistory *)
NReadStor(N, a, s, m) == IF ~NDeployedAt(N, a, m) THEN NF ELSE LastAtOrBelow(NLogS(N, a, s), m, 0)
NReadNonce(N, a, m) == IF ~NDeployedAt(N, a, m) THEN NF ELSE LastAtOrBelow(NLogN(N, a), m, 0)
NReadCls(N, a, m) == IF ~NDeployedAt(N, a, m) THEN NFS ELSE LastAtOrBelow(NLogC(N, a), m, ZeroCls)
NReadClass(N, c, m) == N.cat[c] # -1 /\ N.cat[c] <= m
NHeadCls(N, a) == IF NExists(N, a) THEN N.rec[a].cls ELSE NFS
NHeadNonce(N, a) == IF NExists(N, a) THEN N.rec[a].nonce ELSE NF
NHeadStor(N, a, s) == IF N.stor[a][s] # 0 THEN N.stor[a][s] ELSE IF NExists(N, a) THEN 0 ELSE NF

ProjN(N) == [con |-> [a \in AllC |-> IF NExists(N, a)
                                    THEN [dep |-> TRUE, cls |-> N.rec[a].cls, nonce |-> N.rec[a].nonce, stor |-> N.stor[a]]
                                    ELSE NoCon],
             ct |-> N.ct]

(* state.State.Revert *)
RevN(N, n, d, oldRoot) ==
  LET oldS(a, s) == IF n = 0 THEN 0 ELSE LastAtOrBelow(NLogS(N, a, s), n - 1, 0)
      oldN(a) == IF n = 0 THEN 0 ELSE LastAtOrBelow(NLogN(N, a), n - 1, 0)
      oldC(a) == IF n = 0 THEN ZeroCls ELSE LastAtOrBelow(NLogC(N, a), n - 1, ZeroCls)
      \* updateContracts(reverse diff): replaced classes and nonces need the object to exist;
      \* a missing system contract is re-created (with DeployedHeight = n)
      missing == \E o \in d : o.k \in {"rep", "nonce"} /\ ~NExists(N, o.a)
      base(a) == IF a \in Sys /\ StorTouched(d, a) /\ ~NExists(N, a) THEN [cls |-> ZeroCls, nonce |-> 0, dh |-> n]
                 ELSE N.rec[a]
      rec1 == [a \in AllC |-> [cls |-> IF RepOf(d, a) # None THEN oldC(a) ELSE base(a).cls,
                               nonce |-> IF NonceOf(d, a) # -1 THEN oldN(a) ELSE base(a).nonce,
                               dh |-> base(a).dh]]
      stor1 == [a \in AllC |-> [s \in Slots |-> IF StorOf(d, a, s) # -1 THEN oldS(a, s) ELSE N.stor[a][s]]]
      gone(a) == DepOf(d, a) # None \/ (a \in Sys /\ StorTouched(d, a) /\ stor1[a] = ZeroStor)
      N2 == [rec  |-> [a \in AllC |-> IF gone(a) THEN NoRec ELSE rec1[a]],
             stor |-> stor1,
             \* deleteHistory: diff entries at n; for deployed contracts the nonce and class logs at n
             logS |-> {l \in N.logS : ~(l.n = n /\ StorOf(d, l.a, l.s) # -1)},
             logN |-> {l \in N.logN : ~(l.n = n /\ (NonceOf(d, l.a) # -1 \/ DepOf(d, l.a) # None))},
             logC |-> {l \in N.logC : ~(l.n = n /\ (RepOf(d, l.a) # None \/ DepOf(d, l.a) # None))},
             cat  |-> [c \in Classes |-> IF c \in DeclSet(d) /\ N.cat[c] = n THEN -1 ELSE N.cat[c]],
             ct   |-> RevCt(N.ct, N.cat, n, d)]
      \* what a mutated deleteHistory / flush leaves behind (RevertKeeps = {}: N2k = N2); the root
      \* comparison is on the tries, which none of it touches
      keptS(l) == LET v == StorOf(d, l.a, l.s) IN
                  l.n = n /\ v # -1 /\ (IF v = 0 THEN Keeps("n:stor0") ELSE IF v = oldS(l.a, l.s) THEN Keeps("n:storsame") ELSE Keeps("n:stor"))
      N2k == [N2 EXCEPT
                !.logS = @ \cup {l \in N.logS : keptS(l)},
                !.logN = @ \cup {l \in N.logN : l.n = n /\ NonceOf(d, l.a) # -1 /\ Keeps("n:nonce")},
                !.logC = @ \cup {l \in N.logC : l.n = n /\ ((RepOf(d, l.a) # None /\ Keeps("n:rep"))
                                                           \/ (DepOf(d, l.a) # None /\ Keeps("n:dep")))},
                !.rec  = [a \in AllC |-> IF DepOf(d, a) # None /\ Keeps("n:rec") THEN rec1[a] ELSE @[a]],
                !.cat  = [c \in Classes |-> IF Keeps("n:decl") THEN N.cat[c] ELSE @[c]]]
  IN IF missing THEN [err |-> "missing", db |-> N]
     ELSE IF ProjN(N2) # oldRoot THEN [err |-> "root", db |-> N]
     ELSE [err |-> "no", db |-> N2k]

--------------------------------------------------------------------------
NoRd == [on |-> FALSE, a |-> NoA, s |-> NoA, m |-> -1]
NoRdone == [on |-> FALSE, a |-> NoA, s |-> NoA, m |-> -1, val |-> 0]

Init ==
  /\ chain = <<>> /\ truth = <<>> /\ roots = <<>>
  /\ ldb = InitL /\ ndb = InitN /\ cdb = InitC
  /\ failed = "no"
  /\ rd = NoRd /\ rdone = NoRdone
  /\ act = [name |-> "Init"] /\ res = "ok"

(* the transactions a block may carry: distinct ids, none of them already on the current chain
   (a transaction hash occurs at most once per chain; it may come back on another fork) *)
OnChain == UNION {{chain[i].txs[j] : j \in 1..Len(chain[i].txs)} : i \in 1..NBlocks}
TxSeqOK(txs) ==
  /\ Len(txs) <= MaxTxs
  /\ \A i \in 1..Len(txs) : txs[i] \in TxIds \ OnChain
  /\ \A i, j \in 1..Len(txs) : txs[i] = txs[j] => i = j

ApplyBlock(d, ver, txs) ==
  LET n == NBlocks IN
  /\ failed = "no"
  /\ rd.on => ~AtomicLegacyReads        \* a repaired reader's two reads see one snapshot
  /\ UNCHANGED rd /\ rdone' = NoRdone
  /\ NBlocks < MaxBlocks
  /\ ver \in Vers /\ ver >= HeadVer
  /\ Valid(CurT, ver, d)
  /\ TxSeqOK(txs)
  /\ chain' = Append(chain, [ops |-> d, ver |-> ver, txs |-> txs])
  /\ truth' = Append(truth, ApplyT(CurT, ver, d))
  /\ ldb' = UpdL(ldb, n, ver, d)
  /\ ndb' = UpdN(ndb, n, ver, d)
  /\ cdb' = UpdC(cdb, n, ver, d)
  /\ roots' = Append(roots, [l |-> ProjL(ldb'), n |-> ProjN(ndb')])
  /\ UNCHANGED failed
  /\ act' = [name |-> "Apply", ops |-> d, ver |-> ver, txs |-> txs]
  /\ res' = "ok"

RevertHead ==
  LET n == NBlocks - 1
      d == chain[NBlocks].ops
      ol == IF n = 0 THEN EmptyRoot ELSE roots[n].l
      on == IF n = 0 THEN EmptyRoot ELSE roots[n].n
      rl == RevL(ldb, n, d, ol)
      rn == RevN(ndb, n, d, on)
      err == IF rl.err # "no" THEN <<"legacy", rl.err>> ELSE IF rn.err # "no" THEN <<"new", rn.err>> ELSE <<>>
  IN
  /\ failed = "no"
  /\ NBlocks > 0
  /\ rd.on => (~AtomicLegacyReads /\ rd.m < n)   \* the block being read stays retained
  /\ UNCHANGED rd /\ rdone' = NoRdone
  /\ act' = [name |-> "Revert", h4 |-> H4Shape(ldb, n, d)]
  /\ IF err # <<>>
     THEN /\ failed' = err[2]
          /\ res' = err[1]                       \* which backend returned the error
          /\ UNCHANGED <<chain, truth, roots, ldb, ndb, cdb>>
     ELSE /\ chain' = SubSeq(chain, 1, n)
          /\ truth' = SubSeq(truth, 1, n)
          /\ roots' = SubSeq(roots, 1, n)
          /\ ldb' = rl.db /\ ndb' = rn.db
          /\ cdb' = RevC(cdb, d)
          /\ res' = "ok"
          /\ UNCHANGED failed

(* The process restarts: a new blockchain.Blockchain object (and with it new in-memory caches)
   is opened on the same database, after a graceful stop (the running event filter snapshot is
   written first) or without one.  On the abstract database it is a no-op, whenever it happens
   (compare Flush / Reopen in spec/kv/KV.tla): RestartIsNoOp. *)
Restart(graceful) ==
  /\ failed = "no"
  /\ act' = [name |-> "Restart", graceful |-> graceful]
  /\ res' = "ok"
  /\ ~rd.on
  /\ UNCHANGED <<chain, truth, roots, ldb, ndb, cdb, failed, rd, rdone>>

(* deprecatedstate.stateHistory.ContractStorage as the two database reads it performs on the live
   database: (1) valueAt - the first log above m; when there is none (2) the head value.  A Store
   that commits between (1) and (2) makes the reader answer with the value of the NEW block. *)
LReadBegin(a, s, m) ==
  /\ SplitReads /\ failed = "no" /\ ~rd.on
  /\ m \in 0..(NBlocks - 1)
  /\ LET r == FirstAbove(LLogS(ldb, a, s), m) IN
     IF r # {}
     THEN /\ rd' = NoRd
          /\ rdone' = [on |-> TRUE, a |-> a, s |-> s, m |-> m,
                       val |-> IF Pick(r) # 0 THEN Pick(r) ELSE IF LDeployedAt(ldb, a, m) THEN 0 ELSE NF]
     ELSE /\ rd' = [on |-> TRUE, a |-> a, s |-> s, m |-> m]
          /\ rdone' = NoRdone
  /\ act' = [name |-> "ReadBegin"] /\ res' = "ok"
  /\ UNCHANGED <<chain, truth, roots, ldb, ndb, cdb, failed>>

LReadEnd ==
  /\ rd.on
  /\ LET v == ldb.stor[rd.a][rd.s] IN
     rdone' = [on |-> TRUE, a |-> rd.a, s |-> rd.s, m |-> rd.m,
               val |-> IF v # 0 THEN v ELSE IF LDeployedAt(ldb, rd.a, rd.m) THEN 0 ELSE NF]
  /\ rd' = NoRd
  /\ act' = [name |-> "ReadEnd"] /\ res' = "ok"
  /\ UNCHANGED <<chain, truth, roots, ldb, ndb, cdb, failed>>

(* exhaustive alphabet: every diff with at most MaxOps entries *)
BoundedDiffs == UNION {kSubset(k, AllOps) : k \in 0..MaxOps}
BoundedTxSeqs == {<<>>}
Next ==
  \/ \E d \in BoundedDiffs, ver \in Vers : ApplyBlock(d, ver, <<>>)
  \/ RevertHead
  \/ Restart(TRUE)
  \/ \E a \in AllC, sl \in Slots, m \in 0..(MaxBlocks - 1) : LReadBegin(a, sl, m)
  \/ LReadEnd
Spec == Init /\ [][Next]_shvars

--------------------------------------------------------------------------
(* properties *)

(* C04: RevertHead succeeds for every block the node was able to store *)
RevertNeverFails == failed = "no"

TStor(a, s, m) == IF truth[m + 1].con[a].dep THEN truth[m + 1].con[a].stor[s] ELSE NF
TNonce(a, m) == IF truth[m + 1].con[a].dep THEN truth[m + 1].con[a].nonce ELSE NF
TCls(a, m) == IF truth[m + 1].con[a].dep THEN truth[m + 1].con[a].cls ELSE NFS
TClass(c, m) == truth[m + 1].cl[c] # "none"
TCasm(c, m) == LET st == truth[m + 1].cl[c] IN
               IF st \in {"none", "c0"} THEN NFS ELSE IF st = "v1" THEN "v1" ELSE "v2"

(* C03: every historical read of both encodings equals the ground truth *)
ReadsAgree ==
  \A m \in 0..(NBlocks - 1) :
    /\ \A a \in AllC :
         /\ \A s \in Slots : LReadStor(ldb, a, s, m) = TStor(a, s, m) /\ NReadStor(ndb, a, s, m) = TStor(a, s, m)
         /\ LReadNonce(ldb, a, m) = TNonce(a, m) /\ NReadNonce(ndb, a, m) = TNonce(a, m)
         /\ LReadCls(ldb, a, m) = TCls(a, m) /\ NReadCls(ndb, a, m) = TCls(a, m)
    /\ \A c \in Classes : LReadClass(ldb, c, m) = TClass(c, m) /\ NReadClass(ndb, c, m) = TClass(c, m)
    /\ \A c \in Sierra : CasmAt(cdb, c, m) = TCasm(c, m)

(* C03: head reads *)
HeadAgrees ==
  /\ NBlocks = 0 => (ldb = InitL /\ ndb = InitN /\ cdb = InitC)
  /\ NBlocks > 0 =>
       LET m == NBlocks - 1 IN
       /\ \A a \in AllC :
            /\ LHeadCls(ldb, a) = TCls(a, m) /\ NHeadCls(ndb, a) = TCls(a, m)
            /\ LHeadNonce(ldb, a) = TNonce(a, m) /\ NHeadNonce(ndb, a) = TNonce(a, m)
            /\ \A s \in Slots : LHeadStor(ldb, a, s) = TStor(a, s, m) /\ NHeadStor(ndb, a, s) = TStor(a, s, m)
       /\ \A c \in Classes : (ldb.cat[c] # -1) = TClass(c, m) /\ (ndb.cat[c] # -1) = TClass(c, m)
       /\ \A c \in Sierra : CasmHead(cdb, c) = TCasm(c, m)
       /\ ProjL(ldb) = ProjN(ndb)           \* both backends commit to the same state

(* C04: no log at or above the chain length survives a revert *)
NoOrphanLogs ==
  /\ \A l \in ldb.logS : l.n < NBlocks
  /\ \A l \in ldb.logN : l.n < NBlocks
  /\ \A l \in ldb.logC : l.n < NBlocks
  /\ \A l \in ndb.logS : l.n < NBlocks
  /\ \A l \in ndb.logN : l.n < NBlocks
  /\ \A l \in ndb.logC : l.n < NBlocks

(* C04: the database is a function of the current chain - whatever blocks were stored and
   reverted on the way.  Hence Store ; Revert is the identity on the database, and a node that
   followed fork A, reverted it and followed fork B equals a node that followed B directly. *)
RECURSIVE Replay(_)
Replay(k) ==
  IF k = 0 THEN [l |-> InitL, n |-> InitN, c |-> InitC]
  ELSE LET p == Replay(k - 1)
           b == chain[k] IN
       [l |-> UpdL(p.l, k - 1, b.ver, b.ops), n |-> UpdN(p.n, k - 1, b.ver, b.ops), c |-> UpdC(p.c, k - 1, b.ver, b.ops)]
Canon == failed = "no" => [l |-> ldb, n |-> ndb, c |-> cdb] = Replay(NBlocks)

(* C03 under concurrency: a historical read that runs while blocks are stored / reverted above its
   block still answers for its block (holds with AtomicLegacyReads = TRUE; the code is FALSE) *)
SplitReadOK == rdone.on => rdone.val = TStor(rdone.a, rdone.s, rdone.m)

(* C03 / C04: a restart changes nothing a reader can see, wherever it occurs *)
RestartIsNoOp == [][act'.name = "Restart" => UNCHANGED <<chain, truth, roots, ldb, ndb, cdb, failed>>]_shvars

TypeOK ==
  /\ Len(truth) = NBlocks /\ Len(roots) = NBlocks
  /\ failed \in {"no", "h4", "nolog", "root", "missing"}
=============================================================================

\* exhaustive: one block of 0..3 transactions, all item shapes
CONSTANTS
  MaxBlocks = 1
  MaxSize = 3
  Lens = {1, 2}
  Kinds <- KindsTwo
  EvCounts = {0, 2}
  Revs = {TRUE, FALSE}
  LastItemRunsToEnd = TRUE
  TxSectionEndsAtReceipts = TRUE
  HashIndexExact = TRUE
  RevertDropsIndexes = TRUE
  MaxReverts = 0
  MemoFamilies = {}
  MemoPurged = TRUE
  FieldTable <- MCFieldTable
  VaryShapes = FALSE
  MaxClasses = 0
  CodecSlip = "none"
  SlipCodecs = {}
INIT Init
NEXT NextR
VIEW view
PROPERTIES RestartIsNoOp ReadIsNoOp
INVARIANTS ItemAccessors OutOfRange BlockAccessors ProjectionsAgree Layout Gone IndexesExact
CHECK_DEADLOCK FALSE

\* export of the per-field representation contract (the code as it is) for the replayer
CONSTANTS
  MaxBlocks = 1
  MaxSize = 1
  Lens = {1}
  Kinds <- KindsOne
  EvCounts = {2}
  Revs = {FALSE}
  LastItemRunsToEnd = TRUE
  TxSectionEndsAtReceipts = TRUE
  HashIndexExact = TRUE
  RevertDropsIndexes = TRUE
  MaxReverts = 0
  MemoFamilies = {}
  MemoPurged = TRUE
  FieldTable <- MCFieldTable
  VaryShapes = TRUE
  MaxClasses = 1
  CodecSlip = "none"
  SlipCodecs = {}
INIT ShapeInit
NEXT ShapeNext
CHECK_DEADLOCK FALSE

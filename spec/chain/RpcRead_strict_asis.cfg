\* the code as it is against the property WITHOUT exceptions: TLC must find the deviation
\* (used with expect_violation: shows the strict property is not vacuous and pins the switches)
CONSTANTS
  MaxLen = 2
  MaxReverts = 1
  Txs <- MCTxs
  FixTxIndexMissingBlock = FALSE
  FixZeroHashState = FALSE
  FixLegacyZeroWriteLog = FALSE
  LubZeroShortcut = FALSE
  NVar = 2
  Scenarios = {"base"}
  Leave = {}
  WithPreConfirmed = FALSE
INIT Init
NEXT Next
VIEW view
PROPERTIES ReadsAnswerFromChainStrict
CHECK_DEADLOCK FALSE

\* expected violation (residue switch n:decl, scenario "decl0"): new state: Revert leaves the class record (declaration height) of a class the block declared.
\* The repaired design otherwise; TLC must refute ReadsAnswerFromChainStrict with a read by number or hash on
\* the replacement chain; the counterexample (printed through MCRpcReadHist!TraceAlias) is replayed on the
\* real stack as a directed script in every run of checks/C08.py.
CONSTANTS
  MaxLen = 3
  MaxReverts = 1
  Txs <- MCTxs
  FixTxIndexMissingBlock = TRUE
  FixZeroHashState = TRUE
  FixLegacyZeroWriteLog = TRUE
  LubZeroShortcut = FALSE
  NVar = 3
  Scenarios = {"decl0"}
  Leave = {"n:decl"}
  WithPreConfirmed = FALSE
INIT Init
NEXT NextHist
VIEW view
PROPERTIES ReadsAnswerFromChainStrict
ALIAS TraceAlias
CHECK_DEADLOCK FALSE

\* thorough: W = 4 with a complete window in the base image (base 6), richer blocks and filters
CONSTANTS
  W = 4
  Base = 6
  MaxBlocks = 5
  MaxGraceful = 1
  BlockMenu <- BlocksAll
  FilterMenu <- FiltersMany
  AnyRange = TRUE
  PurgeAt <- PurgeAlways
  DropReopenedWindow = TRUE
  SnapshotConsumedOnLoad = TRUE
  ClearRevertedColumn = TRUE
INIT WInit
NEXT WNext
VIEW wview
INVARIANTS WTypeOK TwinSane DiskAsTwin RunningAsTwin AnswersAsTwin NextAsTwin CacheFresh PersistedComplete SnapshotCurrent
PROPERTIES WRestartIsNoOp CallsNeverFail
CHECK_DEADLOCK FALSE

\* a reader-level memo for every lookup family, dropped by every write: all properties hold
CONSTANTS
  MaxBlocks = 2
  MaxSize = 2
  Lens = {1}
  Kinds <- KindsOne
  EvCounts = {2}
  Revs = {FALSE}
  LastItemRunsToEnd = TRUE
  TxSectionEndsAtReceipts = TRUE
  HashIndexExact = TRUE
  RevertDropsIndexes = TRUE
  MaxReverts = 1
  MemoFamilies = {"loc", "num", "hdr", "blob", "su", "l1"}
  MemoPurged = TRUE
INIT Init
NEXT NextR
VIEW view
PROPERTIES RestartIsNoOp ReadIsNoOp
INVARIANTS ItemAccessors OutOfRange BlockAccessors ProjectionsAgree Layout Gone IndexesExact
CHECK_DEADLOCK FALSE

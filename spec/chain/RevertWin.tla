------------------------------- MODULE RevertWin -------------------------------
(* Property C04 (reverting the head exactly undoes a block; forks converge), the WINDOW dimension
   that Revert.tla leaves out ("all chains here stay inside one 8192-block window").

   The per-block event blooms are aggregated in windows of W blocks
   (core.NumBlocksPerFilter = 8192).  Storing block k*W + W - 1 completes a window: its aggregated
   filter is PERSISTED in the store batch and the in-memory running filter moves on to the next
   window.  Reverting that block must undo exactly that: RunningEventFilter.onReorg re-loads the
   persisted filter into memory, clears the reverted block's column and DELETES the persisted copy
   in the revert batch; Blockchain.RevertHead purges the LRU cache of persisted windows that event
   queries have warmed.  Revert is a hand-written inverse of Store here as well, and it has two
   pieces of state that a plain Store never leaves behind (a cache entry, a persisted window above
   the head) - so "a node that followed fork A, reverted and followed fork B is indistinguishable
   from a node that followed B directly" has content of its own at a window boundary.

   Code modelled (transcribed like spec/chain/Events.tla, C09's model of the same code; C09 states
   that every answer is the naive scan - here the statement is C04's own, the TWIN equality):
     core/running_event_filter.go     insert / onReorg / Write, InitializeRunningEventFilter
                                      (snapshot as is / same-window fill / rebuild), lazy ensureInit
     blockchain/blockchain.go         Store, RevertHead (cache purge), EventFilter
     blockchain/aggregated_bloom_filter_cache.go   per window: running window, else LRU cache, else
                                      the persisted window (which is then cached)

   State of the node = what is on disk (chain, persisted windows, shutdown snapshot) and what the
   process holds (running filter - lazily initialised -, cache).  A block is its content (sequence of
   transactions of events), a bloom filter is the exact set of its atoms, a window filter the sparse
   set of <<block, atom>> pairs: W = 8192 costs the same as W = 3.  Blocks 0..Base-1 are the
   pre-existing empty blocks of the replay harness's base image and are never reverted.

   The twin.  Every transition is a FUNCTION on node records (StoreF, RevertF, RestartF, QueryF), so
   "a node that followed the current chain directly" is a term: TwinOf(chain) = the fold of StoreF
   over the chain from the base image.  The properties compare the node with that term:
     DiskAsTwin      the persisted windows are the twin's (database dump equality; the shutdown
                     snapshot is process-lifecycle data and is left out, as in the replay)
     RunningAsTwin   once initialised the running filter is the twin's (generalises FilterCoversChain)
     AnswersAsTwin   every event query (filter x range) is answered as the twin answers it
     NextAsTwin      the node accepts whatever the twin accepts next: every Store, and RevertHead
     CacheFresh      a cached window is the twin's persisted window (internal; implies AnswersAsTwin's
                     cache half)
     WRestartIsNoOp  a restart changes nothing on disk but the snapshot

   Mechanisms that can fail (each has an expected-violation configuration):
     PurgeAt                 offsets (reverted block number % W) at which RevertHead purges the cache;
                             the code purges always (0..W-1); {W-1} is the least that is correct;
                             {0} is "purge when the revert steps back across a boundary" read from
                             the wrong side; {} never
     DropReopenedWindow      onReorg deletes the persisted filter of the window it re-opens
     SnapshotConsumedOnLoad  the initialisation deletes the snapshot it has read
     ClearRevertedColumn     onReorg clears the reverted block's column (also in a window it re-opens)
   The four together are a "mechanism" record; every transition function takes the mechanism as its
   first argument (StoreM, RevertM, ...; StoreF etc. are the instances for the configured one), so
   that RevertWinMBT.tla can run alternative mechanisms next to the configured one on the same
   calls and tell which behaviours distinguish them. *)
EXTENDS Integers, Sequences, FiniteSets, TLC

CONSTANTS W,            \* blocks per window (real: 8192)
          Base,         \* pre-existing empty blocks 0..Base-1; Base >= 1
          MaxBlocks,    \* bound on modelled blocks above Base
          MaxGraceful,  \* bound on graceful stops
          BlockMenu,    \* block contents a Store may choose
          FilterMenu,   \* filters a Query may choose
          AnyRange,     \* TRUE: queries over every sub-range that touches the modelled blocks; FALSE: full range
          PurgeAt,
          DropReopenedWindow,
          SnapshotConsumedOnLoad,
          ClearRevertedColumn

VARIABLES chain,      \* disk: modelled blocks; block number Base + i - 1 is chain[i]
          pers,       \* disk: window index -> set of <<block, atom>>
          snap,       \* disk: [ok, from, next, bits]
          run,        \* memory: [ok, from, next, bits]   (ok = initialised)
          cache,      \* memory: window index -> bits
          gstops,
          act, res    \* output only

wvars == <<chain, pers, snap, run, cache, gstops, act, res>>
wview == <<chain, pers, snap, run, cache, gstops>>

--------------------------------------------------------------------------
Max(S) == CHOOSE x \in S : \A y \in S : y <= x
Min2(a, b) == IF a <= b THEN a ELSE b
EmptyF == [x \in {} |-> {}]
Put(f, k, v) == [x \in (DOMAIN f) \cup {k} |-> IF x = k THEN v ELSE f[x]]
Del(f, k) == [x \in (DOMAIN f) \ {k} |-> f[x]]
Range(s) == {s[i] : i \in 1..Len(s)}

AddrAtom(a) == <<"a", 0, a>>
KeyAtom(p, k) == <<"k", p, k>>

RECURSIVE FlatFrom(_, _)
FlatFrom(blk, t) ==
  IF t > Len(blk) THEN <<>>
  ELSE [i \in 1..Len(blk[t]) |-> [t |-> t - 1, i |-> i - 1, e |-> blk[t][i]]] \o FlatFrom(blk, t + 1)
Flat(blk) == FlatFrom(blk, 1)

EventAtoms(e) == {AddrAtom(e.a)} \cup {KeyAtom(p - 1, e.k[p]) : p \in 1..Len(e.k)}
Atoms(blk) == UNION {EventAtoms(x.e) : x \in Range(Flat(blk))}

HeightOf(ch) == Base + Len(ch) - 1
BlockOf(ch, b) == IF b < Base THEN <<>> ELSE ch[b - Base + 1]

Col(bits, b) == {x[2] : x \in {y \in bits : y[1] = b}}
ClearCol(bits, b) == {y \in bits : y[1] # b}

MatchEvent(f, e) ==
  /\ f.addrs = {} \/ e.a \in f.addrs
  /\ Len(e.k) >= Len(f.keys)
  /\ \A p \in 1..Len(f.keys) : f.keys[p] = {} \/ e.k[p] \in f.keys[p]
MayMatch(f, col) ==
  /\ f.addrs = {} \/ \E a \in f.addrs : AddrAtom(a) \in col
  /\ \A p \in 1..Len(f.keys) : f.keys[p] = {} \/ \E k \in f.keys[p] : KeyAtom(p - 1, k) \in col
IsMatchAll(f) == f.addrs = {} /\ \A p \in 1..Len(f.keys) : f.keys[p] = {}

--------------------------------------------------------------------------
(* node records *)
NoSnap == [ok |-> FALSE, from |-> 0, next |-> 0, bits |-> {}]
Lazy == [ok |-> FALSE, from |-> 0, next |-> 0, bits |-> {}]
Hot(r) == [ok |-> TRUE, from |-> r.from, next |-> r.next, bits |-> r.bits]

BaseWindows == {w \in 0..(Base \div W) : (w + 1) * W <= Base}
InitNode == [chain |-> <<>>, pers |-> [w \in BaseWindows |-> {}], snap |-> NoSnap, run |-> Lazy, cache |-> EmptyF]
Node == [chain |-> chain, pers |-> pers, snap |-> snap, run |-> run, cache |-> cache]

(* RunningEventFilter.insert for an in-range block *)
InsertBits(r, p, n, atoms) ==
  LET bits2 == r.bits \cup {<<n, a>> : a \in atoms} IN
  IF n = r.from + W - 1
  THEN [r |-> [from |-> n + 1, next |-> n + 1, bits |-> {}], p |-> Put(p, r.from \div W, bits2)]
  ELSE [r |-> [from |-> r.from, next |-> n + 1, bits |-> bits2], p |-> p]

RECURSIVE FillFrom(_, _, _, _)
FillFrom(ch, r, p, n) ==
  IF n > HeightOf(ch) THEN [r |-> r, p |-> p]
  ELSE LET x == InsertBits(r, p, n, Atoms(BlockOf(ch, n))) IN FillFrom(ch, x.r, x.p, n + 1)

(* rebuildRunningEventFilter: anchor on the most recent persisted window at or below the head's
   window, fill forward.  The empty base blocks are skipped in closed form. *)
Rebuild(ch, p) ==
  LET wl == HeightOf(ch) \div W
      cand == {w \in DOMAIN p : w <= wl}
      cf == IF cand = {} THEN 0 ELSE (Max(cand) + 1) * W IN
  IF cf >= Base
  THEN FillFrom(ch, [from |-> cf, next |-> cf, bits |-> {}], p, cf)
  ELSE LET full == {w \in (cf \div W)..(Base \div W) : (w + 1) * W <= Base}
           p2 == [w \in (DOMAIN p) \cup full |-> IF w \in full THEN {} ELSE p[w]] IN
       FillFrom(ch, [from |-> (Base \div W) * W, next |-> Base, bits |-> {}], p2, Base)

(* core.InitializeRunningEventFilter *)
InitFromDisk(ch, p, s) ==
  LET h == HeightOf(ch)
      sr == [from |-> s.from, next |-> s.next, bits |-> s.bits] IN
  IF s.ok /\ s.next = h + 1 THEN [r |-> sr, p |-> p]
  ELSE IF s.ok /\ s.next <= h /\ h <= s.from + W - 1 THEN FillFrom(ch, sr, p, s.next)
  ELSE Rebuild(ch, p)

(* ensureInit: the first call that touches the filter initialises it from the disk; the
   initialisation may write (a fill that completes a window; the consumed snapshot) *)
Mech == [purge |-> PurgeAt, drop |-> DropReopenedWindow, consume |-> SnapshotConsumedOnLoad, clear |-> ClearRevertedColumn]

TouchM(m, N) ==
  IF N.run.ok THEN N
  ELSE LET x == InitFromDisk(N.chain, N.pers, N.snap) IN
       [N EXCEPT !.run = Hot(x.r), !.pers = x.p,
                 !.snap = IF m.consume THEN NoSnap ELSE @]

(* Blockchain.Store *)
StoreM(m, N, blk) ==
  LET T == TouchM(m, N)
      n == HeightOf(T.chain) + 1
      r == T.run IN
  IF n < r.from \/ n > r.from + W - 1 THEN [N |-> T, ok |-> FALSE]
  ELSE LET x == InsertBits(r, T.pers, n, Atoms(blk)) IN
       [N |-> [T EXCEPT !.chain = Append(@, blk), !.run = Hot(x.r), !.pers = x.p], ok |-> TRUE]

(* Blockchain.RevertHead: onReorg works from the filter's own `next` *)
RevertM(m, N) ==
  LET T == TouchM(m, N)
      r == T.run
      p == T.pers
      cur == r.next - 1
      h == HeightOf(T.chain)
      purged == IF (h % W) \in m.purge THEN EmptyF ELSE T.cache
      shorter == SubSeq(T.chain, 1, Len(T.chain) - 1) IN
  IF r.from >= 1 /\ cur = r.from - 1
  THEN LET wp == cur \div W IN
       IF wp \notin DOMAIN p THEN [N |-> T, ok |-> FALSE]
       ELSE [N |-> [T EXCEPT !.chain = shorter,
                             !.run = Hot([from |-> wp * W, next |-> cur,
                                          bits |-> IF m.clear THEN ClearCol(p[wp], cur) ELSE p[wp]]),
                             !.pers = IF m.drop THEN Del(p, wp) ELSE p,
                             !.cache = purged],
             ok |-> TRUE]
  ELSE IF cur < r.from \/ cur > r.from + W - 1 THEN [N |-> T, ok |-> FALSE]
  ELSE [N |-> [T EXCEPT !.chain = shorter, !.run = Hot([r EXCEPT !.next = cur, !.bits = IF m.clear THEN ClearCol(@, cur) ELSE @]),
                        !.cache = purged],
        ok |-> TRUE]

(* a new process on the same database; graceful = WriteRunningEventFilter first *)
RestartM(m, N, g) ==
  LET T == IF g THEN TouchM(m, N) ELSE N IN
  [T EXCEPT !.snap = IF g THEN [ok |-> TRUE, from |-> T.run.from, next |-> T.run.next, bits |-> T.run.bits] ELSE @,
            !.run = Lazy, !.cache = EmptyF]

(* the candidate source of window w *)
Missing == {<<-1, <<"missing", 0, "">>>>}
SrcOf(T, w) ==
  IF w * W = T.run.from THEN T.run.bits
  ELSE IF w \in DOMAIN T.cache THEN T.cache[w]
  ELSE IF w \in DOMAIN T.pers THEN T.pers[w]
  ELSE Missing

RECURSIVE ScanFrom(_, _, _, _)
ScanFrom(T, f, b, hi) ==
  IF b > hi THEN <<>>
  ELSE LET src == SrcOf(T, b \div W)
           evs == Flat(BlockOf(T.chain, b))
           hit == IF IsMatchAll(f) \/ MayMatch(f, Col(src, b))
                  THEN SelectSeq(evs, LAMBDA x : MatchEvent(f, x.e)) ELSE <<>> IN
       [j \in 1..Len(hit) |-> [b |-> b, t |-> hit[j].t, i |-> hit[j].i]] \o ScanFrom(T, f, b + 1, hi)

(* Blockchain.EventFilter + SetRangeEnd... + Events to exhaustion: every window of the range is
   loaded in turn; a window found nowhere is an error.  Paging is C09's business. *)
QueryM(m, N, f, from, to) ==
  LET hi == Min2(to, HeightOf(N.chain))
      touched == from <= hi
      T == IF touched THEN TouchM(m, N) ELSE N
      wins == IF touched THEN (from \div W)..(hi \div W) ELSE {}
      bad == {w \in wins : SrcOf(T, w) = Missing}
      loaded == IF bad = {} THEN wins ELSE {w \in wins : \A x \in bad : w < x}
      fresh == {w \in loaded : w * W # T.run.from /\ w \notin DOMAIN T.cache}
      lo == IF from < Base THEN Base ELSE from IN      \* the base blocks are empty
  [N |-> [T EXCEPT !.cache = [w \in (DOMAIN T.cache) \cup fresh |-> IF w \in DOMAIN T.cache THEN T.cache[w] ELSE T.pers[w]]],
   ok |-> bad = {},
   ev |-> IF bad = {} /\ touched THEN ScanFrom(T, f, lo, hi) ELSE <<>>]

(* every filter of a menu over the whole chain, one query after the other *)
SweepM(m, N, menu) ==
  LET T == QueryM(m, N, CHOOSE f \in menu : TRUE, 0, HeightOf(N.chain)).N IN
  [N |-> T, evs |-> {[f |-> f, ev |-> QueryM(m, T, f, 0, HeightOf(N.chain)).ev] : f \in menu}]

(* the configured mechanism *)
Touch(N) == TouchM(Mech, N)
StoreF(N, blk) == StoreM(Mech, N, blk)
RevertF(N) == RevertM(Mech, N)
RestartF(N, g) == RestartM(Mech, N, g)
QueryF(N, f, from, to) == QueryM(Mech, N, f, from, to)

--------------------------------------------------------------------------
Height == HeightOf(chain)

Set(N) == chain' = N.chain /\ pers' = N.pers /\ snap' = N.snap /\ run' = N.run /\ cache' = N.cache
OkOf(b) == IF b THEN "ok" ELSE "err"

WInit ==
  /\ chain = InitNode.chain /\ pers = InitNode.pers /\ snap = InitNode.snap
  /\ run = InitNode.run /\ cache = InitNode.cache
  /\ gstops = 0 /\ act = [name |-> "Init"] /\ res = [kind |-> "ok"]

Store(blk) ==
  /\ Len(chain) < MaxBlocks
  /\ LET x == StoreF(Node, blk) IN Set(x.N) /\ res' = [kind |-> OkOf(x.ok)]
  /\ act' = [name |-> "Store", blk |-> blk]
  /\ UNCHANGED gstops

Revert ==
  /\ Len(chain) > 0
  /\ LET x == RevertF(Node) IN Set(x.N) /\ res' = [kind |-> OkOf(x.ok)]
  /\ act' = [name |-> "Revert"]
  /\ UNCHANGED gstops

Restart(g) ==
  /\ g => gstops < MaxGraceful
  /\ Set(RestartF(Node, g))
  /\ gstops' = IF g THEN gstops + 1 ELSE gstops
  /\ act' = [name |-> "Restart", graceful |-> g]
  /\ res' = [kind |-> "ok"]

Query(f, from, to) ==
  /\ LET x == QueryF(Node, f, from, to) IN Set(x.N) /\ res' = [kind |-> OkOf(x.ok), ev |-> x.ev]
  /\ act' = [name |-> "Query", f |-> f, from |-> from, to |-> to]
  /\ UNCHANGED gstops

(* every filter of the menu over the whole chain: what the replay does when it sweeps a node *)
Sweep ==
  /\ LET x == SweepM(Mech, Node, FilterMenu) IN Set(x.N) /\ res' = [kind |-> "ok", evs |-> x.evs]
  /\ act' = [name |-> "Sweep"]
  /\ UNCHANGED gstops

(* AnyRange: the ranges that differ in the windows they load or in the side of a boundary they end
   on - from 0, a window start or the head; to a window end, the head or above it *)
Froms == IF AnyRange THEN {0, Height} \cup {b \in Base..Height : b % W = 0} ELSE {0}
Tos(from) == IF AnyRange THEN {t \in (Base - 1)..(Height + 1) : t >= from /\ (t >= Height \/ t % W = W - 1)} ELSE {Height}

WNext ==
  \/ \E blk \in BlockMenu : Store(blk)
  \/ Revert
  \/ \E g \in BOOLEAN : Restart(g)
  \/ \E f \in FilterMenu, from \in Froms : \E to \in Tos(from) : Query(f, from, to)

WSpec == WInit /\ [][WNext]_wvars

--------------------------------------------------------------------------
(* the twin: a node that stored the current chain directly on the base image *)
RECURSIVE TwinOf(_)
TwinOf(ch) == IF Len(ch) = 0 THEN InitNode ELSE StoreF(TwinOf(SubSeq(ch, 1, Len(ch) - 1)), ch[Len(ch)]).N
Twin == TwinOf(chain)

(* a node that follows a chain directly never has a block refused (sanity of the twin itself) *)
RECURSIVE TwinStoresAll(_)
TwinStoresAll(ch) ==
  Len(ch) = 0 \/ (TwinStoresAll(SubSeq(ch, 1, Len(ch) - 1)) /\ StoreF(TwinOf(SubSeq(ch, 1, Len(ch) - 1)), ch[Len(ch)]).ok)
TwinSane == TwinStoresAll(chain) /\ LET tw == Twin IN \A blk \in BlockMenu : StoreF(tw, blk).ok

DiskAsTwin == pers = Twin.pers

RunningAsTwin ==
  LET tw == Twin
      a == Touch(Node)
      b == Touch(tw) IN a.run = b.run /\ a.pers = tw.pers

AllRanges == {<<0, Height>>} \cup {<<from, to>> : from \in {0} \cup (Base..Height), to \in (Base - 1)..(Height + 1)}
AnswersAsTwin ==
  LET tw == Touch(Twin)          \* (a query that touches nothing returns nothing on either node)
      nd == Touch(Node) IN
  \A f \in FilterMenu : \A rg \in AllRanges :
     LET a == QueryF(nd, f, rg[1], rg[2])
         b == QueryF(tw, f, rg[1], rg[2]) IN a.ok = b.ok /\ a.ev = b.ev

NextAsTwin ==
  /\ \A blk \in BlockMenu : StoreF(Node, blk).ok
  /\ Len(chain) > 0 => RevertF(Node).ok

CacheFresh == cache = EmptyF \/ LET tw == Twin IN \A w \in DOMAIN cache : w \in DOMAIN tw.pers /\ cache[w] = tw.pers[w]

(* when a window is persisted it is complete, and the snapshot - when one exists - is the current filter *)
PersistedComplete == \A w \in DOMAIN pers : (w + 1) * W - 1 <= Height
SnapshotCurrent == snap.ok => (snap.next = Height + 1 /\ [from |-> snap.from, next |-> snap.next, bits |-> snap.bits]
                                  = LET r == Touch(Twin).run IN [from |-> r.from, next |-> r.next, bits |-> r.bits])

WRestartIsNoOp == [][act'.name = "Restart" => UNCHANGED <<chain, pers>>]_wvars
CallsNeverFail == [][res'.kind = "ok"]_wvars

WTypeOK ==
  /\ Len(chain) <= MaxBlocks
  /\ gstops \in 0..MaxGraceful
  /\ run.ok => run.from % W = 0
=============================================================================

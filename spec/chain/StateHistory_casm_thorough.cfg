\* two Sierra classes across the 0.14.1 switch, <= 4 blocks, diffs of <= 2 entries
\* measured: 234 630 distinct states, ~2-3 min on 4 workers
CONSTANTS
  Users = {"c1"}
  Sys = {}
  Slots = {"s1"}
  MaxV = 1
  Cairo0 = {}
  Sierra = {"k1", "k2"}
  TxIds = {}
  L1Txs = {}
  MaxBlocks = 4
  MaxOps = 2
  MaxTxs = 0
  Vers = {0, 1}
  FixH4 = TRUE
  SysZeroWrites = FALSE
  SplitReads = FALSE
  AtomicLegacyReads = TRUE
INIT Init
NEXT Next
VIEW shview
INVARIANTS TypeOK RevertNeverFails ReadsAgree HeadAgrees NoOrphanLogs Canon
PROPERTIES RestartIsNoOp
CHECK_DEADLOCK FALSE

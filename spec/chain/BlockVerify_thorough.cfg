\* exhaustive: chain length <= 3, 2 competing variants per head, 2 blocks verified ahead,
\* every (position, version, committed field) tamper and every non-continuing / wrong-root offer.
\* measured: see evidence (states / transitions are recorded by the check on every run)
CONSTANTS
  Versions <- MCVersions
  Committed <- MCCommitted
  TxFields <- MCTxFields
  SdFields <- MCSdFields
  SuFields <- MCSuFields
  MaxLen = 3
  Variants = 2
  MaxPending = 2
  SuccessionChecked = TRUE
  RootChecked = TRUE
  TxHashesChecked = TRUE
  WriteBeforeChecks = FALSE
INIT Init
NEXT Next
VIEW view
INVARIANTS TypeOK StoredChainValid StateIsChain DbConsistent
PROPERTIES AcceptedOnlyIfValid RejectedUnchanged TamperRejected ValidAccepted PendingStoredIffContinues
CHECK_DEADLOCK FALSE

\* repaired design (all switches TRUE), exhaustive, larger menus: three block contents, three
\* filters, chunk sizes {1, 100}, scan limits {0, 1}; reorgs across two window boundaries (W = 4,
\* blocks 2..7), cache warming, up to two graceful stops
\* measured: 14 198 distinct / 219 842 generated states, depth 12
CONSTANTS
  W = 4
  Base = 2
  MaxBlocks = 6
  MaxGraceful = 2
  BlockMenu <- BlocksSmall
  FilterMenu <- FiltersSmall
  Chunks = {1, 100}
  Limits = {0, 1}
  RangeSlack <- FullRangeOnly
  InvalidateCacheOnReorg = TRUE
  SnapshotConsumedOnLoad = TRUE
  DropReopenedWindow = TRUE
INIT Init
NEXT Next
VIEW view
INVARIANTS TypeOK NoFalseNegative RunningInSync PersistedComplete
PROPERTIES QueryExact IndexNeverBlocksChain
CHECK_DEADLOCK FALSE

\* exhaustive, the code as it is: chains of <= 4 blocks, <= 2 reverts
\* measured: 4 476 distinct states, 2 097 387 transitions, depth 10, ~3.5 min on 4 workers
CONSTANTS
  MaxLen = 4
  MaxReverts = 2
  Txs <- MCTxs
  FixTxIndexMissingBlock = FALSE
  FixZeroHashState = FALSE
  WithPreConfirmed = TRUE
INIT Init
NEXT Next
VIEW view
INVARIANTS TypeOK IndexesDescribeChain
PROPERTIES ReadsAnswerFromChain RevertedNotFound FinalityFromL1Head L1AcceptedClamped ReadsArePure RestartIsNoOp InFlightAnswersFromAHeldChain
CHECK_DEADLOCK FALSE

\* exhaustive, the code as it is: chains of <= 4 blocks, <= 2 reverts
\* measured: 5 222 distinct states, 5 888 221 transitions (2 833 519 before the response-flag dimension), depth 8, ~5-7 min on 4 workers
CONSTANTS
  MaxLen = 4
  MaxReverts = 2
  Txs <- MCTxs
  FixTxIndexMissingBlock = FALSE
  FixZeroHashState = FALSE
  FixLegacyZeroWriteLog = FALSE
  LubZeroShortcut = FALSE
  NVar = 2
  Scenarios = {"base"}
  Leave = {}
  WithPreConfirmed = TRUE
INIT Init
NEXT Next
VIEW view
INVARIANTS TypeOK IndexesDescribeChain
PROPERTIES ReadsAnswerFromChain RevertedNotFound FinalityFromL1Head L1AcceptedClamped ReadsArePure RestartIsNoOp InFlightAnswersFromAHeldChain FlagsOnlyAdd LastUpdateWithinChain
CHECK_DEADLOCK FALSE

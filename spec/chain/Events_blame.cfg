\* the model of the code AS IT IS (all switches FALSE), exhaustive: every false negative it can
\* produce is attributed to one of the three known causes (stale cache / stale snapshot / stale
\* persisted window); checks/C09.py also runs it with a single switch FALSE and the matching
\* Only*ToBlame property.  (NoFalseNegative / QueryExact are violated here by construction.)
\* measured (all FALSE): 80 602 distinct / 353 831 generated states, depth 26; one switch FALSE: 775 / 7 528 / 1 191 distinct
CONSTANTS
  W = 2
  Base = 1
  MaxBlocks = 4
  MaxGraceful = 1
  BlockMenu <- BlocksMin
  FilterMenu <- FiltersMin
  Chunks = {2}
  Limits = {0}
  RangeSlack <- FullRangeOnly
  InvalidateCacheOnReorg = FALSE
  SnapshotConsumedOnLoad = FALSE
  DropReopenedWindow = FALSE
INIT Init
NEXT Next
VIEW view
INVARIANTS TypeOK
PROPERTIES NothingUnexplained
CHECK_DEADLOCK FALSE

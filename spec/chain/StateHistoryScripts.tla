--------------------------- MODULE StateHistoryScripts ---------------------------
(* Directed behaviours for the replayer (engines/statehist), replayed in EVERY run on both state
   backends: the family is derived from the minimal counterexamples TLC finds for the mutants
   StateHistory_x_keep_*.cfg ("RevertHead leaves the entry of kind K behind").  Those have four
   shapes, with K a block at height n whose diff holds one entry kind of the alphabet:

     nontouch   K at n ; revert n ; replacement blocks that do NOT touch K's key          (new: zero
                write, replaced class, class record, contract record; CASM metadata; legacy
                deployment height) - the shape of C03-8
     touch      K at n ; revert n ; a replacement that re-creates the contract / class without K's
                entry, or writes K's key with another value; reverted as well             (new: nonce
                and storage entries written together with a deployment)
     deep       K at n ; revert n ; revert n-1 ; a replacement n-1 that gives K's key ANOTHER prior
                value ; replacement n that does not touch it     (every legacy log - it holds the value
                of block n-1 -, new: same-value rewrite, class hash logged at a deployment)
     lower      K at n ; revert n ; revert n-1 ; K's diff stored again at height n-1, below the
                leftover                                                                  (legacy logs)

   Every script is  establish (blocks 0, 1) ; K (block 2) ; one of the tails ; and ends with a later
   block that rewrites K's key and the revert of that block (a leftover also corrupts the reverse
   diff).  After every step the engine reads every (block, contract, slot / nonce / class hash /
   class / CASM hash) by number and by hash and at the head, re-reads the readers it held from
   before the revert, and compares the raw history buckets with `enc`.

   The module is a deterministic machine: script after script, step after step; each finished
   script is printed like a simulated behaviour (StateHistoryMBT.Emit).  ScriptOK (an invariant of
   the generating run) says every scripted call is enabled.  The kill matrix is checked by TLC:
   StateHistory_scripts_x.cfg with RevertKeeps <- Keep_... must violate ReadsAgree for every kind. *)
EXTENDS StateHistoryMBT

VARIABLES sidx, pc
svars == <<mbtvars, sidx, pc>>

Ap(d, ver) == [name |-> "Apply", ops |-> d, ver |-> ver]
Rv == [name |-> "Revert"]
Rs(g) == [name |-> "Restart", graceful |-> g]

(* establish: block 0 declares and deploys, block 1 gives every key K may be about a first value *)
E0 == Ap({ODecl("k0"), ODecl("k1"), ODep("c1", "k0"), OStor("sys1", "s1", 1)}, 0)
E1 == Ap({OStor("c1", "s1", 1), ONonce("c1", 1), OStor("sys1", "s2", 1)}, 0)
(* the other prior value of the deep tail: block 1 of the replacement branch *)
E1x == Ap({OStor("c1", "s1", 3), ONonce("c1", 3), ORep("c1", "k1"), OStor("sys1", "s1", 3), OStor("sys1", "s2", 3),
           ODep("c2", "k1"), ODecl("k2")}, 0)
(* blocks that touch none of the keys below: a neighbour slot (the slots share a 250-bit prefix) *)
Other == {OStor("c1", "s3", 2)}

(* kind: the diff K, its protocol version, a replacement touching the same key, a later rewrite.
   `deepok`: K's diff is also valid on top of E1x (the deep tail stores it there as well) *)
Kind(name, d, ver, touch, rewrite) == [name |-> name, d |-> d, ver |-> ver, touch |-> touch, rewrite |-> rewrite]
KindTable == <<
  Kind("stor0",     {OStor("c1", "s1", 0)},  0, {OStor("c1", "s1", 2)},  {OStor("c1", "s1", 3)}),
  Kind("storsame",  {OStor("c1", "s1", 1)},  0, {OStor("c1", "s1", 2)},  {OStor("c1", "s1", 3)}),
  Kind("stor",      {OStor("c1", "s1", 2)},  0, {OStor("c1", "s1", 0)},  {OStor("c1", "s1", 3)}),
  Kind("stor00",    {OStor("c1", "s2", 0)},  0, {OStor("c1", "s2", 2)},  {OStor("c1", "s2", 3)}),
  Kind("storfirst", {OStor("c1", "s2", 2)},  0, {OStor("c1", "s2", 0)},  {OStor("c1", "s2", 3)}),
  Kind("nonce",     {ONonce("c1", 2)},       0, {ONonce("c1", 3)},       {ONonce("c1", 0)}),
  Kind("noncesame", {ONonce("c1", 1)},       0, {ONonce("c1", 2)},       {ONonce("c1", 3)}),
  Kind("nonce0",    {ONonce("c1", 0)},       0, {ONonce("c1", 2)},       {ONonce("c1", 3)}),
  Kind("rep",       {ORep("c1", "k1")},      0, {ORep("c1", "k0")},      {ORep("c1", "k1")}),
  Kind("repsame",   {ORep("c1", "k0")},      0, {ORep("c1", "k1")},      {ORep("c1", "k1")}),
  Kind("dep",       {ODep("c2", "k0")},      0, {ODep("c2", "k1")},      {ODep("c2", "k1")}),
  Kind("depfull",   {ODep("c2", "k0"), OStor("c2", "s1", 2), ONonce("c2", 1)}, 0, {ODep("c2", "k1")}, {ODep("c2", "k1"), OStor("c2", "s2", 1)}),
  Kind("decl0",     {ODecl("k0b")},          0, {ODecl("k0b"), ODep("c2", "k0b")}, {ODecl("k0b")}),
  Kind("decl1",     {ODecl("k2")},           0, {ODecl("k2"), ODep("c2", "k2")},   {ODecl("k2")}),
  Kind("decl2",     {ODecl("k2")},           1, {ODecl("k2"), ODep("c2", "k2")},   {ODecl("k2")}),
  Kind("decldep",   {ODecl("k2"), ODep("c2", "k2")}, 0, {ODecl("k2")},   {ODep("c2", "k0")}),
  Kind("mig",       {OMig("k1")},            1, {OMig("k1"), ORep("c1", "k1")},    {OMig("k1")}),
  Kind("sys",       {OStor("sys1", "s1", 2)}, 0, {OStor("sys1", "s1", 3)}, {OStor("sys1", "s1", 2)}),
  Kind("syssame",   {OStor("sys1", "s1", 1)}, 0, {OStor("sys1", "s1", 3)}, {OStor("sys1", "s1", 2)}),
  Kind("sysnew",    {OStor("sys2", "s1", 1)}, 0, {OStor("sys2", "s2", 2)}, {OStor("sys2", "s1", 3)}),
  Kind("mixed",     {OStor("c1", "s1", 0), ONonce("c1", 2), ORep("c1", "k1"), ODecl("k2"), ODep("c2", "k2"), OStor("sys1", "s1", 2)}, 0,
                    {OStor("c1", "s1", 2), ODecl("k2")},
                    {OStor("c1", "s1", 3), ONonce("c1", 3), ORep("c1", "k1"), OStor("sys1", "s1", 3)})
>>

(* the replacement of block 1 in the deep tail: another prior value for K's key.  Kinds that declare k2
   or deploy c2 get the variant that leaves those to K's rewrite - except the deployments themselves:
   there the replacement branch deploys c2 EARLIER and with another class (the leftover class-hash
   entry at n then lies above the new deployment height), and the later rewrite replaces the class *)
E1y == Ap({OStor("c1", "s1", 3), ONonce("c1", 3), ORep("c1", "k1"), OStor("sys1", "s1", 3), OStor("sys1", "s2", 3)}, 0)
DeepPrior(k) == IF k.name \in {"decl1", "decl2", "decldep", "mixed"} THEN E1y ELSE E1x
DeepRewrite(k) == IF k.name \in {"dep", "depfull"} THEN {ORep("c2", "k0"), OStor("c2", "s1", 1), ONonce("c2", 2)} ELSE k.rewrite

(* the tails; v = K's protocol version (versions never decrease along a chain) *)
Tails(k) ==
  LET K == Ap(k.d, k.ver)
      O(v) == Ap(Other, v)
      N(v) == Ap({}, v)
      W(v) == Ap(k.rewrite, v)
  IN <<
    [tail |-> "nontouch", steps |-> <<E0, E1, K, Rv, N(0), O(0), W(k.ver), Rv, N(0)>>],
    [tail |-> "touch",    steps |-> <<E0, E1, K, Rv, Ap(k.touch, k.ver), O(k.ver), Rv, Rv, O(0), W(k.ver), Rv>>],
    [tail |-> "deep",     steps |-> <<E0, E1, K, Rv, Rv, DeepPrior(k), O(0), N(0), Ap(DeepRewrite(k), k.ver), Rv>>],
    [tail |-> "lower",    steps |-> <<E0, E1, K, Rv, Rv, K, O(k.ver), N(k.ver), Rv, Rv, Rv, N(0)>>],
    [tail |-> "restart",  steps |-> <<E0, E1, K, Rs(FALSE), Rv, Rs(TRUE), O(0), N(0), Rs(FALSE), W(k.ver), Rv>>]
  >>

Scripts ==
  LET nk == Len(KindTable)
      nt == 5 IN
  [i \in 1..(nk * nt) |->
     LET k == KindTable[((i - 1) \div nt) + 1]
         t == Tails(k)[((i - 1) % nt) + 1] IN
     [name |-> k.name \o "/" \o t.tail, steps |-> t.steps]]

NScripts == Len(Scripts)
Running == sidx <= NScripts /\ pc <= Len(Scripts[sidx].steps) /\ failed = "no"
Cur == Scripts[sidx].steps[pc]

SInit == MBTInit /\ sidx = 1 /\ pc = 1

SStep ==
  /\ Running
  /\ LET a == Cur IN
     CASE a.name = "Apply"   -> RApply(a.ops, a.ver, <<>>) /\ rvd' = rvd
       [] a.name = "Revert"  -> RRevert /\ rvd' = rvd
       [] a.name = "Restart" -> RRestart(a.graceful) /\ rvd' = rvd
  /\ steps' = steps + 1
  /\ hist' = Append(hist, [a |-> act', res |-> res', truth |-> truth', idx |-> IdxProj, enc |-> EncProj,
                           script |-> Scripts[sidx].name])
  /\ pc' = pc + 1 /\ UNCHANGED sidx

SEmit ==
  /\ sidx <= NScripts /\ ~Running
  /\ Emit
  /\ sidx' = sidx + 1 /\ pc' = 1

SDone == sidx > NScripts /\ UNCHANGED svars

SNext == SStep \/ SEmit \/ SDone

(* every scripted call is enabled (checked while generating; a script that is not a behaviour of
   the specification would silently end early otherwise) *)
ScriptOK ==
  Running =>
    LET a == Cur IN
    CASE a.name = "Apply"  -> NBlocks < MaxBlocks /\ a.ver \in Vers /\ a.ver >= HeadVer /\ Valid(CurT, a.ver, a.ops)
      [] a.name = "Revert" -> NBlocks > 0
      [] OTHER -> TRUE
=============================================================================

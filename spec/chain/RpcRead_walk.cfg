\* directed scripts (tlc -simulate on a deterministic machine, RpcReadMBT!WalkNext): per section scenario the
\* setup block and a depth-first walk over every chain of <= 3 blocks (25 mutators), 2 reads of the section's
\* observers after each; -depth 760 prints the 10 scripts once
CONSTANTS
  MaxLen = 3
  MaxReverts = 1000
  MaxSteps = 0
  ProbesPerOp = 2
  Txs <- MCTxs
  FixTxIndexMissingBlock = FALSE
  FixZeroHashState = FALSE
  FixLegacyZeroWriteLog = FALSE
  LubZeroShortcut = FALSE
  NVar = 3
  Scenarios = {"stor", "clear", "zz", "nonce", "repl", "deploy", "depacc", "decl0", "decl1", "mig"}
  Leave = {}
  WithPreConfirmed = FALSE
INIT WalkInit
NEXT WalkNext
CHECK_DEADLOCK FALSE

\* expected violation: onReorg re-opens a window without clearing the reverted block's column (the stale bits are persisted again when the window is completed)
CONSTANTS
  W = 3
  Base = 2
  MaxBlocks = 5
  MaxGraceful = 1
  BlockMenu <- BlocksAB
  FilterMenu <- FiltersK
  AnyRange = FALSE
  PurgeAt <- PurgeAlways
  DropReopenedWindow = TRUE
  SnapshotConsumedOnLoad = TRUE
  ClearRevertedColumn = FALSE
INIT WInit
NEXT WNext
VIEW wview
INVARIANTS DiskAsTwin
PROPERTIES WRestartIsNoOp
CHECK_DEADLOCK FALSE

\* one user contract, one slot, values {0,1,2}, one Cairo-0 class, <= 3 blocks, diffs of <= 3 entries
\* measured: 8 207 distinct states, 24 620 generated (FixH4 = TRUE)
CONSTANTS
  Users = {"c1"}
  Sys = {}
  Slots = {"s1"}
  MaxV = 2
  Cairo0 = {"k0"}
  Sierra = {}
  TxIds = {}
  L1Txs = {}
  MaxBlocks = 3
  MaxOps = 3
  MaxTxs = 0
  Vers = {0}
  FixH4 = TRUE
  SysZeroWrites = FALSE
  SplitReads = FALSE
  AtomicLegacyReads = TRUE
INIT Init
NEXT Next
VIEW shview
INVARIANTS TypeOK RevertNeverFails ReadsAgree HeadAgrees NoOrphanLogs Canon
PROPERTIES RestartIsNoOp
CHECK_DEADLOCK FALSE

\* behaviour generation (tlc -simulate): chains of <= 4 blocks, <= 8 reverts, the code as it is; half of the
\* behaviours use the base alphabet, the others one of the section scenarios (RpcReadMBT!ScnPick)
CONSTANTS
  MaxLen = 4
  MaxReverts = 8
  MaxSteps = 48
  ProbesPerOp = 0
  Txs <- MCTxs
  FixTxIndexMissingBlock = FALSE
  FixZeroHashState = FALSE
  FixLegacyZeroWriteLog = FALSE
  LubZeroShortcut = FALSE
  NVar = 3
  Scenarios = {"base", "stor", "clear", "zz", "nonce", "repl", "deploy", "depacc", "decl0", "decl1", "mig"}
  Leave = {}
  WithPreConfirmed = TRUE
INIT MBTInit
NEXT MBTNext
CHECK_DEADLOCK FALSE

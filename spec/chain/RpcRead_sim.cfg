\* behaviour generation (tlc -simulate): chains of <= 4 blocks, <= 3 reverts, the code as it is
CONSTANTS
  MaxLen = 4
  MaxReverts = 8
  MaxSteps = 48
  Txs <- MCTxs
  FixTxIndexMissingBlock = FALSE
  FixZeroHashState = FALSE
  FixLegacyZeroWriteLog = FALSE
  LubZeroShortcut = FALSE
  WithPreConfirmed = TRUE
INIT MBTInit
NEXT MBTNext
CHECK_DEADLOCK FALSE

------------------------------ MODULE MCPrune ------------------------------
(* Model-checking instance of Prune (all constants are expressible in a .cfg); adds the
   reachability witnesses used for the vacuity check: each is listed as an INVARIANT of
   Prune_witness.cfg-style runs and must be VIOLATED (= the situation is reachable). *)
EXTENDS Prune

NeverCancelledMidSweep == ~(pc.active /\ pc.cancelled)
NeverCrashedMidSweep == ~(res.kind = "crashed" /\ act.name = "PruneStep" /\ dirty)
NeverHeaderPruned == disk.hdr = 0..disk.height \/ disk.height < 0
NeverTimeFloorBinds == ~(MinAge /\ act.name = "DeliverL1" /\ res.kind = "started" /\ pc.end < act.n - Retained)
NeverL2PathPrunes == ~(act.name = "DeliverHead" /\ res.kind = "started")
=============================================================================

------------------------------ MODULE MCPrune ------------------------------
(* Model-checking instance of Prune (all constants are expressible in a .cfg); adds the
   reachability witnesses used for the vacuity check: each is listed as an INVARIANT of
   Prune_witness.cfg-style runs and must be VIOLATED (= the situation is reachable). *)
EXTENDS Prune

NeverCancelledMidSweep == ~(pc.active /\ pc.cancelled)
NeverCrashedMidSweep == ~(res.kind = "crashed" /\ act.name = "PruneStep" /\ dirty)
NeverHeaderPruned == disk.hdr = 0..disk.height \/ disk.height < 0
NeverTimeFloorBinds == ~(MinAge /\ act.name = "DeliverL1" /\ res.kind = "started" /\ pc.end < act.n - Retained)
NeverL2PathPrunes == ~(act.name = "DeliverHead" /\ res.kind = "started")
\* the windowed event index: a prune ends with the oldest retained block on the LAST / FIRST block of a
\* window whose persisted filter exists / was just deleted; the index is rebuilt without an anchor
\* from a block inside a window; a revert re-opens a persisted window; a prune runs before the
\* lazy initialisation
NeverFloorOnWindowEnd == ~(act.name = "PruneStep" /\ res.kind = "ok" /\ Oldest(disk) % W = W - 1
                           /\ WinOf(Oldest(disk)) \in WinFroms(disk))
NeverFloorOnWindowStart == ~(act.name = "PruneStep" /\ res.kind = "ok" /\ Oldest(disk) % W = 0 /\ Oldest(disk) > 0
                             /\ WinOf(Oldest(disk)) \in WinFroms(disk))
NeverWindowDeletedMidSweep == ~(act.name = "PruneStep" /\ res.kind = "step" /\ Oldest(disk) % W = 0 /\ Oldest(disk) > 0)
NeverAnchorlessRebuild == ~(act.name = "InitFilter" /\ rf.lo > rf.from)
NeverWindowReopened == ~(act.name = "Revert" /\ res.kind = "ok" /\ rf.from + W - 1 = act.n)
NeverPruneBeforeInit == ~(act.name = "PruneStep" /\ ~rf.init /\ alive)
=============================================================================

\* user contract + system contract 0x1, two slots, values {0,1}, <= 4 blocks, diffs of <= 2 entries
\* measured: 152 931 distinct states, ~2-5 min on 4 workers
CONSTANTS
  Users = {"c1"}
  Sys = {"sys1"}
  Slots = {"s1", "s2"}
  MaxV = 1
  Cairo0 = {"k0"}
  Sierra = {}
  TxIds = {}
  L1Txs = {}
  MaxBlocks = 4
  MaxOps = 2
  MaxTxs = 0
  Vers = {0}
  FixH4 = TRUE
  SysZeroWrites = FALSE
  SplitReads = FALSE
  AtomicLegacyReads = TRUE
INIT Init
NEXT Next
VIEW shview
INVARIANTS TypeOK RevertNeverFails ReadsAgree HeadAgrees NoOrphanLogs Canon
PROPERTIES RestartIsNoOp
CHECK_DEADLOCK FALSE

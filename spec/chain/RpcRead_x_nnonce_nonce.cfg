\* expected violation (residue switch n:nonce, scenario "nonce"): new state: deleteHistory leaves the nonce-history entries of diff.Nonces.
\* The repaired design otherwise; TLC must refute ReadsAnswerFromChainStrict with a read by number or hash on
\* the replacement chain; the counterexample (printed through MCRpcReadHist!TraceAlias) is replayed on the
\* real stack as a directed script in every run of checks/C08.py.
CONSTANTS
  MaxLen = 3
  MaxReverts = 1
  Txs <- MCTxs
  FixTxIndexMissingBlock = TRUE
  FixZeroHashState = TRUE
  FixLegacyZeroWriteLog = TRUE
  LubZeroShortcut = FALSE
  NVar = 3
  Scenarios = {"nonce"}
  Leave = {"n:nonce"}
  WithPreConfirmed = FALSE
INIT Init
NEXT NextHist
VIEW view
PROPERTIES ReadsAnswerFromChainStrict
ALIAS TraceAlias
CHECK_DEADLOCK FALSE

------------------------------- MODULE MCRpcRead -------------------------------
(* Model-checking instance of RpcRead: the transaction table (an operator constant a .cfg cannot
   express).  Transaction ids are 10*height + kind digit:
     1 INVOKE v3   2 L1_HANDLER   3 INVOKE v1 with a REVERTED receipt   4 DEPLOY_ACCOUNT
     5 DECLARE     6 DEPLOY (legacy)
   Variant 0 of every height carries <<invoke, l1 handler, reverted invoke>>; variant 1 shares the
   L1 handler with variant 0 of the same height but at ANOTHER index (so a reorg re-indexes a
   transaction hash that both forks contain), has an empty block at height 2 and the remaining
   kinds elsewhere. *)
EXTENDS RpcRead

MCTxs(n, v) ==
  IF v = 0 THEN <<10 * n + 1, 10 * n + 2, 10 * n + 3>>
  ELSE CASE n = 0 -> <<2, 4>>
         [] n = 1 -> <<12, 14, 15>>
         [] n = 2 -> <<>>
         [] OTHER -> <<10 * n + 6, 10 * n + 2>>
=============================================================================

------------------------------- MODULE MCRpcRead -------------------------------
(* Model-checking instance of RpcRead: the transaction table (an operator constant a .cfg cannot
   express).  Transaction ids are 10*height + kind digit:
     1 INVOKE v3 (with proof facts at the even heights, RpcRead!HasFacts)   2 L1_HANDLER  3 INVOKE v1 with a REVERTED receipt   4 DEPLOY_ACCOUNT
     5 DECLARE     6 DEPLOY (legacy)   7 a second L1_HANDLER (legacy form: no nonce)   8 INVOKE v0 (legacy)
   Variant 0 of every height carries <<invoke, l1 handler, reverted invoke>> (plus a legacy
   invoke v0 at height 2).  Variant 1 is chosen
   so that a reorg at each height exercises a different relation between the dropped and the new
   block's transactions (what the tx-hash index must survive):
     height 0  DISJOINT sets of EQUAL length <<l1 handler', deploy, declare>>: whichever
               variant is reverted, every index of the dropped block is occupied by a different
               transaction of the fork block (a stale tx-hash entry would answer with THAT one);
     height 1  SHARES the L1 handler with variant 0 but at ANOTHER index (the hash must be
               re-indexed, not dropped);
     height 2  the EMPTY block (a stale entry points at nothing);
     height 3  DISJOINT and LONGER <<deploy, l1 handler', deploy account, declare>>: every kind
               sits in a slot that variant 0 occupied.
   Variant 2 (the section scenarios' block with an empty state diff) carries no transaction. *)
EXTENDS RpcRead

MCTxs(n, v) ==
  IF v = 0 THEN (IF n = 2 THEN <<21, 22, 23, 28>> ELSE <<10 * n + 1, 10 * n + 2, 10 * n + 3>>)
  ELSE IF v = 2 THEN <<>>
  ELSE CASE n = 0 -> <<7, 6, 5>>
         [] n = 1 -> <<12, 14, 15>>
         [] n = 2 -> <<>>
         [] OTHER -> <<10 * n + 6, 10 * n + 7, 10 * n + 4, 10 * n + 5>>
=============================================================================

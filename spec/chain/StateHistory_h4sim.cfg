\* behaviour generation around no-op zero writes: one contract, two slots, values {0,1}
CONSTANTS
  Users = {"c1"}
  Sys = {"sys1"}
  Slots = {"s1", "s2"}
  MaxV = 1
  Cairo0 = {"k0"}
  Sierra = {}
  TxIds = {"t1", "l1a"}
  L1Txs = {"l1a"}
  MaxBlocks = 4
  MaxOps = 0
  MaxTxs = 1
  Vers = {0}
  FixH4 = FALSE
  SysZeroWrites = FALSE
  SplitReads = FALSE
  AtomicLegacyReads = TRUE
  FilterReorgInBatch = TRUE
  MaxSteps = 10
  SimMaxOps = 3
INIT MBTInit
NEXT MBTNext
INVARIANTS TypeOK ReadsAgree HeadAgrees NoOrphanLogs Canon IdxCanon IdxSound FilterCoversChain
CHECK_DEADLOCK FALSE

\* system contract + user contract, one slot, <= 3 blocks, <= 2 diff entries, no transactions
\* measured: 1 632 distinct states, 4 893 generated
CONSTANTS
  Users = {"c1"}
  Sys = {"sys1"}
  Slots = {"s1"}
  MaxV = 1
  Cairo0 = {"k0"}
  Sierra = {}
  TxIds = {}
  L1Txs = {}
  MaxBlocks = 3
  MaxOps = 2
  MaxTxs = 0
  Vers = {0}
  FixH4 = TRUE
  SysZeroWrites = FALSE
  SplitReads = FALSE
  AtomicLegacyReads = TRUE
  FilterReorgInBatch = TRUE
INIT RInit
NEXT RNext
VIEW rview
INVARIANTS TypeOK RevertNeverFails ReadsAgree HeadAgrees NoOrphanLogs Canon IdxCanon IdxSound FilterCoversChain
PROPERTIES RRestartIsNoOp
CHECK_DEADLOCK FALSE

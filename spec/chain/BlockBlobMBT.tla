------------------------------- MODULE BlockBlobMBT -------------------------------
(* Behaviour generation for the replayer (harness/engines/accessors): chains of blocks of 0..3
   transactions with random kinds / event counts / statuses / encoded lengths; after every Store the
   step carries the specification's answer of EVERY accessor for every (block, index, hash) incl. the
   first out-of-range index and the block beyond the head, computed through the modelled access
   path (offsets, sections, lazy slices, projections, hash index).
   With MaxReverts > 0 the chains are not append-only: RevertHead (one to three in a row), then
   replacement blocks whose transactions are drawn from the reverted ones (other index, other
   height, dropped) and fresh ones; the view then also lists what must be NOT FOUND now (`gone`:
   dropped transaction hashes / L1 messages, hashes of replaced blocks). `read` tells the replayer
   whether reads happen after this write: a quiet RevertHead is followed at once by the next
   write (reads are allowed, not obliged, between two writes). *)
EXTENDS MCBlockBlob, Json

VARIABLES hist
mbtvars == <<vars, hist>>

R(S) == {RandomElement(S)}
Id(r) == IF r.k = "found" THEN r.v.hash ELSE <<r.k>>
Ids(r) == IF r.k = "found" THEN [i \in 1..Len(r.v) |-> r.v[i].hash] ELSE <<<<r.k>>>>
K(r) == r.k

BlockViewOf(n, sz, bh, hs) ==
  [n |-> n, size |-> sz, ver |-> IF n \in Stored THEN chain[n + 1].ver ELSE -1,
   header |-> K(HeaderByNumber(n)), headerByHash |-> K(HeaderByHash(bh)),
   numberByHash |-> LET r == NumberByHash(bh) IN IF r.k = "found" THEN <<"number", r.v>> ELSE <<r.k>>,
   block |-> K(BlockByNumber(n)), blockByHash |-> K(BlockByHash(bh)),
   count |-> LET r == TxCount(n) IN IF r.k = "found" THEN <<"count", r.v>> ELSE <<r.k>>,
   txs |-> Ids(AllTxs(n)), rcs |-> Ids(AllRcs(n)),
   hashes |-> LET r == TxHashes(n) IN IF r.k = "found" THEN r.v ELSE <<<<r.k>>>>,
   events |-> LET r == TxEvents(n) IN
              IF r.k = "found" THEN [i \in 1..Len(r.v) |-> <<r.v[i].hash, Len(r.v[i].events)>>] ELSE <<<<r.k>>>>,
   tx |-> [i \in 1..(sz + 1) |-> Id(TxByIndex(n, i - 1))],
   rc |-> [i \in 1..(sz + 1) |-> Id(RcByIndex(n, i - 1))],
   pair |-> [i \in 1..(sz + 1) |-> LET r == TxAndRcByIndex(n, i - 1) IN
                                    IF r.k = "found" THEN <<r.v[1].hash, r.v[2].hash>> ELSE <<r.k>>],
   status |-> [i \in 1..(sz + 1) |-> LET r == StatusByIndex(n, i - 1) IN
                                      IF r.k = "found" THEN <<"status", r.v.rev>> ELSE <<r.k>>],
   txByHash |-> [i \in 1..(sz + 1) |-> Id(TxByHash(hs[i]))],
   locByHash |-> [i \in 1..(sz + 1) |-> LET r == LocationByHash(hs[i]) IN
                                         IF r.k = "found" THEN <<"at", r.v[1], r.v[2]>> ELSE <<r.k>>],
   rcByHash |-> [i \in 1..(sz + 1) |-> LET r == ReceiptByHash(hs[i]) IN
                                        IF r.k = "found" THEN <<r.v.rc.hash, r.v.blockHash, r.v.number>> ELSE <<r.k>>],
   su |-> K(SUByNumber(n)), suByHash |-> K(SUByHash(bh)),
   l1 |-> IF n \in Stored
          THEN [i \in 1..sz |-> LET t == chain[n + 1].txs[i] IN
                                 IF t.kind = "l1handler"
                                 THEN Id([k |-> L1Lookup(Msg(t)).k,
                                          v |-> [hash |-> IF L1Lookup(Msg(t)).k = "found" THEN L1Lookup(Msg(t)).v ELSE <<>>]])
                                 ELSE <<"na">>]
          ELSE <<>>]

(* the bound variables of a set constructor are bound to VALUES (operator arguments and LET definitions
   are re-evaluated at every use): the hashes asked for are computed once. Beyond the head and
   past the last index: hashes never stored. *)
BlockView(n) ==
  CHOOSE r \in {BlockViewOf(n, sz, bh, hs) :
                  sz \in {IF n \in Stored THEN Size(n) ELSE 0},
                  bh \in {IF n \in Stored THEN BHash(n) ELSE BlockHash(ver)},
                  hs \in {[i \in 1..((IF n \in Stored THEN Size(n) ELSE 0) + 1) |->
                             IF n \in Stored /\ i <= Size(n) THEN HashOf(n, i - 1) ELSE TxHash(ver, MaxSize)]}} : TRUE

(* what a reorg dropped: every by-hash accessor for every orphaned transaction and replaced block *)
GoneView ==
  [txs |-> {[hash |-> t.hash, tx |-> K(TxByHash(t.hash)), loc |-> K(LocationByHash(t.hash)), rc |-> K(ReceiptByHash(t.hash)),
             l1 |-> IF t.kind = "l1handler" THEN K(L1Lookup(Msg(t))) ELSE "na"] : t \in Orphans},
   blocks |-> {[hash |-> h, number |-> K(NumberByHash(h)), header |-> K(HeaderByHash(h)),
                block |-> K(BlockByHash(h)), su |-> K(SUByHash(h))] : h \in dead.blocks}]

View == [height |-> db.height,
         blocks |-> [n \in 1..Len(chain) |-> BlockView(n - 1)],
         beyond |-> BlockView(Len(chain)),
         gone |-> GoneView]

MBTInit == Init /\ hist = <<>>

(* a block: each position takes a random reverted transaction that is not in the chain now (once),
   else a fresh one - so with orphans around most positions re-include, in a random order; an empty
   replacement block drops everything *)
SimStore ==
  \E size \in R(0..MaxSize) :
    \E kinds \in R(Seqs(Kinds, size)), evs \in R(Seqs(EvCounts, size)), revs \in R(Seqs(Revs, size)),
       tl \in R(Seqs(Lens, size)), rl \in R(Seqs(Lens, size)),
       pick \in R(Seqs(Orphans \cup {Fresh}, size)) :
      LET src == [i \in 1..size |-> IF \E j \in 1..(i - 1) : pick[j] = pick[i] THEN Fresh ELSE pick[i]] IN
      \E shp \in R(ShapeChoices(size, kinds)) :
        Store(size, kinds, evs, revs, tl, rl, src, shp)

(* a restart between two writes (never two in a row, also in the middle of a reorg), for about every third step *)
SimRestart == /\ Len(chain) > 0 /\ act.name # "Restart" /\ RandomElement(1..3) = 1
              /\ \E g \in R(BOOLEAN) : Restart(g)

(* a reorg: RevertHead from any chain length (always from the full chain while reverts are left),
   again with probability 1/2 (depth 1..MaxReverts), else the next block *)
SimNext ==
  IF /\ Len(chain) > 0 /\ Reverts < MaxReverts
     /\ \/ Len(chain) >= MaxBlocks
        \/ RandomElement(1..(IF act.name = "Revert" THEN 2 ELSE 4)) = 1
  THEN Revert
  ELSE SimStore

Step == (SimRestart \/ SimNext)
        /\ hist' = Append(hist, [a |-> act', view |-> View',
                                 read |-> (act'.name # "Revert" \/ RandomElement(1..2) = 1)])

Emit ==
  /\ PrintT(ToJson(hist))
  /\ chain' = <<>>
  /\ db' = EmptyDB
  /\ dead' = NoDead /\ ver' = 0 /\ memo' = NoMemo
  /\ act' = [name |-> "Init"] /\ res' = [k |-> "none"] /\ hist' = <<>>

MBTNext == IF Len(chain) >= MaxBlocks /\ Reverts >= MaxReverts THEN Emit ELSE Step
=============================================================================

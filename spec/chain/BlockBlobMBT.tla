------------------------------- MODULE BlockBlobMBT -------------------------------
(* Behaviour generation for the replayer (harness/engines/accessors): chains of blocks of 0..3
   transactions with random kinds / event counts / statuses / encoded lengths; after every Store the
   step carries the specification's answer of EVERY accessor for every (block, index, hash) incl. the
   first out-of-range index and the block beyond the head, computed through the modelled access
   path (offsets, sections, lazy slices, projections, hash index). *)
EXTENDS MCBlockBlob, Json

VARIABLES hist
mbtvars == <<vars, hist>>

R(S) == {RandomElement(S)}
Id(r) == IF r.k = "found" THEN r.v.hash ELSE <<r.k>>
Ids(r) == IF r.k = "found" THEN [i \in 1..Len(r.v) |-> r.v[i].hash] ELSE <<<<r.k>>>>
K(r) == r.k

BlockView(n) ==
  LET sz == IF n \in Stored THEN Size(n) ELSE 0 IN
  [n |-> n, size |-> sz,
   header |-> K(HeaderByNumber(n)), headerByHash |-> K(HeaderByHash(BlockHash(n))),
   numberByHash |-> LET r == NumberByHash(BlockHash(n)) IN IF r.k = "found" THEN <<"number", r.v>> ELSE <<r.k>>,
   block |-> K(BlockByNumber(n)), blockByHash |-> K(BlockByHash(BlockHash(n))),
   count |-> LET r == TxCount(n) IN IF r.k = "found" THEN <<"count", r.v>> ELSE <<r.k>>,
   txs |-> Ids(AllTxs(n)), rcs |-> Ids(AllRcs(n)),
   hashes |-> LET r == TxHashes(n) IN IF r.k = "found" THEN r.v ELSE <<<<r.k>>>>,
   events |-> LET r == TxEvents(n) IN
              IF r.k = "found" THEN [i \in 1..Len(r.v) |-> <<r.v[i].hash, Len(r.v[i].events)>>] ELSE <<<<r.k>>>>,
   tx |-> [i \in 1..(sz + 1) |-> Id(TxByIndex(n, i - 1))],
   rc |-> [i \in 1..(sz + 1) |-> Id(RcByIndex(n, i - 1))],
   pair |-> [i \in 1..(sz + 1) |-> LET r == TxAndRcByIndex(n, i - 1) IN
                                    IF r.k = "found" THEN <<r.v[1].hash, r.v[2].hash>> ELSE <<r.k>>],
   status |-> [i \in 1..(sz + 1) |-> LET r == StatusByIndex(n, i - 1) IN
                                      IF r.k = "found" THEN <<"status", r.v.rev>> ELSE <<r.k>>],
   txByHash |-> [i \in 1..(sz + 1) |-> Id(TxByHash(TxHash(n, i - 1)))],
   rcByHash |-> [i \in 1..(sz + 1) |-> LET r == ReceiptByHash(TxHash(n, i - 1)) IN
                                        IF r.k = "found" THEN <<r.v.rc.hash, r.v.blockHash, r.v.number>> ELSE <<r.k>>],
   su |-> K(SUByNumber(n)), suByHash |-> K(SUByHash(BlockHash(n))),
   l1 |-> IF n \in Stored
          THEN [i \in 1..sz |-> IF chain[n + 1].txs[i].kind = "l1handler"
                                 THEN Id([k |-> L1Lookup(<<"msg", n, i - 1>>).k,
                                          v |-> [hash |-> IF L1Lookup(<<"msg", n, i - 1>>).k = "found"
                                                         THEN L1Lookup(<<"msg", n, i - 1>>).v ELSE <<>>]])
                                 ELSE <<"na">>]
          ELSE <<>>]

View == [height |-> db.height,
         blocks |-> [n \in 1..Len(chain) |-> BlockView(n - 1)],
         beyond |-> BlockView(Len(chain))]

MBTInit == Init /\ hist = <<>>

SimNext ==
  \E size \in R(0..MaxSize) :
    \E kinds \in R(Seqs(Kinds, size)), evs \in R(Seqs(EvCounts, size)), revs \in R(Seqs(Revs, size)),
       tl \in R(Seqs(Lens, size)), rl \in R(Seqs(Lens, size)) :
      Store(size, kinds, evs, revs, tl, rl)

(* a restart between two stores (never two in a row), for about every third step *)
SimRestart == /\ Len(chain) > 0 /\ act.name # "Restart" /\ RandomElement(1..3) = 1
              /\ \E g \in R(BOOLEAN) : Restart(g)

Step == (SimRestart \/ SimNext)
        /\ hist' = Append(hist, [a |-> act', view |-> View'])

Emit ==
  /\ PrintT(ToJson(hist))
  /\ chain' = <<>>
  /\ db' = [height |-> -1, blobs |-> <<>>, headers |-> <<>>, byHash |-> {}, txIndex |-> {}, sus |-> <<>>, l1 |-> {}]
  /\ act' = [name |-> "Init"] /\ res' = [k |-> "none"] /\ hist' = <<>>

MBTNext == IF Len(chain) >= MaxBlocks THEN Emit ELSE Step
=============================================================================

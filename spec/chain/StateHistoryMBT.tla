--------------------------- MODULE StateHistoryMBT ---------------------------
(* Behaviour generation for the replayer (engines/statehist): Revert (= StateHistory + the block
   level indexes) plus a history variable.  One long `-simulate` run yields many behaviours: at
   MaxSteps (or when a revert failed - the node is stuck) the history is printed as one JSON line
   and the machine is reset.

   Each step records the call (`a`), its result (`res`: "ok", or which backend's RevertHead
   returned an error), the ground truth for EVERY block of the chain after the step (`truth`, what
   all head / historical reads are compared with), the projection of the block-level indexes
   (`idx`) and the projection of both history encodings (`enc`: every log entry, deployment
   height, class record and CASM metadata the specification holds after the step - what the raw
   history buckets of the real database are compared with, so that an entry a RevertHead leaves
   behind is seen at the revert and not only when a later read happens to hit it).  A Revert step
   also says whether the block has the H4 shape (`a.h4`: the legacy log has no entry for a slot the
   block wrote) - with FixH4 = FALSE that is exactly when res # "ok".

   ForkBias (a definition; StateHistory_forksim.cfg substitutes ForkOn) guides the walk towards
   the histories in which a leftover of a revert shows (the counterexamples of the
   StateHistory_x_keep_*.cfg mutants): the block just stored is reverted at once half of the time,
   reverts go one block deeper one time in four, and the blocks stored after a revert mostly avoid
   every key the reverted blocks touched (`rvd`), so that nothing overwrites what the revert may
   have left behind before the reads that follow every step look at it. *)
EXTENDS Revert, Json

CONSTANTS MaxSteps, SimMaxOps

VARIABLES hist, steps,
          rvd      \* the entries of the blocks reverted since the last block that touched one of them
mbtvars == <<rvars, hist, steps, rvd>>

ForkBias == FALSE
ForkOn == TRUE

MBTInit == RInit /\ hist = <<>> /\ steps = 0 /\ rvd = {}

Kinds == {"decl", "mig", "dep", "rep", "nonce", "stor"}

(* the contract / class an entry is about: a replacement block "does not touch" a reverted entry when
   it has no entry for the same key and does not re-create the contract the entry belonged to *)
Touches(o, avoid) == \E p \in avoid : SameKey(o, p) \/ (o.k = "dep" /\ p.a = o.a)

(* ForkBias only: what an entry does to the value its key has now - the history encodings treat
   these cases differently (a cleared slot is a tombstone in the new log and the only zero write the
   legacy state logs; a same-value rewrite changes no trie; ...), and drawn uniformly from AllOps a
   write that clears a non-zero slot of a user contract is rare (~1 entry in 60) *)
Shape(o) ==
  IF o.k = "stor" THEN LET cur == CurT.con[o.a].stor[o.s] IN
                       IF o.v = 0 /\ cur # 0 THEN "clear" ELSE IF o.v = cur THEN "same" ELSE IF cur = 0 THEN "fresh" ELSE "change"
  ELSE IF o.k = "nonce" THEN (IF o.v = CurT.con[o.a].nonce THEN "same" ELSE "change")
  ELSE IF o.k = "rep" THEN (IF o.c = CurT.con[o.a].cls THEN "same" ELSE "change")
  ELSE "-"
OfSys(o) == o.a \in Sys
(* the members of C that agree with one randomly drawn member on f (drawn once: bound variable) *)
Sub(C, f(_)) == UNION {{o \in C : f(o) = v} : v \in {RandomElement({f(o) : o \in C})}}
(* user or system contract first, then the shape, then the entry *)
PickShaped(C) == RandomElement(Sub(Sub(C, OfSys), Shape))

(* a random valid diff, grown entry by entry; the KIND of the next entry is drawn first so that
   the 48 storage entries do not drown the 3 declarations *)
RECURSIVE Grow(_, _, _, _)
Grow(d, ver, k, avoid) ==
  IF k = 0 THEN d
  ELSE LET cand(kk) == {o \in AllOps : o.k = kk /\ o \notin d /\ ~Touches(o, avoid) /\ Valid(CurT, ver, d \cup {o})}
           kinds == {kk \in Kinds : cand(kk) # {}}
       IN IF kinds = {} THEN d
          ELSE IF ForkBias
               THEN \* every other entry is a storage write (the kind with the richest history)
                    LET kk == IF "stor" \in kinds /\ RandomElement(1..2) = 1 THEN "stor" ELSE RandomElement(kinds) IN
                    Grow(d \cup {PickShaped(cand(kk))}, ver, k - 1, avoid)
               ELSE LET kk == RandomElement(kinds) IN Grow(d \cup {RandomElement(cand(kk))}, ver, k - 1, avoid)

RECURSIVE GrowTxs(_, _)
GrowTxs(s, k) ==
  LET free == (TxIds \ OnChain) \ {s[i] : i \in 1..Len(s)} IN
  IF k = 0 \/ free = {} THEN s ELSE GrowTxs(Append(s, RandomElement(free)), k - 1)

(* one random draw per parameter, bound by a quantifier so that it is evaluated exactly once *)
One(x) == {x}
SimApplyAvoiding(avoid) ==
  \E ver \in One(IF 1 \notin Vers THEN 0 ELSE IF HeadVer = 1 \/ 0 \notin Vers \/ RandomElement(1..5) = 1 THEN 1 ELSE 0) :
  \E d \in One(Grow({}, ver, RandomElement(0..SimMaxOps), avoid)) :
  \E txs \in One(GrowTxs(<<>>, RandomElement(0..MaxTxs))) :
    /\ RApply(d, ver, txs)
    /\ rvd' = {p \in rvd : ~\E o \in d : SameKey(o, p)}
SimApply == SimApplyAvoiding({})
(* ForkBias: block 0 declares a class and deploys a user contract with it (plus random entries), so
   that the history of a user contract starts at once *)
SimApplyFirst ==
  \E c \in One(RandomElement(Classes)) : \E u \in One(RandomElement(Users)) :
  \E d \in One(Grow({ODecl(c), ODep(u, c)}, 0, RandomElement(0..SimMaxOps), {})) :
  \E txs \in One(GrowTxs(<<>>, RandomElement(0..MaxTxs))) :
    /\ RApply(d, 0, txs)
    /\ rvd' = {p \in rvd : ~\E o \in d : SameKey(o, p)}

SimRevert == RRevert /\ rvd' = IF res' = "ok" THEN rvd \cup chain[NBlocks].ops ELSE rvd
SimRestart == \E g \in One(RandomElement(BOOLEAN)) : RRestart(g) /\ UNCHANGED rvd

(* 3 : 2 in favour of growth while the chain may grow; reverts come in runs, so forks get deep;
   one step in six is a restart (graceful or not) - it may fall anywhere, in particular right
   before a RevertHead or a Store, which then is the first operation of the new process *)
PlainNext ==
  \E r \in One(RandomElement(1..6)) :
    IF NBlocks = 0 \/ (r <= 3 /\ NBlocks < MaxBlocks) THEN SimApply
    ELSE IF r = 6 /\ act.name # "Restart" THEN SimRestart
    ELSE SimRevert

(* guided towards revert-after-K ; replacement that does not touch K's keys (see the header) *)
ForkNext ==
  \E r \in One(RandomElement(1..12)) :
    IF NBlocks = 0 THEN (IF rvd = {} THEN SimApplyFirst ELSE SimApplyAvoiding(rvd))
    ELSE IF r = 12 /\ act.name # "Restart" THEN SimRestart
    ELSE IF act.name = "Apply" /\ rvd = {}
      THEN (IF r <= 6 \/ NBlocks = MaxBlocks THEN SimRevert ELSE SimApply)
    ELSE IF act.name = "Revert"
      THEN (IF r <= 3 \/ NBlocks = MaxBlocks THEN SimRevert
            ELSE IF r <= 10 THEN SimApplyAvoiding(rvd) ELSE SimApply)
    ELSE \* a replacement branch is growing (or the process just restarted)
         (IF NBlocks = MaxBlocks \/ r <= 2 THEN SimRevert
          ELSE IF r <= 8 THEN SimApplyAvoiding(rvd) ELSE SimApply)

SimNext == IF ForkBias THEN ForkNext ELSE PlainNext

IdxProj == [height |-> idx'.height, loc |-> idx'.loc, msg |-> idx'.msg]

(* both history encodings as the specification holds them after the step *)
EncProj ==
  [nS |-> ndb'.logS, nN |-> ndb'.logN, nC |-> ndb'.logC,
   nDh |-> [a \in AllC |-> ndb'.rec[a].dh], nAt |-> ndb'.cat,
   lS |-> ldb'.logS, lN |-> ldb'.logN, lC |-> ldb'.logC,
   lDh |-> ldb'.dep, lAt |-> ldb'.cat,
   casm |-> cdb']

Record == hist' = Append(hist, [a |-> act', res |-> res', truth |-> truth', idx |-> IdxProj, enc |-> EncProj])

Step ==
  /\ SimNext
  /\ steps' = steps + 1
  /\ Record

Emit ==
  /\ PrintT(ToJson(hist))
  /\ chain' = <<>> /\ truth' = <<>> /\ roots' = <<>>
  /\ ldb' = InitL /\ ndb' = InitN /\ cdb' = InitC /\ idx' = InitI
  /\ failed' = "no" /\ act' = [name |-> "Init"] /\ res' = "ok"
  /\ hot' = FALSE /\ fcov' = {} /\ fnext' = 0
  /\ rd' = NoRd /\ rdone' = NoRdone
  /\ hist' = <<>> /\ steps' = 0 /\ rvd' = {}

MBTNext == IF steps >= MaxSteps \/ failed # "no" THEN Emit ELSE Step
=============================================================================

--------------------------- MODULE StateHistoryMBT ---------------------------
(* Behaviour generation for the replayer (engines/statehist): Revert (= StateHistory + the block
   level indexes) plus a history variable.  One long `-simulate` run yields many behaviours: at
   MaxSteps (or when a revert failed - the node is stuck) the history is printed as one JSON line
   and the machine is reset.

   Each step records the call (`a`), its result (`res`: "ok", or which backend's RevertHead
   returned an error), the ground truth for EVERY block of the chain after the step (`truth`, what
   all head / historical reads are compared with) and the projection of the block-level indexes
   (`idx`).  A Revert step also says whether the block has the H4 shape (`a.h4`: the legacy log
   has no entry for a slot the block wrote) - with FixH4 = FALSE that is exactly when res # "ok". *)
EXTENDS Revert, Json

CONSTANTS MaxSteps, SimMaxOps

VARIABLES hist, steps
mbtvars == <<rvars, hist, steps>>

MBTInit == RInit /\ hist = <<>> /\ steps = 0

Kinds == {"decl", "mig", "dep", "rep", "nonce", "stor"}

(* a random valid diff, grown entry by entry; the KIND of the next entry is drawn first so that
   the 48 storage entries do not drown the 3 declarations *)
RECURSIVE Grow(_, _, _)
Grow(d, ver, k) ==
  IF k = 0 THEN d
  ELSE LET cand(kk) == {o \in AllOps : o.k = kk /\ o \notin d /\ Valid(CurT, ver, d \cup {o})}
           kinds == {kk \in Kinds : cand(kk) # {}}
       IN IF kinds = {} THEN d
          ELSE LET kk == RandomElement(kinds) IN Grow(d \cup {RandomElement(cand(kk))}, ver, k - 1)

RECURSIVE GrowTxs(_, _)
GrowTxs(s, k) ==
  LET free == (TxIds \ OnChain) \ {s[i] : i \in 1..Len(s)} IN
  IF k = 0 \/ free = {} THEN s ELSE GrowTxs(Append(s, RandomElement(free)), k - 1)

(* one random draw per parameter, bound by a quantifier so that it is evaluated exactly once *)
One(x) == {x}
SimApply ==
  \E ver \in One(IF 1 \notin Vers THEN 0 ELSE IF HeadVer = 1 \/ 0 \notin Vers \/ RandomElement(1..5) = 1 THEN 1 ELSE 0) :
  \E d \in One(Grow({}, ver, RandomElement(0..SimMaxOps))) :
  \E txs \in One(GrowTxs(<<>>, RandomElement(0..MaxTxs))) :
    RApply(d, ver, txs)

(* 3 : 2 in favour of growth while the chain may grow; reverts come in runs, so forks get deep;
   one step in six is a restart (graceful or not) - it may fall anywhere, in particular right
   before a RevertHead or a Store, which then is the first operation of the new process *)
SimNext ==
  \E r \in One(RandomElement(1..6)) :
    IF NBlocks = 0 \/ (r <= 3 /\ NBlocks < MaxBlocks) THEN SimApply
    ELSE IF r = 6 /\ act.name # "Restart" THEN \E g \in One(RandomElement(BOOLEAN)) : RRestart(g)
    ELSE RRevert

IdxProj == [height |-> idx'.height, loc |-> idx'.loc, msg |-> idx'.msg]

Step ==
  /\ SimNext
  /\ steps' = steps + 1
  /\ hist' = Append(hist, [a |-> act', res |-> res', truth |-> truth', idx |-> IdxProj])

Emit ==
  /\ PrintT(ToJson(hist))
  /\ chain' = <<>> /\ truth' = <<>> /\ roots' = <<>>
  /\ ldb' = InitL /\ ndb' = InitN /\ cdb' = InitC /\ idx' = InitI
  /\ failed' = "no" /\ act' = [name |-> "Init"] /\ res' = "ok"
  /\ hot' = FALSE /\ fcov' = {} /\ fnext' = 0
  /\ rd' = NoRd /\ rdone' = NoRdone
  /\ hist' = <<>> /\ steps' = 0

MBTNext == IF steps >= MaxSteps \/ failed # "no" THEN Emit ELSE Step
=============================================================================

------------------------------- MODULE Revert -------------------------------
(* Property C04 (reverting the head exactly undoes a block; forks converge), block level.

   StateHistory.tla already carries the state half: both state encodings with their Update /
   Revert and the CASM metadata, RevertNeverFails, NoOrphanLogs and Canon ("the state database is a
   function of the current chain").  This module adds every per-block index family that
   blockchain/statebackend/block_ops.go writeBlockContent writes and deleteBlockContent has to
   remove again - Revert is a hand-written inverse of Store - as one more explicit encoding `idx`:

     height   ChainHeight                                  (-1 = key absent)
     hdr      BlockHeadersByNumber       n  -> block id    (the block id plays the block hash)
     num      BlockHeaderNumbersByHash   id -> n
     txs      BlockTransactions          n  -> sequence of transaction ids (with their receipts)
     loc      TransactionBlockNumbersAndIndicesByHash   tx -> <<n, i>>
     msg      L1HandlerTxnHashByMsgHash  msg hash (= the L1-handler tx id) -> tx
     su       StateUpdatesByBlockNumber  n  -> diff
     com      BlockCommitments           n  -> present

   A block id is the chain prefix ending in the block (the hash commits to the parent hash and
   the content), so the same content at the same height on two forks with different ancestors
   has different ids, and re-applying the very same chain reproduces the ids.

   The process-local running event filter (core.RunningEventFilter, lazily initialised) and the
   Restart action are modelled as well: FilterCoversChain, RRestartIsNoOp.

   Properties: IdxCanon - `idx` is a function of the current chain (so Store ; Revert is the
   identity and forks converge, as for Canon); IdxSound - every lookup answers from the current
   chain only (nothing of a reverted block can be found, everything of a retained block can). *)
EXTENDS StateHistory

CONSTANT FilterReorgInBatch   \* TRUE = the code: RevertHead rolls the running event filter back INSIDE
                              \* the revert's batch closure (OnReorgWithBatch), i.e. before the commit

VARIABLES idx,
          hot, fcov, fnext    \* the in-memory core.RunningEventFilter of this process: initialised yet?,
                              \* blocks whose bloom bits it holds, next block it expects
rvars == <<shvars, idx, hot, fcov, fnext>>
rview == <<shview, idx, hot, fcov, fnext>>

NoLoc == <<-1, -1>>
InitI == [height |-> -1,
          hdr |-> {},      \* set of [n, id]
          num |-> {},      \* set of [id, n]
          txs |-> {},      \* set of [n, txs]
          loc |-> [t \in TxIds |-> NoLoc],
          msg |-> [t \in L1Txs |-> FALSE],
          su  |-> {},      \* set of [n, ops]
          com |-> {}]      \* set of n

(* the id ("hash") of block n on chain ch *)
BlockId(ch, n) == SubSeq(ch, 1, n + 1)

(* writeBlockContent *)
UpdI(I, ch, n) ==
  LET b == ch[n + 1]
      id == BlockId(ch, n) IN
  [height |-> n,
   hdr |-> {h \in I.hdr : h.n # n} \cup {[n |-> n, id |-> id]},
   num |-> {h \in I.num : h.id # id} \cup {[id |-> id, n |-> n]},
   txs |-> {h \in I.txs : h.n # n} \cup {[n |-> n, txs |-> b.txs]},
   loc |-> [t \in TxIds |-> IF \E i \in 1..Len(b.txs) : b.txs[i] = t
                            THEN <<n, (CHOOSE i \in 1..Len(b.txs) : b.txs[i] = t) - 1>> ELSE I.loc[t]],
   msg |-> [t \in L1Txs |-> (\E i \in 1..Len(b.txs) : b.txs[i] = t) \/ I.msg[t]],
   su  |-> {h \in I.su : h.n # n} \cup {[n |-> n, ops |-> b.ops]},
   com |-> I.com \cup {n}]

(* deleteBlockContent: the hash is looked up by number, the transactions are iterated from the
   stored block to delete their lookups *)
RevI(I, n) ==
  LET id == (CHOOSE h \in I.hdr : h.n = n).id
      stored == (CHOOSE h \in I.txs : h.n = n).txs
      mine(t) == \E i \in 1..Len(stored) : stored[i] = t IN
  [height |-> n - 1,
   hdr |-> {h \in I.hdr : h.n # n},
   num |-> {h \in I.num : h.id # id},
   txs |-> {h \in I.txs : h.n # n},
   loc |-> [t \in TxIds |-> IF mine(t) THEN NoLoc ELSE I.loc[t]],
   msg |-> [t \in L1Txs |-> IF mine(t) THEN FALSE ELSE I.msg[t]],
   su  |-> {h \in I.su : h.n # n},
   com |-> I.com \ {n}]

(* core.RunningEventFilter is created lazily by blockchain.New: its first use (Store, RevertHead,
   an event query) runs InitializeRunningEventFilter, which reads the COMMITTED chain height h and
   returns a filter caught up to h (from the persisted snapshot or by a rebuild): blocks 0..h,
   next = h + 1.  All chains here stay inside one 8192-block window; the window boundary (the
   completed window persisted by the Store of block k*8192+8191 and re-opened by its revert, the
   cache of persisted windows that queries warm and RevertHead purges, the rebuild after a crash)
   is RevertWin.tla, with the same properties stated against a twin node. *)
FInit(h) == [cov |-> 0..h, next |-> h + 1]
FCur(h) == IF hot THEN [cov |-> fcov, next |-> fnext] ELSE FInit(h)

RInit == Init /\ idx = InitI /\ hot = FALSE /\ fcov = {} /\ fnext = 0

(* Store of block n: InsertWithBatch inside the closure - a lazy filter initialises from the
   committed height n - 1 and then takes block n.  (The reads that follow every step keep it hot.) *)
RApply(d, ver, txs) ==
  /\ ApplyBlock(d, ver, txs)
  /\ idx' = UpdI(idx, chain', NBlocks)
  /\ LET F == FCur(NBlocks - 1) IN fcov' = F.cov \cup {NBlocks} /\ fnext' = NBlocks + 1
  /\ hot' = TRUE

(* RevertHead of block H: onReorg clears block next - 1 and steps back.  Inside the batch closure a
   lazy filter still initialises from height H; after the commit it would see H - 1 and clear a
   block that is still canonical. *)
RRevert ==
  /\ RevertHead
  /\ idx' = IF res' = "ok" THEN RevI(idx, NBlocks - 1) ELSE idx
  /\ IF res' = "ok"
     THEN LET H == NBlocks - 1
              F == FCur(IF FilterReorgInBatch THEN H ELSE H - 1) IN
          /\ fcov' = F.cov \ {F.next - 1} /\ fnext' = F.next - 1 /\ hot' = TRUE
     ELSE UNCHANGED <<hot, fcov, fnext>>

(* a new process on the same database: the in-memory filter is gone until its next first use *)
RRestart(graceful) ==
  /\ Restart(graceful)
  /\ hot' = FALSE /\ fcov' = {} /\ fnext' = 0
  /\ UNCHANGED idx

(* exhaustive alphabet: bounded diffs, every sequence of at most MaxTxs distinct fresh transactions *)
RECURSIVE TxSeqs(_)
TxSeqs(k) == IF k = 0 THEN {<<>>}
             ELSE LET P == TxSeqs(k - 1) IN
                  P \cup {Append(s, t) : s \in {q \in P : Len(q) = k - 1}, t \in TxIds}
RNext ==
  \/ \E d \in BoundedDiffs, ver \in Vers, txs \in TxSeqs(MaxTxs) : RApply(d, ver, txs)
  \/ RRevert
  \/ RRestart(TRUE)          \* graceful or not makes no difference to the model; the replayer gets both
RSpec == RInit /\ [][RNext]_rvars

--------------------------------------------------------------------------
RECURSIVE ReplayI(_)
ReplayI(k) == IF k = 0 THEN InitI ELSE UpdI(ReplayI(k - 1), chain, k - 1)

(* C04: exact undo / fork convergence for the block-level index families *)
IdxCanon == failed = "no" => idx = ReplayI(NBlocks)

(* C04: a restart, wherever it occurs, changes nothing of the database *)
RRestartIsNoOp == [][act'.name = "Restart" => UNCHANGED <<chain, truth, roots, ldb, ndb, cdb, failed, idx>>]_rvars

(* C04: "same answers from every event query": whenever the process has a running event filter it
   holds the bloom bits of exactly the blocks of the current chain (a filtered event query only
   looks into blocks the filter admits), whatever was stored, reverted or restarted before *)
FilterCoversChain == (hot /\ failed = "no") => (fcov = 0..(NBlocks - 1) /\ fnext = NBlocks)

(* C04: "same answers from every query": lookups see exactly the current chain *)
IdxSound ==
  /\ idx.height = NBlocks - 1
  /\ \A h \in idx.hdr : h.n < NBlocks /\ h.id = BlockId(chain, h.n)
  /\ \A n \in 0..(NBlocks - 1) : \E h \in idx.hdr : h.n = n
  /\ \A h \in idx.num : h.n < NBlocks /\ h.id = BlockId(chain, h.n)
  /\ \A n \in 0..(NBlocks - 1) : [id |-> BlockId(chain, n), n |-> n] \in idx.num
  /\ \A h \in idx.txs : h.n < NBlocks /\ h.txs = chain[h.n + 1].txs
  /\ \A h \in idx.su : h.n < NBlocks /\ h.ops = chain[h.n + 1].ops
  /\ idx.com = 0..(NBlocks - 1)
  /\ \A t \in TxIds :
       IF t \in OnChain
       THEN LET l == idx.loc[t] IN l # NoLoc /\ l[1] < NBlocks /\ chain[l[1] + 1].txs[l[2] + 1] = t
       ELSE idx.loc[t] = NoLoc
  /\ \A t \in L1Txs : idx.msg[t] = (t \in OnChain)
=============================================================================

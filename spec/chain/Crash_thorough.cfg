\* repaired model, empty database, 14 operations over 5 block numbers x 3 versions x every durable mutation (initialisation included) x {ok,fail,crash}; exhaustive: 582 451 distinct states (5 125 711 generated), 107 s on 4 workers
CONSTANTS
  MaxH = 4
  MaxVer = 3
  MaxOps = 14
  InitH <- EmptyDB
  Boundary = 99
  Genesis = TRUE
  Lag = 10
  PruneBatch = 1
  EnableFaults = TRUE
  EnablePrune = TRUE
  FixMemAfterCommit = TRUE
  FixSnapshot = TRUE
  FixReorgWindow = TRUE
  FixPruneAtomicFloor = TRUE
  FixCacheOnReorg = TRUE
  FixInitConsume = TRUE
  FixInitRetry = TRUE
INIT Init
NEXT Next
VIEW view
INVARIANTS InitMutsBounded TypeOK Consistent MemAgreesWithDisk NextStoreSucceeds StateReadsCorrect
PROPERTIES FailedInitIsRetried FailedWriteAppliesNothing RestartIsNoOp
CHECK_DEADLOCK FALSE

\* repaired model, empty database, 14 operations over 5 block numbers x 3 versions x {ok,fail,crash}; exhaustive: 582 451 distinct states (4 801 755 generated), 78 s on 8 workers
CONSTANTS
  MaxH = 4
  MaxVer = 3
  MaxOps = 14
  InitH <- EmptyDB
  Boundary = 99
  Genesis = TRUE
  Lag = 10
  PruneBatch = 1
  EnableFaults = TRUE
  EnablePrune = TRUE
  FixMemAfterCommit = TRUE
  FixSnapshot = TRUE
  FixReorgWindow = TRUE
  FixPruneAtomicFloor = TRUE
  FixCacheOnReorg = TRUE
INIT Init
NEXT Next
VIEW view
INVARIANTS TypeOK Consistent MemAgreesWithDisk NextStoreSucceeds StateReadsCorrect
PROPERTIES FailedWriteAppliesNothing RestartIsNoOp
CHECK_DEADLOCK FALSE

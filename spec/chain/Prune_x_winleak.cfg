\* EXPECTED VIOLATION (BelowFloorClean): the range delete of persisted event-filter windows stops one window early when the oldest retained block is the FIRST block of a window (a window wholly below the floor is left); Prune_quick_r0 otherwise
CONSTANTS
  MaxH = 13
  InitH = 10
  MaxL1 = 15
  Retained = 0
  Lag = 10
  PruneBatch = 1
  L2PerPrune = 1
  MinAge = FALSE
  MaxSteps = 4
  EnableRevert = TRUE
  EnableInterrupts = TRUE
  FixPruneAtomicFloor = TRUE
  FixSampleOnReorg = TRUE
  W = 4
  Base = 0
  WinBound = "short"
INIT Init
NEXT Next
VIEW view
INVARIANTS TypeOK NoUnderflow FloorBound AgeBound RetainedIntact StateReadsCorrect BelowFloorClean EventsCovered FilterFollowsChain
PROPERTIES Resumable FloorMonotone RestartIsNoOp InitFilterOnlyAdds
CHECK_DEADLOCK FALSE

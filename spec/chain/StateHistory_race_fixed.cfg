\* the legacy reader's two reads on one snapshot: SplitReadOK holds under every interleaving with the writer
CONSTANTS
  Users = {"c1"}
  Sys = {}
  Slots = {"s1"}
  MaxV = 1
  Cairo0 = {"k0"}
  Sierra = {}
  TxIds = {}
  L1Txs = {}
  MaxBlocks = 3
  MaxOps = 2
  MaxTxs = 0
  Vers = {0}
  FixH4 = TRUE
  SysZeroWrites = FALSE
  SplitReads = TRUE
  AtomicLegacyReads = TRUE
INIT Init
NEXT Next
VIEW shview
INVARIANTS TypeOK SplitReadOK ReadsAgree HeadAgrees Canon
PROPERTIES RestartIsNoOp
CHECK_DEADLOCK FALSE

\* expected violation: cache purged at every offset but the one that matters
CONSTANTS
  W = 3
  Base = 2
  MaxBlocks = 5
  MaxGraceful = 1
  BlockMenu <- BlocksAB
  FilterMenu <- FiltersK
  AnyRange = FALSE
  PurgeAt <- PurgeAllButLast
  DropReopenedWindow = TRUE
  SnapshotConsumedOnLoad = TRUE
  ClearRevertedColumn = TRUE
INIT WInit
NEXT WNext
VIEW wview
INVARIANTS AnswersAsTwin
PROPERTIES WRestartIsNoOp
CHECK_DEADLOCK FALSE

\* the model of the code AS IT IS (finding block-verify:crash:invalid-class*): a v3 transaction without an L1_GAS / L2_GAS bound crashes the verifier - TLC must report TamperRejected
CONSTANTS
  Versions <- MCVersions
  Committed <- MCCommitted
  TxFields <- MCTxFields
  SdFields <- MCSdFields
  SuFields <- MCSuFields
  MaxLen = 2
  Shapes <- MCShapesCls
  Targets <- MCTargets
  EmptyDiffShapes <- MCEmptyDiffShapes
  ClassShapes <- MCClassShapes
  DeployShapes <- MCDeployShapes
  CasmV2From = 4
  ClassFields <- MCClassFields
  TxClassFields <- MCTxClassFields
  ClassOf <- MCClassOf
  ValidClassOf <- MCValidClassOf
  ClassIn <- MCClassIn
  ShapeClass <- MCShapeClass
  ProtoSame <- MCProtoSame
  MalformedRefused = FALSE
  ZeroAsAbsent <- MCNone
  MaxPending = 0
  SuccessionChecked = TRUE
  RootChecked = TRUE
  RootCheckedOnEmptyDiff = TRUE
  TxHashesChecked = TRUE
  WriteBeforeChecks = FALSE
  DeployGuard = TRUE
  ExistGuard = TRUE
  MigrateGuard = TRUE
  RedeclareGuard = TRUE
INIT Init
NEXT Next
VIEW view
INVARIANTS TypeOK
PROPERTIES TamperRejected
CHECK_DEADLOCK FALSE

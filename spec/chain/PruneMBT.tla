------------------------------ MODULE PruneMBT ------------------------------
(* Behaviour generation for the replayer (harness/engines/prune): Prune plus a history variable;
   after MaxSteps operations (no prune in flight, restarted after a crash) the history is printed
   as one JSON line and the machine is reset. *)
EXTENDS MCPrune, Json

VARIABLE hist

R(S) == {RandomElement(S)}
Pick(seq) == seq[RandomElement(1..Len(seq))]

(* steer towards the interesting region: L1 heads near the local head, deliveries of recent
   events, interruptions in about a third of the prunes; numbers far below the initial chain
   (Base > 0) are of no interest.  The lazy initialisation of the event index (InitFilter) is one
   of the alternatives after a restart, so that prunes run before and after it; a new block or a
   revert needs it done. *)
Lo == Max2(0, Base - 3)
SimNext ==
  IF pc.active THEN \E o \in {IF ~EnableInterrupts THEN "ok"
                              ELSE IF pc.cancelled \/ svc = "down" THEN Pick(<<"ok", "ok", "ok", "crash">>)
                              ELSE Pick(<<"ok", "ok", "ok", "ok", "cancel", "crash">>)} : PruneStep(o)
  ELSE IF ~alive THEN Restart
  ELSE \/ \E y \in R(BOOLEAN) : NewBlock(y)
       \/ Revert
       \/ InitFilter
       \/ InitFilter
       \/ LET c == Max2(disk.l1 + 1, Lo)..MaxL1 IN c # {} /\ \E n \in R(c) : SetL1(n)
       \/ LET c == {x \in Max2(disk.l1 + 1, Lo)..MaxL1 : x <= disk.height + 1 /\ x + 4 >= disk.height} IN
            c # {} /\ \E n \in R(c) : SetL1(n)
       \/ \E b \in R(Lo..MaxH) : DeliverHead(b)
       \/ DeliverHead(disk.height)
       \/ \E n \in R(Lo..MaxL1) : DeliverL1(n)
       \/ disk.l1 >= 0 /\ DeliverL1(disk.l1)
       \/ disk.l1 >= 0 /\ DeliverL1(disk.l1)
       \/ Sample
       \/ Restart

SortedSeq(S) == LET RECURSIVE F(_)
                    F(T) == IF T = {} THEN <<>> ELSE LET x == MinSet(T) IN <<x>> \o F(T \ {x})
                IN F(S)

Proj(d) ==
  [height |-> d.height, l1 |-> d.l1, hdr |-> SortedSeq(d.hdr), com |-> SortedSeq(d.com), su |-> SortedSeq(d.su),
   txs |-> SortedSeq(d.txs), h2n |-> SortedSeq(d.h2n), txl |-> SortedSeq(d.txl), hist |-> SortedSeq(d.hist),
   oldest |-> Oldest(d), win |-> SortedSeq(WinFroms(d))]

Step ==
  /\ SimNext
  /\ hist' = Append(hist, [a |-> act', res |-> res', post |-> Proj(disk'), floor |-> floor', svc |-> svc',
                           rfinit |-> rf'.init])

Done == steps >= MaxSteps /\ ~pc.active /\ alive

Emit ==
  /\ PrintT(ToJson(hist))
  /\ disk' = InitDisk /\ rf' = InitFill.rf /\ yf' = InitH + 1 /\ floor' = SeedFloor(InitDisk) /\ pending' = 0
  /\ sampled' = IF MinAge /\ InitH >= 0 THEN InitH ELSE 0
  /\ svc' = "up" /\ alive' = TRUE /\ pc' = Idle /\ keepMax' = 0 /\ dirty' = FALSE /\ err' = "none" /\ steps' = 0
  /\ act' = [name |-> "Init", n |-> 0, outcome |-> "ok"] /\ res' = [kind |-> "ok", muts |-> 0]
  /\ hist' = <<>>

MBTInit == Init /\ hist = <<>>
MBTNext == IF Done THEN Emit ELSE Step
=============================================================================

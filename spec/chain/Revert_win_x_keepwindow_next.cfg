\* expected violation, observable form: after a crash the node refuses the block its twin accepts
CONSTANTS
  W = 3
  Base = 2
  MaxBlocks = 5
  MaxGraceful = 1
  BlockMenu <- BlocksAB
  FilterMenu <- FiltersK
  AnyRange = FALSE
  PurgeAt <- PurgeAlways
  DropReopenedWindow = FALSE
  SnapshotConsumedOnLoad = TRUE
  ClearRevertedColumn = TRUE
INIT WInit
NEXT WNext
VIEW wview
INVARIANTS NextAsTwin
PROPERTIES WRestartIsNoOp
CHECK_DEADLOCK FALSE

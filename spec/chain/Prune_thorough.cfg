\* repaired model: chain 0..11 (+2), Retained 1, two-block batches, coalescing 2, min-age on, 8 operations, cancel/crash after any batch, event-filter windows of 4 blocks; exhaustive: 2 377 833 distinct states (18 663 567 generated), 6 min on 4 busy workers with coverage
CONSTANTS
  MaxH = 13
  InitH = 11
  MaxL1 = 15
  Retained = 1
  Lag = 10
  PruneBatch = 2
  L2PerPrune = 2
  MinAge = TRUE
  MaxSteps = 8
  EnableRevert = TRUE
  EnableInterrupts = TRUE
  FixPruneAtomicFloor = TRUE
  FixSampleOnReorg = TRUE
  W = 4
  Base = 0
  WinBound = "exact"
INIT Init
NEXT Next
VIEW view
INVARIANTS TypeOK NoUnderflow FloorBound AgeBound RetainedIntact StateReadsCorrect BelowFloorClean EventsCovered FilterFollowsChain
PROPERTIES Resumable FloorMonotone RestartIsNoOp InitFilterOnlyAdds
CHECK_DEADLOCK FALSE

\* behaviour generation: chains of 4 blocks with 3 RevertHead (depth 1..3) and replacement blocks re-including reverted transactions,
\* all ten transaction kinds, 0..3 events, both statuses
CONSTANTS
  MaxBlocks = 4
  MaxSize = 3
  Lens = {1, 2, 3}
  Kinds <- KindsAll
  EvCounts = {0, 1, 2, 3}
  Revs = {TRUE, FALSE}
  LastItemRunsToEnd = TRUE
  TxSectionEndsAtReceipts = TRUE
  HashIndexExact = TRUE
  RevertDropsIndexes = TRUE
  MaxReverts = 3
  MemoFamilies = {}
  MemoPurged = TRUE
  FieldTable <- MCFieldTable
  VaryShapes = FALSE
  MaxClasses = 0
  CodecSlip = "none"
  SlipCodecs = {}
INIT MBTInit
NEXT MBTNext
CHECK_DEADLOCK FALSE

\* repaired model: Retained 20 > chain length (nothing may ever be pruned; the unsigned guards), L1 heads up to 30, 8 operations; exhaustive: 6 594 distinct states (218 424 generated), 4 s
CONSTANTS
  MaxH = 13
  InitH = 11
  MaxL1 = 30
  Retained = 20
  Lag = 10
  PruneBatch = 1
  L2PerPrune = 1
  MinAge = FALSE
  MaxSteps = 8
  EnableRevert = TRUE
  EnableInterrupts = TRUE
  FixPruneAtomicFloor = TRUE
  FixSampleOnReorg = TRUE
  W = 4
  Base = 0
  WinBound = "exact"
INIT Init
NEXT Next
VIEW view
INVARIANTS TypeOK NoUnderflow FloorBound AgeBound RetainedIntact StateReadsCorrect BelowFloorClean EventsCovered FilterFollowsChain
PROPERTIES Resumable FloorMonotone RestartIsNoOp InitFilterOnlyAdds
CHECK_DEADLOCK FALSE

\* expected violation (residue switch l:relog, scenario "stor"): legacy: Revert applies the reverse diff WITH logging (entries (key, n) -> reverted value).
\* The repaired design otherwise; TLC must refute ReadsAnswerFromChainStrict with a read by number or hash on
\* the replacement chain; the counterexample (printed through MCRpcReadHist!TraceAlias) is replayed on the
\* real stack as a directed script in every run of checks/C08.py.
CONSTANTS
  MaxLen = 3
  MaxReverts = 1
  Txs <- MCTxs
  FixTxIndexMissingBlock = TRUE
  FixZeroHashState = TRUE
  FixLegacyZeroWriteLog = TRUE
  LubZeroShortcut = FALSE
  NVar = 3
  Scenarios = {"stor"}
  Leave = {"l:relog"}
  WithPreConfirmed = FALSE
INIT Init
NEXT NextHist
VIEW view
PROPERTIES ReadsAnswerFromChainStrict
ALIAS TraceAlias
CHECK_DEADLOCK FALSE

\* the code as it was at the pinned commit (both switches FALSE): TLC must find RetainedIntact violated (H12); the check generates the faithful cfgs from the switches it probes on the code
CONSTANTS
  MaxH = 13
  InitH = 11
  MaxL1 = 15
  Retained = 1
  Lag = 10
  PruneBatch = 2
  L2PerPrune = 2
  MinAge = TRUE
  MaxSteps = 5
  EnableRevert = TRUE
  EnableInterrupts = TRUE
  FixPruneAtomicFloor = FALSE
  FixSampleOnReorg = FALSE
  W = 4
  Base = 0
  WinBound = "exact"
INIT Init
NEXT Next
VIEW view
INVARIANTS TypeOK NoUnderflow FloorBound AgeBound RetainedIntact StateReadsCorrect BelowFloorClean EventsCovered FilterFollowsChain
PROPERTIES Resumable FloorMonotone RestartIsNoOp InitFilterOnlyAdds
CHECK_DEADLOCK FALSE

\* repaired design (all switches TRUE), exhaustive: index histories with reorgs across two window
\* boundaries, cache warming, graceful/ungraceful restarts; full-range queries
CONSTANTS
  W = 4
  Base = 2
  MaxBlocks = 6
  MaxGraceful = 1
  BlockMenu <- BlocksMin
  FilterMenu <- FiltersMin
  Chunks = {2}
  Limits = {0}
  RangeSlack <- FullRangeOnly
  InvalidateCacheOnReorg = TRUE
  SnapshotValidated = TRUE
  DropReopenedWindow = TRUE
INIT Init
NEXT Next
VIEW view
INVARIANTS TypeOK NoFalseNegative RunningInSync PersistedComplete
PROPERTIES QueryExact IndexNeverBlocksChain
CHECK_DEADLOCK FALSE

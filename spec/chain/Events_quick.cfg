\* repaired design (all switches TRUE), exhaustive: index histories with reorgs across two window
\* boundaries, cache warming, graceful/ungraceful restarts; full-range queries
\* measured: 3 372 distinct / 25 548 generated states, depth 11
CONSTANTS
  W = 4
  Base = 2
  MaxBlocks = 7
  MaxGraceful = 2
  BlockMenu <- BlocksMin
  FilterMenu <- FiltersMin
  Chunks = {1, 100}
  Limits = {0, 1}
  RangeSlack <- FullRangeOnly
  InvalidateCacheOnReorg = TRUE
  SnapshotConsumedOnLoad = TRUE
  DropReopenedWindow = TRUE
INIT Init
NEXT Next
VIEW view
INVARIANTS TypeOK NoFalseNegative RunningInSync PersistedComplete
PROPERTIES QueryExact IndexNeverBlocksChain
CHECK_DEADLOCK FALSE

\* exhaustive: chain length <= 2, 2 shapes per head (full, emptydiff), 2 blocks verified ahead (competing successors)
CONSTANTS
  Versions <- MCVersions
  Committed <- MCCommitted
  TxFields <- MCTxFields
  SdFields <- MCSdFields
  SuFields <- MCSuFields
  MaxLen = 2
  Shapes <- MCShapesTwo
  Targets <- MCTargets
  EmptyDiffShapes <- MCEmptyDiffShapes
  ClassShapes <- MCClassShapes
  DeployShapes <- MCDeployShapes
  CasmV2From = 4
  ClassFields <- MCNone
  TxClassFields <- MCTxClassFields
  ClassOf <- MCClassOf
  ValidClassOf <- MCValidClassOf
  ClassIn <- MCClassIn
  ShapeClass <- MCShapeClass
  ProtoSame <- MCProtoSame
  MalformedRefused = TRUE
  ZeroAsAbsent <- MCNone
  MaxPending = 2
  SuccessionChecked = TRUE
  RootChecked = TRUE
  RootCheckedOnEmptyDiff = TRUE
  TxHashesChecked = TRUE
  WriteBeforeChecks = FALSE
  DeployGuard = TRUE
  ExistGuard = TRUE
  MigrateGuard = TRUE
  RedeclareGuard = TRUE
INIT Init
NEXT Next
VIEW view
INVARIANTS TypeOK StoredChainValid StateIsChain DbConsistent
PROPERTIES AcceptedOnlyIfValid RejectedUnchanged TamperRejected ValidAccepted PendingStoredIffContinues RestartIsNoOp InapplicableLooksValid
CHECK_DEADLOCK FALSE

\* exhaustive, the section scenarios (every state-diff section in isolation), the code as it is: a setup block
\* + <= 3 blocks of 3 variants (S for target 1 / S for target 2 / empty diff), <= 2 reverts; the state methods
\* and getStateUpdate by every number, every hash ever stored and latest
\* measured: 17 250 distinct states, 3 285 700 transitions, depth 9, ~9 min on a machine loaded by other runs
CONSTANTS
  MaxLen = 4
  MaxReverts = 2
  Txs <- MCTxs
  FixTxIndexMissingBlock = FALSE
  FixZeroHashState = FALSE
  FixLegacyZeroWriteLog = FALSE
  LubZeroShortcut = FALSE
  NVar = 3
  Scenarios = {"stor", "clear", "zz", "nonce", "repl", "deploy", "depacc", "decl0", "decl1", "mig"}
  Leave = {}
  WithPreConfirmed = FALSE
INIT Init
NEXT NextHist
VIEW view
INVARIANTS TypeOK IndexesDescribeChain
PROPERTIES ReadsAnswerFromChain RevertedNotFound ReadsArePure FlagsOnlyAdd LastUpdateWithinChain
CHECK_DEADLOCK FALSE

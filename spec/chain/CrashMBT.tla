------------------------------ MODULE CrashMBT ------------------------------
(* Behaviour generation for the replayer (harness/engines/crash): Crash plus a history variable;
   after MaxOps operations (and no prune in flight, and a restart after a final crash) the history
   is printed as one JSON line and the machine is reset. *)
EXTENDS MCCrash, Json

VARIABLE hist
mbtvars == <<vars, hist>>

R(S) == {RandomElement(S)}
Pick(seq) == seq[RandomElement(1..Len(seq))]

\* outcome weights: faults are frequent but do not drown the successful steps.  (The dummy
\* parameter keeps TLC from evaluating the random choice once as a constant.)
SimOutcomes(x) == IF EnableFaults THEN {Pick(<<"ok", "ok", "ok", "fail", "crash">>)} ELSE {"ok"}
PruneOutcomes(x) == IF EnableFaults THEN {Pick(<<"ok", "ok", "ok", "ok", "fail", "crash">>)} ELSE {"ok"}

\* the fault position of a generic step is the operation's OWN mutation (the last one) ...
OwnAt(o) == IF o = "ok" THEN 0 ELSE InitMuts(disk, mem) + 1
\* ... and while a lazy initialisation with durable mutations of its own is pending (a snapshot to
\* consume, a window to complete), steps that hit one of ITS mutations are offered next to them
InitFaults(x) == IF EnableFaults THEN {Pick(<<"fail", "crash">>)} ELSE {}
InitAts == 1..InitMuts(disk, mem)

SimNext ==
  IF pc.active THEN \E o \in PruneOutcomes(ops) : PruneStep(o)
  ELSE IF ~alive THEN Restart
  ELSE \/ \E o \in SimOutcomes(ops) : Store(o, OwnAt(o))
       \/ \E o \in SimOutcomes(ops) : Store(o, OwnAt(o))
       \/ \E o \in SimOutcomes(ops) : Revert(o, OwnAt(o))
       \/ \E o \in SimOutcomes(ops), n \in R(Nums) : SetL1(n, o)
       \/ \E o \in SimOutcomes(ops) : Snapshot(o, OwnAt(o))
       \/ \E end \in R(1..MaxH) : PruneStart(end)
       \/ Restart
       \/ Query("ok", 0)
       \/ InitMuts(disk, mem) > 0 /\ \E o \in InitFaults(ops), at \in R(InitAts) : Store(o, at)
       \/ InitMuts(disk, mem) > 0 /\ \E o \in InitFaults(ops), at \in R(InitAts) : Revert(o, at)
       \/ InitMuts(disk, mem) > 0 /\ \E o \in InitFaults(ops), at \in R(InitAts) : Snapshot(o, at)
       \/ InitMuts(disk, mem) > 0 /\ \E o \in InitFaults(ops), at \in R(InitAts) : Query(o, at)
       \* archive-node behaviours (no pruner): the weight of the prune goes to the graceful stop
       \/ ~EnablePrune /\ \E o \in SimOutcomes(ops) : Snapshot(o, OwnAt(o))

SetToSeq(S) == LET RECURSIVE F(_)
                   F(T) == IF T = {} THEN <<>>
                           ELSE LET x == CHOOSE y \in T : \A z \in T : (y[1] < z[1]) \/ (y[1] = z[1] /\ y[2] <= z[2])
                                IN <<x>> \o F(T \ {x})
               IN F(S)

(* the projection the replayer compares after every step *)
Proj(d, m, q) ==
  [height |-> d.height, hdr |-> SetToSeq(d.hdr), com |-> SetToSeq(d.com), su |-> SetToSeq(d.su),
   txs |-> SetToSeq(d.txs), h2n |-> SetToSeq(d.h2n), txl |-> SetToSeq(d.txl), hist |-> SetToSeq(d.hist),
   win |-> d.win.present, snap |-> d.snap.present, snapNext |-> d.snap.next, l1 |-> d.l1,
   oldest |-> Oldest(d), floor |-> m.floor,
   qok |-> q.ok, found |-> SetToSeq(q.found)]

NoQ == [ok |-> FALSE, found |-> {}]

Step ==
  /\ SimNext
  /\ LET q == IF act'.name = "Query" /\ res'.kind = "ok"
              THEN QueryOf(disk', mem') ELSE NoQ IN
     hist' = Append(hist, [a |-> act', res |-> res', post |-> Proj(disk', mem', q)])

Done == ops >= MaxOps /\ ~pc.active /\ alive

Emit ==
  /\ PrintT(ToJson(hist))
  /\ disk' = InitDisk /\ mem' = FreshMem(InitDisk) /\ alive' = TRUE /\ pc' = Idle
  /\ ver' = [n \in Nums |-> IF n <= InitH THEN 2 ELSE 1] /\ ops' = 0
  /\ act' = [name |-> "Init", outcome |-> "ok", n |-> 0] /\ res' = [kind |-> "ok", muts |-> 0]
  /\ hist' = <<>>

MBTInit == Init /\ hist = <<>>
MBTNext == IF Done THEN Emit ELSE Step
=============================================================================

\* self-test: a reader-level memo of the su lookups that outlives Store / RevertHead must violate an invariant
CONSTANTS
  MaxBlocks = 2
  MaxSize = 2
  Lens = {1}
  Kinds <- KindsOne
  EvCounts = {2}
  Revs = {FALSE}
  LastItemRunsToEnd = TRUE
  TxSectionEndsAtReceipts = TRUE
  HashIndexExact = TRUE
  RevertDropsIndexes = TRUE
  MaxReverts = 1
  MemoFamilies = {"su"}
  MemoPurged = FALSE
  FieldTable <- MCFieldTable
  VaryShapes = FALSE
  MaxClasses = 0
  CodecSlip = "none"
  SlipCodecs = {}
INIT Init
NEXT NextR
VIEW view
PROPERTIES RestartIsNoOp ReadIsNoOp
INVARIANTS ItemAccessors OutOfRange BlockAccessors ProjectionsAgree Layout Gone IndexesExact
CHECK_DEADLOCK FALSE

\* the code as it is (FixH4 = FALSE): RevertNeverFails must be violated (H4)
CONSTANTS
  Users = {"c1"}
  Sys = {}
  Slots = {"s1"}
  MaxV = 1
  Cairo0 = {"k0"}
  Sierra = {}
  TxIds = {}
  L1Txs = {}
  MaxBlocks = 3
  MaxOps = 3
  MaxTxs = 0
  Vers = {0}
  FixH4 = FALSE
  SysZeroWrites = FALSE
INIT Init
NEXT Next
VIEW shview
INVARIANTS TypeOK RevertNeverFails
CHECK_DEADLOCK FALSE

\* the code as it is (FixH4 = FALSE): RevertNeverFails must be violated (H4)
\* measured: RevertNeverFails violated after ~100 states: deploy ; zero write to an absent slot ; revert
CONSTANTS
  Users = {"c1"}
  Sys = {}
  Slots = {"s1"}
  MaxV = 1
  Cairo0 = {"k0"}
  Sierra = {}
  TxIds = {}
  L1Txs = {}
  MaxBlocks = 3
  MaxOps = 3
  MaxTxs = 0
  Vers = {0}
  FixH4 = FALSE
  SysZeroWrites = FALSE
  SplitReads = FALSE
  AtomicLegacyReads = TRUE
INIT Init
NEXT Next
VIEW shview
INVARIANTS TypeOK RevertNeverFails
PROPERTIES RestartIsNoOp
CHECK_DEADLOCK FALSE

\* exhaustive, the code as it is (both deviation switches off): chains of <= 3 blocks, <= 1 revert
\* measured: 462 distinct states, 203 103 transitions, depth 6, ~9 s on 4 workers
CONSTANTS
  MaxLen = 3
  MaxReverts = 1
  Txs <- MCTxs
  FixTxIndexMissingBlock = FALSE
  FixZeroHashState = FALSE
  WithPreConfirmed = TRUE
INIT Init
NEXT Next
VIEW view
INVARIANTS TypeOK IndexesDescribeChain
PROPERTIES ReadsAnswerFromChain RevertedNotFound FinalityFromL1Head L1AcceptedClamped ReadsArePure RestartIsNoOp InFlightAnswersFromAHeldChain
CHECK_DEADLOCK FALSE

\* exhaustive, the code as it is (the three deviation switches off): chains of <= 3 blocks, <= 1 revert
\* measured: 462 distinct states, 422 487 transitions (203 103 before the response-flag dimension), depth 6, ~14 s on 4 workers
CONSTANTS
  MaxLen = 3
  MaxReverts = 1
  Txs <- MCTxs
  FixTxIndexMissingBlock = FALSE
  FixZeroHashState = FALSE
  FixLegacyZeroWriteLog = FALSE
  LubZeroShortcut = FALSE
  NVar = 2
  Scenarios = {"base"}
  Leave = {}
  WithPreConfirmed = TRUE
INIT Init
NEXT Next
VIEW view
INVARIANTS TypeOK IndexesDescribeChain
PROPERTIES ReadsAnswerFromChain RevertedNotFound FinalityFromL1Head L1AcceptedClamped ReadsArePure RestartIsNoOp InFlightAnswersFromAHeldChain FlagsOnlyAdd LastUpdateWithinChain
CHECK_DEADLOCK FALSE

\* self-test (mutant "a reverted receipt with the empty reason hashes 0 like a success"): TLC must report a violation
CONSTANTS
  Versions <- MCVersions
  Committed <- MCCommitted
  TxFields <- MCTxFields
  SdFields <- MCSdFields
  SuFields <- MCSuFields
  MaxLen = 2
  Shapes <- MCShapesCls
  Targets <- MCTargets
  EmptyDiffShapes <- MCEmptyDiffShapes
  ClassShapes <- MCClassShapes
  DeployShapes <- MCDeployShapes
  CasmV2From = 4
  ClassFields <- MCClassFields
  TxClassFields <- MCTxClassFields
  ClassOf <- MCClassOf
  ValidClassOf <- MCValidClassOf
  ClassIn <- MCClassIn
  ShapeClass <- MCShapeClass
  ProtoSame <- MCProtoSame
  MalformedRefused = TRUE
  ZeroAsAbsent <- MCEmptyReasonAsSuccess
  MaxPending = 0
  SuccessionChecked = TRUE
  RootChecked = TRUE
  RootCheckedOnEmptyDiff = TRUE
  TxHashesChecked = TRUE
  WriteBeforeChecks = FALSE
  DeployGuard = TRUE
  ExistGuard = TRUE
  MigrateGuard = TRUE
  RedeclareGuard = TRUE
INIT Init
NEXT Next
VIEW view
INVARIANTS TypeOK StoredChainValid StateIsChain DbConsistent
PROPERTIES AcceptedOnlyIfValid RejectedUnchanged TamperRejected ValidAccepted PendingStoredIffContinues RestartIsNoOp InapplicableLooksValid
CHECK_DEADLOCK FALSE

------------------------------- MODULE MCRpcReadHist -------------------------------
(* Model-checking instance for the section scenarios of RpcRead (what a reverted block leaves behind):
   the trace alias prints every state of a counterexample as one record of the replayer's behaviour
   format (the same fields RpcReadMBT!Step records), so that the counterexample TLC finds for a residue
   switch (RpcRead_x_*.cfg) is replayed on the real stack as a directed script by checks/C08.py. *)
EXTENDS MCRpcRead, Json

StepRecord ==
  [a |-> act, res |-> res, want |-> want, chain |-> chain, l1 |-> l1, scn |-> scn,
   want0 |-> IF IsRead(act) /\ "fl" \in DOMAIN act THEN DWantIn(chain, l1, Unflag(act)) ELSE NoRes,
   res0 |-> IF IsRead(act) /\ "fl" \in DOMAIN act THEN IRes(Unflag(act)) ELSE NoRes]
TraceAlias == [j |-> ToJson(StepRecord)]
=============================================================================

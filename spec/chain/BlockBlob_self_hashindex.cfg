\* self-test: a hash index pointing at index+1 must violate an invariant
CONSTANTS
  MaxBlocks = 1
  MaxSize = 2
  Lens = {1, 2}
  Kinds <- KindsOne
  EvCounts = {2}
  Revs = {FALSE}
  LastItemRunsToEnd = TRUE
  TxSectionEndsAtReceipts = TRUE
  HashIndexExact = FALSE
  RevertDropsIndexes = TRUE
  MaxReverts = 0
  MemoFamilies = {}
  MemoPurged = TRUE
  FieldTable <- MCFieldTable
  VaryShapes = FALSE
  MaxClasses = 0
  CodecSlip = "none"
  SlipCodecs = {}
INIT Init
NEXT NextR
VIEW view
PROPERTIES RestartIsNoOp ReadIsNoOp
INVARIANTS ItemAccessors OutOfRange BlockAccessors ProjectionsAgree Layout Gone IndexesExact
CHECK_DEADLOCK FALSE

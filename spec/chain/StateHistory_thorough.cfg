\* as quick with <= 4 blocks, diffs of <= 2 entries
\* measured: 101 147 distinct states, ~1 min on 4 workers
CONSTANTS
  Users = {"c1"}
  Sys = {}
  Slots = {"s1"}
  MaxV = 2
  Cairo0 = {"k0", "k1"}
  Sierra = {}
  TxIds = {}
  L1Txs = {}
  MaxBlocks = 4
  MaxOps = 2
  MaxTxs = 0
  Vers = {0}
  FixH4 = TRUE
  SysZeroWrites = FALSE
  SplitReads = FALSE
  AtomicLegacyReads = TRUE
INIT Init
NEXT Next
VIEW shview
INVARIANTS TypeOK RevertNeverFails ReadsAgree HeadAgrees NoOrphanLogs Canon
PROPERTIES RestartIsNoOp
CHECK_DEADLOCK FALSE

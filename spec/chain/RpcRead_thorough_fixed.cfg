\* exhaustive, repaired design: chains of <= 4 blocks, <= 2 reverts
\* measured: same size as RpcRead_thorough.cfg
CONSTANTS
  MaxLen = 4
  MaxReverts = 2
  Txs <- MCTxs
  FixTxIndexMissingBlock = TRUE
  FixZeroHashState = TRUE
  FixLegacyZeroWriteLog = TRUE
  LubZeroShortcut = FALSE
  NVar = 2
  Scenarios = {"base"}
  Leave = {}
  WithPreConfirmed = TRUE
INIT Init
NEXT Next
VIEW view
INVARIANTS TypeOK IndexesDescribeChain
PROPERTIES ReadsAnswerFromChainStrict RevertedNotFound FinalityFromL1Head L1AcceptedClamped ReadsArePure RestartIsNoOp InFlightAnswersFromAHeldChain
CHECK_DEADLOCK FALSE

\* repaired model, base chain 0..1 below the bloom-window boundary (2), 13 operations over 6 block numbers x 3 versions, two-block prune batches, faults in every durable mutation (initialisation included); exhaustive: 775 134 distinct states (7 099 834 generated), 129 s on 4 workers
CONSTANTS
  MaxH = 5
  MaxVer = 3
  MaxOps = 13
  InitH = 1
  Boundary = 2
  Genesis = FALSE
  Lag = 10
  PruneBatch = 2
  EnableFaults = TRUE
  EnablePrune = TRUE
  FixMemAfterCommit = TRUE
  FixSnapshot = TRUE
  FixReorgWindow = TRUE
  FixPruneAtomicFloor = TRUE
  FixCacheOnReorg = TRUE
  FixInitConsume = TRUE
  FixInitRetry = TRUE
INIT Init
NEXT Next
VIEW view
INVARIANTS InitMutsBounded TypeOK Consistent MemAgreesWithDisk NextStoreSucceeds StateReadsCorrect
PROPERTIES FailedInitIsRetried FailedWriteAppliesNothing RestartIsNoOp
CHECK_DEADLOCK FALSE

\* behaviour generation (tlc -simulate) on the real geometry: W = 8192, base image of 8190 empty
\* blocks (modelled blocks 8190, 8191 | 8192, 8193, 8194: the window boundary is 8191|8192)
CONSTANTS
  W = 8192
  Base = 8190
  MaxBlocks = 5
  MaxGraceful = 100
  BlockMenu <- BlocksAll
  FilterMenu <- FiltersMany
  AnyRange = FALSE
  PurgeAt <- PurgeAlways
  DropReopenedWindow = TRUE
  SnapshotConsumedOnLoad = TRUE
  ClearRevertedColumn = TRUE
  MaxSteps = 14
INIT MBTInit
NEXT MBTNext
CHECK_DEADLOCK FALSE

\* self-test: a transactions section that runs into the receipts must violate an invariant
CONSTANTS
  MaxBlocks = 1
  MaxSize = 2
  Lens = {1, 2}
  Kinds <- KindsOne
  EvCounts = {2}
  Revs = {FALSE}
  LastItemRunsToEnd = TRUE
  TxSectionEndsAtReceipts = FALSE
  HashIndexExact = TRUE
INIT Init
NEXT NextR
VIEW view
PROPERTIES RestartIsNoOp
INVARIANTS ItemAccessors OutOfRange BlockAccessors ProjectionsAgree Layout
CHECK_DEADLOCK FALSE

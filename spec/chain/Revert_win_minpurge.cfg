\* the least purge policy that is correct (only the revert that re-opens a window): holds - so the purge offset that matters is W-1
CONSTANTS
  W = 3
  Base = 2
  MaxBlocks = 5
  MaxGraceful = 1
  BlockMenu <- BlocksAB
  FilterMenu <- FiltersK
  AnyRange = FALSE
  PurgeAt <- PurgeLast
  DropReopenedWindow = TRUE
  SnapshotConsumedOnLoad = TRUE
  ClearRevertedColumn = TRUE
INIT WInit
NEXT WNext
VIEW wview
INVARIANTS WTypeOK TwinSane DiskAsTwin RunningAsTwin AnswersAsTwin NextAsTwin CacheFresh PersistedComplete SnapshotCurrent
PROPERTIES WRestartIsNoOp CallsNeverFail
CHECK_DEADLOCK FALSE

\* exhaustive, the section scenarios (every state-diff section in isolation), the code as it is: a setup block
\* + <= 2 blocks of 3 variants (S for target 1 / S for target 2 / empty diff), <= 1 revert; the state methods
\* and getStateUpdate by every number, every hash ever stored and latest
\* measured: 820 distinct states, 115 520 transitions, depth 6, ~15 s on 4 workers (10 initial states: one per scenario)
CONSTANTS
  MaxLen = 3
  MaxReverts = 1
  Txs <- MCTxs
  FixTxIndexMissingBlock = FALSE
  FixZeroHashState = FALSE
  FixLegacyZeroWriteLog = FALSE
  LubZeroShortcut = FALSE
  NVar = 3
  Scenarios = {"stor", "clear", "zz", "nonce", "repl", "deploy", "depacc", "decl0", "decl1", "mig"}
  Leave = {}
  WithPreConfirmed = FALSE
INIT Init
NEXT NextHist
VIEW view
INVARIANTS TypeOK IndexesDescribeChain
PROPERTIES ReadsAnswerFromChain RevertedNotFound ReadsArePure FlagsOnlyAdd LastUpdateWithinChain
CHECK_DEADLOCK FALSE

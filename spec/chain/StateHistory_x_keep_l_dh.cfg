\* expected violation (ReadsAgree): RevertHead leaves the deployment height of a deployed contract behind (legacy encoding)
\* exhaustive; TLC's counterexample is the minimal history in which a later read sees the leftover
\* measured over the 17 kinds: ReadsAgree violated after 330 - 3 140 distinct states, counterexamples of 3 - 7 steps (a few seconds each)
CONSTANTS
  Users = {"c1"}
  Sys = {}
  Slots = {"s1"}
  MaxV = 1
  Cairo0 = {"k0", "k1"}
  Sierra = {}
  TxIds = {}
  L1Txs = {}
  MaxBlocks = 3
  MaxOps = 2
  MaxTxs = 0
  Vers = {0}
  FixH4 = TRUE
  SysZeroWrites = FALSE
  SplitReads = FALSE
  AtomicLegacyReads = TRUE
  RevertKeeps <- Keep_l_dh
INIT Init
NEXT Next
VIEW shview
INVARIANTS TypeOK ReadsAgree
CHECK_DEADLOCK FALSE

\* Sierra class across the 0.14.1 switch with one L1-handler transaction, <= 4 blocks
\* measured: 316 510 distinct states, 949 527 generated, ~2.5 min on 4 workers
CONSTANTS
  Users = {"c1"}
  Sys = {}
  Slots = {"s1"}
  MaxV = 1
  Cairo0 = {}
  Sierra = {"k1"}
  TxIds = {"l1a"}
  L1Txs = {"l1a"}
  MaxBlocks = 4
  MaxOps = 2
  MaxTxs = 1
  Vers = {0, 1}
  FixH4 = TRUE
  SysZeroWrites = FALSE
  SplitReads = FALSE
  AtomicLegacyReads = TRUE
  FilterReorgInBatch = TRUE
INIT RInit
NEXT RNext
VIEW rview
INVARIANTS TypeOK RevertNeverFails ReadsAgree HeadAgrees NoOrphanLogs Canon IdxCanon IdxSound FilterCoversChain
PROPERTIES RRestartIsNoOp
CHECK_DEADLOCK FALSE

\* block level: one contract, one slot, values {0,1}, one class, 3 transactions (one L1 handler), <= 3 blocks, <= 2 diff entries, <= 1 tx
\* measured: 20 684 distinct states, 62 049 generated
CONSTANTS
  Users = {"c1"}
  Sys = {}
  Slots = {"s1"}
  MaxV = 1
  Cairo0 = {"k0"}
  Sierra = {}
  TxIds = {"t1", "t2", "l1a"}
  L1Txs = {"l1a"}
  MaxBlocks = 3
  MaxOps = 2
  MaxTxs = 1
  Vers = {0}
  FixH4 = TRUE
  SysZeroWrites = FALSE
  SplitReads = FALSE
  AtomicLegacyReads = TRUE
  FilterReorgInBatch = TRUE
INIT RInit
NEXT RNext
VIEW rview
INVARIANTS TypeOK RevertNeverFails ReadsAgree HeadAgrees NoOrphanLogs Canon IdxCanon IdxSound FilterCoversChain
PROPERTIES RRestartIsNoOp
CHECK_DEADLOCK FALSE

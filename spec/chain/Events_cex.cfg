\* minimal counterexample of one defect on the real geometry (W = 8192, base image of 8188 blocks).
\* checks/C09.py rewrites the three switches (one FALSE at a time), MaxGraceful and the invariant;
\* no VIEW: act/res are part of the state so that the Cex* invariants see every call's result.
\* measured: 392..1 047 distinct states until the (BFS-minimal) counterexample, depth 7..10
CONSTANTS
  W = 8192
  Base = 8188
  MaxBlocks = 6
  MaxGraceful = 0
  BlockMenu <- BlocksMin
  FilterMenu <- FiltersMin
  Chunks = {100}
  Limits = {0}
  RangeSlack <- FullRangeOnly
  InvalidateCacheOnReorg = FALSE
  SnapshotConsumedOnLoad = TRUE
  DropReopenedWindow = FALSE
INIT Init
NEXT Next
INVARIANTS CexQuery
CHECK_DEADLOCK FALSE

\* exhaustive: chains of <= 2 blocks of 0..2 transactions with <= 2 RevertHead: every replacement block re-including any
\* injective selection of reverted transactions (other index, other height, subset, superset) next to fresh ones
CONSTANTS
  MaxBlocks = 2
  MaxSize = 2
  Lens = {1}
  Kinds <- KindsOne
  EvCounts = {2}
  Revs = {FALSE}
  LastItemRunsToEnd = TRUE
  TxSectionEndsAtReceipts = TRUE
  HashIndexExact = TRUE
  RevertDropsIndexes = TRUE
  MaxReverts = 2
  MemoFamilies = {}
  MemoPurged = TRUE
  FieldTable <- MCFieldTable
  VaryShapes = FALSE
  MaxClasses = 0
  CodecSlip = "none"
  SlipCodecs = {}
INIT Init
NEXT NextR
VIEW view
PROPERTIES RestartIsNoOp ReadIsNoOp
INVARIANTS ItemAccessors OutOfRange BlockAccessors ProjectionsAgree Layout Gone IndexesExact ShapePreserved
CHECK_DEADLOCK FALSE

\* repaired model, from an empty database, no bloom-window boundary in reach, 7 operations x every durable mutation (those of the lazy filter initialisation included) x {ok,fail,crash}; exhaustive: 4 115 distinct states (28 968 generated), 3 s
CONSTANTS
  MaxH = 3
  MaxVer = 2
  MaxOps = 7
  InitH <- EmptyDB
  Boundary = 99
  Genesis = TRUE
  Lag = 10
  PruneBatch = 1
  EnableFaults = TRUE
  EnablePrune = TRUE
  FixMemAfterCommit = TRUE
  FixSnapshot = TRUE
  FixReorgWindow = TRUE
  FixPruneAtomicFloor = TRUE
  FixCacheOnReorg = TRUE
  FixInitConsume = TRUE
  FixInitRetry = TRUE
INIT Init
NEXT Next
VIEW view
INVARIANTS InitMutsBounded TypeOK Consistent MemAgreesWithDisk NextStoreSucceeds StateReadsCorrect
PROPERTIES FailedInitIsRetried FailedWriteAppliesNothing RestartIsNoOp
CHECK_DEADLOCK FALSE

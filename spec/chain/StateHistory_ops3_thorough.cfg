\* one user contract, one slot, values {0,1,2}, two Cairo-0 classes, <= 3 blocks, diffs of <= 3 entries
\* measured: 59 754 distinct states, 179 261 generated
CONSTANTS
  Users = {"c1"}
  Sys = {}
  Slots = {"s1"}
  MaxV = 2
  Cairo0 = {"k0", "k1"}
  Sierra = {}
  TxIds = {}
  L1Txs = {}
  MaxBlocks = 3
  MaxOps = 3
  MaxTxs = 0
  Vers = {0}
  FixH4 = TRUE
  SysZeroWrites = FALSE
  SplitReads = FALSE
  AtomicLegacyReads = TRUE
INIT Init
NEXT Next
VIEW shview
INVARIANTS TypeOK RevertNeverFails ReadsAgree HeadAgrees NoOrphanLogs Canon
PROPERTIES RestartIsNoOp
CHECK_DEADLOCK FALSE

\* behaviour generation (tlc -simulate) on the real geometry: W = 8192, base image of 8188 empty
\* blocks (model block 8188 + i; the window boundary is 8191|8192).  checks/C09.py rewrites the
\* three switches to describe the tree under test (calibrated by replaying the minimal
\* counterexamples) and, in the thorough tier, Base = 16380 (boundary 16383|16384, two complete
\* windows below).
CONSTANTS
  W = 8192
  Base = 8188
  MaxBlocks = 10
  MaxGraceful = 3
  BlockMenu <- BlocksMin
  FilterMenu <- FiltersMin
  Chunks = {1, 2, 3, 100}
  Limits = {0, 1, 2, 3}
  RangeSlack = 2
  MaxSteps = 24
  InvalidateCacheOnReorg = TRUE
  SnapshotConsumedOnLoad = TRUE
  DropReopenedWindow = TRUE
INIT MBTInit
NEXT MBTNext
CHECK_DEADLOCK FALSE

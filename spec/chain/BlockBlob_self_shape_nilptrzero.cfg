\* self-test: a nil pointer is decoded to a pointer to the zero value - must violate ShapePreserved / CodecAgreesWithTable
CONSTANTS
  MaxBlocks = 1
  MaxSize = 1
  Lens = {1}
  Kinds <- KindsTypes
  EvCounts = {2}
  Revs = {FALSE}
  LastItemRunsToEnd = TRUE
  TxSectionEndsAtReceipts = TRUE
  HashIndexExact = TRUE
  RevertDropsIndexes = TRUE
  MaxReverts = 0
  MemoFamilies = {}
  MemoPurged = TRUE
  FieldTable <- MCFieldTable
  VaryShapes = TRUE
  MaxClasses = 1
  CodecSlip = "nilptr->zero"
  SlipCodecs = {"cbor"}
INIT Init
NEXT NextR
VIEW view
PROPERTIES RestartIsNoOp ReadIsNoOp
INVARIANTS ShapePreserved ItemAccessors OutOfRange BlockAccessors ProjectionsAgree Layout Gone IndexesExact
CHECK_DEADLOCK FALSE

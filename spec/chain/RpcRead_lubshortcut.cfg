\* expected violation: the repaired design with the history lookup of last_update_block skipped for zero
\* values (the seeded change C08-6): a slot set at height 1 and cleared at height 2 then reports 0.
\* TLC must report ReadsAnswerFromChainStrict violated (the switch bites, the property is not vacuous there).
CONSTANTS
  MaxLen = 3
  MaxReverts = 0
  Txs <- MCTxs
  FixTxIndexMissingBlock = TRUE
  FixZeroHashState = TRUE
  FixLegacyZeroWriteLog = TRUE
  LubZeroShortcut = TRUE
  NVar = 2
  Scenarios = {"base"}
  Leave = {}
  WithPreConfirmed = FALSE
INIT Init
NEXT Next
VIEW view
PROPERTIES ReadsAnswerFromChainStrict
CHECK_DEADLOCK FALSE

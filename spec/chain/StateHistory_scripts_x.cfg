\* kill matrix: the directed behaviours under a mutant "RevertHead leaves the entry of kind K behind" must violate
\* ReadsAgree. The checks substitute every Keep_<encoding>_<kind> for Keep_n_stor0 (exhaustive over the scripts: BFS of a deterministic machine)
CONSTANTS
  Users = {"c1", "c2"}
  Sys = {"sys1", "sys2"}
  Slots = {"s1", "s2", "s3"}
  MaxV = 3
  Cairo0 = {"k0", "k0b"}
  Sierra = {"k1", "k2"}
  TxIds = {}
  L1Txs = {}
  MaxBlocks = 6
  MaxOps = 0
  MaxTxs = 0
  Vers = {0, 1}
  FixH4 = TRUE
  SysZeroWrites = FALSE
  SplitReads = FALSE
  AtomicLegacyReads = TRUE
  FilterReorgInBatch = TRUE
  MaxSteps = 16
  SimMaxOps = 5
  RevertKeeps <- Keep_n_stor0
INIT SInit
NEXT SNext
INVARIANTS TypeOK ScriptOK ReadsAgree
CHECK_DEADLOCK FALSE

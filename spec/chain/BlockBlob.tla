------------------------------- MODULE BlockBlob -------------------------------
(* Property C07: everything stored for a block is returned unchanged by every accessor; the
   partial decoders agree with the full decoder.

   Transcribes the indexed blob of core/block_transaction.go + core/indexed (one database value
   per block: an index header with the start offsets of the encoded transactions and receipts,
   then the encodings back to back; receipts offsets are ABSOLUTE into the data), the lazy slice
   (Get(i) decodes data[idx[i] : idx[i+1]) and the LAST item runs to the end of its section;
   out of range = ErrKeyNotFound), transactionsSection (= data up to Receipts[0], or all data when
   there are no receipts), the three projections of core/partial_cbor.go (transaction hash only;
   receipt events + hash; receipt execution status), and the read accessors of core/accessors.go /
   blockchain.Reader as functions of the database.

   Bytes are abstract cells <<item, position, length>>: decoding a byte range succeeds iff the
   range is exactly one whole encoding of the wanted sort (CBOR rejects truncated input and
   trailing bytes; a receipt does not decode as a transaction).  Byte-level codec identity is not
   modelled - the Go replayer exercises it (DESIGN.md section 8). *)
EXTENDS Integers, Sequences, FiniteSets, TLC

CONSTANTS MaxBlocks,      \* chain length bound
          MaxSize,        \* transactions per block 0..MaxSize
          Lens,           \* possible encoded lengths of an item, e.g. {1, 2}
          Kinds,          \* transaction kinds (a concretisation hint carried by the item)
          EvCounts,       \* possible numbers of events of a receipt
          Revs,           \* possible execution statuses (reverted?) of a receipt
          (* design switches; TRUE = the code as it is, FALSE = a plausible slip, used as self-test *)
          LastItemRunsToEnd,        \* lazy slice: the last item ends at len(data)
          TxSectionEndsAtReceipts,  \* transactionsSection stops where receipts begin
          HashIndexExact            \* the tx-hash index stores (number, index) of the transaction itself

VARIABLES chain,   \* ghost: what was handed to Store, per block [txs, rcs, su, l1]
          db,      \* the database: [height, blobs, headers, byHash, txIndex, sus, l1]
          act, res

vars == <<chain, db, act, res>>
view == <<chain, db>>

NotFound == [k |-> "notfound"]
Error == [k |-> "error"]
Found(v) == [k |-> "found", v |-> v]

--------------------------------------------------------------------------------
(* items *)
BlockHash(n) == <<"block", n>>
TxHash(n, i) == <<"tx", n, i>>
Tx(n, i, kind) == [sort |-> "tx", hash |-> TxHash(n, i), kind |-> kind]
Rc(n, i, nev, rev) == [sort |-> "rc", hash |-> TxHash(n, i), events |-> [e \in 1..nev |-> <<"ev", n, i, e>>],
                       rev |-> rev, reason |-> IF rev THEN <<"reason", n, i>> ELSE <<>>,
                       rest |-> <<"fee-resources-messages", n, i>>]

(* the three projections, as functions of the full item *)
HashProj(tx) == tx.hash
EventsProj(rc) == [events |-> rc.events, hash |-> rc.hash]
StatusProj(rc) == [rev |-> rc.rev, reason |-> rc.reason]

--------------------------------------------------------------------------------
(* encoding: item -> cells; decoding a byte range *)
Enc(item, len) == [j \in 1..len |-> [item |-> item, pos |-> j, len |-> len]]

DecodeAs(sort, cells) ==
  IF /\ Len(cells) >= 1
     /\ cells[1].pos = 1 /\ cells[1].len = Len(cells)
     /\ \A j \in 1..Len(cells) : cells[j].item = cells[1].item /\ cells[j].pos = j
     /\ cells[1].item.sort = sort
  THEN Found(cells[1].item) ELSE Error

Slice(data, s, e) == IF e <= s THEN <<>> ELSE SubSeq(data, s + 1, e)      \* bytes [s, e), 0-based

RECURSIVE Sum(_, _)
Sum(lens, k) == IF k = 0 THEN 0 ELSE lens[k] + Sum(lens, k - 1)
RECURSIVE Flat(_, _, _)
Flat(items, lens, k) == IF k = 0 THEN <<>> ELSE Flat(items, lens, k - 1) \o Enc(items[k], lens[k])

(* core.NewBlockTransactions: indexed.Write(transactions) then indexed.Write(receipts) on ONE buffer *)
BuildBlob(txs, rcs, tl, rl) ==
  LET txBytes == Sum(tl, Len(txs)) IN
  [idx |-> [txs |-> [i \in 1..Len(txs) |-> Sum(tl, i - 1)],
            rcs |-> [i \in 1..Len(rcs) |-> txBytes + Sum(rl, i - 1)]],
   data |-> Flat(txs, tl, Len(txs)) \o Flat(rcs, rl, Len(rcs))]

(* indexed.LazySlice.Get *)
LazyGet(sort, idx, data, i) ==
  IF i < 0 \/ i >= Len(idx) THEN NotFound
  ELSE LET start == idx[i + 1]
           end == IF i < Len(idx) - 1 THEN idx[i + 2]
                  ELSE IF LastItemRunsToEnd THEN Len(data) ELSE Len(data) - 1
       IN DecodeAs(sort, Slice(data, start, end))

TxSection(b) == IF Len(b.idx.rcs) > 0 /\ TxSectionEndsAtReceipts THEN Slice(b.data, 0, b.idx.rcs[1]) ELSE b.data
RcSection(b) == b.data

(* LazySlice.All / AllMapped: all or error *)
All(sort, idx, data) ==
  LET r == [i \in 1..Len(idx) |-> LazyGet(sort, idx, data, i - 1)] IN
  IF \E i \in 1..Len(idx) : r[i].k # "found" THEN Error ELSE Found([i \in 1..Len(idx) |-> r[i].v])

Map(r, f(_)) == IF r.k # "found" THEN r ELSE Found([i \in 1..Len(r.v) |-> f(r.v[i])])
Map1(r, f(_)) == IF r.k # "found" THEN r ELSE Found(f(r.v))

--------------------------------------------------------------------------------
(* the read accessors, as functions of db *)
Has(n) == n >= 0 /\ n <= db.height /\ n < Len(db.blobs)
Blob(n) == db.blobs[n + 1]

TxByIndex(n, i) == IF ~Has(n) THEN NotFound ELSE LazyGet("tx", Blob(n).idx.txs, TxSection(Blob(n)), i)
RcByIndex(n, i) == IF ~Has(n) THEN NotFound ELSE LazyGet("rc", Blob(n).idx.rcs, RcSection(Blob(n)), i)
TxAndRcByIndex(n, i) ==
  LET t == TxByIndex(n, i) r == RcByIndex(n, i) IN
  IF t.k # "found" THEN t ELSE IF r.k # "found" THEN r ELSE Found(<<t.v, r.v>>)
StatusByIndex(n, i) == Map1(RcByIndex(n, i), StatusProj)        \* receiptExecutionStatusProjection
AllTxs(n) == IF ~Has(n) THEN NotFound ELSE All("tx", Blob(n).idx.txs, TxSection(Blob(n)))
AllRcs(n) == IF ~Has(n) THEN NotFound ELSE All("rc", Blob(n).idx.rcs, RcSection(Blob(n)))
TxHashes(n) == Map(AllTxs(n), HashProj)                          \* transactionHashProjection
TxEvents(n) == Map(AllRcs(n), EventsProj)                        \* receiptEventsProjection

HeaderByNumber(n) == IF n >= 0 /\ n < Len(db.headers) /\ n <= db.height THEN Found(db.headers[n + 1]) ELSE NotFound
TxCount(n) == Map1(HeaderByNumber(n), LAMBDA h : h.count)       \* headerTransactionCountProjection
NumberByHash(h) == IF \E p \in db.byHash : p[1] = h
                   THEN Found((CHOOSE p \in db.byHash : p[1] = h)[2]) ELSE NotFound
HeaderByHash(h) == LET r == NumberByHash(h) IN IF r.k # "found" THEN r ELSE HeaderByNumber(r.v)
BlockByNumber(n) ==
  LET h == HeaderByNumber(n) t == AllTxs(n) r == AllRcs(n) IN
  IF h.k # "found" THEN h ELSE IF t.k # "found" THEN t ELSE IF r.k # "found" THEN r
  ELSE Found([header |-> h.v, txs |-> t.v, rcs |-> r.v])
BlockByHash(h) == LET r == NumberByHash(h) IN IF r.k # "found" THEN r ELSE BlockByNumber(r.v)

Locate(h) == IF \E e \in db.txIndex : e[1] = h
             THEN Found(CHOOSE e \in db.txIndex : e[1] = h) ELSE NotFound
TxByHash(h) == LET l == Locate(h) IN IF l.k # "found" THEN l ELSE TxByIndex(l.v[2], l.v[3])
ReceiptByHash(h) ==
  LET l == Locate(h) IN
  IF l.k # "found" THEN l
  ELSE LET r == RcByIndex(l.v[2], l.v[3]) hd == HeaderByNumber(l.v[2]) IN
       IF r.k # "found" THEN r ELSE IF hd.k # "found" THEN hd
       ELSE Found([rc |-> r.v, blockHash |-> hd.v.hash, number |-> l.v[2]])

SUByNumber(n) == IF n >= 0 /\ n < Len(db.sus) /\ n <= db.height THEN Found(db.sus[n + 1]) ELSE NotFound
SUByHash(h) == LET r == NumberByHash(h) IN IF r.k # "found" THEN r ELSE SUByNumber(r.v)
L1Lookup(m) == IF \E p \in db.l1 : p[1] = m THEN Found((CHOOSE p \in db.l1 : p[1] = m)[2]) ELSE NotFound

--------------------------------------------------------------------------------
(* the write path: core.WriteBlockHeader, WriteTransactionsAndReceipts, WriteStateUpdateByBlockNum,
   WriteL1HandlerMsgHashes, WriteChainHeight - one batch *)
Seqs(S, n) == [1..n -> S]

Store(size, kinds, evs, revs, tl, rl) ==
  LET n == Len(chain)
      txs == [i \in 1..size |-> Tx(n, i - 1, kinds[i])]
      rcs == [i \in 1..size |-> Rc(n, i - 1, evs[i], revs[i])]
      l1 == {<<<<"msg", n, i - 1>>, TxHash(n, i - 1)>> : i \in {j \in 1..size : kinds[j] = "l1handler"}}
      hdr == [number |-> n, hash |-> BlockHash(n), count |-> size]
      su == [blockHash |-> BlockHash(n), diff |-> <<"diff", n>>]
  IN
  /\ n < MaxBlocks
  /\ chain' = Append(chain, [txs |-> txs, rcs |-> rcs, su |-> su, l1 |-> l1, hdr |-> hdr])
  /\ db' = [height |-> n,
            blobs |-> Append(db.blobs, BuildBlob(txs, rcs, tl, rl)),
            headers |-> Append(db.headers, hdr),
            byHash |-> db.byHash \cup {<<BlockHash(n), n>>},
            txIndex |-> db.txIndex \cup {<<TxHash(n, i - 1), n, IF HashIndexExact THEN i - 1 ELSE i>> : i \in 1..size},
            sus |-> Append(db.sus, su),
            l1 |-> db.l1 \cup l1]
  /\ act' = [name |-> "Store", size |-> size, kinds |-> kinds, evs |-> evs, revs |-> revs]
  /\ res' = [k |-> "ok"]

(* the node restarts (new objects over the same database; gracefully or not): everything an
   accessor answers from is in the database, so every answer is what it was *)
Restart(graceful) ==
  /\ Len(chain) > 0
  /\ act' = [name |-> "Restart", graceful |-> graceful]
  /\ res' = [k |-> "ok"]
  /\ UNCHANGED <<chain, db>>

Init ==
  /\ chain = <<>>
  /\ db = [height |-> -1, blobs |-> <<>>, headers |-> <<>>, byHash |-> {}, txIndex |-> {}, sus |-> <<>>, l1 |-> {}]
  /\ act = [name |-> "Init"] /\ res = [k |-> "none"]

Next ==
  \E size \in 0..MaxSize :
    \E kinds \in Seqs(Kinds, size), evs \in Seqs(EvCounts, size), revs \in Seqs(Revs, size),
       tl \in Seqs(Lens, size), rl \in Seqs(Lens, size) :
      Store(size, kinds, evs, revs, tl, rl)

NextR == Next \/ \E g \in BOOLEAN : Restart(g)

Spec == Init /\ [][Next]_vars

--------------------------------------------------------------------------------
(* properties: for every stored block n, every index i (in range, and the first out of range),
   every hash *)
Stored == 0..(Len(chain) - 1)
Size(n) == Len(chain[n + 1].txs)

ItemAccessors ==
  \A n \in Stored : \A i \in 0..(Size(n) - 1) :
    /\ TxByIndex(n, i) = Found(chain[n + 1].txs[i + 1])
    /\ RcByIndex(n, i) = Found(chain[n + 1].rcs[i + 1])
    /\ TxAndRcByIndex(n, i) = Found(<<chain[n + 1].txs[i + 1], chain[n + 1].rcs[i + 1]>>)
    /\ TxByHash(TxHash(n, i)) = Found(chain[n + 1].txs[i + 1])
    /\ ReceiptByHash(TxHash(n, i)) = Found([rc |-> chain[n + 1].rcs[i + 1], blockHash |-> BlockHash(n), number |-> n])

OutOfRange ==
  /\ \A n \in Stored : /\ TxByIndex(n, Size(n)) = NotFound /\ RcByIndex(n, Size(n)) = NotFound
                       /\ StatusByIndex(n, Size(n)) = NotFound /\ TxAndRcByIndex(n, Size(n)) = NotFound
                       /\ TxByIndex(n, -1) = NotFound
                       /\ TxByHash(TxHash(n, Size(n))) = NotFound
  /\ LET m == Len(chain) IN
     /\ TxByIndex(m, 0) = NotFound /\ AllTxs(m) = NotFound /\ AllRcs(m) = NotFound
     /\ HeaderByNumber(m) = NotFound /\ BlockByNumber(m) = NotFound /\ SUByNumber(m) = NotFound
     /\ TxCount(m) = NotFound /\ HeaderByHash(BlockHash(m)) = NotFound /\ SUByHash(BlockHash(m)) = NotFound

BlockAccessors ==
  \A n \in Stored :
    /\ AllTxs(n) = Found(chain[n + 1].txs)
    /\ AllRcs(n) = Found(chain[n + 1].rcs)
    /\ TxCount(n) = Found(Size(n))
    /\ HeaderByNumber(n) = Found(chain[n + 1].hdr)
    /\ HeaderByHash(BlockHash(n)) = Found(chain[n + 1].hdr)
    /\ NumberByHash(BlockHash(n)) = Found(n)
    /\ BlockByNumber(n) = Found([header |-> chain[n + 1].hdr, txs |-> chain[n + 1].txs, rcs |-> chain[n + 1].rcs])
    /\ BlockByHash(BlockHash(n)) = BlockByNumber(n)
    /\ SUByNumber(n) = Found(chain[n + 1].su)
    /\ SUByHash(BlockHash(n)) = SUByNumber(n)
    /\ \A p \in chain[n + 1].l1 : L1Lookup(p[1]) = Found(p[2])

(* the partial decoders agree with the full decoder on every record *)
ProjectionsAgree ==
  \A n \in Stored :
    /\ TxHashes(n) = Found([i \in 1..Size(n) |-> TxHash(n, i - 1)])
    /\ TxEvents(n) = Found([i \in 1..Size(n) |-> EventsProj(chain[n + 1].rcs[i])])
    /\ \A i \in 0..(Size(n) - 1) : StatusByIndex(n, i) = Found(StatusProj(chain[n + 1].rcs[i + 1]))

RestartIsNoOp == [][act'.name = "Restart" => UNCHANGED <<chain, db>>]_vars

(* layout facts the accessors rely on *)
Layout ==
  \A n \in Stored :
    LET b == Blob(n) IN
    /\ Len(b.idx.txs) = Size(n) /\ Len(b.idx.rcs) = Size(n)
    /\ \A i \in 1..(Size(n) - 1) : b.idx.txs[i] < b.idx.txs[i + 1] /\ b.idx.rcs[i] < b.idx.rcs[i + 1]
    /\ (Size(n) > 0 => b.idx.txs[1] = 0 /\ b.idx.rcs[1] = Len(TxSection(b)))
    /\ (Size(n) = 0 => b.data = <<>>)
=============================================================================

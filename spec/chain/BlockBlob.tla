------------------------------- MODULE BlockBlob -------------------------------
(* Property C07: everything stored for a block is returned unchanged by every accessor; the
   partial decoders agree with the full decoder.

   Transcribes the indexed blob of core/block_transaction.go + core/indexed (one database value
   per block: an index header with the start offsets of the encoded transactions and receipts,
   then the encodings back to back; receipts offsets are ABSOLUTE into the data), the lazy slice
   (Get(i) decodes data[idx[i] : idx[i+1]) and the LAST item runs to the end of its section;
   out of range = ErrKeyNotFound), transactionsSection (= data up to Receipts[0], or all data when
   there are no receipts), the three projections of core/partial_cbor.go (transaction hash only;
   receipt events + hash; receipt execution status), and the read accessors of core/accessors.go /
   blockchain.Reader as functions of the database.

   Bytes are abstract cells <<item, position, length>>: decoding a byte range succeeds iff the
   range is exactly one whole encoding of the wanted sort (CBOR rejects truncated input and
   trailing bytes; a receipt does not decode as a transaction).  Byte-level codec identity is not
   modelled - the Go replayer exercises it (DESIGN.md section 8).

   The chain is NOT append-only: RevertHead removes the head block (header, number-by-hash,
   blob, the tx-hash index entry of every transaction of the blob, the L1 message index entry of
   every L1 handler, state update, height) and a DIFFERENT block may then be stored at that
   height. The replacement has another block hash (block "version"), and its transaction list
   may re-include transactions of reverted blocks - the same hashes at other indices or other
   heights, a permutation, a subset, a superset - next to fresh ones. "What was stored" is what is
   stored NOW: the answers for the block now at a height / the block now holding a hash; a dropped
   transaction hash, a dropped L1 message and the hash of a replaced block are NOT FOUND.
   Reads happen between any two writes. In the code as it is every accessor is a function of the
   database, so a read changes nothing; MemoFamilies / MemoPurged model a reader-level memo (a
   cache in the reader layer on top of the database, per lookup family) - a memo that is not
   dropped by Store / RevertHead is the class of defect the Replace scenario exists for. *)
EXTENDS Integers, Sequences, FiniteSets, TLC

CONSTANTS MaxBlocks,      \* chain length bound
          MaxSize,        \* transactions per block 0..MaxSize
          Lens,           \* possible encoded lengths of an item, e.g. {1, 2}
          Kinds,          \* transaction kinds (a concretisation hint carried by the item)
          EvCounts,       \* possible numbers of events of a receipt
          Revs,           \* possible execution statuses (reverted?) of a receipt
          (* design switches; TRUE = the code as it is, FALSE = a plausible slip, used as self-test *)
          LastItemRunsToEnd,        \* lazy slice: the last item ends at len(data)
          TxSectionEndsAtReceipts,  \* transactionsSection stops where receipts begin
          HashIndexExact,           \* the tx-hash index stores (number, index) of the transaction itself
          RevertDropsIndexes,       \* RevertHead deletes the tx-hash and L1-message index entries of the block
          (* the chain is not append-only *)
          MaxReverts,     \* RevertHead calls per behaviour (0 = append-only chain)
          (* reader-level memos: {} = the code as it is (every accessor reads the database) *)
          MemoFamilies,   \* subset of Families: lookups the reader layer remembers once answered
          MemoPurged      \* TRUE = Store / RevertHead drop every memo; FALSE = a memo outlives the write

VARIABLES chain,   \* ghost: what was handed to Store and is stored NOW, per block [txs, rcs, su, l1, hdr, ver]
          db,      \* the database: [height, blobs, headers, byHash, txIndex, sus, l1]
          dead,    \* ghost: [blocks: hashes of reverted blocks, txs: transactions of reverted blocks]
          ver,     \* number of Store calls so far = version of the next block (ver - Len(chain) = reverts so far)
          memo,    \* reader-level memos, per family a set of <<key, answer>> (always empty when MemoFamilies = {})
          act, res

vars == <<chain, db, dead, ver, memo, act, res>>
view == <<chain, db, dead, ver, memo>>

Families == {"loc", "num", "hdr", "blob", "su", "l1"}
NoMemo == [f \in Families |-> {}]

NotFound == [k |-> "notfound"]
Error == [k |-> "error"]
Found(v) == [k |-> "found", v |-> v]

--------------------------------------------------------------------------------
(* items *)
(* A block is identified by its VERSION v (the v-th Store call), not by its height: the block that
   replaces a reverted one has another hash. A transaction is identified by where it was FIRST
   included (version, index); re-included after a reorg it keeps its hash. A receipt belongs to one
   inclusion: the same transaction re-included gets another receipt. *)
BlockHash(v) == <<"block", v>>
TxHash(v, i) == <<"tx", v, i>>
Tx(v, i, kind) == [sort |-> "tx", hash |-> TxHash(v, i), kind |-> kind]
Rc(h, v, nev, rev) == [sort |-> "rc", hash |-> h, events |-> [e \in 1..nev |-> <<"ev", h, v, e>>],
                       rev |-> rev, reason |-> IF rev THEN <<"reason", h, v>> ELSE <<>>,
                       rest |-> <<"fee-resources-messages", h, v>>]
Msg(tx) == <<"msg", tx.hash[2], tx.hash[3]>>       \* the message hash is a function of the L1 handler
Fresh == [sort |-> "fresh"]

(* the three projections, as functions of the full item *)
HashProj(tx) == tx.hash
EventsProj(rc) == [events |-> rc.events, hash |-> rc.hash]
StatusProj(rc) == [rev |-> rc.rev, reason |-> rc.reason]

--------------------------------------------------------------------------------
(* encoding: item -> cells; decoding a byte range *)
Enc(item, len) == [j \in 1..len |-> [item |-> item, pos |-> j, len |-> len]]

DecodeAs(sort, cells) ==
  IF /\ Len(cells) >= 1
     /\ cells[1].pos = 1 /\ cells[1].len = Len(cells)
     /\ \A j \in 1..Len(cells) : cells[j].item = cells[1].item /\ cells[j].pos = j
     /\ cells[1].item.sort = sort
  THEN Found(cells[1].item) ELSE Error

Slice(data, s, e) == IF e <= s THEN <<>> ELSE SubSeq(data, s + 1, e)      \* bytes [s, e), 0-based

RECURSIVE Sum(_, _)
Sum(lens, k) == IF k = 0 THEN 0 ELSE lens[k] + Sum(lens, k - 1)
RECURSIVE Flat(_, _, _)
Flat(items, lens, k) == IF k = 0 THEN <<>> ELSE Flat(items, lens, k - 1) \o Enc(items[k], lens[k])

(* core.NewBlockTransactions: indexed.Write(transactions) then indexed.Write(receipts) on ONE buffer *)
BuildBlob(txs, rcs, tl, rl) ==
  LET txBytes == Sum(tl, Len(txs)) IN
  [idx |-> [txs |-> [i \in 1..Len(txs) |-> Sum(tl, i - 1)],
            rcs |-> [i \in 1..Len(rcs) |-> txBytes + Sum(rl, i - 1)]],
   data |-> Flat(txs, tl, Len(txs)) \o Flat(rcs, rl, Len(rcs))]

(* indexed.LazySlice.Get *)
LazyGet(sort, idx, data, i) ==
  IF i < 0 \/ i >= Len(idx) THEN NotFound
  ELSE LET start == idx[i + 1]
           end == IF i < Len(idx) - 1 THEN idx[i + 2]
                  ELSE IF LastItemRunsToEnd THEN Len(data) ELSE Len(data) - 1
       IN DecodeAs(sort, Slice(data, start, end))

TxSection(b) == IF Len(b.idx.rcs) > 0 /\ TxSectionEndsAtReceipts THEN Slice(b.data, 0, b.idx.rcs[1]) ELSE b.data
RcSection(b) == b.data

(* LazySlice.All / AllMapped: all or error *)
All(sort, idx, data) ==
  LET r == [i \in 1..Len(idx) |-> LazyGet(sort, idx, data, i - 1)] IN
  IF \E i \in 1..Len(idx) : r[i].k # "found" THEN Error ELSE Found([i \in 1..Len(idx) |-> r[i].v])

Map(r, f(_)) == IF r.k # "found" THEN r ELSE Found([i \in 1..Len(r.v) |-> f(r.v[i])])
Map1(r, f(_)) == IF r.k # "found" THEN r ELSE Found(f(r.v))

--------------------------------------------------------------------------------
(* the read accessors, as functions of db (and of the reader-level memos, when there are any) *)
MemoGet(fam, key, direct) ==
  IF fam \in MemoFamilies /\ \E p \in memo[fam] : p[1] = key
  THEN (CHOOSE p \in memo[fam] : p[1] = key)[2] ELSE direct

(* the blob of block n (same meaning as MemoGet("blob", n, ...), spelt out: Blob is used at every step of every access path) *)
BlobMemo(n) == "blob" \in MemoFamilies /\ \E p \in memo["blob"] : p[1] = n
Has(n) == BlobMemo(n) \/ (n >= 0 /\ n <= db.height /\ n < Len(db.blobs))
Blob(n) == IF BlobMemo(n) THEN (CHOOSE p \in memo["blob"] : p[1] = n)[2].v ELSE db.blobs[n + 1]
BlobAt(n) == IF Has(n) THEN Found(Blob(n)) ELSE NotFound

TxByIndex(n, i) == IF ~Has(n) THEN NotFound ELSE LazyGet("tx", Blob(n).idx.txs, TxSection(Blob(n)), i)
RcByIndex(n, i) == IF ~Has(n) THEN NotFound ELSE LazyGet("rc", Blob(n).idx.rcs, RcSection(Blob(n)), i)
TxAndRcByIndex(n, i) ==
  LET t == TxByIndex(n, i) r == RcByIndex(n, i) IN
  IF t.k # "found" THEN t ELSE IF r.k # "found" THEN r ELSE Found(<<t.v, r.v>>)
StatusByIndex(n, i) == Map1(RcByIndex(n, i), StatusProj)        \* receiptExecutionStatusProjection
AllTxs(n) == IF ~Has(n) THEN NotFound ELSE All("tx", Blob(n).idx.txs, TxSection(Blob(n)))
AllRcs(n) == IF ~Has(n) THEN NotFound ELSE All("rc", Blob(n).idx.rcs, RcSection(Blob(n)))
TxHashes(n) == Map(AllTxs(n), HashProj)                          \* transactionHashProjection
TxEvents(n) == Map(AllRcs(n), EventsProj)                        \* receiptEventsProjection

HeaderByNumber(n) == MemoGet("hdr", n, IF n >= 0 /\ n < Len(db.headers) /\ n <= db.height THEN Found(db.headers[n + 1]) ELSE NotFound)
TxCount(n) == Map1(HeaderByNumber(n), LAMBDA h : h.count)       \* headerTransactionCountProjection
NumberByHash(h) == MemoGet("num", h, IF \E p \in db.byHash : p[1] = h
                                     THEN Found((CHOOSE p \in db.byHash : p[1] = h)[2]) ELSE NotFound)
HeaderByHash(h) == LET r == NumberByHash(h) IN IF r.k # "found" THEN r ELSE HeaderByNumber(r.v)
BlockByNumber(n) ==
  LET h == HeaderByNumber(n) t == AllTxs(n) r == AllRcs(n) IN
  IF h.k # "found" THEN h ELSE IF t.k # "found" THEN t ELSE IF r.k # "found" THEN r
  ELSE Found([header |-> h.v, txs |-> t.v, rcs |-> r.v])
BlockByHash(h) == LET r == NumberByHash(h) IN IF r.k # "found" THEN r ELSE BlockByNumber(r.v)

Locate(h) == MemoGet("loc", h, IF \E e \in db.txIndex : e[1] = h
                               THEN Found(CHOOSE e \in db.txIndex : e[1] = h) ELSE NotFound)
TxByHash(h) == LET l == Locate(h) IN IF l.k # "found" THEN l ELSE TxByIndex(l.v[2], l.v[3])
LocationByHash(h) == LET l == Locate(h) IN IF l.k # "found" THEN l ELSE Found(<<l.v[2], l.v[3]>>)
ReceiptByHash(h) ==
  LET l == Locate(h) IN
  IF l.k # "found" THEN l
  ELSE LET r == RcByIndex(l.v[2], l.v[3]) hd == HeaderByNumber(l.v[2]) IN
       IF r.k # "found" THEN r ELSE IF hd.k # "found" THEN hd
       ELSE Found([rc |-> r.v, blockHash |-> hd.v.hash, number |-> l.v[2]])

SUByNumber(n) == MemoGet("su", n, IF n >= 0 /\ n < Len(db.sus) /\ n <= db.height THEN Found(db.sus[n + 1]) ELSE NotFound)
SUByHash(h) == LET r == NumberByHash(h) IN IF r.k # "found" THEN r ELSE SUByNumber(r.v)
L1Lookup(m) == MemoGet("l1", m, IF \E p \in db.l1 : p[1] = m THEN Found((CHOOSE p \in db.l1 : p[1] = m)[2]) ELSE NotFound)

--------------------------------------------------------------------------------
(* ghost bookkeeping *)
Stored == 0..(Len(chain) - 1)
Size(n) == Len(chain[n + 1].txs)
Range(f) == {f[i] : i \in DOMAIN f}
InChain == UNION {Range(chain[n + 1].txs) : n \in Stored}
Orphans == {t \in dead.txs : \A u \in InChain : u.hash # t.hash}     \* reverted and not (re-)included now
Reverts == ver - Len(chain)

--------------------------------------------------------------------------------
(* the write path: core.WriteBlockHeader, WriteTransactionsAndReceipts, WriteStateUpdateByBlockNum,
   WriteL1HandlerMsgHashes, WriteChainHeight - one batch. Every index write is a Put: it overwrites
   whatever the key was bound to. src[i] = Fresh, or a transaction of a reverted block that is not
   in the chain now (each at most once). *)
Seqs(S, n) == [1..n -> S]
Sources(size) == {s \in Seqs(Orphans \cup {Fresh}, size) :
                    \A i, j \in 1..size : (i # j /\ s[i] # Fresh) => s[i] # s[j]}
Purge == IF MemoPurged THEN NoMemo ELSE memo

Store(size, kinds, evs, revs, tl, rl, src) ==
  LET n == Len(chain)
      txs == [i \in 1..size |-> IF src[i] = Fresh THEN Tx(ver, i - 1, kinds[i]) ELSE src[i]]
      rcs == [i \in 1..size |-> Rc(txs[i].hash, ver, evs[i], revs[i])]
      l1 == {<<Msg(txs[i]), txs[i].hash>> : i \in {j \in 1..size : txs[j].kind = "l1handler"}}
      hdr == [number |-> n, hash |-> BlockHash(ver), count |-> size]
      su == [blockHash |-> BlockHash(ver), diff |-> <<"diff", ver>>]
      hashes == {txs[i].hash : i \in 1..size}
  IN
  /\ n < MaxBlocks
  /\ chain' = Append(chain, [txs |-> txs, rcs |-> rcs, su |-> su, l1 |-> l1, hdr |-> hdr, ver |-> ver])
  /\ db' = [height |-> n,
            blobs |-> Append(db.blobs, BuildBlob(txs, rcs, tl, rl)),
            headers |-> Append(db.headers, hdr),
            byHash |-> db.byHash \cup {<<BlockHash(ver), n>>},
            txIndex |-> {e \in db.txIndex : e[1] \notin hashes}
                        \cup {<<txs[i].hash, n, IF HashIndexExact THEN i - 1 ELSE i>> : i \in 1..size},
            sus |-> Append(db.sus, su),
            l1 |-> {p \in db.l1 : \A q \in l1 : q[1] # p[1]} \cup l1]
  /\ ver' = ver + 1
  /\ memo' = Purge
  /\ act' = [name |-> "Store", size |-> size, kinds |-> [i \in 1..size |-> txs[i].kind], evs |-> evs, revs |-> revs,
             ver |-> ver, src |-> [i \in 1..size |-> IF src[i] = Fresh THEN <<"fresh">> ELSE src[i].hash]]
  /\ res' = [k |-> "ok"]
  /\ UNCHANGED dead

(* Blockchain.RevertHead -> deleteBlockContent + core.DeleteTransactionsAndReceipts: the hashes to
   unindex are those of the transactions DECODED from the head's blob *)
Revert ==
  LET n == db.height
      t == IF n >= 0 /\ n < Len(db.blobs)
           THEN All("tx", db.blobs[n + 1].idx.txs, TxSection(db.blobs[n + 1])) ELSE NotFound
      gone == IF t.k = "found" THEN Range(t.v) ELSE {}
  IN
  /\ Len(chain) > 0 /\ Reverts < MaxReverts
  /\ t.k = "found"
  /\ chain' = SubSeq(chain, 1, n)
  /\ dead' = [blocks |-> dead.blocks \cup {db.headers[n + 1].hash}, txs |-> dead.txs \cup Range(chain[n + 1].txs)]
  /\ db' = [height |-> n - 1,
            blobs |-> SubSeq(db.blobs, 1, n),
            headers |-> SubSeq(db.headers, 1, n),
            byHash |-> {p \in db.byHash : p[1] # db.headers[n + 1].hash},
            txIndex |-> IF RevertDropsIndexes THEN {e \in db.txIndex : \A u \in gone : u.hash # e[1]} ELSE db.txIndex,
            sus |-> SubSeq(db.sus, 1, n),
            l1 |-> IF RevertDropsIndexes
                   THEN {p \in db.l1 : \A u \in gone : ~(u.kind = "l1handler" /\ Msg(u) = p[1])} ELSE db.l1]
  /\ memo' = Purge
  /\ act' = [name |-> "Revert", number |-> n]
  /\ res' = [k |-> "ok"]
  /\ UNCHANGED ver

(* a read through the reader layer; with a memo for that family the answer is remembered *)
Known(fam) ==
  CASE fam = "loc" -> {t.hash : t \in InChain \cup dead.txs}
    [] fam = "num" -> {chain[n + 1].hdr.hash : n \in Stored} \cup dead.blocks
    [] fam = "l1" -> {Msg(t) : t \in {u \in InChain \cup dead.txs : u.kind = "l1handler"}}
    [] OTHER -> 0..(MaxBlocks - 1)
Answer(fam, key) ==
  CASE fam = "loc" -> Locate(key) [] fam = "num" -> NumberByHash(key) [] fam = "hdr" -> HeaderByNumber(key)
    [] fam = "blob" -> BlobAt(key) [] fam = "su" -> SUByNumber(key) [] fam = "l1" -> L1Lookup(key)
Read(fam, key) ==
  LET r == Answer(fam, key) IN
  /\ memo' = IF fam \in MemoFamilies /\ r.k = "found" THEN [memo EXCEPT ![fam] = @ \cup {<<key, r>>}] ELSE memo
  /\ act' = [name |-> "Read", fam |-> fam]
  /\ res' = [k |-> r.k]
  /\ UNCHANGED <<chain, db, dead, ver>>

(* the node restarts (new objects over the same database; gracefully or not): everything an
   accessor answers from is in the database, so every answer is what it was; whatever the reader
   layer remembered is gone with the process *)
Restart(graceful) ==
  /\ Len(chain) > 0
  /\ act' = [name |-> "Restart", graceful |-> graceful]
  /\ res' = [k |-> "ok"]
  /\ memo' = NoMemo
  /\ UNCHANGED <<chain, db, dead, ver>>

EmptyDB == [height |-> -1, blobs |-> <<>>, headers |-> <<>>, byHash |-> {}, txIndex |-> {}, sus |-> <<>>, l1 |-> {}]

Init ==
  /\ chain = <<>>
  /\ db = EmptyDB
  /\ dead = [blocks |-> {}, txs |-> {}]
  /\ ver = 0
  /\ memo = NoMemo
  /\ act = [name |-> "Init"] /\ res = [k |-> "none"]

StoreAny ==
  \E size \in 0..MaxSize :
    \E kinds \in Seqs(Kinds, size), evs \in Seqs(EvCounts, size), revs \in Seqs(Revs, size),
       tl \in Seqs(Lens, size), rl \in Seqs(Lens, size), src \in Sources(size) :
      Store(size, kinds, evs, revs, tl, rl, src)
ReadAny == \E fam \in MemoFamilies : \E key \in Known(fam) : Read(fam, key)

Next == StoreAny \/ Revert \/ ReadAny

NextR == Next \/ \E g \in BOOLEAN : Restart(g)

Spec == Init /\ [][Next]_vars

--------------------------------------------------------------------------------
(* properties: for every block stored NOW, every index i (in range, and the first out of range),
   every hash; in every reachable state, i.e. with reads between any two writes *)
HashOf(n, i) == chain[n + 1].txs[i + 1].hash
BHash(n) == chain[n + 1].hdr.hash

ItemAccessors ==
  \A n \in Stored : \A i \in 0..(Size(n) - 1) :
    /\ TxByIndex(n, i) = Found(chain[n + 1].txs[i + 1])
    /\ RcByIndex(n, i) = Found(chain[n + 1].rcs[i + 1])
    /\ TxAndRcByIndex(n, i) = Found(<<chain[n + 1].txs[i + 1], chain[n + 1].rcs[i + 1]>>)
    /\ TxByHash(HashOf(n, i)) = Found(chain[n + 1].txs[i + 1])
    /\ LocationByHash(HashOf(n, i)) = Found(<<n, i>>)
    /\ ReceiptByHash(HashOf(n, i)) = Found([rc |-> chain[n + 1].rcs[i + 1], blockHash |-> BHash(n), number |-> n])

OutOfRange ==
  /\ \A n \in Stored : /\ TxByIndex(n, Size(n)) = NotFound /\ RcByIndex(n, Size(n)) = NotFound
                       /\ StatusByIndex(n, Size(n)) = NotFound /\ TxAndRcByIndex(n, Size(n)) = NotFound
                       /\ TxByIndex(n, -1) = NotFound
                       /\ TxByHash(TxHash(chain[n + 1].ver, MaxSize)) = NotFound
  /\ LET m == Len(chain) IN
     /\ TxByIndex(m, 0) = NotFound /\ AllTxs(m) = NotFound /\ AllRcs(m) = NotFound
     /\ HeaderByNumber(m) = NotFound /\ BlockByNumber(m) = NotFound /\ SUByNumber(m) = NotFound
     /\ TxCount(m) = NotFound /\ HeaderByHash(BlockHash(ver)) = NotFound /\ SUByHash(BlockHash(ver)) = NotFound

BlockAccessors ==
  \A n \in Stored :
    /\ AllTxs(n) = Found(chain[n + 1].txs)
    /\ AllRcs(n) = Found(chain[n + 1].rcs)
    /\ TxCount(n) = Found(Size(n))
    /\ HeaderByNumber(n) = Found(chain[n + 1].hdr)
    /\ HeaderByHash(BHash(n)) = Found(chain[n + 1].hdr)
    /\ NumberByHash(BHash(n)) = Found(n)
    /\ BlockByNumber(n) = Found([header |-> chain[n + 1].hdr, txs |-> chain[n + 1].txs, rcs |-> chain[n + 1].rcs])
    /\ BlockByHash(BHash(n)) = BlockByNumber(n)
    /\ SUByNumber(n) = Found(chain[n + 1].su)
    /\ SUByHash(BHash(n)) = SUByNumber(n)
    /\ \A p \in chain[n + 1].l1 : L1Lookup(p[1]) = Found(p[2])

(* not found exactly for what is not stored now: the hashes a reorg dropped *)
Gone ==
  /\ \A t \in Orphans : /\ TxByHash(t.hash) = NotFound /\ ReceiptByHash(t.hash) = NotFound
                         /\ LocationByHash(t.hash) = NotFound
                         /\ (t.kind = "l1handler" => L1Lookup(Msg(t)) = NotFound)
  /\ \A h \in dead.blocks : /\ NumberByHash(h) = NotFound /\ HeaderByHash(h) = NotFound
                             /\ BlockByHash(h) = NotFound /\ SUByHash(h) = NotFound

(* the partial decoders agree with the full decoder on every record *)
ProjectionsAgree ==
  \A n \in Stored :
    /\ TxHashes(n) = Found([i \in 1..Size(n) |-> HashOf(n, i - 1)])
    /\ TxEvents(n) = Found([i \in 1..Size(n) |-> EventsProj(chain[n + 1].rcs[i])])
    /\ \A i \in 0..(Size(n) - 1) : StatusByIndex(n, i) = Found(StatusProj(chain[n + 1].rcs[i + 1]))

(* the database holds index entries for exactly what is stored now (Store;Revert leaves nothing) *)
IndexesExact ==
  /\ {e[1] : e \in db.txIndex} = {t.hash : t \in InChain}
  /\ {p[1] : p \in db.byHash} = {BHash(n) : n \in Stored}
  /\ {p[1] : p \in db.l1} = {Msg(t) : t \in {u \in InChain : u.kind = "l1handler"}}

RestartIsNoOp == [][act'.name = "Restart" => UNCHANGED <<chain, db, dead, ver>>]_vars
ReadIsNoOp == [][act'.name = "Read" => UNCHANGED <<chain, db, dead, ver>>]_vars

(* layout facts the accessors rely on *)
Layout ==
  \A n \in Stored :
    LET b == Blob(n) IN
    /\ Len(b.idx.txs) = Size(n) /\ Len(b.idx.rcs) = Size(n)
    /\ \A i \in 1..(Size(n) - 1) : b.idx.txs[i] < b.idx.txs[i + 1] /\ b.idx.rcs[i] < b.idx.rcs[i + 1]
    /\ (Size(n) > 0 => b.idx.txs[1] = 0 /\ b.idx.rcs[1] = Len(TxSection(b)))
    /\ (Size(n) = 0 => b.data = <<>>)
=============================================================================

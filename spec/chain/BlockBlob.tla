------------------------------- MODULE BlockBlob -------------------------------
(* Property C07: everything stored for a block is returned unchanged by every accessor; the
   partial decoders agree with the full decoder.

   Transcribes the indexed blob of core/block_transaction.go + core/indexed (one database value
   per block: an index header with the start offsets of the encoded transactions and receipts,
   then the encodings back to back; receipts offsets are ABSOLUTE into the data), the lazy slice
   (Get(i) decodes data[idx[i] : idx[i+1]) and the LAST item runs to the end of its section;
   out of range = ErrKeyNotFound), transactionsSection (= data up to Receipts[0], or all data when
   there are no receipts), the three projections of core/partial_cbor.go (transaction hash only;
   receipt events + hash; receipt execution status), and the read accessors of core/accessors.go /
   blockchain.Reader as functions of the database.

   Bytes are abstract cells <<item, position, length>>: decoding a byte range succeeds iff the
   range is exactly one whole encoding of the wanted sort (CBOR rejects truncated input and
   trailing bytes; a receipt does not decode as a transaction).  Byte-level codec identity is not
   modelled - the Go replayer exercises it (DESIGN.md section 8).

   The chain is NOT append-only: RevertHead removes the head block (header, number-by-hash,
   blob, the tx-hash index entry of every transaction of the blob, the L1 message index entry of
   every L1 handler, state update, height) and a DIFFERENT block may then be stored at that
   height. The replacement has another block hash (block "version"), and its transaction list
   may re-include transactions of reverted blocks - the same hashes at other indices or other
   heights, a permutation, a subset, a superset - next to fresh ones. "What was stored" is what is
   stored NOW: the answers for the block now at a height / the block now holding a hash; a dropped
   transaction hash, a dropped L1 message and the hash of a replaced block are NOT FOUND.
   Reads happen between any two writes. In the code as it is every accessor is a function of the
   database, so a read changes nothing; MemoFamilies / MemoPurged model a reader-level memo (a
   cache in the reader layer on top of the database, per lookup family) - a memo that is not
   dropped by Store / RevertHead is the class of defect the Replace scenario exists for.

   REPRESENTATION of stored values ("shape classes"). Every slice / map / byte-string / pointer field
   of every stored Go type (FieldTable: one row per field, named by its Go path) is part of the
   abstract content of a record: a container is nil, empty, a singleton or has many elements; a
   pointer is nil, points to the zero value or to a non-zero one. The encoder turns a shape into a
   wire form (WireOf: CBOR null / empty array / absent key / nothing at all for the block-level lists,
   which the blob represents by their offsets only), the decoder turns the wire form into the shape it
   leaves in a FRESH destination (Decoded). What an accessor returns has the same content and, per
   field, the NORMAL FORM of the stored shape (Norm, the `norm` column of the table - "exact" for all
   but the fields whose encoder writes nil and empty identically): ShapePreserved. Re-encoding what
   was returned gives the stored bytes: ReencodeIdentity. With VaryShapes a Store varies one field of
   one object at a time over all its shape classes (plus the all-empty and the all-nil object);
   CodecSlip switches on the plausible slips of a codec family ("empty->nil": the decoder maps an
   empty container to nil, "nil->empty" the converse, "nilptr->zero" / "zeroptr->nil" for pointers,
   "omitempty": the encoder drops empty containers) as self-tests. Blocks also DECLARE classes
   (Cairo-0 / Sierra with its compiled class), stored by class hash, removed by RevertHead. *)
EXTENDS Integers, Sequences, FiniteSets, TLC

CONSTANTS MaxBlocks,      \* chain length bound
          MaxSize,        \* transactions per block 0..MaxSize
          Lens,           \* possible encoded lengths of an item, e.g. {1, 2}
          Kinds,          \* transaction kinds (a concretisation hint carried by the item)
          EvCounts,       \* possible numbers of events of a receipt
          Revs,           \* possible execution statuses (reverted?) of a receipt
          (* design switches; TRUE = the code as it is, FALSE = a plausible slip, used as self-test *)
          LastItemRunsToEnd,        \* lazy slice: the last item ends at len(data)
          TxSectionEndsAtReceipts,  \* transactionsSection stops where receipts begin
          HashIndexExact,           \* the tx-hash index stores (number, index) of the transaction itself
          RevertDropsIndexes,       \* RevertHead deletes the tx-hash and L1-message index entries of the block
          (* the chain is not append-only *)
          MaxReverts,     \* RevertHead calls per behaviour (0 = append-only chain)
          (* reader-level memos: {} = the code as it is (every accessor reads the database) *)
          MemoFamilies,   \* subset of Families: lookups the reader layer remembers once answered
          MemoPurged,     \* TRUE = Store / RevertHead drop every memo; FALSE = a memo outlives the write
          (* representation of stored values *)
          FieldTable,     \* per-field normal forms: set of [root, field, kind, codec, norm, proj] (MCBlockBlob!MCFieldTable)
          VaryShapes,     \* FALSE = every stored object is fully populated; TRUE = Store varies one field of one object at a time
          MaxClasses,     \* classes a block declares: 0..MaxClasses
          CodecSlip,      \* "none" = the code as it is | "empty->nil" | "nil->empty" | "nilptr->zero" | "zeroptr->nil" | "omitempty"
          SlipCodecs      \* the codec families (column `codec`) the slip applies to

VARIABLES chain,   \* ghost: what was handed to Store and is stored NOW, per block [txs, rcs, su, l1, hdr, ver, lists, classes]
          db,      \* the database: [height, blobs, headers, byHash, txIndex, sus, l1, classes]
          dead,    \* ghost: [blocks: hashes of reverted blocks, txs: transactions of reverted blocks, classes: their class hashes]
          ver,     \* number of Store calls so far = version of the next block (ver - Len(chain) = reverts so far)
          memo,    \* reader-level memos, per family a set of <<key, answer>> (always empty when MemoFamilies = {})
          act, res

vars == <<chain, db, dead, ver, memo, act, res>>
view == <<chain, db, dead, ver, memo>>

Families == {"loc", "num", "hdr", "blob", "su", "l1"}
NoMemo == [f \in Families |-> {}]

NotFound == [k |-> "notfound"]
Error == [k |-> "error"]
Found(v) == [k |-> "found", v |-> v]

--------------------------------------------------------------------------------
(* items *)
(* A block is identified by its VERSION v (the v-th Store call), not by its height: the block that
   replaces a reverted one has another hash. A transaction is identified by where it was FIRST
   included (version, index); re-included after a reorg it keeps its hash. A receipt belongs to one
   inclusion: the same transaction re-included gets another receipt. *)
BlockHash(v) == <<"block", v>>
TxHash(v, i) == <<"tx", v, i>>
ClassHash(v, j) == <<"class", v, j>>
Tx(v, i, kind, sh) == [sort |-> "tx", hash |-> TxHash(v, i), kind |-> kind, shape |-> sh]
Rc(h, v, nev, rev, sh) == [sort |-> "rc", hash |-> h, events |-> [e \in 1..nev |-> <<"ev", h, v, e>>],
                           rev |-> rev, reason |-> IF rev THEN <<"reason", h, v>> ELSE <<>>,
                           rest |-> <<"fee-resources-messages", h, v>>, shape |-> sh]
Class(v, j, kind, sh) == [sort |-> "class", hash |-> ClassHash(v, j), kind |-> kind, shape |-> sh]
Msg(tx) == <<"msg", tx.hash[2], tx.hash[3]>>       \* the message hash is a function of the L1 handler
Fresh == [sort |-> "fresh"]

--------------------------------------------------------------------------------
(* representation: shape classes, wire forms, the per-field normal forms *)
ContainerShapes == {"nil", "empty", "one", "many"}
PointerShapes == {"nil", "zero", "nonzero"}
ShapesOf(kind) == IF kind = "ptr" THEN PointerShapes ELSE ContainerShapes
Populated(kind) == IF kind = "ptr" THEN "nonzero" ELSE "many"
Emptied(kind) == IF kind = "ptr" THEN "zero" ELSE "empty"

TxRoot(kind) ==
  CASE kind \in {"invoke0", "invoke1", "invoke3"} -> "*core.InvokeTransaction"
    [] kind \in {"declare1", "declare2", "declare3"} -> "*core.DeclareTransaction"
    [] kind \in {"deployaccount1", "deployaccount3"} -> "*core.DeployAccountTransaction"
    [] kind = "l1handler" -> "*core.L1HandlerTransaction"
    [] kind = "deploy" -> "*core.DeployTransaction"
ClassKinds == {"sierra", "cairo0"}
ClassRoot(kind) == IF kind = "sierra" THEN "*core.SierraClass" ELSE "*core.DeprecatedCairoClass"
RootOf(x) ==
  CASE x.sort = "tx" -> TxRoot(x.kind) [] x.sort = "rc" -> "*core.TransactionReceipt"
    [] x.sort = "hdr" -> "*core.Header" [] x.sort = "su" -> "*core.StateUpdate"
    [] x.sort = "class" -> ClassRoot(x.kind)

(* the table as functions (constant-level definitions: evaluated once). Identity fields (norm = "key": a
   transaction's / a block's own hash) are never absent: not shape fields *)
Roots == {r.root : r \in FieldTable}
RowFn == [root \in Roots |-> [f \in {r.field : r \in {q \in FieldTable : q.root = root}} |->
                               CHOOSE r \in FieldTable : r.root = root /\ r.field = f]]
FieldsFn == [root \in Roots |-> {f \in DOMAIN RowFn[root] : RowFn[root][f].norm # "key"}]
Row(root, f) == RowFn[root][f]
ListRow(f) == RowFn["*core.Block"][f]

Slipped(row) == CodecSlip # "none" /\ row.codec \in SlipCodecs
Omits(row) == row.codec = "cbor-omitempty" \/ (CodecSlip = "omitempty" /\ Slipped(row) /\ row.kind # "ptr")

(* what the encoder writes for a field of shape s *)
WireOf(row, s) ==
  CASE row.codec = "blob" -> IF s \in {"nil", "empty"} THEN "none" ELSE s   \* offsets + elements only
    [] Omits(row) /\ s \in {"nil", "empty"} -> "absent"                       \* the key is not written
    [] s = "nil" -> "null"
    [] OTHER -> s
(* what the decoder leaves in a FRESH destination (a record read from the database is always decoded into one) *)
Decoded(row, w) ==
  CASE w = "none" -> "empty"                                                   \* LazySlice.All: make([]T, 0)
    [] w = "absent" -> "nil"
    [] w = "null" -> IF row.kind = "ptr" THEN (IF CodecSlip = "nilptr->zero" /\ Slipped(row) THEN "zero" ELSE "nil")
                     ELSE (IF CodecSlip = "nil->empty" /\ Slipped(row) THEN "empty" ELSE "nil")
    [] w = "empty" -> IF CodecSlip = "empty->nil" /\ Slipped(row) THEN "nil" ELSE "empty"
    [] w = "zero" -> IF CodecSlip = "zeroptr->nil" /\ Slipped(row) THEN "nil" ELSE "zero"
    [] OTHER -> w
(* the contract: the normal form of shape s of that field *)
Norm(row, s) ==
  CASE row.norm = "empty=nil" /\ s = "empty" -> "nil"
    [] row.norm = "nil=empty" /\ s = "nil" -> "empty"
    [] OTHER -> s

(* shape vectors: field -> shape class. Without VaryShapes every object is fully populated and the
   vector is the constant "populated" (all wire forms and normal forms of a populated field are itself). *)
PopVecFn == [root \in Roots |-> [f \in FieldsFn[root] |-> Populated(RowFn[root][f].kind)]]
AllVecFn == [root \in Roots |-> [which \in {"nil", "empty"} |->
               [f \in FieldsFn[root] |-> IF which = "nil" THEN "nil" ELSE Emptied(RowFn[root][f].kind)]]]
VectorsFn == [root \in Roots |->
                UNION {{[PopVecFn[root] EXCEPT ![f] = s] : s \in ShapesOf(RowFn[root][f].kind)} : f \in FieldsFn[root]}
                \cup {AllVecFn[root]["empty"], AllVecFn[root]["nil"]}]
PopVec(root) == IF VaryShapes THEN PopVecFn[root] ELSE "populated"
Vectors(root) == IF VaryShapes THEN VectorsFn[root] ELSE {"populated"}
MapVec(root, sh, F(_, _)) == IF ~VaryShapes THEN sh ELSE [f \in DOMAIN sh |-> F(RowFn[root][f], sh[f])]
WireItem(x) == [x EXCEPT !.shape = MapVec(RootOf(x), @, WireOf)]
UnwireItem(x) == [x EXCEPT !.shape = MapVec(RootOf(x), @, Decoded)]
Want(x) == [x EXCEPT !.shape = MapVec(RootOf(x), @, Norm)]        \* what an accessor returns for the stored x
WantAll(xs) == [i \in 1..Len(xs) |-> Want(xs[i])]
ProjVec(root, sh, p) == IF ~VaryShapes THEN sh ELSE [f \in {g \in DOMAIN sh : RowFn[root][g].proj = p} |-> sh[f]]

(* the three projections, as functions of the full item *)
HashProj(tx) == tx.hash
EventsProj(rc) == [events |-> rc.events, hash |-> rc.hash, shape |-> ProjVec("*core.TransactionReceipt", rc.shape, "events")]
StatusProj(rc) == [rev |-> rc.rev, reason |-> rc.reason]

--------------------------------------------------------------------------------
(* encoding: item -> cells; decoding a byte range *)
Enc(item, len) == [j \in 1..len |-> [item |-> WireItem(item), pos |-> j, len |-> len]]

DecodeAs(sort, cells) ==
  IF /\ Len(cells) >= 1
     /\ cells[1].pos = 1 /\ cells[1].len = Len(cells)
     /\ \A j \in 1..Len(cells) : cells[j].item = cells[1].item /\ cells[j].pos = j
     /\ cells[1].item.sort = sort
  THEN Found(UnwireItem(cells[1].item)) ELSE Error

Slice(data, s, e) == IF e <= s THEN <<>> ELSE SubSeq(data, s + 1, e)      \* bytes [s, e), 0-based

RECURSIVE Sum(_, _)
Sum(lens, k) == IF k = 0 THEN 0 ELSE lens[k] + Sum(lens, k - 1)
RECURSIVE Flat(_, _, _)
Flat(items, lens, k) == IF k = 0 THEN <<>> ELSE Flat(items, lens, k - 1) \o Enc(items[k], lens[k])

(* core.NewBlockTransactions: indexed.Write(transactions) then indexed.Write(receipts) on ONE buffer *)
BuildBlob(txs, rcs, tl, rl, lists) ==
  LET txBytes == Sum(tl, Len(txs)) IN
  [idx |-> [txs |-> [i \in 1..Len(txs) |-> Sum(tl, i - 1)],
            rcs |-> [i \in 1..Len(rcs) |-> txBytes + Sum(rl, i - 1)]],
   data |-> Flat(txs, tl, Len(txs)) \o Flat(rcs, rl, Len(rcs)),
   (* the lists themselves are not written: a nil list and an empty one leave the same blob *)
   lists |-> [txs |-> WireOf(ListRow(".Transactions"), lists.txs), rcs |-> WireOf(ListRow(".Receipts"), lists.rcs)]]

(* indexed.LazySlice.Get *)
LazyGet(sort, idx, data, i) ==
  IF i < 0 \/ i >= Len(idx) THEN NotFound
  ELSE LET start == idx[i + 1]
           end == IF i < Len(idx) - 1 THEN idx[i + 2]
                  ELSE IF LastItemRunsToEnd THEN Len(data) ELSE Len(data) - 1
       IN DecodeAs(sort, Slice(data, start, end))

TxSection(b) == IF Len(b.idx.rcs) > 0 /\ TxSectionEndsAtReceipts THEN Slice(b.data, 0, b.idx.rcs[1]) ELSE b.data
RcSection(b) == b.data

(* LazySlice.All / AllMapped: all or error *)
All(sort, idx, data) ==
  LET r == [i \in 1..Len(idx) |-> LazyGet(sort, idx, data, i - 1)] IN
  IF \E i \in 1..Len(idx) : r[i].k # "found" THEN Error ELSE Found([i \in 1..Len(idx) |-> r[i].v])

Map(r, f(_)) == IF r.k # "found" THEN r ELSE Found([i \in 1..Len(r.v) |-> f(r.v[i])])
Map1(r, f(_)) == IF r.k # "found" THEN r ELSE Found(f(r.v))

--------------------------------------------------------------------------------
(* the read accessors, as functions of db (and of the reader-level memos, when there are any) *)
MemoGet(fam, key, direct) ==
  IF fam \in MemoFamilies /\ \E p \in memo[fam] : p[1] = key
  THEN (CHOOSE p \in memo[fam] : p[1] = key)[2] ELSE direct

(* the blob of block n (same meaning as MemoGet("blob", n, ...), spelt out: Blob is used at every step of every access path) *)
BlobMemo(n) == "blob" \in MemoFamilies /\ \E p \in memo["blob"] : p[1] = n
Has(n) == BlobMemo(n) \/ (n >= 0 /\ n <= db.height /\ n < Len(db.blobs))
Blob(n) == IF BlobMemo(n) THEN (CHOOSE p \in memo["blob"] : p[1] = n)[2].v ELSE db.blobs[n + 1]
BlobAt(n) == IF Has(n) THEN Found(Blob(n)) ELSE NotFound

TxByIndex(n, i) == IF ~Has(n) THEN NotFound ELSE LazyGet("tx", Blob(n).idx.txs, TxSection(Blob(n)), i)
RcByIndex(n, i) == IF ~Has(n) THEN NotFound ELSE LazyGet("rc", Blob(n).idx.rcs, RcSection(Blob(n)), i)
TxAndRcByIndex(n, i) ==
  LET t == TxByIndex(n, i) r == RcByIndex(n, i) IN
  IF t.k # "found" THEN t ELSE IF r.k # "found" THEN r ELSE Found(<<t.v, r.v>>)
StatusByIndex(n, i) == Map1(RcByIndex(n, i), StatusProj)        \* receiptExecutionStatusProjection
AllTxs(n) == IF ~Has(n) THEN NotFound ELSE All("tx", Blob(n).idx.txs, TxSection(Blob(n)))
AllRcs(n) == IF ~Has(n) THEN NotFound ELSE All("rc", Blob(n).idx.rcs, RcSection(Blob(n)))
TxHashes(n) == Map(AllTxs(n), HashProj)                          \* transactionHashProjection
TxEvents(n) == Map(AllRcs(n), EventsProj)                        \* receiptEventsProjection

HeaderByNumber(n) == MemoGet("hdr", n, IF n >= 0 /\ n < Len(db.headers) /\ n <= db.height THEN Found(UnwireItem(db.headers[n + 1])) ELSE NotFound)
TxCount(n) == Map1(HeaderByNumber(n), LAMBDA h : h.count)       \* headerTransactionCountProjection
NumberByHash(h) == MemoGet("num", h, IF \E p \in db.byHash : p[1] = h
                                     THEN Found((CHOOSE p \in db.byHash : p[1] = h)[2]) ELSE NotFound)
HeaderByHash(h) == LET r == NumberByHash(h) IN IF r.k # "found" THEN r ELSE HeaderByNumber(r.v)
BlockByNumber(n) ==
  LET h == HeaderByNumber(n) t == AllTxs(n) r == AllRcs(n) IN
  IF h.k # "found" THEN h ELSE IF t.k # "found" THEN t ELSE IF r.k # "found" THEN r
  ELSE Found([header |-> h.v, txs |-> t.v, rcs |-> r.v])
BlockByHash(h) == LET r == NumberByHash(h) IN IF r.k # "found" THEN r ELSE BlockByNumber(r.v)

Locate(h) == MemoGet("loc", h, IF \E e \in db.txIndex : e[1] = h
                               THEN Found(CHOOSE e \in db.txIndex : e[1] = h) ELSE NotFound)
TxByHash(h) == LET l == Locate(h) IN IF l.k # "found" THEN l ELSE TxByIndex(l.v[2], l.v[3])
LocationByHash(h) == LET l == Locate(h) IN IF l.k # "found" THEN l ELSE Found(<<l.v[2], l.v[3]>>)
ReceiptByHash(h) ==
  LET l == Locate(h) IN
  IF l.k # "found" THEN l
  ELSE LET r == RcByIndex(l.v[2], l.v[3]) hd == HeaderByNumber(l.v[2]) IN
       IF r.k # "found" THEN r ELSE IF hd.k # "found" THEN hd
       ELSE Found([rc |-> r.v, blockHash |-> hd.v.hash, number |-> l.v[2]])

SUByNumber(n) == MemoGet("su", n, IF n >= 0 /\ n < Len(db.sus) /\ n <= db.height THEN Found(UnwireItem(db.sus[n + 1])) ELSE NotFound)
SUByHash(h) == LET r == NumberByHash(h) IN IF r.k # "found" THEN r ELSE SUByNumber(r.v)
L1Lookup(m) == MemoGet("l1", m, IF \E p \in db.l1 : p[1] = m THEN Found((CHOOSE p \in db.l1 : p[1] = m)[2]) ELSE NotFound)
(* declared classes: core.GetClass / state.GetClass / StateReader.Class - the class and the block that declared it *)
ClassByHash(h) == IF \E c \in db.classes : c[1] = h
                  THEN LET c == CHOOSE c \in db.classes : c[1] = h IN Found([at |-> c[2], class |-> UnwireItem(c[3])])
                  ELSE NotFound
(* the shape of the lists AllTxs / AllRcs / BlockByNumber return (their content is the sequence of items) *)
ListShape(n) == IF ~Has(n) THEN NotFound
                ELSE Found([txs |-> Decoded(ListRow(".Transactions"), Blob(n).lists.txs),
                            rcs |-> Decoded(ListRow(".Receipts"), Blob(n).lists.rcs)])

--------------------------------------------------------------------------------
(* ghost bookkeeping *)
Stored == 0..(Len(chain) - 1)
Size(n) == Len(chain[n + 1].txs)
Range(f) == {f[i] : i \in DOMAIN f}
InChain == UNION {Range(chain[n + 1].txs) : n \in Stored}
Orphans == {t \in dead.txs : \A u \in InChain : u.hash # t.hash}     \* reverted and not (re-)included now
Reverts == ver - Len(chain)

--------------------------------------------------------------------------------
(* the write path: core.WriteBlockHeader, WriteTransactionsAndReceipts, WriteStateUpdateByBlockNum,
   WriteL1HandlerMsgHashes, WriteChainHeight - one batch. Every index write is a Put: it overwrites
   whatever the key was bound to. src[i] = Fresh, or a transaction of a reverted block that is not
   in the chain now (each at most once). *)
Seqs(S, n) == [1..n -> S]
Sources(size) == {s \in Seqs(Orphans \cup {Fresh}, size) :
                    \A i, j \in 1..size : (i # j /\ s[i] # Fresh) => s[i] # s[j]}
Purge == IF MemoPurged THEN NoMemo ELSE memo

ListOf(size, sh) == IF size = 0 THEN sh ELSE IF size = 1 THEN "one" ELSE "many"

(* shp: the representation chosen for this block's objects: [txs, rcs: one vector per position; hdr, su:
   a vector; lists: the shape of an EMPTY block's transaction / receipt lists; classes: <<kind, vector>>s] *)
Store(size, kinds, evs, revs, tl, rl, src, shp) ==
  LET n == Len(chain)
      txs == [i \in 1..size |-> IF src[i] = Fresh THEN Tx(ver, i - 1, kinds[i], shp.txs[i]) ELSE src[i]]
      rcs == [i \in 1..size |-> Rc(txs[i].hash, ver, evs[i], revs[i], shp.rcs[i])]
      l1 == {<<Msg(txs[i]), txs[i].hash>> : i \in {j \in 1..size : txs[j].kind = "l1handler"}}
      hdr == [sort |-> "hdr", number |-> n, hash |-> BlockHash(ver), count |-> size, shape |-> shp.hdr]
      su == [sort |-> "su", blockHash |-> BlockHash(ver), diff |-> <<"diff", ver>>, shape |-> shp.su]
      lists == [txs |-> ListOf(size, shp.lists), rcs |-> ListOf(size, shp.lists)]
      classes == [j \in 1..Len(shp.classes) |-> Class(ver, j - 1, shp.classes[j][1], shp.classes[j][2])]
      hashes == {txs[i].hash : i \in 1..size}
  IN
  /\ n < MaxBlocks
  /\ chain' = Append(chain, [txs |-> txs, rcs |-> rcs, su |-> su, l1 |-> l1, hdr |-> hdr, ver |-> ver,
                             lists |-> lists, classes |-> classes])
  /\ db' = [height |-> n,
            blobs |-> Append(db.blobs, BuildBlob(txs, rcs, tl, rl, lists)),
            headers |-> Append(db.headers, WireItem(hdr)),
            byHash |-> db.byHash \cup {<<BlockHash(ver), n>>},
            txIndex |-> {e \in db.txIndex : e[1] \notin hashes}
                        \cup {<<txs[i].hash, n, IF HashIndexExact THEN i - 1 ELSE i>> : i \in 1..size},
            sus |-> Append(db.sus, WireItem(su)),
            l1 |-> {p \in db.l1 : \A q \in l1 : q[1] # p[1]} \cup l1,
            classes |-> db.classes \cup {<<classes[j].hash, n, WireItem(classes[j])>> : j \in 1..Len(classes)}]
  /\ ver' = ver + 1
  /\ memo' = Purge
  /\ act' = [name |-> "Store", size |-> size, kinds |-> [i \in 1..size |-> txs[i].kind], evs |-> evs, revs |-> revs,
             ver |-> ver, src |-> [i \in 1..size |-> IF src[i] = Fresh THEN <<"fresh">> ELSE src[i].hash]]
  /\ res' = [k |-> "ok"]
  /\ UNCHANGED dead

(* Blockchain.RevertHead -> deleteBlockContent + core.DeleteTransactionsAndReceipts: the hashes to
   unindex are those of the transactions DECODED from the head's blob *)
Revert ==
  LET n == db.height
      t == IF n >= 0 /\ n < Len(db.blobs)
           THEN All("tx", db.blobs[n + 1].idx.txs, TxSection(db.blobs[n + 1])) ELSE NotFound
      gone == IF t.k = "found" THEN Range(t.v) ELSE {}
  IN
  /\ Len(chain) > 0 /\ Reverts < MaxReverts
  /\ t.k = "found"
  /\ chain' = SubSeq(chain, 1, n)
  /\ dead' = [blocks |-> dead.blocks \cup {db.headers[n + 1].hash}, txs |-> dead.txs \cup Range(chain[n + 1].txs),
              classes |-> dead.classes \cup {c[1] : c \in {d \in db.classes : d[2] = n}}]
  /\ db' = [height |-> n - 1,
            blobs |-> SubSeq(db.blobs, 1, n),
            headers |-> SubSeq(db.headers, 1, n),
            byHash |-> {p \in db.byHash : p[1] # db.headers[n + 1].hash},
            txIndex |-> IF RevertDropsIndexes THEN {e \in db.txIndex : \A u \in gone : u.hash # e[1]} ELSE db.txIndex,
            sus |-> SubSeq(db.sus, 1, n),
            l1 |-> IF RevertDropsIndexes
                   THEN {p \in db.l1 : \A u \in gone : ~(u.kind = "l1handler" /\ Msg(u) = p[1])} ELSE db.l1,
            classes |-> {c \in db.classes : c[2] # n}]          \* the classes the head declared
  /\ memo' = Purge
  /\ act' = [name |-> "Revert", number |-> n]
  /\ res' = [k |-> "ok"]
  /\ UNCHANGED ver

(* a read through the reader layer; with a memo for that family the answer is remembered *)
Known(fam) ==
  CASE fam = "loc" -> {t.hash : t \in InChain \cup dead.txs}
    [] fam = "num" -> {chain[n + 1].hdr.hash : n \in Stored} \cup dead.blocks
    [] fam = "l1" -> {Msg(t) : t \in {u \in InChain \cup dead.txs : u.kind = "l1handler"}}
    [] OTHER -> 0..(MaxBlocks - 1)
Answer(fam, key) ==
  CASE fam = "loc" -> Locate(key) [] fam = "num" -> NumberByHash(key) [] fam = "hdr" -> HeaderByNumber(key)
    [] fam = "blob" -> BlobAt(key) [] fam = "su" -> SUByNumber(key) [] fam = "l1" -> L1Lookup(key)
Read(fam, key) ==
  LET r == Answer(fam, key) IN
  /\ memo' = IF fam \in MemoFamilies /\ r.k = "found" THEN [memo EXCEPT ![fam] = @ \cup {<<key, r>>}] ELSE memo
  /\ act' = [name |-> "Read", fam |-> fam]
  /\ res' = [k |-> r.k]
  /\ UNCHANGED <<chain, db, dead, ver>>

(* the node restarts (new objects over the same database; gracefully or not): everything an
   accessor answers from is in the database, so every answer is what it was; whatever the reader
   layer remembered is gone with the process *)
Restart(graceful) ==
  /\ Len(chain) > 0
  /\ act' = [name |-> "Restart", graceful |-> graceful]
  /\ res' = [k |-> "ok"]
  /\ memo' = NoMemo
  /\ UNCHANGED <<chain, db, dead, ver>>

EmptyDB == [height |-> -1, blobs |-> <<>>, headers |-> <<>>, byHash |-> {}, txIndex |-> {}, sus |-> <<>>, l1 |-> {}, classes |-> {}]
NoDead == [blocks |-> {}, txs |-> {}, classes |-> {}]

Init ==
  /\ chain = <<>>
  /\ db = EmptyDB
  /\ dead = NoDead
  /\ ver = 0
  /\ memo = NoMemo
  /\ act = [name |-> "Init"] /\ res = [k |-> "none"]

(* the representations a Store may choose. Without VaryShapes: every object fully populated (the lists
   of an empty block empty), 0..MaxClasses populated classes. With VaryShapes: ONE object of the block
   takes any of its vectors (one field over all its shape classes, all-empty, all-nil) - a transaction,
   a receipt, the header, the state update, a declared class of either kind, or the lists of an empty
   block (nil / empty) - and everything else is populated. *)
PopShapes(size, kinds, ncls) ==
  [txs |-> [i \in 1..size |-> PopVec(TxRoot(kinds[i]))], rcs |-> [i \in 1..size |-> PopVec("*core.TransactionReceipt")],
   hdr |-> PopVec("*core.Header"), su |-> PopVec("*core.StateUpdate"), lists |-> "empty",
   classes |-> [j \in 1..ncls |-> <<IF j % 2 = 1 THEN "sierra" ELSE "cairo0", PopVec(ClassRoot(IF j % 2 = 1 THEN "sierra" ELSE "cairo0"))>>]]
ShapeChoices(size, kinds) ==
  IF ~VaryShapes THEN {PopShapes(size, kinds, c) : c \in 0..MaxClasses}
  ELSE LET pop == PopShapes(size, kinds, 0) IN
       UNION {{[pop EXCEPT !.txs[i] = v] : v \in Vectors(TxRoot(kinds[i]))} : i \in 1..size}
       \cup UNION {{[pop EXCEPT !.rcs[i] = v] : v \in Vectors("*core.TransactionReceipt")} : i \in 1..size}
       \cup {[pop EXCEPT !.hdr = v] : v \in Vectors("*core.Header")}
       \cup {[pop EXCEPT !.su = v] : v \in Vectors("*core.StateUpdate")}
       \cup {[pop EXCEPT !.lists = s] : s \in IF size = 0 THEN {"nil", "empty"} ELSE {"empty"}}
       \cup (IF MaxClasses = 0 THEN {} ELSE UNION {{[pop EXCEPT !.classes = <<<<k, v>>>>] : v \in Vectors(ClassRoot(k))} : k \in ClassKinds})

StoreAny ==
  /\ Len(chain) < MaxBlocks         \* (Store's own guard, hoisted: nothing to enumerate on a full chain)
  /\ \E size \in 0..MaxSize :
      \E kinds \in Seqs(Kinds, size), evs \in Seqs(EvCounts, size), revs \in Seqs(Revs, size),
         tl \in Seqs(Lens, size), rl \in Seqs(Lens, size), src \in Sources(size) :
        \E shp \in ShapeChoices(size, kinds) :
          Store(size, kinds, evs, revs, tl, rl, src, shp)
ReadAny == \E fam \in MemoFamilies : \E key \in Known(fam) : Read(fam, key)

Next == StoreAny \/ Revert \/ ReadAny

NextR == Next \/ \E g \in BOOLEAN : Restart(g)

Spec == Init /\ [][Next]_vars

--------------------------------------------------------------------------------
(* properties: for every block stored NOW, every index i (in range, and the first out of range),
   every hash; in every reachable state, i.e. with reads between any two writes *)
HashOf(n, i) == chain[n + 1].txs[i + 1].hash
BHash(n) == chain[n + 1].hdr.hash

ItemAccessors ==
  \A n \in Stored : \A i \in 0..(Size(n) - 1) :
    /\ TxByIndex(n, i) = Found(Want(chain[n + 1].txs[i + 1]))
    /\ RcByIndex(n, i) = Found(Want(chain[n + 1].rcs[i + 1]))
    /\ TxAndRcByIndex(n, i) = Found(<<Want(chain[n + 1].txs[i + 1]), Want(chain[n + 1].rcs[i + 1])>>)
    /\ TxByHash(HashOf(n, i)) = Found(Want(chain[n + 1].txs[i + 1]))
    /\ LocationByHash(HashOf(n, i)) = Found(<<n, i>>)
    /\ ReceiptByHash(HashOf(n, i)) = Found([rc |-> Want(chain[n + 1].rcs[i + 1]), blockHash |-> BHash(n), number |-> n])

OutOfRange ==
  /\ \A n \in Stored : /\ TxByIndex(n, Size(n)) = NotFound /\ RcByIndex(n, Size(n)) = NotFound
                       /\ StatusByIndex(n, Size(n)) = NotFound /\ TxAndRcByIndex(n, Size(n)) = NotFound
                       /\ TxByIndex(n, -1) = NotFound
                       /\ TxByHash(TxHash(chain[n + 1].ver, MaxSize)) = NotFound
  /\ LET m == Len(chain) IN
     /\ TxByIndex(m, 0) = NotFound /\ AllTxs(m) = NotFound /\ AllRcs(m) = NotFound
     /\ HeaderByNumber(m) = NotFound /\ BlockByNumber(m) = NotFound /\ SUByNumber(m) = NotFound
     /\ TxCount(m) = NotFound /\ HeaderByHash(BlockHash(ver)) = NotFound /\ SUByHash(BlockHash(ver)) = NotFound

BlockAccessors ==
  \A n \in Stored :
    /\ AllTxs(n) = Found(WantAll(chain[n + 1].txs))
    /\ AllRcs(n) = Found(WantAll(chain[n + 1].rcs))
    /\ TxCount(n) = Found(Size(n))
    /\ HeaderByNumber(n) = Found(Want(chain[n + 1].hdr))
    /\ HeaderByHash(BHash(n)) = Found(Want(chain[n + 1].hdr))
    /\ NumberByHash(BHash(n)) = Found(n)
    /\ BlockByNumber(n) = Found([header |-> Want(chain[n + 1].hdr), txs |-> WantAll(chain[n + 1].txs), rcs |-> WantAll(chain[n + 1].rcs)])
    /\ BlockByHash(BHash(n)) = BlockByNumber(n)
    /\ SUByNumber(n) = Found(Want(chain[n + 1].su))
    /\ SUByHash(BHash(n)) = SUByNumber(n)
    /\ \A p \in chain[n + 1].l1 : L1Lookup(p[1]) = Found(p[2])
    /\ \A j \in 1..Len(chain[n + 1].classes) :
         ClassByHash(chain[n + 1].classes[j].hash) = Found([at |-> n, class |-> Want(chain[n + 1].classes[j])])

(* not found exactly for what is not stored now: the hashes a reorg dropped *)
Gone ==
  /\ \A t \in Orphans : /\ TxByHash(t.hash) = NotFound /\ ReceiptByHash(t.hash) = NotFound
                         /\ LocationByHash(t.hash) = NotFound
                         /\ (t.kind = "l1handler" => L1Lookup(Msg(t)) = NotFound)
  /\ \A h \in dead.blocks : /\ NumberByHash(h) = NotFound /\ HeaderByHash(h) = NotFound
                             /\ BlockByHash(h) = NotFound /\ SUByHash(h) = NotFound
  /\ \A h \in dead.classes : ClassByHash(h) = NotFound

(* the partial decoders agree with the full decoder on every record *)
ProjectionsAgree ==
  \A n \in Stored :
    /\ TxHashes(n) = Found([i \in 1..Size(n) |-> HashOf(n, i - 1)])
    /\ TxEvents(n) = Found([i \in 1..Size(n) |-> EventsProj(Want(chain[n + 1].rcs[i]))])
    /\ \A i \in 0..(Size(n) - 1) : StatusByIndex(n, i) = Found(StatusProj(chain[n + 1].rcs[i + 1]))

(* the database holds index entries for exactly what is stored now (Store;Revert leaves nothing) *)
IndexesExact ==
  /\ {e[1] : e \in db.txIndex} = {t.hash : t \in InChain}
  /\ {p[1] : p \in db.byHash} = {BHash(n) : n \in Stored}
  /\ {p[1] : p \in db.l1} = {Msg(t) : t \in {u \in InChain : u.kind = "l1handler"}}
  /\ {c[1] : c \in db.classes} = UNION {{chain[n + 1].classes[j].hash : j \in 1..Len(chain[n + 1].classes)} : n \in Stored}

(* REPRESENTATION: what an accessor returns has, field by field, the normal form of the shape that was
   stored - through every access path: the full decoders, the events projection, the lists *)
StoredObjects(n) == Range(chain[n + 1].txs) \cup Range(chain[n + 1].rcs) \cup {chain[n + 1].hdr, chain[n + 1].su}
                    \cup Range(chain[n + 1].classes)
Returned(n, x) ==         \* the same object through its primary accessor
  CASE x.sort = "tx" -> TxByHash(x.hash)
    [] x.sort = "rc" -> Map1(ReceiptByHash(x.hash), LAMBDA r : r.rc)
    [] x.sort = "hdr" -> HeaderByNumber(n)
    [] x.sort = "su" -> SUByNumber(n)
    [] x.sort = "class" -> Map1(ClassByHash(x.hash), LAMBDA c : c.class)
ShapePreserved ==
  \A n \in Stored :
    /\ \A x \in StoredObjects(n) :
         /\ Returned(n, x).k = "found"
         /\ Returned(n, x).v.shape = MapVec(RootOf(x), x.shape, Norm)
    /\ \A i \in 1..Size(n) : /\ AllTxs(n).v[i].shape = MapVec(RootOf(chain[n + 1].txs[i]), chain[n + 1].txs[i].shape, Norm)
                              /\ AllRcs(n).v[i].shape = MapVec("*core.TransactionReceipt", chain[n + 1].rcs[i].shape, Norm)
                              /\ TxEvents(n).v[i].shape = ProjVec("*core.TransactionReceipt", MapVec("*core.TransactionReceipt", chain[n + 1].rcs[i].shape, Norm), "events")
    /\ ListShape(n) = Found([txs |-> Norm(ListRow(".Transactions"), chain[n + 1].lists.txs),
                             rcs |-> Norm(ListRow(".Receipts"), chain[n + 1].lists.rcs)])

(* the codec rules agree with the table's normal forms, for EVERY field and shape class (state
   independent): decode(encode(s)) = Norm(s), the normal form is a fixed point, and re-encoding what
   the decoder produced gives the same bytes *)
AllRows == {r \in FieldTable : r.norm # "key"}
CodecAgreesWithTable ==
  \A r \in AllRows : \A s \in ShapesOf(r.kind) :
    /\ Decoded(r, WireOf(r, s)) = Norm(r, s)
    /\ Norm(r, Norm(r, s)) = Norm(r, s)
ReencodeIdentity ==
  \A r \in AllRows : \A s \in ShapesOf(r.kind) : WireOf(r, Decoded(r, WireOf(r, s))) = WireOf(r, s)

RestartIsNoOp == [][act'.name = "Restart" => UNCHANGED <<chain, db, dead, ver>>]_vars
ReadIsNoOp == [][act'.name = "Read" => UNCHANGED <<chain, db, dead, ver>>]_vars

(* layout facts the accessors rely on *)
Layout ==
  \A n \in Stored :
    LET b == Blob(n) IN
    /\ Len(b.idx.txs) = Size(n) /\ Len(b.idx.rcs) = Size(n)
    /\ \A i \in 1..(Size(n) - 1) : b.idx.txs[i] < b.idx.txs[i + 1] /\ b.idx.rcs[i] < b.idx.rcs[i + 1]
    /\ (Size(n) > 0 => b.idx.txs[1] = 0 /\ b.idx.rcs[1] = Len(TxSection(b)))
    /\ (Size(n) = 0 => b.data = <<>>)
=============================================================================

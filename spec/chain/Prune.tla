------------------------------- MODULE Prune -------------------------------
(* C16 — pruning never damages retained blocks, the head state, or L1-unconfirmed history.

   The pruner service (pruner/pruner.go) with its two trigger feeds, its floor arithmetic written
   over explicit naturals (an underflow is a reachable ERROR state, not a silent wrap), the
   min-age sample over an abstract clock, and pruner.PruneUpto (pruner/accessors.go) refined into
   its durable mutations

       [carve-out cleanup + PerBlock(b)*] ; FlushBatch  ...  ; final FlushBatch ; RangeDelete

   with Cancel (the service context is cancelled right after a batch write) and Crash (the process
   dies right after a batch write) between any two, next to the chain operations the property
   quantifies over (new blocks, reverts of L1-unconfirmed blocks, new L1 heads, restarts).

   Events: the feeds have a one-element buffer and drop when full, and the handlers only use the
   event as a trigger; therefore DeliverHead(b) / DeliverL1(n) may deliver ANY already published
   head / L1 head (stale, coalesced, or never).

   Time: every block is either "old" (timestamp far older than now - minAge) or "young" (far
   younger); timestamps are monotone, so the blocks >= yf are the young ones (yf = head+1 when
   there is none).  The clock does not advance inside a behaviour (the replayer places timestamps
   hours away from the boundary, so wall-clock drift cannot flip an outcome).

   Switches (FALSE = the code as it is).  FixSampleOnReorg: see ApplyTimeFloor.
   FixPruneAtomicFloor = FALSE is the code as it is (H12): the commitments rows — which define the
   oldest retained block, the resume point and the re-seeded floor — are only deleted by the final
   range delete; TRUE puts the range deletes up to the block reached into every flushed batch, so
   that each batch is a complete prune and the oldest retained block advances atomically.

   The windowed event index.  Events are found through aggregated bloom filters over aligned
   windows of W blocks (core.NumBlocksPerFilter): the window the chain head is in lives in memory
   (the running filter `rf`, lazily initialised by pruner.InitializeRunningEventFilter on first use
   after a start: InitFilter), every completed window is persisted in the same write as its last
   block (disk.win, keyed by the window's first block; `lo` is the lowest block whose bloom it
   contains — a window rebuilt without an anchor starts at the oldest retained block), a revert of
   the last block of a window re-opens it (loads and deletes the persisted row), and every batch of
   a prune range-deletes the persisted windows that lie WHOLLY below the block it reached
   (pruneAggregatedBloomFiltersUpto).  EventsCovered: every retained block is indexed by the
   running window or by a persisted one — at every moment, also between two batches, on the image a
   crash leaves and across restarts.  WinBound ("exact" = the code as it is) moves the bound of that
   range delete by one block in either direction: "inclusive" deletes the window whose LAST block
   is the oldest retained one (EventsCovered must fail), "short" leaves a window wholly below the
   floor (BelowFloorClean / Resumable must fail).

   Block numbers are absolute: the model tracks the chain from block Base (0 = genesis) up; for
   Base > 0 the initial database is the canonical result of an earlier life that pruned up to
   Base, so that a dozen blocks can be placed across a boundary of the real window size. *)
EXTENDS Integers, Sequences, FiniteSets, TLC

CONSTANTS
  MaxH,          \* block numbers 0..MaxH
  InitH,         \* initial chain 0..InitH (all old), nothing pruned
  MaxL1,         \* L1 heads 0..MaxL1 (may exceed MaxH: L1 ahead of the local head)
  Retained,      \* --prune-mode N
  Lag,           \* core.BlockHashLag
  PruneBatch,    \* blocks per hash-keyed batch (1: targetBatchByteSize = 1; 99: one batch)
  L2PerPrune,    \* WithL2HeadsPerPrune
  MinAge,        \* BOOLEAN: the wall-clock floor is enabled
  MaxSteps,      \* chain/environment operations per behaviour
  EnableRevert,
  EnableInterrupts,  \* FALSE: prunes run to completion (fault-free sequences for the enumerator)
  FixPruneAtomicFloor,
  FixSampleOnReorg,
  W,             \* blocks per aggregated bloom filter window (core.NumBlocksPerFilter)
  Base,          \* first block of the initial chain; everything below was pruned by an earlier life
  WinBound       \* "exact": persisted windows wholly below the prune bound are deleted (the code as it is)

VARIABLES
  disk,      \* durable: height, families (sets of block numbers), l1, win (persisted windows)
  rf,        \* the running event filter: [init, from, lo, next]
  yf,        \* first young block number (head+1 when no block is young)
  floor,     \* the shared in-memory RetentionFloor (state is served from this block up)
  pending,   \* pendingL2Heads
  sampled,   \* latestSampledHeight
  svc,       \* "up" | "down" (cancelled, until the next restart)
  alive,     \* FALSE after a crash until Restart
  pc,        \* the PruneUpto in flight
  keepMax,   \* ghost: the highest oldestBlockToKeep handed to pruneUpto since the last (re)start
  dirty,     \* ghost: a prune was interrupted by a crash and no prune completed since
  err,       \* "none" | "underflow"
  steps,
  act, res

vars == <<disk, rf, yf, floor, pending, sampled, svc, alive, pc, keepMax, dirty, err, steps, act, res>>
view == <<disk, rf, yf, floor, pending, sampled, svc, alive, pc, keepMax, dirty, err, steps>>

Nums == 0..MaxH
Min2(a, b) == IF a <= b THEN a ELSE b
Max2(a, b) == IF a >= b THEN a ELSE b
MinSet(S) == CHOOSE x \in S : \A y \in S : x <= y

Oldest(d) == IF d.com = {} THEN 0 ELSE MinSet(d.com)          \* pruner.OldestRetainedBlock
SeedFloor(d) == IF Oldest(d) >= 1 THEN Oldest(d) - 1 ELSE 0   \* RetentionFloor.Seed
Young(n) == n >= yf

AllFams(d) == {d.hdr, d.com, d.su, d.txs, d.h2n, d.txl, d.hist}

AddBlock(d, n) ==
  [d EXCEPT !.height = n, !.hdr = @ \cup {n}, !.com = @ \cup {n}, !.su = @ \cup {n}, !.txs = @ \cup {n},
            !.h2n = @ \cup {n}, !.txl = @ \cup {n}, !.hist = @ \cup {n}]
DelBlock(d, n) ==
  [d EXCEPT !.height = n - 1, !.hdr = @ \ {n}, !.com = @ \ {n}, !.su = @ \ {n}, !.txs = @ \ {n},
            !.h2n = @ \ {n}, !.txl = @ \ {n}, !.hist = @ \ {n}]

Idle == [active |-> FALSE, start |-> 0, end |-> 0, cur |-> 0, stage |-> "hash", first |-> FALSE,
         cancelled |-> FALSE, muts |-> 0]

\* ------------------------------------------------------------------ the windowed event index
WinOf(n) == n - (n % W)
WinStarts == {k * W : k \in 0..((MaxH + 1) \div W)}
WinFroms(d) == {w.from : w \in d.win}
NoFilter == [init |-> FALSE, from |-> 0, lo |-> 0, next |-> 0]

(* Inserting the blocks up to `latest` into a running window that starts at F and holds the blooms
   from block L up: every window completed on the way is persisted (RunningEventFilter.insert). *)
Fill(win, F, L, latest) ==
  LET full == {f \in WinStarts : f >= F /\ f + W - 1 <= latest}
      nf == WinOf(latest + 1) IN
  [win |-> win \cup {[from |-> f, lo |-> IF f = F THEN L ELSE f] : f \in full},
   rf |-> [init |-> TRUE, from |-> Max2(F, nf), lo |-> IF nf <= F THEN L ELSE nf, next |-> latest + 1]]

(* pruner.InitializeRunningEventFilter without a stored snapshot (the engine never stops
   gracefully): walk back from the head's window to the window of the oldest retained block looking
   for a persisted window to anchor on; without one the window of the oldest retained block is
   rebuilt from that block up.  Then fill up to the head. *)
InitResult(d) ==
  IF d.height < 0 THEN [win |-> d.win, rf |-> [init |-> TRUE, from |-> 0, lo |-> 0, next |-> 0]]
  ELSE LET fl == Oldest(d)
           cand == {f \in WinFroms(d) : f >= WinOf(fl) /\ f <= WinOf(d.height)}
           anchor == CHOOSE f \in cand : \A g \in cand : g <= f IN
       IF cand # {} THEN Fill(d.win, anchor + W, anchor + W, d.height)
       ELSE Fill(d.win, WinOf(fl), fl, d.height)

(* persisted windows a prune up to e (exclusive) deletes: those wholly below e *)
WinSlack == IF WinBound = "inclusive" THEN 1 ELSE IF WinBound = "short" THEN 0 - 1 ELSE 0
DelWins(ws, e) == {w \in ws : ~(w.from + W <= e + WinSlack)}

(* every retained block of database d is indexed, given the running filter r *)
Covered(d, r) ==
  d.com # {} =>
    \A n \in Oldest(d)..d.height :
      IF WinOf(n) = r.from THEN r.lo <= n /\ n < r.next
      ELSE \E w \in d.win : w.from = WinOf(n) /\ w.lo <= n

(* the database an earlier life left: chain 0..Base pruned up to Base, which the L1 head
   Base + Retained allowed (nothing for Base = 0) *)
ImageDisk ==
  IF Base = 0
  THEN [height |-> -1, hdr |-> {}, com |-> {}, su |-> {}, txs |-> {}, h2n |-> {}, txl |-> {}, hist |-> {}, l1 |-> -1, win |-> {}]
  ELSE [height |-> Base, hdr |-> Max2(0, Base - Lag)..Base, com |-> {Base}, su |-> {Base}, txs |-> {Base},
        h2n |-> (Base - 1)..Base, txl |-> {Base}, hist |-> {Base}, l1 |-> Base + Retained,
        win |-> IF Base % W = W - 1 THEN {[from |-> WinOf(Base), lo |-> WinOf(Base)]} ELSE {}]

(* ... and the blocks up to InitH stored by this one *)
InitFill == LET r == InitResult(ImageDisk) IN Fill(r.win, r.rf.from, r.rf.lo, InitH)

InitDisk ==
  LET ns == Base..InitH IN
  [height |-> InitH, hdr |-> Max2(0, Base - Lag)..InitH, com |-> ns, su |-> ns, txs |-> ns,
   h2n |-> Max2(0, Base - 1)..InitH, txl |-> ns, hist |-> ns, l1 |-> ImageDisk.l1, win |-> InitFill.win]

(* sampleHeight: the smallest young block in [sampled, height], or height when there is none
   (ErrNoBlockInWindow); needs the header timestamps of the probed range. *)
SampleOf(d, s) ==
  IF d.height < 0 THEN s
  ELSE IF s > d.height THEN d.height          \* lower > upper: ErrNoBlockInWindow
  ELSE IF \E n \in s..d.height : Young(n) THEN MinSet({n \in s..d.height : Young(n)})
  ELSE d.height

(* seedFloor at service start *)
SeedSample(d) == IF ~MinAge \/ d.com = {} THEN 0 ELSE SampleOf(d, Oldest(d))

Init ==
  /\ disk = InitDisk
  /\ rf = InitFill.rf
  /\ yf = InitH + 1
  /\ floor = SeedFloor(InitDisk)
  /\ pending = 0
  /\ sampled = IF MinAge /\ InitH >= 0 THEN InitH ELSE 0    \* SeedSample with no young block
  /\ svc = "up" /\ alive = TRUE /\ pc = Idle
  /\ keepMax = 0 /\ dirty = FALSE /\ err = "none" /\ steps = 0
  /\ act = [name |-> "Init", n |-> 0, outcome |-> "ok"]
  /\ res = [kind |-> "ok", muts |-> 0]

Quiet == alive /\ ~pc.active
Budget == steps < MaxSteps

\* ------------------------------------------------------------------ chain and environment
NewBlock(y) ==
  /\ Quiet /\ Budget /\ disk.height < MaxH /\ rf.init
  /\ y \in BOOLEAN
  /\ (yf <= disk.height) => y           \* timestamps are monotone: after a young block only young ones
  /\ LET n == disk.height + 1 IN
     \* the window completed by this block is persisted in the same write
     /\ LET f == Fill(disk.win, rf.from, rf.lo, n) IN
          /\ disk' = [AddBlock(disk, n) EXCEPT !.win = f.win]
          /\ rf' = f.rf
     /\ yf' = IF yf <= disk.height THEN yf ELSE IF y THEN n ELSE n + 1
     /\ act' = [name |-> "NewBlock", n |-> n, outcome |-> IF y THEN "young" ELSE "old"]
  /\ res' = [kind |-> "ok", muts |-> 1]
  /\ steps' = steps + 1
  /\ UNCHANGED <<floor, pending, sampled, svc, alive, pc, keepMax, dirty, err>>

(* only L1-unconfirmed blocks are ever reverted, and at least one retained block stays *)
Revert ==
  /\ Quiet /\ Budget /\ EnableRevert /\ rf.init
  /\ disk.height >= 1 /\ disk.height > disk.l1 /\ disk.com # {} /\ disk.height > Oldest(disk)
  /\ LET h == disk.height IN
     /\ h \in disk.hist /\ h \in disk.su /\ h \in disk.hdr
     /\ yf' = IF yf >= h THEN h ELSE yf
     /\ act' = [name |-> "Revert", n |-> h, outcome |-> "ok"]
     \* RunningEventFilter.onReorg: reverting the last block of a window re-opens that window —
     \* its persisted row is loaded and deleted; without the row the revert fails
     /\ IF rf.from = h + 1
        THEN IF WinOf(h) \in WinFroms(disk)
             THEN LET w == CHOOSE x \in disk.win : x.from = WinOf(h) IN
                  /\ disk' = [DelBlock(disk, h) EXCEPT !.win = @ \ {w}]
                  /\ rf' = [init |-> TRUE, from |-> w.from, lo |-> w.lo, next |-> h]
                  /\ err' = err /\ res' = [kind |-> "ok", muts |-> 1]
             ELSE /\ disk' = disk /\ rf' = rf /\ err' = "revert-window-missing"
                  /\ res' = [kind |-> "error", muts |-> 0]
        ELSE /\ disk' = DelBlock(disk, h) /\ rf' = [rf EXCEPT !.next = h]
             /\ err' = err /\ res' = [kind |-> "ok", muts |-> 1]
  /\ steps' = steps + 1
  /\ UNCHANGED <<floor, pending, sampled, svc, alive, pc, keepMax, dirty>>

SetL1(n) ==
  /\ Quiet /\ Budget /\ n > disk.l1 /\ n <= MaxL1
  /\ disk' = [disk EXCEPT !.l1 = n]
  /\ act' = [name |-> "SetL1", n |-> n, outcome |-> "ok"]
  /\ res' = [kind |-> "ok", muts |-> 1]
  /\ steps' = steps + 1
  /\ UNCHANGED <<rf, yf, floor, pending, sampled, svc, alive, pc, keepMax, dirty, err>>

Sample ==
  /\ Quiet /\ Budget /\ MinAge /\ svc = "up"
  /\ sampled' = SampleOf(disk, sampled)
  /\ act' = [name |-> "Sample", n |-> 0, outcome |-> "ok"]
  /\ res' = [kind |-> "ok", muts |-> 0]
  /\ steps' = steps + 1
  /\ UNCHANGED <<disk, rf, yf, floor, pending, svc, alive, pc, keepMax, dirty, err>>

Restart ==
  /\ (~alive) \/ (Quiet /\ Budget)
  /\ alive' = TRUE /\ svc' = "up" /\ pc' = Idle
  /\ floor' = SeedFloor(disk)
  /\ pending' = 0
  /\ sampled' = SeedSample(disk)
  /\ keepMax' = 0
  /\ rf' = NoFilter      \* lazily re-initialised on first use: InitFilter
  /\ act' = [name |-> "Restart", n |-> 0, outcome |-> "ok"]
  /\ res' = [kind |-> "ok", muts |-> 0]
  /\ steps' = IF alive THEN steps + 1 ELSE steps
  /\ UNCHANGED <<disk, yf, dirty, err>>

(* first use of the event index after a start (a Store, a revert or an event query): the running
   filter is rebuilt from the database; windows completed during the fill are persisted.  Lazy: a
   prune may run before it. *)
InitFilter ==
  /\ Quiet /\ ~rf.init
  /\ LET r == InitResult(disk) IN
     /\ disk' = [disk EXCEPT !.win = r.win]
     /\ rf' = r.rf
     /\ res' = [kind |-> "ok", muts |-> Cardinality(r.win \ disk.win)]
  /\ act' = [name |-> "InitFilter", n |-> 0, outcome |-> "ok"]
  /\ UNCHANGED <<yf, floor, pending, sampled, svc, alive, pc, keepMax, dirty, err, steps>>

\* ------------------------------------------------------------------ the pruner's decisions
(* a - b over the naturals: an underflow is recorded instead of wrapping *)
Sub(a, b) == IF a >= b THEN a - b ELSE 0
Under(a, b) == a < b

(* applyTimeFloor.  The code uses the last periodic sample, whose search only ever moves up from
   the previous result: after a reorg that replaces old blocks below the sample by young ones the
   sample stays above them and they lose their protection (FixSampleOnReorg = FALSE, the code as
   it is).  TRUE: the wall-clock floor is derived from the oldest retained block when it is used. *)
ApplyTimeFloor(standard) ==
  IF ~MinAge THEN standard
  ELSE IF FixSampleOnReorg THEN Min2(SampleOf(disk, Oldest(disk)), standard)
  ELSE Min2(sampled, standard)

(* pruneUpto(keep): raise the floor, then PruneUpto(ctx, db, keep).  The no-op paths of PruneUpto
   complete here; otherwise the refinement below takes over. *)
StartPrune(keep, underflow) ==
  /\ err' = IF underflow THEN "underflow" ELSE err
  /\ floor' = IF keep > 0 THEN Max2(floor, keep - 1) ELSE floor
  /\ keepMax' = Max2(keepMax, keep)
  /\ LET start == Oldest(disk) IN
     IF disk.com = {}
     THEN /\ pc' = Idle /\ sampled' = sampled /\ res' = [kind |-> "noop", muts |-> 0]
     ELSE IF start >= keep
     THEN /\ pc' = Idle /\ sampled' = Max2(sampled, start) /\ res' = [kind |-> "noop", muts |-> 0]
     ELSE IF start > 0 /\ (start - 1) \notin disk.hdr
     THEN /\ pc' = Idle /\ sampled' = sampled /\ res' = [kind |-> "error", muts |-> 0]
     ELSE /\ pc' = [active |-> TRUE, start |-> start, end |-> keep, cur |-> start, stage |-> "hash",
                    first |-> TRUE, cancelled |-> FALSE, muts |-> 0]
          /\ sampled' = sampled
          /\ res' = [kind |-> "started", muts |-> 0]

Ignored == /\ res' = [kind |-> "ignored", muts |-> 0]
           /\ UNCHANGED <<floor, sampled, pc, keepMax, err>>

(* onNewBlock(b): any published head may arrive (or never) *)
DeliverHead(b) ==
  /\ Quiet /\ Budget /\ svc = "up" /\ b \in 0..disk.height
  /\ act' = [name |-> "DeliverHead", n |-> b, outcome |-> IF Young(b) THEN "young" ELSE "old"]
  /\ steps' = steps + 1
  /\ UNCHANGED <<disk, rf, yf, svc, alive, dirty>>
  /\ IF disk.l1 < 0 \/ disk.l1 <= b \/ b < Retained
     THEN Ignored /\ pending' = pending
     ELSE IF pending + 1 < L2PerPrune
     THEN Ignored /\ pending' = pending + 1
     ELSE /\ pending' = 0
          /\ LET standard == Sub(b, Retained)
                 keep == IF MinAge /\ Young(b) THEN ApplyTimeFloor(standard) ELSE standard IN
             StartPrune(keep, Under(b, Retained))

(* onNewL1Head(n): any already recorded L1 head may arrive (or never) *)
DeliverL1(n) ==
  /\ Quiet /\ Budget /\ svc = "up" /\ n \in 0..disk.l1
  /\ act' = [name |-> "DeliverL1", n |-> n, outcome |-> "ok"]
  /\ steps' = steps + 1
  /\ UNCHANGED <<disk, rf, yf, svc, alive, dirty>>
  /\ IF disk.height < 0 \/ n >= disk.height \/ n < Retained
     THEN Ignored /\ pending' = pending
     ELSE /\ pending' = 0
          /\ StartPrune(ApplyTimeFloor(Sub(n, Retained)), Under(n, Retained))

\* ------------------------------------------------------------------ PruneUpto, mutation by mutation
PruneStep(outcome) ==
  /\ alive /\ pc.active
  /\ outcome \in (IF EnableInterrupts THEN {"ok", "cancel", "crash"} ELSE {"ok"})
  /\ act' = [name |-> "PruneStep", n |-> pc.cur, outcome |-> outcome]
  /\ steps' = steps
  /\ UNCHANGED <<yf, floor, pending, keepMax, err>>
  /\ LET d == disk
         remaining == IF pc.cancelled THEN 0 ELSE pc.end - pc.cur
         rot == remaining >= PruneBatch
         nblk == IF rot THEN PruneBatch ELSE remaining
         blocks == pc.cur..(pc.cur + nblk - 1)
         readable == \A b \in blocks : b \in d.su /\ b \in d.txs
         dHash == [d EXCEPT
                     !.h2n = {i \in @ : ~(\/ (i \in blocks /\ i # pc.end - 1)
                                          \/ (pc.first /\ pc.start > 0 /\ i = pc.start - 1))},
                     !.txl = @ \ blocks,
                     !.hist = @ \ blocks,
                     \* FixPruneAtomicFloor: every flushed batch is a complete prune up to cur+nblk
                     !.com = IF FixPruneAtomicFloor THEN {i \in @ : i >= pc.cur + nblk} ELSE @,
                     !.su = IF FixPruneAtomicFloor THEN {i \in @ : i >= pc.cur + nblk} ELSE @,
                     !.txs = IF FixPruneAtomicFloor THEN {i \in @ : i >= pc.cur + nblk} ELSE @,
                     !.hdr = IF FixPruneAtomicFloor THEN {i \in @ : i >= pc.cur + nblk - Lag} ELSE @,
                     !.win = IF FixPruneAtomicFloor THEN DelWins(@, pc.cur + nblk) ELSE @]
         dRange == [d EXCEPT
                     !.hdr = {i \in @ : i >= pc.cur - Lag},
                     !.com = {i \in @ : i >= pc.cur},
                     !.su = {i \in @ : i >= pc.cur},
                     !.txs = {i \in @ : i >= pc.cur},
                     !.win = DelWins(@, pc.cur)]
         dNew == IF pc.stage = "hash" THEN dHash ELSE dRange
         done == pc.stage = "range"
         \* a cancellation is seen by the per-block loop only: after the last rotation it has no effect
         canc == pc.cancelled \/ (outcome = "cancel" /\ pc.stage = "hash" /\ rot)
         pcNext == IF done THEN Idle
                   ELSE [pc EXCEPT !.cur = @ + nblk, !.stage = IF rot THEN "hash" ELSE "range",
                                   !.first = FALSE, !.muts = @ + 1, !.cancelled = canc] IN
     IF pc.stage = "hash" /\ ~readable
     THEN /\ outcome = "ok" /\ disk' = d /\ alive' = TRUE /\ pc' = Idle /\ svc' = svc
          /\ sampled' = sampled /\ dirty' = dirty /\ rf' = rf
          /\ res' = [kind |-> "error", muts |-> pc.muts]
     ELSE CASE outcome = "crash" ->
                 /\ disk' = dNew /\ alive' = FALSE /\ pc' = Idle /\ svc' = "down" /\ rf' = NoFilter
                 /\ sampled' = sampled /\ dirty' = (dirty \/ ~done)
                 /\ res' = [kind |-> "crashed", muts |-> pc.muts + 1]
            [] OTHER ->
                 /\ disk' = dNew /\ alive' = TRUE /\ pc' = pcNext /\ rf' = rf
                 /\ svc' = IF outcome = "cancel" THEN "down" ELSE svc
                 /\ sampled' = IF done THEN Max2(sampled, pc.cur) ELSE sampled
                 /\ dirty' = IF done THEN FALSE ELSE dirty
                 /\ res' = [kind |-> IF done THEN "ok" ELSE "step", muts |-> pc.muts + 1]

Next ==
  \/ \E y \in BOOLEAN : NewBlock(y)
  \/ Revert
  \/ \E n \in 0..MaxL1 : SetL1(n)
  \/ \E b \in Nums : DeliverHead(b)
  \/ \E n \in 0..MaxL1 : DeliverL1(n)
  \/ Sample
  \/ \E o \in {"ok", "cancel", "crash"} : PruneStep(o)
  \/ Restart
  \/ InitFilter

Spec == Init /\ [][Next]_vars

\* ------------------------------------------------------------------ properties
TypeOK ==
  /\ disk.height \in -1..MaxH /\ disk.l1 \in -1..MaxL1
  /\ \A f \in AllFams(disk) : f \subseteq Nums
  /\ floor \in 0..MaxH /\ sampled \in 0..MaxH /\ pending \in 0..L2PerPrune
  /\ \A w \in disk.win : w.from \in WinStarts /\ w.lo \in w.from..(w.from + W - 1)
  /\ rf.init \in BOOLEAN /\ rf.from \in WinStarts /\ rf.lo \in Nat /\ rf.next \in 0..(MaxH + 1)

NoUnderflow == err = "none"    \* nor a revert failing on a missing persisted window

(* every block at or above the oldest retained one can be found by an event query: it is indexed
   by the running window or by a persisted one — at every moment (between two batches of a running
   prune too); where the running filter does not exist (after a crash, after a restart before its
   first use) the one the next start builds from the database is meant *)
EventsCovered ==
  disk.height >= 0 =>
    IF alive /\ rf.init THEN Covered(disk, rf)
    ELSE LET r == InitResult(disk) IN Covered([disk EXCEPT !.win = r.win], r.rf)

(* the running filter, once initialised, is the window after the head; persisted windows are
   complete and at most one per window *)
FilterFollowsChain ==
  /\ (alive /\ rf.init) => (rf.next = disk.height + 1 /\ rf.from = WinOf(disk.height + 1) /\ rf.lo <= rf.next)
  /\ \A w \in disk.win : w.from + W - 1 <= disk.height
  /\ \A w, x \in disk.win : w.from = x.from => w = x

(* the floor is never higher than min(L1 head, local head) - Retained ... *)
FloorBound ==
  /\ keepMax > 0 => (disk.l1 >= 0 /\ keepMax + Retained <= Min2(disk.l1, disk.height))
  /\ (alive /\ disk.com # {} /\ Oldest(disk) > 0) => Oldest(disk) + Retained <= Min2(disk.l1, disk.height)
  /\ alive => floor <= Max2(Oldest(disk), keepMax)

(* ... nor younger than the minimum age *)
AgeBound == MinAge => (keepMax <= yf /\ Oldest(disk) <= yf)

(* every block at or above the oldest retained one is complete (checked whenever no prune is in
   flight: after completion, after a cancellation, and on the image a crash leaves) *)
RetainedIntact ==
  (~pc.active /\ disk.height >= 0) =>
    /\ disk.com # {}
    /\ \A n \in Oldest(disk)..disk.height : \A f \in AllFams(disk) : n \in f
    /\ \A f \in AllFams(disk) : \A n \in f : n <= disk.height

(* historical state is served from `floor` up and needs the history rows of all later blocks —
   at every moment, also between two batches of a running prune *)
StateReadsCorrect ==
  alive => \A n \in 0..disk.height : n >= floor => \A k \in (n + 1)..disk.height : k \in disk.hist

(* below the oldest retained block only the documented carve-outs survive; never rows of the
   hash-keyed families (lookups would answer for blocks whose body is gone) *)
BelowFloorClean ==
  ~pc.active =>
    LET o == Oldest(disk) IN
    /\ \A n \in disk.txl \cup disk.hist : n >= o
    /\ \A n \in disk.h2n : n >= o - 1
    /\ (~dirty \/ FixPruneAtomicFloor) => \A w \in disk.win : w.from + W > o
    /\ (~dirty) => /\ \A n \in disk.su \cup disk.txs : n >= o
                   /\ \A n \in disk.hdr : n >= o - Lag

(* resumability: whenever a prune runs to completion the database is the canonical one for its
   end — whatever interruptions (cancellations, crashes, restarts) happened before *)
Canonical(d, o) ==
  LET up == o..d.height IN
  /\ d.com = up /\ d.su = up /\ d.txs = up /\ d.txl = up /\ d.hist = up
  /\ d.hdr = {n \in 0..d.height : n >= o - Lag}
  /\ d.h2n = {n \in 0..d.height : n >= o - 1}
  /\ WinFroms(d) = {f \in WinStarts : f + W > o /\ f + W - 1 <= d.height}
Resumable ==
  [][(act'.name = "PruneStep" /\ res'.kind = "ok" /\ ~pc.cancelled /\ act'.outcome # "cancel")
       => Canonical(disk', pc.end)]_vars

(* within one process the published floor never moves down *)
FloorMonotone == [][(alive /\ alive' /\ act'.name # "Restart") => floor' >= floor]_vars

(* a restart changes nothing durable and never publishes a floor above the oldest retained block *)
RestartIsNoOp == [][act'.name = "Restart" => (disk' = disk /\ floor' <= Oldest(disk))]_vars

(* the lazy initialisation only ADDS persisted windows (those completed during its fill) *)
InitFilterOnlyAdds == [][act'.name = "InitFilter" => (disk.win \subseteq disk'.win /\ [disk' EXCEPT !.win = disk.win] = disk)]_vars
=============================================================================

\* self-test of the properties: with TxHashesChecked = FALSE TLC must report a violation
CONSTANTS
  Versions <- MCVersions
  Committed <- MCCommitted
  TxFields <- MCTxFields
  SdFields <- MCSdFields
  SuFields <- MCSuFields
  MaxLen = 2
  Shapes <- MCShapesFour
  Targets <- MCTargets
  EmptyDiffShapes <- MCEmptyDiffShapes
  ClassShapes <- MCClassShapes
  DeployShapes <- MCDeployShapes
  CasmV2From = 4
  ClassFields <- MCClassFields
  TxClassFields <- MCTxClassFields
  ClassOf <- MCClassOf
  ValidClassOf <- MCValidClassOf
  ClassIn <- MCClassIn
  ShapeClass <- MCShapeClass
  ProtoSame <- MCProtoSame
  MalformedRefused = TRUE
  ZeroAsAbsent <- MCNone
  MaxPending = 2
  SuccessionChecked = TRUE
  RootChecked = TRUE
  RootCheckedOnEmptyDiff = TRUE
  TxHashesChecked = FALSE
  WriteBeforeChecks = FALSE
  DeployGuard = TRUE
  ExistGuard = TRUE
  MigrateGuard = TRUE
  RedeclareGuard = TRUE
INIT Init
NEXT Next
VIEW view
INVARIANTS TypeOK StoredChainValid StateIsChain DbConsistent
PROPERTIES AcceptedOnlyIfValid RejectedUnchanged TamperRejected ValidAccepted PendingStoredIffContinues RestartIsNoOp InapplicableLooksValid
CHECK_DEADLOCK FALSE

\* expected violation: the code as it is in ONE respect only (the legacy backend's storage history has no
\* entry for a zero written to a zero slot) against the property without exceptions: TLC must report
\* ReadsAnswerFromChainStrict violated by a last_update_block of the legacy backend (pins the
\* FixLegacyZeroWriteLog switch; shows LegacyLubDeviation is not vacuous).
CONSTANTS
  MaxLen = 3
  MaxReverts = 0
  Txs <- MCTxs
  FixTxIndexMissingBlock = TRUE
  FixZeroHashState = TRUE
  FixLegacyZeroWriteLog = FALSE
  LubZeroShortcut = FALSE
  NVar = 2
  Scenarios = {"base"}
  Leave = {}
  WithPreConfirmed = FALSE
INIT Init
NEXT Next
VIEW view
PROPERTIES ReadsAnswerFromChainStrict
CHECK_DEADLOCK FALSE

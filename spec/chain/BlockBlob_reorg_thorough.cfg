\* exhaustive: chains of <= 2 blocks of 0..3 transactions, <= 2 RevertHead, every re-inclusion pattern
CONSTANTS
  MaxBlocks = 2
  MaxSize = 3
  Lens = {1}
  Kinds <- KindsOne
  EvCounts = {2}
  Revs = {FALSE}
  LastItemRunsToEnd = TRUE
  TxSectionEndsAtReceipts = TRUE
  HashIndexExact = TRUE
  RevertDropsIndexes = TRUE
  MaxReverts = 2
  MemoFamilies = {}
  MemoPurged = TRUE
  FieldTable <- MCFieldTable
  VaryShapes = FALSE
  MaxClasses = 0
  CodecSlip = "none"
  SlipCodecs = {}
INIT Init
NEXT NextR
VIEW view
PROPERTIES RestartIsNoOp ReadIsNoOp
INVARIANTS ItemAccessors OutOfRange BlockAccessors ProjectionsAgree Layout Gone IndexesExact
CHECK_DEADLOCK FALSE

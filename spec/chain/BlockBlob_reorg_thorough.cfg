\* exhaustive: chains of <= 3 blocks of 0..2 transactions, <= 3 RevertHead (depth <= 3 reorgs, repeated reorgs)
CONSTANTS
  MaxBlocks = 3
  MaxSize = 2
  Lens = {1}
  Kinds <- KindsTwo
  EvCounts = {2}
  Revs = {FALSE}
  LastItemRunsToEnd = TRUE
  TxSectionEndsAtReceipts = TRUE
  HashIndexExact = TRUE
  RevertDropsIndexes = TRUE
  MaxReverts = 3
  MemoFamilies = {}
  MemoPurged = TRUE
INIT Init
NEXT NextR
VIEW view
PROPERTIES RestartIsNoOp ReadIsNoOp
INVARIANTS ItemAccessors OutOfRange BlockAccessors ProjectionsAgree Layout Gone IndexesExact
CHECK_DEADLOCK FALSE

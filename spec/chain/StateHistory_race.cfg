\* the legacy reader as it is (two reads of the live database): SplitReadOK must be violated
CONSTANTS
  Users = {"c1"}
  Sys = {}
  Slots = {"s1"}
  MaxV = 1
  Cairo0 = {"k0"}
  Sierra = {}
  TxIds = {}
  L1Txs = {}
  MaxBlocks = 3
  MaxOps = 2
  MaxTxs = 0
  Vers = {0}
  FixH4 = TRUE
  SysZeroWrites = FALSE
  SplitReads = TRUE
  AtomicLegacyReads = FALSE
INIT Init
NEXT Next
VIEW shview
INVARIANTS TypeOK SplitReadOK
PROPERTIES RestartIsNoOp
CHECK_DEADLOCK FALSE

\* Sierra classes across the 0.14.1 switch: declare V1/V2, migrate, deploy/replace; <= 3 blocks, diffs of <= 2 entries
\* measured: 7 919 distinct states, ~6 s on 4 workers
CONSTANTS
  Users = {"c1"}
  Sys = {}
  Slots = {"s1"}
  MaxV = 1
  Cairo0 = {}
  Sierra = {"k1", "k2"}
  TxIds = {}
  L1Txs = {}
  MaxBlocks = 3
  MaxOps = 2
  MaxTxs = 0
  Vers = {0, 1}
  FixH4 = TRUE
  SysZeroWrites = FALSE
  SplitReads = FALSE
  AtomicLegacyReads = TRUE
INIT Init
NEXT Next
VIEW shview
INVARIANTS TypeOK RevertNeverFails ReadsAgree HeadAgrees NoOrphanLogs Canon
PROPERTIES RestartIsNoOp
CHECK_DEADLOCK FALSE

---------------------------- MODULE CrashScripts ----------------------------
(* Directed behaviours for the replayer: fixed operation sequences (with their fault plans) are run
   through Crash.tla, so that the specification's prediction for exactly these histories - result
   kind, mutation count, projected state after every step - is replayed on the real node in every
   run, whatever the simulation happens to sample.  A script is a sequence of
   [op, o, at, n]: operation, outcome, fault position (0 = none), parameter.  The scripts of one
   scenario (= one set of constants) are run one after the other; each prints its history as one
   JSON line (CrashMBT!Emit). *)
EXTENDS CrashMBT

CONSTANT Scripts       \* <- one of the sequences of scripts below
VARIABLE si            \* index of the script being run

S(op, o, at, n) == [op |-> op, o |-> o, at |-> at, n |-> n]

(* --- scenario "lo" (base chain ending two blocks below the window boundary; Boundary = 2, InitH = 0) *)
(* repeated failed reverts across the window boundary: Store(1) completes window 0; two RevertHead
   whose commit fails drive the in-memory cursor (FixMemAfterCommit = FALSE) back into window 0 and
   to the first block of the scenario; the third RevertHead must still succeed - block numbers
   below the scenario exist (regression: the model used to treat number 0 as the genesis block) *)
LoRevertsAfterFailedCommits ==
  <<S("Store", "ok", 0, 0), S("Revert", "fail", 1, 0), S("Revert", "fail", 1, 0), S("Revert", "ok", 0, 0),
    S("SetL1", "crash", 1, 1), S("Restart", "ok", 0, 0), S("Query", "ok", 0, 0), S("Store", "ok", 0, 0)>>
LoRevertsAfterOneFailedCommit ==
  <<S("Store", "ok", 0, 0), S("Revert", "fail", 1, 0), S("Revert", "ok", 0, 0), S("Store", "ok", 0, 0),
    S("Query", "ok", 0, 0), S("Restart", "ok", 0, 0), S("Query", "ok", 0, 0)>>
ScriptsLo == <<LoRevertsAfterFailedCommits, LoRevertsAfterOneFailedCommit>>

(* --- scenario "mid" (chain 0..2 from genesis) *)
(* faults in the durable mutation of the LAZY INITIALISATION (the delete that consumes the snapshot a
   graceful stop left): fail = the triggering operation fails, nothing applied, the next one
   initialises again; crash = snapshot gone, nothing else; then a reorg below the snapshot's next,
   the process dies, and the event index must describe the new chain *)
ReorgTail == <<S("Revert", "ok", 0, 0), S("Store", "ok", 0, 0), S("Restart", "ok", 0, 0), S("Query", "ok", 0, 0)>>
MidInitDeleteFails(op) ==
  <<S("Snapshot", "ok", 0, 0), S("Restart", "ok", 0, 0), S(op, "fail", 1, 0)>>
  \o (IF op = "Snapshot" THEN <<S("Restart", "ok", 0, 0)>> ELSE <<>>) \o ReorgTail   \* (the graceful stop ends the process)
MidInitDeleteCrashes(op) ==
  <<S("Snapshot", "ok", 0, 0), S("Restart", "ok", 0, 0), S(op, "crash", 1, 0), S("Restart", "ok", 0, 0)>> \o ReorgTail
ScriptsMid ==
  <<MidInitDeleteFails("Store"), MidInitDeleteFails("Revert"), MidInitDeleteFails("Query"),
    MidInitDeleteFails("Snapshot"),
    MidInitDeleteCrashes("Store"), MidInitDeleteCrashes("Revert"), MidInitDeleteCrashes("Query"),
    MidInitDeleteCrashes("Snapshot")>>

svars == <<mbtvars, si>>

Cur == Scripts[si]
Pos == Len(hist) + 1

ScriptStep ==
  LET s == Cur[Pos] IN
  /\ CASE s.op = "Store" -> Store(s.o, s.at)
       [] s.op = "Revert" -> Revert(s.o, s.at)
       [] s.op = "Snapshot" -> Snapshot(s.o, s.at)
       [] s.op = "Query" -> Query(s.o, s.at)
       [] s.op = "SetL1" -> SetL1(s.n, s.o)
       [] s.op = "Restart" -> Restart
  /\ LET q == IF act'.name = "Query" /\ res'.kind = "ok"
              THEN QueryOf(disk', mem') ELSE NoQ IN
     hist' = Append(hist, [a |-> act', res |-> res', post |-> Proj(disk', mem', q)])
  /\ si' = si

ScriptInit == MBTInit /\ si = 1
ScriptNext ==
  IF si > Len(Scripts) THEN FALSE
  ELSE IF Pos > Len(Cur) THEN Emit /\ si' = si + 1
  ELSE ScriptStep
=============================================================================

\* declared classes under reorgs: 2 blocks of 0..1 transactions declaring 0..1 class, reverts and replacement blocks (a reverted block's classes are NOT FOUND)
CONSTANTS
  MaxBlocks = 2
  MaxSize = 1
  Lens = {1}
  Kinds <- KindsOne
  EvCounts = {2}
  Revs = {FALSE}
  LastItemRunsToEnd = TRUE
  TxSectionEndsAtReceipts = TRUE
  HashIndexExact = TRUE
  RevertDropsIndexes = TRUE
  MaxReverts = 2
  MemoFamilies = {}
  MemoPurged = TRUE
  FieldTable <- MCFieldTable
  VaryShapes = FALSE
  MaxClasses = 1
  CodecSlip = "none"
  SlipCodecs = {}
INIT Init
NEXT NextR
VIEW view
PROPERTIES RestartIsNoOp ReadIsNoOp
INVARIANTS ItemAccessors OutOfRange BlockAccessors ProjectionsAgree Layout Gone IndexesExact ShapePreserved
CHECK_DEADLOCK FALSE

\* expected violation: onReorg re-opens a window in memory and leaves its persisted copy on disk
CONSTANTS
  W = 3
  Base = 2
  MaxBlocks = 5
  MaxGraceful = 1
  BlockMenu <- BlocksAB
  FilterMenu <- FiltersK
  AnyRange = FALSE
  PurgeAt <- PurgeAlways
  DropReopenedWindow = FALSE
  SnapshotConsumedOnLoad = TRUE
  ClearRevertedColumn = TRUE
INIT WInit
NEXT WNext
VIEW wview
INVARIANTS DiskAsTwin
PROPERTIES WRestartIsNoOp
CHECK_DEADLOCK FALSE

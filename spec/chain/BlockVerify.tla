------------------------------- MODULE BlockVerify -------------------------------
(* Property C02: a block is stored only if hash, linkage, transaction hashes and state root all
   verify; a rejected block leaves chain, indexes and state exactly as they were.

   Anchors: blockchain/blockchain.go SanityCheckNewHeight (the "verify" stage of the sync
   pipeline), blockchain/statebackend/{statebackend,deprecated}.go Store +
   block_ops.go verifyBlockSuccession (the "store" stage, one write batch),
   core/block.go VerifyBlockHash/BlockHash, core/transaction.go VerifyTransactions,
   core/state*/state.go Update (old-root and new-root checks).

   Abstraction.  A block's CONTENT is identified by a content id `cid` = <<height, shape,
   version>> (what the reference builder produced for that head) plus the set `alt` of single-field
   alterations applied afterwards (at most one per offer).  Hashes are uninterpreted injective
   terms: the block hash is the tuple of everything the protocol commits to for the block's
   version - version, number, parent hash, declared state root, and the restriction of the content
   to the constant Committed[version]; the (aggregate of the) transaction hashes is the tuple of the
   transaction-level committed fields.  Which field names belong to Committed[v] is the constant
   supplied by MCBlockVerify.tla - written from the Starknet block-hash / transaction-hash /
   receipt-hash / state-diff-commitment definitions and arbitrated against real fixture blocks
   (see the annotations there).  The state is the sequence of applied state diffs, the state root
   its (injective) image.

   Applicability.  "Applying its state diff to the current state" presupposes that the diff CAN be
   applied: it deploys only addresses that do not exist yet, replaces the class of / writes to
   contracts that exist, declares Sierra classes that are not declared yet and migrates the compiled
   class hash only of classes declared under the old hash version and not migrated yet.  The
   state-diff commitment (hence the block hash) folds `deployed` and `replaced` into ONE list of
   updated contracts and `declared` and `migrated` into ONE list of class entries, and the state
   root depends on the resulting (class, nonce, storage) / leaf only: moving an entry between two
   such sections changes neither.  So neither the hash check nor the root check can tell an
   inapplicable diff from the honest one - only the guards of the state layer do
   (core/deprecatedstate DeployContract / NewContractUpdater, core/state Update / getStateObject,
   statebackend storeCasmHashMetadata, CasmHashMetadata.Migrate).  A block's diff is abstracted to
   its `ent`ries: which contracts / classes (named by the content id of the block that created
   them) sit in which of the four sections; what exists is derived from the applied diffs.

   Presence / value classes.  "Differs in a committed field" is not only "carries another non-zero
   value": the wire and core representations tell an ABSENT field (no map entry, empty array, not
   reverted) from a PRESENT-ZERO one ((0,0) resource bound, felt 0, the array [0], reverted with the
   empty reason) from a present NON-ZERO one, and the protocol's preimages do too (a packed all-zero
   l1_data_gas bound still carries its resource name; poseidon([0]) is not poseidon([]); keccak("")
   is not 0).  So the content of a block also has a class assignment ClassFields -> Classes
   (ClsAt: given by its shape for the builder's block - ShapeClass - with at most one field moved,
   `rc`), the hashes are injective terms of
   (committed field -> class) as well, and OfferReclass moves ONE field to another class with every
   declared hash kept: absent->zero, zero->absent, zero->nonzero, ... (rejected), while valid blocks
   whose fields are in every class are offered untampered (accepted).  Two views of the classes are
   kept apart: the PROTOCOL's (TxHashOf / HashOf: what a valid block declares; ProtoSame[v] lists
   the fields whose zero/empty value the protocol itself hashes like the absent one - the 0.13.2
   transaction leaf hashes an empty signature as [0]) and the CODE's (CodeTxHashOf / CodeHashOf:
   what the verifier recomputes; ZeroAsAbsent = the fields whose present-zero value the code treats
   as absent; {} is the code as it is).  A non-empty ZeroAsAbsent breaks both directions: a tamper
   absent<->zero is accepted (TamperRejected) and a valid block with the zero class is rejected
   (ValidAccepted).

   One action = one offer run through the pipeline exactly as sync does: SanityCheckNewHeight, then
   Store; sync verifies several blocks ahead of the one being stored, which VerifyAhead /
   StorePending model.  `act`, `res`, `cur` are output-only. *)
EXTENDS Integers, Sequences, FiniteSets, TLC

CONSTANTS
  Versions,          \* sequence of protocol versions in protocol order (non-decreasing along a chain)
  Committed,         \* [version -> SUBSET field names]: what the protocol commits to
  TxFields,          \* field names committed through a TRANSACTION hash (old tx hash is kept by a tamper)
  SdFields,          \* field names that alter the state diff
  SuFields,          \* field names of the state update's own declared block hash / new root
  MaxLen,            \* bound on the chain length
  Shapes,            \* content variants competing for the same head; the shape says which parts of a
                     \* block are POPULATED ("full": every transaction kind, events, messages, classes,
                     \* every diff section; "emptydiff": transactions but no state-diff entry at all;
                     \* "empty": no transaction and no diff entry; "bare": transactions without events /
                     \* messages / reverts, a diff without classes)
  Targets,           \* [shape -> SUBSET field names]: tamperings that have something to alter in that shape
  EmptyDiffShapes,   \* shapes whose state diff has no entry (applying it leaves the root where it is)
  ClassShapes,       \* shapes that declare classes (and replace the class of existing contracts, and -
                     \* from CasmV2From on - migrate the oldest class still under the old compiled hash)
  DeployShapes,      \* shapes whose diff deploys a new contract
  CasmV2From,        \* index in Versions from which classes are declared with the V2 compiled class hash
                     \* and the `migrated` section exists
  MaxPending,        \* blocks verified ahead and not yet stored
  (* presence / value classes of committed fields *)
  ClassFields,       \* the committed fields that have a class dimension (representatives, see MCBlockVerify)
  TxClassFields,     \* ... those committed through a TRANSACTION hash (the others through the block hash)
  ClassOf,           \* [ClassFields -> SUBSET Classes]: the classes the representation can carry
  ValidClassOf,      \* [ClassFields -> SUBSET Classes]: the classes a protocol-valid block can carry (a v3
                     \* transaction without an L1_GAS / L2_GAS bound is malformed)
  ClassIn,           \* [version -> SUBSET ClassFields]: the class fields that exist in that version
  ShapeClass,        \* [shape -> [ClassFields -> Classes \cup {"none"}]]: the class of each field in the builder's
                     \* block of that shape ("none": the shape has no carrier of the field)
  ProtoSame,         \* [version -> SUBSET ClassFields]: the protocol itself hashes present-zero like absent
  ZeroAsAbsent,      \* SUBSET ClassFields: the CODE hashes present-zero like absent ({} = the code as it is)
  MalformedRefused,  \* a transaction in a class no valid transaction has (a v3 transaction without an L1_GAS or
                     \* L2_GAS bound: there is no preimage) is refused.  TRUE = repaired; FALSE = the code as it is:
                     \* the hash function dereferences the missing bound and the verifier crashes (finding
                     \* block-verify:crash:invalid-class*)
  (* design switches; TRUE/TRUE/TRUE/FALSE is the code as it is.  The other settings are used as
     self-tests of the properties below (TLC must find the violation). *)
  SuccessionChecked, \* Store runs verifyBlockSuccession
  RootChecked,       \* state.Update compares the computed root with the declared one
  RootCheckedOnEmptyDiff, \* ... also when the state diff has no entry
  TxHashesChecked,   \* VerifyBlockHash runs VerifyTransactions
  WriteBeforeChecks, \* Store writes header indexes outside the batch before checking
  (* the guards of the state layer (TRUE = the mechanism exists) *)
  DeployGuard,       \* deploying an address that already exists is refused (ErrContractAlreadyDeployed)
  ExistGuard,        \* replacing the class of an address that does not exist is refused (ErrContractNotDeployed)
  MigrateGuard,      \* migrating a class that is not an unmigrated old-hash class is refused
  RedeclareGuard     \* declaring a Sierra class that is already declared is refused.  FALSE = the code as
                     \* it is (finding block-verify:accepted-inapplicable:redeclare*); TRUE = repaired

VARIABLES chain,     \* sequence of stored blocks
          db,        \* [height, byNumber, byHash]: the indexes Store writes
          state,     \* sequence of applied diffs (its image is the state root)
          pending,   \* set of blocks that passed SanityCheckNewHeight and wait for Store
          act, res, cur

vars == <<chain, db, state, pending, act, res, cur>>
view == <<chain, db, state, pending>>

VSet == {Versions[i] : i \in 1..Len(Versions)}
VIdx(v) == CHOOSE i \in 1..Len(Versions) : Versions[i] = v
AllFields == UNION {Committed[v] : v \in VSet}

Zero == <<>>                                   \* the zero felt: parent of block 0
HeadHash == IF Len(chain) = 0 THEN Zero ELSE chain[Len(chain)].hash
HeadVIdx == IF Len(chain) = 0 THEN 1 ELSE VIdx(chain[Len(chain)].version)

--------------------------------------------------------------------------------
(* what exists after the diffs in s were applied.  Contracts and Sierra classes are named by the
   content id <<height, shape, version>> of the block that created them. *)
Cids(s) == {s[i][1] : i \in 1..Len(s)}
Contracts(s) == {c \in Cids(s) : c[2] \in DeployShapes}
Declared(s) == {c \in Cids(s) : c[2] \in ClassShapes}
IsV2(c) == VIdx(c[3]) >= CasmV2From
Oldest(S) == CHOOSE c \in S : \A o \in S : c[1] <= o[1]
(* classes declared with the old compiled class hash and not migrated yet: a class-declaring block
   from CasmV2From on migrates the oldest one *)
RECURSIVE Unmig(_)
Unmig(s) ==
  IF Len(s) = 0 THEN {}
  ELSE LET p == Unmig(SubSeq(s, 1, Len(s) - 1))
           c == s[Len(s)][1]
       IN IF c[2] \notin ClassShapes THEN p
          ELSE IF IsV2(c) THEN (IF p = {} THEN p ELSE p \ {Oldest(p)})
          ELSE p \cup {c}
Migrated(s) == {c \in Declared(s) : ~IsV2(c)} \ Unmig(s)

(* the sections of the diff the reference builder produces for content c on state s *)
Ent(c, s) ==
  [deployed |-> IF c[2] \in DeployShapes THEN {c} ELSE {},
   replaced |-> IF c[2] \in ClassShapes THEN Contracts(s) ELSE {},
   declared |-> IF c[2] \in ClassShapes THEN {c} ELSE {},
   migrated |-> IF c[2] \in ClassShapes /\ IsV2(c) /\ Unmig(s) # {} THEN {Oldest(Unmig(s))} ELSE {}]

(* the protocol meaning: the diff can be applied to s *)
Applicable(e, s) ==
  /\ e.deployed \cap Contracts(s) = {}
  /\ e.replaced \subseteq Contracts(s)
  /\ e.declared \cap Declared(s) = {}
  /\ e.migrated \subseteq Unmig(s)

(* what the state layer refuses *)
ApplyWhy(e, s) ==
  IF DeployGuard /\ e.deployed \cap Contracts(s) # {} THEN "already-deployed"
  ELSE IF ExistGuard /\ ~(e.replaced \subseteq Contracts(s)) THEN "not-deployed"
  ELSE IF RedeclareGuard /\ e.declared \cap Declared(s) # {} THEN "already-declared"
  ELSE IF MigrateGuard /\ ~(e.migrated \subseteq Unmig(s)) THEN "cannot-migrate"
  ELSE "ok"

(* what the commitments see of the sections: two merged lists *)
Merged(e) == <<e.deployed \cup e.replaced, e.declared \cup e.migrated>>

(* the ways to make a diff inapplicable that neither the hash nor the root can see.
   moves (the block hash stays what it was): an entry changes section;
   adds (the block is re-sealed): an entry re-states what the state already holds *)
InapMoves == {"redeploy", "replace-new", "migrate-new", "redeclare"}
InapAdds == {"redeploy-same", "redeclare-same", "migrate-again"}
HasTarget(k, c, e, s) ==
  CASE k = "redeploy" -> e.replaced # {}
    [] k = "replace-new" -> e.deployed # {}
    [] k = "migrate-new" -> e.declared # {} /\ IsV2(c)
    [] k = "redeclare" -> e.migrated # {}
    [] k = "redeploy-same" -> Contracts(s) # {}
    [] k = "redeclare-same" -> Declared(s) # {}
    [] k = "migrate-again" -> IsV2(c) /\ Migrated(s) # {}
    [] OTHER -> FALSE
Alter(k, e, s) ==
  CASE k = "redeploy" -> LET x == Oldest(e.replaced) IN [e EXCEPT !.replaced = @ \ {x}, !.deployed = @ \cup {x}]
    [] k = "replace-new" -> [e EXCEPT !.deployed = {}, !.replaced = @ \cup e.deployed]
    [] k = "migrate-new" -> [e EXCEPT !.declared = {}, !.migrated = @ \cup e.declared]
    [] k = "redeclare" -> [e EXCEPT !.migrated = {}, !.declared = @ \cup e.migrated]
    [] k = "redeploy-same" -> [e EXCEPT !.deployed = @ \cup {Oldest(Contracts(s))}]
    [] k = "redeclare-same" -> [e EXCEPT !.declared = @ \cup {Oldest(Declared(s))}]
    [] k = "migrate-again" -> [e EXCEPT !.migrated = @ \cup {Oldest(Migrated(s))}]

--------------------------------------------------------------------------------
(* presence / value classes *)
Classes == {"absent", "zero", "nonzero"}
(* the class of field f in block b: the builder's (given by the shape), or the one it was moved to *)
ClsAt(b, f) == IF b.rc # <<>> /\ b.rc[1] = f THEN b.rc[2] ELSE ShapeClass[b.cid[2]][f]
(* how a hash function that does not tell present-zero from absent for the fields in S sees a class *)
SeenAs(c, f, S) == IF f \in S /\ c = "zero" THEN "absent" ELSE c
(* An injective image of the class assignment [f \in F \cap ClassIn[version] |-> SeenAs(ClsAt(b, f), f, S)] AS SUCH A
   FUNCTION SEES IT.  The content id fixes the builder's assignment, so the seen assignment is given by
   (i) the builder's present-zero fields the function is blind to and (ii) the one moved field with the
   class the function sees there - unless it sees no difference.  (TLC checks the equivalence with the
   explicit function for every version, shape, field and pair of classes: ClassTermFaithful.) *)
Blind(v, s, S, F) == {f \in (S \cap ClassIn[v]) \cap F : ShapeClass[s][f] = "zero"}
Moved(b, S, F) ==
  IF b.rc = <<>> \/ b.rc[1] \notin ClassIn[b.version] \cap F THEN <<>>
  ELSE LET f == b.rc[1] IN
       IF SeenAs(b.rc[2], f, S) = SeenAs(ShapeClass[b.cid[2]][f], f, S) THEN <<>>
       ELSE <<f, SeenAs(b.rc[2], f, S)>>
ClassTerm(b, S, F) == IF S = {} /\ b.rc = <<>> THEN <<{}, <<>>>>      \* (shortcut, same value)
                      ELSE <<Blind(b.version, b.cid[2], S, F), Moved(b, S, F)>>
ProtoBlind(b) == ProtoSame[b.version]                       \* the protocol's own conflations
CodeBlind(b) == ProtoSame[b.version] \cup ZeroAsAbsent       \* ... plus the code's

(* hashes, as injective terms over what is committed: field -> (presence / value class, value) *)
TxHashOfC(b, S) == <<b.cid, (b.alt \cap Committed[b.version]) \cap TxFields, ClassTerm(b, S, TxClassFields)>>
HashOfC(b, S) == <<b.version, b.number, b.parent, b.root, b.cid,
                   (b.alt \cap Committed[b.version]) \ (TxFields \cup SuFields), b.txh, Merged(b.ent),
                   ClassTerm(b, S, ClassFields \ TxClassFields)>>
(* the protocol's (what a valid block declares) and the code's (what the verifier recomputes) *)
TxHashOf(b) == TxHashOfC(b, ProtoBlind(b))
HashOf(b) == HashOfC(b, ProtoBlind(b))
CodeTxHashOf(b) == TxHashOfC(b, CodeBlind(b))
CodeHashOf(b) == HashOfC(b, CodeBlind(b))

ClassTermFaithful ==
  \A v \in VSet, s \in Shapes : \A f \in ClassIn[v] : ShapeClass[s][f] = "none" \/
    \A S \in {ProtoSame[v], ProtoSame[v] \cup ZeroAsAbsent}, F \in {TxClassFields, ClassFields \ TxClassFields} :
      \A c1, c2 \in ClassOf[f] :
        LET blk(c) == [cid |-> <<0, s, v>>, version |-> v, rc |-> IF c = ShapeClass[s][f] THEN <<>> ELSE <<f, c>>]
        IN f \in F => ((SeenAs(c1, f, S) = SeenAs(c2, f, S)) <=> (ClassTerm(blk(c1), S, F) = ClassTerm(blk(c2), S, F)))
ASSUME ClassTermFaithful

DiffOf(b) == <<b.cid, b.alt \cap SdFields>>
(* a diff without entries changes nothing: the root after it is the root before it *)
DiffIsEmpty(b) == b.cid[2] \in EmptyDiffShapes /\ b.alt \cap SdFields = {}
RootAfter(s, b) == IF DiffIsEmpty(b) THEN s ELSE Append(s, DiffOf(b))

(* protocol validity of a block on its own: every declared hash recomputes *)
Valid(b) == /\ b.txh = TxHashOf(b)
            /\ b.hash = HashOf(b)
            /\ b.alt \cap SuFields = {}        \* the state update declares the block's hash and root
            /\ b.classOK                       \* every declared class hashes to its declared hash

Rehash(b) == LET b1 == [b EXCEPT !.txh = TxHashOf(b)] IN [b1 EXCEPT !.hash = HashOf(b1)]

(* what the reference builder (chainkit: the real Simulate on a twin node) produces for the
   current head *)
Pristine(v, var) ==
  LET c == <<Len(chain), var, v>>
      b0 == [cid |-> c, number |-> Len(chain), parent |-> HeadHash, version |-> v, alt |-> {},
             rc |-> <<>>,
             oldRoot |-> state, root |-> state, classOK |-> TRUE,
             txh |-> Zero, hash |-> Zero, ent |-> Ent(c, state)]
      b1 == [b0 EXCEPT !.root = RootAfter(state, b0)]
  IN Rehash(b1)

--------------------------------------------------------------------------------
(* the moved field is in a class no protocol-valid transaction has: the transaction hash has no preimage *)
Malformed(b) == /\ b.rc # <<>> /\ b.rc[1] \in ClassIn[b.version] \cap TxClassFields
                /\ b.rc[2] \notin ValidClassOf[b.rc[1]]

(* the two stages of the pipeline, in the order of the code's checks *)
VerifyWhy(b) ==
  IF b.alt \cap SuFields # {} THEN "su"                           \* SanityCheckNewHeight lines 1-2
  ELSE IF ~b.classOK THEN "class"                                 \* core.VerifyClassHashes
  ELSE IF TxHashesChecked /\ Malformed(b) THEN (IF MalformedRefused THEN "malformed" ELSE "crash")
  ELSE IF TxHashesChecked /\ b.txh # CodeTxHashOf(b) THEN "txhash" \* core.VerifyTransactions
  ELSE IF b.hash # CodeHashOf(b) THEN "hash"                      \* core.BlockHash comparison
  ELSE "ok"

StoreWhy(b) ==
  IF SuccessionChecked /\ b.number # Len(chain) THEN "number"     \* verifyBlockSuccession
  ELSE IF SuccessionChecked /\ b.parent # HeadHash THEN "parent"
  ELSE IF b.oldRoot # state THEN "oldroot"                        \* state.Update: verifyComm(OldRoot)
  ELSE IF ApplyWhy(b.ent, state) # "ok" THEN ApplyWhy(b.ent, state) \* the guards of the state layer
  ELSE IF RootChecked /\ (RootCheckedOnEmptyDiff \/ ~DiffIsEmpty(b))
          /\ b.root # RootAfter(state, b) THEN "root"             \* state.Update: new root check
  ELSE "ok"

Written(d, b) == [height |-> b.number,
                  byNumber |-> {p \in d.byNumber : p[1] # b.number} \cup {<<b.number, b.cid>>},
                  byHash |-> d.byHash \cup {<<b.hash, b.number>>}]

Accept(b) ==
  /\ chain' = Append(chain, b)
  /\ state' = RootAfter(state, b)
  /\ db' = Written(db, b)
  /\ res' = [kind |-> "accepted", stage |-> "store", why |-> "ok"]

Reject(stage, why) ==
  /\ UNCHANGED <<chain, state>>
  /\ res' = [kind |-> "rejected", stage |-> stage, why |-> why]

StoreStage(b) ==
  LET sw == StoreWhy(b) IN
  IF sw = "ok" THEN Accept(b)
  ELSE /\ Reject("store", sw)
       /\ db' = IF WriteBeforeChecks THEN [Written(db, b) EXCEPT !.height = db.height] ELSE db

Process(b) ==
  /\ cur' = b
  /\ LET vw == VerifyWhy(b) IN
     IF vw = "crash"
     THEN UNCHANGED <<chain, state>> /\ db' = db /\ res' = [kind |-> "crashed", stage |-> "verify", why |-> vw]
     ELSE IF vw # "ok" THEN Reject("verify", vw) /\ db' = db ELSE StoreStage(b)
  /\ UNCHANGED pending

--------------------------------------------------------------------------------
CanGrow == Len(chain) < MaxLen
NextVersions == {Versions[i] : i \in HeadVIdx..Len(Versions)}
Act(name, v, var, f, kind) == [name |-> name, v |-> v, var |-> var, f |-> f, kind |-> kind, seal |-> "", from |-> "", h |-> Len(chain)]

(* a valid successor of the head *)
Offer(v, var) ==
  /\ CanGrow /\ v \in NextVersions
  /\ act' = Act("Offer", v, var, "", "")
  /\ Process(Pristine(v, var))

(* a valid successor with exactly one committed field altered; every declared hash is kept *)
OfferTampered(v, var, f) ==
  /\ CanGrow /\ v \in NextVersions /\ f \in Committed[v] \cap Targets[var]
  /\ act' = Act("OfferTampered", v, var, f, "")
  /\ Process([Pristine(v, var) EXCEPT !.alt = {f}])

(* a valid successor with exactly one committed field moved to another presence / value class
   (absent -> present-zero, present-zero -> absent, present-zero -> non-zero, ...; kind = the class
   it is moved to); every declared hash is kept.  Offered only when the protocol tells the two
   classes apart in this version. *)
OfferReclass(v, var, f, c) ==
  /\ CanGrow /\ v \in NextVersions
  /\ f \in ClassIn[v] /\ ShapeClass[var][f] # "none" /\ c \in ClassOf[f] \ {ShapeClass[var][f]}
  /\ LET p == Pristine(v, var)
         b == [p EXCEPT !.rc = <<f, c>>]
     IN /\ Moved(b, ProtoBlind(b), ClassFields) # <<>>
        /\ act' = [Act("OfferReclass", v, var, f, c) EXCEPT !.from = ShapeClass[var][f]]
        /\ Process(b)

(* hash-valid blocks that do not continue the head *)
OfferWrongParent(v, var) ==
  /\ CanGrow /\ v \in NextVersions
  /\ act' = Act("OfferWrongParent", v, var, "", "")
  /\ Process(Rehash([Pristine(v, var) EXCEPT !.parent = <<"not-the-head">>]))

OfferWrongNumber(v, var, kind) ==
  /\ CanGrow /\ v \in NextVersions
  /\ kind \in {"skip", "repeat"} /\ (kind = "repeat" => Len(chain) > 0)
  /\ act' = Act("OfferWrongNumber", v, var, "", kind)
  /\ Process(Rehash([Pristine(v, var) EXCEPT
                       !.number = IF kind = "skip" THEN Len(chain) + 1 ELSE Len(chain) - 1]))

(* a block whose declared state root is not the root of applying its diff:
   "root" - another root declared; "diff" - one diff entry altered / added, root kept;
   "oldroot" - the state update claims another pre-state.
   seal = "resealed": the block hash is recomputed over the altered block (and the state update
   mirrors it), so ONLY the state-root checks of Store can reject it; seal = "kept": the old hash
   is kept (the hash check rejects "root" and "diff"; the old root is not hashed). *)
OfferWrongRoot(v, var, kind, seal) ==
  /\ CanGrow /\ v \in NextVersions /\ kind \in {"root", "diff", "oldroot"} /\ seal \in {"resealed", "kept"}
  /\ act' = [Act("OfferWrongRoot", v, var, "", kind) EXCEPT !.seal = seal]
  /\ LET p == Pristine(v, var)
         b == CASE kind = "root" -> [p EXCEPT !.root = Append(state, <<"other-root">>)]
                [] kind = "diff" -> [p EXCEPT !.alt = {CHOOSE f \in (SdFields \cap Committed[v]) \cap Targets[var] : TRUE}]
                [] kind = "oldroot" -> [p EXCEPT !.oldRoot = Append(state, <<"other-root">>)]
     IN Process(IF seal = "resealed" THEN Rehash(b) ELSE b)

(* a valid successor whose diff was made inapplicable in a way neither hash nor root shows: for a
   move every declared hash is kept (and still recomputes); for an add the block is re-sealed *)
OfferInapplicable(v, var, kind) ==
  /\ CanGrow /\ v \in NextVersions /\ kind \in InapMoves \cup InapAdds
  /\ LET p == Pristine(v, var) IN
     /\ HasTarget(kind, p.cid, p.ent, state)
     /\ act' = [Act("OfferInapplicable", v, var, "", kind) EXCEPT !.seal = IF kind \in InapAdds THEN "resealed" ELSE "kept"]
     /\ LET b == [p EXCEPT !.ent = Alter(kind, p.ent, state)]
        IN Process(IF kind \in InapAdds THEN Rehash(b) ELSE b)

(* hash-valid block carrying a class definition that does not hash to its declared class hash *)
OfferStaleClassHash(v, var) ==
  /\ CanGrow /\ v \in NextVersions /\ var \in ClassShapes
  /\ act' = Act("OfferStaleClassHash", v, var, "", "")
  /\ Process([Pristine(v, var) EXCEPT !.classOK = FALSE])

(* a valid successor whose write batch fails to commit (environment fault: one failed
   Batch.Write); the caller sees an error and nothing may have changed - in particular the same
   block offered again must be accepted *)
OfferCommitFails(v, var) ==
  /\ CanGrow /\ v \in NextVersions
  /\ act' = Act("OfferCommitFails", v, var, "", "")
  /\ cur' = Pristine(v, var)
  /\ Reject("store", "io") /\ db' = db
  /\ UNCHANGED pending

(* sync verifies ahead: SanityCheckNewHeight now, Store later (possibly after a competitor) *)
VerifyAhead(v, var) ==
  /\ CanGrow /\ v \in NextVersions /\ Cardinality(pending) < MaxPending
  /\ LET b == Pristine(v, var) IN
     /\ b \notin pending
     /\ VerifyWhy(b) = "ok"
     /\ pending' = pending \cup {b}
     /\ cur' = b
  /\ act' = Act("VerifyAhead", v, var, "", "")
  /\ res' = [kind |-> "verified", stage |-> "verify", why |-> "ok"]
  /\ UNCHANGED <<chain, db, state>>

StorePending(b) ==
  /\ b \in pending
  /\ (Len(chain) < MaxLen \/ StoreWhy(b) # "ok")
  /\ pending' = pending \ {b}
  /\ cur' = b
  /\ act' = [name |-> "StorePending", v |-> b.version, var |-> b.cid[2], f |-> "", kind |-> "", seal |-> "", from |-> "", h |-> b.cid[1]]
  /\ StoreStage(b)

(* the node restarts: new objects over the same database (gracefully - the running event filter is
   persisted first - or not).  Blocks verified ahead live in the sync pipeline's memory and are
   gone; everything the property speaks about is in the database and must be unaffected. *)
Restart(graceful) ==
  /\ act' = Act("Restart", "", "", "", IF graceful THEN "graceful" ELSE "ungraceful")
  /\ res' = [kind |-> "restarted", stage |-> "", why |-> "ok"]
  /\ pending' = {}
  /\ UNCHANGED <<chain, db, state, cur>>

Init ==
  /\ chain = <<>> /\ state = <<>> /\ pending = {}
  /\ db = [height |-> -1, byNumber |-> {}, byHash |-> {}]
  /\ act = [name |-> "Init"] /\ res = [kind |-> "none"] /\ cur = [cid |-> Zero]

Next ==
  \/ \E v \in VSet, var \in Shapes : Offer(v, var)
  \/ \E v \in VSet, var \in Shapes, f \in AllFields : OfferTampered(v, var, f)
  \/ \E v \in VSet, var \in Shapes, f \in ClassFields, c \in Classes : OfferReclass(v, var, f, c)
  \/ \E v \in VSet, var \in Shapes : OfferWrongParent(v, var)
  \/ \E v \in VSet, var \in Shapes, k \in {"skip", "repeat"} : OfferWrongNumber(v, var, k)
  \/ \E v \in VSet, var \in Shapes, k \in {"root", "diff", "oldroot"}, sl \in {"resealed", "kept"} :
       OfferWrongRoot(v, var, k, sl)
  \/ \E v \in VSet, var \in Shapes : OfferStaleClassHash(v, var)
  \/ \E v \in VSet, var \in Shapes, k \in InapMoves \cup InapAdds : OfferInapplicable(v, var, k)
  \/ \E v \in VSet, var \in Shapes : OfferCommitFails(v, var)
  \/ \E v \in VSet, var \in Shapes : VerifyAhead(v, var)
  \/ \E b \in pending : StorePending(b)
  \/ \E g \in BOOLEAN : Restart(g)

Spec == Init /\ [][Next]_vars

--------------------------------------------------------------------------------
(* properties *)
TypeOK ==
  /\ Len(chain) <= MaxLen
  /\ Cardinality(pending) <= MaxPending
  /\ db.height \in -1..(MaxLen - 1)

RECURSIVE StateOf(_)
StateOf(i) == IF i = 0 THEN <<>> ELSE RootAfter(StateOf(i - 1), chain[i])

(* everything stored verifies and links up; the state is the diffs of the stored blocks *)
StoredChainValid ==
  \A i \in 1..Len(chain) :
    LET b == chain[i] IN
    /\ Valid(b)
    /\ b.alt \cap Committed[b.version] = {}       \* and differs from the builder's block in no committed field
    /\ b.rc = <<>>                                \* ... nor in the presence / value class of one
    /\ \A f \in ClassIn[b.version] : ClsAt(b, f) \in ValidClassOf[f] \cup {"none"}
    /\ b.number = i - 1
    /\ b.parent = (IF i = 1 THEN Zero ELSE chain[i - 1].hash)
    /\ b.root = StateOf(i)
    /\ b.oldRoot = StateOf(i - 1)
    /\ Applicable(b.ent, StateOf(i - 1))          \* its diff could be applied ...
    /\ b.ent = Ent(b.cid, StateOf(i - 1))         \* ... and is, section by section, the builder's

StateIsChain == state = StateOf(Len(chain))

(* the indexes are exactly the projection of the stored chain *)
DbConsistent ==
  /\ db.height = Len(chain) - 1
  /\ db.byNumber = {<<i - 1, chain[i].cid>> : i \in 1..Len(chain)}
  /\ db.byHash = {<<chain[i].hash, i - 1>> : i \in 1..Len(chain)}

(* Accepted(b) => Valid(b) /\ number = head+1 /\ parent = headHash /\ root matches *)
AcceptedOnlyIfValid ==
  [][res'.kind = "accepted" =>
       /\ Valid(cur')
       /\ cur'.number = Len(chain)
       /\ cur'.parent = HeadHash
       /\ cur'.oldRoot = state
       /\ cur'.root = RootAfter(state, cur')
       /\ Applicable(cur'.ent, state)
       /\ chain' = Append(chain, cur')]_vars

(* Rejected => UNCHANGED <<chain, db, state>> *)
RejectedUnchanged ==
  [][res'.kind = "rejected" => UNCHANGED <<chain, db, state>>]_vars

(* any single committed-field difference from a valid block is rejected; so is every
   non-continuing / wrong-root / stale-class offer; every valid successor is accepted *)
TamperRejected ==
  [][act'.name \in {"OfferTampered", "OfferReclass", "OfferWrongParent", "OfferWrongNumber", "OfferWrongRoot",
                    "OfferStaleClassHash", "OfferInapplicable"} => res'.kind = "rejected"]_vars

(* the inapplicable offers are exactly the ones the hash and root checks cannot decide: every
   declared hash recomputes, the block continues the head and declares the root of its diff *)
InapplicableLooksValid ==
  [][act'.name = "OfferInapplicable" =>
       /\ VerifyWhy(cur') = "ok"
       /\ cur'.number = Len(chain) /\ cur'.parent = HeadHash /\ cur'.oldRoot = state
       /\ cur'.root = RootAfter(state, cur')
       /\ ~Applicable(cur'.ent, state)
       /\ (act'.seal = "kept" => cur'.hash = Pristine(act'.v, act'.var).hash)]_vars

RestartIsNoOp ==
  [][act'.name = "Restart" => UNCHANGED <<chain, db, state>>]_vars

ValidAccepted ==
  [][act'.name = "Offer" => res'.kind = "accepted" /\ Len(chain') = Len(chain) + 1]_vars

(* a verified-ahead block is stored iff it still continues the head *)
PendingStoredIffContinues ==
  [][act'.name = "StorePending" =>
       (res'.kind = "accepted" <=> (cur'.number = Len(chain) /\ cur'.parent = HeadHash))]_vars
=============================================================================

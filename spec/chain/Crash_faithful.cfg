\* the code as it was at the pinned commit (every switch FALSE): TLC must find a violation (H3 first); the check generates the faithful cfg from the switches it probes on the code
CONSTANTS
  MaxH = 3
  MaxVer = 2
  MaxOps = 5
  InitH = 1
  Boundary = 2
  Genesis = FALSE
  Lag = 10
  PruneBatch = 1
  EnableFaults = TRUE
  EnablePrune = TRUE
  FixMemAfterCommit = FALSE
  FixSnapshot = FALSE
  FixReorgWindow = FALSE
  FixPruneAtomicFloor = FALSE
  FixCacheOnReorg = FALSE
  FixInitConsume = TRUE
  FixInitRetry = TRUE
INIT Init
NEXT Next
VIEW view
INVARIANTS InitMutsBounded TypeOK Consistent MemAgreesWithDisk NextStoreSucceeds StateReadsCorrect
PROPERTIES FailedInitIsRetried FailedWriteAppliesNothing RestartIsNoOp
CHECK_DEADLOCK FALSE

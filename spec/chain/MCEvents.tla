------------------------------- MODULE MCEvents -------------------------------
(* Model-checking instance of Events: the menus a .cfg cannot express, and the export of a
   counterexample as a replayable behaviour (used by checks/C09.py to confirm each known defect
   on the real code before deciding which switches describe the tree under test). *)
EXTENDS Events, TLCExt, Json

FullRangeOnly == 0 - 1      \* value for RangeSlack (a .cfg cannot write a negative number)

Addrs == {"a1", "a2"}
Keys == {"k1", "k2"}

E(a, ks) == [a |-> a, k |-> ks]
F(as, ks) == [addrs |-> as, keys |-> ks]

\* ---- block menus (a block = sequence of transactions = sequence of sequences of events)
BlkEmpty == <<>>
BlkX == << <<E("a1", <<"k1">>)>> >>                               \* one tx, one event
BlkY == << <<E("a2", <<"k2", "k1">>)>> >>
BlkZ == << <<E("a1", <<"k1">>), E("a2", <<"k1", "k2">>)>>, <<>>, <<E("a1", <<>>), E("a1", <<"k1">>)>> >>
BlocksMin == {BlkEmpty, BlkX}
BlocksSmall == {BlkEmpty, BlkX, BlkY}
BlocksPaging == {BlkEmpty, BlkX, BlkZ}

\* ---- filter menus
FK1 == F({}, <<{"k1"}>>)                     \* key k1 at position 0, any address
FA2 == F({"a2"}, <<>>)                        \* address only
FP1 == F({}, <<{}, {"k1"}>>)                  \* empty first position, k1 at position 1
FAK == F({"a1"}, <<{"k1", "k2"}>>)            \* address and alternatives
FAll == F({}, <<>>)                           \* everything
FTrail == F({"a1", "a2"}, <<{"k1"}, {}>>)     \* trailing empty position: needs >= 2 keys
FiltersMin == {FK1}
FiltersSmall == {FK1, FA2, FP1}
FiltersPaging == {FK1, FA2, FP1, FAK, FAll, FTrail}

\* every filter over the atoms: 4 address sets x key lists of length 0..2 over the 4 key sets
KeySets == SUBSET Keys
FiltersAll == {F(as, ks) : as \in SUBSET Addrs,
                            ks \in {<<>>} \cup {<<x>> : x \in KeySets} \cup {<<x, y>> : x \in KeySets, y \in KeySets}}

\* ---- random block contents for behaviour generation
KeySeqs == {<<>>} \cup {<<x>> : x \in Keys} \cup {<<x, y>> : x \in Keys, y \in Keys}
EvMenu == {E(a, ks) : a \in Addrs, ks \in KeySeqs}

--------------------------------------------------------------------------
(* what the replayer can observe of the real node after every step: the chain height and the
   index structures on disk (persisted windows with the blocks flagged per atom, the snapshot) *)
ProjOf(ch, p, s) ==
  [height |-> HeightOf(ch),
   persisted |-> {[w |-> w, bits |-> p[w]] : w \in DOMAIN p},
   snap |-> [ok |-> s.ok, from |-> s.from, next |-> s.next, bits |-> s.bits]]

(* counterexample export: the invariants below are FALSE exactly where the corresponding property
   of Events is violated, and print the path to that state first.  Used without VIEW so that the
   output variables are part of the state. *)
CexSteps == LET tr == Trace IN
            [i \in 1..(Len(tr) - 1) |-> [a |-> tr[i + 1].act, res |-> tr[i + 1].res,
                                          st |-> ProjOf(tr[i + 1].chain, tr[i + 1].persisted, tr[i + 1].snapshot)]]
Cex(bad) == bad => (PrintT(ToJson(CexSteps)) /\ FALSE)

CexQuery == Cex(act.name = "Query" /\ ~res.exact)
CexBlocked == Cex(act.name \in {"Store", "Revert"} /\ res.kind # "ok")
=============================================================================

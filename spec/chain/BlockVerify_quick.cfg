\* exhaustive: chain length <= 3, 2 competing variants per head, 2 blocks verified ahead,
\* every (position, version, committed field) tamper and every non-continuing / wrong-root offer.
\* measured: see evidence (states / transitions are recorded by the check on every run)
CONSTANTS
  Versions <- MCVersions
  Committed <- MCCommitted
  TxFields <- MCTxFields
  SdFields <- MCSdFields
  SuFields <- MCSuFields
  MaxLen = 3
  Shapes <- MCShapes
  Targets <- MCTargets
  EmptyDiffShapes <- MCEmptyDiffShapes
  ClassShapes <- MCClassShapes
  MaxPending = 1
  SuccessionChecked = TRUE
  RootChecked = TRUE
  RootCheckedOnEmptyDiff = TRUE
  TxHashesChecked = TRUE
  WriteBeforeChecks = FALSE
INIT Init
NEXT Next
VIEW view
INVARIANTS TypeOK StoredChainValid StateIsChain DbConsistent
PROPERTIES AcceptedOnlyIfValid RejectedUnchanged TamperRejected ValidAccepted PendingStoredIffContinues
CHECK_DEADLOCK FALSE

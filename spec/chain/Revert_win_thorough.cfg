\* thorough: base 1, heights up to 6, empty blocks, sub-range queries, two graceful stops
CONSTANTS
  W = 3
  Base = 1
  MaxBlocks = 6
  MaxGraceful = 2
  BlockMenu <- BlocksEAB
  FilterMenu <- FiltersSmall
  AnyRange = TRUE
  PurgeAt <- PurgeAlways
  DropReopenedWindow = TRUE
  SnapshotConsumedOnLoad = TRUE
  ClearRevertedColumn = TRUE
INIT WInit
NEXT WNext
VIEW wview
INVARIANTS WTypeOK TwinSane DiskAsTwin RunningAsTwin AnswersAsTwin NextAsTwin CacheFresh PersistedComplete SnapshotCurrent
PROPERTIES WRestartIsNoOp CallsNeverFail
CHECK_DEADLOCK FALSE

\* repaired model, base chain 0..1, bloom-window boundary between blocks 1 and 2, 7 operations x every durable mutation (those of the lazy filter initialisation included) x {ok,fail,crash}; exhaustive: 8 467 distinct states (60 742 generated), 3 s
CONSTANTS
  MaxH = 3
  MaxVer = 2
  MaxOps = 7
  InitH = 1
  Boundary = 2
  Genesis = FALSE
  Lag = 10
  PruneBatch = 1
  EnableFaults = TRUE
  EnablePrune = TRUE
  FixMemAfterCommit = TRUE
  FixSnapshot = TRUE
  FixReorgWindow = TRUE
  FixPruneAtomicFloor = TRUE
  FixCacheOnReorg = TRUE
  FixInitConsume = TRUE
  FixInitRetry = TRUE
INIT Init
NEXT Next
VIEW view
INVARIANTS InitMutsBounded TypeOK Consistent MemAgreesWithDisk NextStoreSucceeds StateReadsCorrect
PROPERTIES FailedInitIsRetried FailedWriteAppliesNothing RestartIsNoOp
CHECK_DEADLOCK FALSE

\* expected violation: the shutdown snapshot survives its first use and is resumed after a reorg + crash
CONSTANTS
  W = 3
  Base = 2
  MaxBlocks = 5
  MaxGraceful = 1
  BlockMenu <- BlocksAB
  FilterMenu <- FiltersK
  AnyRange = FALSE
  PurgeAt <- PurgeAlways
  DropReopenedWindow = TRUE
  SnapshotConsumedOnLoad = FALSE
INIT WInit
NEXT WNext
VIEW wview
INVARIANTS AnswersAsTwin
PROPERTIES WRestartIsNoOp
CHECK_DEADLOCK FALSE

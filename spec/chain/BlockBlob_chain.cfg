\* exhaustive: 2 blocks of 0..2 transactions (lookups across blocks)
CONSTANTS
  MaxBlocks = 2
  MaxSize = 2
  Lens = {1, 2}
  Kinds <- KindsOne
  EvCounts = {2}
  Revs = {TRUE, FALSE}
  LastItemRunsToEnd = TRUE
  TxSectionEndsAtReceipts = TRUE
  HashIndexExact = TRUE
  RevertDropsIndexes = TRUE
  MaxReverts = 0
  MemoFamilies = {}
  MemoPurged = TRUE
  FieldTable <- MCFieldTable
  VaryShapes = FALSE
  MaxClasses = 0
  CodecSlip = "none"
  SlipCodecs = {}
INIT Init
NEXT NextR
VIEW view
PROPERTIES RestartIsNoOp ReadIsNoOp
INVARIANTS ItemAccessors OutOfRange BlockAccessors ProjectionsAgree Layout Gone IndexesExact ShapePreserved
CHECK_DEADLOCK FALSE

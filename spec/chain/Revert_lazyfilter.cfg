\* model sensitivity: were RevertHead to roll the running event filter back AFTER its commit, a restart right
\* before a revert must violate FilterCoversChain (expected violation; the code does it inside the batch)
CONSTANTS
  Users = {"c1"}
  Sys = {}
  Slots = {"s1"}
  MaxV = 1
  Cairo0 = {"k0"}
  Sierra = {}
  TxIds = {"t1", "t2", "l1a"}
  L1Txs = {"l1a"}
  MaxBlocks = 3
  MaxOps = 2
  MaxTxs = 1
  Vers = {0}
  FixH4 = TRUE
  SysZeroWrites = FALSE
  SplitReads = FALSE
  AtomicLegacyReads = TRUE
  FilterReorgInBatch = FALSE
INIT RInit
NEXT RNext
VIEW rview
INVARIANTS FilterCoversChain
PROPERTIES RRestartIsNoOp
CHECK_DEADLOCK FALSE

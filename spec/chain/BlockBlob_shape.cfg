\* representation: one block of 0..1 transactions of every Go transaction type, 0..1 declared class of either kind; ONE object of the block
\* takes every vector (one field over all its shape classes, all-empty, all-nil), everything else populated
CONSTANTS
  MaxBlocks = 1
  MaxSize = 1
  Lens = {1}
  Kinds <- KindsTypes
  EvCounts = {2}
  Revs = {FALSE}
  LastItemRunsToEnd = TRUE
  TxSectionEndsAtReceipts = TRUE
  HashIndexExact = TRUE
  RevertDropsIndexes = TRUE
  MaxReverts = 0
  MemoFamilies = {}
  MemoPurged = TRUE
  FieldTable <- MCFieldTable
  VaryShapes = TRUE
  MaxClasses = 1
  CodecSlip = "none"
  SlipCodecs = {}
INIT Init
NEXT NextR
VIEW view
PROPERTIES RestartIsNoOp ReadIsNoOp
INVARIANTS ItemAccessors OutOfRange BlockAccessors ProjectionsAgree Layout Gone IndexesExact ShapePreserved CodecAgreesWithTable ReencodeIdentity
CHECK_DEADLOCK FALSE

------------------------------ MODULE JsonRpc ------------------------------
(* C11 - the JSON-RPC server answers any input with well-formed, correlated responses.

   The module has two halves.

   (1) A DECLARATIVE reading of the property (JSON-RPC 2.0 + the property text): which entries are
       valid Request objects, which are notifications, which class of answer every other entry is
       owed (DeclExpected), and which handler invocation a valid request is owed (slot i gets the value
       the caller supplied for it, by position or by name, or the zero value).

   (2) An OPERATIONAL model of jsonrpc.Server.HandleReader as the code does it (jsonrpc/server.go):
       single vs batch by the first non-space byte, decode into the Request struct, isSane (version,
       method, params shape, id shape - in that order), method lookup, buildArguments (nil-or-empty
       case first, then positional by COUNT, then named with the unexpected-name check), the
       reflective call, notification suppression AFTER the call, and the batch path: a dispatcher
       that answers undecodable entries itself and hands the others to a bounded worker pool whose
       tasks finish in any order.

   TLC checks that (2) refines (1) for every input over the member alphabet.  The three places
   where the code of the pinned commit did NOT are boolean switches (DESIGN 4.7: FALSE = the
   defective behaviour, TRUE = repaired).  FixNotif and FixLongWs were repaired in /repo by
   "fix:" commits (so the cfgs of the code as it is now set them TRUE; JsonRpc_h8.cfg / _h8c.cfg
   keep the pre-fix model as expected-violation runs); FixNonRequest is a known finding (the
   repository's own tests pin the behaviour) and stays FALSE:

     FixNotif       a notification (valid Request object without id) whose method is unknown or
                    whose params do not fit IS answered (-32601 / -32602 with a null id), also inside
                    a batch.  JSON-RPC 2.0 section 4.1: the Server MUST NOT reply to a Notification,
                    including those that are within a batch request.
     FixNonRequest  a syntactically valid JSON text that is not a Request object (a number, a string,
                    true, an object whose jsonrpc or method member is not a string) is answered
                    -32700 Parse error on the
                    single path (the batch path answers the same shapes -32600).  JSON-RPC 2.0
                    section 5.1 / 7: -32700 = invalid JSON was received, -32600 = the JSON sent is
                    not a valid Request object (its example: an object whose method is the number 1
                    is answered -32600).

     FixLongWs      single-vs-batch is decided by peeking into a 128-byte bufio.Reader: after 128 or
                    more bytes of leading whitespace Peek fails, isBatch answers false and a valid
                    batch is decoded as a single Request - answered with one -32700 Parse error
                    object instead of being processed.

   PARAMETER TYPE CLASSES and the VALIDATOR (jsonrpc/server.go parseParam / validateParam).  The server
   treats handler parameters differently by their Go type: every supplied value is json.Unmarshal-ed
   into reflect.New(T); then, if the server was built WithValidator (production: rpcv10.Validator()),
   validateParam hands it to validator.Struct when T is a struct or a NON-NIL pointer to a struct, and
   recurses into the elements of slices, arrays and maps; nothing else is validated; an OMITTED
   optional parameter gets reflect.New(T).Elem() and is never validated.  So each parameter carries a
   type class (TypeClass below: what a JSON null decodes to - the zero value, a nil pointer / slice /
   map, or an error of the type's own UnmarshalJSON -, how validateParam reaches it, whether the type
   declares validate tags, whether its elements may be nil pointers), the value alphabet gets two more
   tokens ("inv": right JSON kind, decodes, violates a validate tag; "nin": a container one of whose
   elements is null), and the server gets the dimension HasValidator.  One mechanism can fail and is a
   switch (TRUE = the code as it is):

     NilPointerSkipsValidation   validateParam asks the VALUE whether a pointer points to a struct
                    (param.Elem().Kind()): a nil pointer has no Elem, is not handed to the validator
                    (validator.Struct(nil *T) is an InvalidValidationError) and reaches the handler as
                    nil - exactly what an omitted parameter gives.  FALSE (the static type is asked
                    instead): an explicit null for an optional *T parameter - and a null element of a
                    []*T / map[string]*T - is refused with -32602 and the handler never runs.

   and one place where the code as it is does NOT refine the property is a switch of the FALSE = defective /
   TRUE = repaired kind:

     FixNullRequired   a JSON null for a REQUIRED parameter whose Go type is a pointer decodes to a nil
                    pointer (for a pointer to a tagged struct too: nil skips validation) and the handler
                    is called with it - but a required pointer parameter is one the handler may
                    dereference, and every handler of rpc/v8..v10 does (block_id, transaction_hash,
                    filter, request ...): {"method":"starknet_getBlockWithTxHashes","params":[null]}
                    panics inside reflect.Call; over HTTP the connection is dropped without a response,
                    inside a batch the pool swallows the panic and the entry gets no response at all.
                    The property: null is "not present"; for a required parameter that is the
                    missing-parameter case, -32602, and the handler is not invoked.

   THE EXCHANGE'S CONTEXT (deadlines, cancellation).  Every exchange runs under a context.Context: HTTP derives
   it from the request (WithRequestTimeout -> context.WithTimeout), HandleReadWriter from the connection
   (requestTimeout), HandleReader takes whatever the caller gives.  Read, not assumed - where the code looks at it:
     * jsonrpc/http.go, only when the handler was built WithGate: Gate.Acquire(ctx) tests ctx.Err() FIRST; a
       context that has already ended is refused before the body is read - deadline exceeded: HTTP 503 +
       Retry-After ("refused"), cancelled: the client is gone, nothing is written ("dropped").  No handler runs.
     * NOWHERE else.  HandleReader, handleBatchRequest (which only derives a WithCancel child that it cancels when
       the batch is done), the worker pool (pool.Go blocks on a free worker, never on the context) and
       handleRequest dispatch every entry whatever the state of the context; the context is HANDED to the handlers
       that take one, and a handler called after the deadline sees an ended context.  So the code promises: once
       an exchange has been admitted, every entry is dispatched, its handler invoked exactly once and its answer
       included - also when the deadline has expired before dispatch (a request decoded late), when it expires
       while an earlier entry of the batch occupies the only worker, and when the client has gone away.
   cx is the state of the context ("live" | "expired" | "cancelled"), cx0 its state when the exchange started,
   CtxEnd(s) ends it at any moment of the batch dispatch; seen records what each invoked handler found.  One
   mutant switch (NOT a defect of the code; {} = the code as it is):

     SilentOnCtx    the set of context states in which handleRequest, after the method lookup, returns "no
                    response" without building arguments or calling the handler.  A nil response is how
                    NOTIFICATIONS are represented: a request WITH an id whose turn comes after the deadline is
                    silently dropped - short batch array, empty body for a single request - and its handler never
                    runs.  {"expired"}: "the transport reports the timeout" (nothing does, past the gate);
                    {"cancelled"}: "nobody is listening any more" (the batch's other entries still are answered).

   Modelling decisions (stated, not hidden):
     * an id member that is null is read as no id - the code (Request.ID == nil) and JSON-RPC 1.0 treat it as a
       notification; 2.0 merely discourages it.  Not judged.
     * For an INVALID request the property accepts a null id or the request's own id (2.0 says null
       when the id could not be detected; the code echoes it when the struct decoded).
     * Only the FIRST JSON value of the byte stream is the request (json.Decoder); trailing bytes are
       transport framing and are not judged.
*)
EXTENDS Naturals, Integers, Sequences, FiniteSets, TLC

CONSTANTS
  Methods,          \* name -> [ctx : BOOLEAN, params : Seq([name : {"a","b"}, opt : BOOLEAN, ty : DOMAIN TypeClass])]
  EntryAlphabet,    \* set of entries AddEntry may choose from
  TopKinds,         \* subset of {"garbage","garbagearr","single","batch"}
  MaxEntries,       \* longest batch
  PoolSize,         \* NewServer(poolMaxGoroutines)
  BatchDisabled,    \* DisableBatchRequests(true)
  FarChoices,       \* {FALSE} or BOOLEAN: may the input start with >= 128 bytes of whitespace
  FixNotif,
  FixNonRequest,
  FixLongWs,
  FixNullRequired,  \* FALSE = the code as it is (see above)
  HasValidator,     \* the server was built WithValidator(...) (the node: rpcv10.Validator())
  NilPointerSkipsValidation,  \* mechanism switch, TRUE = the code as it is (see above)
  CtxChoices,       \* subset of {"live", "expired", "cancelled"}: states the exchange's context may start in / move to
  GateChoices,      \* subset of BOOLEAN: the transport is the HTTP handler built WithGate(...)
  SilentOnCtx       \* mutant switch, {} = the code as it is (see above)

KnownMethods == DOMAIN Methods

----------------------------------------------------------------------------
(* Abstract syntax.  Everything is a string / record of strings so that TLC can compare values. *)

Tok    == {"p", "q", "bad", "nul"}   \* p,q: well-typed distinct values; bad: wrong JSON type for
                                      \* the slot (json.Unmarshal fails); nul: JSON null
TokT   == Tok \cup {"inv", "nin"}    \* inv: decodes, but violates a validate tag of the slot's type;
                                      \* nin: a well-typed container with a null element (nil pointer inside)
NoTok  == "-"

(* Go parameter type classes, as far as jsonrpc/server.go and encoding/json tell them apart:
     null    what json.Unmarshal makes of a JSON null: "zero" (no-op: the zero value), "nil" (pointer,
             slice, map) or "reject" (a value type whose own UnmarshalJSON / UnmarshalText refuses null)
     val     how validateParam reaches it: "self" (kind Struct), "ptr" (pointer to a struct, when not
             nil), "elems" (slice / array / map: every element, by the element's own kind), "none"
     tags    the type declares validate tags (its zero value and the "inv" values violate them)
     elemnil the elements are pointers: a null element is a nil pointer inside the container
   int, str: scalars; struct: value struct with required-tag fields; pstruct: pointer to it; pint:
   pointer to a scalar; slice: []struct; lsp: []*struct; mapp: map[string]*struct; custom: a value
   struct with its own UnmarshalJSON that refuses null (rpcv10.BlockID); pcustom: pointer to it
   (rpcv10: pointer to BlockID, pointer to SubscriptionBlockID); flags: a value struct whose UnmarshalJSON reads
   null as "no flags" (rpcv10.ResponseFlags). *)
TC(n, v, t, e) == [null |-> n, val |-> v, tags |-> t, elemnil |-> e]
TypeNames == {"int", "str", "struct", "pstruct", "pint", "slice", "lsp", "mapp", "custom", "pcustom", "flags"}
TypeClass == [t \in TypeNames |->
  CASE t \in {"int", "str"} -> TC("zero",   "none",  FALSE, FALSE)
    [] t = "struct"         -> TC("zero",   "self",  TRUE,  FALSE)
    [] t = "pstruct"        -> TC("nil",    "ptr",   TRUE,  FALSE)
    [] t = "pint"           -> TC("nil",    "none",  FALSE, FALSE)
    [] t = "slice"          -> TC("nil",    "elems", TRUE,  FALSE)
    [] t = "lsp"            -> TC("nil",    "elems", TRUE,  TRUE)
    [] t = "mapp"           -> TC("nil",    "elems", TRUE,  TRUE)
    [] t = "custom"         -> TC("reject", "self",  FALSE, FALSE)
    [] t = "pcustom"        -> TC("nil",    "ptr",   FALSE, FALSE)
    [] t = "flags"          -> TC("zero",   "self",  FALSE, FALSE)]

(* the tokens that exist for a slot of type ty *)
TokOf(ty) == {"p", "bad", "nul"} \cup (IF TypeClass[ty].tags THEN {"inv"} ELSE {})
                                 \cup (IF TypeClass[ty].elemnil THEN {"nin"} ELSE {})

(* the Go kind of the parameter is Pointer *)
IsPtr(ty) == ty \in {"pstruct", "pint", "pcustom"}

(* reflect.New(T).Elem(): what an omitted optional parameter gives the handler *)
ZeroOf(ty) == IF TypeClass[ty].null = "nil" THEN "nil" ELSE "zero"
PNames == {"a", "b", "x"}            \* "x" is a name no method declares

PAbsent == [k |-> "absent", pos |-> <<>>, a |-> NoTok, b |-> NoTok, x |-> NoTok]
PNull   == [k |-> "null",   pos |-> <<>>, a |-> NoTok, b |-> NoTok, x |-> NoTok]
PScalar == [k |-> "scalar", pos |-> <<>>, a |-> NoTok, b |-> NoTok, x |-> NoTok]
PPos(s) == [k |-> "pos",    pos |-> s,    a |-> NoTok, b |-> NoTok, x |-> NoTok]
PNamed(va, vb, vx) == [k |-> "named", pos |-> <<>>, a |-> va, b |-> vb, x |-> vx]

Named(p, n) == IF n = "a" THEN p.a ELSE IF n = "b" THEN p.b ELSE p.x

(* An entry is one JSON value where a Request object is expected.
   k    : "obj" | "scalar" (number/string/bool) | "null" | "arr" (only inside a batch)
   ver  : jsonrpc member: "absent" | "null" | "v2" ("2.0") | "v1" (any other string) | "num" (not a string)
   meth : "absent" | "null" | "empty" ("") | "nonstr" | "unknown" | a name in KnownMethods
   id   : "absent" | "null" | "int" (number literal without '.') | "str" | "float" | "obj" | "bool" | "arr" *)
Obj(v, m, p, i) == [k |-> "obj", ver |-> v, meth |-> m, params |-> p, id |-> i]
NonObj(kind)    == [k |-> kind,  ver |-> "absent", meth |-> "absent", params |-> PAbsent, id |-> "absent"]

----------------------------------------------------------------------------
(* (1) DECLARATIVE: what the property promises. *)

GoodId(e)       == e.id \in {"absent", "null", "int", "str"}
ValidRequest(e) == /\ e.k = "obj"
                   /\ e.ver = "v2"
                   /\ e.meth \in KnownMethods \cup {"unknown"}
                   /\ e.params.k # "scalar"
                   /\ GoodId(e)
HasId(e)          == e.k = "obj" /\ e.id \notin {"absent", "null"}
IsNotification(e) == ValidRequest(e) /\ ~HasId(e)

(* value supplied by the caller for slot i of method md, NoTok if none *)
Supplied(md, p, i) ==
  IF p.k = "pos" THEN (IF i <= Len(p.pos) THEN p.pos[i] ELSE NoTok)
  ELSE IF p.k = "named" THEN Named(p, md.params[i].name)
  ELSE NoTok

Superfluous(md, p) ==
  \/ p.k = "pos" /\ Len(p.pos) > Len(md.params)
  \/ p.k = "named" /\ \E n \in PNames \ {md.params[i].name : i \in DOMAIN md.params} : Named(p, n) # NoTok

(* Is the supplied value acceptable for a slot of type ty?  The constraints a type declares (its
   validate tags) bind only where a validator enforces them; a null means "not present" for a
   nullable type (the handler gets nil, as for an omitted parameter) and the zero value elsewhere -
   acceptable iff the zero value is, and the type's own decoder does not refuse it. *)
Nullable(ty)    == TypeClass[ty].null = "nil"
Constrained(ty) == HasValidator /\ TypeClass[ty].tags /\ TypeClass[ty].val # "none"
DeclAccepts(ty, t) ==
  CASE t = "bad" -> FALSE
    [] t = "nul" -> Nullable(ty) \/ (TypeClass[ty].null = "zero" /\ ~Constrained(ty))
    [] t = "inv" -> ~Constrained(ty)
    [] OTHER     -> TRUE
(* omitted and null reach the handler alike *)
DeclArg(ty, t) == IF t \in {NoTok, "nul"} THEN ZeroOf(ty) ELSE t

ParamsFitLoose(md, p) ==
  /\ p.k # "scalar"
  /\ ~Superfluous(md, p)
  /\ \A i \in DOMAIN md.params :
       /\ Supplied(md, p, i) # NoTok => DeclAccepts(md.params[i].ty, Supplied(md, p, i))
       /\ ~md.params[i].opt => Supplied(md, p, i) # NoTok
(* a required pointer parameter must be present: null is "not present" *)
NullForRequired(md, p) ==
  \E i \in DOMAIN md.params : ~md.params[i].opt /\ IsPtr(md.params[i].ty) /\ Supplied(md, p, i) = "nul"
ParamsFit(md, p) == ParamsFitLoose(md, p) /\ ~NullForRequired(md, p)

DeclArgs(md, p) == [i \in DOMAIN md.params |-> DeclArg(md.params[i].ty, Supplied(md, p, i))]

Class(e) ==
  IF ~ValidRequest(e) THEN "invalid"
  ELSE IF e.meth = "unknown" THEN "nomethod"
  ELSE IF ~ParamsFit(Methods[e.meth], e.params) THEN "badparams"
  ELSE "ok"

(* the handlers of the method table: first argument "q" makes the handler return an application
   error (code 44), anything else a result that echoes the arguments *)
AppErr(args) == Len(args) > 0 /\ args[1] = "q"

NoInv == [e |-> 0, m |-> "-", args |-> <<>>, ctx |-> FALSE]
Inv(i, e, args) == [e |-> i, m |-> e.meth, args |-> args, ctx |-> Methods[e.meth].ctx]

DeclInv(i, e) == IF Class(e) = "ok" THEN Inv(i, e, DeclArgs(Methods[e.meth], e.params)) ELSE NoInv

(* Responses.  kind: "result" | "error"; code 0 for results; id: "echo" | "null". e = entry index
   (0 = the whole input). *)
NoResp == [e |-> 0, kind |-> "none", code |-> 0, id |-> "null"]
Resp(i, kind, code, id) == [e |-> i, kind |-> kind, code |-> code, id |-> id]

CodeParse == 0 - 32700
CodeInvalid == 0 - 32600
CodeNoMethod == 0 - 32601
CodeParams == 0 - 32602
CodeApp == 44

(* Is r an acceptable answer to entry e (index i)?  silent = no response at all. *)
DeclSilent(e) == IsNotification(e)
DeclRespOK(i, e, r) ==
  /\ r.e = i
  /\ CASE Class(e) = "invalid"   -> r.kind = "error" /\ r.code = CodeInvalid /\ (r.id = "echo" => HasId(e))
       [] Class(e) = "nomethod"  -> r.kind = "error" /\ r.code = CodeNoMethod /\ r.id = "echo"
       [] Class(e) = "badparams" -> r.kind = "error" /\ r.code = CodeParams /\ r.id = "echo"
       [] OTHER -> /\ r.id = "echo"
                   /\ IF AppErr(DeclArgs(Methods[e.meth], e.params))
                        THEN r.kind = "error" /\ r.code = CodeApp
                        ELSE r.kind = "result" /\ r.code = 0

(* the canonical expected answer, exported for the replayer: idmode "either" for invalid requests *)
DeclExpected(i, e) ==
  IF DeclSilent(e) THEN [kind |-> "none", code |-> 0, id |-> "null"]
  ELSE CASE Class(e) = "invalid"   -> [kind |-> "error", code |-> CodeInvalid, id |-> IF HasId(e) THEN "either" ELSE "null"]
         [] Class(e) = "nomethod"  -> [kind |-> "error", code |-> CodeNoMethod, id |-> "echo"]
         [] Class(e) = "badparams" -> [kind |-> "error", code |-> CodeParams, id |-> "echo"]
         [] OTHER -> IF AppErr(DeclArgs(Methods[e.meth], e.params))
                       THEN [kind |-> "error", code |-> CodeApp, id |-> "echo"]
                       ELSE [kind |-> "result", code |-> 0, id |-> "echo"]

----------------------------------------------------------------------------
(* (2) OPERATIONAL: jsonrpc/server.go *)

(* json.Decoder.Decode(&Request{}): *json.UnmarshalTypeError *)
DecodeErr(e) == \/ e.k \in {"scalar", "arr"}
                \/ e.k = "obj" /\ (e.ver = "num" \/ e.meth = "nonstr")

(* Request.isSane: "none" | "other" | "badid" (ErrInvalidID: the response id stays null) *)
Sane(e) ==
  IF e.k = "null" THEN "other"                                \* zero Request: Version ""
  ELSE IF e.ver # "v2" THEN "other"
  ELSE IF e.meth \in {"absent", "null", "empty"} THEN "other"
  ELSE IF e.params.k = "scalar" THEN "other"
  ELSE IF e.id \in {"float", "obj", "bool", "arr"} THEN "badid"
  ELSE "none"

EchoId(e) == IF HasId(e) THEN "echo" ELSE "null"              \* resp.ID = req.ID

Required(md) == Cardinality({i \in DOMAIN md.params : ~md.params[i].opt})
Total(md)    == Len(md.params)

NilOrEmpty(p) == \/ p.k \in {"absent", "null"}
                 \/ p.k = "pos" /\ p.pos = <<>>
                 \/ p.k = "named" /\ p.a = NoTok /\ p.b = NoTok /\ p.x = NoTok

(* parseParam: json.Unmarshal(json.Marshal(param), reflect.New(T)) ... *)
Unmarshal(ty, t) ==
  IF t = "bad" THEN "err"
  ELSE IF t = "nul" THEN (IF TypeClass[ty].null = "reject" THEN "err" ELSE TypeClass[ty].null)
  ELSE t
(* ... then validateParam(elem), case by case as written: TRUE = no error *)
ValidateParam(ty, v) ==
  LET c == TypeClass[ty]
      tagfail == c.tags /\ v \in {"inv", "zero"}     \* validator.Struct finds a violated tag (the zero value violates `required`)
  IN
  CASE c.val = "self"  -> ~tagfail                                         \* validator.Struct(value)
    [] c.val = "ptr"   -> IF v = "nil" THEN NilPointerSkipsValidation      \* param.Elem().Kind() is Invalid: case skipped
                          ELSE ~tagfail                                    \* validator.Struct(pointer)
    [] c.val = "elems" -> IF v = "nil" THEN TRUE                           \* Len() = 0 / no keys
                          ELSE IF v = "nin" THEN NilPointerSkipsValidation \* the recursion meets a nil pointer
                          ELSE ~tagfail
    [] OTHER -> TRUE
ParseParam(ty, t) ==
  LET v == Unmarshal(ty, t) IN
  IF v = "err" THEN "err"
  ELSE IF HasValidator /\ ~ValidateParam(ty, v) THEN "err"
  ELSE v

BuildFail == [ok |-> FALSE, args |-> <<>>]
BuildOK(a) == [ok |-> TRUE, args |-> a]

(* Server.buildArguments, case by case as written *)
BuildArguments(md, p) ==
  IF NilOrEmpty(p) THEN
    IF Required(md) > 0 THEN BuildFail ELSE BuildOK([i \in 1..Total(md) |-> ZeroOf(md.params[i].ty)])
  ELSE IF p.k = "pos" THEN
    LET n == Len(p.pos) IN
    IF n < Required(md) \/ n > Total(md) THEN BuildFail
    ELSE IF FixNullRequired /\ NullForRequired(md, p) THEN BuildFail           \* (repaired) "missing non-optional param"
    ELSE IF \E i \in 1..n : ParseParam(md.params[i].ty, p.pos[i]) = "err" THEN BuildFail
    ELSE BuildOK([i \in 1..Total(md) |-> IF i <= n THEN ParseParam(md.params[i].ty, p.pos[i])
                                         ELSE ZeroOf(md.params[i].ty)])    \* reflect.New(T).Elem(), not validated
  ELSE \* named
    LET v(i) == Named(p, md.params[i].name)
        ty(i) == md.params[i].ty
        declared == {md.params[i].name : i \in DOMAIN md.params}
    IN
    IF FixNullRequired /\ NullForRequired(md, p) THEN BuildFail               \* (repaired) "missing non-optional param"
    ELSE IF \E i \in DOMAIN md.params : (v(i) # NoTok /\ ParseParam(ty(i), v(i)) = "err")
                                      \/ (v(i) = NoTok /\ ~md.params[i].opt) THEN BuildFail
    ELSE IF \E n \in PNames \ declared : Named(p, n) # NoTok THEN BuildFail   \* "unexpected params"
    ELSE BuildOK([i \in 1..Total(md) |-> IF v(i) = NoTok THEN ZeroOf(ty(i)) ELSE ParseParam(ty(i), v(i))])

(* Server.handleRequest + the caller's error mapping. Returns [resp, inv]. *)
HandleRequest(i, e) ==
  LET s == Sane(e) IN
  IF s = "other" THEN [resp |-> Resp(i, "error", CodeInvalid, EchoId(e)), inv |-> NoInv]
  ELSE IF s = "badid" THEN [resp |-> Resp(i, "error", CodeInvalid, "null"), inv |-> NoInv]
  ELSE IF e.meth \notin KnownMethods THEN
    [resp |-> IF FixNotif /\ ~HasId(e) THEN NoResp ELSE Resp(i, "error", CodeNoMethod, EchoId(e)), inv |-> NoInv]
  ELSE
    LET md == Methods[e.meth]
        b  == BuildArguments(md, e.params) IN
    IF ~b.ok THEN
      [resp |-> IF FixNotif /\ ~HasId(e) THEN NoResp ELSE Resp(i, "error", CodeParams, EchoId(e)), inv |-> NoInv]
    ELSE
      [resp |-> IF ~HasId(e) THEN NoResp                                      \* res.ID == nil after the call
                ELSE IF AppErr(b.args) THEN Resp(i, "error", CodeApp, "echo")
                ELSE Resp(i, "result", 0, "echo"),
       inv  |-> Inv(i, e, b.args)]

(* ... under a context in state c.  The code as it is never looks (SilentOnCtx = {}).  The mutant's early exit sits
   between the method lookup and buildArguments: an insane request and an unknown method are still answered. *)
CtxStates == {"live", "expired", "cancelled"}
HandleRequestCx(i, e, c) ==
  IF c \in SilentOnCtx /\ Sane(e) = "none" /\ e.meth \in KnownMethods
    THEN [resp |-> NoResp, inv |-> NoInv]
    ELSE HandleRequest(i, e)

VARIABLES
  top,       \* "none" while the input is being chosen, then a member of TopKinds
  far,       \* the input starts with >= bufferSize (128) bytes of JSON whitespace
  entries,   \* the entries of the input (one for "single")
  phase,     \* "build" | "dispatch" | "done"
  nxt,       \* batch dispatcher: index of the next raw entry
  running,   \* entries handed to the pool whose task has not returned
  called,    \* [entry -> response computed by handleRequest, not yet added]  (NoResp placeholder)
  stage,     \* [entry -> "idle" | "queued" | "called" | "finished"]
  out,       \* responses in the order they were appended
  shape,     \* "pending" | "nothing" | "object" | "array"
  log,       \* handler invocations in call order
  cx,        \* state of the exchange's context: "live" | "expired" (deadline exceeded) | "cancelled" (client gone)
  cx0,       \* ... when the exchange reached the server
  gated,     \* the transport is the HTTP handler with an admission gate
  seen       \* [e, cs]: the state of the context handed to the handler of entry e, in call order

vars == <<top, far, entries, phase, nxt, running, called, stage, out, shape, log, cx, cx0, gated, seen>>

Idx == 1..MaxEntries

Init ==
  /\ top = "none" /\ far = FALSE /\ entries = <<>> /\ phase = "build" /\ nxt = 1 /\ running = {}
  /\ called = [i \in Idx |-> NoResp] /\ stage = [i \in Idx |-> "idle"]
  /\ out = <<>> /\ shape = "pending" /\ log = <<>>
  /\ cx = "live" /\ cx0 = "live" /\ gated = FALSE /\ seen = <<>>

ctxvars == <<cx, cx0, gated, seen>>

ChooseTop(t, f) ==
  /\ phase = "build" /\ top = "none"
  /\ f => t \in {"batch", "garbagearr"}     \* elsewhere leading whitespace changes nothing in the model
  /\ top' = t /\ far' = f
  /\ \E c \in CtxChoices, g \in GateChoices : cx' = c /\ cx0' = c /\ gated' = g
  /\ seen' = seen
  /\ UNCHANGED <<entries, phase, nxt, running, called, stage, out, shape, log>>

AddEntry(e) ==
  /\ phase = "build" /\ top \in {"single", "batch"}
  /\ Len(entries) < (IF top = "single" THEN 1 ELSE MaxEntries)
  /\ top = "single" => e.k # "arr"          \* a top-level array IS a batch
  /\ entries' = Append(entries, e)
  /\ UNCHANGED <<top, far, phase, nxt, running, called, stage, out, shape, log, cx, cx0, gated, seen>>

TopError(code) == <<Resp(0, "error", code, "null")>>

(* isBatch(): the first non-space byte is '[' AND it lies within the 128-byte peek window *)
BatchDetected == top \in {"batch", "garbagearr"} /\ (FixLongWs \/ ~far)

(* http.go: Gate.Acquire(ctx) looks at ctx.Err() before anything else *)
RefusedByGate == gated /\ cx0 # "live"

(* HandleReader up to the point where the batch is handed to handleBatchRequest *)
Serve ==
  /\ phase = "build" /\ top # "none"
  /\ top = "single" => Len(entries) = 1
  /\ UNCHANGED <<top, far, entries, nxt, running, called, stage, cx, cx0, gated>>
  /\ seen' = IF ~RefusedByGate /\ top = "single" /\ ~DecodeErr(entries[1])
                 /\ HandleRequestCx(1, entries[1], cx).inv # NoInv
              THEN Append(seen, [e |-> 1, cs |-> cx]) ELSE seen
  /\ IF RefusedByGate THEN
       \* 503 + Retry-After when the deadline has passed; nothing at all for a client that is gone
       /\ out' = <<>> /\ shape' = (IF cx = "expired" THEN "refused" ELSE "dropped") /\ log' = log /\ phase' = "done"
     ELSE IF top = "garbage" \/ (top = "garbagearr" /\ ~BatchDetected) THEN
       /\ out' = TopError(CodeParse) /\ shape' = "object" /\ log' = log /\ phase' = "done"
     ELSE IF top = "garbagearr" THEN
       \* a disabled batch endpoint refuses before it parses
       /\ out' = TopError(IF BatchDisabled THEN CodeInvalid ELSE CodeParse)
       /\ shape' = "object" /\ log' = log /\ phase' = "done"
     ELSE IF top = "single" THEN
       LET e == entries[1] IN
       IF DecodeErr(e) THEN
         /\ out' = <<Resp(1, "error", IF FixNonRequest THEN CodeInvalid ELSE CodeParse, "null")>>
         /\ shape' = "object" /\ log' = log /\ phase' = "done"
       ELSE
         LET h == HandleRequestCx(1, e, cx) IN
         /\ out' = IF h.resp = NoResp THEN <<>> ELSE <<h.resp>>
         /\ shape' = IF h.resp = NoResp THEN "nothing" ELSE "object"
         /\ log' = IF h.inv = NoInv THEN log ELSE Append(log, h.inv)
         /\ phase' = "done"
     ELSE IF ~BatchDetected THEN
       \* a valid JSON array decoded into the Request struct: *json.UnmarshalTypeError
       /\ out' = TopError(IF FixNonRequest THEN CodeInvalid ELSE CodeParse)
       /\ shape' = "object" /\ log' = log /\ phase' = "done"
     ELSE \* "batch"
       IF BatchDisabled \/ entries = <<>> THEN
         /\ out' = TopError(CodeInvalid) /\ shape' = "object" /\ log' = log /\ phase' = "done"
       ELSE
         /\ phase' = "dispatch" /\ UNCHANGED <<out, shape, log>>

(* handleBatchRequest: the loop over the raw entries.  An undecodable entry is answered by the
   dispatcher itself; the others go to the pool (pool.Go blocks while all workers are busy). *)
Dispatch ==
  /\ phase = "dispatch" /\ nxt <= Len(entries)
  /\ LET e == entries[nxt] IN
     IF DecodeErr(e) THEN
       /\ out' = Append(out, Resp(nxt, "error", CodeInvalid, "null"))
       /\ UNCHANGED <<running, stage>>
     ELSE
       /\ Cardinality(running) < PoolSize
       /\ running' = running \cup {nxt}
       /\ stage' = [stage EXCEPT ![nxt] = "queued"]
       /\ out' = out
  /\ nxt' = nxt + 1
  /\ UNCHANGED <<top, far, entries, phase, called, shape, log, cx, cx0, gated, seen>>

(* a worker runs handleRequest for entry i (the handler call happens here) *)
Call(i) ==
  /\ phase = "dispatch" /\ i \in running /\ stage[i] = "queued"
  /\ LET h == HandleRequestCx(i, entries[i], cx) IN
     /\ called' = [called EXCEPT ![i] = h.resp]
     /\ log' = IF h.inv = NoInv THEN log ELSE Append(log, h.inv)
     /\ seen' = IF h.inv = NoInv THEN seen ELSE Append(seen, [e |-> i, cs |-> cx])
  /\ stage' = [stage EXCEPT ![i] = "called"]
  /\ UNCHANGED <<top, far, entries, phase, nxt, running, out, shape, cx, cx0, gated>>

(* ... and appends its response under the mutex, then the task returns *)
Add(i) ==
  /\ phase = "dispatch" /\ i \in running /\ stage[i] = "called"
  /\ out' = IF called[i] = NoResp THEN out ELSE Append(out, called[i])
  /\ running' = running \ {i}
  /\ stage' = [stage EXCEPT ![i] = "finished"]
  /\ UNCHANGED <<top, far, entries, phase, nxt, called, shape, log, cx, cx0, gated, seen>>

(* wg.Wait(); "if there are no response objects server must not return empty array" *)
Finish ==
  /\ phase = "dispatch" /\ nxt > Len(entries) /\ running = {}
  /\ shape' = IF out = <<>> THEN "nothing" ELSE "array"
  /\ phase' = "done"
  /\ UNCHANGED <<top, far, entries, nxt, running, called, stage, out, log, cx, cx0, gated, seen>>

(* the deadline passes / the client goes away while the batch is being dispatched: before the first entry has a
   worker, while an earlier entry occupies one, between two entries, after the last one *)
CtxEnd(s) ==
  /\ phase = "dispatch" /\ cx = "live" /\ s \in CtxChoices \ {"live"}
  /\ cx' = s
  /\ UNCHANGED <<top, far, entries, phase, nxt, running, called, stage, out, shape, log, cx0, gated, seen>>

CanAdd == /\ phase = "build" /\ top \in {"single", "batch"}
          /\ Len(entries) < (IF top = "single" THEN 1 ELSE MaxEntries)

Next ==
  \/ \E t \in TopKinds, f \in FarChoices : ChooseTop(t, f)
  \/ CanAdd /\ \E e \in EntryAlphabet : AddEntry(e)     \* guard first: the alphabet is large
  \/ Serve \/ Dispatch \/ Finish
  \/ \E i \in Idx : Call(i) \/ Add(i)
  \/ \E s \in CtxChoices : CtxEnd(s)

Spec == Init /\ [][Next]_vars

----------------------------------------------------------------------------
(* Properties.  They speak about the finished exchange (phase = "done"). *)

Done == phase = "done"
Range(s) == {s[i] : i \in DOMAIN s}
Count(s, P(_)) == Cardinality({i \in DOMAIN s : P(s[i])})

(* the input reached the per-entry stage (it was a request or a processed batch) *)
LongWsMiss == ~FixLongWs /\ far /\ top \in {"batch", "garbagearr"}     \* known deviation
Processed == /\ ~RefusedByGate
             /\ \/ top = "single"
                \/ top = "batch" /\ ~BatchDisabled /\ entries # <<>> /\ ~LongWsMiss

(* what the property allows for entry i in this context, with the two known deviations of the
   code as it is switched in (both switches TRUE: the pure property) *)
AnsweredNotif(e) == ~FixNotif /\ IsNotification(e) /\ Class(e) \in {"nomethod", "badparams"}
(* known deviation: the handler IS invoked (with a nil pointer) for a null given for a required pointer parameter *)
NullReqDev(e) == /\ ~FixNullRequired /\ Class(e) = "badparams"
                 /\ ParamsFitLoose(Methods[e.meth], e.params)
AsIsInv(i, e) == Inv(i, e, DeclArgs(Methods[e.meth], e.params))
ParseCodeForNonRequest(e) == ~FixNonRequest /\ top = "single" /\ DecodeErr(e)

Silent(e) == DeclSilent(e) /\ ~AnsweredNotif(e)
RespOK(i, e, r) ==
  IF AnsweredNotif(e) THEN
    r = Resp(i, "error", IF Class(e) = "nomethod" THEN CodeNoMethod ELSE CodeParams, "null")
  ELSE IF ParseCodeForNonRequest(e) THEN r = Resp(i, "error", CodeParse, "null")
  ELSE IF NullReqDev(e) THEN
    r = IF AppErr(DeclArgs(Methods[e.meth], e.params)) THEN Resp(i, "error", CodeApp, "echo") ELSE Resp(i, "result", 0, "echo")
  ELSE DeclRespOK(i, e, r)

TypeOK ==
  /\ top \in TopKinds \cup {"none"} /\ far \in BOOLEAN
  /\ phase \in {"build", "dispatch", "done"}
  /\ shape \in {"pending", "nothing", "object", "array", "refused", "dropped"}
  /\ cx \in CtxStates /\ cx0 \in CtxStates /\ gated \in BOOLEAN
  /\ running \subseteq Idx
  /\ Cardinality(running) <= PoolSize
  /\ Len(entries) <= MaxEntries

(* output is Nothing iff every entry is a notification; an array iff a (non-empty, accepted) batch
   has at least one answer; a single object otherwise *)
PShape ==
  Done =>
    /\ shape = "nothing" <=> (Processed /\ \A i \in DOMAIN entries : Silent(entries[i]))
    /\ shape = "array" <=> (top = "batch" /\ Processed /\ \E i \in DOMAIN entries : ~Silent(entries[i]))
    /\ shape # "pending"
    /\ shape \in {"nothing", "refused", "dropped"} <=> out = <<>>
    /\ shape = "object" => Len(out) = 1

(* exactly one response per non-notification entry, none for a notification, nothing else *)
POnePerEntry ==
  (Done /\ Processed) =>
    /\ \A i \in DOMAIN entries :
         Count(out, LAMBDA r : r.e = i) = (IF Silent(entries[i]) THEN 0 ELSE 1)
    /\ \A r \in Range(out) : r.e \in DOMAIN entries

(* each response carries the right id, exactly one of result/error, and the standard code *)
PResponses ==
  (Done /\ Processed) => \A r \in Range(out) : r.e \in DOMAIN entries => RespOK(r.e, entries[r.e], r)

(* inputs that never reach an entry: one error object with id null.  PureTopCode is what the
   property promises, independent of the switches. *)
PureProcessed == top = "single" \/ (top = "batch" /\ ~BatchDisabled /\ entries # <<>>)
PureTopCode == CASE top = "garbage" -> CodeParse
                 [] top = "garbagearr" -> (IF BatchDisabled THEN CodeInvalid ELSE CodeParse)
                 [] top = "batch" /\ ~PureProcessed -> CodeInvalid
                 [] OTHER -> 0
PTopLevel ==
  /\ (Done /\ ~Processed /\ ~RefusedByGate) =>
       /\ shape = "object" /\ log = <<>>
       /\ out = TopError(IF ~LongWsMiss THEN PureTopCode
                         ELSE IF top = "garbagearr" \/ ~FixNonRequest THEN CodeParse ELSE CodeInvalid)
  /\ (FixLongWs /\ Done /\ ~RefusedByGate) => (Processed <=> PureProcessed)

(* each valid request invokes its handler exactly once with the supplied arguments; nothing else
   is invoked *)
PInvocations ==
  Done =>
    /\ \A i \in DOMAIN entries :
         Count(log, LAMBDA v : v.e = i) =
           (IF Processed /\ (Class(entries[i]) = "ok" \/ NullReqDev(entries[i])) THEN 1 ELSE 0)
    /\ \A v \in Range(log) : /\ v.e \in DOMAIN entries
                              /\ v = IF NullReqDev(entries[v.e]) THEN AsIsInv(v.e, entries[v.e]) ELSE DeclInv(v.e, entries[v.e])

(* THE CONTEXT.  POnePerEntry, PResponses and PInvocations above do not mention it: they hold for every state the
   context starts in or moves to (CtxChoices) - "one response per owed entry, also after the deadline".  What the
   context does decide:
   admission - only the gate of the HTTP transport refuses, only a context that had ended when the exchange arrived,
   with a 503 for an expired deadline and with nothing for a client that is gone; nothing is dispatched then *)
PRefusal ==
  Done => /\ (shape \in {"refused", "dropped"} <=> RefusedByGate)
          /\ (shape = "refused" => cx0 = "expired" /\ out = <<>> /\ log = <<>>)
          /\ (shape = "dropped" => cx0 = "cancelled" /\ out = <<>> /\ log = <<>>)
(* the pure reading of "each valid request invokes its handler exactly once", for a server that may give up on a
   request whose time is over: the handler ran once, or it did not run and the caller is TOLD so by an error
   response carrying the request's id.  Never both, never neither; a notification cannot be told, it runs. *)
PHandlerOnceOrError ==
  (Done /\ Processed) =>
    \A i \in DOMAIN entries :
      (Class(entries[i]) = "ok" \/ NullReqDev(entries[i])) =>
        \/ Count(log, LAMBDA v : v.e = i) = 1
        \/ /\ Count(log, LAMBDA v : v.e = i) = 0 /\ HasId(entries[i])
           /\ \E r \in Range(out) : r.e = i /\ r.kind = "error" /\ r.id = "echo"
(* the handler is handed the exchange's context: what it saw is a state the context was in, an ended context stays
   ended (a handler that saw the deadline passed was called after it passed) *)
PCtxSeen ==
  /\ Len(seen) = Len(log)
  /\ \A k \in DOMAIN seen : /\ seen[k].e = log[k].e
                             /\ seen[k].cs \in {cx0, cx}
                             /\ (cx0 # "live" => seen[k].cs = cx0)
                             /\ (seen[k].cs # "live" => seen[k].cs = cx)
  /\ (cx0 # "live" => cx = cx0)

(* while a batch is in flight nothing is lost or duplicated either *)
PInFlight ==
  phase = "dispatch" =>
    /\ \A i \in DOMAIN entries : Count(out, LAMBDA r : r.e = i) <= 1
    /\ \A i \in DOMAIN entries : Count(log, LAMBDA v : v.e = i) <= 1
    /\ \A i \in running : stage[i] \in {"queued", "called"}

(* positional == named: the same values given by position or by name reach the same slots (or are
   rejected alike).  A statement about the constant operators; evaluated once per TLC run. *)
NamedTwin(md, s) ==
  LET at(n) == LET I == {i \in DOMAIN md.params : md.params[i].name = n /\ i <= Len(s)} IN
               IF I = {} THEN NoTok ELSE s[CHOOSE i \in I : TRUE]
  IN PNamed(at("a"), at("b"), NoTok)

PosSeqs == {<<>>} \cup {<<t1>> : t1 \in TokT} \cup {<<t1, t2>> : t1, t2 \in TokT}

PositionalEqNamed ==
  \A m \in KnownMethods :
    LET md == Methods[m] IN
    \A s \in {t \in PosSeqs : Len(t) <= Len(md.params)} :
      /\ BuildArguments(md, PPos(s)) = BuildArguments(md, NamedTwin(md, s))
      /\ ParamsFit(md, PPos(s)) <=> ParamsFit(md, NamedTwin(md, s))
      /\ ParamsFit(md, PPos(s)) => DeclArgs(md, PPos(s)) = DeclArgs(md, NamedTwin(md, s))

(* the operational argument builder agrees with the declarative reading on every params value *)
BuildAgreesWithDecl(P) ==
  \A m \in KnownMethods : \A p \in P :
    LET md == Methods[m] IN
    LET fit == IF FixNullRequired THEN ParamsFit(md, p) ELSE ParamsFitLoose(md, p) IN
    p.k # "scalar" =>
      /\ BuildArguments(md, p).ok <=> fit
      /\ fit => BuildArguments(md, p).args = DeclArgs(md, p)

view == <<top, far, entries, phase, nxt, running, called, stage, out, shape, log, cx, cx0, gated, seen>>
=============================================================================

\* REPAIRED model; batches of <= 3 entries over 18 class representatives, pool of 2 workers
\* measured: 177 528 distinct / 247 653 generated states, depth 16
CONSTANTS
  Methods <- MCMethods
  EntryAlphabet <- EntriesSmall
  TopKinds = {"batch"}
  MaxEntries = 3
  PoolSize = 2
  BatchDisabled = FALSE
  FixNotif = TRUE
  FixNonRequest = TRUE
  FixLongWs = TRUE
  FarChoices = {FALSE}
  FixNullRequired = TRUE
  HasValidator = TRUE
  NilPointerSkipsValidation = TRUE
  CtxChoices = {"live"}
  GateChoices = {FALSE}
  SilentOnCtx = {}
INIT Init
NEXT Next
VIEW view
INVARIANTS TypeOK PShape POnePerEntry PResponses PTopLevel PInvocations PInFlight
CHECK_DEADLOCK FALSE

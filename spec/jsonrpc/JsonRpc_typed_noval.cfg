\* the code as it is, a server WITHOUT a validator (jsonrpc.NewServer alone): the same typed alphabet; validate tags bind nobody.
\* measured: 18 532 distinct states, 4 633 rows (4-5 s)
CONSTANTS
  Methods <- MCMethods
  EntryAlphabet <- EntriesTyped
  TopKinds = {"single", "batch"}
  MaxEntries = 1
  PoolSize = 1
  BatchDisabled = FALSE
  FixNotif = TRUE
  FixNonRequest = FALSE
  FixLongWs = TRUE
  FarChoices = {FALSE}
  FixNullRequired = FALSE
  HasValidator = FALSE
  NilPointerSkipsValidation = TRUE
  CtxChoices = {"live"}
  GateChoices = {FALSE}
  SilentOnCtx = {}
INIT TableInit
NEXT TableNext

INVARIANTS TypeOK PShape POnePerEntry PResponses PTopLevel PInvocations PInFlight
CHECK_DEADLOCK FALSE

\* the code as it is, a server WITHOUT a validator (jsonrpc.NewServer alone): the same typed alphabet; validate tags bind nobody.
CONSTANTS
  Methods <- MCMethods
  EntryAlphabet <- EntriesTyped
  TopKinds = {"single", "batch"}
  MaxEntries = 1
  PoolSize = 1
  BatchDisabled = FALSE
  FixNotif = TRUE
  FixNonRequest = FALSE
  FixLongWs = TRUE
  FarChoices = {FALSE}
  HasValidator = FALSE
  NilPointerSkipsValidation = TRUE
INIT TableInit
NEXT TableNext

INVARIANTS TypeOK PShape POnePerEntry PResponses PTopLevel PInvocations PInFlight
CHECK_DEADLOCK FALSE

\* behaviour generation (tlc -simulate): random batches of <= 6 entries, 3 workers; the code as it is
CONSTANTS
  Methods <- MCMethods
  EntryAlphabet <- EntriesSmall
  TopKinds = {"batch"}
  MaxEntries = 6
  PoolSize = 3
  BatchDisabled = FALSE
  FixNotif = TRUE
  FixNonRequest = FALSE
  FixLongWs = TRUE
  FarChoices = {FALSE}
  FixNullRequired = FALSE
  HasValidator = TRUE
  NilPointerSkipsValidation = TRUE
  CtxChoices = {"live"}
  GateChoices = {FALSE}
  SilentOnCtx = {}
INIT MBTInit
NEXT MBTNext
INVARIANTS TypeOK PShape POnePerEntry PResponses PTopLevel PInvocations PInFlight
CHECK_DEADLOCK FALSE

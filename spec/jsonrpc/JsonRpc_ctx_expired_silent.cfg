\* EXPECTED VIOLATION: the mutant "a request whose deadline has passed is treated like a notification" (handleRequest returns
\* no response, the handler is not called): an entry WITH an id dispatched after the deadline gets no response - POnePerEntry fails.
CONSTANTS
  Methods <- MCMethods
  EntryAlphabet <- EntriesCtx
  TopKinds = {"single", "batch"}
  MaxEntries = 2
  PoolSize = 1
  BatchDisabled = FALSE
  FixNotif = TRUE
  FixNonRequest = FALSE
  FixLongWs = TRUE
  FarChoices = {FALSE}
  FixNullRequired = FALSE
  HasValidator = TRUE
  NilPointerSkipsValidation = TRUE
  CtxChoices = {"live", "expired", "cancelled"}
  GateChoices = {FALSE}
  SilentOnCtx = {"expired"}
INIT Init
NEXT Next
VIEW view
INVARIANTS POnePerEntry
CHECK_DEADLOCK FALSE

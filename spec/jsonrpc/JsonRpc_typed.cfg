\* the code as it is, a server WITH a validator (production): every params value of the typed methods
\* (parameter type classes struct / *struct / *scalar / []struct / []*struct / map[string]*struct / custom
\* UnmarshalJSON value, pointer, flags) over {omitted, null, good, wrong kind, tag-violating, null element},
\* positional and named, request and notification, single and batch of one; rows exported.
CONSTANTS
  Methods <- MCMethods
  EntryAlphabet <- EntriesTyped
  TopKinds = {"single", "batch"}
  MaxEntries = 1
  PoolSize = 1
  BatchDisabled = FALSE
  FixNotif = TRUE
  FixNonRequest = FALSE
  FixLongWs = TRUE
  FarChoices = {FALSE}
  HasValidator = TRUE
  NilPointerSkipsValidation = TRUE
INIT TableInit
NEXT TableNext

INVARIANTS TypeOK PShape POnePerEntry PResponses PTopLevel PInvocations PInFlight
CHECK_DEADLOCK FALSE

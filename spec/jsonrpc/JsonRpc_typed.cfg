\* the code as it is, a server WITH a validator (production): every params value of the typed methods
\* (parameter type classes struct / *struct / *scalar / []struct / []*struct / map[string]*struct / custom
\* UnmarshalJSON value, pointer, flags) over {omitted, null, good, wrong kind, tag-violating, null element},
\* positional and named, request and notification, single and batch of one; rows exported.
\* measured: 18 532 distinct = generated states, depth 8, 4 633 rows (4-5 s on 4 workers)
\* (FixNullRequired is set by checks/C11.py from the status of its finding in known_findings.json)
CONSTANTS
  Methods <- MCMethods
  EntryAlphabet <- EntriesTyped
  TopKinds = {"single", "batch"}
  MaxEntries = 1
  PoolSize = 1
  BatchDisabled = FALSE
  FixNotif = TRUE
  FixNonRequest = FALSE
  FixLongWs = TRUE
  FarChoices = {FALSE}
  FixNullRequired = FALSE
  HasValidator = TRUE
  NilPointerSkipsValidation = TRUE
  CtxChoices = {"live"}
  GateChoices = {FALSE}
  SilentOnCtx = {}
INIT TableInit
NEXT TableNext

INVARIANTS TypeOK PShape POnePerEntry PResponses PTopLevel PInvocations PInFlight
CHECK_DEADLOCK FALSE

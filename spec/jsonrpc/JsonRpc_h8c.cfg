\* PRE-FIX model (FixLongWs = FALSE) against the PURE property: a batch after >= 128 bytes of whitespace is not processed (expected violation)
CONSTANTS
  Methods <- MCMethods
  EntryAlphabet <- EntriesSmall
  TopKinds = {"single", "batch"}
  MaxEntries = 2
  PoolSize = 2
  BatchDisabled = FALSE
  FixNotif = TRUE
  FixNonRequest = TRUE
  FixLongWs = FALSE
  FarChoices = {TRUE, FALSE}
  FixNullRequired = FALSE
  HasValidator = TRUE
  NilPointerSkipsValidation = TRUE
  CtxChoices = {"live"}
  GateChoices = {FALSE}
  SilentOnCtx = {}
INIT Init
NEXT Next
VIEW view
INVARIANTS PureBatchIsProcessed
CHECK_DEADLOCK FALSE

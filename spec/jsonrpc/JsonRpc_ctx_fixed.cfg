\* REPAIRED model, the context dimension: all top-level kinds, <= 2 of the 18 class representatives, 1 worker, gate and no gate
CONSTANTS
  Methods <- MCMethods
  EntryAlphabet <- EntriesSmall
  TopKinds <- AllTops
  MaxEntries = 2
  PoolSize = 1
  BatchDisabled = FALSE
  FixNotif = TRUE
  FixNonRequest = TRUE
  FixLongWs = TRUE
  FarChoices = {FALSE}
  FixNullRequired = TRUE
  HasValidator = TRUE
  NilPointerSkipsValidation = TRUE
  CtxChoices = {"live", "expired", "cancelled"}
  GateChoices = {TRUE, FALSE}
  SilentOnCtx = {}
INIT Init
NEXT Next
VIEW view
INVARIANTS TypeOK PShape POnePerEntry PResponses PTopLevel PInvocations PInFlight PRefusal PHandlerOnceOrError PCtxSeen
CHECK_DEADLOCK FALSE

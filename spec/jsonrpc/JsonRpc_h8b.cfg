\* the code as it is (FixNonRequest = FALSE, known finding) against the PURE property (expected violation)
CONSTANTS
  Methods <- MCMethods
  EntryAlphabet <- EntriesSmall
  TopKinds = {"single", "batch"}
  MaxEntries = 2
  PoolSize = 2
  BatchDisabled = FALSE
  FixNotif = TRUE
  FixNonRequest = FALSE
  FixLongWs = TRUE
  FarChoices = {FALSE}
  FixNullRequired = FALSE
  HasValidator = TRUE
  NilPointerSkipsValidation = TRUE
  CtxChoices = {"live"}
  GateChoices = {FALSE}
  SilentOnCtx = {}
INIT Init
NEXT Next
VIEW view
INVARIANTS PureStdCodes
CHECK_DEADLOCK FALSE

\* the code as it is against the PURE property: TLC must find H8 (expected violation)
CONSTANTS
  Methods <- MCMethods
  EntryAlphabet <- EntriesSmall
  TopKinds = {"single", "batch"}
  MaxEntries = 2
  PoolSize = 2
  BatchDisabled = FALSE
  FixNotif = TRUE
  FixNonRequest = FALSE
  FixLongWs = FALSE
  FarChoices = {FALSE}
INIT Init
NEXT Next
VIEW view
INVARIANTS PureStdCodes
CHECK_DEADLOCK FALSE

----------------------------- MODULE MCJsonRpc -----------------------------
(* Constants a .cfg cannot express: the method table and the entry alphabets. *)
EXTENDS JsonRpc

(* the method table the replayer registers on the real server.
   untyped (param a : int, param b : string):  m0()  m2(a, b)  m1o(a, b?)  mctx(ctx, a?, b?)
   typed (the shapes of rpc/v10 signatures; the Go types are in harness/engines/jsonrpc):
     ts(a struct, b? *struct)                      estimateMessageFee(msg, ..) / getEvents(args)
     tp(ctx, a? *SubscriptionBlockID, b? *int)     subscribeNewHeads(ctx, blockID *SubscriptionBlockID)
     tl(a []struct, b? map[string]*struct)         simulateTransactions(.., transactions, ..)
     tc(a *BlockID, b? ResponseFlags)              getBlockWithTxs(blockID *BlockID, responseFlags ResponseFlags)
     tq(ctx, a? []*struct, b? BlockID)
     te(a *EventArgs, b? *struct)                  getEvents(args *EventArgs)
     tr(a ResourceBoundsMap, b? *ResourceBounds)   the tags of the production validator (required struct, felt_max_bits) *)
P(n, o, t) == [name |-> n, opt |-> o, ty |-> t]
TMethods == {"ts", "tp", "tl", "tc", "tq", "te", "tr"}
MCMethods ==
  [m \in {"m0", "m2", "m1o", "mctx"} \cup TMethods |->
     CASE m = "m0"   -> [ctx |-> FALSE, params |-> <<>>]
       [] m = "m2"   -> [ctx |-> FALSE, params |-> <<P("a", FALSE, "int"), P("b", FALSE, "str")>>]
       [] m = "m1o"  -> [ctx |-> FALSE, params |-> <<P("a", FALSE, "int"), P("b", TRUE, "str")>>]
       [] m = "mctx" -> [ctx |-> TRUE,  params |-> <<P("a", TRUE, "int"),  P("b", TRUE, "str")>>]
       [] m = "ts"   -> [ctx |-> FALSE, params |-> <<P("a", FALSE, "struct"),  P("b", TRUE, "pstruct")>>]
       [] m = "tp"   -> [ctx |-> TRUE,  params |-> <<P("a", TRUE,  "pcustom"), P("b", TRUE, "pint")>>]
       [] m = "tl"   -> [ctx |-> FALSE, params |-> <<P("a", FALSE, "slice"),   P("b", TRUE, "mapp")>>]
       [] m = "tc"   -> [ctx |-> FALSE, params |-> <<P("a", FALSE, "pcustom"), P("b", TRUE, "flags")>>]
       [] m = "tq"   -> [ctx |-> TRUE,  params |-> <<P("a", TRUE,  "lsp"),     P("b", TRUE, "custom")>>]
       [] m = "te"   -> [ctx |-> FALSE, params |-> <<P("a", FALSE, "pstruct"), P("b", TRUE, "pstruct")>>]
       [] m = "tr"   -> [ctx |-> FALSE, params |-> <<P("a", FALSE, "struct"),  P("b", TRUE, "pstruct")>>]]

(* the typed alphabet: every params value of a typed method over the tokens its slot types have
   (positional: 0, 1, 2 values and 2 with a superfluous third; named: every combination, with and
   without an undeclared name), as a request (int / string id) and as a notification (no id / null id) *)
ParamsTyped(m) ==
  LET Ta == TokOf(MCMethods[m].params[1].ty)
      Tb == TokOf(MCMethods[m].params[2].ty) IN
  {PAbsent, PNull, PScalar, PPos(<<>>)}
    \cup {PPos(<<t>>) : t \in Ta} \cup {PPos(<<t1, t2>>) : t1 \in Ta, t2 \in Tb}
    \cup {PPos(<<t1, t2, "p">>) : t1 \in Ta, t2 \in Tb}
    \cup {PNamed(va, vb, vx) : va \in Ta \cup {NoTok}, vb \in Tb \cup {NoTok}, vx \in {NoTok, "p"}}
ParamsTypedAll == UNION {ParamsTyped(m) : m \in TMethods}
EntriesTyped == UNION {{Obj("v2", m, p, i) : p \in ParamsTyped(m), i \in {"int", "str", "absent", "null"}} : m \in TMethods}

VersFull  == {"absent", "null", "v2", "v1", "num"}
MethsFull == {"absent", "null", "empty", "nonstr", "unknown", "m0", "m2", "m1o", "mctx"}
IdsFull   == {"absent", "null", "int", "str", "float", "obj", "bool", "arr"}
TokN      == Tok \cup {NoTok}
PosFull   == {<<>>} \cup {<<t1>> : t1 \in Tok} \cup {<<t1, t2>> : t1, t2 \in Tok}
               \cup {<<t1, t2, t3>> : t1, t2, t3 \in Tok}
ParamsFull == {PAbsent, PNull, PScalar} \cup {PPos(s) : s \in PosFull}
                \cup {PNamed(va, vb, vx) : va \in TokN, vb \in TokN, vx \in TokN}

NonObjs == {NonObj("scalar"), NonObj("null"), NonObj("arr")}

(* representatives of every class for the batch interleavings *)
EntriesSmall == NonObjs \cup {
  Obj("v2", "m2",  PPos(<<"p", "p">>), "int"),                 \* ok, result
  Obj("v2", "m1o", PNamed("q", NoTok, NoTok), "str"),          \* ok, application error, optional tail
  Obj("v2", "mctx", PAbsent, "int"),                           \* ok, all zero, context
  Obj("v2", "m0",  PAbsent, "absent"),                         \* notification, invoked
  Obj("v2", "m2",  PNamed("p", "q", NoTok), "null"),           \* notification ("id":null), invoked
  Obj("v2", "unknown", PAbsent, "absent"),                     \* notification, unknown method (H8)
  Obj("v2", "m2",  PPos(<<"p">>), "absent"),                   \* notification, bad params (H8)
  Obj("v2", "unknown", PNull, "int"),                          \* -32601
  Obj("v2", "m2",  PNamed("p", "p", "p"), "str"),              \* -32602 unexpected name
  Obj("v2", "m1o", PPos(<<"bad">>), "int"),                    \* -32602 wrong type
  Obj("v1", "m0",  PAbsent, "int"),                            \* -32600, id echoed
  Obj("v2", "m0",  PAbsent, "float"),                          \* -32600, id null
  Obj("v2", "m0",  PScalar, "absent"),                         \* -32600 without id
  Obj("v2", "nonstr", PAbsent, "int"),                         \* undecodable member
  Obj("num", "m0", PAbsent, "absent")
}

EntriesTiny == {NonObj("scalar"), NonObj("null"),
  Obj("v2", "m2",  PPos(<<"p", "p">>), "int"),
  Obj("v2", "m1o", PNamed("q", NoTok, NoTok), "str"),
  Obj("v2", "m0",  PAbsent, "absent"),
  Obj("v2", "unknown", PAbsent, "absent"),
  Obj("v2", "m2",  PPos(<<"p">>), "absent"),
  Obj("v2", "unknown", PNull, "int"),
  Obj("v1", "m0",  PAbsent, "int"),
  Obj("v2", "m0",  PAbsent, "float")}

(* the context dimension: representatives of every class; every entry carries a value for slot a (the replayer tells the entries apart - and finds their gates - by it) *)
EntriesCtx == {
  Obj("v2", "m2",   PPos(<<"p", "p">>), "int"),                 \* result
  Obj("v2", "m2",   PNamed("q", "p", NoTok), "str"),            \* application error
  Obj("v2", "mctx", PPos(<<"p">>), "int"),                      \* takes the context: reports what it saw
  Obj("v2", "mctx", PNamed("p", "q", NoTok), "str"),
  Obj("v2", "m1o",  PPos(<<"p">>), "absent"),                   \* notification, invoked
  Obj("v2", "mctx", PPos(<<"p", "p">>), "null"),                \* notification ("id": null) taking the context
  Obj("v2", "unknown", PNull, "int"),                           \* -32601: no handler, answered by the worker
  Obj("v2", "m2",   PPos(<<"p">>), "str"),                      \* -32602
  Obj("v1", "m2",   PPos(<<"p", "p">>), "int"),                 \* -32600
  NonObj("scalar")}                                             \* answered by the dispatcher itself

AllTops == {"garbage", "garbagearr", "single", "batch"}

ASSUME PositionalEqNamed
\* (with the mechanism switched off the builder does NOT agree: JsonRpc_typed_nilptr.cfg shows it as an invariant violation)
ASSUME NilPointerSkipsValidation => BuildAgreesWithDecl(ParamsFull \cup ParamsTypedAll)

(* the pure property (no switches) - used with the faithful switches to show that TLC finds H8 *)
PureBatchIsProcessed == Done => (Processed <=> PureProcessed)
PureNotifSilent ==
  (Done /\ Processed) => (shape = "nothing" <=> \A i \in DOMAIN entries : IsNotification(entries[i]))
(* each valid request - and only a valid request - invokes its handler, with the declared arguments *)
PureInvocations ==
  Done => /\ \A i \in DOMAIN entries :
               Count(log, LAMBDA v : v.e = i) = (IF Processed /\ Class(entries[i]) = "ok" THEN 1 ELSE 0)
          /\ \A v \in Range(log) : v.e \in DOMAIN entries /\ v = DeclInv(v.e, entries[v.e])
PureStdCodes ==
  (Done /\ Processed) => \A r \in Range(out) : r.e \in DOMAIN entries /\ ~IsNotification(entries[r.e])
                                                  => DeclRespOK(r.e, entries[r.e], r)
=============================================================================

----------------------------- MODULE MCJsonRpc -----------------------------
(* Constants a .cfg cannot express: the method table and the entry alphabets. *)
EXTENDS JsonRpc

(* the method table the replayer registers on the real server (param a : int, param b : string):
   m0()  m2(a, b)  m1o(a, b?)  mctx(ctx, a?, b?) *)
MCMethods ==
  [m \in {"m0", "m2", "m1o", "mctx"} |->
     CASE m = "m0"   -> [ctx |-> FALSE, params |-> <<>>]
       [] m = "m2"   -> [ctx |-> FALSE, params |-> <<[name |-> "a", opt |-> FALSE], [name |-> "b", opt |-> FALSE]>>]
       [] m = "m1o"  -> [ctx |-> FALSE, params |-> <<[name |-> "a", opt |-> FALSE], [name |-> "b", opt |-> TRUE]>>]
       [] m = "mctx" -> [ctx |-> TRUE,  params |-> <<[name |-> "a", opt |-> TRUE],  [name |-> "b", opt |-> TRUE]>>]]

VersFull  == {"absent", "null", "v2", "v1", "num"}
MethsFull == {"absent", "null", "empty", "nonstr", "unknown", "m0", "m2", "m1o", "mctx"}
IdsFull   == {"absent", "null", "int", "str", "float", "obj", "bool", "arr"}
TokN      == Tok \cup {NoTok}
PosFull   == {<<>>} \cup {<<t1>> : t1 \in Tok} \cup {<<t1, t2>> : t1, t2 \in Tok}
               \cup {<<t1, t2, t3>> : t1, t2, t3 \in Tok}
ParamsFull == {PAbsent, PNull, PScalar} \cup {PPos(s) : s \in PosFull}
                \cup {PNamed(va, vb, vx) : va \in TokN, vb \in TokN, vx \in TokN}

NonObjs == {NonObj("scalar"), NonObj("null"), NonObj("arr")}

(* representatives of every class for the batch interleavings *)
EntriesSmall == NonObjs \cup {
  Obj("v2", "m2",  PPos(<<"p", "p">>), "int"),                 \* ok, result
  Obj("v2", "m1o", PNamed("q", NoTok, NoTok), "str"),          \* ok, application error, optional tail
  Obj("v2", "mctx", PAbsent, "int"),                           \* ok, all zero, context
  Obj("v2", "m0",  PAbsent, "absent"),                         \* notification, invoked
  Obj("v2", "m2",  PNamed("p", "q", NoTok), "null"),           \* notification ("id":null), invoked
  Obj("v2", "unknown", PAbsent, "absent"),                     \* notification, unknown method (H8)
  Obj("v2", "m2",  PPos(<<"p">>), "absent"),                   \* notification, bad params (H8)
  Obj("v2", "unknown", PNull, "int"),                          \* -32601
  Obj("v2", "m2",  PNamed("p", "p", "p"), "str"),              \* -32602 unexpected name
  Obj("v2", "m1o", PPos(<<"bad">>), "int"),                    \* -32602 wrong type
  Obj("v1", "m0",  PAbsent, "int"),                            \* -32600, id echoed
  Obj("v2", "m0",  PAbsent, "float"),                          \* -32600, id null
  Obj("v2", "m0",  PScalar, "absent"),                         \* -32600 without id
  Obj("v2", "nonstr", PAbsent, "int"),                         \* undecodable member
  Obj("num", "m0", PAbsent, "absent")
}

EntriesTiny == {NonObj("scalar"), NonObj("null"),
  Obj("v2", "m2",  PPos(<<"p", "p">>), "int"),
  Obj("v2", "m1o", PNamed("q", NoTok, NoTok), "str"),
  Obj("v2", "m0",  PAbsent, "absent"),
  Obj("v2", "unknown", PAbsent, "absent"),
  Obj("v2", "m2",  PPos(<<"p">>), "absent"),
  Obj("v2", "unknown", PNull, "int"),
  Obj("v1", "m0",  PAbsent, "int"),
  Obj("v2", "m0",  PAbsent, "float")}

AllTops == {"garbage", "garbagearr", "single", "batch"}

ASSUME PositionalEqNamed
ASSUME BuildAgreesWithDecl(ParamsFull)

(* the pure property (no switches) - used with the faithful switches to show that TLC finds H8 *)
PureBatchIsProcessed == Done => (Processed <=> PureProcessed)
PureNotifSilent ==
  (Done /\ Processed) => (shape = "nothing" <=> \A i \in DOMAIN entries : IsNotification(entries[i]))
PureStdCodes ==
  (Done /\ Processed) => \A r \in Range(out) : r.e \in DOMAIN entries /\ ~IsNotification(entries[r.e])
                                                  => DeclRespOK(r.e, entries[r.e], r)
=============================================================================

\* every single request and every batch of one entry over the full member alphabet; the code as it is
\* measured: see checks/C11.py evidence (about 0.6 M distinct states)
CONSTANTS
  Methods <- MCMethods
  EntryAlphabet <- EntriesSmall
  TopKinds <- AllTops
  MaxEntries = 2
  PoolSize = 1
  BatchDisabled = TRUE
  FixNotif = FALSE
  FixNonRequest = FALSE
  FixLongWs = FALSE
  FarChoices = {TRUE, FALSE}
INIT TableInit
NEXT TableNext
INVARIANTS TypeOK PShape POnePerEntry PResponses PTopLevel PInvocations PInFlight
CHECK_DEADLOCK FALSE

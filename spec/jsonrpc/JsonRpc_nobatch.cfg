\* the code as it is, server with DisableBatchRequests(true); rows exported.  measured: 1 414 distinct states
CONSTANTS
  Methods <- MCMethods
  EntryAlphabet <- EntriesSmall
  TopKinds <- AllTops
  MaxEntries = 2
  PoolSize = 1
  BatchDisabled = TRUE
  FixNotif = TRUE
  FixNonRequest = FALSE
  FixLongWs = TRUE
  FarChoices = {TRUE, FALSE}
  FixNullRequired = FALSE
  HasValidator = TRUE
  NilPointerSkipsValidation = TRUE
  CtxChoices = {"live"}
  GateChoices = {FALSE}
  SilentOnCtx = {}
INIT TableInit
NEXT TableNext
INVARIANTS TypeOK PShape POnePerEntry PResponses PTopLevel PInvocations PInFlight
CHECK_DEADLOCK FALSE

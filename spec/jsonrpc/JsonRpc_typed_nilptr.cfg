\* EXPECTED VIOLATION: the mechanism NilPointerSkipsValidation switched off (validateParam asks the static
\* type, not the value, whether a pointer points to a struct): an explicit null for an optional *T
\* parameter is refused and the handler never runs - PInvocations fails.
CONSTANTS
  Methods <- MCMethods
  EntryAlphabet <- EntriesTyped
  TopKinds = {"single", "batch"}
  MaxEntries = 1
  PoolSize = 1
  BatchDisabled = FALSE
  FixNotif = TRUE
  FixNonRequest = FALSE
  FixLongWs = TRUE
  FarChoices = {FALSE}
  FixNullRequired = TRUE
  HasValidator = TRUE
  NilPointerSkipsValidation = FALSE
  CtxChoices = {"live"}
  GateChoices = {FALSE}
  SilentOnCtx = {}
INIT Init
NEXT Next
VIEW view
INVARIANTS PInvocations
CHECK_DEADLOCK FALSE

---------------------------- MODULE JsonRpcCtxMBT ----------------------------
(* Behaviour export for the context dimension (harness/engines/jsonrpc/ctx_test.go, TestJsonRpcCtx).

   tlc -simulate draws batches over EntriesCtx, the state the exchange's context arrives in, and a SCHEDULE the
   replayer can enforce on the real server: its handlers park at gates, so the replayer decides when a handler
   returns ("add") and when the context ends ("ctx") - everything else the real server does on its own as soon as
   it can (the dispatcher hands the next entry to a free worker, a worker calls the handler, an entry that reaches
   no handler is answered right away).  SimRunCtx therefore takes an autonomous step whenever one is enabled and
   a controlled one otherwise; hist is the list of steps, in order.  With a pool smaller than the batch this is
   exactly "a slow first entry, the deadline expires in between, the remaining entries are dispatched after it". *)
EXTENDS JsonRpcMBT

VARIABLE hist
ctxmbtvars == <<mbtvars, hist>>

H(a, i, s) == [a |-> a, i |-> i, s |-> s]

RCtxEntry(d) ==
  LET r == RandomElement(1..20) IN
  IF r <= 5 THEN Obj("v2", "m2", PPos(<<"p", "p">>), "int")
  ELSE IF r <= 7 THEN Obj("v2", "m2", PNamed("q", "p", NoTok), "str")
  ELSE IF r <= 11 THEN Obj("v2", "mctx", PPos(<<"p">>), "int")
  ELSE IF r <= 13 THEN Obj("v2", "mctx", PNamed("p", "q", NoTok), "str")
  ELSE IF r = 14 THEN Obj("v2", "m1o", PPos(<<"p">>), "absent")
  ELSE IF r = 15 THEN Obj("v2", "mctx", PPos(<<"p", "p">>), "null")
  ELSE IF r = 16 THEN Obj("v2", "unknown", PNull, "int")
  ELSE IF r = 17 THEN Obj("v2", "m2", PPos(<<"p">>), "str")
  ELSE IF r = 18 THEN Obj("v1", "m2", PPos(<<"p", "p">>), "int")
  ELSE NonObj("scalar")

Invokes(i) == i \in DOMAIN entries /\ ~DecodeErr(entries[i]) /\ HandleRequest(i, entries[i]).inv # NoInv

CtxMBTInit == MBTInit /\ hist = <<>>

CtxBuild ==
  \/ /\ top = "none" /\ ChooseTop("batch", FALSE) /\ want' = RandomElement(1..MaxEntries) /\ hist' = hist
  \/ /\ top = "batch" /\ Len(entries) < want /\ want' = want /\ hist' = hist
     /\ \E e \in {RCtxEntry(Len(entries))} : AddEntry(e)
  \/ /\ top = "batch" /\ Len(entries) = want /\ want' = want /\ hist' = hist /\ Serve

(* what the real server does by itself ... *)
Autonomous ==
  \/ Dispatch /\ hist' = Append(hist, H("dispatch", nxt, "-"))
  \/ \E i \in Idx : Call(i) /\ hist' = Append(hist, H("call", i, cx))
  \/ \E i \in DOMAIN entries : ~Invokes(i) /\ Add(i) /\ hist' = Append(hist, H("add", i, "-"))
  \/ Finish /\ hist' = hist
(* ... and what the replayer decides: a parked handler returns, the context ends *)
Controlled ==
  \/ \E i \in DOMAIN entries : Invokes(i) /\ Add(i) /\ hist' = Append(hist, H("add", i, "-"))
  \/ \E s \in CtxChoices : CtxEnd(s) /\ hist' = Append(hist, H("ctx", 0, s))

SimRunCtx == /\ IF ENABLED Autonomous THEN Autonomous ELSE Controlled
             /\ want' = want

CtxRow == [row |-> Row, steps |-> hist]

CtxEmit ==
  /\ PrintT(ToJson(CtxRow))
  /\ top' = "none" /\ far' = FALSE /\ entries' = <<>> /\ phase' = "build" /\ nxt' = 1 /\ running' = {}
  /\ called' = [i \in Idx |-> NoResp] /\ stage' = [i \in Idx |-> "idle"]
  /\ out' = <<>> /\ shape' = "pending" /\ log' = <<>> /\ want' = 0
  /\ cx' = "live" /\ cx0' = "live" /\ gated' = FALSE /\ seen' = <<>> /\ hist' = <<>>

CtxMBTNext == IF phase = "done" THEN CtxEmit ELSE IF phase = "build" THEN CtxBuild ELSE SimRunCtx
=============================================================================

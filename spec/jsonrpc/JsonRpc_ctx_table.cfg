\* the code as it is, the context dimension: every single request and every batch of one entry over the 18 class
\* representatives, all top-level kinds, context live / expired / cancelled at arrival (and ending during the dispatch of
\* the batch of one), with and without the HTTP gate; one row per finished exchange is exported for the replayer
CONSTANTS
  Methods <- MCMethods
  EntryAlphabet <- EntriesSmall
  TopKinds <- AllTops
  MaxEntries = 1
  PoolSize = 1
  BatchDisabled = FALSE
  FixNotif = TRUE
  FixNonRequest = FALSE
  FixLongWs = TRUE
  FarChoices = {FALSE}
  FixNullRequired = FALSE
  HasValidator = TRUE
  NilPointerSkipsValidation = TRUE
  CtxChoices = {"live", "expired", "cancelled"}
  GateChoices = {TRUE, FALSE}
  SilentOnCtx = {}
INIT TableInit
NEXT TableNext

INVARIANTS TypeOK PShape POnePerEntry PResponses PTopLevel PInvocations PInFlight PRefusal PHandlerOnceOrError PCtxSeen
CHECK_DEADLOCK FALSE

----------------------------- MODULE JsonRpcMBT -----------------------------
(* Behaviour export for the replayer (harness/engines/jsonrpc).

   Two uses:
   * TableNext  - the exhaustive run over MaxEntries = 1 prints one row per finished exchange
                  (every single request and every batch of one entry over the full alphabet).
   * MBTNext    - tlc -simulate: random batches (weighted member choice, random length, random
                  interleaving of dispatcher / calls / appends); a row is printed when the
                  exchange is done and the machine is reset, so one run yields many behaviours.

   A row carries the input, what the model of the code AS IT IS answers (cur), what the property
   promises per entry (exp, independent of the switches) and the owed handler invocations. *)
EXTENDS MCJsonRpc, Json

VARIABLE want      \* simulation only: length of the batch being built
mbtvars == <<vars, want>>

ExpRow(i) == [exp |-> DeclExpected(i, entries[i]),
              inv |-> DeclInv(i, entries[i]),
              cls |-> Class(entries[i]),
              notif |-> IsNotification(entries[i]),
              decodeerr |-> DecodeErr(entries[i])]

Row == [top |-> top, far |-> far, entries |-> entries, shape |-> shape, out |-> out, log |-> log,
        per |-> [i \in DOMAIN entries |-> ExpRow(i)],
        nobatch |-> BatchDisabled, validator |-> HasValidator, processed |-> PureProcessed, topcode |-> PureTopCode,
        \* the context dimension: its state at arrival and at the end, the transport's gate, what the handlers saw
        cx0 |-> cx0, cx |-> cx, gated |-> gated, seen |-> seen, pool |-> PoolSize]

fullview == <<view, want>>

(* ---- exhaustive table ---- *)
TableInit == Init /\ want = 0
TableNext ==
  /\ Next /\ want' = want
  /\ (phase # "done" /\ phase' = "done") => PrintT(ToJson(Row'))

TableNextQuiet == Next /\ want' = want

(* ---- simulation ---- *)
Pick(s) == s[RandomElement(1..Len(s))]

\* the dummy parameter keeps TLC from treating these as constants (evaluated once)
RTok(d)  == Pick(<<"p", "p", "p", "q", "q", "nul", "bad">>)
RTokN(d) == Pick(<<"p", "p", "q", "nul", "bad", NoTok, NoTok, NoTok>>)
RPos(d)  == LET n == Pick(<<0, 1, 1, 2, 2, 2, 3>>) IN [i \in 1..n |-> RTok(i)]
RParams(d) ==
  LET k == Pick(<<"absent", "absent", "null", "scalar", "pos", "pos", "pos", "pos", "named", "named", "named", "named">>) IN
  IF k = "absent" THEN PAbsent ELSE IF k = "null" THEN PNull ELSE IF k = "scalar" THEN PScalar
  ELSE IF k = "pos" THEN PPos(RPos(d))
  ELSE PNamed(RTokN(1), RTokN(2), Pick(<<NoTok, NoTok, NoTok, NoTok, "p", "nul">>))
RObj(d) ==
  Obj(Pick(<<"v2", "v2", "v2", "v2", "v2", "v2", "v2", "v2", "v1", "num", "absent", "null">>),
      Pick(<<"m0", "m2", "m2", "m2", "m1o", "m1o", "m1o", "mctx", "mctx", "unknown", "unknown",
             "empty", "nonstr", "absent", "null">>),
      RParams(d),
      Pick(<<"int", "int", "int", "int", "str", "str", "str", "absent", "absent", "absent", "null",
             "float", "obj", "bool", "arr">>))
\* a typed method: every slot draws from the tokens its type class has (null and good values weighted)
RTokTy(ty) == Pick(<<"p", "p", "p", "nul", "nul", RandomElement(TokOf(ty)), RandomElement(TokOf(ty))>>)
RTyped(d) ==
  LET m  == RandomElement(TMethods)
      ta == MCMethods[m].params[1].ty
      tb == MCMethods[m].params[2].ty
      k  == Pick(<<"absent", "null", "pos", "pos", "pos", "named", "named", "named", "named">>)
      n  == Pick(<<0, 1, 1, 2, 2, 2, 3>>)
      va == Pick(<<NoTok, RTokTy(ta), RTokTy(ta)>>)
      vb == Pick(<<NoTok, RTokTy(tb), RTokTy(tb)>>)
      p  == IF k = "absent" THEN PAbsent ELSE IF k = "null" THEN PNull
            ELSE IF k = "pos" THEN PPos([i \in 1..n |-> IF i = 1 THEN RTokTy(ta) ELSE IF i = 2 THEN RTokTy(tb) ELSE "p"])
            ELSE PNamed(va, vb, Pick(<<NoTok, NoTok, NoTok, NoTok, NoTok, "p">>))
  IN Obj("v2", m, p, Pick(<<"int", "int", "int", "str", "str", "absent", "null">>))
REntry(d) == IF RandomElement(1..12) = 1 THEN Pick(<<NonObj("scalar"), NonObj("null"), NonObj("arr")>>)
             ELSE IF RandomElement(1..4) = 1 THEN RTyped(d)
             ELSE RObj(d)

MBTInit == Init /\ want = 0

SimBuild ==
  \/ /\ top = "none" /\ ChooseTop("batch", FALSE) /\ want' = RandomElement(1..MaxEntries)
  \/ /\ top = "batch" /\ Len(entries) < want /\ want' = want
     /\ \E e \in {REntry(Len(entries))} : AddEntry(e)
  \/ /\ top = "batch" /\ Len(entries) = want /\ want' = want /\ Serve

SimRun == /\ (Dispatch \/ Finish \/ \E i \in Idx : Call(i) \/ Add(i))
          /\ want' = want

Emit ==
  /\ PrintT(ToJson(Row))
  /\ top' = "none" /\ far' = FALSE /\ entries' = <<>> /\ phase' = "build" /\ nxt' = 1 /\ running' = {}
  /\ called' = [i \in Idx |-> NoResp] /\ stage' = [i \in Idx |-> "idle"]
  /\ out' = <<>> /\ shape' = "pending" /\ log' = <<>> /\ want' = 0
  /\ cx' = "live" /\ cx0' = "live" /\ gated' = FALSE /\ seen' = <<>>

MBTNext == IF phase = "done" THEN Emit ELSE IF phase = "build" THEN SimBuild ELSE SimRun
=============================================================================

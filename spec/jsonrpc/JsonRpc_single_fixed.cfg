\* every single request and every batch of one entry over the full member alphabet; REPAIRED model = the pure property
\* measured: see checks/C11.py evidence (about 0.6 M distinct states)
CONSTANTS
  Methods <- MCMethods
  EntryAlphabet <- EntriesFull
  TopKinds <- AllTops
  MaxEntries = 1
  PoolSize = 1
  BatchDisabled = FALSE
  FixNotif = TRUE
  FixNonRequest = TRUE
  FixLongWs = TRUE
  FarChoices = {FALSE}
INIT Init
NEXT Next
VIEW view
INVARIANTS TypeOK PShape POnePerEntry PResponses PTopLevel PInvocations PInFlight
CHECK_DEADLOCK FALSE

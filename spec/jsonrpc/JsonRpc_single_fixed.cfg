\* REPAIRED model (all switches TRUE) = the pure property; same space as JsonRpc_table.cfg
\* measured: 569 162 distinct states, depth 8
CONSTANTS
  Methods <- MCMethods
  EntryAlphabet <- EntriesFull
  TopKinds <- AllTops
  MaxEntries = 1
  PoolSize = 1
  BatchDisabled = FALSE
  FixNotif = TRUE
  FixNonRequest = TRUE
  FixLongWs = TRUE
  FarChoices = {FALSE}
  FixNullRequired = TRUE
  HasValidator = TRUE
  NilPointerSkipsValidation = TRUE
  CtxChoices = {"live"}
  GateChoices = {FALSE}
  SilentOnCtx = {}
INIT TableInit
NEXT TableNextQuiet
VIEW fullview
INVARIANTS TypeOK PShape POnePerEntry PResponses PTopLevel PInvocations PInFlight
CHECK_DEADLOCK FALSE

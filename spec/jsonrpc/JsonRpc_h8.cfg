\* PRE-FIX model (FixNotif = FALSE) against the PURE property: TLC must find H8 (expected violation)
CONSTANTS
  Methods <- MCMethods
  EntryAlphabet <- EntriesSmall
  TopKinds = {"single", "batch"}
  MaxEntries = 2
  PoolSize = 2
  BatchDisabled = FALSE
  FixNotif = FALSE
  FixNonRequest = TRUE
  FixLongWs = FALSE
  FarChoices = {FALSE}
  FixNullRequired = FALSE
  HasValidator = TRUE
  NilPointerSkipsValidation = TRUE
  CtxChoices = {"live"}
  GateChoices = {FALSE}
  SilentOnCtx = {}
INIT Init
NEXT Next
VIEW view
INVARIANTS PureNotifSilent
CHECK_DEADLOCK FALSE

\* EXPECTED VIOLATION: the mutant "an entry whose context is cancelled is skipped": neither invoked nor told - PHandlerOnceOrError fails.
CONSTANTS
  Methods <- MCMethods
  EntryAlphabet <- EntriesCtx
  TopKinds = {"single", "batch"}
  MaxEntries = 2
  PoolSize = 1
  BatchDisabled = FALSE
  FixNotif = TRUE
  FixNonRequest = FALSE
  FixLongWs = TRUE
  FarChoices = {FALSE}
  FixNullRequired = FALSE
  HasValidator = TRUE
  NilPointerSkipsValidation = TRUE
  CtxChoices = {"live", "expired", "cancelled"}
  GateChoices = {FALSE}
  SilentOnCtx = {"cancelled"}
INIT Init
NEXT Next
VIEW view
INVARIANTS PHandlerOnceOrError
CHECK_DEADLOCK FALSE

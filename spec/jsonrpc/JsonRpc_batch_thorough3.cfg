\* batches of <= 4 entries over 10 class representatives, pool of 2 workers, every interleaving of
\* dispatcher / handler calls / response appends; the code as it is
CONSTANTS
  Methods <- MCMethods
  EntryAlphabet <- EntriesTiny
  TopKinds = {"batch"}
  MaxEntries = 4
  PoolSize = 3
  BatchDisabled = FALSE
  FixNotif = FALSE
  FixNonRequest = FALSE
  FixLongWs = FALSE
  FarChoices = {FALSE}
INIT Init
NEXT Next
VIEW view
INVARIANTS TypeOK PShape POnePerEntry PResponses PTopLevel PInvocations PInFlight
CHECK_DEADLOCK FALSE

\* REPAIRED model; all top-level kinds, <= 2 class representatives, with and without long leading whitespace
\* measured: 8 924 distinct / 11 202 generated states, depth 12
CONSTANTS
  Methods <- MCMethods
  EntryAlphabet <- EntriesSmall
  TopKinds <- AllTops
  MaxEntries = 2
  PoolSize = 2
  BatchDisabled = FALSE
  FixNotif = TRUE
  FixNonRequest = TRUE
  FixLongWs = TRUE
  FarChoices = {TRUE, FALSE}
  FixNullRequired = TRUE
  HasValidator = TRUE
  NilPointerSkipsValidation = TRUE
  CtxChoices = {"live"}
  GateChoices = {FALSE}
  SilentOnCtx = {}
INIT Init
NEXT Next
VIEW view

INVARIANTS TypeOK PShape POnePerEntry PResponses PTopLevel PInvocations PInFlight
CHECK_DEADLOCK FALSE

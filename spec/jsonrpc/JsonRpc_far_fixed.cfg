\* inputs with >= 128 bytes of leading whitespace (all top kinds, <= 2 entries of the class representatives); exported
CONSTANTS
  Methods <- MCMethods
  EntryAlphabet <- EntriesSmall
  TopKinds <- AllTops
  MaxEntries = 2
  PoolSize = 2
  BatchDisabled = FALSE
  FixNotif = TRUE
  FixNonRequest = TRUE
  FixLongWs = TRUE
  FarChoices = {TRUE, FALSE}
INIT Init
NEXT Next
VIEW view

INVARIANTS TypeOK PShape POnePerEntry PResponses PTopLevel PInvocations PInFlight
CHECK_DEADLOCK FALSE

\* the code as it is: batches of <= 3 entries over 18 class representatives, pool of 2 workers, every
\* interleaving of dispatcher / handler calls / response appends
\* measured: 177 528 distinct / 247 653 generated states, depth 16 (10-25 s)
CONSTANTS
  Methods <- MCMethods
  EntryAlphabet <- EntriesSmall
  TopKinds = {"batch"}
  MaxEntries = 3
  PoolSize = 2
  BatchDisabled = FALSE
  FixNotif = TRUE
  FixNonRequest = FALSE
  FixLongWs = TRUE
  FarChoices = {FALSE}
  FixNullRequired = FALSE
  HasValidator = TRUE
  NilPointerSkipsValidation = TRUE
  CtxChoices = {"live"}
  GateChoices = {FALSE}
  SilentOnCtx = {}
INIT Init
NEXT Next
VIEW view
INVARIANTS TypeOK PShape POnePerEntry PResponses PTopLevel PInvocations PInFlight
CHECK_DEADLOCK FALSE

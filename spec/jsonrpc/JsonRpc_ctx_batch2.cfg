\* the code as it is, the context dimension: batches of <= 3 entries over 10 class representatives on TWO workers
CONSTANTS
  Methods <- MCMethods
  EntryAlphabet <- EntriesCtx
  TopKinds = {"batch"}
  MaxEntries = 3
  PoolSize = 2
  BatchDisabled = FALSE
  FixNotif = TRUE
  FixNonRequest = FALSE
  FixLongWs = TRUE
  FarChoices = {FALSE}
  FixNullRequired = FALSE
  HasValidator = TRUE
  NilPointerSkipsValidation = TRUE
  CtxChoices = {"live", "expired", "cancelled"}
  GateChoices = {FALSE}
  SilentOnCtx = {}
INIT Init
NEXT Next
VIEW view
INVARIANTS TypeOK PShape POnePerEntry PResponses PTopLevel PInvocations PInFlight PRefusal PHandlerOnceOrError PCtxSeen
CHECK_DEADLOCK FALSE

\* the code as it is: batches of <= 4 entries over 10 class representatives, pool of 2 workers
\* measured: 721 479 distinct / 1 077 919 generated states (29 s on 8 workers)
CONSTANTS
  Methods <- MCMethods
  EntryAlphabet <- EntriesTiny
  TopKinds = {"batch"}
  MaxEntries = 4
  PoolSize = 2
  BatchDisabled = FALSE
  FixNotif = TRUE
  FixNonRequest = FALSE
  FixLongWs = TRUE
  FarChoices = {FALSE}
  FixNullRequired = FALSE
  HasValidator = TRUE
  NilPointerSkipsValidation = TRUE
  CtxChoices = {"live"}
  GateChoices = {FALSE}
  SilentOnCtx = {}
INIT Init
NEXT Next
VIEW view
INVARIANTS TypeOK PShape POnePerEntry PResponses PTopLevel PInvocations PInFlight
CHECK_DEADLOCK FALSE

---------------------------- MODULE MCJsonRpcFull ----------------------------
(* The full entry alphabet, kept in its own module because TLC evaluates every constant-level
   definition at start-up (about 5 s for this one) whether the configuration uses it or not. *)
EXTENDS JsonRpcMBT

(* every combination of the member alphabets: 5 * 9 * 212 * 8 + 3 = 76 323 entries *)
EntriesFull == {Obj(v, m, p, i) : v \in VersFull, m \in MethsFull, p \in ParamsFull, i \in IdsFull} \cup NonObjs
=============================================================================

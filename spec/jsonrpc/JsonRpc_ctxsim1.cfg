\* behaviour generation (tlc -simulate), the context dimension: batches of <= 4 entries on ONE worker with a replayable schedule
CONSTANTS
  Methods <- MCMethods
  EntryAlphabet <- EntriesCtx
  TopKinds = {"batch"}
  MaxEntries = 4
  PoolSize = 1
  BatchDisabled = FALSE
  FixNotif = TRUE
  FixNonRequest = FALSE
  FixLongWs = TRUE
  FarChoices = {FALSE}
  FixNullRequired = FALSE
  HasValidator = TRUE
  NilPointerSkipsValidation = TRUE
  CtxChoices = {"live", "expired", "cancelled"}
  GateChoices = {FALSE}
  SilentOnCtx = {}
INIT CtxMBTInit
NEXT CtxMBTNext

INVARIANTS TypeOK PShape POnePerEntry PResponses PTopLevel PInvocations PInFlight PRefusal PHandlerOnceOrError PCtxSeen
CHECK_DEADLOCK FALSE

\* the code as it is: every single request and every batch of one entry over the full member alphabet
\* (76 323 entries); one row per finished exchange is exported for the replayer.
\* measured: 569 162 distinct = generated states, depth 8, 153 368 rows (25-45 s on 4 workers)
CONSTANTS
  Methods <- MCMethods
  EntryAlphabet <- EntriesFull
  TopKinds <- AllTops
  MaxEntries = 1
  PoolSize = 1
  BatchDisabled = FALSE
  FixNotif = TRUE
  FixNonRequest = FALSE
  FixLongWs = TRUE
  FarChoices = {FALSE}
  FixNullRequired = FALSE
  HasValidator = TRUE
  NilPointerSkipsValidation = TRUE
  CtxChoices = {"live"}
  GateChoices = {FALSE}
  SilentOnCtx = {}
INIT TableInit
NEXT TableNext

INVARIANTS TypeOK PShape POnePerEntry PResponses PTopLevel PInvocations PInFlight
CHECK_DEADLOCK FALSE

\* every single request and every batch of one entry over the full member alphabet; the code as it is
\* measured: see checks/C11.py evidence (about 0.6 M distinct states)
CONSTANTS
  Methods <- MCMethods
  EntryAlphabet <- EntriesFull
  TopKinds <- AllTops
  MaxEntries = 1
  PoolSize = 1
  BatchDisabled = FALSE
  FixNotif = FALSE
  FixNonRequest = FALSE
  FixLongWs = FALSE
  FarChoices = {FALSE}
INIT TableInit
NEXT TableNext

INVARIANTS TypeOK PShape POnePerEntry PResponses PTopLevel PInvocations PInFlight
CHECK_DEADLOCK FALSE

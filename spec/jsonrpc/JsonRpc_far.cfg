\* inputs with >= 128 bytes of leading whitespace (all top kinds, <= 2 entries of the class representatives); exported
CONSTANTS
  Methods <- MCMethods
  EntryAlphabet <- EntriesSmall
  TopKinds <- AllTops
  MaxEntries = 2
  PoolSize = 2
  BatchDisabled = FALSE
  FixNotif = FALSE
  FixNonRequest = FALSE
  FixLongWs = FALSE
  FarChoices = {TRUE, FALSE}
INIT TableInit
NEXT TableNext

INVARIANTS TypeOK PShape POnePerEntry PResponses PTopLevel PInvocations PInFlight
CHECK_DEADLOCK FALSE

\* the code as it is: all top-level kinds, <= 2 class representatives, with and without >= 128 bytes of leading
\* whitespace; rows exported.  measured: 8 924 distinct states
CONSTANTS
  Methods <- MCMethods
  EntryAlphabet <- EntriesSmall
  TopKinds <- AllTops
  MaxEntries = 2
  PoolSize = 2
  BatchDisabled = FALSE
  FixNotif = TRUE
  FixNonRequest = FALSE
  FixLongWs = TRUE
  FarChoices = {TRUE, FALSE}
  FixNullRequired = FALSE
  HasValidator = TRUE
  NilPointerSkipsValidation = TRUE
  CtxChoices = {"live"}
  GateChoices = {FALSE}
  SilentOnCtx = {}
INIT TableInit
NEXT TableNext

INVARIANTS TypeOK PShape POnePerEntry PResponses PTopLevel PInvocations PInFlight
CHECK_DEADLOCK FALSE

\* EXPECTED VIOLATION: the code as it was found (FixNullRequired = FALSE) against the PURE property: a JSON null for
\* a REQUIRED pointer parameter is handed to the handler as a nil pointer instead of being refused as a missing
\* parameter - PureInvocations fails.
CONSTANTS
  Methods <- MCMethods
  EntryAlphabet <- EntriesTyped
  TopKinds = {"single", "batch"}
  MaxEntries = 1
  PoolSize = 1
  BatchDisabled = FALSE
  FixNotif = TRUE
  FixNonRequest = FALSE
  FixLongWs = TRUE
  FarChoices = {FALSE}
  FixNullRequired = FALSE
  HasValidator = TRUE
  NilPointerSkipsValidation = TRUE
  CtxChoices = {"live"}
  GateChoices = {FALSE}
  SilentOnCtx = {}
INIT Init
NEXT Next
VIEW view
INVARIANTS PureInvocations
CHECK_DEADLOCK FALSE

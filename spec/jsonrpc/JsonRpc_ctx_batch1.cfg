\* the code as it is, THE CONTEXT DIMENSION: batches of <= 3 entries over 10 class representatives on ONE worker; the
\* context arrives live / expired / cancelled or ends at any moment of the dispatch (before the first entry has the worker,
\* while an earlier entry occupies it, between two entries, after the last); with and without the HTTP gate
CONSTANTS
  Methods <- MCMethods
  EntryAlphabet <- EntriesCtx
  TopKinds = {"batch"}
  MaxEntries = 3
  PoolSize = 1
  BatchDisabled = FALSE
  FixNotif = TRUE
  FixNonRequest = FALSE
  FixLongWs = TRUE
  FarChoices = {FALSE}
  FixNullRequired = FALSE
  HasValidator = TRUE
  NilPointerSkipsValidation = TRUE
  CtxChoices = {"live", "expired", "cancelled"}
  GateChoices = {TRUE, FALSE}
  SilentOnCtx = {}
INIT Init
NEXT Next
VIEW view
INVARIANTS TypeOK PShape POnePerEntry PResponses PTopLevel PInvocations PInFlight PRefusal PHandlerOnceOrError PCtxSeen
CHECK_DEADLOCK FALSE

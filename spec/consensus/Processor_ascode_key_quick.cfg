\* the code as it is, routing properties only: the full key isolates the instances whatever else is wrong
CONSTANTS
  Configs <- PConfigs
  Lens <- PLens
  FixH5 = TRUE
  FixLeaf = FALSE
  FixNonce = TRUE
  FixUnpad = TRUE
  FixProto = TRUE
  FixShardLens = TRUE
  MaxSession = 2
  RecordOnlyAccepted = TRUE
  NP = 4
  Loc <- MCLoc
  Pubs <- MCPubs
  Signed <- SignedCN
  Fields <- FieldsCN
  KeyDrop = {}
  FinDrop = {}
  FinalizeRecords = TRUE
  EventsWired = FALSE
  AbortPoisons = TRUE
  MaxSteps = 5
INIT PInit
NEXT PNext
VIEW PView
INVARIANTS AcceptedOnlySigned OneSubPerInstance AtMostOnce CompleteMeansThreshold CacheOnlyFinalized
PROPERTIES JudgedByOwn OthersUntouched DroppedOnlyOwn DeliveredIsClosed
CHECK_DEADLOCK FALSE

\* C14 quick, reference-count dimension (which logs may the prune cleanup remove?): exhaustive, <= 8 client-level
\* steps, heights 1..2, 3 entries (a height in two logs + a later height in the second), 3 log files, a cleanup at
\* EVERY prune record, no write faults.  Measured (4 workers): 45 472 distinct / 81 841 generated states, depth 25, ~5 s.
CONSTANTS
  MaxH = 2
  MaxEntries = 3
  MaxBatch = 2
  MaxFiles = 3
  MaxSteps = 8
  CleanupInterval = 1
  Faults = FALSE
  WatermarkFirst = TRUE
  RefCount = "pair"
INIT Init
NEXT Next
VIEW view
INVARIANTS TypeOK ReadsFlushed CrashSafe DownSafe OpenNeverFails NoRevival LiveFilesKept RefsExact
PROPERTIES CleanupKeepsLive CleanupRemovesDead
CHECK_DEADLOCK FALSE
